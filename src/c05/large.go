package c05

// Section "large": values of a file-backed buffer that are larger than the buffers
// and caches on the way from the file to the output (read-ahead cache block 512 KiB,
// copy buffers 32 KiB / 64 KiB, the fifo of the byte view). Every (start, stop) pair of
// a bit grid placed around those boundaries, through the command line (real open
// stack: ctxreadseeker -> progress -> read-ahead -> bit reader), as a decode value
// (decode("bits")) and as a plain binary, converted with tobytes, tobits and the md5 /
// hex renderings; raw stdout compared bit for bit with the harness' slice of the file.

import (
	"bytes"
	"crypto/md5"
	"encoding/hex"
	"encoding/json"
	"fmt"
	"strings"

	"github.com/wader/fq/internal/verif/core"
)

// LargeCase is one replayable run.
type LargeCase struct {
	Size  int    `json:"file_size"`
	Start int64  `json:"start_bit"`
	Stop  int64  `json:"stop_bit"`
	Expr  string `json:"expr"`
	Mode  string `json:"mode"` // raw-bytes | raw-bits | raw-either | md5 | hex | render:<bits_format>
}

// largeData: position dependent content (every 4 byte window is distinct enough
// that a shifted or repeated block is visible).
func largeData(n int) []byte {
	b := make([]byte, n)
	x := uint32(0x9e3779b9)
	for i := range b {
		x = x*1664525 + 1013904223
		b[i] = byte(x>>24) ^ byte(i) ^ byte(i>>11)
	}
	return b
}

const (
	blk  = 512 * 1024 * 8 // read-ahead cache block, bits
	cp32 = 32 * 1024 * 8
	cp64 = 64 * 1024 * 8
)

func largeGrid(r *core.Run, size int) (starts, stops []int64) {
	total := int64(size) * 8
	starts = []int64{0, 3, 5, 8, 13, cp32 - 3, cp32 + 8, blk - 5, blk, blk + 3}
	stops = []int64{total, total - 3, total - 8, total - 11, blk - 3, blk, blk + 5, blk + 8, cp32 + 5, cp64 + 5, cp64 + cp32 - 3, 3 * cp32, 99*1024*8 + 5}
	if r.Thorough() {
		starts = append(starts, 1, 7, 9, cp64-1, cp64+1, blk-8, blk+8, 2*blk-3, 2*blk+5)
		stops = append(stops, total-1, total-7, 2*blk-5, 2*blk, 2*blk+3, blk+cp32+3, cp64-3, cp64, cp64+8)
	}
	return
}

// dvProg: a decoder DSL program whose field r is a raw decode value over bits [a,b).
func dvProg(a, b int64) string {
	p := fmt.Sprintf(`{"k":"raw","n":"r","w":%d}`, b-a)
	if a > 0 {
		p = fmt.Sprintf(`{"k":"raw","n":"h","w":%d},`, a) + p
	}
	q, _ := json.Marshal("[" + p + "]")
	return `decode("vdsl"; {prog: ` + string(q) + `}) | .r`
}

func binExpr(a, b int64) string { return fmt.Sprintf(`tobits[%d:%d]`, a, b) }

var largeExprs = []struct {
	mode, name string
	expr       func(a, b int64) string
}{
	{"raw-bytes", "decode value | tobytes", func(a, b int64) string { return dvProg(a, b) + ` | tobytes` }},
	{"raw-bits", "decode value | tobits", func(a, b int64) string { return dvProg(a, b) + ` | tobits` }},
	{"raw-either", "decode value | ._bytes", func(a, b int64) string { return dvProg(a, b) + ` | ._bytes` }},
	{"md5", "decode value | tovalue md5", func(a, b int64) string { return dvProg(a, b) + ` | tovalue({bits_format: "md5"})` }},
	{"hex", "decode value | tovalue hex", func(a, b int64) string { return dvProg(a, b) + ` | tovalue({bits_format: "hex"})` }},
	{"render:byte_array", "decode value | tovalue byte_array", func(a, b int64) string { return dvProg(a, b) + ` | tovalue({bits_format: "byte_array"})` }},
	{"render:base64", "decode value | tovalue base64", func(a, b int64) string { return dvProg(a, b) + ` | tovalue({bits_format: "base64"})` }},
	{"render:truncate", "decode value | tovalue truncate | tobytes", func(a, b int64) string {
		return dvProg(a, b) + ` | tovalue({bits_format: "truncate"}) | tobytes`
	}},
	{"render:snippet", "decode value | tovalue snippet", func(a, b int64) string { return dvProg(a, b) + ` | tovalue({bits_format: "snippet"})` }},
	{"raw-either", "decode value | tovalue string | tobytes", func(a, b int64) string { return dvProg(a, b) + ` | tovalue({bits_format: "string"}) | tobytes` }},
	{"raw-either", "decode value | tovalue (default bits_format) | tobytes", func(a, b int64) string { return dvProg(a, b) + ` | tovalue | tobytes` }},
	{"raw-bytes", "decode value | tobytes | tobytes[0:]", func(a, b int64) string { return dvProg(a, b) + ` | tobytes | tobytes[0:]` }},
	{"raw-bytes", "binary | tobytes", func(a, b int64) string { return binExpr(a, b) + ` | tobytes` }},
	{"raw-bits", "binary | decode bits | tobits", func(a, b int64) string { return binExpr(a, b) + ` | decode("bits") | tobits` }},
	{"raw-bytes", "binary | decode bits | tobytes", func(a, b int64) string { return binExpr(a, b) + ` | decode("bits") | tobytes` }},
}

func runLarge(r *core.Run) bool {
	sizes := []int{512*1024 + 3, 2*512*1024 + 3}
	var idx int64
	for _, size := range sizes {
		data := largeData(size)
		top := BitBufFromBytes(data)
		starts, stops := largeGrid(r, size)
		for _, a := range starts {
			for _, b := range stops {
				if a >= b || b > int64(size)*8 {
					continue
				}
				for _, ex := range largeExprs {
					idx++
					if !r.Mine(idx) {
						continue
					}
					if r.Expired() {
						r.NotExhaustive("deadline during the large value part")
						return false
					}
					c := LargeCase{Size: size, Start: a, Stop: b, Expr: ex.expr(a, b), Mode: ex.mode}
					r.Case(idx, "large "+c.Expr)
					if why := judgeLarge(c, data, top); why != "" {
						r.Violate("large:"+ex.mode+":"+ex.name, fmt.Sprintf("file of %d position dependent bytes: fq -d bytes '%s' in.bin: %s", size, c.Expr, why), map[string]any{"large": &c})
					}
					r.Count("large_runs", 1)
					r.Eval(1)
					if a%8 != 0 || (b-a)%8 != 0 {
						r.Nontrivial(fmt.Sprintf("large:%d:%d:%d:%s", size, a, b, ex.name))
					}
				}
			}
		}
	}
	r.Sample(map[string]any{"large": LargeCase{Size: sizes[0], Start: 5, Stop: int64(sizes[0])*8 - 3, Expr: largeExprs[0].expr(5, int64(sizes[0])*8-3), Mode: "raw-bytes"}})
	return true
}

func judgeLarge(c LargeCase, data []byte, top BitBuf) string {
	n := c.Stop - c.Start
	args := []string{"-d", "bytes", c.Expr, "in.bin"}
	if c.Mode == "md5" || c.Mode == "hex" || c.Mode == "render:base64" || c.Mode == "render:snippet" {
		args = append([]string{"-r"}, args...)
	}
	if c.Mode == "render:byte_array" {
		args = append([]string{"-c"}, args...)
	}
	res := runFQ(args, data)
	if res.Panic != nil || res.Exit != 0 {
		return fmt.Sprintf("exit %d panic %v stderr %q", res.Exit, res.Panic, trunc(string(res.Stderr), 200))
	}
	lead := (8 - n%8) % 8
	var want []byte
	switch c.Mode {
	case "raw-bytes":
		want = top.Extract(c.Start, n, lead).B
	case "raw-bits":
		want = top.Extract(c.Start, n, 0).B
	case "raw-either":
		// ._bytes is the value's bits as a binary with byte unit; written raw it is zero
		// padded to whole bytes and the documentation does not say on which side
		want = top.Extract(c.Start, n, 0).B
		if bytes.Equal(res.Stdout, top.Extract(c.Start, n, lead).B) {
			return ""
		}
	case "render:byte_array", "render:base64", "render:snippet", "render:truncate":
		// the renderings of the small trees (judge.go), here for values larger than the
		// copy buffers: decoded back by checkRender
		f := strings.TrimPrefix(c.Mode, "render:")
		var v any = strings.TrimSuffix(string(res.Stdout), "\n")
		switch f {
		case "byte_array":
			var a []any
			if err := json.Unmarshal(res.Stdout, &a); err != nil {
				return "output is not a JSON array: " + err.Error()
			}
			v = a
		case "truncate":
			v = string(res.Stdout)
		}
		if why := checkRender(f, v, top.Extract(c.Start, n, 0).B, top.Extract(c.Start, n, lead).B, n); why != "" {
			return fmt.Sprintf("%s rendering of bits %d..%d of the file: %s", f, c.Start, c.Stop, why)
		}
		return ""
	case "md5", "hex":
		// renderings of a range that is not a whole number of bytes may pad on either side
		got := strings.TrimSpace(string(res.Stdout))
		for _, l := range []int64{lead, 0} {
			w := top.Extract(c.Start, n, l).B
			var s string
			if c.Mode == "md5" {
				h := md5.Sum(w)
				s = hex.EncodeToString(h[:])
			} else {
				s = hex.EncodeToString(w)
			}
			if got == s {
				return ""
			}
		}
		return fmt.Sprintf("%s rendering %q... (%d chars) matches neither zero padding of bits %d..%d of the file", c.Mode, trunc(got, 40), len(got), c.Start, c.Stop)
	}
	if !bytes.Equal(res.Stdout, want) {
		k := 0
		for k < len(want) && k < len(res.Stdout) && want[k] == res.Stdout[k] {
			k++
		}
		return fmt.Sprintf("stdout has %d bytes, expected %d; first difference at byte %d (got %x, expected %x)", len(res.Stdout), len(want), k, firstN(res.Stdout[min(k, len(res.Stdout)):], 8), firstN(want[min(k, len(want)):], 8))
	}
	return ""
}

func replayLarge(raw json.RawMessage) (bool, bool) {
	var k struct {
		Large *LargeCase `json:"large"`
	}
	if json.Unmarshal(raw, &k) != nil || k.Large == nil {
		return false, false
	}
	data := largeData(k.Large.Size)
	why := judgeLarge(*k.Large, data, BitBufFromBytes(data))
	fmt.Printf("  fq -d bytes '%s' on %d generated bytes: %s\n", k.Large.Expr, k.Large.Size, map[bool]string{true: "as expected", false: why}[why == ""])
	return true, why != ""
}
