package c14

// Section "held": operation sequences. Every conversion function that returns a
// binary (the nine hashes, from_hex, from_base64 in five variants, the five text
// encoders, tobytes) is applied to an ordered sequence of inputs and ALL results
// are kept alive (bound to variables / collected in an array) before any of them
// is read. A result must not change because a later call of the same (or of any
// other) conversion function was made: the value read afterwards has to equal
// the harness' reference for the input it was computed from. The single-call
// sections consume every result at once, so a result buffer shared between calls
// would be invisible there.
//
// Enumerated: all ordered pairs and all ordered triples over a pool of 6 byte
// strings (216 + 36 sequences), for every function; plus the cross-function
// form (all functions applied to a, then all to b, then everything read).

import (
	"fmt"
	"strings"
)

var heldPool = [][]byte{{}, {0x00}, {'a'}, {'b'}, {'a', 'b'}, {0xff, 0x80, 0x01}}

type heldFn struct {
	name string
	// expr is the jq filter applied to the item key holding the input (`$it.x[K]` is passed in)
	expr func(in string) string
	ref  func(b []byte) ([]byte, bool)
}

func heldFns() []heldFn {
	var fs []heldFn
	for _, h := range hashNames {
		h := h
		fs = append(fs, heldFn{"to_" + h, func(in string) string { return in + ".b|tobytes|to_" + h }, func(b []byte) ([]byte, bool) { return refHash(h, b), true }})
	}
	fs = append(fs, heldFn{"from_hex", func(in string) string { return in + ".hex|from_hex" }, func(b []byte) ([]byte, bool) { return b, true }})
	fs = append(fs, heldFn{"from_base64", func(in string) string { return in + ".b64.std|from_base64" }, func(b []byte) ([]byte, bool) { return b, true }})
	for _, va := range b64Variants {
		va := va
		fs = append(fs, heldFn{"from_base64(" + va + ")", func(in string) string {
			return fmt.Sprintf("%s.b64.%s|from_base64({encoding:%q})", in, va, va)
		}, func(b []byte) ([]byte, bool) { return b, true }})
	}
	for _, enc := range strEncs {
		enc := enc
		fs = append(fs, heldFn{"to_" + enc, func(in string) string { return in + ".s|to_" + enc }, func(b []byte) ([]byte, bool) {
			// the input text is the latin1 reading of the bytes (always a valid string)
			return refEncode(enc, refFromLatin1(b))
		}})
	}
	fs = append(fs, heldFn{"tobytes", func(in string) string { return in + ".b|tobytes" }, func(b []byte) ([]byte, bool) { return b, true }})
	fs = append(fs, heldFn{"tobytes|tobits", func(in string) string { return in + ".b|tobytes|tobits" }, func(b []byte) ([]byte, bool) { return b, true }})
	return fs
}

func heldInput(b []byte) map[string]any {
	b64 := map[string]any{}
	for _, va := range b64Variants {
		b64[va] = refB64(b, va)
	}
	return map[string]any{"b": bytesToList(b), "hex": refHex(b), "b64": b64, "s": refFromLatin1(b)}
}

func enumHeld(e *env) {
	var items []any
	n := len(heldPool)
	for i := 0; i < n; i++ {
		for j := 0; j < n; j++ {
			items = append(items, map[string]any{"seq": []any{i, j}})
			for k := 0; k < n; k++ {
				items = append(items, map[string]any{"seq": []any{i, j, k}})
			}
		}
	}
	e.r.Extra("held_sequences", len(items))
	e.r.Extra("held_functions", len(heldFns()))
	e.each(items, 16, func(items []any) { checkHeld(e, "held", items) })
}

var heldBodyText string

// heldBody: for every function F: bind F(x0), F(x1)[, F(x2)] one after the other,
// then read them all; then the cross form: arrays of all functions' results per
// input, built one after the other, read at the end.
func heldBody() string {
	if heldBodyText != "" {
		return heldBodyText
	}
	fs := heldFns()
	var per []string
	for _, f := range fs {
		per = append(per, fmt.Sprintf("T([.x[] as $i | (%s)] | map(B))", f.expr("$i")))
		// explicit variable bindings (a different evaluation shape than the array collector)
		per = append(per, fmt.Sprintf("T((%s) as $r0 | (%s) as $r1 | (%s) as $r2 | [$r0,$r1,$r2] | map(B))",
			f.expr(".x[0]"), f.expr(".x[1]"), f.expr(".x[-1]")))
	}
	var cross []string
	for _, f := range fs {
		cross = append(cross, "T("+f.expr("$i")+")")
	}
	heldBodyText = "[" + strings.Join(per, ",") + ", ([.x[] as $i | [" + strings.Join(cross, ",") + "]] | map(map(if type==\"array\" then map(B) else . end)))]"
	return heldBodyText
}

func checkHeld(e *env, fn string, items []any) {
	fs := heldFns()
	inputs := make([]any, len(items))
	seqs := make([][]int, len(items))
	for i, it := range items {
		var xs []any
		for _, v := range asList(itemMap(it)["seq"]) {
			k := itemInt(v)
			if f, ok := v.(float64); ok {
				k = int(f)
			}
			seqs[i] = append(seqs[i], k)
			xs = append(xs, heldInput(heldPool[k]))
		}
		inputs[i] = map[string]any{"x": xs}
	}
	outs := e.batch(fn, heldBody(), inputs)
	for i, o := range outs {
		if o == nil {
			continue
		}
		top := asList(o)
		if len(top) != 2*len(fs)+1 {
			e.violate("escape:held", "malformed driver output "+trunc(canon(o), 200), fn, items[i])
			continue
		}
		seq := seqs[i]
		desc := func() string {
			var p []string
			for _, k := range seq {
				p = append(p, fmt.Sprintf("%x", heldPool[k]))
			}
			return "inputs [" + strings.Join(p, ", ") + "] (hex)"
		}
		binEq := func(v any, want []byte) bool {
			l := asList(v)
			if len(l) != 2 || canon(l[0]) != fmt.Sprint(len(want)*8) {
				return false
			}
			got, ok := listToBytes(l[1])
			return ok && string(got) == string(want)
		}
		for fi, f := range fs {
			for form := 0; form < 2; form++ {
				r := getRes(top[2*fi+form])
				// the explicit binding form reads x[0], x[1], x[-1]
				idx := seq
				if form == 1 {
					idx = []int{seq[0], seq[1], seq[len(seq)-1]}
				}
				e.r.Eval(int64(len(idx)))
				distinct := false
				for _, k := range idx {
					if k != idx[0] {
						distinct = true
					}
				}
				if distinct {
					e.r.Nontrivial(fmt.Sprintf("held:%s:%d:%v", f.name, form, idx))
				}
				v, ok := r.one()
				// a function outside its domain for one of the inputs fails the whole sequence: not judged here
				inDomain := true
				for _, k := range idx {
					if _, ok := f.ref(heldPool[k]); !ok {
						inDomain = false
					}
				}
				if !inDomain {
					continue
				}
				l := asList(v)
				if !ok || len(l) != len(idx) {
					e.violate("held:"+f.name+":error", fmt.Sprintf("%s: %s applied to each and all results kept: %s", desc(), f.name, r), fn, items[i])
					continue
				}
				for p, k := range idx {
					want, _ := f.ref(heldPool[k])
					if !binEq(l[p], want) {
						e.violate("held:"+f.name+":result-changed-by-later-call",
							fmt.Sprintf("%s: results of %s kept in variables and read after all calls: result %d reads %s, reference for its own input %x", desc(), f.name, p, trunc(canon(l[p]), 120), want), fn, items[i])
						break
					}
				}
			}
		}
		// cross form: rows = inputs, columns = functions
		rows := asList(top[2*len(fs)])
		if len(rows) != len(seq) {
			e.violate("escape:held", "malformed cross output", fn, items[i])
			continue
		}
		for p, k := range seq {
			cols := asList(rows[p])
			if len(cols) != len(fs) {
				e.violate("escape:held", "malformed cross output", fn, items[i])
				break
			}
			for fi, f := range fs {
				want, ok := f.ref(heldPool[k])
				if !ok {
					continue
				}
				e.r.Eval(1)
				r := getRes(cols[fi])
				v, okv := r.one()
				if !okv || !binEq(v, want) {
					e.violate("held:cross:"+f.name+":result-changed-by-later-call",
						fmt.Sprintf("%s: all conversion functions applied to every input, results read at the end: %s of input %d reads %s, reference %x", desc(), f.name, p, r, want), fn, items[i])
				}
			}
		}
	}
}
