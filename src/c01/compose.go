package c01

import (
	"bytes"
	"context"
	"fmt"
	"strings"

	"github.com/wader/fq/internal/aheadreadseeker"
	"github.com/wader/fq/internal/bitiox"
	"github.com/wader/fq/internal/ctxreadseeker"
	"github.com/wader/fq/internal/progressreadseeker"
	"github.com/wader/fq/internal/verif/core"
	"github.com/wader/fq/pkg/bitio"
)

// Spec is a reader composition. It is the replayable description of the object
// under exploration: build() turns it into the real fq reader stack *and* the
// reference bit string computed with plain slice arithmetic.
type Spec struct {
	K    string `json:"k"` // bytes | bitreader | zero | file | section | range | multi | clone | padrange
	Data []byte `json:"data,omitempty"`
	Off  int64  `json:"off,omitempty"`
	N    int64  `json:"n,omitempty"`
	Over bool   `json:"over,omitempty"` // section: window declared longer than the source has left
	Subs []Spec `json:"subs,omitempty"`
}

func (s Spec) String() string {
	switch s.K {
	case "bytes":
		return fmt.Sprintf("bytes(%x)", s.Data)
	case "bitreader":
		return fmt.Sprintf("bitreader(%x,%d)", s.Data, s.N)
	case "zero":
		return fmt.Sprintf("zero(%d)", s.N)
	case "file":
		return fmt.Sprintf("file(%x,min=%d)", s.Data, s.N)
	case "section", "range":
		return fmt.Sprintf("%s(%s,%d,%d)", s.K, s.Subs[0], s.Off, s.N)
	case "padrange":
		return fmt.Sprintf("padrange(%s,pad=%d)", s.Subs[0], s.N)
	case "clone":
		return fmt.Sprintf("clone(%s)", s.Subs[0])
	case "multi":
		var p []string
		for _, x := range s.Subs {
			p = append(p, x.String())
		}
		return "multi(" + strings.Join(p, ",") + ")"
	}
	return "?" + s.K
}

// Kinds returns the shape of the composition without parameters (for signatures).
func (s Spec) Kinds() string {
	if len(s.Subs) == 0 {
		return s.K
	}
	var p []string
	seen := map[string]bool{}
	for _, x := range s.Subs {
		k := x.Kinds()
		if !seen[k] {
			seen[k] = true
			p = append(p, k)
		}
	}
	return s.K + "(" + strings.Join(p, ",") + ")"
}

type built struct {
	r      bitio.ReaderAtSeeker
	ref    core.Bits
	cancel []func()
}

func (b *built) close() {
	for _, c := range b.cancel {
		c()
	}
}

// build constructs the real object. It returns an error when the composition is
// not constructible by fq's own constructors (those are dropped by the generator).
func build(s Spec) (*built, error) {
	switch s.K {
	case "bytes":
		d := append([]byte{}, s.Data...)
		return &built{r: bitio.NewIOBitReadSeeker(bytes.NewReader(d)), ref: core.BitsFromBytes(d)}, nil
	case "bitreader":
		d := append([]byte{}, s.Data...)
		n := s.N
		ref := core.BitsFromBytes(d)
		if n >= 0 {
			ref = ref[:n]
		}
		return &built{r: bitio.NewBitReader(d, n), ref: ref}, nil
	case "zero":
		z := bitiox.NewZeroAtSeeker(s.N)
		// ZeroReadAtSeeker has no ReadBits; fq always uses it below a section/multi.
		return &built{r: bitio.NewSectionReader(z, 0, s.N), ref: make(core.Bits, s.N)}, nil
	case "file":
		// the stack _open builds: IOBitReadSeeker(ahead(progress(ctx(file))))
		d := append([]byte{}, s.Data...)
		ctx, cancel := context.WithCancel(context.Background())
		c := ctxreadseeker.New(ctx, bytes.NewReader(d))
		p := progressreadseeker.New(c, 1024, int64(len(d)), func(int64, int64) {})
		a := aheadreadseeker.New(p, int(s.N))
		return &built{r: bitio.NewIOBitReadSeeker(a), ref: core.BitsFromBytes(d), cancel: []func(){cancel}}, nil
	case "section":
		b, err := build(s.Subs[0])
		if err != nil {
			return nil, err
		}
		if s.Over {
			// a window declared longer than what its source has left (like io.SectionReader
			// over a shorter file): the bits that exist in the SOURCE are all there is
			if s.Off < 0 || s.N < 0 || s.Off > int64(len(b.ref)) {
				b.close()
				return nil, fmt.Errorf("window outside")
			}
			return &built{r: bitio.NewSectionReader(b.r, s.Off, s.N), ref: b.ref.Slice(s.Off, int64(len(b.ref))), cancel: b.cancel}, nil
		}
		if s.Off < 0 || s.N < 0 || s.Off+s.N > int64(len(b.ref)) {
			b.close()
			return nil, fmt.Errorf("window outside")
		}
		return &built{r: bitio.NewSectionReader(b.r, s.Off, s.N), ref: b.ref.Slice(s.Off, s.Off+s.N), cancel: b.cancel}, nil
	case "range":
		b, err := build(s.Subs[0])
		if err != nil {
			return nil, err
		}
		rr, err := bitiox.Range(b.r, s.Off, s.N)
		if err != nil {
			b.close()
			return nil, err
		}
		return &built{r: rr, ref: b.ref.Slice(s.Off, s.Off+s.N), cancel: b.cancel}, nil
	case "padrange":
		// how interp.Binary.toReader pads: multi(zero(pad), range(r))
		b, err := build(s.Subs[0])
		if err != nil {
			return nil, err
		}
		m, err := bitio.NewMultiReader(bitiox.NewZeroAtSeeker(s.N), b.r)
		if err != nil {
			b.close()
			return nil, err
		}
		return &built{r: m, ref: append(make(core.Bits, s.N), b.ref...), cancel: b.cancel}, nil
	case "clone":
		b, err := build(s.Subs[0])
		if err != nil {
			return nil, err
		}
		// move the original's cursor first: a clone must start at 0 regardless
		_, _ = b.r.SeekBits(int64(len(b.ref))/2, 0)
		c, err := bitio.CloneReaderAtSeeker(b.r)
		if err != nil {
			b.close()
			return nil, err
		}
		return &built{r: c, ref: b.ref, cancel: b.cancel}, nil
	case "multi":
		var rs []bitio.ReadAtSeeker
		var ref core.Bits
		out := &built{}
		for i, sub := range s.Subs {
			b, err := build(sub)
			if err != nil {
				out.close()
				return nil, err
			}
			// pre-position part cursors: NewMultiReader's end probe must restore them
			// and must not depend on them
			if i%2 == 1 && len(b.ref) > 0 {
				_, _ = b.r.SeekBits(1, 0)
			}
			rs = append(rs, b.r)
			ref = append(ref, b.ref...)
			out.cancel = append(out.cancel, b.cancel...)
		}
		m, err := bitio.NewMultiReader(rs...)
		if err != nil {
			out.close()
			return nil, err
		}
		out.r, out.ref = m, ref
		return out, nil
	}
	return nil, fmt.Errorf("unknown spec kind %q", s.K)
}

var bitGrid = []int64{0, 1, 3, 7, 8, 9, 15, 16, 17}

// alphabets of pairwise distinct, bit-asymmetric bytes; VERIF_SEED rotates which one
// is used (never what is enumerated).
var alphabets = [][]byte{
	{0xa7, 0x3c, 0xd1},
	{0x6b, 0xe2, 0x1d},
	{0x93, 0x4e, 0xb5},
	{0x2f, 0xc8, 0x71},
}

func sources(seed int64) [][]byte {
	a := alphabets[int(uint64(seed)%uint64(len(alphabets)))]
	return [][]byte{{}, a[:1], a[:2], a[:3]}
}

func leaves(seed int64, thorough bool) []Spec {
	var out []Spec
	for _, d := range sources(seed) {
		out = append(out, Spec{K: "bytes", Data: d})
		for _, n := range bitGrid {
			if n <= int64(len(d))*8 && (n%8 != 0 || n == 0) {
				out = append(out, Spec{K: "bitreader", Data: d, N: n})
			}
		}
		if len(d) > 0 {
			out = append(out, Spec{K: "bitreader", Data: d, N: -1})
		}
		mins := []int64{1, 2}
		if thorough {
			mins = []int64{1, 2, 4}
		}
		for _, m := range mins {
			out = append(out, Spec{K: "file", Data: d, N: m})
		}
	}
	for _, n := range []int64{0, 1, 8, 9, 17} {
		out = append(out, Spec{K: "zero", N: n})
	}
	return out
}

func refLen(s Spec) int64 {
	b, err := build(s)
	if err != nil {
		return -1
	}
	defer b.close()
	return int64(len(b.ref))
}

func windows(l int64) [][2]int64 {
	var w [][2]int64
	seen := map[[2]int64]bool{}
	add := func(o, n int64) {
		if o < 0 || n < 0 || o+n > l {
			return
		}
		k := [2]int64{o, n}
		if !seen[k] {
			seen[k] = true
			w = append(w, k)
		}
	}
	for _, o := range bitGrid {
		for _, n := range bitGrid {
			add(o, n)
		}
		add(o, l-o)
	}
	return w
}

// wrap1 returns all single-node wrappings of s.
func wrap1(s Spec, l int64, fewWindows bool) []Spec {
	var out []Spec
	ws := windows(l)
	for i, w := range ws {
		if fewWindows && !(w[0]%8 != 0 || w[1]%8 != 0) {
			continue // keep unaligned windows only in the reduced set
		}
		if fewWindows && i%3 != 0 {
			continue
		}
		out = append(out, Spec{K: "section", Off: w[0], N: w[1], Subs: []Spec{s}})
	}
	if len(ws) > 0 {
		w := ws[len(ws)/2]
		out = append(out, Spec{K: "range", Off: w[0], N: w[1], Subs: []Spec{s}})
	}
	out = append(out, Spec{K: "clone", Subs: []Spec{s}})
	for _, p := range []int64{1, 7} {
		out = append(out, Spec{K: "padrange", N: p, Subs: []Spec{s}})
	}
	return out
}

func specDepth(s Spec) int {
	d := 0
	for _, x := range s.Subs {
		if k := specDepth(x) + 1; k > d {
			d = k
		}
	}
	return d
}

func hasOver(s Spec) bool {
	if s.Over {
		return true
	}
	for _, x := range s.Subs {
		if hasOver(x) {
			return true
		}
	}
	return false
}

// overlong: sections declared longer than what their source has left, directly on
// every leaf and on a section that ends before its own source does (so that there
// are source bits behind the outer window which the inner one must never show).
func overlong(lv []Spec) []Spec {
	var out []Spec
	for _, l := range lv {
		L := refLen(l)
		if L < 12 {
			continue
		}
		for _, w := range [][2]int64{{0, L + 1}, {3, L + 9}, {L - 1, 9}} {
			out = append(out, Spec{K: "section", Off: w[0], N: w[1], Over: true, Subs: []Spec{l}})
		}
		n1 := L - 7
		outer := Spec{K: "section", Off: 3, N: n1, Subs: []Spec{l}}
		for _, w := range [][2]int64{{0, n1 + 1}, {0, n1 + 4}, {1, n1 + 3}, {5, n1 + 8}, {n1 - 1, 9}, {n1, 3}} {
			out = append(out, Spec{K: "section", Off: w[0], N: w[1], Over: true, Subs: []Spec{outer}})
		}
	}
	return out
}

// compositions enumerates the composition family for a tier, simplest first.
func compositions(seed int64, thorough bool) []Spec {
	lv := leaves(seed, thorough)
	var out []Spec
	out = append(out, lv...)
	out = append(out, overlong(lv)...)
	// depth 1
	var d1 []Spec
	for _, l := range lv {
		d1 = append(d1, wrap1(l, refLen(l), false)...)
	}
	// multi over a small part pool incl. empty parts and unaligned parts
	src := sources(seed)
	pool := []Spec{
		{K: "bytes", Data: src[0]},
		{K: "bytes", Data: src[1]},
		{K: "bitreader", Data: src[2], N: 3},
		{K: "bitreader", Data: src[2], N: 9},
		{K: "zero", N: 1},
		{K: "file", Data: src[2], N: 1},
		{K: "section", Off: 3, N: 7, Subs: []Spec{{K: "bytes", Data: src[2]}}},
		{K: "zero", N: 0},
	}
	var multis []Spec
	multis = append(multis, Spec{K: "multi"})
	for _, a := range pool {
		multis = append(multis, Spec{K: "multi", Subs: []Spec{a}})
		for _, b := range pool {
			multis = append(multis, Spec{K: "multi", Subs: []Spec{a, b}})
			for _, c := range pool {
				multis = append(multis, Spec{K: "multi", Subs: []Spec{a, b, c}})
			}
		}
	}
	d1 = append(d1, multis...)
	out = append(out, d1...)
	// depth 2: wrap every depth-1 node once more (reduced window set in quick)
	var d2 []Spec
	for i, s := range d1 {
		if !thorough && i%10 != int(uint64(seed)%10) {
			continue
		}
		l := refLen(s)
		if l < 0 {
			continue
		}
		d2 = append(d2, wrap1(s, l, true)...)
	}
	// multi of wrapped nodes
	for i := 0; i+2 < len(d1); i += core.Pick2(thorough, 41, 7) {
		d2 = append(d2, Spec{K: "multi", Subs: []Spec{d1[i], d1[i+1]}})
		d2 = append(d2, Spec{K: "multi", Subs: []Spec{d1[i+2], d1[i], d1[i+1]}})
	}
	out = append(out, d2...)
	if thorough {
		// depth 3 on a systematic subset
		for i, s := range d2 {
			if i%5 != 0 {
				continue
			}
			l := refLen(s)
			if l < 0 {
				continue
			}
			out = append(out, wrap1(s, l, true)...)
		}
	}
	return out
}
