package c07

import (
	"regexp"
	"strconv"
	"strings"
)

// ---------------------------------------------------------------------------
// L1 grammar. A program is a tree: leaves are atoms (no operator node), inner
// nodes are operators with 1..3 holes. The size of a program is the sum of the
// operator costs (cost 1 for one/two-hole operators, 2 for three-hole ones).
// For every total size K the enumeration emits EVERY tree of exactly that size
// over the atoms and operators whose rank is at least rankFor(K); binding operators add the names they bind to the atom
// set of the holes in their scope ($x, f, g, break $l ...).
//
// fq's fromjson costs about 1 ms per call (it runs the whole decode machinery),
// a hundred times any other built-in, so it has the lowest rank: as an atom it is
// used in programs of size <= 1 only, as `E | fromjson` additionally in the
// thorough size 2 set. Its own full product is L2.
//
// No operator or atom is an unbounded generator (no repeat/while/until/
// recurse(f)/range of an expression), so every program terminates.

type hole struct {
	extra []string // atoms in scope in this hole only (bound by the operator)
	// hide: identifier that must not occur in this hole. jq function definitions
	// are recursive (the name is in scope in its own body), so the body hole of
	// `def NAME: ...` excludes NAME: the grammar generates no recursion and every
	// program terminates.
	hide string
}

type op struct {
	tmpl  string // %0 %1 %2 are the holes
	holes []hole
	cost  int
	tier  int // rank 0..4: the higher, the larger the program sizes it is still used for (see rankFor)
}

func u(tmpl string, tier int, extra ...string) op {
	return op{tmpl: tmpl, holes: []hole{{extra: extra}}, cost: 1, tier: tier}
}
func b(tmpl string, tier int) op {
	return op{tmpl: tmpl, holes: []hole{{}, {}}, cost: 1, tier: tier}
}
func bx(tmpl string, tier int, e0, e1 []string) op {
	return op{tmpl: tmpl, holes: []hole{{extra: e0}, {extra: e1}}, cost: 1, tier: tier}
}
func t(tmpl string, tier int, e0, e1, e2 []string) op {
	return op{tmpl: tmpl, holes: []hole{{extra: e0}, {extra: e1}, {extra: e2}}, cost: 2, tier: tier}
}

// hid hides identifier name in the first hole (the definition body) of o.
func hid(o op, name string) op {
	o.holes = append([]hole{}, o.holes...)
	o.holes[0].hide = name
	return o
}

func mentions(s, ident string) bool {
	for i := 0; i+len(ident) <= len(s); i++ {
		if s[i:i+len(ident)] == ident && (i == 0 || !isIdentByte(s[i-1])) && (i+len(ident) == len(s) || !isIdentByte(s[i+len(ident)])) {
			if i > 0 && (s[i-1] == '$' || s[i-1] == '.' || s[i-1] == '@') {
				continue
			}
			return true
		}
	}
	return false
}

var x = []string{"$x"}
var xy = []string{"$x", "$y"}

// formats: every @format of the reference engine.
var formats = []string{"@text", "@json", "@html", "@uri", "@urid", "@csv", "@tsv", "@sh", "@base64", "@base64d"}

func allOps() []op {
	ops := []op{
		// construction
		u("[%0]", 4), u("{a:%0}", 4), u("{(%0):1}", 2), b("{(%0):%1}", 3), b("{a:%0,b:%1}", 1),
		// postfix paths on an expression, optional, negation
		u("%0[]", 3), u("%0.a", 2), u("%0[0]", 2), u("%0[1:]", 1), u(".[%0]", 3), b(".[%0:%1]", 1),
		u("%0?", 4), u("-%0", 2), u("..|%0", 1),
		// pipe, comma
		b("%0 | %1", 4), b("%0 , %1", 4),
		// arithmetic
		b("%0 + %1", 4), b("%0 - %1", 2), b("%0 * %1", 2), b("%0 / %1", 2), b("%0 % %1", 1),
		// comparison
		b("%0 == %1", 4), b("%0 != %1", 1), b("%0 < %1", 3), b("%0 <= %1", 1), b("%0 > %1", 1), b("%0 >= %1", 1),
		// logic, alternative
		b("%0 and %1", 3), b("%0 or %1", 1), u("%0 | not", 1), b("%0 // %1", 4),
		// if, try
		b("if %0 then %1 end", 2), t("if %0 then %1 else %2 end", 4, nil, nil, nil),
		u("try %0", 4), b("try %0 catch %1", 4), u("try error(%0) catch .", 1),
		// reduce / foreach
		u("reduce %0 as $x (0; . + 1)", 3), u("foreach %0 as $x (0; . + 1)", 3),
		bx("reduce %0 as $x (null; %1)", 4, nil, x), bx("foreach %0 as $x (null; %1)", 3, nil, x),
		t("reduce %0 as $x (%1; %2)", 4, nil, nil, x), t("foreach %0 as $x (%1; %2)", 4, nil, nil, x),
		t("foreach %0 as $x (0; %1; %2)", 1, nil, x, x),
		// variable binds and destructuring
		u(". as $x | %0", 3, "$x"), bx("%0 as $x | %1", 4, nil, x),
		bx("%0 as [$x,$y] | %1", 2, nil, xy), bx("%0 as {a:$x} | %1", 2, nil, x),
		bx("%0 as {a:[$x],$c} | %1", 1, nil, []string{"$x", "$c"}),
		bx("%0 as [$x] ?// $x | %1", 3, nil, x), bx("%0 as {a:$x} ?// [$x] | %1", 1, nil, x),
		// function definitions: plain, closure parameter, value parameter
		hid(u("def f: %0; f", 3), "f"), hid(bx("def f: %0; %1", 4, nil, []string{"f"}), "f"),
		u("def f(g): g; f(%0)", 2), bx("def f(g): %0; f(%1)", 4, []string{"g"}, nil),
		u("def f($a): $a; f(%0)", 2), bx("def f($a): %0; f(%1)", 3, []string{"$a"}, nil),
		bx("def f(g; $a): %0; f(%1; 1)", 1, []string{"g", "$a"}, nil),
		// shadowing a name fq's prelude also defines must keep standard scoping
		hid(bx("def split($a): %0; %1", 1, []string{"$a"}, []string{"split(\",\")"}), "split"),
		hid(bx("def explode: %0; %1", 1, nil, []string{"explode"}), "explode"),
		// label / break
		u("label $l | %0", 4, "break $l"), bx("label $l | %0 | %1", 1, nil, []string{"break $l"}),
		// string interpolation (plain; with every format below)
		u("\"x\\(%0)y\"", 4),
		// generators and path helpers
		u("first(%0)", 4), b("limit(%0; %1)", 2), u("isempty(%0)", 2), u("path(%0)", 4), u("paths(%0)", 1),
		u("getpath(%0)", 3), b("setpath(%0; %1)", 1), u("del(%0)", 3), u("to_entries | map(%0)", 1), u("with_entries(%0)", 1),
		u("map(%0)", 3), u("select(%0)", 3), u("map_values(%0)", 1), u("walk(%0)", 1), u("any(%0)", 1), u("all(%0)", 1),
		u("sort_by(%0)", 3), u("group_by(%0)", 3), u("unique_by(%0)", 1), u("min_by(%0)", 1), u("add(%0)", 1),
		u("has(%0)", 1), u("ltrimstr(%0)", 1), u("join(%0)", 3), u("index(%0)", 1), u("startswith(%0)", 1), u("contains(%0)", 1),
		u("error(%0)", 2), u("%0 | tostring", 1), u("%0 | tonumber", 1), u("%0 | ascii_downcase", 1), u("IN(%0)", 1),
		// assignment operators
		b("%0 = %1", 2), b("%0 |= %1", 3), b("%0 += %1", 1), b("%0 //= %1", 1),
		// standard built-ins that fq redefines, with expression arguments
		u("split(%0)", 4), b("split(%0; %1)", 3), u("splits(%0)", 3), b("splits(%0; %1)", 1),
		u("test(%0)", 4), b("test(%0; %1)", 3), u("match(%0)", 3), b("match(%0; %1)", 2),
		u("capture(%0)", 3), b("capture(%0; %1)", 1), u("scan(%0)", 3), b("scan(%0; %1)", 1),
		u("debug(%0)", 4), u("%0 | debug", 3), u("%0 | stderr", 3),
		u("%0 | explode", 4), u("%0 | tojson", 4), u("%0 | fromjson", 2), u("%0 | tojson | fromjson", 1),
		// built-ins implemented on top of the regex primitives
		u("sub(%0; \"z\")", 3), b("sub(%0; %1)", 1), b("gsub(%0; %1)", 1), u("[match(%0; \"g\")] | length", 1),
		t("sub(%0; %1; %2)", 1, nil, nil, nil),
	}
	for _, f := range formats {
		rank := 1
		if f == "@json" || f == "@base64" {
			rank = 3
		}
		ops = append(ops, u(f+" \"x\\(%0)\"", rank))
	}
	return ops
}

// Atoms, ranked like the operators.
type atom struct {
	text string
	tier int
}

func allAtoms() []atom {
	as := []atom{
		// paths
		{".", 4}, {".a", 3}, {".[]", 4}, {".[0]", 1}, {"..", 1}, {".[]?", 1}, {".a?", 1}, {".c", 1}, {".[-1]", 1}, {".[1:]", 1},
		{".a.b", 0}, {".[\"c\"][1]", 1}, {".[:1]", 0},
		// literals
		{"null", 2}, {"true", 0}, {"false", 1}, {"0", 1}, {"1", 4}, {"-1", 1}, {"1.5", 1}, {"\"a\"", 4}, {"\"a,b\"", 1}, {"\",\"", 1},
		{"[]", 1}, {"{}", 1}, {"[1,[2]]", 1}, {"{\"a\":1}", 1}, {"10000000000000000000", 1}, {"empty", 3}, {"error", 1},
		{"\"\"", 1}, {"\"g\"", 1}, {"\"(?<x>a)|(b)\"", 1},
		// standard built-ins fq leaves alone (representatives of the families named in the property)
		{"length", 1}, {"keys", 1}, {"type", 1}, {"tostring", 1}, {"tonumber", 1}, {"not", 1}, {"add", 1}, {"first", 1}, {"last", 1},
		{"to_entries", 1}, {"from_entries", 1}, {"paths", 1}, {"sort", 1}, {"unique", 1}, {"reverse", 1}, {"ascii_downcase", 1},
		{"floor", 1}, {"implode", 1}, {"range(2)", 1}, {"getpath([\"a\",\"b\"])", 1}, {"ltrimstr(\"a\")", 1}, {"join(\",\")", 1},
		{"tostream", 0}, {"min", 0}, {"flatten", 0}, {"utf8bytelength", 0}, {"ascii_upcase", 0}, {"trim", 0}, {"abs", 0},
		{"transpose", 0}, {"values", 0}, {"scalars", 0}, {"recurse", 0}, {"any", 0}, {"all", 0}, {"nan", 0}, {"infinite", 0},
		// standard built-ins fq redefines or wraps
		{"explode", 2}, {"tojson", 2}, {"fromjson", 1}, {"debug", 2}, {"stderr", 1},
		{"split(\",\")", 4}, {"splits(\",\")", 1}, {"test(\"a\")", 1}, {"match(\"a\")", 1}, {"capture(\"(?<x>a)\")", 1}, {"scan(\"a\")", 1},
		{"split(\",\"; \"g\")", 1}, {"split(\"\")", 1}, {"split(\".\")", 1}, {"test(\"A\"; \"i\")", 1}, {"debug(\"m\")", 1},
		{"[match(\".\"; \"g\")]", 0}, {"sub(\"a\"; \"b\")", 1}, {"gsub(\"\"; \"-\")", 1}, {"@text", 0}, {"todate", 0},
		{"tojson|fromjson", 1},
	}
	for _, f := range formats {
		rank := 1
		if f == "@text" || f == "@urid" || f == "@tsv" || f == "@html" {
			rank = 0
		}
		as = append(as, atom{f, rank})
	}
	return as
}

// rankFor maps a total program size to the minimum rank of the atoms and
// operators used for programs of that size: everything for size 0 (every atom on
// its own), everything but the rank 0 atoms for size 1 (thorough: everything); for
// size 2 the rank>=3 subset in the quick tier and the rank>=2 subset in the
// thorough tier; for size 3 (thorough only) the rank 4 core.
func rankFor(K int, thorough bool) int {
	switch {
	case K == 0 || K == 1 && thorough:
		return 0
	case K == 1:
		return 1
	case K == 2 && thorough:
		return 2
	case K == 2:
		return 3
	}
	return 4
}

type grammar struct {
	atoms []string
	ops   []op
	memo  map[string][]string
}

func newGrammar(K int, thorough bool) *grammar {
	g := &grammar{memo: map[string][]string{}}
	ti := rankFor(K, thorough)
	seen := map[string]bool{}
	for _, a := range allAtoms() {
		if a.tier >= ti && !seen[a.text] {
			seen[a.text] = true
			g.atoms = append(g.atoms, a.text)
		}
	}
	for _, o := range allOps() {
		if o.tier >= ti {
			g.ops = append(g.ops, o)
		}
	}
	return g
}

var simpleAtom = regexp.MustCompile(`^[.$]?[A-Za-z_][A-Za-z_0-9]*$`)

func wrap(s string) string {
	if simpleAtom.MatchString(s) {
		return s
	}
	return "(" + s + ")"
}

// list returns every tree of exactly size k with the given names in scope.
func (g *grammar) list(k int, scope []string) []string {
	key := strconv.Itoa(k) + "|" + strings.Join(scope, ";")
	if l, ok := g.memo[key]; ok {
		return l
	}
	var out []string
	if k == 0 {
		out = append(out, g.atoms...)
		out = append(out, scope...)
	} else {
		for _, o := range g.ops {
			if o.cost > k {
				continue
			}
			g.expand(o, k-o.cost, scope, func(s string) { out = append(out, s) })
		}
	}
	g.memo[key] = out
	return out
}

// expand emits every instance of operator o whose holes' sizes sum to rest.
func (g *grammar) expand(o op, rest int, scope []string, emit func(string)) {
	n := len(o.holes)
	sizes := make([]int, n)
	subs := make([]string, n)
	var fill func(i int)
	fill = func(i int) {
		if i == n {
			s := o.tmpl
			for j := n - 1; j >= 0; j-- {
				s = strings.ReplaceAll(s, "%"+strconv.Itoa(j), wrap(subs[j]))
			}
			emit(s)
			return
		}
		sc := scope
		if len(o.holes[i].extra) > 0 {
			sc = mergeScope(scope, o.holes[i].extra)
		}
		for _, s := range g.list(sizes[i], sc) {
			if h := o.holes[i].hide; h != "" && mentions(s, h) {
				continue
			}
			subs[i] = s
			fill(i + 1)
		}
	}
	var split func(i, left int)
	split = func(i, left int) {
		if i == n-1 {
			sizes[i] = left
			fill(0)
			return
		}
		for s := 0; s <= left; s++ {
			sizes[i] = s
			split(i+1, left-s)
		}
	}
	split(0, rest)
}

func mergeScope(scope, extra []string) []string {
	out := append([]string{}, scope...)
	for _, e := range extra {
		dup := false
		for _, s := range out {
			dup = dup || s == e
		}
		if !dup {
			out = append(out, e)
		}
	}
	return out
}

// each streams every program of exactly size K (top level: nothing in scope)
// without materialising the top level list.
func (g *grammar) each(K int, emit func(string)) {
	if K == 0 {
		for _, a := range g.atoms {
			emit(a)
		}
		return
	}
	for _, o := range g.ops {
		if o.cost > K {
			continue
		}
		g.expand(o, K-o.cost, nil, emit)
	}
}

// count returns the number of programs of exactly size K.
func (g *grammar) count(K int) int64 {
	var n int64
	g.each(K, func(string) { n++ })
	return n
}
