package c18

// Free running pass under the Go race detector (separate -race build, no scheduler:
// a cooperative scheduler's hand-offs are happens-before edges that blind the
// detector). The scheduler explores the registry; this pass covers what carries no
// generated access point: package level state of pkg/decode, pkg/interp, pkg/scalar,
// pkg/bitio, internal/* and of every format decoder. Two goroutines that share
// nothing but the process decode the SAME file with the SAME format at the same time
// (every access of one to package level state is unordered with every access of the
// other, whatever the timing), for the smallest corpus file of every format named by
// the fqtests and the two smallest files of every testdata directory (probe).
// Besides the detector's report, both results must equal a later sequential decode.

import (
	"fmt"
	"path/filepath"
	"sort"
	"strings"
	"sync"

	"github.com/wader/fq/internal/verif/core"
	"github.com/wader/fq/internal/verif/corpus"
	"github.com/wader/fq/internal/verif/fqrun"
)

type freeJob struct {
	Path   string
	Format string
	data   []byte
}

func freeJobs(repo string, maxSize int64) []freeJob {
	fs, _ := corpus.Files(repo, maxSize)
	best := map[string]*corpus.File{}
	take := func(key string, f *corpus.File) {
		if b, ok := best[key]; !ok || len(f.Data) < len(b.Data) || (len(f.Data) == len(b.Data) && f.Path < b.Path) {
			best[key] = f
		}
	}
	perDir := map[string][]*corpus.File{}
	for i := range fs {
		f := &fs[i]
		if len(f.Data) == 0 {
			continue
		}
		for _, fm := range f.Formats {
			take("d:"+fm, f)
		}
		d := filepath.Dir(f.Path)
		perDir[d] = append(perDir[d], f)
	}
	var out []freeJob
	seen := map[string]bool{}
	add := func(f *corpus.File, format string) {
		k := f.Path + "|" + format
		if !seen[k] {
			seen[k] = true
			out = append(out, freeJob{Path: f.Path, Format: format, data: f.Data})
		}
	}
	var keys []string
	for k := range best {
		keys = append(keys, k)
	}
	sort.Strings(keys)
	for _, k := range keys {
		add(best[k], strings.TrimPrefix(k, "d:"))
	}
	var dirs []string
	for d := range perDir {
		dirs = append(dirs, d)
	}
	sort.Strings(dirs)
	for _, d := range dirs {
		l := perDir[d]
		sort.SliceStable(l, func(a, b int) bool {
			if len(l[a].Data) != len(l[b].Data) {
				return len(l[a].Data) < len(l[b].Data)
			}
			return l[a].Path < l[b].Path
		})
		for i := 0; i < len(l) && i < 2; i++ {
			add(l[i], "probe")
		}
	}
	return out
}

func runFree(j freeJob) string {
	s, err := fqrun.NewCLISession(map[string][]byte{"in.bin": j.data})
	if err != nil {
		return "SESSION: " + err.Error()
	}
	defer s.Close()
	expr := fmt.Sprintf(`"in.bin" | open | decode(%q) | (dv, (tovalue({bits_format: "snippet"})|tojson))`, j.Format)
	if j.Format == "probe" {
		expr = `"in.bin" | open | decode | (dv, (tovalue({bits_format: "snippet"})|tojson))`
	}
	outs, err := s.Eval(nil, expr)
	var sb strings.Builder
	sb.Write(s.Stdout())
	for _, o := range outs {
		fmt.Fprintf(&sb, "%v\n", o)
	}
	if err != nil {
		if pe, ok := fqrun.IsPanic(err); ok {
			fmt.Fprintf(&sb, "PANIC: %v\n", pe.Value)
		} else {
			fmt.Fprintf(&sb, "ERR: %v\n", err)
		}
	}
	return sb.String()
}

// freeRunCorpus is executed by the -race binary; it prints one line per job whose
// concurrent results differ (the race detector prints its own reports to stderr).
func freeRunCorpus(r *core.Run) {
	jobs := freeJobs(r.Repo, 64<<10)
	fmt.Printf("FREERUN-JOBS %d\n", len(jobs))
	sem := make(chan struct{}, 6)
	var wg sync.WaitGroup
	var mu sync.Mutex
	for _, j := range jobs {
		j := j
		wg.Add(1)
		sem <- struct{}{}
		go func() {
			defer func() { <-sem; wg.Done() }()
			var a, b string
			var w2 sync.WaitGroup
			w2.Add(2)
			go func() { defer w2.Done(); a = runFree(j) }()
			go func() { defer w2.Done(); b = runFree(j) }()
			w2.Wait()
			c := runFree(j)
			if a != c || b != c {
				mu.Lock()
				fmt.Printf("FREERUN-DIFF %s -d %s: concurrent decodes of the same file differ from a later lone decode\n", j.Path, j.Format)
				mu.Unlock()
			}
		}()
	}
	wg.Wait()
	fmt.Println("FREERUN-DONE")
}
