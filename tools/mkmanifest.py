#!/usr/bin/env python3
"""Regenerates /verif/MANIFEST.json from the table below (one entry per claimed property)."""
import json
import os

VERIF = os.path.dirname(os.path.dirname(os.path.abspath(__file__)))

CHECKS = {
    "C01": dict(
        category="model_checking",
        technique="explicit-state BFS over operation histories on the real reader objects (state = reference cursor + deep hash of all mutable fields), reference bit-string model as oracle; exhaustive alignment x length tables for the bit kernels",
        text="Every reader composition of the enumerated family (leaves: IOBitReadSeeker, NewBitReader, zero reader, the file stack IOBitReadSeeker(ahead(progress(ctx))); nodes: section/range/multi/clone/zero-pad; nesting 2 quick, 3 thorough) is searched breadth-first over the full operation alphabet (ReadBits/ReadBitsAt/SeekBits x3 whence/ReadFull/ReadAtFull/Clone over a boundary grid) to depth 3 (quick) / 4 (thorough) with state merging by a hash of every mutable field; each transition runs on a fresh real object and is compared with a reference bit string + cursor. Read64/Write64/copyBufBits are tabulated for every alignment and length; IOReader/IOReadSeeker/IOBitWriter/CopyBits and the read-ahead and progress wrappers get their own BFS.",
        design_ref="§C01",
        note="Trusted: the ~150 line reference model (bit slicing + cursor) and the Go reflect based state hash. Bounds: sources <= 3 bytes, window/length grid {0,1,3,7,8,9,15,16,17,64,65}, history depth 3/4, per-composition state cap (reported when hit). Negative read-at offsets and relative seeks in the padded tail of non byte aligned byte views are outside the statement and not judged.",
        engine="seqx",
    ),
}

CHECKS.update({
    "C03": dict(
        category="exploration",
        technique="exhaustive enumeration of all decoder-DSL programs up to an op bound executed against the real decode API and compared with a reference interpreter; structural invariants on every tree incl. corpus truncation family",
        text="(a) Every program of a decoder DSL (struct/array/framed/limited/range/seek with and without restore/nested formats by length, range and to-end/format-or-raw/nested buffers as struct, array, raw and format roots/fail/errorf/duplicate names/non-consuming probes) with <= 3 ops (quick) / <= 4 ops (thorough), nesting <= 3, is run through fq's public decode API on 2 inputs x force off/on; the resulting tree is compared node by node (names, kinds, exact ranges, values, gap fields) with the tree predicted by an independent reference interpreter, and checked against the structural invariants of the property (range inside buffer, compound spans children, unique names, order by start, array numbering, parent links, ByName/Children agreement). (b) every corpus file under format/*/testdata and its truncation/overwrite family decoded with probe and its own format, same invariants.",
        design_ref="§C03",
        note="Trusted: the DSL reference interpreter (src/dsl/ref.go, ~400 lines, no import of pkg/decode) and the invariant walker. The position of a nested buffer root inside its parent buffer is not observable through fq and is not judged; the range of a compound without range-defining children (empty or only synthetic children) is only required to lie inside the buffer. Predicted gap fields use the recorded C04 adjacency behaviour so the C04 finding is reported once, under C04.",
        engine="enum",
    ),
    "C04": dict(
        category="exploration",
        technique="exhaustive enumeration of all ordered tuples of <= 4 ranges over buffers of <= 7 bits (thorough: <= 9 bits, 5 ranges <= 6 bits) fed to ranges.Gaps with a bitmap oracle; coverage bitmaps of every gap-filled buffer of every DSL and corpus tree",
        text="ranges.Gaps is called on every ordered tuple of ranges inside the bound (2.6M calls quick) and its output is checked bit by bit: fields and gaps cover [0,L), no gap overlaps a field, gaps are sorted, disjoint, non-empty and inside total. For decode trees, every buffer decoded with gap filling (top level, length/range delimited sub-formats, nested format buffers) of every DSL program and corpus decode (incl. failed decodes) gets a coverage bitmap: every bit in a non-gap leaf or a gap leaf, no gap leaf overlapping a non-gap leaf, gap content equal to the input bits of its range.",
        design_ref="§C04",
        note="Trusted: the bitmap oracle. The recorded finding (one-bit hole swallowed by the off-by-one adjacency test, pinned by pkg/ranges/ranges_test.go) is recognised only when the output equals a reference merge with tolerance 1 exactly; any other wrong output alarms.",
        engine="enum",
    ),
    "C09": dict(
        category="exploration",
        technique="exhaustive enumeration of all binary expression trees up to depth 3 (thorough 4) over 18 leaves x 113 operators evaluated in-process, compared with an independent reference bit-string evaluator",
        text="Every expression tree of depth <= 3 (thorough: depth <= 4 except array nodes over depth-3 children) over 18 leaves x 113 operators + [x,y] is evaluated by fq in-process and compared value-for-value (bits, unit, bit-accurate start; error versus value) with a reference evaluator written from doc/usage.md. The split/concat law is checked for every k and both units; a textual section re-evaluates a fixed subset as full programs.",
        design_ref="§C09",
        note="Assumptions A1-A6 are written into evidence/C09.json (floor/ceil of unaligned keys, zero fill side, fractional truncation, out of range index null, range variants start, decode value contribution). Negative top-level numbers, tovalue of non whole-byte binaries and non-UTF-8 code point operations are outside the documented domain and counted as unmodelled.",
        engine="enum",
    ),
})

NOT_YET = {
}


def main():
    props = [json.loads(l) for l in open(os.path.join(VERIF, "properties.jsonl"))]
    checks = []
    na = []
    for p in props:
        pid = p["id"]
        c = CHECKS.get(pid)
        if c and os.path.isdir(os.path.join(VERIF, "src", pid.lower())):
            checks.append(
                {
                    "property_id": pid,
                    "quick_cmd": f"./check {pid} --tier quick",
                    "thorough_cmd": f"./check {pid} --tier thorough",
                    "evidence_file": f"/verif/evidence/{pid}.json",
                    "replay_cmd_template": f"./check {pid} --replay {{path}}",
                    "engine": c.get("engine", "enum"),
                    "level_claimed": {"category": c["category"], "text": c["text"], "design_ref": c["design_ref"]},
                    "level_note": c["note"],
                    "technique": c["technique"],
                }
            )
        else:
            na.append({"property_id": pid, "reason": NOT_YET.get(pid, "check not built yet in this session (designed in DESIGN.md, model-checking applies); not claimed until its machinery is committed")})
    m = {
        "version": 1,
        "setup_cmd": "./setup.sh",
        "hooks": {
            "guard": "verif",
            "enable": "go build -tags verif -overlay <generated>: harness packages, accessor files and check-time generated instrumentation are injected through a build overlay; /repo carries no hook code",
            "baseline_off_cmd": "cd /repo && GOFLAGS=-mod=mod GOPROXY=off GOSUMDB=off GOTOOLCHAIN=local go test -vet=off -count=1 -timeout 25m ./...",
            "source_commits": [],
            "add_only": True,
        },
        "engines": [
            {"name": "seqx", "path": "/verif/src/core", "serves_properties": ["C01", "C04", "C20"], "kind_free_text": "explicit-state BFS over real objects by history replay + reference model, deep-hash state keys"},
            {"name": "sched", "path": "/verif/src/sched", "serves_properties": ["C18", "C20"], "kind_free_text": "cooperative scheduler + preemption-bounded stateless DFS with vector-clock race detection over check-time generated access points"},
            {"name": "enum", "path": "/verif/src/core", "serves_properties": [], "kind_free_text": "exhaustive grammar/product generators with process sharding, in-process fq runner"},
        ],
        "checks": checks,
        "not_applicable": na,
        "notes": "All checks rebuild from /repo's working tree via ./check (go build -overlay). Known findings: /verif/known_findings.jsonl.",
    }
    json.dump(m, open(os.path.join(VERIF, "MANIFEST.json"), "w"), indent=1)
    print("checks:", [c["property_id"] for c in checks], "not claimed:", len(na))


if __name__ == "__main__":
    main()
