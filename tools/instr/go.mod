module instr

go 1.23
