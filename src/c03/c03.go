// Package c03 decides property C03 (every decode tree is structurally sound):
// (a) all decoder-DSL programs up to an op bound x inputs x force, real tree vs the
// reference interpreter and structural invariants; (b) every corpus file and its
// truncation/corruption family under probe and its own format, structural invariants.
package c03

import (
	"context"
	"encoding/json"
	"fmt"
	"os"

	"github.com/wader/fq/internal/verif/core"
	"github.com/wader/fq/internal/verif/dsl"
	"github.com/wader/fq/pkg/bitio"
	"github.com/wader/fq/pkg/decode"
)

var Check = core.Check{
	ID:     "C03",
	Level:  "exploration",
	Shards: 16,
	// a decoder crash is property C06's subject; here the file is recorded as inconclusive
	CrashIsInconclusive: true,
	Run:                 run,
	Replay:              replay,
}

// Case is the replayable unit.
type Case struct {
	Kind      string `json:"kind"` // dsl | corpus
	Prog      string `json:"prog,omitempty"`
	Input     string `json:"input,omitempty"` // hex
	Force     bool   `json:"force,omitempty"`
	RootArray bool   `json:"root_array,omitempty"`
	// corpus
	File   string `json:"file,omitempty"`
	Format string `json:"format,omitempty"`
	Trunc  int    `json:"trunc,omitempty"`
	Mut    string `json:"mut,omitempty"`
}

var inputs = [][]byte{
	{0xa7, 0x3c, 0xd1, 0x6b, 0xe2},
	{0x5a, 0xc3},
}

func bitsOf(b []byte) []bool { return []bool(core.BitsFromBytes(b)) }

// DecodeDSL runs the program through fq's real decode API.
func DecodeDSL(p dsl.Prog, input []byte, force bool, rootArray bool) (*decode.Value, error, any) {
	var dv *decode.Value
	var err error
	g := dsl.GroupFor(p)
	if rootArray {
		g = dsl.GroupForArray(p)
	}
	pv, _ := core.Protect(func() {
		dv, _, err = decode.Decode(context.Background(), bitio.NewBitReader(input, -1), g,
			decode.Options{IsRoot: true, FillGaps: true, Force: force})
	})
	return dv, err, pv
}

// judgeDSL returns (signature, message) of the first discrepancy or "".
func judgeDSL(p dsl.Prog, input []byte, force bool, rootArray bool) (string, string) {
	dv, err, pv := DecodeDSL(p, input, force, rootArray)
	if pv != nil {
		return "dsl:panic:" + trunc(core.PanicString(pv), 60), fmt.Sprintf("decode panicked: %v", pv)
	}
	ref := dsl.RefRoot(p, bitsOf(input), force, 1, rootArray)
	if dv == nil {
		return "dsl:no-tree", fmt.Sprintf("decode returned no tree (err=%v); reference expects a (partial) tree", err)
	}
	if (err != nil) != ref.Failed {
		return "dsl:failure-mismatch", fmt.Sprintf("decode error=%v but reference failed=%v", err, ref.Failed)
	}
	for _, is := range dsl.CheckTree(dv, int64(len(input))*8) {
		return "dsl:invariant:" + is.Class, is.Msg
	}
	real := dsl.FlattenReal(dv)
	exp := dsl.FlattenRef(ref.Root)
	for _, k := range dsl.SortedKeys(exp) {
		e := exp[k]
		g, ok := real[k]
		if !ok {
			return "dsl:missing-node:" + e.Kind, fmt.Sprintf("reference has %s (%s %d:%d) but the real tree has no such node", k, e.Kind, e.Start, e.Len)
		}
		if g.Kind != e.Kind || g.IsRoot != e.IsRoot {
			return "dsl:kind-mismatch:" + e.Kind, fmt.Sprintf("%s: real %s root=%v, reference %s root=%v", k, g.Kind, g.IsRoot, e.Kind, e.IsRoot)
		}
		if !e.HasSpan {
			// compound without range-defining children: nothing is demanded of its range
			// beyond lying inside the buffer (checked by the invariants)
		} else if e.IsRoot && k != "." {
			// nested buffer roots: extent inside their own buffer (position in parent not observable)
			if g.Len != e.Len {
				return "dsl:root-extent:" + e.Kind, fmt.Sprintf("%s (nested buffer): real inner length %d, expected %d", k, g.Len, e.Len)
			}
		} else if g.Start != e.Start || g.Len != e.Len {
			return "dsl:range-mismatch:" + e.Kind, fmt.Sprintf("%s: real range %d:%d, reference %d:%d", k, g.Start, g.Len, e.Start, e.Len)
		}
		if g.Val != e.Val {
			return "dsl:value-mismatch:" + e.Kind, fmt.Sprintf("%s: real value %q, reference %q", k, g.Val, e.Val)
		}
	}
	for _, k := range dsl.SortedKeys(real) {
		if _, ok := exp[k]; !ok {
			g := real[k]
			return "dsl:extra-node:" + g.Kind, fmt.Sprintf("real tree has %s (%s %d:%d) which the reference does not predict", k, g.Kind, g.Start, g.Len)
		}
	}
	return "", ""
}

func trunc(s string, n int) string {
	if len(s) > n {
		return s[:n]
	}
	return s
}

func run(r *core.Run) {
	only := os.Getenv("VERIF_ONLY")
	if only == "" || only == "dsl" {
		runDSL(r)
	}
	if only == "" || only == "corpus" {
		runCorpus(r)
	}
}

func runDSL(r *core.Run) {
	maxOps := core.Pick(r, 3, 4)
	r.Rule("(a) all decoder-DSL programs with <= N ops (N in dsl_max_ops), nesting <= 3, x 2 inputs x force off/on, real decode tree vs reference interpreter + structural invariants; non-trivial = distinct program whose reference tree has >= 2 nodes besides the root")
	r.Extra("dsl_max_ops", maxOps)
	var n, evals int64
	total := dsl.Enumerate(maxOps, 3, func(idx int64, p dsl.Prog) bool {
		if !r.Mine(idx) {
			return true
		}
		if idx&0xfff == 0 && r.Expired() {
			r.NotExhaustive("deadline during DSL program enumeration (simplest first)")
			return false
		}
		n++
		for ii, in := range inputs {
			for _, force := range []bool{false, true} {
				sig, msg := judgeDSL(p, in, force, false)
				evals++
				if sig != "" {
					r.Violate(sig, fmt.Sprintf("prog %s input %x force=%v: %s", p, in, force, msg),
						Case{Kind: "dsl", Prog: p.String(), Input: fmt.Sprintf("%x", in), Force: force})
				}
			}
			if ii == 0 {
				// root array formats (RootArray: true): gap fields are appended to an array
				sig, msg := judgeDSL(p, in, false, true)
				evals++
				if sig != "" {
					r.Violate(sig+":rootarray", fmt.Sprintf("prog %s (root array) input %x: %s", p, in, msg),
						Case{Kind: "dsl", Prog: p.String(), Input: fmt.Sprintf("%x", in), RootArray: true})
				}
			}
			if ii == 0 {
				ref := dsl.Ref(p, bitsOf(in), false, 1)
				if len(dsl.FlattenRef(ref.Root)) >= 3 {
					r.Nontrivial(p.String())
				}
			}
		}
		if idx%50021 == 0 {
			r.Sample(map[string]any{"prog": p.String(), "input": fmt.Sprintf("%x", inputs[0])})
		}
		return true
	})
	// window parameter grid: the enumeration uses one (offset, length) per windowed op; here
	// every windowed op gets every (offset, length) of a grid that includes 0, the exact end
	// and positions beyond the end of the 5 byte / 2 byte inputs, with an empty body, a one
	// bit field and a byte field, alone and after a leading field
	{
		offs := []int64{0, 1, 3, 8, 15, 16, 17, 39, 40, 41, 45, 64}
		lens := []int64{0, 1, 3, 8, 16, 40, 41}
		bodies := [][]dsl.Op{nil, {{K: "u", W: 1}}, {{K: "u", W: 8}}, {{K: "raw", W: 0}}}
		var progs []dsl.Prog
		for _, off := range offs {
			for _, w := range lens {
				for _, b := range bodies {
					for _, k := range []string{"range", "fmtrange"} {
						if k == "fmtrange" && off == 0 && w == 0 {
							// decode.Options.Range{0,0} is the API's "no range given" (whole buffer)
							continue
						}
						op := dsl.Op{K: k, Off: off, W: w, Body: b}
						progs = append(progs, dsl.Prog{op}, dsl.Prog{{K: "u", W: 3}, op})
					}
				}
			}
		}
		for _, w := range lens {
			for _, b := range bodies {
				for _, k := range []string{"fmtlen", "framed", "limited", "fmtorraw"} {
					op := dsl.Op{K: k, W: w, Body: b}
					if !(w == 0 && (k == "fmtlen" || k == "fmtorraw")) {
						// (a zero length sub-format at position 0 is Range{0,0} = whole buffer, see above)
						progs = append(progs, dsl.Prog{op})
					}
					progs = append(progs, dsl.Prog{{K: "u", W: 3}, op}, dsl.Prog{{K: "seekabs", Off: 39}, op})
				}
			}
		}
		for _, off := range offs {
			progs = append(progs, dsl.Prog{{K: "seekabs", Off: off}, {K: "u", W: 1}}, dsl.Prog{{K: "seekabs", Off: off, Body: []dsl.Op{{K: "u", W: 1}}}}, dsl.Prog{{K: "seekabs", Off: off}, {K: "fmt"}})
		}
		var ng int64
		for i, p := range progs {
			if !r.Mine(total + int64(i)) {
				continue
			}
			ng++
			for _, in := range inputs {
				for _, force := range []bool{false, true} {
					sig, msg := judgeDSL(p, in, force, false)
					evals++
					if sig != "" {
						r.Violate("grid:"+sig, fmt.Sprintf("prog %s input %x force=%v: %s", p, in, force, msg),
							Case{Kind: "dsl", Prog: p.String(), Input: fmt.Sprintf("%x", in), Force: force})
					}
				}
			}
			r.Nontrivial("grid:" + p.String())
		}
		r.Count("dsl_window_grid_programs", ng)
	}
	r.Eval(evals)
	r.Count("dsl_programs", n)
	r.Extra("dsl_programs_total", total)
	r.Section("dsl")
}

func replay(r *core.Run, raw json.RawMessage) bool {
	var c Case
	if err := json.Unmarshal(raw, &c); err != nil {
		fmt.Println(err)
		return false
	}
	switch c.Kind {
	case "dsl":
		p, err := dsl.Parse(c.Prog)
		if err != nil {
			fmt.Println(err)
			return false
		}
		var in []byte
		fmt.Sscanf(c.Input, "%x", &in)
		sig, msg := judgeDSL(p, in, c.Force, c.RootArray)
		fmt.Printf("  prog:  %s\n  input: %x force=%v\n  %s %s\n", p, in, c.Force, sig, msg)
		dv, derr, _ := DecodeDSL(p, in, c.Force, c.RootArray)
		if dv != nil {
			real := dsl.FlattenReal(dv)
			fmt.Println("  real tree (err:", derr, "):")
			for _, k := range dsl.SortedKeys(real) {
				fmt.Printf("    %-20s %+v\n", k, real[k])
			}
		}
		exp := dsl.FlattenRef(dsl.RefRoot(p, bitsOf(in), c.Force, 1, c.RootArray).Root)
		fmt.Println("  reference tree:")
		for _, k := range dsl.SortedKeys(exp) {
			fmt.Printf("    %-20s %+v\n", k, exp[k])
		}
		return sig != ""
	default:
		return replayCorpus(r, c)
	}
}
