package c14

// Sections "xml" (element trees in array, object and #seq object representation)
// and "csv" (rectangular arrays of strings, three separators).

import (
	"encoding/csv"
	"encoding/xml"
	"fmt"
	"io"
	"sort"
	"strings"
)

// An element tree is kept in fq's documented array representation
// [name, attributes-or-null, [children]], attributes including "#text" and
// "#comment". The object representations are derived from it by objectOf.

var xmlNames = []string{"a", "b"}
var xmlAttrVals = []string{"", "v", "é<&\"' "}
var xmlTextVals = []string{"t", "é<&\">", "1"}

type xmlGen struct{ memo map[int][]any }

// trees returns all element trees with exactly n nodes (element, attribute,
// text and comment count one node each).
func (g *xmlGen) trees(n int) []any {
	if v, ok := g.memo[n]; ok {
		return v
	}
	type attrSet struct {
		m map[string]any
		n int
	}
	// attribute-like members
	opts := []struct {
		key  string
		vals []string
	}{{"k", xmlAttrVals}, {"l", xmlAttrVals}, {"#text", xmlTextVals}, {"#comment", []string{"c"}}}
	var sets []attrSet
	var rec func(i int, cur map[string]any)
	rec = func(i int, cur map[string]any) {
		if i == len(opts) {
			c := map[string]any{}
			for k, v := range cur {
				c[k] = v
			}
			sets = append(sets, attrSet{c, len(c)})
			return
		}
		rec(i+1, cur)
		for _, v := range opts[i].vals {
			cur[opts[i].key] = v
			rec(i+1, cur)
			delete(cur, opts[i].key)
		}
	}
	rec(0, map[string]any{})
	var out []any
	var kids func(rem int, cur []any, f func([]any))
	kids = func(rem int, cur []any, f func([]any)) {
		if rem == 0 {
			f(cur)
			return
		}
		for s := 1; s <= rem; s++ {
			for _, t := range g.trees(s) {
				kids(rem-s, append(cur[:len(cur):len(cur)], t), f)
			}
		}
	}
	for _, name := range xmlNames {
		for _, as := range sets {
			if as.n > n-1 {
				continue
			}
			kids(n-1-as.n, nil, func(ch []any) {
				var attrs any
				if as.n > 0 {
					attrs = as.m
				}
				out = append(out, []any{name, attrs, append([]any{}, ch...)})
			})
		}
	}
	if g.memo == nil {
		g.memo = map[int][]any{}
	}
	g.memo[n] = out
	return out
}

// objectOf derives the documented object representation of an element: name and
// content, content being "" (empty), the text (text only) or an object with
// @attributes, #text, #comment, children by name (arrays for repeated names) and,
// when seq is set and the parent has more than one child element, #seq.
func objectOf(t any, seq bool, idx int) (string, any) {
	l := t.([]any)
	name := l[0].(string)
	m := map[string]any{}
	if attrs, ok := l[1].(map[string]any); ok {
		for k, v := range attrs {
			if strings.HasPrefix(k, "#") {
				m[k] = v
			} else {
				m["@"+k] = v
			}
		}
	}
	ch := l[2].([]any)
	for i, c := range ch {
		ci := i
		if len(ch) == 1 {
			ci = -1
		}
		cn, cc := objectOf(c, seq, ci)
		if prev, ok := m[cn]; ok {
			if pl, ok := prev.([]any); ok {
				m[cn] = append(pl, cc)
			} else {
				m[cn] = []any{prev, cc}
			}
		} else {
			m[cn] = cc
		}
	}
	if seq && idx >= 0 {
		m["#seq"] = idx
	}
	if len(m) == 0 {
		return name, ""
	}
	if s, ok := m["#text"]; ok && len(m) == 1 {
		return name, s
	}
	return name, m
}

// objectAmbiguous: an object representation cannot tell a repeated child name
// (array of contents) from ... nothing else; but a child named like a member key
// would collide. Our names never start with @ or #, so only repeated names matter.
func refXMLText(t any) string {
	esc := func(s string) string {
		r := strings.NewReplacer("&", "&amp;", "<", "&lt;", ">", "&gt;", "\"", "&quot;", "'", "&apos;")
		return r.Replace(s)
	}
	l := t.([]any)
	var b strings.Builder
	b.WriteString("<" + l[0].(string))
	var text, comment string
	var hasComment bool
	if attrs, ok := l[1].(map[string]any); ok {
		var keys []string
		for k := range attrs {
			keys = append(keys, k)
		}
		sort.Strings(keys)
		for _, k := range keys {
			switch k {
			case "#text":
				text = attrs[k].(string)
			case "#comment":
				comment, hasComment = attrs[k].(string), true
			default:
				b.WriteString(" " + k + "='" + esc(attrs[k].(string)) + "'")
			}
		}
	}
	ch := l[2].([]any)
	if text == "" && !hasComment && len(ch) == 0 {
		b.WriteString("/>")
		return b.String()
	}
	b.WriteString(">" + esc(text))
	if hasComment {
		b.WriteString("<!--" + comment + "-->")
	}
	for _, c := range ch {
		b.WriteString(refXMLText(c))
	}
	b.WriteString("</" + l[0].(string) + ">")
	return b.String()
}

// refParseXML reads XML text with Go's strict decoder into the array
// representation (text trimmed and concatenated, whitespace-only text dropped).
func refParseXML(text string) (any, error) {
	d := xml.NewDecoder(strings.NewReader(text))
	type frame struct {
		name     string
		attrs    map[string]any
		text     string
		comment  string
		hasC     bool
		children []any
	}
	var stack []*frame
	var root any
	for {
		tok, err := d.RawToken()
		if err == io.EOF {
			break
		}
		if err != nil {
			return nil, err
		}
		switch t := tok.(type) {
		case xml.StartElement:
			f := &frame{name: rawName(t.Name), attrs: map[string]any{}}
			for _, a := range t.Attr {
				f.attrs[rawName(a.Name)] = a.Value
			}
			stack = append(stack, f)
		case xml.EndElement:
			if len(stack) == 0 || stack[len(stack)-1].name != rawName(t.Name) {
				return nil, errMalformed
			}
			f := stack[len(stack)-1]
			stack = stack[:len(stack)-1]
			if s := strings.TrimSpace(f.text); s != "" {
				f.attrs["#text"] = s
			}
			if s := strings.TrimSpace(f.comment); f.hasC && s != "" {
				f.attrs["#comment"] = s
			}
			var attrs any
			if len(f.attrs) > 0 {
				attrs = f.attrs
			}
			if f.children == nil {
				f.children = []any{}
			}
			el := []any{f.name, attrs, f.children}
			if len(stack) == 0 {
				if root != nil {
					return nil, errMalformed
				}
				root = el
			} else {
				p := stack[len(stack)-1]
				p.children = append(p.children, el)
			}
		case xml.CharData:
			if len(stack) > 0 {
				stack[len(stack)-1].text += string(t)
			} else if strings.TrimSpace(string(t)) != "" {
				return nil, errMalformed
			}
		case xml.Comment:
			if len(stack) > 0 {
				stack[len(stack)-1].comment += string(t)
				stack[len(stack)-1].hasC = true
			}
		}
	}
	if len(stack) != 0 || root == nil {
		return nil, errMalformed
	}
	return root, nil
}

func rawName(n xml.Name) string {
	if n.Space != "" {
		return n.Space + ":" + n.Local
	}
	return n.Local
}

func wideTree(n int) any {
	var ch []any
	for i := 0; i < n; i++ {
		ch = append(ch, []any{"a", map[string]any{"#text": fmt.Sprint(i)}, []any{}})
	}
	// five more names: in the object form Go's random map order then almost never hands
	// the children to fq's sort already in order (an already sorted slice is left alone)
	for _, n := range []string{"b", "c", "d", "e", "f"} {
		ch = append(ch, []any{n, nil, []any{}})
	}
	return []any{"r", nil, ch}
}

// n same-named children plus five others: 7, 11, 12 (still insertion sorted), 13, 40 children
var xmlWideCounts = []int{2, 6, 7, 8, 35}

func enumXML(e *env) {
	maxNodes := core_pick(e, 4, 5)
	g := &xmlGen{}
	var items []any
	for n := 1; n <= maxNodes; n++ {
		for _, t := range g.trees(n) {
			items = append(items, map[string]any{"kind": "tree", "t": t})
		}
	}
	nt := len(items)
	for _, n := range xmlWideCounts {
		items = append(items, map[string]any{"kind": "tree", "t": wideTree(n)})
	}
	// namespaces: values in object representation, checked for the inverse law only
	for _, v := range []any{
		map[string]any{"x:a": map[string]any{"@xmlns:x": "u"}},
		map[string]any{"a": map[string]any{"@xmlns": "u", "b": "t"}},
		map[string]any{"x:a": map[string]any{"@xmlns:x": "u", "x:b": "t", "c": ""}},
		map[string]any{"x:a": map[string]any{"@xmlns:x": "u", "@x:k": "v", "b": map[string]any{"@x:l": "w"}}},
		map[string]any{"a": map[string]any{"@xmlns": "u", "@xmlns:y": "w", "y:b": []any{"1", "2"}}},
	} {
		items = append(items, map[string]any{"kind": "ns", "v": v})
	}
	e.r.Extra("xml_inputs", fmt.Sprintf("%d element trees with <= %d nodes, %d wide trees, 5 namespace documents; each in array, object, object+indent and object+#seq form", nt, maxNodes, len(xmlWideCounts)))
	e.each(items, 128, func(items []any) { checkXML(e, "xml", items) })
}

func checkXML(e *env, fn string, items []any) {
	inputs := make([]any, len(items))
	for i, it := range items {
		m := itemMap(it)
		if m["kind"] == "ns" {
			inputs[i] = map[string]any{"ns": m["v"]}
			continue
		}
		t := m["t"]
		n, c := objectOf(t, false, -1)
		ns, cs := objectOf(t, true, -1)
		inputs[i] = map[string]any{"ns": nil, "a": t, "o": map[string]any{n: c}, "s": map[string]any{ns: cs}, "t": refXMLText(t)}
	}
	body := `. as $it | if $it.ns != null then [T($it.ns|to_xml|[., T(from_xml)])] else [
  T($it.a|to_xml|[., T(from_xml({array:true}))]),
  T($it.o|to_xml|[., T(from_xml)]),
  T($it.o|to_xml({indent:2})|[., T(from_xml)]),
  T($it.s|to_xml|[., T(from_xml({seq:true}))]),
  T($it.t|from_xml({array:true})), T($it.t|from_xml), T($it.t|from_xml({seq:true}))] end`
	outs := e.batch(fn, body, inputs)
	for i, o := range outs {
		if o == nil {
			continue
		}
		obs := asList(o)
		in := itemMap(inputs[i])
		pair := func(r res) (string, res, bool) {
			v, ok := r.one()
			p := asList(v)
			if !ok || len(p) != 2 {
				return "", res{}, false
			}
			s, _ := p[0].(string)
			return s, getRes(p[1]), true
		}
		if in["ns"] != nil {
			if len(obs) != 1 {
				e.violate("escape:xml", "malformed driver output", fn, items[i])
				continue
			}
			e.r.Eval(2)
			want := canon(in["ns"])
			e.r.Nontrivial("xml:ns:" + want)
			text, back, ok := pair(getRes(obs[0]))
			e.show("%s | to_xml -> %q | from_xml -> %s", want, text, back)
			if v, ok2 := back.one(); !ok || !ok2 || canon(v) != want {
				e.violate("roundtrip:xml:namespace", fmt.Sprintf("%s | to_xml = %q; | from_xml = %s, want the input", want, text, back), fn, items[i])
			}
			continue
		}
		if len(obs) != 7 {
			e.violate("escape:xml", "malformed driver output", fn, items[i])
			continue
		}
		tree := in["a"]
		nkids := len(tree.([]any)[2].([]any))
		wide := ""
		if nkids > 12 {
			wide = ":more-than-12-siblings"
		}
		e.r.Nontrivial("xml:" + canon(tree))
		modes := []struct{ name, key, dec string }{
			{"array", "a", "from_xml({array:true})"}, {"object", "o", "from_xml"}, {"object-indent", "o", "from_xml"}, {"seq", "s", "from_xml({seq:true})"},
		}
		for k, m := range modes {
			e.r.Eval(2)
			want := canon(in[m.key])
			text, back, ok := pair(getRes(obs[k]))
			e.show("%s | to_xml (%s) -> %q | %s -> %s", want, m.name, text, m.dec, back)
			if !ok {
				e.violate("encode-error:xml:"+m.name, fmt.Sprintf("%s | to_xml = %s", want, getRes(obs[k])), fn, items[i])
				continue
			}
			if v, ok := back.one(); !ok || canon(v) != want {
				sig := "roundtrip:xml:" + m.name
				if wide != "" && strings.HasPrefix(m.name, "object") && ok && sameModuloArrayOrder(v, in[m.key]) {
					sig = "roundtrip:xml:object" + wide + ":same-named-siblings-reordered"
				}
				e.violate(sig, fmt.Sprintf("%s | to_xml = %q; | %s = %s, want the input", trunc(want, 300), trunc(text, 300), m.dec, back), fn, items[i])
			}
			// fq's text read by Go's strict XML tokenizer must be the same tree (array form keeps order)
			if m.name == "array" {
				if pt, err := refParseXML(text); err != nil || canon(pt) != canon(tree) {
					e.violate("ref:to_xml:go-encoding-xml", fmt.Sprintf("%s | to_xml = %q which a strict XML reader sees as %s (%v)", trunc(want, 300), trunc(text, 300), trunc(canon(pt), 300), err), fn, items[i])
				}
			}
		}
		for k, m := range []struct{ name, key, dec string }{{"array", "a", "from_xml({array:true})"}, {"object", "o", "from_xml"}, {"seq", "s", "from_xml({seq:true})"}} {
			e.r.Eval(1)
			want := canon(in[m.key])
			r := getRes(obs[4+k])
			e.show("%q | %s -> %s", in["t"], m.dec, r)
			if v, ok := r.one(); !ok || canon(v) != want {
				e.violate("ref:from_xml:"+m.name, fmt.Sprintf("%q | %s = %s, want %s", trunc(itemStr(in["t"]), 300), m.dec, r, trunc(want, 300)), fn, items[i])
			}
		}
	}
}

// sameModuloArrayOrder: equal when every array is compared as a multiset.
func sameModuloArrayOrder(a, b any) bool {
	var norm func(v any) any
	norm = func(v any) any {
		switch x := unwrap(v).(type) {
		case []any:
			ss := make([]string, len(x))
			for i, c := range x {
				ss[i] = canon(norm(c))
			}
			sort.Strings(ss)
			return strItems(ss)
		case map[string]any:
			o := map[string]any{}
			for k, c := range x {
				o[k] = norm(c)
			}
			return o
		default:
			return x
		}
	}
	return canon(norm(a)) == canon(norm(b))
}

// ---------------------------------------------------------------------------
// csv

var csvCellsSmall = []string{"", "a", "a,b", "q\"", "l\nm", " s"}
var csvCellsAll = []string{"", "a", "a,b", "q\"", "l\nm", " s", "#c", ";", "\t"}
var csvCommas = []string{",", ";", "\t"}

func enumCSV(e *env) {
	var tables []any
	grid := func(rows, cols int, cells []string) {
		n := rows * cols
		idx := make([]int, n)
		for {
			t := make([]any, rows)
			for r := 0; r < rows; r++ {
				row := make([]any, cols)
				for c := 0; c < cols; c++ {
					row[c] = cells[idx[r*cols+c]]
				}
				t[r] = row
			}
			tables = append(tables, t)
			k := n - 1
			for k >= 0 {
				idx[k]++
				if idx[k] < len(cells) {
					break
				}
				idx[k] = 0
				k--
			}
			if k < 0 {
				return
			}
		}
	}
	grid(1, 1, csvCellsAll)
	grid(1, 2, csvCellsAll)
	grid(2, 1, csvCellsAll)
	grid(2, 2, csvCellsSmall)
	if e.r.Thorough() {
		grid(1, 3, csvCellsAll)
		grid(3, 1, csvCellsAll)
		grid(2, 3, csvCellsSmall[:4])
		grid(3, 2, csvCellsSmall[:4])
	}
	var items []any
	for _, t := range tables {
		for _, c := range csvCommas {
			items = append(items, map[string]any{"rows": t, "comma": c})
		}
	}
	e.r.Extra("csv_inputs", len(items))
	e.each(items, 256, func(items []any) { checkCSV(e, "csv", items) })
}

// refCSVText: RFC 4180 with every field quoted.
func refCSVText(rows []any, comma string) string {
	var b strings.Builder
	for _, r := range rows {
		for i, c := range r.([]any) {
			if i > 0 {
				b.WriteString(comma)
			}
			b.WriteString("\"" + strings.ReplaceAll(c.(string), "\"", "\"\"") + "\"")
		}
		b.WriteString("\n")
	}
	return b.String()
}

// refCSVParse: strict RFC 4180 reader (LF or CRLF records, quoted fields with
// doubled quotes, no other interpretation).
func refCSVParse(text, comma string) ([]any, error) {
	var rows []any
	var row []any
	i := 0
	n := len(text)
	for i < n {
		var f strings.Builder
		if text[i] == '"' {
			i++
			for {
				if i >= n {
					return nil, errMalformed
				}
				if text[i] == '"' {
					if i+1 < n && text[i+1] == '"' {
						f.WriteByte('"')
						i += 2
						continue
					}
					i++
					break
				}
				f.WriteByte(text[i])
				i++
			}
		} else {
			for i < n && !strings.HasPrefix(text[i:], comma) && text[i] != '\n' && text[i] != '\r' {
				if text[i] == '"' {
					return nil, errMalformed
				}
				f.WriteByte(text[i])
				i++
			}
		}
		row = append(row, f.String())
		switch {
		case i < n && strings.HasPrefix(text[i:], comma):
			i += len(comma)
			if i == n {
				row = append(row, "")
			}
			continue
		case i < n && text[i] == '\r' && i+1 < n && text[i+1] == '\n':
			i += 2
		case i < n && text[i] == '\n':
			i++
		case i == n:
		default:
			return nil, errMalformed
		}
		rows = append(rows, row)
		row = nil
	}
	if row != nil {
		rows = append(rows, row)
	}
	return rows, nil
}

// goCSV reads text with Go encoding/csv and lazy quotes (the library fq documents);
// trim selects TrimLeadingSpace, comment the '#' comment lines (fq uses both).
func goCSV(text, comma string, trim, comment bool) ([]any, error) {
	r := csv.NewReader(strings.NewReader(text))
	r.LazyQuotes = true
	r.TrimLeadingSpace = trim
	r.Comma = rune(comma[0])
	if comment {
		r.Comment = '#'
	}
	rows := []any{}
	for {
		rec, err := r.Read()
		if err == io.EOF {
			return rows, nil
		}
		if err != nil {
			return nil, err
		}
		rows = append(rows, strItems(rec))
	}
}

// classifyCSV recognises the exact shapes of the recorded CSV defects: fq must
// behave exactly like the library in fq's configuration, and switching off the
// named reader features (and/or restoring blank-line records) must give back the
// original table. Anything else keeps the generic signature.
func classifyCSV(rows []any, comma, text string, got any, isVal bool) string {
	if !isVal {
		return ""
	}
	lib, liberr := goCSV(text, comma, true, true)
	if m, ok := unwrap(got).(map[string]any); ok {
		if _, gap := m["gap0"]; gap && len(m) == 1 && liberr != nil {
			return ":decode-error-returned-as-gap-value"
		}
		return ""
	}
	if liberr != nil || !(canon(got) == canon(lib) || (len(lib) == 0 && got == nil)) {
		return ""
	}
	noEmpty := []any{}
	hasEmpty := false
	for _, row := range rows {
		if r := row.([]any); len(r) == 1 && r[0] == "" {
			hasEmpty = true // written as a blank line, which CSV readers skip
			continue
		}
		noEmpty = append(noEmpty, row)
	}
	for _, c := range []struct {
		trim, comment bool
		name          string
	}{{true, true, ""}, {true, false, ":comment-char"}, {false, true, ":separator-trimmed-as-leading-space"}, {false, false, ":comment-char:separator-trimmed-as-leading-space"}} {
		alt, err := goCSV(text, comma, c.trim, c.comment)
		if err != nil {
			continue
		}
		// the signature names the first cause only (comment, separator, blank line); the
		// whole prediction above must still hold
		first := func(n string) string {
			if i := strings.Index(n[1:], ":"); i >= 0 {
				return n[:i+1]
			}
			return n
		}
		if canon(alt) == canon(rows) && c.name != "" {
			return ":lost" + first(c.name)
		}
		if hasEmpty && canon(alt) == canon(noEmpty) {
			return ":lost" + first(c.name+":single-empty-field-record")
		}
	}
	return ""
}

func checkCSV(e *env, fn string, items []any) {
	inputs := make([]any, len(items))
	for i, it := range items {
		m := itemMap(it)
		inputs[i] = map[string]any{"rows": m["rows"], "comma": m["comma"], "t": refCSVText(m["rows"].([]any), itemStr(m["comma"]))}
	}
	body := `. as $it | {comma: $it.comma} as $o | [T($it.rows|to_csv($o)|[., T(from_csv($o))]), T($it.t|from_csv($o))]`
	outs := e.batch(fn, body, inputs)
	for i, o := range outs {
		if o == nil {
			continue
		}
		obs := asList(o)
		if len(obs) != 2 {
			e.violate("escape:csv", "malformed driver output", fn, items[i])
			continue
		}
		m := itemMap(items[i])
		rows := m["rows"].([]any)
		comma := itemStr(m["comma"])
		want := canon(rows)
		e.r.Eval(3)
		e.r.Nontrivial("csv:" + comma + want)
		r := getRes(obs[0])
		v, ok := r.one()
		p := asList(v)
		if !ok || len(p) != 2 {
			e.violate("encode-error:csv", fmt.Sprintf("%s | to_csv({comma:%q}) = %s", want, comma, r), fn, items[i])
			continue
		}
		text, _ := p[0].(string)
		back := getRes(p[1])
		e.show("%s | to_csv({comma:%q}) -> %q | from_csv -> %s", want, comma, text, back)
		if bv, ok := back.one(); !ok || canon(bv) != want {
			sig := "roundtrip:csv" + classifyCSV(rows, comma, text, bv, ok)
			if strings.HasSuffix(sig, ":decode-error-returned-as-gap-value") {
				sig = "csv:decode-error-returned-as-gap-value"
			}
			if strings.HasSuffix(sig, ":lost:separator-trimmed-as-leading-space") {
				sig = "csv:separator-trimmed-as-leading-space"
			}
			e.violate(sig, fmt.Sprintf("%s | to_csv({comma:%q}) = %q; | from_csv = %s, want the input", want, comma, text, back), fn, items[i])
		}
		if pr, err := refCSVParse(text, comma); err != nil || canon(pr) != want {
			e.violate("ref:to_csv:rfc4180", fmt.Sprintf("%s | to_csv({comma:%q}) = %q which an RFC 4180 reader sees as %s (%v)", want, comma, text, canon(pr), err), fn, items[i])
		}
		r = getRes(obs[1])
		t := refCSVText(rows, comma)
		e.show("%q | from_csv({comma:%q}) -> %s", t, comma, r)
		if v, ok := r.one(); !ok || canon(v) != want {
			e.violate("ref:from_csv", fmt.Sprintf("%q | from_csv({comma:%q}) = %s, want %s", t, comma, r, want), fn, items[i])
		}
	}
}
