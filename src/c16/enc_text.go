package c16

import (
	"bytes"
	"encoding/base64"
	"encoding/csv"
	"encoding/json"
	"encoding/xml"
	"fmt"
	"math"
	"regexp"
	"strconv"
	"strings"
	"unicode/utf8"
)

// ---------------------------------------------------------------------------
// JSON through Go's encoding/json

type orderedMap struct {
	k []string
	v []any
}

func (o orderedMap) MarshalJSON() ([]byte, error) {
	var bb bytes.Buffer
	bb.WriteByte('{')
	for i, k := range o.k {
		if i > 0 {
			bb.WriteByte(',')
		}
		kb, err := json.Marshal(k)
		if err != nil {
			return nil, err
		}
		bb.Write(kb)
		bb.WriteByte(':')
		vb, err := json.Marshal(o.v[i])
		if err != nil {
			return nil, err
		}
		bb.Write(vb)
	}
	bb.WriteByte('}')
	return bb.Bytes(), nil
}

func fmtFloat(f float64, style byte) string {
	if f == 0 && math.Signbit(f) {
		if style == 'e' {
			return "-0e0"
		}
		return "-0.0"
	}
	return strconv.FormatFloat(f, style, -1, 64)
}

func toGoJSON(v *V, fstyle byte) any {
	switch v.T {
	case "null":
		return nil
	case "bool":
		return v.B
	case "int":
		return json.Number(v.I)
	case "flt":
		return json.Number(fmtFloat(v.Float(), fstyle))
	case "str":
		return string(v.Bytes())
	case "arr":
		out := make([]any, 0, len(v.Elems()))
		for _, e := range v.Elems() {
			out = append(out, toGoJSON(e, fstyle))
		}
		return out
	case "map":
		o := orderedMap{k: v.Keys()}
		for _, e := range v.Elems() {
			o.v = append(o.v, toGoJSON(e, fstyle))
		}
		return o
	}
	panic("toGoJSON " + v.T)
}

// asciiJSON rewrites every non ASCII character (they only occur inside strings)
// as \uXXXX escapes.
func asciiJSON(b []byte) []byte {
	var out []byte
	for len(b) > 0 {
		r, sz := utf8.DecodeRune(b)
		if r < 0x80 {
			out = append(out, b[0])
		} else if r >= 0x10000 {
			r -= 0x10000
			out = append(out, fmt.Sprintf("\\u%04x\\u%04x", 0xd800+(r>>10), 0xdc00+(r&0x3ff))...)
		} else {
			out = append(out, fmt.Sprintf("\\u%04X", r)...)
		}
		b = b[sz:]
	}
	return out
}

func hasType(v *V, t string) bool {
	found := false
	v.walk(func(n *V) {
		if n.T == t {
			found = true
		}
	})
	return found
}

func dedupe(l list) list {
	seen := map[string]bool{}
	var out list
	for _, e := range l {
		if !seen[string(e.B)] {
			seen[string(e.B)] = true
			out = append(out, e)
		}
	}
	return out
}

func jsonDocs(v *V) list {
	var out list
	styles := []byte{'g'}
	if hasType(v, "flt") {
		styles = append(styles, 'e', 'f')
	}
	for _, st := range styles {
		g := toGoJSON(v, st)
		c, err := json.Marshal(g)
		if err != nil {
			panic(err)
		}
		out = append(out, enc{B: c, L: "compact:" + string(st)})
		if st != 'g' {
			continue
		}
		ind, err := json.MarshalIndent(g, "", "  ")
		if err != nil {
			panic(err)
		}
		out = append(out, enc{B: ind, L: "indent"})
		out = append(out, enc{B: concat(c, []byte("\n")), L: "compact+newline"})
		out = append(out, enc{B: asciiJSON(c), L: "compact:ascii-escaped"})
		out = append(out, enc{B: concat([]byte(" \t\r\n"), c, []byte(" \t\r\n")), L: "compact:surrounding-whitespace"})
	}
	return dedupe(out)
}

func jsonEncs(v *V, m mode) encSet { return jsonDocs(v) }

// jsonl: the root array's elements one per line
func jsonlEncs(v *V, m mode) encSet {
	var lines [][]byte
	for _, e := range v.Elems() {
		c, err := json.Marshal(toGoJSON(e, 'g'))
		if err != nil {
			panic(err)
		}
		lines = append(lines, c)
	}
	return dedupe(list{
		{B: append(bytes.Join(lines, []byte("\n")), '\n'), L: "lf"},
		{B: bytes.Join(lines, []byte("\n")), L: "lf:no-final-newline"},
		{B: append(bytes.Join(lines, []byte("\r\n")), '\r', '\n'), L: "crlf"},
	})
}

// ---------------------------------------------------------------------------
// YAML, hand written emitter (YAML 1.2 core schema)

func yamlDQ(b []byte) string {
	var sb strings.Builder
	sb.WriteByte('"')
	for len(b) > 0 {
		r, sz := utf8.DecodeRune(b)
		switch {
		case r == '"':
			sb.WriteString(`\"`)
		case r == '\\':
			sb.WriteString(`\\`)
		case r == '\n':
			sb.WriteString(`\n`)
		case r == '\t':
			sb.WriteString(`\t`)
		case r < 0x20 || r == 0x7f:
			fmt.Fprintf(&sb, `\x%02x`, r)
		default:
			sb.Write(b[:sz])
		}
		b = b[sz:]
	}
	sb.WriteByte('"')
	return sb.String()
}

func plainSafe(b []byte) bool {
	if len(b) == 0 {
		return false
	}
	s := string(b)
	switch strings.ToLower(s) {
	case "null", "true", "false", "yes", "no", "on", "off", "y", "n", "nan", "inf":
		return false
	}
	for i, r := range s {
		letter := r >= 'a' && r <= 'z' || r >= 'A' && r <= 'Z' || r >= 0x80
		digit := r >= '0' && r <= '9'
		if !(letter || (digit && i > 0)) {
			return false
		}
	}
	return true
}

// style: 0 double quoted strings, 1 single quoted, 2 plain where safe
func yamlScalar(v *V, style int) string {
	switch v.T {
	case "null":
		if style == 1 {
			return "~"
		}
		return "null"
	case "bool":
		return strconv.FormatBool(v.B)
	case "int":
		return v.I
	case "flt":
		f := v.Float()
		switch {
		case math.IsInf(f, 1):
			return ".inf"
		case math.IsInf(f, -1):
			return "-.inf"
		case math.IsNaN(f):
			return ".nan"
		}
		s := fmtFloat(f, 'g')
		if !strings.ContainsAny(s, ".e") {
			s += ".0"
		}
		return s
	case "str":
		b := v.Bytes()
		switch style {
		case 1:
			if !bytes.ContainsAny(b, "\n\t\r") {
				return "'" + strings.ReplaceAll(string(b), "'", "''") + "'"
			}
		case 2:
			if plainSafe(b) {
				return string(b)
			}
		}
		return yamlDQ(b)
	case "bin":
		return "!!binary \"" + base64.StdEncoding.EncodeToString(v.Bytes()) + "\""
	}
	panic("yamlScalar " + v.T)
}

func isContainer(v *V) bool { return v.T == "arr" || v.T == "map" }

func yamlFlow(v *V, style int, jsonKeys bool) string {
	switch v.T {
	case "arr":
		var p []string
		for _, e := range v.Elems() {
			p = append(p, yamlFlow(e, style, jsonKeys))
		}
		return "[" + strings.Join(p, ", ") + "]"
	case "map":
		var p []string
		for i, e := range v.Elems() {
			k := v.Keys()[i]
			if jsonKeys {
				k = yamlDQ([]byte(k))
			}
			p = append(p, k+": "+yamlFlow(e, style, jsonKeys))
		}
		return "{" + strings.Join(p, ", ") + "}"
	}
	return yamlScalar(v, style)
}

func yamlBlock(sb *strings.Builder, v *V, indent string, style int) {
	el := v.Elems()
	for i, e := range el {
		sb.WriteString(indent)
		if v.T == "arr" {
			sb.WriteString("-")
		} else {
			sb.WriteString(v.Keys()[i] + ":")
		}
		if isContainer(e) && len(e.Elems()) > 0 {
			sb.WriteString("\n")
			yamlBlock(sb, e, indent+"  ", style)
		} else {
			sb.WriteString(" " + yamlFlow(e, style, false) + "\n")
		}
	}
}

func yamlEncs(v *V, m mode) encSet {
	var out list
	for style := 0; style < 3; style++ {
		out = append(out, enc{B: []byte(yamlFlow(v, style, false) + "\n"), L: fmt.Sprintf("flow:s%d", style)})
		if len(v.Elems()) > 0 {
			var sb strings.Builder
			yamlBlock(&sb, v, "", style)
			out = append(out, enc{B: []byte(sb.String()), L: fmt.Sprintf("block:s%d", style)})
			if style == 0 {
				out = append(out, enc{B: []byte("---\n" + sb.String() + "...\n"), L: "block:document-markers"})
			}
		}
	}
	out = append(out, enc{B: []byte(yamlFlow(v, 0, true)), L: "flow:json-keys:no-newline"})
	return dedupe(out)
}

// ---------------------------------------------------------------------------
// TOML 1.0, hand written emitter

func tomlBasic(b []byte) string {
	var sb strings.Builder
	sb.WriteByte('"')
	for len(b) > 0 {
		r, sz := utf8.DecodeRune(b)
		switch {
		case r == '"':
			sb.WriteString(`\"`)
		case r == '\\':
			sb.WriteString(`\\`)
		case r == '\n':
			sb.WriteString(`\n`)
		case r == '\t':
			sb.WriteString(`\t`)
		case r < 0x20 || r == 0x7f:
			fmt.Fprintf(&sb, `\u%04X`, r)
		default:
			sb.Write(b[:sz])
		}
		b = b[sz:]
	}
	sb.WriteByte('"')
	return sb.String()
}

func tomlValue(v *V, style int) string {
	switch v.T {
	case "bool":
		return strconv.FormatBool(v.B)
	case "int":
		return v.I
	case "flt":
		f := v.Float()
		switch {
		case math.IsInf(f, 1):
			return "inf"
		case math.IsInf(f, -1):
			return "-inf"
		case math.IsNaN(f):
			return "nan"
		}
		s := fmtFloat(f, 'g')
		if !strings.ContainsAny(s, ".e") {
			s += ".0"
		}
		// TOML wants digits on both sides of a decimal point; 'g' gives that
		return s
	case "str":
		b := v.Bytes()
		if style == 1 && !bytes.ContainsAny(b, "'\n\t\r") {
			return "'" + string(b) + "'"
		}
		return tomlBasic(b)
	case "arr":
		var p []string
		for _, e := range v.Elems() {
			p = append(p, tomlValue(e, style))
		}
		return "[" + strings.Join(p, ", ") + "]"
	case "map":
		var p []string
		for i, e := range v.Elems() {
			p = append(p, v.Keys()[i]+" = "+tomlValue(e, style))
		}
		return "{" + strings.Join(p, ", ") + "}"
	}
	panic("tomlValue " + v.T)
}

func tomlEncs(v *V, m mode) encSet {
	var out list
	for style := 0; style < 2; style++ {
		var sb strings.Builder
		for i, e := range v.Elems() {
			sb.WriteString(v.Keys()[i] + " = " + tomlValue(e, style) + "\n")
		}
		out = append(out, enc{B: []byte(sb.String()), L: fmt.Sprintf("inline:s%d", style)})
	}
	// table sections for map valued keys (scalars first, as TOML requires)
	hasSub := false
	for _, e := range v.Elems() {
		if e.T == "map" {
			hasSub = true
		}
	}
	if hasSub {
		var sb strings.Builder
		for i, e := range v.Elems() {
			if e.T != "map" {
				sb.WriteString(v.Keys()[i] + " = " + tomlValue(e, 0) + "\n")
			}
		}
		for i, e := range v.Elems() {
			if e.T == "map" {
				sb.WriteString("\n[" + v.Keys()[i] + "]\n")
				for j, ee := range e.Elems() {
					sb.WriteString(e.Keys()[j] + " = " + tomlValue(ee, 0) + "\n")
				}
			}
		}
		out = append(out, enc{B: []byte(sb.String()), L: "sections"})
		// dotted keys
		var sd strings.Builder
		ok := true
		for i, e := range v.Elems() {
			if e.T == "map" {
				if len(e.Elems()) == 0 {
					ok = false
				}
				for j, ee := range e.Elems() {
					sd.WriteString(v.Keys()[i] + "." + e.Keys()[j] + " = " + tomlValue(ee, 0) + "\n")
				}
			} else {
				sd.WriteString(v.Keys()[i] + " = " + tomlValue(e, 0) + "\n")
			}
		}
		if ok {
			out = append(out, enc{B: []byte(sd.String()), L: "dotted"})
		}
	}
	// every notation of the value (enc_toml_forms.go): headers, arrays of tables,
	// inline tables, dotted keys, scalar spellings, layouts
	if !m.canon {
		out = append(out, tomlForms(v, m)...)
	}
	return dedupe(out)
}

// ---------------------------------------------------------------------------
// XML through Go's encoding/xml (token encoder). The generic value is mapped to
// an element tree: the document is <r>content(v)</r>; a map is child elements
// named by its keys, an array valued key is a repeated element, everything else
// is character data (numbers, booleans, null as their JSON literal).

func xmlText(v *V) string {
	switch v.T {
	case "str":
		return string(v.Bytes())
	case "null":
		return "null"
	case "bool":
		return strconv.FormatBool(v.B)
	case "int":
		return v.I
	case "flt":
		return fmtFloat(v.Float(), 'g')
	}
	panic("xmlText " + v.T)
}

func xmlOK(v *V, top bool) bool {
	switch v.T {
	case "bin":
		return false
	case "flt":
		f := v.Float()
		return !math.IsInf(f, 0) && !math.IsNaN(f)
	case "arr":
		if top || len(v.Elems()) < 2 {
			return false
		}
		for _, e := range v.Elems() {
			if e.T == "arr" || !xmlOK(e, false) {
				return false
			}
		}
		return true
	case "map":
		for _, e := range v.Elems() {
			if !xmlOK(e, false) {
				return false
			}
		}
	}
	return true
}

func xmlTokens(enc *xml.Encoder, name string, v *V, cdata bool) error {
	start := xml.StartElement{Name: xml.Name{Local: name}}
	if v.T == "arr" {
		for _, e := range v.Elems() {
			if err := xmlTokens(enc, name, e, cdata); err != nil {
				return err
			}
		}
		return nil
	}
	if err := enc.EncodeToken(start); err != nil {
		return err
	}
	if v.T == "map" {
		for i, e := range v.Elems() {
			if err := xmlTokens(enc, v.Keys()[i], e, cdata); err != nil {
				return err
			}
		}
	} else if t := xmlText(v); t != "" {
		if err := enc.EncodeToken(xml.CharData(t)); err != nil {
			return err
		}
	}
	return enc.EncodeToken(start.End())
}

func xmlDoc(v *V, header bool, indent bool) []byte {
	var bb bytes.Buffer
	e := xml.NewEncoder(&bb)
	if indent {
		e.Indent("", "  ")
	}
	if header {
		if err := e.EncodeToken(xml.ProcInst{Target: "xml", Inst: []byte(`version="1.0" encoding="UTF-8"`)}); err != nil {
			panic(err)
		}
		if !indent {
			_ = e.EncodeToken(xml.CharData("\n"))
		}
	}
	if err := xmlTokens(e, "r", v, false); err != nil {
		panic(err)
	}
	if err := e.Flush(); err != nil {
		panic(err)
	}
	return bb.Bytes()
}

var emptyElemRE = regexp.MustCompile(`<([a-z0-9]+)></([a-z0-9]+)>`)

func selfClose(b []byte) []byte {
	return emptyElemRE.ReplaceAllFunc(b, func(m []byte) []byte {
		sm := emptyElemRE.FindSubmatch(m)
		if string(sm[1]) != string(sm[2]) {
			return m
		}
		return []byte("<" + string(sm[1]) + "/>")
	})
}

func xmlEncs(v *V, m mode) encSet {
	plain := xmlDoc(v, false, false)
	out := list{
		{B: plain, L: "plain"},
		{B: xmlDoc(v, true, false), L: "header"},
		{B: xmlDoc(v, true, true), L: "header+indent"},
		{B: append(append([]byte{}, plain...), '\n'), L: "plain+newline"},
		// <x></x> and <x/> are the same element
		{B: selfClose(plain), L: "self-closing"},
	}
	return dedupe(out)
}

// xmlExpectObject is the documented "elements as object" shape (format/xml/xml.md).
func xmlContentExpect(v *V) *V {
	switch v.T {
	case "map":
		if len(v.Elems()) == 0 {
			return vStrLit("")
		}
		var es []*V
		for _, e := range v.Elems() {
			es = append(es, xmlContentExpect(e))
		}
		return vMap(v.Keys(), es)
	case "arr":
		var es []*V
		for _, e := range v.Elems() {
			es = append(es, xmlContentExpect(e))
		}
		return vArr(es...)
	}
	return vStrLit(xmlText(v))
}

func xmlExpect(v *V) *V { return vMap([]string{"r"}, []*V{xmlContentExpect(v)}) }

// xmlExpectArray is the documented "elements as array" shape:
// [name, attributes-or-null (with "#text"), [children...]]
func xmlArrayExpect(name string, v *V) []*V {
	if v.T == "arr" {
		var out []*V
		for _, e := range v.Elems() {
			out = append(out, xmlArrayExpect(name, e)...)
		}
		return out
	}
	attrs := vNull()
	var kids []*V
	if v.T == "map" {
		for i, e := range v.Elems() {
			kids = append(kids, xmlArrayExpect(v.Keys()[i], e)...)
		}
	} else if t := xmlText(v); t != "" {
		attrs = vMap([]string{"#text"}, []*V{vStrLit(t)})
	}
	return []*V{vArr(vStrLit(name), attrs, vArr(kids...))}
}

// ---------------------------------------------------------------------------
// CSV through Go's encoding/csv. The value is an array of rows of strings.

func csvEncs(v *V, m mode) encSet {
	var rows [][]string
	for _, r := range v.Elems() {
		var row []string
		for _, f := range r.Elems() {
			row = append(row, string(f.Bytes()))
		}
		rows = append(rows, row)
	}
	// fq's csv decoder has a documented comment option (default "#"); a row whose
	// first field starts with it is a comment line by design, so such documents are
	// decoded with comments switched off
	hashRow := false
	for _, r := range rows {
		if len(r) > 0 && strings.HasPrefix(r[0], "#") {
			hashRow = true
		}
	}
	var out list
	for _, variant := range []struct {
		name  string
		comma rune
		crlf  bool
	}{{"comma", ',', false}, {"comma:crlf", ',', true}, {"semicolon", ';', false}, {"tab", '\t', false}} {
		var bb bytes.Buffer
		w := csv.NewWriter(&bb)
		w.Comma = variant.comma
		w.UseCRLF = variant.crlf
		if err := w.WriteAll(rows); err != nil {
			panic(err)
		}
		e := enc{B: append([]byte{}, bb.Bytes()...), L: variant.name}
		if variant.comma != ',' {
			e.Opts = map[string]any{"comma": string(variant.comma)}
		}
		if hashRow {
			if e.Opts == nil {
				e.Opts = map[string]any{}
			}
			e.Opts["comment"] = ""
		}
		out = append(out, e)
	}
	return out
}
