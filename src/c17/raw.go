package c17

import (
	"bytes"
	"encoding/json"
	"fmt"
	"strings"

	"github.com/wader/fq/internal/verif/core"
	"github.com/wader/fq/internal/verif/fqrun"
)

// Section S-raw: programs that read the *bytes* of an input after later inputs were opened
// (slurp, input, --argdecode keep earlier inputs alive), over every list of 0..3 inputs of the
// five kinds, with the files of the virtual file system seekable (regular files) and not
// seekable (pipes, fifos: fq reads them into memory). Oracles: (1) what is printed does not
// depend on whether the files are seekable; (2) every input contributes exactly what it
// prints when run alone: in argument order, and inside the slurped array.

type RawCase struct {
	Kind   string   `json:"kind"` // raw
	Args   []string `json:"args"`
	Form   string   `json:"form"`
	NoSeek bool     `json:"noseek"`
}

const rawEach = `tobytes | tostring`

type rawForm struct {
	name string
	args func(fmtArgs []string, list []string) []string
}

var rawForms = []rawForm{
	{"each", func(f []string, l []string) []string {
		return append(append(append([]string{}, f...), "-c", rawEach), l...)
	}},
	{"slurp", func(f []string, l []string) []string {
		return append(append(append([]string{}, f...), "-s", "-c", "map("+rawEach+")"), l...)
	}},
	{"input", func(f []string, l []string) []string {
		return append(append(append([]string{}, f...), "-c", `[., (try input catch "no-more")] | map(if type == "string" then . else `+rawEach+` end)`), l...)
	}},
	{"inputs", func(f []string, l []string) []string {
		return append(append(append([]string{}, f...), "-n", "-c", `[inputs] | map(`+rawEach+`)`), l...)
	}},
	{"argdecode", func(f []string, l []string) []string {
		return append(append(append([]string{}, f...), "-c", "--argdecode", "x", "g1", `[$x, .] | map(`+rawEach+`)`), l...)
	}},
	{"argdecode-null", func(f []string, l []string) []string {
		return append(append(append([]string{}, f...), "-n", "-c", "--argdecode", "x", "g2", "--argdecode", "y", "g1", `[$x, $y] | map(`+rawEach+`)`), l...)
	}},
}

func rawExec(args []string, noSeek bool) fqrun.Result {
	return fqrun.Run(fqrun.Opts{Args: args, Files: worldFiles, Dirs: worldDirs, StdinIsTerminal: true, NoSeek: noSeek})
}

func rawSame(a, b fqrun.Result) bool {
	return a.Exit == b.Exit && bytes.Equal(a.Stdout, b.Stdout) && bytes.Equal(a.Stderr, b.Stderr) && (a.Panic == nil) == (b.Panic == nil)
}

// rawCheck runs one (format flags, form, list) in both file system variants and judges it.
func rawCheck(fmtArgs []string, form rawForm, list []string, alone map[string]fqrun.Result, verbose bool) (sig, what string, c RawCase) {
	args := form.args(fmtArgs, list)
	seek := rawExec(args, false)
	noseek := rawExec(args, true)
	c = RawCase{Kind: "raw", Args: args, Form: form.name, NoSeek: true}
	if verbose {
		fmt.Printf("  fq %q\n   seekable files:     %s\n   not seekable files: %s\n", args, seek, noseek)
	}
	if seek.Panic != nil || noseek.Panic != nil {
		return "raw:panic:" + form.name, fmt.Sprintf("fq %q: go panic %v / %v", args, seek.Panic, noseek.Panic), c
	}
	if !rawSame(seek, noseek) {
		return "raw:seekability-changes-output:" + form.name, fmt.Sprintf("fq %q: with seekable files %s; with files that cannot seek (pipes) %s", args, seek, noseek), c
	}
	aloneOf := func(name string) fqrun.Result {
		k := strings.Join(fmtArgs, " ") + "\x00" + name
		if r, ok := alone[k]; ok {
			return r
		}
		r := rawExec(append(append(append([]string{}, fmtArgs...), "-c", rawEach), name), false)
		alone[k] = r
		return r
	}
	if len(list) == 0 {
		return "", "", c // no file arguments: the input is stdin, judged by the other sections
	}
	switch form.name {
	case "each":
		var want bytes.Buffer
		for _, n := range list {
			if a := aloneOf(n); a.Exit == 0 {
				want.Write(a.Stdout)
			}
		}
		if len(list) > 0 && !bytes.Equal(want.Bytes(), seek.Stdout) {
			return "raw:not-the-run-alone-outputs:each", fmt.Sprintf("fq %q prints %q; the inputs run alone print %q", args, seek.Stdout, want.Bytes()), c
		}
	case "slurp", "inputs":
		var want []any
		for _, n := range list {
			if a := aloneOf(n); a.Exit == 0 {
				var v any
				if err := json.Unmarshal(a.Stdout, &v); err != nil {
					return "", "", c
				}
				want = append(want, v)
			}
		}
		if want == nil {
			want = []any{}
		}
		var got any
		if err := json.Unmarshal(seek.Stdout, &got); err != nil {
			return "raw:no-array:" + form.name, fmt.Sprintf("fq %q prints %q (exit %d): not one JSON array", args, seek.Stdout, seek.Exit), c
		}
		wb, _ := json.Marshal(want)
		gb, _ := json.Marshal(got)
		if !bytes.Equal(wb, gb) {
			return "raw:not-the-run-alone-outputs:" + form.name, fmt.Sprintf("fq %q prints %s; the inputs run alone give %s", args, gb, wb), c
		}
	}
	return "", "", c
}

func rawSection(r *core.Run) {
	lists := allLists(3)
	fmts := [][]string{nil, {"-d", "bytes"}, {"-d", "json"}}
	alone := map[string]fqrun.Result{}
	var idx int64
	for _, f := range fmts {
		for _, form := range rawForms {
			for _, l := range lists {
				idx++
				if !r.Mine(idx) {
					continue
				}
				if r.Expired() {
					r.NotExhaustive("deadline reached in section S-raw")
					return
				}
				sig, what, c := rawCheck(f, form, l, alone, false)
				r.Eval(2)
				r.AddTraces(2)
				r.Count("cases:S-raw", 1)
				r.Nontrivial("raw\x00" + strings.Join(c.Args, "\x00"))
				if sig != "" {
					r.Violate(sig, what, c)
				}
			}
		}
	}
	r.Section("S-raw")
}

func rawReplay(raw json.RawMessage) bool {
	var c RawCase
	if err := json.Unmarshal(raw, &c); err != nil {
		return false
	}
	// recover (format flags, form, list) from the argv: lists are the trailing file kinds
	for _, f := range [][]string{nil, {"-d", "bytes"}, {"-d", "json"}} {
		for _, form := range rawForms {
			if form.name != c.Form {
				continue
			}
			for _, l := range allLists(3) {
				if strings.Join(form.args(f, l), "\x00") == strings.Join(c.Args, "\x00") {
					sig, what, _ := rawCheck(f, form, l, map[string]fqrun.Result{}, true)
					if sig != "" {
						fmt.Printf("  verdict: %s\n    %s\n", sig, what)
					}
					return sig != ""
				}
			}
		}
	}
	fmt.Println("  case not found in the S-raw family")
	return false
}
