package c14

// Section "bytes": to_hex/from_hex, to_base64/from_base64 (default + four
// variants) and the nine hash functions over all byte strings of length <= 3
// over an 8 byte alphabet plus boundary lengths, each also cut to a
// non-byte-aligned bit length, in both binary units (bits: zero padded at the
// end when consumed; tobytes: zero padded in front).

import (
	"crypto/md5"
	"crypto/sha1"
	"crypto/sha256"
	"crypto/sha512"
	"encoding/base64"
	"encoding/hex"
	"encoding/json"
	"fmt"
	"math/big"
	"os/exec"
	"strings"

	"golang.org/x/crypto/md4"
	"golang.org/x/crypto/sha3"
)

var byteAlphabet = []byte{0x00, 0x01, 0x2b, 0x2f, 0x3d, 0x7f, 0x80, 0xff}
var boundaryLens = []int{4, 5, 6, 7, 63, 64, 65, 1023, 1024, 1025}

// lengths around the copy buffer sizes of the conversion paths (32 KiB, 64 KiB); bit cuts 0 and 3 only
var largeLens = []int{32769, 65537}
var hashNames = []string{"md4", "md5", "sha1", "sha256", "sha512", "sha3_224", "sha3_256", "sha3_384", "sha3_512"}

func refHash(name string, b []byte) []byte {
	switch name {
	case "md4":
		h := md4.New()
		h.Write(b)
		return h.Sum(nil)
	case "md5":
		s := md5.Sum(b)
		return s[:]
	case "sha1":
		s := sha1.Sum(b)
		return s[:]
	case "sha256":
		s := sha256.Sum256(b)
		return s[:]
	case "sha512":
		s := sha512.Sum512(b)
		return s[:]
	case "sha3_224":
		s := sha3.Sum224(b)
		return s[:]
	case "sha3_256":
		s := sha3.Sum256(b)
		return s[:]
	case "sha3_384":
		s := sha3.Sum384(b)
		return s[:]
	case "sha3_512":
		s := sha3.Sum512(b)
		return s[:]
	}
	panic(name)
}

// shortByteStrings: all strings of length <= 3 over byteAlphabet (585).
func shortByteStrings() [][]byte {
	out := [][]byte{{}}
	prev := [][]byte{{}}
	for l := 1; l <= 3; l++ {
		var cur [][]byte
		for _, p := range prev {
			for _, c := range byteAlphabet {
				cur = append(cur, append(append([]byte{}, p...), c))
			}
		}
		out = append(out, cur...)
		prev = cur
	}
	return out
}

func boundaryBytes(n int) []byte {
	b := make([]byte, n)
	for i := range b {
		b[i] = byte(i*37 + 11 + i/251)
	}
	if n > 0 {
		b[n-1] = 0xff // all low bits set so that every cut drops a one bit
	}
	return b
}

func enumBytes(e *env) {
	selfTest()
	var items []any
	add := func(b []byte) {
		for k := 0; k < 8; k++ {
			n := len(b)*8 - k
			if n < 0 || (len(b) == 0 && k > 0) {
				continue
			}
			items = append(items, map[string]any{"b": bytesToList(b), "n": n})
		}
	}
	short := shortByteStrings()
	for _, b := range short {
		add(b)
	}
	for _, n := range boundaryLens {
		add(boundaryBytes(n))
	}
	e.r.Extra("bytes_inputs", len(items))
	if e.r.ShardIdx == 0 && e.r.Thorough() {
		pythonHashCrossCheck(e, short)
	}
	e.each(items, 48, func(items []any) { checkBytes(e, "bytes", items) })
	var large []any
	for _, n := range largeLens {
		b := boundaryBytes(n)
		for _, k := range []int{0, 3} {
			large = append(large, map[string]any{"b": bytesToList(b), "n": len(b)*8 - k})
		}
	}
	e.r.Extra("bytes_large_inputs", len(large))
	e.each(large, 1, func(items []any) { checkBytes(e, "bytes", items) })
}

var bytesBodyText string

func bytesBody() string {
	if bytesBodyText != "" {
		return bytesBodyText
	}
	form := func(v string) string {
		var p []string
		p = append(p, "T("+v+"|to_hex)", "T("+v+"|to_base64)")
		for _, va := range b64Variants {
			p = append(p, fmt.Sprintf("T(%s|to_base64({encoding:%q}))", v, va))
		}
		for _, h := range hashNames {
			p = append(p, fmt.Sprintf("T(%s|to_%s|B)", v, h))
		}
		p = append(p, "T("+v+"|to_hex|from_hex|B)", "T("+v+"|to_hex|ascii_upcase|from_hex|B)", "T("+v+"|to_base64|from_base64|B)")
		for _, va := range b64Variants {
			p = append(p, fmt.Sprintf("T(%s|to_base64({encoding:%q})|from_base64({encoding:%q})|B)", v, va, va))
		}
		return "[" + strings.Join(p, ",") + "]"
	}
	var d []string
	d = append(d, "T($it.hex|from_hex|B)", "T($it.hex|ascii_upcase|from_hex|B)", "T($it.b64.std|from_base64|B)")
	for _, va := range b64Variants {
		d = append(d, fmt.Sprintf("T($it.b64.%s|from_base64({encoding:%q})|B)", va, va))
	}
	bytesBodyText = ". as $it | ($it.b|tobytes) as $B | ($B|tobits|.[:$it.n]) as $x | ($x|tobytes) as $y | [" +
		form("$x") + "," + form("$y") + ",[" + strings.Join(d, ",") + "], T($x|B), T($y|B)]"
	return bytesBodyText
}

// padTail: the first n bits of b followed by zero bits up to a byte boundary.
func padTail(b []byte, n int) []byte {
	o := append([]byte{}, b[:(n+7)/8]...)
	if n%8 != 0 {
		o[len(o)-1] &= byte(0xff << (8 - uint(n%8)))
	}
	return o
}

// padHead: the first n bits of b as a big-endian number in ceil(n/8) bytes.
func padHead(b []byte, n int) []byte {
	v := new(big.Int).SetBytes(b)
	v.Rsh(v, uint(len(b)*8-n))
	return v.FillBytes(make([]byte, (n+7)/8))
}

func checkBytes(e *env, fn string, items []any) {
	inputs := make([]any, len(items))
	for i, it := range items {
		m := itemMap(it)
		b, _ := listToBytes(m["b"])
		p := padTail(b, itemInt(m["n"]))
		b64 := map[string]any{}
		for _, va := range b64Variants {
			b64[va] = refB64(p, va)
		}
		inputs[i] = map[string]any{"b": m["b"], "n": m["n"], "hex": refHex(p), "b64": b64}
	}
	outs := e.batch(fn, bytesBody(), inputs)
	for i, o := range outs {
		if o == nil {
			continue
		}
		m := itemMap(items[i])
		b, _ := listToBytes(m["b"])
		n := itemInt(m["n"])
		top := asList(o)
		if len(top) != 5 {
			e.violate("escape:bytes", "malformed driver output "+trunc(canon(o), 200), fn, items[i])
			continue
		}
		desc := fmt.Sprintf("bytes %x cut to %d bits", b, n)
		if len(b) > 40 {
			desc = fmt.Sprintf("%d position-dependent bytes cut to %d bits", len(b), n)
		}
		class := "aligned"
		if n%8 != 0 {
			class = "unaligned"
		}
		// the binaries themselves
		wantBin := func(r res, bits int, by []byte) bool {
			v, ok := r.one()
			if !ok {
				return false
			}
			l := asList(v)
			if len(l) != 2 || canon(l[0]) != fmt.Sprint(bits) {
				return false
			}
			got, ok := listToBytes(l[1])
			return ok && string(got) == string(by)
		}
		binStr := func(bits int, by []byte) string { return trunc(fmt.Sprintf("%d bits, bytes %x", bits, by), 120) }
		// forms: 0 = bit unit (read with trailing zero padding), 1 = tobytes (leading zero padding)
		for f, formName := range []string{"bits", "tobytes"} {
			var p []byte
			pbits := n
			if f == 0 {
				p = padTail(b, n)
			} else {
				p = padHead(b, n)
				pbits = len(p) * 8
			}
			// `$x|tobytes|explode` pads in front for both forms; the bit length differs
			if r := getRes(top[3+f]); !wantBin(r, pbits, padHead(b, n)) {
				e.violate("binary:"+formName+":"+class, fmt.Sprintf("%s as %s: fq binary reads %s, want %s", desc, formName, r, binStr(pbits, padHead(b, n))), fn, items[i])
				continue
			}
			obs := asList(top[f])
			if len(obs) != 22 {
				e.violate("escape:bytes", "malformed driver output", fn, items[i])
				continue
			}
			e.r.Eval(int64(6 + 9 + 2*7))
			e.r.Nontrivial(fmt.Sprintf("bytes:%s:%x:%d", formName, b, n))
			cmpText := func(k int, name, want string) {
				r := getRes(obs[k])
				e.show("%s | %s (%s) -> %s ; reference %q", desc, name, formName, r, trunc(want, 100))
				if v, ok := r.one(); !ok || v != want {
					e.violate("ref:"+name+":"+formName+":"+class, fmt.Sprintf("%s (%s binary) | %s = %s, reference %q", desc, formName, name, r, trunc(want, 100)), fn, items[i])
				}
			}
			cmpText(0, "to_hex", refHex(p))
			if hex.EncodeToString(p) != refHex(p) {
				panic("reference disagreement hex")
			}
			cmpText(1, "to_base64", refB64(p, "std"))
			for vi, va := range b64Variants {
				cmpText(2+vi, "to_base64("+va+")", refB64(p, va))
			}
			for hi, h := range hashNames {
				r := getRes(obs[6+hi])
				want := refHash(h, p)
				e.show("%s | to_%s (%s) -> %s ; reference %x", desc, h, formName, r, want)
				if !wantBin(r, len(want)*8, want) {
					e.violate("ref:to_"+h+":"+formName+":"+class, fmt.Sprintf("%s (%s binary) | to_%s = %s, reference %x", desc, formName, h, r, want), fn, items[i])
				}
			}
			names := []string{"to_hex|from_hex", "to_hex|ascii_upcase|from_hex", "to_base64|from_base64"}
			for _, va := range b64Variants {
				names = append(names, "to_base64("+va+")|from_base64("+va+")")
			}
			for k, name := range names {
				r := getRes(obs[15+k])
				if !wantBin(r, len(p)*8, p) {
					e.violate("roundtrip:"+name+":"+formName+":"+class, fmt.Sprintf("%s (%s binary) | %s = %s, want %s", desc, formName, name, r, binStr(len(p)*8, p)), fn, items[i])
				}
			}
		}
		// decoders applied to harness-made reference text of the padded bits form
		p := padTail(b, n)
		dec := asList(top[2])
		names := []string{"from_hex", "from_hex(upper case)", "from_base64"}
		for _, va := range b64Variants {
			names = append(names, "from_base64("+va+")")
		}
		if len(dec) != len(names) {
			e.violate("escape:bytes", "malformed driver output", fn, items[i])
			continue
		}
		e.r.Eval(int64(len(names)))
		for k, name := range names {
			r := getRes(dec[k])
			if !wantBin(r, len(p)*8, p) {
				e.violate("ref:"+name+":"+class, fmt.Sprintf("reference text of %s | %s = %s, want %s", desc, name, r, binStr(len(p)*8, p)), fn, items[i])
			}
		}
		if base64.StdEncoding.EncodeToString(p) != refB64(p, "std") {
			panic("reference disagreement base64")
		}
	}
}

// pythonHashCrossCheck validates the Go reference digests of the length <= 3
// family against Python hashlib (thorough tier, once). A missing interpreter or
// algorithm is recorded in the evidence; it is never a verdict about fq.
func pythonHashCrossCheck(e *env, inputs [][]byte) {
	var hexes []string
	for _, b := range inputs {
		hexes = append(hexes, hex.EncodeToString(b))
	}
	in, _ := json.Marshal(hexes)
	script := `
import sys, json, hashlib
ins = json.load(sys.stdin)
names = {"md4":"md4","md5":"md5","sha1":"sha1","sha256":"sha256","sha512":"sha512","sha3_224":"sha3_224","sha3_256":"sha3_256","sha3_384":"sha3_384","sha3_512":"sha3_512"}
out = {}
for k, n in names.items():
    try:
        out[k] = [hashlib.new(n, bytes.fromhex(h)).hexdigest() for h in ins]
    except Exception as ex:
        out[k] = None
json.dump(out, sys.stdout)
`
	cmd := exec.Command("python3", "-c", script)
	cmd.Stdin = strings.NewReader(string(in))
	outb, err := cmd.Output()
	if err != nil {
		e.r.Extra("python_hashlib_crosscheck", "not available: "+err.Error())
		return
	}
	var got map[string][]string
	if json.Unmarshal(outb, &got) != nil {
		e.r.Extra("python_hashlib_crosscheck", "unparsable output")
		return
	}
	var okNames, missing []string
	for _, h := range hashNames {
		if got[h] == nil {
			missing = append(missing, h)
			continue
		}
		for i, b := range inputs {
			if got[h][i] != hex.EncodeToString(refHash(h, b)) {
				panic(fmt.Sprintf("c14: Go reference digest %s(%x) disagrees with Python hashlib", h, b))
			}
		}
		okNames = append(okNames, h)
	}
	e.r.Extra("python_hashlib_crosscheck", map[string]any{"inputs": len(inputs), "agree": okNames, "not_offered_by_local_openssl": missing})
}
