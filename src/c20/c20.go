// Package c20 decides property C20 (an interrupt cancels exactly the innermost
// running evaluation, safely): (1) explicit-state search over push/finish/interrupt/
// stop histories on the real ctxstack.Stack against a stack model; (2) exhaustive
// exploration of the interleavings of the trigger goroutine, the evaluating thread
// and a stopping thread under a controlled scheduler (preemption bound iterated, then
// unbounded) on a copy of ctxstack instrumented at check time, with vector-clock race
// detection, deadlock detection and a linearizability oracle; (3) output suppression
// after cancellation; (4) ctxreadseeker under cancellation at every call boundary;
// (5) interrupts taken while the evaluation is inside a read of its input that has no
// data (blocked.go).
package c20

import (
	"encoding/json"
	"fmt"
	"os"

	"github.com/wader/fq/internal/verif/core"
)

var Check = core.Check{
	ID:     "C20",
	Level:  "model_checking",
	Shards: 16,
	Run:    run,
	Replay: replay,
	Parent: parent,
}

func run(r *core.Run) {
	r.StartWatchdog()
	r.Rule("states = distinct (deep hash of the real Stack, model state) in the sequential search + distinct final outcomes per scenario and bound in the schedule search; transitions = operations replayed on a fresh real Stack + schedules executed; every transition/schedule runs the real (check-time instrumented) implementation")
	only := os.Getenv("VERIF_ONLY")
	// The sequential search leaves (stopping) trigger goroutines behind that are not
	// managed threads; they must never overlap a scheduled execution in the same
	// process: with several shards shard 0 does the sequential parts and the others
	// the schedules, with one shard the schedules run first.
	seqShard := r.ShardN <= 1 || r.ShardIdx == 0
	schedShard := r.ShardN <= 1 || r.ShardIdx != 0
	if schedShard && (only == "" || only == "sched") {
		schedExplore(r)
	}
	if schedShard && (only == "" || only == "repl") {
		replInterrupts(r)
	}
	if schedShard && (only == "" || only == "replhist") {
		replHistories(r)
	}
	if schedShard && (only == "" || only == "cliraw") {
		cliRawInterrupts(r)
	}
	if schedShard && (only == "" || only == "blocked") {
		blockedReads(r)
	}
	if seqShard && (only == "" || only == "seq") {
		seqBFS(r)
	}
	// real signals: one process only (the last shard), nothing else of this check reacts to SIGINT
	if (r.ShardN <= 1 || r.ShardIdx == r.ShardN-1) && (only == "" || only == "signal") {
		signalBridge(r)
	}
	if seqShard && (only == "" || only == "misc") {
		ctxWriter(r)
		ctxReadSeeker(r)
	}
}

func parent(r *core.Run) {}

func replay(r *core.Run, raw json.RawMessage) bool {
	var k struct {
		Kind string `json:"kind"`
	}
	_ = json.Unmarshal(raw, &k)
	switch k.Kind {
	case "seq":
		var c SeqCase
		_ = json.Unmarshal(raw, &c)
		_, bad, pv := runSeq(c.Ops)
		fmt.Printf("  history: %v\n  observed: %s panic=%v\n", c.Ops, bad, pv)
		return bad != "" || pv != nil
	case "sched":
		var c SchedCase
		_ = json.Unmarshal(raw, &c)
		s, o := runSchedule(c.Scenario, c.Choices)
		fmt.Printf("  scenario: %s\n  schedule:\n", c.Scenario.Name)
		for _, t := range s.Trace() {
			fmt.Println("    ", t)
		}
		fmt.Printf("  cancelled=%v panics=%v races=%v deadlock=%q\n", o.cancelled, o.panics, o.races, o.deadlock)
		sub := core.NewScratchRun(r)
		judgeSchedule(sub, c.Scenario, s, o, allowedOutcomes(c.Scenario))
		return len(sub.Violations()) > 0
	case "repl", "repl-history":
		var c ReplCase
		_ = json.Unmarshal(raw, &c)
		o := runRepl(c)
		bad := judgeRepl(c, o)
		fmt.Printf("  earlier lines %q\n", c.Prefix)
		fmt.Printf("  REPL depth %d line %q interrupt at write %d (settle %d ms): %+v\n  verdict: %q\n", c.Depth, c.Prog, c.FireAt, c.WaitMs, o, bad)
		return bad != ""
	case "blocked-read":
		var c BlockCase
		_ = json.Unmarshal(raw, &c)
		o := runBlocked(c)
		bad, void := judgeBlocked(c, o)
		fmt.Printf("  %+v\n  input: opens=%d reads=%d seeks=%d blocking read #%d, interrupt taken inside it=%v, reads after it=%d\n  evaluation: not ended within the patience=%v values=%v enclosing=%q run=%+v\n  verdict: %q void: %q\n",
			c, o.opens, o.reads, o.seeks, o.eventRead, o.delivered, o.afterRead, o.hung, o.innerVals, o.outerBad, o.repl, bad, void)
		if st, _ := lastBlockStack.Load().(string); st != "" {
			fmt.Printf("  trace of the panic:\n%s\n", st)
		}
		return bad != ""
	case "signal":
		var c SignalCase
		_ = json.Unmarshal(raw, &c)
		bad, inc := runSignalScenario(c.Scenario)
		fmt.Printf("  scenario %s: verdict %q inconclusive %q\n", c.Scenario, bad, inc)
		return bad != ""
	case "cli-raw":
		var c CLICase
		_ = json.Unmarshal(raw, &c)
		o := runCLI(c)
		bad := judgeCLI(c, o)
		fmt.Printf("  fq %q (stdout not a terminal), interrupt at write %d (settle %d ms): %+v\n  verdict: %q\n", c.Args, c.FireAt, c.WaitMs, o, bad)
		return bad != ""
	default:
		sub := core.NewScratchRun(r)
		ctxWriter(sub)
		ctxReadSeeker(sub)
		for _, v := range sub.Violations() {
			fmt.Println("  ", v.Signature, v.What)
		}
		return len(sub.Violations()) > 0
	}
}
