// Package fqrun runs fq in-process through the same seam the repository's own
// script tests use (an interp.OS implementation): virtual file system, captured
// stdout/stderr, fixed terminal geometry, exit status. Two modes: Run (process
// like: interp.New + Main, exactly what cli.Main does) and Session (one
// interpreter, many Eval calls).
package fqrun

import (
	"bytes"
	"context"
	"errors"
	"fmt"
	"io"
	"io/fs"
	"sort"
	"strings"
	"testing/fstest"

	_ "github.com/wader/fq/format/all"
	"github.com/wader/fq/internal/verif/core"
	"github.com/wader/fq/pkg/interp"
	"github.com/wader/gojq"
)

const Version = "0.15.0"

type Opts struct {
	Args []string
	// Files maps path -> content. A nil content with Dirs[path] makes a directory.
	Files map[string][]byte
	Dirs  []string
	Stdin []byte
	// StdinIsTerminal: no stdin input (fq then does not read stdin)
	StdinIsTerminal  bool
	StdoutIsTerminal bool
	Env              []string
	Width, Height    int
	Interrupt        chan struct{}
	Ctx              context.Context
	// Lines are handed to Readline one by one (REPL input), then EOF
	Lines []string
	// NoSeek: files of the virtual file system do not implement io.Seeker (like pipes and
	// fifos), so fq has to take its read-everything-into-memory path when opening them
	NoSeek bool
}

// noSeekFS hides every method but Read/Stat/Close (and ReadDir) of the files of an fs.FS.
type noSeekFS struct{ fs.FS }

type noSeekFile struct{ f fs.File }

func (n noSeekFile) Read(p []byte) (int, error) { return n.f.Read(p) }
func (n noSeekFile) Stat() (fs.FileInfo, error) { return n.f.Stat() }
func (n noSeekFile) Close() error               { return n.f.Close() }

type noSeekDir struct{ noSeekFile }

func (n noSeekDir) ReadDir(c int) ([]fs.DirEntry, error) {
	if d, ok := n.f.(fs.ReadDirFile); ok {
		return d.ReadDir(c)
	}
	return nil, fs.ErrInvalid
}

func (n noSeekFS) Open(name string) (fs.File, error) {
	f, err := n.FS.Open(name)
	if err != nil {
		return nil, err
	}
	if _, ok := f.(fs.ReadDirFile); ok {
		if fi, err := f.Stat(); err == nil && fi.IsDir() {
			return noSeekDir{noSeekFile{f}}, nil
		}
	}
	return noSeekFile{f}, nil
}

type Result struct {
	Stdout     []byte
	Stderr     []byte
	Exit       int
	Panic      any
	PanicStack string
}

func (r Result) String() string {
	return fmt.Sprintf("exit=%d stdout=%q stderr=%q panic=%v", r.Exit, trunc(string(r.Stdout), 300), trunc(string(r.Stderr), 300), r.Panic)
}

func trunc(s string, n int) string {
	if len(s) > n {
		return s[:n] + "..."
	}
	return s
}

type termIO struct {
	io.Writer
	terminal bool
	w, h     int
}

func (t termIO) Size() (int, int) { return t.w, t.h }
func (t termIO) IsTerminal() bool { return t.terminal }

type input struct {
	interp.FileReader
	terminal bool
	w, h     int
}

func (i input) Size() (int, int) { return i.w, i.h }
func (i input) IsTerminal() bool { return i.terminal }

type vos struct {
	o      Opts
	fsys   fstest.MapFS
	stdout bytes.Buffer
	stderr bytes.Buffer
	intr   chan struct{}
	line   int
}

func newVOS(o Opts) *vos {
	v := &vos{o: o, fsys: fstest.MapFS{}}
	for p, d := range o.Files {
		v.fsys[p] = &fstest.MapFile{Data: d, Mode: 0o644}
	}
	for _, p := range o.Dirs {
		v.fsys[p] = &fstest.MapFile{Mode: fs.ModeDir | 0o755}
	}
	v.intr = o.Interrupt
	if v.intr == nil {
		v.intr = make(chan struct{})
	}
	if v.o.Width == 0 {
		v.o.Width = 135
	}
	if v.o.Height == 0 {
		v.o.Height = 25
	}
	return v
}

func (v *vos) Platform() interp.Platform {
	return interp.Platform{OS: "testos", Arch: "testarch", GoVersion: "testgo_version"}
}
func (v *vos) Stdin() interp.Input {
	return input{FileReader: interp.FileReader{R: bytes.NewReader(v.o.Stdin), FileInfo: interp.FixedFileInfo{FName: "stdin", FMode: fs.ModeIrregular}},
		terminal: v.o.StdinIsTerminal, w: v.o.Width, h: v.o.Height}
}
func (v *vos) Stdout() interp.Output {
	return termIO{Writer: &v.stdout, terminal: v.o.StdoutIsTerminal, w: v.o.Width, h: v.o.Height}
}
func (v *vos) Stderr() interp.Output        { return termIO{Writer: &v.stderr} }
func (v *vos) InterruptChan() chan struct{} { return v.intr }
func (v *vos) Args() []string               { return v.o.Args }
func (v *vos) Environ() []string {
	env := map[string]string{"NO_COLOR": "1", "NO_DECODE_PROGRESS": "1", "CONFIG_DIR": "/config", "COMPLETION_TIMEOUT": "10"}
	for _, kv := range v.o.Env {
		if i := strings.IndexByte(kv, '='); i > 0 {
			env[kv[:i]] = kv[i+1:]
		}
	}
	var out []string
	for k, val := range env {
		out = append(out, k+"="+val)
	}
	sort.Strings(out)
	return out
}
func (v *vos) ConfigDir() (string, error) { return "/config", nil }
func (v *vos) FS() fs.FS {
	if v.o.NoSeek {
		return noSeekFS{v.fsys}
	}
	return v.fsys
}
func (v *vos) Readline(opts interp.ReadlineOpts) (string, error) {
	if v.line < len(v.o.Lines) {
		v.line++
		return v.o.Lines[v.line-1], nil
	}
	return "", io.EOF
}
func (v *vos) History() ([]string, error) { return nil, nil }

// Run executes fq like the command line does (cli.Main without os.Exit).
// args[0] is the program name.
func Run(o Opts) Result {
	if len(o.Args) == 0 || o.Args[0] != "fq" {
		o.Args = append([]string{"fq"}, o.Args...)
	}
	v := newVOS(o)
	var res Result
	ctx := o.Ctx
	if ctx == nil {
		ctx = context.Background()
	}
	pv, stack := core.Protect(func() {
		i, err := interp.New(v, interp.DefaultRegistry)
		if err != nil {
			fmt.Fprintln(&v.stderr, err)
			res.Exit = 1
			return
		}
		defer i.Stop()
		if err := i.Main(ctx, v.Stdout(), Version); err != nil {
			var ex interp.Exiter
			if errors.As(err, &ex) {
				res.Exit = ex.ExitCode()
			} else if e, ok := err.(interp.Exiter); ok {
				res.Exit = e.ExitCode()
			} else {
				res.Exit = 1
			}
		}
	})
	res.Stdout = v.stdout.Bytes()
	res.Stderr = v.stderr.Bytes()
	if pv != nil {
		res.Panic, res.PanicStack = pv, stack
		res.Exit = 2
	}
	return res
}

// Session is one long lived interpreter for data-driven batches.
type Session struct {
	I   *interp.Interp
	os  *vos
	Ctx context.Context
}

func NewSession(files map[string][]byte) (*Session, error) {
	v := newVOS(Opts{Files: files, StdinIsTerminal: true})
	i, err := interp.New(v, interp.DefaultRegistry)
	if err != nil {
		return nil, err
	}
	return &Session{I: i, os: v, Ctx: context.Background()}, nil
}

// NewCLISession is NewSession plus the option stack that `fq` sets up in _main before any
// expression runs (without it display and tovalue fail with "invalid bits format").
func NewCLISession(files map[string][]byte) (*Session, error) {
	s, err := NewSession(files)
	if err != nil {
		return nil, err
	}
	if _, err := s.Eval(nil, `_options_stack([_opt_build_default_fixed]) | length`); err != nil {
		s.Close()
		return nil, fmt.Errorf("options init: %w", err)
	}
	s.Stdout()
	return s, nil
}

func (s *Session) Close() { s.I.Stop() }

// Stdout returns and resets what evaluations printed.
func (s *Session) Stdout() []byte {
	b := append([]byte{}, s.os.stdout.Bytes()...)
	s.os.stdout.Reset()
	return b
}

// Eval evaluates expr with input c and collects all outputs. A jq error ends the
// stream and is returned as err (outputs before it are kept). A Go panic inside fq
// is returned as *PanicError.
func (s *Session) Eval(c any, expr string) (outs []any, err error) {
	pv, stack := core.Protect(func() {
		var it gojq.Iter
		it, err = s.I.Eval(s.Ctx, c, expr, interp.EvalOpts{})
		if err != nil {
			return
		}
		for {
			v, ok := it.Next()
			if !ok {
				break
			}
			if e, ok := v.(error); ok {
				err = e
				break
			}
			outs = append(outs, v)
		}
	})
	if pv != nil {
		return outs, &PanicError{Value: pv, Stack: stack}
	}
	return outs, err
}

// PanicError is a Go panic that escaped fq during an evaluation.
type PanicError struct {
	Value any
	Stack string
}

func (p *PanicError) Error() string { return "go panic: " + core.PanicString(p.Value) }

// IsPanic reports whether err is a Go panic that escaped fq.
func IsPanic(err error) (*PanicError, bool) {
	var pe *PanicError
	if errors.As(err, &pe) {
		return pe, true
	}
	return nil, false
}
