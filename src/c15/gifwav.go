package c15

import (
	"bytes"
	"compress/lzw"
	"encoding/binary"
	"fmt"
	"image"
	"image/color"
	"image/gif"
	"io"
	"strings"

	"github.com/wader/fq/internal/verif/core"
)

// ---- gif -------------------------------------------------------------------

type gifSpec struct {
	Size   int  `json:"size"`
	Bits   int  `json:"bits"`   // palette of 1<<bits colours: 1, 2, 4, 8
	Frames int  `json:"frames"` // 1 | 2
	Local  bool `json:"local"`  // per frame colour tables instead of one global table
}

type gifExp struct {
	W, H, Bits, Frames int
	Local              bool
	Palette            [][3]int
	Pixels             [][]byte
	Screen             byte // packed field of the logical screen descriptor as written
}

func gifBuild(spec any) *genFile {
	sp := spec.(*gifSpec)
	w, h := pngSizes[sp.Size][0], pngSizes[sp.Size][1]
	n := 1 << sp.Bits
	exp := &gifExp{W: w, H: h, Bits: sp.Bits, Frames: sp.Frames, Local: sp.Local}
	var pal color.Palette
	for i := 0; i < n; i++ {
		c := color.RGBA{R: uint8(0x11 + i*5), G: uint8(250 - i), B: uint8(i * 3), A: 255}
		pal = append(pal, c)
		exp.Palette = append(exp.Palette, [3]int{int(c.R), int(c.G), int(c.B)})
	}
	g := &gif.GIF{LoopCount: 3}
	g.Config.Width, g.Config.Height = w, h
	if !sp.Local {
		g.Config.ColorModel = pal
	}
	for fr := 0; fr < sp.Frames; fr++ {
		im := image.NewPaletted(image.Rect(0, 0, w, h), pal)
		noise := lcg(w*h, uint32(100+fr+sp.Size))
		for i := range im.Pix {
			im.Pix[i] = byte(int(noise[i]) % n)
		}
		exp.Pixels = append(exp.Pixels, append([]byte{}, im.Pix...))
		g.Image = append(g.Image, im)
		g.Delay = append(g.Delay, 7+fr)
	}
	var b bytes.Buffer
	if err := gif.EncodeAll(&b, g); err != nil {
		return nil
	}
	data := b.Bytes()
	exp.Screen = data[10]
	f := &genFile{Data: data, Exp: exp, Nontriv: true}
	f.Desc = fmt.Sprintf("%dx%d palette=%d frames=%d local=%v", w, h, n, sp.Frames, sp.Local)
	return f
}

func gifEnum(r *core.Run, emit func(any)) {
	for size := range pngSizes {
		for _, bits := range []int{1, 2, 4, 8} {
			for frames := 1; frames <= 2; frames++ {
				for _, local := range []bool{false, true} {
					emit(&gifSpec{Size: size, Bits: bits, Frames: frames, Local: local})
				}
			}
		}
	}
}

const gifProg = `
def sub: [.[]? | {n: (.byte_count|act), data: (.data|tb), term: (.terminator|act)}];
def obs: {
  err: errs, fmt: (try format catch null), validity: validity,
  header: (.header|act), width: (.width|act), height: (.height|act), gcp: (.gcp_follows|act), cres: (.color_resolution|act), zero: (.zero|act), bit_depth: (.bit_depth|act),
  black: (.black_color|act), aspect: (.pixel_aspect_ratio|act),
  gcm: (.global_color_map | if type == "null" then null else [.[] | [.[]|act]] end),
  blocks: [.blocks[]? | if (.introducer|type) != "null" then {ext: (.function_code|act), sym: (.function_code|._sym|plain), sub: (.func_data_bytes|sub)}
     else {img: true, sep: (.separator_character|act), left: (.left|act), top: (.top|act), width: (.width|act), height: (.height|act), local: (.local_color_map_follows|act),
           interlaced: (.image_interlaced|act), bit_depth: (.bit_depth|act), code_size: (.code_size|act),
           lcm: (.local_color_map | if type == "null" then null else [.[] | [.[]|act]] end), sub: (.image_bytes|sub)} end],
  terminator: (.terminator|act)
};`

func gifCheck(f *genFile, o map[string]any, probe bool) []mm {
	exp := f.Exp.(*gifExp)
	c := &cmp{pre: "gif"}
	blocks, _ := o["blocks"].([]any)
	first := func() map[string]any {
		for _, b := range blocks {
			if m, _ := b.(map[string]any); m != nil && m["img"] == true {
				return m
			}
		}
		return nil
	}
	// classification of a known misparse: the LZW minimum code size follows the
	// local colour table (GIF89a 20/21/22), fq reads it before the table
	if exp.Local {
		if im := first(); im != nil {
			if cs, _ := gi(im["code_size"]); cs == int64(exp.Palette[0][0]) {
				c.add("local-color-map:code_size-read-before-table", fmt.Sprintf("image with a local colour table (%d entries, first colour %v): fq reports code_size=%d (the first table byte) and local_color_map=%s; the LZW minimum code size comes after the table and the table has 1<<(local bit depth) entries",
					len(exp.Palette), exp.Palette[0], cs, trimShow(show(im["lcm"]), 120)))
				return c.ms
			}
		}
	}
	if _, isErr := obsError(o); isErr {
		return nil
	}
	c.str("header", o["header"], "GIF89a")
	c.num("width", o["width"], int64(exp.W))
	c.num("height", o["height"], int64(exp.H))
	c.boolean("gcp_follows", o["gcp"], exp.Screen&0x80 != 0)
	c.boolean("gcp_follows:global-table", o["gcp"], !exp.Local)
	c.num("color_resolution", o["cres"], int64(exp.Screen>>4&7)+1)
	c.num("zero", o["zero"], int64(exp.Screen>>3&1))
	c.num("bit_depth:screen-byte", o["bit_depth"], int64(exp.Screen&7)+1)
	c.num("black_color", o["black"], 0)
	c.num("pixel_aspect_ratio", o["aspect"], 0)
	c.num("terminator", o["terminator"], 0x3b)
	tbl := func(field string, got any) {
		t, _ := got.([]any)
		if len(t) != 1<<exp.Bits {
			c.add(field+".count", fmt.Sprintf("fq reports %d colours, written %d", len(t), 1<<exp.Bits))
			return
		}
		for i, want := range exp.Palette {
			q, _ := t[i].([]any)
			if len(q) != 3 {
				c.add(field, "colour is not a triple")
				return
			}
			for k := 0; k < 3; k++ {
				c.num(field+".color", q[k], int64(want[k]))
			}
		}
	}
	if !exp.Local {
		c.num("bit_depth", o["bit_depth"], int64(exp.Bits))
		tbl("global_color_map", o["gcm"])
	} else {
		c.absent("global_color_map", o["gcm"])
	}
	subBytes := func(field string, v any, wantTerm bool) []byte {
		var all []byte
		l, _ := v.([]any)
		for i, s := range l {
			m, _ := s.(map[string]any)
			d, _ := gb(m["data"])
			c.num(field+".byte_count", m["n"], int64(len(d)))
			if i == len(l)-1 {
				c.num(field+".terminator", m["term"], 0)
			} else {
				c.absent(field+".terminator", m["term"])
			}
			all = append(all, d...)
		}
		if len(l) == 0 {
			c.add(field, "no sub blocks")
		}
		return all
	}
	// expected block sequence of image/gif: [NETSCAPE2.0 loop extension when more than one frame], then per frame a graphic control extension and the image
	var want []string
	if exp.Frames > 1 {
		want = append(want, "app")
	}
	for i := 0; i < exp.Frames; i++ {
		want = append(want, "gce", "img")
	}
	if len(blocks) != len(want) {
		c.add("block-count", fmt.Sprintf("fq reports %d blocks, written %d (%v)", len(blocks), len(want), want))
		return c.ms
	}
	fr := 0
	for i, k := range want {
		b, _ := blocks[i].(map[string]any)
		if b == nil {
			c.add("block", "not an object")
			continue
		}
		switch k {
		case "app":
			c.num("extension.function_code", b["ext"], 0xff)
			c.str("extension.function_code.sym", b["sym"], "Application")
			c.bytes("extension.application.data", subBytes("extension", b["sub"], true), append([]byte("NETSCAPE2.0"), 1, 3, 0))
		case "gce":
			c.num("extension.function_code", b["ext"], 0xf9)
			c.str("extension.function_code.sym", b["sym"], "GraphicalControl")
			c.bytes("extension.graphic_control.data", subBytes("extension", b["sub"], true), []byte{0, byte(7 + fr), 0, 0})
		case "img":
			if b["img"] != true {
				c.add("image", "block "+fmt.Sprint(i)+" is not an image: "+trimShow(show(b), 200))
				continue
			}
			c.num("image.separator_character", b["sep"], 0x2c)
			c.num("image.left", b["left"], 0)
			c.num("image.top", b["top"], 0)
			c.num("image.width", b["width"], int64(exp.W))
			c.num("image.height", b["height"], int64(exp.H))
			c.boolean("image.local_color_map_follows", b["local"], exp.Local)
			c.boolean("image.image_interlaced", b["interlaced"], false)
			lit := exp.Bits
			if lit < 2 {
				lit = 2
			}
			c.num("image.code_size", b["code_size"], int64(lit))
			if exp.Local {
				c.num("image.bit_depth", b["bit_depth"], int64(exp.Bits))
				tbl("image.local_color_map", b["lcm"])
			} else {
				c.absent("image.local_color_map", b["lcm"])
			}
			data := subBytes("image.image_bytes", b["sub"], true)
			if len(c.ms) == 0 {
				px, err := io.ReadAll(lzw.NewReader(bytes.NewReader(data), lzw.LSB, lit))
				if err != nil || !bytes.Equal(px, exp.Pixels[fr]) {
					c.add("image.image_bytes:lzw-decoded-pixels", fmt.Sprintf("the sub block data fq reports decodes (compress/lzw) to %s (%v), written pixel indexes %s", shortB(px), err, shortB(exp.Pixels[fr])))
				}
			}
			fr++
		}
	}
	return c.ms
}

// ---- wav -------------------------------------------------------------------

type wavSpec struct {
	Channels int  `json:"channels"`
	Bits     int  `json:"bits"`
	Samples  int  `json:"samples"`
	List     bool `json:"list"` // LIST/INFO chunk with an INAM string
	// ListAfter: a second LIST/INFO chunk behind the data chunk (metadata written last, as
	// many encoders do)
	ListAfter bool `json:"list_after,omitempty"`
	// Fmt: header field grid file: the six fields of the fmt chunk are written exactly
	// as given (Channels/Bits above unused, Samples*4 bytes of sample data).
	Fmt *wavFmt `json:"fmt,omitempty"`
}

// wavFmt: the WAVEFORMAT fields of the fmt chunk.
type wavFmt struct {
	AudioFormat uint16 `json:"audio_format"`
	Channels    uint16 `json:"channels"`
	Rate        uint32 `json:"rate"`
	ByteRate    uint32 `json:"byte_rate"`
	Align       uint16 `json:"align"`
	Bits        uint16 `json:"bits"`
}

var wavDefaultFmt = wavFmt{AudioFormat: 1, Channels: 2, Rate: 44100, ByteRate: 176400, Align: 4, Bits: 16}

var u16Grid = []uint16{0, 1, 0x7fff, 0x8000, 0xffff, 0x5555, 0xaaaa}

// a few registered format tags (mmreg.h: WAVE_FORMAT_PCM, _ADPCM, _IEEE_FLOAT, _ALAW, _MULAW): the key word the
// name fq shows must contain (fq uses codec names of its own, compared lower case without punctuation)
var wavTagNames = map[uint16]string{1: "pcm", 2: "adpcm", 3: "float", 6: "alaw", 7: "mulaw"}

// wavFmtGrid: quick = covering list (every value of every field once, the others at a
// common PCM default) with realistic rates/channel counts/sample sizes added;
// thorough adds the pair products channels x bits x align and rate x byte_rate.
func wavFmtGrid(wide bool) []wavFmt {
	var l []wavFmt
	seen := map[wavFmt]bool{}
	add := func(f wavFmt) {
		if !seen[f] {
			seen[f] = true
			l = append(l, f)
		}
	}
	d := wavDefaultFmt
	tags := append([]uint16{1, 2, 3, 6, 7, 0x55, 0xfffe}, u16Grid...)
	chans := append([]uint16{1, 2, 6, 8, 255, 256}, u16Grid...)
	bits := append([]uint16{8, 16, 24, 32, 64}, u16Grid...)
	aligns := append([]uint16{1, 2, 3, 4, 8}, u16Grid...)
	rates := append([]uint32{8000, 11025, 44100, 48000, 96000, 192000}, u32Grid...)
	for _, v := range tags {
		f := d
		f.AudioFormat = v
		add(f)
	}
	for _, v := range chans {
		f := d
		f.Channels = v
		add(f)
	}
	for _, v := range bits {
		f := d
		f.Bits = v
		add(f)
	}
	for _, v := range aligns {
		f := d
		f.Align = v
		add(f)
	}
	for _, v := range rates {
		f := d
		f.Rate = v
		add(f)
		f = d
		f.ByteRate = v
		add(f)
	}
	if wide {
		for _, a := range chans {
			for _, b := range bits {
				for _, c := range aligns {
					f := d
					f.Channels, f.Bits, f.Align = a, b, c
					add(f)
				}
			}
		}
		for _, a := range append(rates, walk32()...) {
			for _, b := range rates {
				f := d
				f.Rate, f.ByteRate = a, b
				add(f)
			}
		}
	}
	return l
}

type wavExp struct {
	Spec     wavSpec
	Fmt      wavFmt
	Samples  []byte
	RiffSize int
	Title    string
}

func riffChunk(id string, data []byte) []byte {
	var b bytes.Buffer
	b.WriteString(id)
	_ = binary.Write(&b, binary.LittleEndian, uint32(len(data)))
	b.Write(data)
	if len(data)%2 == 1 {
		b.WriteByte(0)
	}
	return b.Bytes()
}

func wavBuild(spec any) *genFile {
	sp := spec.(*wavSpec)
	exp := &wavExp{Spec: *sp, Title: "title"}
	align := sp.Channels * sp.Bits / 8
	wf := wavFmt{AudioFormat: 1, Channels: uint16(sp.Channels), Rate: 44100, ByteRate: uint32(44100 * align), Align: uint16(align), Bits: uint16(sp.Bits)}
	if sp.Fmt != nil {
		wf, align = *sp.Fmt, 4
		exp.Spec.Fmt = &wf
	}
	exp.Fmt = wf
	exp.Samples = lcg(sp.Samples*align, 4242)
	var fm bytes.Buffer
	le := binary.LittleEndian
	_ = binary.Write(&fm, le, wf.AudioFormat)
	_ = binary.Write(&fm, le, wf.Channels)
	_ = binary.Write(&fm, le, wf.Rate)
	_ = binary.Write(&fm, le, wf.ByteRate)
	_ = binary.Write(&fm, le, wf.Align)
	_ = binary.Write(&fm, le, wf.Bits)
	body := []byte("WAVE")
	body = append(body, riffChunk("fmt ", fm.Bytes())...)
	if sp.List {
		body = append(body, riffChunk("LIST", append([]byte("INFO"), riffChunk("INAM", append([]byte(exp.Title), 0))...))...)
	}
	body = append(body, riffChunk("data", exp.Samples)...)
	if sp.ListAfter {
		body = append(body, riffChunk("LIST", append([]byte("INFO"), riffChunk("INAM", append([]byte(exp.Title), 0))...))...)
	}
	exp.RiffSize = len(body)
	data := riffChunk("RIFF", body)
	f := &genFile{Data: data, Exp: exp, Nontriv: sp.Samples > 0 || sp.List || sp.ListAfter}
	f.Desc = fmt.Sprintf("channels=%d bits=%d samples=%d list=%v list_after_data=%v", sp.Channels, sp.Bits, sp.Samples, sp.List, sp.ListAfter)
	if sp.Fmt != nil {
		f.Desc = fmt.Sprintf("fmt(audio_format=%d channels=%d rate=%d byte_rate=%d align=%d bits=%d) samples=%d", wf.AudioFormat, wf.Channels, wf.Rate, wf.ByteRate, wf.Align, wf.Bits, sp.Samples)
		f.Nontriv = true
	}
	return f
}

func wavEnum(r *core.Run, emit func(any)) {
	for _, wf := range wavFmtGrid(r.Thorough()) {
		wf := wf
		emit(&wavSpec{Samples: 3, Fmt: &wf})
	}
	for _, ch := range []int{1, 2} {
		for _, bits := range []int{8, 16} {
			for _, n := range []int{0, 1, 100} {
				for _, l := range []bool{false, true} {
					for _, la := range []bool{false, true} {
						emit(&wavSpec{Channels: ch, Bits: bits, Samples: n, List: l, ListAfter: la})
					}
				}
			}
		}
	}
}

const wavProg = `
def obs: {
  err: errs, fmt: (try format catch null), validity: validity,
  id: (.id|act), size: (.size|act), format: (.format|act), format_desc: (.format|desc),
  chunks: [.chunks[]? | {id: (.id|act), size: (.size|act), af: (.audio_format|act), af_sym: (.audio_format|._sym|plain), nch: (.num_channels|act), rate: (.sample_rate|act), brate: (.byte_rate|act),
     align: (.block_align|act), bits: (.bits_per_sample|act), samples: (.samples|tb), type: (.type|act), pad: (.align|tb),
     sub: [.chunks[]? | {id: (.id|act), size: (.size|act), value: (.value|act), pad: (.align|tb)}]}]
};`

func wavCheck(f *genFile, o map[string]any, probe bool) []mm {
	exp := f.Exp.(*wavExp)
	sp := exp.Spec
	c := &cmp{pre: "wav"}
	c.str("id", o["id"], "RIFF")
	c.num("size", o["size"], int64(exp.RiffSize))
	c.str("format", o["format"], "WAVE")
	c.str("format.description", o["format_desc"], "valid")
	cs, _ := o["chunks"].([]any)
	want := []string{"fmt"}
	if sp.List {
		want = append(want, "LIST")
	}
	want = append(want, "data")
	if sp.ListAfter {
		want = append(want, "LIST")
	}
	if len(cs) != len(want) {
		c.add("chunk-count", fmt.Sprintf("fq reports %d chunks, written %d", len(cs), len(want)))
		return c.ms
	}
	for i, id := range want {
		g, _ := cs[i].(map[string]any)
		if g == nil {
			c.add("chunk", "not an object")
			continue
		}
		c.str("chunk.id", g["id"], id)
		switch id {
		case "fmt":
			c.num("fmt.size", g["size"], 16)
			wf := exp.Fmt
			c.num("fmt.audio_format", g["af"], int64(wf.AudioFormat))
			if want, ok := wavTagNames[wf.AudioFormat]; ok {
				if got, _ := gs(g["af_sym"]); !strings.Contains(normName(got), want) {
					c.add(fmt.Sprintf("fmt.audio_format.sym:%d", wf.AudioFormat), fmt.Sprintf("audio_format %d: fq shows the name %s, registered as %s", wf.AudioFormat, show(g["af_sym"]), want))
				}
			}
			c.num("fmt.num_channels", g["nch"], int64(wf.Channels))
			c.num("fmt.sample_rate", g["rate"], int64(wf.Rate))
			c.num("fmt.byte_rate", g["brate"], int64(wf.ByteRate))
			c.num("fmt.block_align", g["align"], int64(wf.Align))
			c.num("fmt.bits_per_sample", g["bits"], int64(wf.Bits))
		case "LIST":
			c.num("LIST.size", g["size"], int64(4+8+len(exp.Title)+1+(len(exp.Title)+1)%2))
			c.str("LIST.type", g["type"], "INFO")
			sub, _ := g["sub"].([]any)
			if len(sub) != 1 {
				c.add("LIST.chunks", fmt.Sprintf("fq reports %d sub chunks, written 1", len(sub)))
				break
			}
			s, _ := sub[0].(map[string]any)
			c.str("LIST.INAM.id", s["id"], "INAM")
			c.num("LIST.INAM.size", s["size"], int64(len(exp.Title)+1))
			c.str("LIST.INAM.value", s["value"], exp.Title)
		case "data":
			c.num("data.size", g["size"], int64(len(exp.Samples)))
			c.bytes("data.samples", g["samples"], exp.Samples)
			if len(exp.Samples)%2 == 1 {
				c.bytes("data.align", g["pad"], []byte{0})
			} else {
				c.absent("data.align", g["pad"])
			}
		}
	}
	return c.ms
}

func noFaults(f *genFile, mut []byte, reg region, o map[string]any) (bool, string) {
	return false, "no fault enumeration for this format (no checksum)"
}

func init() {
	register(&section{
		name: "gif", fqfmt: "gif", prog: gifProg,
		newSpec:  func() any { return &gifSpec{} },
		enum:     gifEnum,
		build:    gifBuild,
		check:    gifCheck,
		onError:  gifCheck,
		truthful: noFaults,
	})
	register(&section{
		name: "wav", fqfmt: "wav", prog: wavProg,
		newSpec:  func() any { return &wavSpec{} },
		enum:     wavEnum,
		build:    wavBuild,
		check:    wavCheck,
		truthful: noFaults,
	})
}
