package c19

// Conversation model, packet histories and the reference (oracle) semantics.
// The oracle is written from RFC 793 / RFC 791 semantics over the *packet
// history* alone; it does not know which deviation produced the history.

import (
	"encoding/binary"
	"fmt"
	"hash/fnv"
	"sort"
	"strings"
)

// Endpoint of a connection as configured by the generator (ground truth).
type endpoint struct {
	IP   [4]byte
	Port uint16
	ISN  uint32
	Base byte // first payload byte of the stream this endpoint sends
}

// connection c: ends[c][0] is the initiator (sends the SYN when there is a
// handshake), ends[c][1] the responder. Connection 1 runs in the opposite
// host direction of connection 0 so a client/server mix-up cannot hide.
// The regular ISNs make the streams cross 0x80000000, 0x40000000 and
// 0xc0000000 (the quarter boundaries sequence comparison code tends to treat
// specially) but never 2^32; ConnSpec.Wrap selects ISNs that make both
// streams wrap around 2^32 after their first byte.
var ends = [2][2]endpoint{
	{
		{IP: [4]byte{10, 0, 0, 1}, Port: 40001, ISN: 0x7ffffffc, Base: 'a'},
		{IP: [4]byte{10, 0, 0, 2}, Port: 80, ISN: 0x01020304, Base: 'A'},
	},
	{
		{IP: [4]byte{10, 0, 0, 2}, Port: 40003, ISN: 0x3ffffffd, Base: '0'},
		{IP: [4]byte{10, 0, 0, 1}, Port: 50004, ISN: 0xbffffffe, Base: 'p'},
	},
}

const wrapISN = 0xfffffffe // SYN 0xfffffffe, first byte 0xffffffff, second byte 0

func isnOf(specs []ConnSpec, conn, dir int8) uint32 {
	if specs[conn].Wrap {
		return wrapISN
	}
	return ends[conn][dir].ISN
}

func ipString(ip [4]byte) string { return fmt.Sprintf("%d.%d.%d.%d", ip[0], ip[1], ip[2], ip[3]) }

// streamByte is byte k of the stream sent by endpoint (conn, dir). Distinct
// within any window of 16 bytes of one stream and distinct between the four
// streams for k < 16.
func streamByte(conn, dir, k int) byte {
	if k < 16 {
		return ends[conn][dir].Base + byte(k)
	}
	return byte(k*131+(k>>8)*17) ^ ends[conn][dir].Base
}

func streamBytes(conn, dir, off, n int) []byte {
	b := make([]byte, n)
	for i := range b {
		b[i] = streamByte(conn, dir, off+i)
	}
	return b
}

// ConnSpec is the ground truth of one connection: what each side sent.
type ConnSpec struct {
	N   [2]int `json:"n"`   // bytes sent per direction (0 = initiator)
	HS  bool   `json:"hs"`  // three way handshake was captured
	FIN bool   `json:"fin"` // FIN exchange was captured
	// Wrap: both directions use an ISN that makes the sequence numbers wrap around
	// 2^32 inside the stream
	Wrap bool `json:"seq_wrap,omitempty"`
}

// Pkt is one captured frame: a TCP segment or one IPv4 fragment of it.
type Pkt struct {
	Conn int8   `json:"c"`
	Dir  int8   `json:"d"`             // 0: initiator -> responder
	SYN  bool   `json:"syn,omitempty"` //
	FIN  bool   `json:"fin,omitempty"`
	ACK  bool   `json:"ack,omitempty"`
	Frag bool   `json:"fr,omitempty"` // fragment [FragOff, FragEnd) of the 20+Len byte IP payload; false = whole datagram
	Role byte   `json:"r"`            // S syn, A syn+ack, K handshake ack, D data, R overlapping retransmission, F/G fin, L last ack
	ID   uint16 `json:"id"`
	Off  int32  `json:"o"` // offset of the payload in the sender's stream
	Len  int32  `json:"l"` // payload length
	// AckRel: acknowledgment number relative to the peer's ISN
	AckRel  int32 `json:"a,omitempty"`
	FragOff int32 `json:"fo,omitempty"`
	FragEnd int32 `json:"fe,omitempty"`
}

func (p Pkt) ctl() bool { return p.Role != 'D' && p.Role != 'R' }

func (p Pkt) String() string {
	s := fmt.Sprintf("%d%s", p.Conn, []string{">", "<"}[p.Dir])
	switch {
	case p.SYN && p.ACK:
		s += "SYNACK"
	case p.SYN:
		s += "SYN"
	case p.FIN:
		s += "FIN"
	case p.Len == 0:
		s += "ACK"
	}
	if p.Len > 0 {
		s += fmt.Sprintf("[%d,%d)", p.Off, p.Off+p.Len)
		if p.Role == 'R' {
			s += "R"
		}
	}
	if p.Frag {
		s += fmt.Sprintf("frag(%d-%d)", p.FragOff, p.FragEnd)
	}
	return s
}

func histString(ps []Pkt) string {
	var sb strings.Builder
	for i, p := range ps {
		if i > 0 {
			sb.WriteByte(' ')
		}
		sb.WriteString(p.String())
	}
	return sb.String()
}

// seqOf is the TCP sequence number of the first payload byte / of the SYN.
func seqOf(p Pkt, specs []ConnSpec) uint32 {
	isn := isnOf(specs, p.Conn, p.Dir)
	if p.SYN {
		return isn
	}
	return isn + 1 + uint32(p.Off)
}

// tcpBytes builds the complete TCP segment of p (ignoring fragmentation).
func tcpBytes(p Pkt, specs []ConnSpec) []byte {
	src, dst := ends[p.Conn][p.Dir], ends[p.Conn][1-p.Dir]
	var ack uint32
	if p.ACK {
		ack = isnOf(specs, p.Conn, 1-p.Dir) + uint32(p.AckRel)
	}
	return tcpSegment(src.IP, dst.IP, src.Port, dst.Port, seqOf(p, specs), ack, p.SYN, p.FIN, p.ACK, p.Len > 0, streamBytes(int(p.Conn), int(p.Dir), int(p.Off), int(p.Len)))
}

// ipBytes builds the IPv4 datagram (or fragment) of p. Whole datagrams carry DF
// like real TCP traffic; a datagram that gets fragmented necessarily had DF=0.
func ipBytes(p Pkt, specs []ConnSpec) []byte {
	src, dst := ends[p.Conn][p.Dir], ends[p.Conn][1-p.Dir]
	t := tcpBytes(p, specs)
	if !p.Frag {
		return ipv4Datagram(src.IP, dst.IP, p.ID, true, false, 0, 6, t)
	}
	return ipv4Datagram(src.IP, dst.IP, p.ID, false, int(p.FragEnd) < len(t), int(p.FragOff), 6, t[p.FragOff:p.FragEnd])
}

// wholeDatagram is the datagram a set of fragments was split from.
func wholeDatagram(p Pkt, specs []ConnSpec) []byte {
	src, dst := ends[p.Conn][p.Dir], ends[p.Conn][1-p.Dir]
	return ipv4Datagram(src.IP, dst.IP, p.ID, false, false, 0, 6, tcpBytes(p, specs))
}

func buildCapture(ps []Pkt, specs []ConnSpec, link, format int) []byte {
	frames := make([][]byte, len(ps))
	for i, p := range ps {
		ip := ipBytes(p, specs)
		if err := checksumsOK(ip); err != nil {
			panic(fmt.Sprintf("writer self check: %v in %s", err, p))
		}
		frames[i] = frame(link, isBE(format), p.Dir == 0, ip)
	}
	return captureFile(format, link, frames)
}

func histHash(ps []Pkt, specs []ConnSpec, link, format int) uint64 {
	h := fnv.New64a()
	var b [16]byte
	b[0], b[1] = byte(link), byte(link>>8)
	b[2] = byte(format)
	for i, sp := range specs {
		if sp.Wrap {
			b[3] |= 1 << i
		}
	}
	h.Write(b[:4])
	b[3] = 0
	for _, p := range ps {
		fl := byte(0)
		if p.SYN {
			fl |= 1
		}
		if p.FIN {
			fl |= 2
		}
		if p.ACK {
			fl |= 4
		}
		if p.Frag {
			fl |= 8
		}
		b[0] = byte(p.Conn<<1 | p.Dir)
		b[1] = fl
		binary.LittleEndian.PutUint32(b[2:], uint32(p.Off))
		binary.LittleEndian.PutUint32(b[6:], uint32(p.Len))
		binary.LittleEndian.PutUint16(b[10:], p.ID)
		binary.LittleEndian.PutUint16(b[12:], uint16(p.FragOff))
		binary.LittleEndian.PutUint16(b[14:], uint16(p.FragEnd))
		h.Write(b[:16])
		binary.LittleEndian.PutUint32(b[0:], uint32(p.AckRel))
		h.Write(b[:4])
	}
	return h.Sum64()
}

// ---- base (deviation free) histories ---------------------------------------

// compositions of n into 1..maxParts positive parts (n == 0: the empty one).
func compositions(n, maxParts int) [][]int {
	if n == 0 {
		return [][]int{{}}
	}
	var out [][]int
	var rec func(rest int, cur []int)
	rec = func(rest int, cur []int) {
		if rest == 0 {
			out = append(out, append([]int{}, cur...))
			return
		}
		if len(cur) == maxParts {
			return
		}
		for k := 1; k <= rest; k++ {
			if len(cur) == maxParts-1 && k != rest {
				continue
			}
			rec(rest-k, append(cur, k))
		}
	}
	rec(n, nil)
	return out
}

// interleavings calls fn with every sequence over lane ids in which lane i
// occurs counts[i] times.
func interleavings(counts []int, fn func(order []int)) {
	total := 0
	for _, c := range counts {
		total += c
	}
	left := append([]int{}, counts...)
	cur := make([]int, 0, total)
	var rec func()
	rec = func() {
		if len(cur) == total {
			fn(cur)
			return
		}
		for i := range left {
			if left[i] > 0 {
				left[i]--
				cur = append(cur, i)
				rec()
				cur = cur[:len(cur)-1]
				left[i]++
			}
		}
	}
	rec()
}

// baseHistory builds the in-order capture: all handshakes, then the data
// segments in the given lane order (lane = conn*2+dir), then all FIN exchanges.
// segs[lane] are the segment lengths of that lane.
func baseHistory(specs []ConnSpec, segs [][]int, order []int) []Pkt {
	var ps []Pkt
	id := uint16(0x1000)
	nid := func() uint16 { id++; return id }
	for ci, s := range specs {
		c := int8(ci)
		if s.HS {
			ps = append(ps,
				Pkt{Conn: c, Dir: 0, SYN: true, ID: nid(), Role: 'S'},
				Pkt{Conn: c, Dir: 1, SYN: true, ACK: true, AckRel: 1, ID: nid(), Role: 'A'},
				Pkt{Conn: c, Dir: 0, ACK: true, AckRel: 1, ID: nid(), Role: 'K'})
		}
	}
	sent := make([]int32, len(specs)*2)
	next := make([]int, len(specs)*2)
	for _, lane := range order {
		c, d := lane/2, lane%2
		l := int32(segs[lane][next[lane]])
		next[lane]++
		ps = append(ps, Pkt{Conn: int8(c), Dir: int8(d), Off: sent[lane], Len: l, ACK: true, AckRel: 1 + sent[lane^1], ID: nid(), Role: 'D'})
		sent[lane] += l
	}
	for ci, s := range specs {
		c := int8(ci)
		n0, n1 := int32(s.N[0]), int32(s.N[1])
		if s.FIN {
			ps = append(ps,
				Pkt{Conn: c, Dir: 0, Off: n0, FIN: true, ACK: true, AckRel: 1 + n1, ID: nid(), Role: 'F'},
				Pkt{Conn: c, Dir: 1, Off: n1, FIN: true, ACK: true, AckRel: 2 + n0, ID: nid(), Role: 'G'},
				Pkt{Conn: c, Dir: 0, Off: n0 + 1, ACK: true, AckRel: 2 + n1, ID: nid(), Role: 'L'})
		}
	}
	return ps
}

// ---- deviations -------------------------------------------------------------

type devHist struct {
	ps   []Pkt
	kind string
}

func insertAt(ps []Pkt, i int, p ...Pkt) []Pkt {
	out := make([]Pkt, 0, len(ps)+len(p))
	out = append(out, ps[:i]...)
	out = append(out, p...)
	return append(out, ps[i:]...)
}

// dataRegion: insertion points for extra segments lie after the handshakes and
// not after the first FIN.
func dataRegion(ps []Pkt) (lo, hi int) {
	lo, hi = 0, len(ps)
	for i, p := range ps {
		if p.Role == 'S' || p.Role == 'A' || p.Role == 'K' {
			lo = i + 1
		}
	}
	for i, p := range ps {
		if p.Role == 'F' || p.Role == 'G' || p.Role == 'L' {
			hi = i
			break
		}
	}
	if lo > hi {
		lo = hi
	}
	return
}

func ackRelAt(ps []Pkt, pos int, conn, dir int8) int32 {
	a := int32(1)
	for _, q := range ps[:pos] {
		if q.Conn == conn && q.Dir == 1-dir && q.Len > 0 && 1+q.Off+q.Len > a {
			a = 1 + q.Off + q.Len
		}
	}
	return a
}

// deviations yields every history that differs from ps by exactly one deviation.
func deviations(ps []Pkt, specs []ConnSpec, fn func(devHist)) {
	lo, hi := dataRegion(ps)
	// adjacent swap of two consecutive segments of one direction
	for i := 0; i < len(ps); i++ {
		if ps[i].Len == 0 || ps[i].Frag {
			continue
		}
		for j := i + 1; j < len(ps); j++ {
			if ps[j].Conn != ps[i].Conn || ps[j].Dir != ps[i].Dir || ps[j].Len == 0 {
				continue
			}
			if !ps[j].Frag && ps[j].Off != ps[i].Off {
				out := append([]Pkt{}, ps...)
				out[i], out[j] = out[j], out[i]
				fn(devHist{out, "swap"})
			}
			break
		}
	}
	// duplication: data segments at every later position of the data region,
	// control packets immediately after the original
	for i, p := range ps {
		if p.Len > 0 {
			for pos := i + 1; pos <= hi; pos++ {
				fn(devHist{insertAt(ps, pos, p), "dup"})
			}
			if i+1 > hi {
				fn(devHist{insertAt(ps, i+1, p), "dup"})
			}
		} else {
			fn(devHist{insertAt(ps, i+1, p), "dupctl"})
			// a retransmitted control packet (SYN, SYN+ACK, handshake ACK, FIN) may also arrive
			// late: at every later position of the history
			for pos := i + 2; pos <= len(ps); pos++ {
				fn(devHist{insertAt(ps, pos, p), "dupctl-late"})
			}
		}
	}
	// overlapping retransmission: any byte range that is not one of the captured
	// segments, at every position of the data region
	id := uint16(0x2000)
	for _, p := range ps {
		if p.ID >= id && p.ID < 0x3000 {
			id = p.ID + 1
		}
	}
	for ci, s := range specs {
		for di := 0; di < 2; di++ {
			if s.N[di] > 8 {
				continue // big streams: covered by the other deviations
			}
			c, d, n := int8(ci), int8(di), int32(s.N[di])
			for a := int32(0); a < n; a++ {
			ranges:
				for b := a + 1; b <= n; b++ {
					for _, q := range ps {
						if q.Conn == c && q.Dir == d && q.Len > 0 && q.Off == a && q.Len == b-a {
							continue ranges
						}
					}
					for pos := lo; pos <= hi; pos++ {
						np := Pkt{Conn: c, Dir: d, Off: a, Len: b - a, ACK: true, AckRel: ackRelAt(ps, pos, c, d), ID: id, Role: 'R'}
						fn(devHist{insertAt(ps, pos, np), "overlap"})
					}
				}
			}
		}
	}
	// omission of a data segment
	for i, p := range ps {
		if p.Len > 0 {
			out := append(append([]Pkt{}, ps[:i]...), ps[i+1:]...)
			fn(devHist{out, "omit"})
		}
	}
	// IPv4 fragmentation of one datagram at every 8 byte boundary, in order and swapped
	for i, p := range ps {
		if p.Frag {
			continue
		}
		total := 20 + p.Len
		for b := int32(8); b < total; b += 8 {
			f1, f2 := p, p
			f1.Frag, f1.FragOff, f1.FragEnd = true, 0, b
			f2.Frag, f2.FragOff, f2.FragEnd = true, b, total
			out := append(append([]Pkt{}, ps[:i]...), ps[i+1:]...)
			fn(devHist{insertAt(out, i, f1, f2), "frag"})
			fn(devHist{insertAt(out, i, f2, f1), "fragswap"})
		}
	}
}

// ---- reference model --------------------------------------------------------

type DirView struct {
	IP       string `json:"ip"`
	Port     int    `json:"port"`
	Stream   string `json:"stream"` // hex
	Skipped  int    `json:"skipped_bytes"`
	HasStart bool   `json:"has_start"`
	HasEnd   bool   `json:"has_end"`
}

type ConnView struct {
	Client DirView `json:"client"`
	Server DirView `json:"server"`
}

type Observation struct {
	Err         string     `json:"err,omitempty"`
	Conns       []ConnView `json:"tcp_connections"`
	Reassembled []string   `json:"ipv4_reassembled"` // hex
	ChecksumsOK bool       `json:"-"`
}

// dirExpect is what the reference demands for one direction.
type dirExpect struct {
	DirView
	SkipJudged   bool // stream and skipped_bytes are decidable from the capture
	HasEndJudged bool
	Unknowable   string
}

type connExpect struct {
	Client, Server dirExpect
}

type expectation struct {
	Conns       []connExpect
	Reassembled []string
	// features of the history (for the non-triviality rule)
	Gap, OutOfOrder, Retrans, Fragmented bool
	// LenCoincidence: a fragmented datagram was completed by a fragment whose IPv4
	// total length equals the payload length of the whole datagram (used only to
	// name the signature of a known defect class, never to suppress a comparison)
	LenCoincidence bool
}

type fragKey struct {
	conn, dir int8
	id        uint16
}

type fragState struct {
	have  []bool
	total int32
}

// reference computes the expected observation for a packet history.
func reference(ps []Pkt, specs []ConnSpec) expectation {
	var ex expectation
	type dirState struct {
		cover      []bool
		syn, fin   bool
		finInOrder bool
		maxEnd     int32
	}
	type connState struct {
		seen   bool
		client int8 // Dir value of the first sender
		d      [2]dirState
	}
	cs := make([]connState, len(specs))
	var order []int
	frags := map[fragKey]*fragState{}
	deliver := func(p Pkt) {
		c := &cs[p.Conn]
		if !c.seen {
			c.seen = true
			c.client = p.Dir
			order = append(order, int(p.Conn))
			for d := 0; d < 2; d++ {
				c.d[d].cover = make([]bool, specs[p.Conn].N[d])
			}
		}
		d := &c.d[p.Dir]
		if p.SYN {
			d.syn = true
		}
		if p.Len > 0 {
			fresh := false
			for k := p.Off; k < p.Off+p.Len; k++ {
				if !d.cover[k] {
					fresh = true
				}
				d.cover[k] = true
			}
			if !fresh {
				ex.Retrans = true
			} else if p.Off < d.maxEnd {
				ex.OutOfOrder = true
			}
			if p.Off+p.Len > d.maxEnd {
				d.maxEnd = p.Off + p.Len
			}
		}
		if p.FIN && !d.fin {
			d.fin = true
			d.finInOrder = true
			for _, v := range d.cover {
				if !v {
					d.finInOrder = false
				}
			}
		}
	}
	for _, p := range ps {
		if !p.Frag {
			deliver(p)
			continue
		}
		ex.Fragmented = true
		k := fragKey{p.Conn, p.Dir, p.ID}
		f := frags[k]
		if f == nil {
			f = &fragState{have: make([]bool, 20+p.Len), total: -1}
			frags[k] = f
		}
		for i := p.FragOff; i < p.FragEnd; i++ {
			f.have[i] = true
		}
		if p.FragEnd == 20+p.Len {
			f.total = p.FragEnd
		}
		if f.total >= 0 {
			done := true
			for i := int32(0); i < f.total; i++ {
				done = done && f.have[i]
			}
			if done {
				delete(frags, k)
				if p.FragEnd-p.FragOff == p.Len {
					ex.LenCoincidence = true
				}
				ex.Reassembled = append(ex.Reassembled, hexOf(wholeDatagram(p, specs)))
				whole := p
				whole.Frag = false
				deliver(whole)
			}
		}
	}
	for _, ci := range order {
		c := cs[ci]
		var ce connExpect
		for role := 0; role < 2; role++ {
			dir := int(c.client)
			if role == 1 {
				dir = 1 - dir
			}
			d := c.d[dir]
			e := ends[ci][dir]
			firstMissing := len(d.cover)
			for k, v := range d.cover {
				if !v {
					firstMissing = k
					break
				}
			}
			skipped := 0
			last := -1
			for k, v := range d.cover {
				if v {
					last = k
				}
			}
			for k := firstMissing; k < last; k++ {
				if !d.cover[k] {
					skipped++
				}
			}
			if skipped > 0 {
				ex.Gap = true
			}
			de := dirExpect{DirView: DirView{
				IP: ipString(e.IP), Port: int(e.Port),
				Stream:   hexOf(streamBytes(ci, dir, 0, firstMissing)),
				Skipped:  skipped,
				HasStart: d.syn,
				HasEnd:   d.fin,
			}, SkipJudged: true}
			if !d.syn && last >= 0 && !d.cover[0] {
				// no SYN and the first byte of the stream was never captured: where the
				// stream starts cannot be known from the capture
				de.SkipJudged = false
				de.Unknowable = "stream start not captured (no SYN, first data byte missing)"
			}
			// has_end: a captured FIN that arrived after all data of its direction must
			// be reported; no FIN captured must never be reported as an end. A FIN
			// that overtook missing data, or a direction without SYN, is not judged.
			de.HasEndJudged = !d.fin || (d.syn && d.finInOrder)
			if role == 0 {
				ce.Client = de
			} else {
				ce.Server = de
			}
		}
		ex.Conns = append(ex.Conns, ce)
	}
	return ex
}

const hexdigits = "0123456789abcdef"

func hexOf(b []byte) string {
	o := make([]byte, len(b)*2)
	for i, v := range b {
		o[2*i] = hexdigits[v>>4]
		o[2*i+1] = hexdigits[v&15]
	}
	return string(o)
}

// mismatch is one difference between the reference and fq's observation.
type mismatch struct {
	class string
	what  string
}

func connKey(v ConnView) string {
	return fmt.Sprintf("%s:%d>%s:%d", v.Client.IP, v.Client.Port, v.Server.IP, v.Server.Port)
}

// compare returns the differences; info collects informational counts.
func compare(ex expectation, ob Observation, info map[string]int64) []mismatch {
	var ms []mismatch
	if ob.Err != "" {
		return []mismatch{{"decode-error", "fq failed: " + ob.Err}}
	}
	used := make([]bool, len(ob.Conns))
	for _, ce := range ex.Conns {
		want := ConnView{ce.Client.DirView, ce.Server.DirView}
		found := -1
		for i, oc := range ob.Conns {
			if !used[i] && connKey(oc) == connKey(want) {
				found = i
				break
			}
		}
		if found < 0 {
			var got []string
			for _, oc := range ob.Conns {
				got = append(got, connKey(oc))
			}
			ms = append(ms, mismatch{"endpoint", fmt.Sprintf("expected connection client>server %s, fq reports %v", connKey(want), got)})
			continue
		}
		used[found] = true
		oc := ob.Conns[found]
		for role, pair := range [][2]any{{ce.Client, oc.Client}, {ce.Server, oc.Server}} {
			e := pair[0].(dirExpect)
			o := pair[1].(DirView)
			name := []string{"client", "server"}[role]
			who := fmt.Sprintf("%s %s:%d", name, e.IP, e.Port)
			if o.HasStart != e.HasStart {
				ms = append(ms, mismatch{"has-start", fmt.Sprintf("%s has_start=%v, SYN captured=%v", who, o.HasStart, e.HasStart)})
			}
			if e.HasEndJudged {
				if o.HasEnd != e.HasEnd {
					ms = append(ms, mismatch{"has-end", fmt.Sprintf("%s has_end=%v, expected %v", who, o.HasEnd, e.HasEnd)})
				}
			} else {
				info["has_end_not_judged"]++
				if o.HasEnd {
					info["has_end_not_judged_reported_true"]++
				}
			}
			if !e.SkipJudged {
				info["unknowable_directions"]++
				if o.Stream == e.Stream && (o.Skipped > 0) == (e.Skipped > 0) {
					info["unknowable_but_equal_to_model"]++
				}
				continue
			}
			if o.Stream != e.Stream {
				cl := "stream-differs"
				switch {
				case strings.HasPrefix(e.Stream, o.Stream):
					cl = "stream-short"
				case strings.HasPrefix(o.Stream, e.Stream):
					cl = "stream-invented"
				}
				at := 0
				for at < len(o.Stream) && at < len(e.Stream) && o.Stream[at] == e.Stream[at] {
					at++
				}
				at /= 2
				ms = append(ms, mismatch{cl, fmt.Sprintf("%s stream (%d bytes)=%q, bytes sent before the first missing byte (%d bytes)=%q, first difference at offset %d: got %q want %q",
					who, len(o.Stream)/2, unhex(o.Stream), len(e.Stream)/2, unhex(e.Stream), at, unhex(window(o.Stream, at)), unhex(window(e.Stream, at)))})
			}
			if (o.Skipped > 0) != (e.Skipped > 0) {
				cl := "loss-not-signalled"
				if o.Skipped > 0 {
					cl = "false-loss"
				}
				ms = append(ms, mismatch{cl, fmt.Sprintf("%s skipped_bytes=%d, missing bytes followed by captured data=%d", who, o.Skipped, e.Skipped)})
			} else if o.Skipped != e.Skipped {
				info["skipped_count_differs_from_gap_size"]++
			}
		}
	}
	for i, oc := range ob.Conns {
		if !used[i] {
			ms = append(ms, mismatch{"conn-extra", "fq reports a connection that is not in the capture: " + connKey(oc)})
		}
	}
	er := append([]string{}, ex.Reassembled...)
	or := append([]string{}, ob.Reassembled...)
	if len(er) != len(or) {
		ms = append(ms, mismatch{"reassembled-count", fmt.Sprintf("ipv4_reassembled has %d datagrams, %d fragmented datagrams were completed in the capture", len(or), len(er))})
	} else {
		sort.Strings(er)
		sort.Strings(or)
		for i := range er {
			if er[i] != or[i] {
				ms = append(ms, mismatch{"reassembled-differs", fmt.Sprintf("ipv4_reassembled datagram %s, datagram that was split %s", or[i], er[i])})
				break
			}
		}
	}
	return ms
}

func window(h string, at int) string {
	lo, hi := 2*at, 2*at+16
	if lo > len(h) {
		lo = len(h)
	}
	if hi > len(h) {
		hi = len(h)
	}
	return h[lo:hi]
}

func unhex(s string) string {
	b := make([]byte, len(s)/2)
	for i := range b {
		fmt.Sscanf(s[2*i:2*i+2], "%02x", &b[i])
	}
	if len(b) > 48 {
		return string(b[:48]) + fmt.Sprintf("...(%d bytes)", len(b))
	}
	return string(b)
}
