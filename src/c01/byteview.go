package c01

import (
	"bytes"
	"errors"
	"fmt"
	"io"

	"github.com/wader/fq/internal/aheadreadseeker"
	"github.com/wader/fq/internal/bitiox"
	"github.com/wader/fq/internal/progressreadseeker"
	"github.com/wader/fq/internal/verif/core"
	"github.com/wader/fq/pkg/bitio"
)

// BOp is a byte level operation (io.Reader / io.Seeker side).
type BOp struct {
	K      string `json:"k"` // read | seek
	N      int    `json:"n,omitempty"`
	Off    int64  `json:"off,omitempty"`
	Whence int    `json:"whence,omitempty"`
}

func (o BOp) String() string {
	if o.K == "read" {
		return fmt.Sprintf("Read(%d)", o.N)
	}
	if o.K == "readbyte" {
		return "ReadByte()"
	}
	return fmt.Sprintf("Seek(%d,%s)", o.Off, [...]string{"Start", "Current", "End"}[o.Whence])
}

type sysInst struct {
	obj   any // hashed for the state key
	step  func(op BOp, judge bool) *failure
	extra func() any
	close func()
}

// bfsBytes is the explicit-state search for byte level objects.
func bfsBytes(r *core.Run, name string, caseArgs map[string]any, fresh func() *sysInst, ops []BOp, depth, maxStates int) {
	run := func(h []BOp) (uint64, *failure, any) {
		s := fresh()
		defer s.close()
		var f *failure
		pv, _ := core.Protect(func() {
			for i, op := range h {
				if ff := s.step(op, i == len(h)-1); ff != nil && f == nil {
					f = ff
				}
			}
		})
		if pv != nil {
			return 0, f, pv
		}
		return core.DeepHash(s.obj, s.extra()), f, nil
	}
	k0, _, _ := run(nil)
	seen := map[uint64]struct{}{k0: {}}
	frontier := [][]BOp{nil}
	var transitions int64
	for d := 0; d < depth && len(frontier) > 0; d++ {
		var next [][]BOp
		for _, h := range frontier {
			if r.Expired() {
				r.NotExhaustive(fmt.Sprintf("%s: deadline during depth %d", name, d+1))
				break
			}
			for _, op := range ops {
				hist := append(append(make([]BOp, 0, len(h)+1), h...), op)
				r.StepBegin(name+":"+op.K, fmt.Sprintf("%s %v %v", name, hist, caseArgs), Case{Kind: name, Args: merge(caseArgs, map[string]any{"ops": hist})})
				key, f, pv := run(hist)
				r.StepEnd()
				transitions++
				if pv != nil || f != nil {
					class, msg := "panic", ""
					if f != nil {
						class, msg = f.class, f.msg
					} else {
						msg = core.PanicString(pv)
						class = "panic:" + trunc(msg, 50)
					}
					r.Violate(fmt.Sprintf("%s:%s:%s", name, class, op.K),
						fmt.Sprintf("%s: %s ; history %v ; args %v", name, msg, hist, caseArgs),
						Case{Kind: name, Args: merge(caseArgs, map[string]any{"ops": hist})})
					continue
				}
				if _, ok := seen[key]; !ok {
					if len(seen) >= maxStates {
						r.NotExhaustive(fmt.Sprintf("%s: state cap %d reached", name, maxStates))
						continue
					}
					seen[key] = struct{}{}
					next = append(next, hist)
				}
			}
		}
		frontier = next
	}
	r.AddStates(int64(len(seen)))
	r.AddTransitions(transitions)
	r.AddTraces(transitions)
	r.Eval(transitions)
	if len(seen) > 1 {
		r.Nontrivial(fmt.Sprintf("%s:%v", name, caseArgs))
	}
}

func trunc(s string, n int) string {
	if len(s) > n {
		return s[:n]
	}
	return s
}

func merge(a, b map[string]any) map[string]any {
	m := map[string]any{}
	for k, v := range a {
		m[k] = v
	}
	for k, v := range b {
		m[k] = v
	}
	return m
}

// budgetReader counts underlying bit reads; exceeding the budget is a livelock
// (a step budget, never a wall clock).
type budgetReader struct {
	r      bitio.ReaderAtSeeker
	budget int
}

func (b *budgetReader) ReadBits(p []byte, n int64) (int64, error) {
	b.budget--
	if b.budget < 0 {
		panic("livelock: more than 10000 underlying reads for one operation")
	}
	return b.r.ReadBits(p, n)
}
func (b *budgetReader) SeekBits(o int64, w int) (int64, error) { return b.r.SeekBits(o, w) }

// stepByteView judges one op on an io.Reader(+Seeker) against the padded byte view.
func stepByteView(rd io.Reader, sk io.Seeker, view []byte, pos *int64, op BOp, judge bool, allowShortAtEnd bool) *failure {
	fail := func(class, f string, a ...any) *failure {
		if !judge {
			return nil
		}
		return &failure{class: class, msg: fmt.Sprintf(f, a...)}
	}
	l := int64(len(view))
	switch op.K {
	case "read", "readbyte":
		p := make([]byte, op.N)
		for i := range p {
			p[i] = canary
		}
		var n int
		var err error
		if op.K == "readbyte" {
			// the path compress/flate takes (io.ByteReader); not routed through
			// IOReadSeeker.Read
			p = make([]byte, 1)
			op.N = 1
			var b byte
			b, err = rd.(io.ByteReader).ReadByte()
			if err == nil || b != 0 {
				p[0] = b
				n = 1
			}
			if err != nil && *pos >= l {
				n = 0
			}
			if err != nil && allowShortAtEnd && *pos == l-1 {
				// zero padded last byte of an unaligned source is delivered together
				// with EOF; ReadByte's value is then unspecified by io.ByteReader: the
				// byte counts as consumed and is not judged
				*pos = l
				return nil
			}
		} else {
			n, err = rd.Read(p)
		}
		at := *pos
		avail := max(l-at, 0)
		if n < 0 || int64(n) > min(int64(op.N), avail) {
			*pos += int64(max(n, 0))
			return fail("too-many-bytes", "%s at byte %d of %d returned n=%d err=%v", op, at, l, n, err)
		}
		if n > 0 && !bytes.Equal(p[:n], view[at:at+int64(n)]) {
			*pos += int64(n)
			return fail("wrong-bytes", "%s at byte %d returned %x, view has %x", op, at, p[:n], view[at:at+int64(n)])
		}
		*pos += int64(n)
		if err != nil && at+int64(n) < l && at < l {
			return fail("error-before-end", "%s at byte %d of %d returned n=%d err=%v before the end", op, at, l, n, err)
		}
		if err == nil && n == 0 && op.N > 0 {
			return fail("no-progress", "%s at byte %d of %d returned (0,nil)", op, at, l)
		}
	case "seek":
		var base int64
		switch op.Whence {
		case io.SeekCurrent:
			base = *pos
		case io.SeekEnd:
			base = l
		}
		t := base + op.Off
		got, err := sk.Seek(op.Off, op.Whence)
		switch {
		case t < 0:
			if err == nil {
				*pos = t
				return fail("negative-seek-accepted", "%s from %d (len %d) succeeded -> %d", op, base, l, got)
			}
		case t <= l:
			if err != nil {
				return fail("seek-failed", "%s from %d (len %d) failed: %v", op, base, l, err)
			}
			*pos = t
			if got != t {
				return fail("seek-wrong-pos", "%s from %d (len %d) returned %d expected %d", op, base, l, got, t)
			}
		default:
			if err == nil {
				*pos = t
				if got != t {
					return fail("seek-wrong-pos", "%s from %d (len %d) returned %d expected %d", op, base, l, got, t)
				}
			}
		}
	}
	return nil
}

func byteOps(l int64, lens []int, withEnd bool) []BOp {
	var ops []BOp
	for _, n := range lens {
		ops = append(ops, BOp{K: "read", N: n})
	}
	for o := -l - 1; o <= l+1; o++ {
		ops = append(ops, BOp{K: "seek", Off: o, Whence: io.SeekStart})
		ops = append(ops, BOp{K: "seek", Off: o, Whence: io.SeekCurrent})
		if withEnd {
			ops = append(ops, BOp{K: "seek", Off: o, Whence: io.SeekEnd})
		}
	}
	return ops
}

// aheadAndProgress: explicit-state search over the read-ahead cache and the
// progress wrapper at the io.ReadSeeker level.
func aheadAndProgress(r *core.Run) {
	maxL := core.Pick(r, 6, 8)
	depth := core.Pick(r, 4, 5)
	idx := int64(0)
	for L := 0; L <= maxL; L++ {
		data := make([]byte, L)
		for i := range data {
			data[i] = byte('0' + i)
		}
		for _, minRead := range []int{1, 2, 4} {
			idx++
			if !r.Mine(idx) {
				continue
			}
			args := map[string]any{"len": L, "minRead": minRead}
			bfsBytes(r, "ahead", args, func() *sysInst {
				under := bytes.NewReader(data)
				a := aheadreadseeker.New(under, minRead)
				pos := int64(0)
				return &sysInst{obj: a, extra: func() any { return pos }, close: func() {},
					step: func(op BOp, judge bool) *failure { return stepByteView(a, a, data, &pos, op, judge, false) }}
			}, byteOps(int64(L), []int{0, 1, 2, 3, 5}, true), depth, 200000)
		}
		for _, prec := range []int64{1, 2, 3} {
			for _, total := range []int64{int64(L)} {
				idx++
				if !r.Mine(idx) {
					continue
				}
				args := map[string]any{"len": L, "precision": prec, "total": total}
				bfsBytes(r, "progress", args, func() *sysInst {
					under := bytes.NewReader(data)
					last := int64(-1)
					var pf *failure
					p := progressreadseeker.New(under, prec, total, func(approx, tot int64) {
						if approx < last || approx > tot || tot != total {
							pf = &failure{class: "progress-callback", msg: fmt.Sprintf("progress(%d,%d) after %d", approx, tot, last)}
						}
						last = approx
					})
					pos := int64(0)
					return &sysInst{obj: p, extra: func() any { return pos }, close: func() {},
						step: func(op BOp, judge bool) *failure {
							f := stepByteView(p, p, data, &pos, op, judge, false)
							if f == nil && judge {
								f = pf
							}
							return f
						}}
				}, byteOps(int64(L), []int{0, 1, 3}, true), core.Pick(r, 3, 4), 200000)
			}
		}
	}
	r.Section("ahead+progress")
}

// byteViews: IOReader / IOReadSeeker over bit sources of every length 0..20 bits;
// IOBitWriter; CopyBits / bitio.Copy.
func byteViews(r *core.Run) {
	src := []byte{0xa7, 0x3c, 0xd1}
	all := core.BitsFromBytes(src)
	maxBits := int64(core.Pick(r, 20, 24))
	idx := int64(1000)
	for nb := int64(0); nb <= maxBits; nb++ {
		ref := all.Slice(0, nb)
		view := ref.Bytes()
		// source kinds: a single bit reader, and a multi reader split at an unaligned
		// point so that the byte view straddles parts (short underlying reads).
		for _, kind := range []string{"bitreader", "multi"} {
			if kind == "multi" && nb < 4 {
				continue
			}
			mk := func() bitio.ReaderAtSeeker {
				if kind == "bitreader" {
					return bitio.NewBitReader(append([]byte{}, src...), nb)
				}
				a := bitio.NewBitReader(ref.Slice(0, 3).Bytes(), 3)
				b := bitio.NewBitReader(ref.Slice(3, nb).Bytes(), nb-3)
				m, err := bitio.NewMultiReader(a, b)
				if err != nil {
					panic(err)
				}
				return m
			}
			idx++
			if r.Mine(idx) {
				args := map[string]any{"view": "IOReadSeeker", "bits": nb, "src": kind}
				// SeekEnd only on byte aligned sources: the end of a padded view is not
				// expressible in the underlying bit seek (stated, not judged)
				bfsBytes(r, "ioreadseeker", args, func() *sysInst {
					br := &budgetReader{r: mk(), budget: 10000}
					v := bitio.NewIOReadSeeker(br)
					pos := int64(0)
					return &sysInst{obj: v, extra: func() any { return pos }, close: func() {},
						step: func(op BOp, judge bool) *failure {
							br.budget = 10000
							return stepByteView(v, v, view, &pos, op, judge, nb%8 != 0)
						}}
				}, byteOpsView(int64(len(view)), nb%8 == 0), core.Pick(r, 3, 4), 100000)
			}
			idx++
			if r.Mine(idx) {
				args := map[string]any{"view": "IOReader", "bits": nb, "src": kind}
				bfsBytes(r, "ioreader", args, func() *sysInst {
					br := &budgetReader{r: mk(), budget: 10000}
					v := bitio.NewIOReader(br)
					pos := int64(0)
					return &sysInst{obj: v, extra: func() any { return pos }, close: func() {},
						step: func(op BOp, judge bool) *failure {
							br.budget = 10000
							return stepByteView(v, nil, view, &pos, op, judge, nb%8 != 0)
						}}
				}, []BOp{{K: "read", N: 0}, {K: "read", N: 1}, {K: "read", N: 2}, {K: "read", N: 3}, {K: "read", N: 5}, {K: "readbyte"}}, core.Pick(r, 4, 5), 100000)
			}
			// whole-copy helpers
			idx++
			if r.Mine(idx) {
				for _, scratch := range []int{1, 2, 3, 0} {
					r.StepBegin("copy:"+kind, fmt.Sprintf("copy helpers %s %d bits scratch %d", kind, nb, scratch), Case{Kind: "copybits", Args: map[string]any{"bits": nb, "src": kind, "scratch": scratch}})
					var out bytes.Buffer
					var n int64
					var err error
					pv, _ := core.Protect(func() {
						var sb []byte
						if scratch > 0 {
							sb = make([]byte, scratch)
						}
						n, err = bitiox.CopyBitsBuffer(&out, &budgetReader{r: mk(), budget: 10000}, sb)
					})
					r.Eval(1)
					if pv != nil || err != nil || n != int64(len(view)) || !bytes.Equal(out.Bytes(), view) {
						r.Violate(fmt.Sprintf("copybits:%s:scratch%d", kind, scratch),
							fmt.Sprintf("CopyBitsBuffer(%s %d bits, scratch %d) wrote %x n=%d err=%v panic=%v, expected %x", kind, nb, scratch, out.Bytes(), n, err, pv, view),
							Case{Kind: "copybits", Args: map[string]any{"bits": nb, "src": kind, "scratch": scratch}})
					}
					// bitio.CopyBuffer into a Buffer and into an IOBitWriter
					var bb bitio.Buffer
					var wout bytes.Buffer
					bw := bitio.NewIOBitWriter(&wout)
					var n1, n2 int64
					var e1, e2, e3 error
					pv, _ = core.Protect(func() {
						var sb []byte
						if scratch > 0 {
							sb = make([]byte, scratch)
						}
						n1, e1 = bitio.CopyBuffer(&bb, mk(), sb)
						n2, e2 = bitio.CopyBuffer(bw, mk(), sb)
						e3 = bw.Flush()
					})
					r.Eval(2)
					got1, gb := bb.Bits()
					if pv != nil || e1 != nil || n1 != nb || gb != nb || !core.BitsOfBuf(got1, 0, nb).Equal(ref) {
						r.Violate(fmt.Sprintf("bitio-copy-buffer:%s:scratch%d", kind, scratch),
							fmt.Sprintf("bitio.CopyBuffer(Buffer <- %s %d bits, scratch %d) gave %x/%d n=%d err=%v panic=%v", kind, nb, scratch, got1, gb, n1, e1, pv),
							Case{Kind: "bitiocopy", Args: map[string]any{"bits": nb, "src": kind, "scratch": scratch}})
					}
					r.StepEnd()
					if pv != nil || e2 != nil || e3 != nil || n2 != nb || !bytes.Equal(wout.Bytes(), view) {
						r.Violate(fmt.Sprintf("bitio-copy-writer:%s:scratch%d", kind, scratch),
							fmt.Sprintf("bitio.CopyBuffer(IOBitWriter <- %s %d bits, scratch %d) wrote %x n=%d err=%v/%v panic=%v expected %x", kind, nb, scratch, wout.Bytes(), n2, e2, e3, pv, view),
							Case{Kind: "bitiocopyw", Args: map[string]any{"bits": nb, "src": kind, "scratch": scratch}})
					}
				}
			}
		}
	}
	// byte views over sources that hand out their LAST bits together with EOF (a bare
	// IOBitReadSeeker positioned inside a byte, a multi reader ending in one, a window
	// declared longer than such a source): the zero padded last byte must still come
	eofSources(r, all, src)
	if r.ShardIdx == 1%r.ShardN {
		faultSources(r, all)
	}

	// IOBitWriter: every sequence of WriteBits(n) of length <= 4 then Flush
	ws := []int64{0, 1, 3, 8, 9, 17}
	depth := core.Pick(r, 4, 5)
	var rec func(seq []int64)
	cnt := int64(0)
	rec = func(seq []int64) {
		if len(seq) > 0 {
			cnt++
			if r.Mine(5000 + cnt) {
				var out bytes.Buffer
				w := bitio.NewIOBitWriter(&out)
				var exp core.Bits
				off := int64(0)
				var werr error
				pv, _ := core.Protect(func() {
					for _, n := range seq {
						chunk := all.Slice(off%7, off%7+n)
						pay := chunk.Bytes()
						if n%8 != 0 {
							pay[len(pay)-1] |= 0xff >> uint(n%8) // poison padding
						}
						wn, err := w.WriteBits(pay, n)
						if err != nil || wn != n {
							werr = fmt.Errorf("WriteBits(%d) = %d, %v", n, wn, err)
						}
						exp = append(exp, chunk...)
						off += n
					}
					if err := w.Flush(); err != nil {
						werr = err
					}
				})
				r.Eval(1)
				if pv != nil || werr != nil || !bytes.Equal(out.Bytes(), exp.Bytes()) {
					r.Violate("iobitwriter", fmt.Sprintf("IOBitWriter writes %v + Flush wrote %x (err=%v panic=%v), expected %x", seq, out.Bytes(), werr, pv, exp.Bytes()),
						Case{Kind: "iobitwriter", Args: map[string]any{"seq": seq}})
				}
				r.Nontrivial(fmt.Sprintf("iobitwriter:%v", seq))
			}
		}
		if len(seq) == depth {
			return
		}
		for _, n := range ws {
			rec(append(append([]int64{}, seq...), n))
		}
	}
	rec(nil)
	r.Section("byteviews+writers")
}

func byteOpsView(l int64, withEnd bool) []BOp {
	ops := []BOp{{K: "read", N: 0}, {K: "read", N: 1}, {K: "read", N: 2}, {K: "read", N: 3}, {K: "read", N: 5}, {K: "readbyte"}}
	for o := int64(0); o <= l; o++ {
		if !withEnd && o == l {
			continue // the padded last byte's end is not a position of the bit source
		}
		ops = append(ops, BOp{K: "seek", Off: o, Whence: io.SeekStart})
	}
	if withEnd {
		// relative seeks only on byte aligned sources: on an unaligned source the
		// padded view's last byte has no position in the underlying bit seek
		ops = append(ops, BOp{K: "seek", Off: 0, Whence: io.SeekCurrent}, BOp{K: "seek", Off: 1, Whence: io.SeekCurrent}, BOp{K: "seek", Off: -1, Whence: io.SeekCurrent})
		ops = append(ops, BOp{K: "seek", Off: 0, Whence: io.SeekEnd}, BOp{K: "seek", Off: -1, Whence: io.SeekEnd})
	}
	return ops
}

var _ = errors.Is

type eofSrc struct {
	kind string
	mk   func() bitio.ReaderAtSeeker
	ref  core.Bits
}

func eofSources(r *core.Run, all core.Bits, src []byte) {
	idx := int64(9000)
	for nbytes := 1; nbytes <= len(src); nbytes++ {
		total := int64(nbytes) * 8
		bare := func() *bitio.IOBitReadSeeker {
			return bitio.NewIOBitReadSeeker(bytes.NewReader(append([]byte{}, src[:nbytes]...)))
		}
		var srcs []eofSrc
		for _, s0 := range []int64{0, 1, 3, 7} {
			s0 := s0
			srcs = append(srcs, eofSrc{fmt.Sprintf("bare@%d", s0), func() bitio.ReaderAtSeeker {
				b := bare()
				if _, err := b.SeekBits(s0, io.SeekStart); err != nil {
					panic(err)
				}
				return b
			}, all.Slice(s0, total)})
		}
		srcs = append(srcs, eofSrc{"multi(3 bits, bare)", func() bitio.ReaderAtSeeker {
			m, err := bitio.NewMultiReader(bitio.NewBitReader(all.Slice(0, 3).Bytes(), 3), bare())
			if err != nil {
				panic(err)
			}
			return m
		}, append(append(core.Bits{}, all.Slice(0, 3)...), all.Slice(0, total)...)})
		srcs = append(srcs, eofSrc{"overlong section(bare,3,+5)", func() bitio.ReaderAtSeeker {
			return bitio.NewSectionReader(bare(), 3, total+5)
		}, all.Slice(3, total)})
		for _, es := range srcs {
			es := es
			view := es.ref.Bytes()
			nb := int64(len(es.ref))
			idx++
			if !r.Mine(idx) {
				continue
			}
			args := map[string]any{"view": "IOReader", "bits": nb, "src": es.kind, "bytes": nbytes}
			bfsBytes(r, "ioreader-eofsrc", args, func() *sysInst {
				br := &budgetReader{r: es.mk(), budget: 10000}
				v := bitio.NewIOReader(br)
				pos := int64(0)
				return &sysInst{obj: v, extra: func() any { return pos }, close: func() {},
					step: func(op BOp, judge bool) *failure {
						br.budget = 10000
						return stepByteView(v, nil, view, &pos, op, judge, nb%8 != 0)
					}}
			}, []BOp{{K: "read", N: 0}, {K: "read", N: 1}, {K: "read", N: 2}, {K: "read", N: 3}, {K: "read", N: 5}, {K: "readbyte"}}, core.Pick(r, 4, 5), 100000)
			// whole copies
			var out bytes.Buffer
			var n int64
			var err error
			pv, _ := core.Protect(func() { n, err = bitiox.CopyBits(&out, &budgetReader{r: es.mk(), budget: 10000}) })
			r.Eval(1)
			if pv != nil || err != nil || n != int64(len(view)) || !bytes.Equal(out.Bytes(), view) {
				r.Violate("copybits:eofsrc:"+es.kind, fmt.Sprintf("CopyBits(%s over %d source bytes, %d bits) wrote %x n=%d err=%v panic=%v, expected %x", es.kind, nbytes, nb, out.Bytes(), n, err, pv, view),
					Case{Kind: "eofsrc", Args: args})
			}
			var all2 []byte
			pv, _ = core.Protect(func() { all2, err = io.ReadAll(bitio.NewIOReader(es.mk())) })
			r.Eval(1)
			if pv != nil || err != nil || !bytes.Equal(all2, view) {
				r.Violate("readall:eofsrc:"+es.kind, fmt.Sprintf("io.ReadAll(NewIOReader(%s over %d source bytes, %d bits)) = %x err=%v panic=%v, expected %x", es.kind, nbytes, nb, all2, err, pv, view),
					Case{Kind: "eofsrc", Args: args})
			}
		}
	}
}
