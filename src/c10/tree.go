package c10

import (
	"bytes"
	"fmt"
	"sort"

	"github.com/wader/fq/internal/verif/core"
	"github.com/wader/fq/internal/verif/dsl"
	"github.com/wader/fq/pkg/decode"
	"github.com/wader/fq/pkg/interp"
	"github.com/wader/fq/pkg/scalar"
)

// ---- subjects: values of decoder-DSL trees -----------------------------------

var dslInputs = [][]byte{
	{0xa7, 0x3c, 0xd1, 0x6b, 0xe2, 0x20, 0x7c, 0x00, 0xff},
	{0x5a, 0xc3},
}

// display function variants: the four public functions; d and dv (which truncate)
// with every display_bytes of dslDBs.
type fnVar struct {
	fn string
	db int // -1: not passed
}

var dslDBs = []int{1, 2, 5, 16}

func fnVars() []fnVar {
	var out []fnVar
	for _, fn := range []string{"d", "dv"} {
		for _, db := range dslDBs {
			out = append(out, fnVar{fn, db})
		}
	}
	return append(out, fnVar{"dd", -1}, fnVar{"ddv", -1})
}

// doc/usage.md: dd is display({array_truncate: 0, string_truncate: 0, display_bytes: 0}),
// dv is display({array_truncate: 0, string_truncate: 0, verbose: true}), ddv both; the
// defaults come first so that explicitly given options win.
var fnDefaults = map[string]string{
	"d":   `{}`,
	"dd":  `{array_truncate: 0, string_truncate: 0, display_bytes: 0}`,
	"dv":  `{array_truncate: 0, string_truncate: 0, verbose: true}`,
	"ddv": `{array_truncate: 0, string_truncate: 0, display_bytes: 0, verbose: true}`,
}

func fnVerbose(fn string) bool { return fn == "dv" || fn == "ddv" }

// TreeCase is one replayable tree display case.
type TreeCase struct {
	Kind  string `json:"kind"` // "tree"
	Prog  string `json:"prog"`
	Input string `json:"input"` // hex
	Path  string `json:"path"`  // value displayed
	Fn    string `json:"fn"`
	Opt   Opt    `json:"opt"`
}

const decodeProg = `(.input | tobytes) as $b | .progs[] as $p | [try ($b | decode("vdsl"; {prog: $p, force: true}) | ..) catch null]`

const treeRealProg = `.cases[] | . as [$v,$f,$o]
| (try ($v | if $f == "d" then d($o) elif $f == "dd" then dd($o) elif $f == "dv" then dv($o) else ddv($o) end) catch {err: tostring}), 0`

func treeOptProg(fn string) string {
	return `.[] | options(` + fnDefaults[fn] + ` + .) | .raw_output = false`
}

type node struct {
	v    *decode.Value
	jq   any // the fq value
	path string
}

type tree struct {
	prog  string
	input []byte
	nodes []node // pre-order
	bufs  map[*decode.Value][]byte
	bits  map[*decode.Value]int64
}

func isCompound(v *decode.Value) bool { _, ok := v.V.(*decode.Compound); return ok }

func isSynth(v *decode.Value) bool {
	if s, ok := v.V.(scalar.Scalarable); ok {
		return s.ScalarFlags().IsSynthetic()
	}
	return false
}

func bufferRoot(v *decode.Value) *decode.Value {
	for v.Parent != nil && !v.IsRoot {
		v = v.Parent
	}
	return v
}

func innerRange(v *decode.Value) (int64, int64) {
	if v.IsRoot && v.Parent != nil {
		return 0, v.Range.Len
	}
	return v.Range.Start, v.Range.Len
}

// buildTree turns the `..` listing of a decoded root into a tree and reads every
// buffer (root readers) once.
func buildTree(prog string, input []byte, vals []any) (*tree, error) {
	t := &tree{prog: prog, input: input, bufs: map[*decode.Value][]byte{}, bits: map[*decode.Value]int64{}}
	for _, jv := range vals {
		dvv, ok := jv.(interface{ DecodeValue() *decode.Value })
		if !ok {
			return nil, fmt.Errorf("%T is not a decode value", jv)
		}
		v := dvv.DecodeValue()
		t.nodes = append(t.nodes, node{v: v, jq: jv, path: dsl.PathOf(v)})
	}
	if len(t.nodes) == 0 {
		return nil, fmt.Errorf("empty tree")
	}
	// the listing must be the pre-order of the tree
	i := 0
	var walk func(v *decode.Value) error
	walk = func(v *decode.Value) error {
		if i >= len(t.nodes) || t.nodes[i].v != v {
			return fmt.Errorf("`..` is not the pre-order of the decode tree at %s", dsl.PathOf(v))
		}
		i++
		if c, ok := v.V.(*decode.Compound); ok {
			for _, ch := range c.Children {
				if err := walk(ch); err != nil {
					return err
				}
			}
		}
		return nil
	}
	if err := walk(t.nodes[0].v); err != nil {
		return nil, err
	}
	for _, n := range t.nodes {
		br := bufferRoot(n.v)
		if _, ok := t.bufs[br]; ok {
			continue
		}
		bits, err := dsl.ReaderBits(br.RootReader)
		if err != nil {
			return nil, err
		}
		b := make([]byte, (len(bits)+7)/8)
		for i, on := range bits {
			if on {
				b[i/8] |= 1 << (7 - uint(i%8))
			}
		}
		t.bufs[br] = b
		t.bits[br] = int64(len(bits))
	}
	return t, nil
}

// expected lists the values displayed when node ni is displayed, in display order.
//
// at is the effective array_truncate: below the displayed value (never the displayed
// value itself) the element with index at of an array is replaced by one line
// "[at:len]: ..." and the remaining elements are not shown (doc/usage.md: "array_truncate
// - number of elements to show for arrays"); 0 shows everything.
func (t *tree) expected(ni int, at int) []expVal {
	var out []expVal
	top := t.nodes[ni].v
	var walk func(v *decode.Value, depth, rootDepth int)
	walk = func(v *decode.Value, depth, rootDepth int) {
		if v != top && v.IsRoot {
			rootDepth++
		}
		br := bufferRoot(v)
		s, n := innerRange(v)
		ev := expVal{path: dsl.PathOf(v), depth: depth, rootDepth: rootDepth, buf: t.bufs[br], bufBits: t.bits[br], start: s, n: n, leaf: !isCompound(v), synthetic: isSynth(v)}
		switch {
		case depth == 0:
			ev.prefix = ev.path
		case v.Parent != nil && isCompound(v.Parent) && v.Parent.V.(*decode.Compound).IsArray:
			ev.prefix = fmt.Sprintf("[%d]", v.Index)
		default:
			ev.prefix = v.Name
		}
		out = append(out, ev)
		if c, ok := v.V.(*decode.Compound); ok {
			for _, ch := range c.Children {
				if at > 0 && c.IsArray && ch.Index >= at {
					out = append(out, expVal{path: dsl.PathOf(ch) + " (truncation line)", prefix: fmt.Sprintf("[%d:%d]", ch.Index, len(c.Children)),
						depth: depth + 1, rootDepth: rootDepth, synthetic: true})
					break
				}
				walk(ch, depth+1, rootDepth)
			}
		}
	}
	walk(top, 0, 0)
	return out
}

// ---- configurations ------------------------------------------------------------

type treeCfg struct {
	fv fnVar
	o  Opt
}

// treeCfgs is the option product used on the trees.
func treeCfgs(lbs []int) []treeCfg {
	var out []treeCfg
	for _, fv := range fnVars() {
		for _, lb := range lbs {
			for _, ab := range addrBases {
				for j := 0; j < 20; j++ {
					o := Opt{LB: lb, AddrBase: ab, SizeBase: sizeBases[j%5], DB: fv.db, Verbose: -1, Color: (j/5)%2 == 1, Unicode: (j/10)%2 == 1, AT: []int{0, 1, 0, 2}[j%4]}
					out = append(out, treeCfg{fv, o})
				}
			}
		}
	}
	return out
}

type treeEnv struct {
	r    *core.Run
	x    *sess
	lbs  []int
	cfgs []treeCfg
	pos  []*interp.Options
	out  bytes.Buffer
}

func newTreeEnv(r *core.Run, x *sess, lbs []int) *treeEnv {
	e := &treeEnv{r: r, x: x, lbs: lbs, cfgs: treeCfgs(lbs)}
	e.pos = make([]*interp.Options, len(e.cfgs))
	byFn := map[string][]int{}
	for i, c := range e.cfgs {
		byFn[c.fv.fn] = append(byFn[c.fv.fn], i)
	}
	fns := make([]string, 0, len(byFn))
	for fn := range byFn {
		fns = append(fns, fn)
	}
	sort.Strings(fns)
	for _, fn := range fns {
		idxs := byFn[fn]
		opts := make([]Opt, len(idxs))
		for k, i := range idxs {
			opts[k] = e.cfgs[i].o
		}
		pos, err := optionsFor(x, treeOptProg(fn), opts)
		if err != nil {
			panic(fmt.Sprintf("c10: options for %s: %v", fn, err))
		}
		for k, i := range idxs {
			e.pos[i] = pos[k]
		}
	}
	return e
}

// effAT is the array_truncate in effect: the function's documented default unless passed.
func (c treeCfg) effAT() int {
	if c.o.AT > 0 {
		return c.o.AT
	}
	if c.fv.fn == "d" {
		return 50
	}
	return 0
}

func (c treeCfg) effDB() int {
	if c.fv.db >= 0 {
		return c.fv.db
	}
	return 0
}

func judgeTree(t *tree, ni int, c treeCfg, out string) []finding {
	vm := 0
	if fnVerbose(c.fv.fn) {
		vm = 1
	}
	return checkDump(out, c.o, vm, c.effDB(), t.expected(ni, c.effAT()))
}

func (e *treeEnv) mkCase(t *tree, ni int, c treeCfg) TreeCase {
	return TreeCase{Kind: "tree", Prog: t.prog, Input: fmt.Sprintf("%x", t.input), Path: t.nodes[ni].path, Fn: c.fv.fn, Opt: c.o}
}

// dump displays node ni with configuration ci through the prepared options.
func (e *treeEnv) dump(t *tree, ni int, ci int, exp []expVal) string {
	c := e.cfgs[ci]
	e.out.Reset()
	var err error
	pv, _ := core.Protect(func() { err = t.nodes[ni].jq.(interp.Display).Display(&e.out, e.pos[ci]) })
	if pv != nil {
		e.r.Violate("tree:panic", fmt.Sprintf("%s(%s) of %s of prog %s input %x panicked: %v", c.fv.fn, c.o, t.nodes[ni].path, t.prog, t.input, pv), e.mkCase(t, ni, c))
		return ""
	}
	if err != nil {
		e.r.Violate("tree:error", fmt.Sprintf("%s(%s) of %s of prog %s input %x failed: %v", c.fv.fn, c.o, t.nodes[ni].path, t.prog, t.input, err), e.mkCase(t, ni, c))
		return ""
	}
	out := e.out.String()
	vm := 0
	if fnVerbose(c.fv.fn) {
		vm = 1
	}
	for _, f := range checkDump(out, c.o, vm, c.effDB(), exp) {
		e.r.Violate(f.sig, fmt.Sprintf("%s(%s) of %s of prog %s input %x: %s", c.fv.fn, c.o, t.nodes[ni].path, t.prog, t.input, f.msg), e.mkCase(t, ni, c))
	}
	return out
}

// decodeProgs decodes a batch of programs with fq (jq decode) and returns the trees
// (nil where decode produced nothing).
func decodeProgs(x *sess, input []byte, progs []string) ([]*tree, error) {
	in := []any{}
	for _, b := range input {
		in = append(in, int(b))
	}
	ps := make([]any, len(progs))
	for i, p := range progs {
		ps[i] = p
	}
	var out []*tree
	var berr error
	_, err := x.eval(map[string]any{"input": in, "progs": ps}, decodeProg, func(v any, _ string) {
		a, _ := v.([]any)
		if len(a) == 0 || a[len(a)-1] == nil {
			out = append(out, nil)
			return
		}
		t, err := buildTree(progs[len(out)], input, a)
		if err != nil {
			berr = err
		}
		out = append(out, t)
	})
	if err == nil {
		err = berr
	}
	if err == nil && len(out) != len(progs) {
		err = fmt.Errorf("%d trees for %d programs", len(out), len(progs))
	}
	return out, err
}

// showcase programs for the pass through the real jq functions: nested buffers two
// deep, arrays, unaligned fields, synthetic values, a failing sub format, strings.
var showcase = []string{
	`[{"k":"u","n":"a","w":3},{"k":"rootstruct","n":"b","w":40,"d":"rev","b":[{"k":"u","n":"c","w":5},{"k":"rootraw","n":"d","w":16,"d":"not"},{"k":"rootarray","n":"e","w":21,"d":"id","b":[{"k":"u","n":"f","w":13},{"k":"raw","n":"g","w":8}]}]},{"k":"array","n":"h","b":[{"k":"u","n":"i","w":13},{"k":"s","n":"j","w":8}]}]`,
	`[{"k":"str","n":"a","w":8},{"k":"val","n":"b","w":7},{"k":"bool","n":"c"},{"k":"fmtlen","n":"d","w":13,"b":[{"k":"u","n":"e","w":8},{"k":"fail"}]},{"k":"fmtbuf","n":"f","w":16,"d":"id","b":[{"k":"raw","n":"g","w":3},{"k":"u","n":"h","w":13}]}]`,
	`[{"k":"seekabs","o":45},{"k":"raw","n":"a","w":3},{"k":"rootraw","n":"b","w":8,"d":"not"},{"k":"struct","n":"c","b":[{"k":"u","n":"d","w":1},{"k":"raw","n":"e","w":0}]}]`,
	`[{"k":"raw","n":"a","w":8}]`,
}

// runTreeReal: every configuration through the real d/dd/dv/ddv on nodes of the
// showcase trees (rotating), judged by the oracle and compared byte for byte with
// the prepared-options display of the same node.
func runTreeReal(r *core.Run, e *treeEnv, unit *int64) {
	trees, err := decodeProgs(e.x, dslInputs[0], showcase)
	if err != nil {
		panic(fmt.Sprintf("c10: showcase: %v", err))
	}
	type ref struct {
		t  *tree
		ni int
	}
	var nodes []ref
	for _, t := range trees {
		if t == nil {
			panic("c10: showcase program did not decode")
		}
		for ni := range t.nodes {
			nodes = append(nodes, ref{t, ni})
		}
	}
	const chunk = 200
	for lo := 0; lo < len(e.cfgs); lo += chunk {
		idx := *unit
		*unit++
		if !r.Mine(idx) {
			continue
		}
		if r.Expired() {
			r.NotExhaustive("deadline during the pass of tree displays through the jq functions")
			return
		}
		r.Case(idx, fmt.Sprintf("tree displays through jq functions, configurations %d..", lo))
		hi := min(lo+chunk, len(e.cfgs))
		var jq []any
		var refs []ref
		var cis []int
		var want []string
		for ci := lo; ci < hi; ci++ {
			for k := 0; k < 2; k++ {
				nr := nodes[(ci*7+k*13)%len(nodes)]
				if k == 0 {
					nr = nodes[0] // the whole first tree: deepest nesting
				}
				c := e.cfgs[ci]
				w := e.dump(nr.t, nr.ni, ci, nr.t.expected(nr.ni, c.effAT()))
				jq = append(jq, []any{nr.t.nodes[nr.ni].jq, c.fv.fn, c.o.JQ()})
				refs = append(refs, nr)
				cis = append(cis, ci)
				want = append(want, w)
			}
		}
		i := 0
		var errv any
		_, err := e.x.eval(map[string]any{"cases": jq}, treeRealProg, func(v any, printed string) {
			if _, isMarker := v.(int); !isMarker {
				errv = v
				return
			}
			if i >= len(refs) {
				return
			}
			nr, c, w := refs[i], e.cfgs[cis[i]], want[i]
			i++
			tc := e.mkCase(nr.t, nr.ni, c)
			if errv != nil {
				r.Violate("tree:error", fmt.Sprintf("%s(%s) of %s of prog %s failed: %v", c.fv.fn, c.o, tc.Path, tc.Prog, errv), tc)
				errv = nil
				return
			}
			for _, f := range judgeTree(nr.t, nr.ni, c, printed) {
				r.Violate(f.sig, fmt.Sprintf("%s(%s) of %s of prog %s input %s (jq call): %s", c.fv.fn, c.o, tc.Path, tc.Prog, tc.Input, f.msg), tc)
			}
			if w != "" && w != printed {
				r.Violate("tree:paths-differ", fmt.Sprintf("%s(%s) of %s of prog %s prints %q but displaying the same value with options(%s+opts) prints %q", c.fv.fn, c.o, tc.Path, tc.Prog, printed, fnDefaults[c.fv.fn], w), tc)
			}
		})
		r.Eval(int64(2 * i))
		r.Count("tree_dumps_through_jq_functions", int64(i))
		if err != nil {
			r.Violate("tree:driver-error", fmt.Sprintf("evaluation of tree displays stopped at case %d: %v", i, err), nil)
		} else if i != len(refs) {
			panic(fmt.Sprintf("c10: %d markers for %d cases", i, len(refs)))
		}
	}
	r.Section("tree-displays-through-jq-functions")
}

// runTrees: every value of every DSL tree (all programs up to maxOps ops) displayed
// with every configuration of e.cfgs.
func runTrees(r *core.Run, e *treeEnv, unit *int64, minOps, maxOps int, inputs [][]byte, section string, sel func(e *treeEnv, n int64, buf []int) []int) {
	runTreesOf(r, e, unit, minOps, inputs, section, sel, func(fn func(idx int64, p dsl.Prog) bool) int64 { return dsl.Enumerate(maxOps, 3, fn) })
}

// arrayFamily: arrays of k elements (leaves of w bits, structs of one leaf, arrays of two
// leaves), alone and inside a struct, for k around the array_truncate values passed
// (1, 2) and around the default of d (50): every element is displayed on its own (the
// displayed value is never truncated, whatever its index) and inside its parents (the
// element with index array_truncate is replaced by the truncation line).
func arrayFamily() []dsl.Prog {
	var out []dsl.Prog
	for _, kw := range [][2]int64{{2, 8}, {3, 8}, {4, 3}, {3, 13}, {49, 1}, {50, 1}, {51, 1}, {52, 1}} {
		k, w := kw[0], kw[1]
		for kind := 0; kind < 3; kind++ {
			if kind > 0 && k > 4 {
				continue
			}
			var body []dsl.Op
			for i := int64(0); i < k; i++ {
				switch kind {
				case 0:
					body = append(body, dsl.Op{K: "u", W: w})
				case 1:
					body = append(body, dsl.Op{K: "struct", Body: []dsl.Op{{K: "u", W: w}}})
				case 2:
					body = append(body, dsl.Op{K: "array", Body: []dsl.Op{{K: "u", W: w}, {K: "u", W: 2}}})
				}
			}
			arr := dsl.Op{K: "array", Body: body}
			out = append(out, dsl.Prog{arr}, dsl.Prog{{K: "u", W: 5}, {K: "struct", Body: []dsl.Op{arr}}})
		}
	}
	return out
}

func runArrayTrees(r *core.Run, e *treeEnv, unit *int64) {
	fam := arrayFamily()
	runTreesOf(r, e, unit, 1, dslInputs[:1], "array_truncate_trees", selAll, func(fn func(idx int64, p dsl.Prog) bool) int64 {
		for i, p := range fam {
			if !fn(int64(i), p) {
				break
			}
		}
		return int64(len(fam))
	})
}

func runTreesOf(r *core.Run, e *treeEnv, unit *int64, minOps int, inputs [][]byte, section string, sel func(e *treeEnv, n int64, buf []int) []int, enum func(fn func(idx int64, p dsl.Prog) bool) int64) {
	const batch = 64
	var progs []string
	var dumps, nodes, ntrees, failed, truncated int64
	var selbuf []int
	perValue := 0
	flush := func() bool {
		if len(progs) == 0 {
			return true
		}
		defer func() { progs = progs[:0] }()
		for _, in := range inputs {
			trees, err := decodeProgs(e.x, in, progs)
			if err != nil {
				r.Violate("tree:decode-driver", fmt.Sprintf("decoding DSL programs through jq failed: %v", err), nil)
				return true
			}
			for _, t := range trees {
				if t == nil {
					failed++
					continue
				}
				ntrees++
				nested := false
				for _, n := range t.nodes {
					nested = nested || (n.v.IsRoot && n.v.Parent != nil)
				}
				for ni := range t.nodes {
					nodes++
					exps := map[int][]expVal{}
					selbuf = sel(e, nodes, selbuf[:0])
					for _, ci := range selbuf {
						at := e.cfgs[ci].effAT()
						if _, ok := exps[at]; !ok {
							exps[at] = t.expected(ni, at)
						}
						e.dump(t, ni, ci, exps[at])
					}
					exp := t.expected(ni, 0)
					for at, x := range exps {
						if at > 0 && len(x) < len(exp) {
							truncated++
						}
					}
					dumps += int64(len(selbuf))
					perValue = len(selbuf)
					if len(exp) >= 3 || nested {
						r.Nontrivial("tree|" + t.prog + "|" + t.nodes[ni].path + "|" + fmt.Sprint(len(t.input)))
					}
				}
				if r.Expired() {
					return false
				}
				if ntrees%977 == 1 {
					r.Sample(map[string]any{"prog": t.prog, "input": fmt.Sprintf("%x", t.input), "values": len(t.nodes), "configurations_each": perValue})
				}
			}
		}
		return !r.Expired()
	}
	base := *unit
	cut := false
	total := enum(func(idx int64, p dsl.Prog) bool {
		if countOps(p) < minOps {
			return true
		}
		if !r.Mine(base + idx) {
			return true
		}
		r.Case(base+idx, "tree displays of prog "+p.String())
		progs = append(progs, p.String())
		if len(progs) >= batch {
			if !flush() {
				r.NotExhaustive("deadline during the DSL tree displays (" + section + ", simplest programs first)")
				cut = true
				return false
			}
		}
		return true
	})
	if !cut && !flush() {
		// the deadline passed during the last batch: it was displayed completely only if
		// flush went through all its trees, which it reports by returning true
		r.NotExhaustive("deadline during the DSL tree displays (" + section + ", simplest programs first)")
		cut = true
	}
	*unit += total
	r.Eval(dumps)
	r.Count(section+"_dumps", dumps)
	r.Count(section+"_values", nodes)
	r.Count(section+"_displays_with_truncation_line", truncated)
	r.Count(section+"_trees", ntrees)
	r.Count(section+"_programs_without_tree", failed)
	if !cut {
		r.Extra(section+"_programs_total", total)
	}
	r.Extra(section+"_configurations_per_value", perValue)
	r.Extra(section+"_configurations_total", len(e.cfgs))
	if !cut {
		r.Section(section)
	}
}

func dslPath(v *decode.Value) string { return dsl.PathOf(v) }

func countOps(p []dsl.Op) int {
	n := 0
	for _, o := range p {
		n += 1 + countOps(o.Body)
	}
	return n
}

// selAll: every (function variant, line_bytes, addrbase); the 20 (sizebase, colour,
// unicode) combinations rotate over the values.
func selAll(e *treeEnv, n int64, buf []int) []int {
	for base := 0; base < len(e.cfgs)/20; base++ {
		buf = append(buf, base*20+int((n*7+int64(base)*3)%20))
	}
	return buf
}

// selReduced (3-op programs, thorough): every function variant x line_bytes {1,3,8,16},
// addrbase and the 20 other combinations rotating.
func selReduced(e *treeEnv, n int64, buf []int) []int {
	nfv := len(fnVars())
	nlb := len(e.lbs)
	for fi := 0; fi < nfv; fi++ {
		for li, lb := range e.lbs {
			if lb != 1 && lb != 3 && lb != 8 && lb != 16 {
				continue
			}
			ai := int((n + int64(fi) + int64(li)*2) % 5)
			base := (fi*nlb+li)*5 + ai
			buf = append(buf, base*20+int((n*7+int64(base)*3)%20))
		}
	}
	return buf
}
