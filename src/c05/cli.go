package c05

// Command line path: the same conversions through fq's Main (argument parsing,
// option stack, raw output of binaries on a non-terminal stdout).

import (
	"bytes"
	"encoding/hex"
	"encoding/json"
	"fmt"
	"os"
	"path/filepath"
	"strings"
	"time"

	"github.com/wader/fq/internal/verif/core"
	"github.com/wader/fq/internal/verif/dsl"
	"github.com/wader/fq/internal/verif/fqrun"
	"github.com/wader/fq/pkg/scalar"
)

// CLICase is one replayable command line run with its expected raw stdout.
type CLICase struct {
	Args     []string `json:"args"`
	File     string   `json:"file,omitempty"`  // repo relative corpus file (name in.bin in the run)
	Input    string   `json:"input,omitempty"` // or hex content
	Trunc    int      `json:"trunc,omitempty"`
	Expect   string   `json:"expect_hex,omitempty"` // expected stdout (hex) when small
	ExpectIs string   `json:"expect_is,omitempty"`  // "file": stdout must equal the file
	Format   string   `json:"bits_format,omitempty"`
	Leaves   []string `json:"leaves_hex,omitempty"` // expected bits of the raw leaves (right padded bytes), with bit counts
	LeafBits []int64  `json:"leaf_bits,omitempty"`
}

const walkDef = `def walkdv: ., (.[]? | select(_exttype == "decode_value") | walkdv); `

func runFQ(args []string, data []byte) fqrun.Result {
	return fqrun.Run(fqrun.Opts{Args: args, Files: map[string][]byte{"in.bin": data}, StdinIsTerminal: true})
}

func progOpt(p string) string {
	b, _ := json.Marshal(p)
	return "prog=" + string(b)
}

// expectedConcat: tobytes of every non synthetic value in walk order.
func expectedConcat(t *Tree) ([]byte, bool) {
	recs, err := ParseRecs(t.Out)
	if err != nil {
		return nil, false
	}
	var st Stats
	exps := Resolve(t, recs, &st)
	var out []byte
	for i := range recs {
		e := &exps[i]
		if e.Synthetic {
			continue
		}
		if !e.OK {
			return nil, false
		}
		out = append(out, e.Buf.Extract(e.S, e.N, (8-e.N%8)%8).B...)
	}
	return out, true
}

func checkStdout(r *core.Run, sig, what string, c *CLICase, data []byte, want []byte) {
	res := runFQ(c.Args, data)
	r.Count("cli_runs", 1)
	if res.Panic != nil || res.Exit != 0 || !bytes.Equal(res.Stdout, want) {
		r.Violate(sig, fmt.Sprintf("%s: fq %s: exit %d panic %v, stdout %d bytes %x, expected %d bytes %x; stderr %q", what, strings.Join(c.Args, " "), res.Exit, res.Panic,
			len(res.Stdout), firstN(res.Stdout, 24), len(want), firstN(want, 24), trunc(string(res.Stderr), 200)), map[string]any{"cli": c})
	}
}

// runCLI: for every DSL program with <= rawOps ops on input 0 (<= sliceOps ops: both
// inputs): raw stdout of `walkdv | try tobytes` equals the concatenation of the
// harness' byte forms; for programs with <= sliceOps ops the raw output of the root of
// a decode of a byte/bit sliced binary equals the slice; for programs with <= fmtOps
// ops: -o bits_format=F for every F.
func runCLI(r *core.Run, until time.Time, rawOps, sliceOps, fmtOps int) bool {
	w, err := NewWalker(r, C05Driver)
	if err != nil {
		panic(err)
	}
	defer w.Close()
	complete := true
	dsl.Enumerate(rawOps, 3, func(idx int64, p dsl.Prog) bool {
		if !r.Mine(idx) {
			return true
		}
		if r.Expired() || time.Now().After(until) {
			r.NotExhaustive("deadline (or this part's share of it) during the command line part")
			complete = false
			return false
		}
		ps := p.String()
		r.Case(idx, "cli "+ps)
		nops := countOps(p)
		for ii, in := range Inputs {
			if ii > 0 && nops > sliceOps {
				continue // second input: programs with <= sliceOps ops
			}
			c := TreeCase{Kind: "dsl", Prog: ps, Input: hex.EncodeToString(in)}
			t, _ := BuildDSL(c)
			w.EvalTrees([]*Tree{t}, false, 0)
			want, ok := expectedConcat(t)
			if !ok {
				continue // reported by the tree part
			}
			cc := &CLICase{Args: []string{"-d", "vdsl", "-o", progOpt(ps), walkDef + "walkdv | try tobytes", "in.bin"}, Input: c.Input, Expect: hex.EncodeToString(want)}
			checkStdout(r, "cli:raw-stdout:all-values", c.String(), cc, in, want)
			if ii == 0 && nops <= sliceOps {
				cc := &CLICase{Args: []string{"-d", "bytes", "tobytes", "in.bin"}, Input: c.Input, Expect: c.Input}
				checkStdout(r, "cli:raw-stdout:bytes-format", c.String(), cc, in, in)
				cc = &CLICase{Args: []string{"-d", "bytes", "--arg", "p", ps, `tobytes[1:] | decode("vdsl"; {prog: $p}) | tobytes`, "in.bin"}, Input: c.Input, Expect: hex.EncodeToString(in[1:])}
				checkStdout(r, "cli:raw-stdout:root-of-sliced-decode", c.String(), cc, in, in[1:])
				cc = &CLICase{Args: []string{"-d", "bytes", "--arg", "p", ps, `tobits[3:] | decode("vdsl"; {prog: $p}) | tobits`, "in.bin"}, Input: c.Input}
				want := BitBufFromBytes(in).Extract(3, int64(len(in))*8-3, 0).B
				cc.Expect = hex.EncodeToString(want)
				checkStdout(r, "cli:raw-stdout:root-of-bit-sliced-decode", c.String(), cc, in, want)
			}
			if nops <= fmtOps {
				cliFormats(r, t, in)
			}
		}
		return true
	})
	return complete
}

// cliFormats: `fq -o bits_format=F -c '[walkdv | select(type=="string") | tovalue]'`.
func cliFormats(r *core.Run, t *Tree, in []byte) {
	recs, err := ParseRecs(t.Out)
	if err != nil {
		return
	}
	var st Stats
	exps := Resolve(t, recs, &st)
	// string typed values in walk order; raw ones carry an expectation
	type leaf struct {
		raw  bool
		bits BitBuf
	}
	var leaves []leaf
	cc := CLICase{Input: t.Case.Input}
	for i := range recs {
		if recs[i].Type != "string" {
			continue
		}
		l := leaf{}
		if bb, ok := recs[i].DV.V.(*scalar.BitBuf); ok && bb.Sym == nil && exps[i].OK {
			l.raw = true
			l.bits = exps[i].Buf.Extract(exps[i].S, exps[i].N, 0)
		}
		leaves = append(leaves, l)
		if l.raw {
			cc.Leaves = append(cc.Leaves, hex.EncodeToString(l.bits.B))
			cc.LeafBits = append(cc.LeafBits, l.bits.N)
		} else {
			cc.Leaves = append(cc.Leaves, "")
			cc.LeafBits = append(cc.LeafBits, -1)
		}
	}
	for _, f := range BitsFormats {
		c := cc
		c.Format = f
		c.Args = []string{"-d", "vdsl", "-o", progOpt(t.Case.Prog), "-o", "bits_format=" + f, "-c", walkDef + `[walkdv | select(type == "string") | tovalue]`, "in.bin"}
		if why := judgeFormatRun(&c, in); why != "" {
			r.Violate("cli:bits_format:"+f, fmt.Sprintf("%s: fq %s: %s", t.Case, strings.Join(c.Args, " "), why), map[string]any{"cli": &c})
		}
		r.Count("cli_runs", 1)
	}
}

func judgeFormatRun(c *CLICase, in []byte) string {
	res := runFQ(c.Args, in)
	if res.Panic != nil || res.Exit != 0 {
		return fmt.Sprintf("exit %d panic %v stderr %q", res.Exit, res.Panic, trunc(string(res.Stderr), 200))
	}
	var got []any
	if err := json.Unmarshal(res.Stdout, &got); err != nil {
		return fmt.Sprintf("stdout is not a JSON array: %v: %q", err, trunc(string(res.Stdout), 200))
	}
	if len(got) != len(c.Leaves) {
		return fmt.Sprintf("%d string values, the tree has %d", len(got), len(c.Leaves))
	}
	for i, g := range got {
		if c.LeafBits[i] < 0 {
			continue
		}
		right, _ := hex.DecodeString(c.Leaves[i])
		n := c.LeafBits[i]
		left := BitBuf{B: right, N: n}.Extract(0, n, (8-n%8)%8).B
		v := g
		switch c.Format {
		case "byte_array":
			// JSON numbers arrive as float64
		case "string", "truncate":
			// JSON output cannot carry bytes that are not UTF-8: compared after the same
			// replacement (one U+FFFD per invalid byte)
			s, ok := g.(string)
			if !ok {
				return fmt.Sprintf("leaf %d is %T", i, g)
			}
			lim := len(right)
			if c.Format == "truncate" && lim > 1024 {
				lim = 1024
			}
			if s != lossy(right[:lim]) && s != lossy(firstN(left, lim)) {
				return fmt.Sprintf("leaf %d of %d bits renders as %q, its bytes are %x", i, n, s, right)
			}
			continue
		}
		if why := checkRender(c.Format, v, right, left, n); why != "" {
			return fmt.Sprintf("leaf %d of %d bits renders as %s: %s", i, n, short(g), why)
		}
	}
	return ""
}

func lossy(b []byte) string { return string([]rune(string(b))) }

// corpusCLI: `fq -d F tobytes file` writes the file; with an explicit format also the
// first leaf, the last leaf and the first value that is not byte aligned.
func corpusCLI(r *core.Run, t *Tree) {
	recs, err := ParseRecs(t.Out)
	if err != nil {
		return
	}
	c := &CLICase{File: t.Case.File, ExpectIs: "file"}
	expr := "tobytes"
	want := append([]byte{}, t.Data...)
	if t.Case.Format != "probe" {
		var st Stats
		exps := Resolve(t, recs, &st)
		pick := map[string]int{}
		for i := range recs {
			e := &exps[i]
			if !e.OK || e.Synthetic || len(recs[i].Path) == 0 || isCompound(recs[i].DV) || e.N == 0 {
				continue
			}
			if _, ok := pick["first"]; !ok {
				pick["first"] = i
			}
			pick["last"] = i
			if _, ok := pick["unaligned"]; !ok && (e.N%8 != 0 || e.S%8 != 0) {
				pick["unaligned"] = i
			}
		}
		for _, k := range []string{"first", "last", "unaligned"} {
			i, ok := pick[k]
			if !ok {
				continue
			}
			pj, err := json.Marshal(recs[i].Path)
			if err != nil {
				continue
			}
			expr += ", (getpath(" + string(pj) + ") | tobytes)"
			e := &exps[i]
			want = append(want, e.Buf.Extract(e.S, e.N, (8-e.N%8)%8).B...)
		}
		c.ExpectIs = ""
		if len(want) <= 4096 {
			c.Expect = hex.EncodeToString(want)
		}
	}
	c.Args = []string{"-d", t.Case.Format}
	for _, k := range sortedKeys(t.Case.Opts) {
		c.Args = append(c.Args, "-o", fmt.Sprintf("%s=%v", k, t.Case.Opts[k]))
	}
	c.Args = append(c.Args, expr, "in.bin")
	checkStdout(r, "cli:corpus:raw-stdout:"+t.Case.Format, t.Case.String(), c, t.Data, want)
}

func replayCLI(r *core.Run, c *CLICase) bool {
	var data []byte
	if c.File != "" {
		b, err := os.ReadFile(filepath.Join(r.Repo, c.File))
		if err != nil {
			fmt.Println(err)
			return false
		}
		data = b
	} else {
		data, _ = hex.DecodeString(c.Input)
	}
	fmt.Printf("  fq %s   (in.bin: %d bytes)\n", strings.Join(c.Args, " "), len(data))
	if c.Format != "" {
		why := judgeFormatRun(c, data)
		fmt.Printf("  %s\n", why)
		return why != ""
	}
	res := runFQ(c.Args, data)
	var want []byte
	switch {
	case c.ExpectIs == "file":
		want = data
	case c.Expect != "" || c.File == "":
		want, _ = hex.DecodeString(c.Expect)
	default:
		fmt.Println("  expectation too large for the replay file; stdout:", len(res.Stdout), "bytes")
		return false
	}
	fmt.Printf("  exit %d panic %v\n  stdout   %d bytes %x\n  expected %d bytes %x\n", res.Exit, res.Panic, len(res.Stdout), firstN(res.Stdout, 64), len(want), firstN(want, 64))
	return res.Exit != 0 || res.Panic != nil || !bytes.Equal(res.Stdout, want)
}
