//go:build verif

package cli

// VerifC20SignalBridge starts the operating system side of interrupt delivery exactly as
// cli.Main does (newStandardOS: the goroutine that turns SIGINT into a token on
// OS.InterruptChan) and returns the channel the interpreter reads from and a stop function.
func VerifC20SignalBridge() (interruptChan chan struct{}, stop func()) {
	o := newStandardOS()
	return o.InterruptChan(), func() { _ = o.Close() }
}
