package c08

// Narrow names for the disagreements that were traced to a root cause (each is
// listed in /verif/known_findings.jsonl with its witness). A disagreement that
// matches none of them keeps the generic `diff:` signature and alarms.

import (
	"fmt"
	"math"
	"strings"
)

func only(c []string, s string) bool { return len(c) == 1 && c[0] == s }

func inSet(s string, set ...string) bool {
	for _, x := range set {
		if s == x {
			return true
		}
	}
	return false
}

func classify(it *item, q qnode, par any, l, r res, lc, rc []string) (sig, why string) {
	vt := it.rhsType
	lOK := !l.err && len(lc) == 1 // one output, no error
	rOK := !r.err && len(rc) == 1
	lErr := l.err && len(lc) == 0 // error only
	rErr := r.err && len(rc) == 0
	_, parIsNum := par.(int)
	if f, ok := par.(float64); ok {
		parIsNum = true
		_ = f
	}
	switch {
	case q.text == "length" && vt == "number" && lOK && rOK && strings.HasPrefix(lc[0], "-") && lc[0] == "-"+rc[0]:
		return "length-of-negative-number-decode-value", "length of a negative number must be its absolute value"

	case vt == "string" && it.isDV && inSet(q.text, ".[$i]", ".[$i]?", "first", "last", "nth(1)") && lOK && rOK && lc[0] == `""` && rc[0] == "null":
		return "string-decode-value-index-outside-gives-empty-string", "an index outside a string gives null on the JSON string"

	case vt == "string" && it.isDV && q.text == "getpath([$i])" && parIsNum && lOK && rErr:
		return "string-decode-value-getpath-number-succeeds", "getpath with a number is an error on a JSON string"

	case q.text == "{(.): 1}" && it.isDV && inSet(vt, "number", "boolean", "null") && lOK && rErr:
		return "scalar-decode-value-as-object-key-is-stringified", "an object key that is not a string is an error for the JSON value"

	case q.text == "abs" && vt == "number" && it.isDV && lErr && rOK:
		return "abs-rejects-number-decode-value", "abs works on the JSON number"

	case strings.HasSuffix(q.text, `| {"a":1,"aBc":2,"sym":3,"12":4} | has($x)`) && vt == "string" && it.isDV && lErr && rOK:
		return "has-rejects-string-decode-value-as-key-argument", "has(key) works with the JSON string"

	case q.text == "has($i)" && vt == "array" && it.isDV && lErr && rOK:
		if f, ok := par.(float64); ok && f != math.Trunc(f) {
			return "has-fractional-index-on-array-decode-value", "has(1.5) truncates the index on a JSON array"
		}

	case vt == "null" && it.isDV && len(lc) == 0 && (l.err || q.text == ".[$i]?") && rOK &&
		inSet(q.text, "isnan"):
		return "null-decode-value-isnan-is-an-error", "isnan of null is false for the JSON null; the gojq fork's isnan converts a JQValue with tonumber, which is an error for null"

	case vt == "null" && it.isDV && len(lc) == 0 && (l.err || q.text == ".[$i]?") && rOK &&
		inSet(q.text, ".[$i]", ".[$i]?", ".[$a:$b]", "first", "last", "nth(1)", "getpath([$i])", "has($i)", "has($k)"):
		return "null-decode-value-errors-where-null-gives-a-result", "null is indexable/sliceable (gives null), has() gives false"

	case vt == "null" && it.isDV && lErr && rOK && inSet(q.text, `. as $x | "abcdef" | .[$x:]`, `. as $x | [1,[2]] | tojson | .[$x:]`, `. as $x | [10,20,30] | .[$x:]`, `. as $x | [10,20,30] | .[:$x]`):
		return "null-decode-value-as-slice-bound-is-an-error", "a null slice bound means open ended"

	case vt == "number" && canon(it.rhs, cmode{}) == "-9223372036854775808" && inSet(q.text, "-(.)", ". * $p", "$p * .", ". / $p", "length") && lOK && rOK && lc[0] == "9223372036854775808" && rc[0] == "-9223372036854775808":
		return "min-int64-negation-wraps-on-the-json-number", "negating the smallest 64 bit integer: the decode value (big integer) gives 2^63, the JSON value (machine integer) wraps around"

	case q.text == `. as $x | [1,"a",null,"sym",5,[1]] | index($x)` && vt == "array" && it.isDV && lOK && rOK && lc[0] != rc[0] && lc[0] == elementIndex([]any{1, "a", nil, "sym", 5, []any{1}}, it.rhs):
		return "array-decode-value-as-index-argument-is-not-searched-as-subarray", "index(array) searches the subarray for the JSON array"
	}
	kind := "value"
	switch {
	case l.err != r.err:
		kind = "error-presence"
	case len(lc) != len(rc):
		kind = "output-count"
	}
	where := "value"
	if !it.isDV {
		where = "carrier"
	}
	p := ""
	if q.par != "" {
		p = ":" + paramClass(par, it)
	}
	return fmt.Sprintf("diff:%s:%s:%s:%s%s", kind, where, vt, q.text, p), "results differ"
}

// elementIndex: what index(x) gives when an array argument is looked for as one ELEMENT
// (the behaviour of the recorded finding): the first i with hay[i] == x, else null.
func elementIndex(hay []any, x any) string {
	want := canon(x, cmode{})
	for i, h := range hay {
		if canon(h, cmode{}) == want {
			return fmt.Sprint(i)
		}
	}
	return "null"
}
