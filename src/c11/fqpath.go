package c11

import (
	"fmt"

	"github.com/wader/fq/internal/verif/core"
	"github.com/wader/fq/internal/verif/fqrun"
	"github.com/wader/gojq"
)

// The path every command line and REPL expression takes inside fq:
// text -> _query_fromstring (gojq AST -> JSON -> jq value) -> jq level
// transformation -> _query_tostring (jq value -> JSON -> gojq AST -> text).
// Driven through one interpreter session with a driver program compiled once.
const fqPathDriver = `
( { slurps: {help: "_help_slurp", repl: "_cli_repl_error", slurp: "_cli_slurp_error"}
  , catch_query: _query_func("_cli_eval_on_expr_error")
  , output_query: _query_func("_cli_display")
  } as $cli
| { slurps: {repl: "_repl_slurp", help: "_help_slurp", slurp: "_slurp"}
  , input_query: (_query_ident | _query_iter)
  , catch_query: _query_func("_repl_on_expr_error")
  , output_query: _query_func("_repl_display")
  } as $repl
| .[]
| [ try (_query_fromstring | _query_tostring) catch {e: tostring}
  , try _query_fromtostring(.) catch {e: tostring}
  , try _eval_query_rewrite($cli + {input_query: _query_null}) catch {e: tostring}
  , try _eval_query_rewrite($cli + {input_query: _query_func("inputs")}) catch {e: tostring}
  , try _eval_query_rewrite($cli + {input_query: (_query_func("inputs") | _query_array)}) catch {e: tostring}
  , try _eval_query_rewrite($repl) catch {e: tostring}
  ]
)`

var fqPathSession *fqrun.Session

func fqSession() *fqrun.Session {
	if fqPathSession == nil {
		s, err := fqrun.NewSession(nil)
		if err != nil {
			panic(err)
		}
		fqPathSession = s
	}
	return fqPathSession
}

// fqPathBatch checks a batch of parser-accepted programs through the session.
func fqPathBatch(r *core.Run, batch []item) []viol {
	var vs []viol
	s := fqSession()
	in := make([]any, len(batch))
	for i, it := range batch {
		in[i] = it.text
	}
	outs, err := s.Eval(in, fqPathDriver)
	if err != nil || len(outs) != len(batch) {
		return []viol{{sig: "fqpath:driver-failed", what: fmt.Sprintf("driver over %d programs (first %q) returned %d rows, error %v", len(batch), batch[0].text, len(outs), err)}}
	}
	for i, it := range batch {
		for _, v := range fqPathRow(it, outs[i]) {
			v.prog = it.text
			vs = append(vs, v)
		}
		if r != nil {
			r.Eval(6)
		}
	}
	return vs
}

func fqPathRow(it item, out any) (vs []viol) {
	row, ok := out.([]any)
	if !ok || len(row) != 6 {
		return []viol{{sig: "fqpath:driver-row", what: fmt.Sprintf("program %q: row %v", it.text, out)}}
	}
	q0, perr := gojq.Parse(it.text)
	if perr != nil {
		return nil
	}
	t1 := q0.String()
	for j, name := range []string{"fromstring-tostring", "fromtostring"} {
		got, isStr := row[j].(string)
		if !isStr {
			vs = append(vs, viol{sig: "fqpath:" + name + ":error:" + skelTop(it.skel), what: fmt.Sprintf("program %q: _query_%s fails: %v", it.text, name, row[j])})
		} else if got != t1 {
			vs = append(vs, viol{sig: "fqpath:" + name + ":text:" + textDiffSig(t1, got), what: fmt.Sprintf("program %q: tree prints directly as %q, through fq's AST->JSON->AST path (%s) as %q", it.text, t1, name, got)})
		}
	}
	for j, w := range wrapSpecs {
		got, isStr := row[2+j].(string)
		if !isStr {
			vs = append(vs, viol{sig: "wrap:" + w.name + ":error:" + skelTop(it.skel), what: fmt.Sprintf("program %q: _eval_query_rewrite (%s) fails: %v", it.text, w.name, row[2+j])})
			continue
		}
		if v := checkWrapText(it.text, w, got); v != nil {
			vs = append(vs, *v)
		}
	}
	return vs
}

func runFqPath(r *core.Run, levels []level) bool {
	const batchN = 1000
	for _, l := range levels {
		var batch []item
		var n int64
		seen := map[uint64]struct{}{}
		flush := func() {
			if len(batch) == 0 {
				return
			}
			vs := fqPathBatch(r, batch)
			for _, v := range vs {
				report(r, "fqpath", item{v.prog, ""}, "", []viol{v})
			}
			if n == 0 {
				r.Sample(map[string]any{"oracle": "fq AST->JSON->AST path and rewrite shape", "level": l.name, "program": batch[0].text})
			}
			n += int64(len(batch))
			batch = batch[:0]
		}
		done := l.each(r, func(it item) bool {
			h := hashText(it.text)
			if !l.mine(r, h) {
				return true
			}
			if _, ok := seen[h]; ok {
				return true
			}
			seen[h] = struct{}{}
			if _, err := gojq.Parse(it.text); err != nil {
				return true
			}
			batch = append(batch, it)
			if len(batch) >= batchN {
				if r.Expired() {
					return false
				}
				flush()
			}
			return true
		})
		if done {
			flush()
		}
		r.Count("fqpath_programs_"+l.name, n)
		if !done {
			r.NotExhaustive("deadline: fq AST->JSON->AST path level " + l.name + " not finished")
			return false
		}
		sectionDone(r, "fqpath:"+l.name)
		r.Logf("fqpath %s: programs=%d", l.name, n)
	}
	return true
}
