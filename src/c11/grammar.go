package c11

import (
	"strconv"
	"strings"
)

// Grammar-directed exhaustive generator of jq program texts.
//
// A program is a derivation tree over the productions below. The *size* of a
// program is the number of constructs (operators, keyword forms, brackets,
// suffixes, directives) applied; leaves are atoms (literal text snippets, size 0).
// The productions follow parser.go.y of the gojq fork, deliberately
// over-approximated (two main categories only: query and term) – whatever
// gojq.Parse rejects is counted and dropped by the caller.

type cat int

const (
	catQ cat = iota // query / expr position
	catT            // term position
	catP            // bind pattern (atoms only)
)

// kind of value a hole prefers when only one atom is tried per hole
type kind int

const (
	kNum kind = iota
	kPath
	kGen
	kCond
	kStr
	kAny
)

type hole struct {
	cat   cat
	kind  kind
	scope []string // atoms that come into scope inside this hole (bound variable, defined function, label)
	// body of a definition of f: calls of an outer f are not offered here, they
	// would be calls of the function being defined (unbounded recursion)
	defBody bool
}

type prod struct {
	id    string
	cat   cat // catQ: usable in Q holes only; catT: usable in T and Q holes
	parts []string
	holes []hole
	sem   bool // part of the semantic (CLI vs direct evaluation) enumeration
	root  bool // directive: only as the outermost construct
	core  bool // reduced set: one binary operator per precedence level, one construct per kind
	mini  bool // smallest set used for the deepest semantic level
}

var coreOps = map[string]bool{"|": true, ",": true, "//": true, "=": true, "|=": true, "or": true, "and": true, "==": true, "<": true, "+": true, "-": true, "*": true, "%": true}
var miniOps = map[string]bool{"|": true, ",": true, "//": true, "=": true, "or": true, "and": true, "==": true, "+": true, "*": true}
var miniIDs = map[string]bool{"def0": true, "defv": true, "as": true, "label": true, "neg": true, "paren": true, "array": true, "opt": true, "try": true, "trycatch": true, "if": true, "reduce": true, "foreach2": true, "first": true, "path": true, "interp": true, "objid": true, "idx": true, "dotname": true, "import": true}
var nonCoreIDs = map[string]bool{"pos": true, "spdotname": true, "slicefrom": true, "sliceto": true, "dslicefrom": true, "dsliceto": true, "dotidx": true, "dotiter": true, "undef1": true, "modcall": true, "objfmt": true, "objtrail": true, "objloc": true, "objvar": true, "objinterpkeyonly": true, "fmtjson": true, "select": true, "ifelifelse": true, "dstrq": true, "dotstrq": true, "moduleempty": true, "import2": true, "importemptypath": true, "includeemptypath": true, "includemeta": true, "importmissing": true}

type atom struct {
	text string
	sem  bool
}

// item is one generated text with its construct skeleton.
type item struct {
	text string
	skel string
}

func q(k kind, scope ...string) hole { return hole{cat: catQ, kind: k, scope: scope} }
func t(k kind, scope ...string) hole { return hole{cat: catT, kind: k, scope: scope} }
func p() hole                        { return hole{cat: catP} }

var binOps = []string{"|", ",", "//", "=", "|=", "+=", "-=", "*=", "/=", "%=", "//=", "or", "and", "==", "!=", "<", "<=", ">", ">=", "+", "-", "*", "/", "%"}

func isUpdateOp(op string) bool {
	switch op {
	case "=", "|=", "+=", "-=", "*=", "/=", "%=", "//=":
		return true
	}
	return false
}

func buildProds() []prod {
	var ps []prod
	add := func(id string, c cat, sem bool, parts []string, holes ...hole) {
		if len(parts) != len(holes)+1 {
			panic("bad production " + id)
		}
		ps = append(ps, prod{id: id, cat: c, parts: parts, holes: holes, sem: sem})
	}
	for _, op := range binOps {
		lk, rk := kNum, kNum
		if isUpdateOp(op) {
			lk = kPath
		}
		if op == "and" || op == "or" || op == "//" {
			lk = kCond
		}
		sp := " " + op + " "
		if op == "," {
			sp = ", "
		}
		add("op"+op, catQ, true, []string{"", sp, ""}, q(lk), q(rk))
	}
	// function definitions: plain, closure parameter, $ parameter, both
	body := func(scope ...string) hole { h := q(kNum, scope...); h.defBody = true; return h }
	add("def0", catQ, true, []string{"def f: ", "; ", ""}, body(), q(kNum, "f"))
	add("defc", catQ, true, []string{"def f(g): ", "; ", ""}, body("g"), q(kNum, "f(.a)"))
	add("defv", catQ, true, []string{"def f($a): ", "; ", ""}, body("$a"), q(kNum, "f(7)"))
	add("defcv", catQ, true, []string{"def f(g; $a): ", "; ", ""}, body("g", "$a"), q(kNum, "f(.a; 7)"))
	// binds
	add("as", catQ, true, []string{"", " as ", " | ", ""}, t(kGen), p(), q(kNum, "$x"))
	add("asalt", catQ, true, []string{"", " as ", " ?// ", " | ", ""}, t(kGen), p(), p(), q(kNum, "$x"))
	add("label", catQ, true, []string{"label $l | ", ""}, q(kGen, "break $l"))
	// terms
	add("neg", catT, true, []string{"-", ""}, t(kNum))
	add("pos", catT, false, []string{"+", ""}, t(kNum))
	add("paren", catT, true, []string{"(", ")"}, q(kNum))
	add("array", catT, true, []string{"[", "]"}, q(kGen))
	add("opt", catT, true, []string{"", "?"}, t(kPath))
	add("iter", catT, true, []string{"", "[]"}, t(kPath))
	add("idx", catT, true, []string{"", "[", "]"}, t(kPath), q(kNum))
	add("slice", catT, true, []string{"", "[", ":", "]"}, t(kPath), q(kNum), q(kNum))
	add("slicefrom", catT, false, []string{"", "[", ":]"}, t(kPath), q(kNum))
	add("sliceto", catT, false, []string{"", "[:", "]"}, t(kPath), q(kNum))
	add("dotname", catT, true, []string{"", ".a"}, t(kPath))
	add("spdotname", catT, false, []string{"", " .a"}, t(kPath))
	add("dotstr", catT, true, []string{"", ".\"a b\""}, t(kPath))
	add("dotstrq", catT, false, []string{"", ".\"a\\(", ")\""}, t(kPath), q(kNum))
	add("dotidx", catT, false, []string{"", ".[", "]"}, t(kPath), q(kNum))
	add("dotiter", catT, false, []string{"", ".[]"}, t(kPath))
	add("didx", catT, true, []string{".[", "]"}, q(kNum))
	add("dslice", catT, true, []string{".[", ":", "]"}, q(kNum), q(kNum))
	add("dslicefrom", catT, false, []string{".[", ":]"}, q(kNum))
	add("dsliceto", catT, false, []string{".[:", "]"}, q(kNum))
	add("dstrq", catT, false, []string{".\"a\\(", ")\""}, q(kNum))
	add("if", catT, true, []string{"if ", " then ", " end"}, q(kCond), q(kNum))
	add("ifelse", catT, true, []string{"if ", " then ", " else ", " end"}, q(kCond), q(kNum), q(kNum))
	add("ifelif", catT, true, []string{"if ", " then ", " elif ", " then ", " end"}, q(kCond), q(kNum), q(kCond), q(kNum))
	add("ifelifelse", catT, false, []string{"if ", " then ", " elif ", " then ", " else ", " end"}, q(kCond), q(kNum), q(kCond), q(kNum), q(kNum))
	add("try", catT, true, []string{"try ", ""}, q(kPath))
	add("trycatch", catT, true, []string{"try ", " catch ", ""}, q(kPath), q(kNum))
	add("reduce", catT, true, []string{"reduce ", " as ", " (", "; ", ")"}, q(kGen), p(), q(kNum), q(kNum, "$x"))
	add("foreach2", catT, true, []string{"foreach ", " as ", " (", "; ", ")"}, q(kGen), p(), q(kNum), q(kNum, "$x"))
	add("foreach3", catT, true, []string{"foreach ", " as ", " (", "; ", "; ", ")"}, q(kGen), p(), q(kNum), q(kNum, "$x"), q(kNum, "$x"))
	// calls
	add("first", catT, true, []string{"first(", ")"}, q(kGen))
	add("select", catT, false, []string{"select(", ")"}, q(kCond))
	add("path", catT, true, []string{"path(", ")"}, q(kPath))
	add("errorf", catT, true, []string{"error(", ")"}, q(kNum))
	add("limit", catT, true, []string{"limit(", "; ", ")"}, q(kNum), q(kGen))
	add("undef1", catT, false, []string{"g1(", ")"}, q(kNum))
	add("modcall", catT, false, []string{"a::b(", "; ", ")"}, q(kNum), q(kNum))
	// strings and formats
	add("interp", catT, true, []string{"\"a\\(", ")b\""}, q(kNum))
	add("interp2", catT, true, []string{"\"\\(", ")\\(", ")\""}, q(kNum), q(kStr))
	add("fmtinterp", catT, true, []string{"@base64 \"x\\(", ")\""}, q(kStr))
	add("fmtjson", catT, false, []string{"@json \"\\(", ")\\n\""}, q(kNum))
	add("fmtpipe", catT, true, []string{"", " | @text"}, q(kNum))
	// objects, all key forms
	add("objid", catT, true, []string{"{a: ", "}"}, q(kNum))
	add("objstr", catT, true, []string{"{\"a b\": ", "}"}, q(kNum))
	add("objq", catT, true, []string{"{(", "): ", "}"}, q(kStr), q(kNum))
	add("objinterp", catT, true, []string{"{\"a\\(", ")\": ", "}"}, q(kNum), q(kNum))
	add("objvar", catT, false, []string{"{$x: ", "}"}, q(kNum))
	add("objkw", catT, true, []string{"{and: ", ", if: 1}"}, q(kNum))
	add("obj2", catT, true, []string{"{a: ", ", \"b\": ", "}"}, q(kNum), q(kNum))
	add("objtrail", catT, false, []string{"{a: ", ",}"}, q(kNum))
	add("objfmt", catT, false, []string{"{@base64 \"x\": ", "}"}, q(kNum))
	add("objinterpkeyonly", catT, false, []string{"{\"a\\(", ")\"}"}, q(kNum))
	add("objloc", catT, false, []string{"{$__loc__, a: ", "}"}, q(kNum))

	// directives, only as the outermost construct
	dir := func(id string, sem bool, text string, scope ...string) {
		ps = append(ps, prod{id: id, cat: catQ, parts: []string{text, ""}, holes: []hole{q(kNum, scope...)}, sem: sem, root: true})
	}
	dir("import", true, "import \"m\" as m; ", "m::mf")
	dir("importdata", true, "import \"d\" as $d; ", "$d::d")
	dir("include", true, "include \"m\"; ", "mf")
	dir("importmeta", true, "import \"m\" as m {search: \"./\"}; ", "m::mf")
	dir("includemeta", false, "include \"m\" {\"a\": [1, {b: null}], c: \"s\", \"\": true, d: false, e: 1.5, if: []}; ", "mf")
	dir("module", true, "module {name: \"x\", \"v\": [1]}; ")
	dir("moduleempty", false, "module {}; ")
	dir("moduleimport", true, "module {a: 1}; import \"m\" as m; include \"m\"; ", "m::mf")
	dir("import2", false, "import \"m\" as m; import \"d\" as $d; ", "$d::d")
	dir("importmissing", true, "import \"nonexisting\" as n; ")
	dir("importemptypath", false, "import \"\" as e; ")
	dir("includeemptypath", false, "include \"\"; ")
	for i := range ps {
		id := ps[i].id
		if strings.HasPrefix(id, "op") && len(ps[i].holes) == 2 && !strings.HasPrefix(id, "opt") {
			ps[i].core = coreOps[id[2:]]
			ps[i].mini = miniOps[id[2:]]
			continue
		}
		ps[i].core = !nonCoreIDs[id]
		ps[i].mini = miniIDs[id]
	}
	return ps
}

var patternAtoms = []string{
	"$x", "[$x]", "[$x, $y]", "{a: $x}", "{$x}", "{\"a\": $x}", "{(\"a\"): $x}", "{\"a\\(1)\": $x}",
	"{$x, b: [$y]}", "{a: {b: $x}}", "{and: $x}", "[[$x]]", "{$x: [$y]}", "{\"\": $x}", "{$__loc__}",
}

func buildAtoms() []atom {
	var as []atom
	s := func(xs ...string) {
		for _, x := range xs {
			as = append(as, atom{x, true})
		}
	}
	n := func(xs ...string) {
		for _, x := range xs {
			as = append(as, atom{x, false})
		}
	}
	s(".", ".a", "1", "\"x\"", "null", "true", "false", "[1,2]", "{\"a\":1}", "(3,4)", "empty", "error", "$u", "g0")
	s("..", ".a.b", ".\"a\"", ".[0]", ".[]?", ".a?", "1.5", "0x1f", "0b1_0", "0o17", "\"\"", "`r\"\\n`", "\"a\\(1)b\"", "@base64", "@json \"x\\(.)\"", "[]", "{}", "{a:1}", "not", "length", "break $b")
	n(".\"a\\(1)\"", ".a[]?", "..?", ".a.b?.c", ".[1:2]?", ".a.\"b\".c", ".[\"a\"]", "..a", ".. .a")
	n("0", "1e2", "1E-2", ".5", "1.", "0x_", "0b", "0o7_7", "0X1F", "1_000", "100000000000000000000", "1.0e+3", "0x1F_ff", "00", "0b12")
	n("\"a b\"", "\"\\n\\t\\\"\\\\\\u00e9\\u0000\\/\"", "\"é\"", "\"\\ud83d\\ude00\"", "\"\u2028<>&\"", "`r`", "``", "`\xff`", "`a\\(1)`", "\"\\(1)\"", "\"\\(\"x\")\"", "\"\\(\"\\(1)\")\"", "\"\x7f\"", "\"'\"")
	n("@text \"a\"", "@sh \"\\(1)\"", "@base32d", "@uri \"\\(\"a\")\\(2)\"")
	n("$__loc__", "$ENV", "$a::b", "a::b", "$__prog_args", "input_filename")
	n("[1]", "{\"a\"}", "{a}", "{$u}", "{$__loc__}", "{(1):2}", "{and:1}", "{a:1,}", "{a:1|2}", "{\"a\":1,\"b\":2}", "{a:-1}", "{if:1,then:2,end:3,reduce:4,def:5}", "{\"a\":(1,2)}", "{\"a\\(1)\":2}", "{@base64 \"x\":1}", "{\"\":1}", "{a:1 as $x|$x}", "{a:def f:1;f}")
	n("1 # comment\n", "# c\n1", "1\t")
	return as
}

// policy for choosing leaf atoms
type policy int

const (
	polFull policy = iota // full alphabet (+scope atoms)
	polK4                 // 4 atoms per hole
	polK2                 // 2 atoms per hole
	polK1                 // 1 atom per hole: innermost scope atom, else an ordinal-numbered atom of the hole's kind
)

type gen struct {
	prods    []prod
	atoms    []atom
	semOnly  bool // only sem atoms
	sel      func(p *prod) bool
	memo     map[string][]item
	maxMemoN int
	// rootShard: when shardN > 0 only root productions with index%shardN == shardIdx are expanded
	shardN, shardIdx int
}

type genSet int

const (
	setFull genSet = iota
	setSem
	setCore
	setMini
)

func newGenSet(set genSet) *gen {
	g := &gen{prods: buildProds(), atoms: buildAtoms(), memo: map[string][]item{}, maxMemoN: 2}
	switch set {
	case setFull:
		g.sel = func(p *prod) bool { return true }
	case setSem:
		g.semOnly = true
		g.sel = func(p *prod) bool { return p.sem }
	case setCore:
		g.sel = func(p *prod) bool { return p.core }
	case setMini:
		g.semOnly = true
		g.sel = func(p *prod) bool { return p.mini }
	}
	return g
}

func newGen(semOnly bool) *gen {
	if semOnly {
		return newGenSet(setSem)
	}
	return newGenSet(setFull)
}

// markers for ordinal-numbered atoms (replaced by fill)
const (
	mNum  = "\x01"
	mPath = "\x02"
	mGen  = "\x03"
	mCond = "\x04"
	mStr  = "\x05"
)

func markerFor(k kind) string {
	switch k {
	case kNum, kAny:
		return mNum
	case kPath:
		return mPath
	case kGen:
		return mGen
	case kCond:
		return mCond
	case kStr:
		return mStr
	}
	return mNum
}

var (
	fillPath = []string{".a", ".b", ".[0]", ".c"}
	fillGen  = []string{"(1,2)", ".[]?", "(3,4)", "[5,6][]"}
	fillCond = []string{"true", "null", "false", "1"}
	fillStr  = []string{"\"x\"", "\"y\"", "\"a\"", "\"z\""}
)

// fill replaces the markers by atoms numbered in textual order, so that all
// number leaves of one program are distinct.
func fill(s string) string {
	if strings.IndexAny(s, mNum+mPath+mGen+mCond+mStr) < 0 {
		return s
	}
	var b strings.Builder
	var nn, np, ng, nc, ns int
	for i := 0; i < len(s); i++ {
		switch s[i] {
		case 1:
			nn++
			b.WriteString(strconv.Itoa(nn))
		case 2:
			b.WriteString(fillPath[np%len(fillPath)])
			np++
		case 3:
			b.WriteString(fillGen[ng%len(fillGen)])
			ng++
		case 4:
			b.WriteString(fillCond[nc%len(fillCond)])
			nc++
		case 5:
			b.WriteString(fillStr[ns%len(fillStr)])
			ns++
		default:
			b.WriteByte(s[i])
		}
	}
	return b.String()
}

var k4Base = []string{".", "1", ".a", "\"x\"", "[1,2]", "{\"a\":1}", "..", "0x1f"}

func (g *gen) leafAtoms(h hole, idx int, scope []string, pol policy) []string {
	if h.cat == catP {
		switch pol {
		case polFull:
			return patternAtoms
		case polK4:
			return []string{patternAtoms[0], patternAtoms[1+idx%3], patternAtoms[4+idx%4], patternAtoms[8+idx%4]}
		case polK2:
			return []string{patternAtoms[0], patternAtoms[1+idx%(len(patternAtoms)-1)]}
		default:
			return patternAtoms[:1]
		}
	}
	switch pol {
	case polFull:
		var out []string
		for i := len(scope) - 1; i >= 0; i-- {
			out = append(out, scope[i])
		}
		for _, a := range g.atoms {
			if g.semOnly && !a.sem {
				continue
			}
			out = append(out, a.text)
		}
		return out
	case polK4, polK2:
		k := 4
		if pol == polK2 {
			k = 2
		}
		var out []string
		for i := len(scope) - 1; i >= 0 && len(out) < k/2; i-- {
			out = append(out, scope[i])
		}
		for j := 0; len(out) < k; j++ {
			out = append(out, k4Base[(idx*3+j)%len(k4Base)])
		}
		return out
	default:
		if len(scope) > 0 {
			return scope[len(scope)-1:]
		}
		return []string{markerFor(h.kind)}
	}
}

func (g *gen) usable(p *prod, c cat, root bool) bool {
	if !g.sel(p) {
		return false
	}
	if p.root {
		return root
	}
	if c == catT {
		return p.cat == catT
	}
	return c == catQ
}

func scopeKey(sc []string) string { return strings.Join(sc, "\x00") }

// enum yields every text of category c with exactly n constructs.
// idx is the index of the hole being filled (rotates small alphabets).
func (g *gen) enum(c cat, n int, idx int, scope []string, pol policy, root bool, h hole, yield func(item) bool) bool {
	if n == 0 {
		for _, a := range g.leafAtoms(h, idx, scope, pol) {
			if !yield(item{a, "_"}) {
				return false
			}
		}
		return true
	}
	if c == catP {
		return true
	}
	if !root && n <= g.maxMemoN {
		key := strconv.Itoa(int(c)) + "|" + strconv.Itoa(n) + "|" + strconv.Itoa(int(pol)) + "|" + scopeKey(scope)
		items, ok := g.memo[key]
		if !ok {
			g.enumProds(c, n, scope, pol, false, func(it item) bool { items = append(items, it); return true })
			if items == nil {
				items = []item{}
			}
			g.memo[key] = items
		}
		for _, it := range items {
			if !yield(it) {
				return false
			}
		}
		return true
	}
	return g.enumProds(c, n, scope, pol, root, yield)
}

func (g *gen) enumProds(c cat, n int, scope []string, pol policy, root bool, yield func(item) bool) bool {
	for pi := range g.prods {
		p := &g.prods[pi]
		if !g.usable(p, c, root) {
			continue
		}
		if root && g.shardN > 0 && pi%g.shardN != g.shardIdx {
			continue
		}
		if !g.enumProd(p, n-1, scope, pol, yield) {
			return false
		}
	}
	return true
}

// enumProd yields all instances of production p with rest constructs distributed over its holes.
func (g *gen) enumProd(p *prod, rest int, scope []string, pol policy, yield func(item) bool) bool {
	nh := len(p.holes)
	texts := make([]string, nh)
	skels := make([]string, nh)
	var rec func(i, left int) bool
	rec = func(i, left int) bool {
		if i == nh {
			if left != 0 {
				return true
			}
			var b, s strings.Builder
			s.WriteString(p.id)
			s.WriteByte('(')
			for j := 0; j < nh; j++ {
				b.WriteString(p.parts[j])
				b.WriteString(texts[j])
				if j > 0 {
					s.WriteByte(',')
				}
				s.WriteString(skels[j])
			}
			b.WriteString(p.parts[nh])
			s.WriteByte(')')
			return yield(item{b.String(), s.String()})
		}
		h := p.holes[i]
		sc := scope
		if h.defBody {
			sc = nil
			for _, a := range scope {
				if a != "f" && !strings.HasPrefix(a, "f(") {
					sc = append(sc, a)
				}
			}
		}
		if len(h.scope) > 0 {
			sc = append(append([]string{}, sc...), h.scope...)
		}
		lo, hi := 0, left
		if i == nh-1 {
			lo = left
		}
		if h.cat == catP {
			lo, hi = 0, 0
			if i == nh-1 && left != 0 {
				return true
			}
		}
		for k := lo; k <= hi; k++ {
			ok := g.enum(h.cat, k, i, sc, pol, false, h, func(it item) bool {
				texts[i], skels[i] = it.text, it.skel
				return rec(i+1, left-k)
			})
			if !ok {
				return false
			}
		}
		return true
	}
	return rec(0, rest)
}

// programs yields all programs with exactly n constructs under the policy.
func (g *gen) programs(n int, pol policy, yield func(item) bool) bool {
	top := hole{cat: catQ, kind: kNum}
	return g.enum(catQ, n, 0, nil, pol, true, top, func(it item) bool {
		it.text = fill(it.text)
		return yield(it)
	})
}

// level1Pairs yields the size-1 programs where at most two holes of the
// construct range over the full atom alphabet at a time (all pairs of holes),
// the remaining holes holding one atom. For constructs with <= 2 holes this is
// the full product.
func (g *gen) level1Pairs(yield func(item) bool) bool { return g.level1(true, yield) }

// level1Singles: one hole at a time ranges over the full alphabet.
func (g *gen) level1Singles(yield func(item) bool) bool { return g.level1(false, yield) }

func (g *gen) level1(pairMode bool, yield func(item) bool) bool {
	for pi := range g.prods {
		p := &g.prods[pi]
		if !g.sel(p) {
			continue
		}
		nh := len(p.holes)
		pairs := [][2]int{}
		if nh == 1 || !pairMode {
			for i := 0; i < nh; i++ {
				pairs = append(pairs, [2]int{i, i})
			}
		} else {
			for i := 0; i < nh; i++ {
				for j := i + 1; j < nh; j++ {
					pairs = append(pairs, [2]int{i, j})
				}
			}
		}
		for _, pr := range pairs {
			texts := make([]string, nh)
			var rec func(i int) bool
			rec = func(i int) bool {
				if i == nh {
					var b strings.Builder
					for j := 0; j < nh; j++ {
						b.WriteString(p.parts[j])
						b.WriteString(texts[j])
					}
					b.WriteString(p.parts[nh])
					return yield(item{fill(b.String()), p.id + "(..)"})
				}
				h := p.holes[i]
				pol := polK1
				if i == pr[0] || i == pr[1] {
					pol = polFull
				}
				for _, a := range g.leafAtoms(h, i, h.scope, pol) {
					texts[i] = a
					if !rec(i + 1) {
						return false
					}
				}
				return true
			}
			if !rec(0) {
				return false
			}
		}
	}
	return true
}
