package c02

// The enumerated input families (all finite, no sampling).

import (
	"unicode/utf16"
)

const trailBits = 13 // bits after the field: more than a byte, not byte aligned

func bitsOfUint(v uint64, w int) []byte {
	o := make([]byte, w)
	for i := 0; i < w; i++ {
		o[i] = byte(v >> uint(w-1-i) & 1)
	}
	return o
}

func bitsOfBytes(b []byte) []byte { return unpack(b, len(b)*8) }

func constBits(v byte, n int) []byte {
	o := make([]byte, n)
	for i := range o {
		o[i] = v
	}
	return o
}

// boundaryPatterns: {0, all ones, each single bit, each single zero, sign bit only,
// sign bit + LSB, 01/10 alternation, the byte-distinct pattern 0x0123456789abcdef..},
// and for whole byte widths the byte-reversed image of each (so that little endian
// readers see the same boundary values). Duplicates removed, order deterministic.
func boundaryPatterns(w int) [][]byte {
	var out [][]byte
	seen := map[string]bool{}
	add := func(p []byte) {
		if !seen[string(p)] {
			seen[string(p)] = true
			out = append(out, p)
		}
		if w%8 == 0 && w > 8 {
			q := byteSwap(p)
			if !seen[string(q)] {
				seen[string(q)] = true
				out = append(out, q)
			}
		}
	}
	add(constBits(0, w))
	add(constBits(1, w))
	single := func(i int) bool {
		if w <= 512 {
			return true
		}
		// very wide integers: every bit next to a byte or word boundary and both ends
		m := i % 64
		return i < 16 || i >= w-16 || m == 0 || m == 1 || m == 7 || m == 8 || m == 63
	}
	for i := 0; i < w; i++ {
		if !single(i) {
			continue
		}
		p := constBits(0, w)
		p[i] = 1
		add(p)
		q := constBits(1, w)
		q[i] = 0
		add(q)
	}
	p := constBits(0, w)
	p[0], p[w-1] = 1, 1
	add(p)
	a01, a10, bd := make([]byte, w), make([]byte, w), make([]byte, w)
	distinct := []byte{0x01, 0x23, 0x45, 0x67, 0x89, 0xab, 0xcd, 0xef}
	for i := 0; i < w; i++ {
		a01[i] = byte(i & 1)
		a10[i] = byte(i&1) ^ 1
		bd[i] = distinct[(i/8)%8] >> (7 - uint(i%8)) & 1
	}
	add(a01)
	add(a10)
	add(bd)
	return out
}

// intPatterns: all 2^w patterns up to the exhaustive width, boundary patterns beyond.
func intPatterns(w, exhaustive int) [][]byte {
	if w <= exhaustive {
		out := make([][]byte, 0, 1<<uint(w))
		for v := uint64(0); v < 1<<uint(w); v++ {
			out = append(out, bitsOfUint(v, w))
		}
		return out
	}
	return boundaryPatterns(w)
}

// floatPatterns: binary16 exhaustively; binary32/64 and x87 extended as the product
// sign x exponent boundary set x significand boundary set, in both byte orders.
func floatPatterns(w int) [][]byte {
	if w == 16 {
		return intPatterns(16, 16)
	}
	var ebits, mbits int
	switch w {
	case 32:
		ebits, mbits = 8, 23
	case 64:
		ebits, mbits = 11, 52
	case 80:
		ebits, mbits = 15, 63
	}
	bias := uint64(1)<<uint(ebits-1) - 1
	emax := uint64(1)<<uint(ebits) - 1
	exps := []uint64{0, 1, bias - 1, bias, bias + 1, emax - 1, emax}
	ones := uint64(1)<<uint(mbits) - 1
	mants := []uint64{0, 1, 1 << uint(mbits-1), ones}
	intBits := []uint64{0}
	if w == 80 {
		// exponents around the float64 range limits and significands that are
		// exact / tie / above tie / odd tie in float64 (53 of 64 bits)
		exps = append(exps, 16383-1076, 16383-1075, 16383-1074, 16383-1023, 16383-1022, 16383+1023, 16383+1024)
		mants = append(mants, 1<<11, 1<<10, 1<<10|1, 1<<11|1<<10, ones&^(1<<11-1), ones&^(1<<10-1))
		intBits = []uint64{0, 1}
	}
	var out [][]byte
	seen := map[string]bool{}
	for s := uint64(0); s < 2; s++ {
		for _, e := range exps {
			for _, ib := range intBits {
				for _, m := range mants {
					p := []byte{byte(s)}
					p = append(p, bitsOfUint(e, ebits)...)
					if w == 80 {
						p = append(p, byte(ib))
					}
					p = append(p, bitsOfUint(m, mbits)...)
					for _, q := range [][]byte{p, byteSwap(p)} {
						if !seen[string(q)] {
							seen[string(q)] = true
							out = append(out, q)
						}
					}
				}
			}
		}
	}
	return out
}

// lebPatterns: every encoding of one and two groups, and boundary encodings of
// 3,4,5,8,9,10,11 groups including non canonical and overflowing ones.
func lebPatterns() [][]byte {
	var out [][]byte
	for b := 0; b < 128; b++ {
		out = append(out, []byte{byte(b)})
	}
	for a := 0; a < 128; a++ {
		for b := 0; b < 128; b++ {
			out = append(out, []byte{0x80 | byte(a), byte(b)})
		}
	}
	lasts := []byte{0x00, 0x01, 0x02, 0x3f, 0x40, 0x41, 0x7e, 0x7f}
	for _, g := range []int{3, 4, 5, 8, 9, 10, 11, 12} {
		var leads [][]byte
		for _, fillv := range []byte{0x00, 0x7f, 0x55} {
			l := make([]byte, g-1)
			for i := range l {
				l[i] = fillv
			}
			leads = append(leads, l)
		}
		l := make([]byte, g-1)
		l[0] = 1
		leads = append(leads, l)
		for _, v := range []byte{0x40, 0x7f, 0x3f} {
			l := make([]byte, g-1)
			l[g-2] = v
			leads = append(leads, l)
		}
		l = make([]byte, g-1)
		for i := range l {
			l[i] = 0x7f
		}
		l[g-2] = 0x3f
		leads = append(leads, l)
		for _, lead := range leads {
			for _, last := range lasts {
				p := make([]byte, 0, g)
				for _, v := range lead {
					p = append(p, 0x80|v)
				}
				p = append(p, last)
				out = append(out, p)
			}
		}
	}
	return out
}

// text payloads ---------------------------------------------------------------

// U+FEFF is in the alphabet as a character like any other: it makes the byte order
// mark appear first, doubled, in the middle and last in every encoding/termination
// form (first: a signature that the byte order mark aware encodings remove once;
// anywhere else, and in the encodings with a fixed byte order: part of the value).
var textRunes = []rune{'a', 'é', '€', 0x1F600, 0, 0xFEFF}

func textStrings(maxRunes int) []string {
	out := []string{""}
	prev := []string{""}
	for n := 1; n <= maxRunes; n++ {
		var cur []string
		for _, p := range prev {
			for _, r := range textRunes {
				cur = append(cur, p+string(r))
			}
		}
		out = append(out, cur...)
		prev = cur
	}
	return out
}

func utf16Bytes(s string, be bool) []byte {
	var o []byte
	for _, u := range utf16.Encode([]rune(s)) {
		if be {
			o = append(o, byte(u>>8), byte(u))
		} else {
			o = append(o, byte(u), byte(u>>8))
		}
	}
	return o
}

type textPayload struct {
	form string
	raw  []byte
}

// textForms: every encoding/termination form of s.
func textForms(s string) []textPayload {
	u8 := []byte(s)
	le, be := utf16Bytes(s, false), utf16Bytes(s, true)
	cat := func(bs ...[]byte) []byte {
		var o []byte
		for _, b := range bs {
			o = append(o, b...)
		}
		return o
	}
	bomLE, bomBE, bom8 := []byte{0xff, 0xfe}, []byte{0xfe, 0xff}, []byte{0xef, 0xbb, 0xbf}
	ps := []textPayload{
		{"utf8", u8},
		{"utf8+nul", cat(u8, []byte{0})},
		{"utf8+nul-padding", cat(u8, []byte{0, 0, 0})},
		{"bom+utf8", cat(bom8, u8)},
		{"bom+utf8+nul", cat(bom8, u8, []byte{0})},
		{"utf16le", le},
		{"utf16be", be},
		{"bom+utf16le", cat(bomLE, le)},
		{"bom+utf16be", cat(bomBE, be)},
		{"utf16le+nul", cat(le, []byte{0, 0})},
		{"utf16be+nul", cat(be, []byte{0, 0})},
		{"bom+utf16le+nul", cat(bomLE, le, []byte{0, 0})},
		{"bom+utf16be+nul", cat(bomBE, be, []byte{0, 0})},
	}
	if len(u8) < 256 {
		ps = append(ps,
			textPayload{"len+utf8", cat([]byte{byte(len(u8))}, u8)},
			textPayload{"len+utf8+padding", cat([]byte{byte(len(u8))}, u8, []byte{0, 0xaa, 0x55})},
			textPayload{"len+bom+utf8", cat([]byte{byte(3 + len(u8))}, bom8, u8)},
		)
	}
	return ps
}
