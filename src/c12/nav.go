package c12

import (
	"fmt"
	"reflect"
	"strings"

	"github.com/wader/fq/internal/verif/c05"
	"github.com/wader/fq/pkg/decode"
	"github.com/wader/fq/pkg/interp"
	"github.com/wader/fq/pkg/scalar"
)

// NavDriver descends from the root through what iteration shows (`.[]` with the key
// of every element) and emits, per value, everything upward navigation reports.
var NavDriver = c05.Driver{
	Defs: `
def b(f): try f catch errstr;
def nav($v; $path; $tb; $par):
  ( $v | b(topath) ) as $tp
  | ( if ($tp | type) == "array" then b($v | root | getpath($tp)) else "ERR:no path" end ) as $g
  | [ $v
    , $path
    , $tp
    , $g
    , b($v | parent)
    , (if $par then b([$v | parents]) else "NOTCHECKED" end)
    , b($v | root)
    , b($v | buffer_root)
    , b($v | format_root)
    , $v._index
    , $v._name
    , b( ($v | parent) as $q
       | if ($q | type) == "null" then null
         elif ($q | type) == "array" then $q[$v._index]
         else $q[$v._name]
         end )
    , [$v._start, $v._stop]
    , b($g | [._start, ._stop, ._name])
    , $v._gap
    , ($v | type)
    , (if $tb or (($v | type) != "array" and ($v | type) != "object") then b($v | tobits) else null end)
    , (if $tb or (($v | type) != "array" and ($v | type) != "object") then b($g | tobits) else null end)
    ];
def descend($path; $tb; $par):
  . as $v
  | nav($v; $path; $tb; $par)
  , ( [path(.[]?)] as $ks
    | [.[]?] as $vs
    | range($ks | length) as $i
    | $vs[$i]
    | select(_exttype == "decode_value")
    | descend($path + $ks[$i]; $tb; $par)
    );
`,
	// fq's parents costs time proportional to the size of the parent per call (it compares
	// decode values with null): it is exercised on trees of at most 20000 values
	Tree: `. as $root | sized($c; 1) | if type == "array" then length as $n | [$root | descend([]; $c.f == "vdsl" or $c.f == "vdsla"; $n <= 20000)] else . end`,
}

type Finding struct{ Sig, Msg string }

type Stats struct {
	Values, InArray, GapsInArrays, BelowNested, BelowFormat, TobitsCompared, Unmatched, KnownTLS, Interesting int64
	StructFieldWithIndex, RootWithIndex, ParentsNotChecked                                                    int64
}

type rec struct {
	V          *decode.Value
	Path       []any
	Key        string
	Topath     any
	Got        any
	Parent     any
	Parents    any
	Root       any
	BufferRoot any
	FormatRoot any
	Index      any
	Name       any
	Lookup     any
	Start      int64
	Stop       int64
	GotAttr    any
	Gap        bool
	Type       string
	Tobits     any
	GotTobits  any
}

func dvOf(v any) *decode.Value {
	if d, ok := v.(interp.DecodeValue); ok {
		return d.DecodeValue()
	}
	return nil
}

func parse(out any) ([]rec, error) {
	arr, ok := out.([]any)
	if !ok {
		return nil, fmt.Errorf("driver output is %T", out)
	}
	recs := make([]rec, 0, len(arr))
	for _, e := range arr {
		a, ok := e.([]any)
		if !ok || len(a) != 18 {
			return nil, fmt.Errorf("record is %T", e)
		}
		var r rec
		r.V = dvOf(a[0])
		if r.V == nil {
			return nil, fmt.Errorf("record value is %T, not a decode value", a[0])
		}
		r.Path, _ = a[1].([]any)
		r.Key = c05.PathKey(r.Path)
		r.Topath, r.Got, r.Parent, r.Parents, r.Root, r.BufferRoot, r.FormatRoot = a[2], a[3], a[4], a[5], a[6], a[7], a[8]
		r.Index, r.Name, r.Lookup = a[9], a[10], a[11]
		if ss, ok := a[12].([]any); ok && len(ss) == 2 {
			r.Start, _ = c05.Int64(ss[0])
			r.Stop, _ = c05.Int64(ss[1])
		}
		r.GotAttr = a[13]
		r.Gap, _ = a[14].(bool)
		r.Type, _ = a[15].(string)
		r.Tobits, r.GotTobits = a[16], a[17]
		recs = append(recs, r)
	}
	return recs, nil
}

func pathOrErr(v any) string {
	if p, ok := v.([]any); ok {
		return c05.PathString(p)
	}
	return fmt.Sprintf("%v", v)
}

// dvPath names a decode value by its position (walking Parent links, harness side).
func dvPath(v any) string {
	d := dvOf(v)
	if d == nil {
		if v == nil {
			return "null"
		}
		s := fmt.Sprintf("%v", v)
		if len(s) > 60 {
			s = s[:60]
		}
		return s
	}
	var parts []string
	for x := d; x != nil && x.Parent != nil; x = x.Parent {
		if pc, ok := x.Parent.V.(*decode.Compound); ok && pc.IsArray {
			idx := -1
			for i, c := range pc.Children {
				if c == x {
					idx = i
				}
			}
			parts = append(parts, fmt.Sprintf("[%d]", idx))
		} else {
			parts = append(parts, "."+x.Name)
		}
	}
	if len(parts) == 0 {
		return "."
	}
	for i, j := 0, len(parts)-1; i < j; i, j = i+1, j-1 {
		parts[i], parts[j] = parts[j], parts[i]
	}
	return strings.Join(parts, "")
}

func samePath(a any, b []any) bool {
	p, ok := a.([]any)
	if !ok || len(p) != len(b) {
		return false
	}
	for i := range p {
		switch x := b[i].(type) {
		case string:
			if s, ok := p[i].(string); !ok || s != x {
				return false
			}
		default:
			n1, ok1 := c05.Int64(p[i])
			n2, ok2 := c05.Int64(b[i])
			if _, isS := p[i].(string); isS || !ok1 || !ok2 || n1 != n2 {
				return false
			}
		}
	}
	return true
}

type flags struct{ isRoot, fmtRoot, isArray, known bool }

// JudgeTree checks the navigation of every value of t against the shape found by
// descent. Which values are buffer roots / format roots is known from the reference
// interpreter (dsl) or read from the value's own flags (real formats).
func JudgeTree(t *c05.Tree, st *Stats) []Finding {
	var out []Finding
	seen := map[string]bool{}
	add := func(sig, f string, a ...any) {
		if !seen[sig] && len(out) < 30 {
			seen[sig] = true
			out = append(out, Finding{sig, fmt.Sprintf("%s: ", t.Case) + fmt.Sprintf(f, a...)})
		}
	}
	prefix := t.Case.Kind + ":"
	recs, err := parse(t.Out)
	if err != nil {
		add(prefix+"driver-output", "%v", err)
		return out
	}
	var refIdx map[string]flags
	if t.Ref != nil {
		refIdx = map[string]flags{}
		for k, n := range c05.RefIndex(t.Ref.Root) {
			refIdx[k] = flags{isRoot: n.IsRoot, fmtRoot: n.FmtRoot, isArray: n.Kind == "array", known: true}
		}
	}
	byKey := map[string]*decode.Value{}
	fl := map[string]flags{}
	interesting := false
	for i := range recs {
		r := &recs[i]
		st.Values++
		ps := c05.PathString(r.Path)
		if prev, dup := byKey[r.Key]; dup && prev != r.V {
			add(prefix+"descent:two-values-one-path", "descending reaches two different values at %s", ps)
		}
		byKey[r.Key] = r.V
		f := flags{isRoot: r.V.IsRoot, fmtRoot: r.V.Format != nil}
		if c, ok := r.V.V.(*decode.Compound); ok {
			f.isArray = c.IsArray
		}
		if refIdx != nil {
			if rf, ok := refIdx[r.Key]; ok {
				f = rf
			} else {
				st.Unmatched++
			}
		}
		if len(r.Path) == 0 {
			f.isRoot, f.fmtRoot = true, true
		}
		fl[r.Key] = f
		if f.isArray {
			interesting = true
		}

		// expected ancestors from the descent
		var chain []*decode.Value // nearest first
		var chainKeys []string
		for l := len(r.Path) - 1; l >= 0; l-- {
			k := c05.PathKey(r.Path[:l])
			chain = append(chain, byKey[k])
			chainKeys = append(chainKeys, k)
		}
		expBuf, expFmt := r.V, r.V
		if !f.isRoot {
			expBuf = nil
			for j, k := range chainKeys {
				if fl[k].isRoot {
					expBuf = chain[j]
					if k != "" {
						st.BelowNested++
						interesting = true
					}
					break
				}
			}
		}
		if !f.isRoot && !f.fmtRoot {
			expFmt = nil
			for j, k := range chainKeys {
				if fl[k].isRoot || fl[k].fmtRoot {
					expFmt = chain[j]
					if k != "" && fl[k].fmtRoot {
						st.BelowFormat++
						interesting = true
					}
					break
				}
			}
		}

		// topath == the path of the descent
		if !samePath(r.Topath, r.Path) {
			add(prefix+"topath:differs-from-descent", "the value reached at %s reports topath %s", ps, pathOrErr(r.Topath))
		}
		// root | getpath(topath) is the same node
		if g := dvOf(r.Got); g != r.V {
			add(prefix+"getpath:other-node", "value at %s: root | getpath(%s) is %s", ps, pathOrErr(r.Topath), dvPath(r.Got))
		}
		wantAttr := []any{r.Start, r.Stop, r.Name}
		if ga, ok := r.GotAttr.([]any); !ok || len(ga) != 3 || !attrEq(ga, wantAttr) {
			add(prefix+"getpath:attributes-differ", "value at %s has _start,_stop,_name %v; root | getpath(topath) has %v", ps, wantAttr, r.GotAttr)
		}
		if r.Tobits != nil || r.GotTobits != nil {
			st.TobitsCompared++
			a, errA := c05.ReadBinary(r.Tobits)
			b, errB := c05.ReadBinary(r.GotTobits)
			synth := false
			if s, ok := r.V.V.(scalar.Scalarable); ok {
				synth = s.ScalarFlags().IsSynthetic()
			}
			switch {
			case errA != nil && errB != nil:
				if !synth {
					add(prefix+"tobits:error", "value at %s: tobits fails: %v / %v", ps, r.Tobits, r.GotTobits)
				}
			case errA != nil || errB != nil || !a.Equal(b):
				add(prefix+"getpath:tobits-differ", "value at %s: tobits %s, root | getpath(topath) | tobits %s (%v %v)", ps, a.Short(), b.Short(), errA, errB)
			}
		}
		// parent, parents, root
		if len(r.Path) == 0 {
			if r.Parent != nil {
				add(prefix+"parent:root-has-parent", "the root value has parent %s", dvPath(r.Parent))
			}
		} else if dvOf(r.Parent) != chain[0] {
			add(prefix+"parent:other-node", "value at %s: parent is %s, it was reached from %s", ps, dvPath(r.Parent), c05.PathString(r.Path[:len(r.Path)-1]))
		}
		if s, ok := r.Parents.(string); ok && s == "NOTCHECKED" {
			st.ParentsNotChecked++
		} else if pa, ok := r.Parents.([]any); !ok || len(pa) != len(chain) {
			add(prefix+"parents:length", "value at %s (depth %d): parents outputs %v", ps, len(chain), summarize(r.Parents))
		} else {
			for j := range pa {
				if dvOf(pa[j]) != chain[j] {
					add(prefix+"parents:other-node", "value at %s: parents[%d] is %s, the ancestor at that distance is %s", ps, j, dvPath(pa[j]), c05.PathString(r.Path[:len(r.Path)-1-j]))
					break
				}
			}
		}
		if dvOf(r.Root) != byKey[""] {
			add(prefix+"root:other-node", "value at %s: root is %s", ps, dvPath(r.Root))
		}
		if expBuf != nil && dvOf(r.BufferRoot) != expBuf {
			add(prefix+"buffer_root:other-node", "value at %s: buffer_root is %s, the nearest buffer root at or above it is %s", ps, dvPath(r.BufferRoot), dvPath0(expBuf))
		}
		if expFmt != nil && dvOf(r.FormatRoot) != expFmt {
			add(prefix+"format_root:other-node", "value at %s: format_root is %s, the nearest format or buffer root at or above it is %s", ps, dvPath(r.FormatRoot), dvPath0(expFmt))
		}
		// name / index under which the parent holds it
		if len(r.Path) > 0 {
			last := r.Path[len(r.Path)-1]
			pk := chainKeys[0]
			if fl[pk].isArray {
				st.InArray++
				pos, _ := c05.Int64(last)
				idx, ok := c05.Int64(r.Index)
				if r.Gap {
					st.GapsInArrays++
					interesting = true
				}
				if _, isStr := last.(string); isStr {
					add(prefix+"descent:array-element-keyed-by-name", "element %s of an array is iterated with a string key", ps)
				} else if !ok || idx != pos {
					sig := "index:array-element"
					if r.Gap {
						sig = "index:gap-field-appended-to-array"
					}
					add(prefix+sig, "value at %s is element %d of its parent array but reports _index %v", ps, pos, r.Index)
				}
			} else {
				name, _ := last.(string)
				if n, ok := r.Name.(string); !ok || n != name {
					add(prefix+"name:struct-field", "value at %s is held by its parent under %q but reports _name %v", ps, name, r.Name)
				}
				if r.Index != nil {
					// a struct field that also reports an index: the property only asks that the
					// parent holds it under its name; Index == -1 for struct children is C03's
					// invariant (recorded there for the tls late fields). Counted, not judged.
					if isKnownTLS(r.V) {
						st.KnownTLS++
					} else {
						st.StructFieldWithIndex++
					}
				}
			}
			if dvOf(r.Lookup) != r.V {
				add(prefix+"parent:does-not-contain-value", "value at %s: parent[_index or _name] (_index %v, _name %v) is %s", ps, r.Index, r.Name, dvPath(r.Lookup))
			}
		} else if r.Index != nil {
			// a root that is a scalar (xml, json, ... formats) is never post-processed and
			// reports _index 0; it has no parent, so the property demands nothing. Counted.
			st.RootWithIndex++
		}
	}
	if interesting {
		st.Interesting++
	}
	return out
}

func dvPath0(v *decode.Value) string {
	if v == nil {
		return "?"
	}
	var parts []string
	for x := v; x != nil && x.Parent != nil; x = x.Parent {
		parts = append(parts, x.Name)
	}
	for i, j := 0, len(parts)-1; i < j; i, j = i+1, j-1 {
		parts[i], parts[j] = parts[j], parts[i]
	}
	return "." + strings.Join(parts, ".")
}

func attrEq(got []any, want []any) bool {
	for i := 0; i < 2; i++ {
		g, ok := c05.Int64(got[i])
		if !ok || g != want[i].(int64) {
			return false
		}
	}
	return reflect.DeepEqual(got[2], want[2])
}

func summarize(v any) string {
	if a, ok := v.([]any); ok {
		var s []string
		for _, e := range a {
			s = append(s, dvPath(e))
		}
		return "[" + strings.Join(s, " ") + "]"
	}
	return dvPath(v)
}

// isKnownTLS: recorded under C03 (corpus:struct-child-index:tls:message-late-fields):
// the tls decoder adds fields to the already post-processed struct "message"; they
// (and everything below them, never post-processed) keep Index 0. Narrow: values
// below a struct named message inside a tls format root.
func isKnownTLS(v *decode.Value) bool {
	below := false
	for x := v.Parent; x != nil; x = x.Parent {
		if x.Name == "message" {
			below = true
		}
		if x.Format != nil {
			return below && x.Format.Name == "tls"
		}
	}
	return false
}

// topStarts: bit starts of the top level non gap fields (truncation points).
func topStarts(t *c05.Tree) []int64 {
	recs, err := parse(t.Out)
	if err != nil {
		return nil
	}
	var out []int64
	for _, r := range recs {
		if len(r.Path) == 1 && !r.V.IsRoot && !r.Gap {
			out = append(out, r.Start)
		}
	}
	return out
}
