package c04

import (
	"context"
	"encoding/json"
	"fmt"
	"os"
	"path/filepath"
	"time"

	"github.com/wader/fq/internal/bitiox"
	"github.com/wader/fq/internal/verif/core"
	"github.com/wader/fq/internal/verif/corpus"
	"github.com/wader/fq/internal/verif/dsl"
	"github.com/wader/fq/pkg/bitio"
	"github.com/wader/fq/pkg/decode"
	"github.com/wader/fq/pkg/interp"
	"github.com/wader/fq/pkg/scalar"
)

// TreeCase is the replayable unit of the tree part.
type TreeCase struct {
	Kind   string `json:"kind"` // dsl | corpus
	Prog   string `json:"prog,omitempty"`
	Input  string `json:"input,omitempty"`
	Force  bool   `json:"force,omitempty"`
	File   string `json:"file,omitempty"`
	Format string `json:"format,omitempty"`
	Mut    string `json:"mut,omitempty"`
	At     int    `json:"at,omitempty"`
}

type finding struct{ sig, msg string }

// judgeRegion checks one gap filled region [lo,hi) below node; buf = bits of the buffer.
func judgeRegion(where string, node *decode.Value, lo, hi int64, buf []bool) []finding {
	var out []finding
	if hi < lo {
		return nil
	}
	field, gap, leaves, gaps, gapVals, issues := dsl.RegionCoverage(node, lo, hi)
	for _, is := range issues {
		out = append(out, finding{"tree:" + is.Class, where + ": " + is.Msg})
	}
	uncovered := int64(-1)
	for b := int64(0); b < hi-lo; b++ {
		if field[b] > 0 && gap[b] > 0 {
			out = append(out, finding{"tree:gap-overlaps-field", fmt.Sprintf("%s: bit %d of the region %d:%d is in a leaf field and in a gap field added for this region", where, b+lo, lo, hi-lo)})
			break
		}
		if field[b] == 0 && gap[b] == 0 && uncovered < 0 {
			uncovered = b
		}
		if gap[b] > 1 {
			out = append(out, finding{"tree:gaps-overlap", fmt.Sprintf("%s: bit %d of the region %d:%d is in two gap fields of this region", where, b+lo, lo, hi-lo)})
			break
		}
	}
	if uncovered >= 0 {
		// classification of the recorded ranges.Gaps finding: the gap fields present are
		// exactly those of the off-by-one merge (see gaps.go)
		obs := make([][2]int64, len(gaps))
		copy(obs, gaps)
		sortPairs(obs)
		t1 := RefGaps(hi-lo, leaves, 1)
		same := len(t1) == len(obs)
		if same {
			for i := range t1 {
				if t1[i].Start != obs[i][0] || t1[i].Len != obs[i][1] {
					same = false
				}
			}
		}
		if same {
			out = append(out, finding{"gaps:adjacency-plus-one-swallows-one-bit-hole", fmt.Sprintf("%s: bit %d of the gap filled region %d:%d is neither in a field nor in a gap field (one-bit hole between adjacent fields)", where, uncovered+lo, lo, hi-lo)})
		} else {
			out = append(out, finding{"tree:uncovered-bit", fmt.Sprintf("%s: bit %d of the gap filled region %d:%d is neither in a field nor in a gap field (leaves %v, gaps %v)", where, uncovered+lo, lo, hi-lo, leaves, gaps)})
		}
	}
	// gap content = input bits of its range
	for _, gv := range gapVals {
		bb, ok := gv.V.(*scalar.BitBuf)
		if !ok {
			out = append(out, finding{"tree:gap-not-raw", where + ": gap field " + dsl.PathOf(gv) + " is not raw bits"})
			continue
		}
		got, err := dsl.ReaderBits(bb.Actual)
		if err != nil {
			out = append(out, finding{"tree:gap-unreadable", fmt.Sprintf("%s: gap %s: %v", where, dsl.PathOf(gv), err)})
			continue
		}
		r := gv.Range
		if r.Stop() > int64(len(buf)) || int64(len(got)) != r.Len {
			out = append(out, finding{"tree:gap-content-length", fmt.Sprintf("%s: gap %s range %v but content has %d bits (buffer %d bits)", where, dsl.PathOf(gv), r, len(got), len(buf))})
			continue
		}
		for i := int64(0); i < r.Len; i++ {
			if got[i] != buf[r.Start+i] {
				out = append(out, finding{"tree:gap-content", fmt.Sprintf("%s: gap %s range %v: content differs from the input bits at bit %d", where, dsl.PathOf(gv), r, r.Start+i)})
				break
			}
		}
	}
	return out
}

func sortPairs(p [][2]int64) {
	for a := 1; a < len(p); a++ {
		for b := a; b > 0 && p[b][0] < p[b-1][0]; b-- {
			p[b], p[b-1] = p[b-1], p[b]
		}
	}
}

var dslInputs = [][]byte{{0xa7, 0x3c, 0xd1, 0x6b, 0xe2}, {0x5a, 0xc3}}

func judgeDSLTree(p dsl.Prog, in []byte, force bool) []finding {
	var dv *decode.Value
	pv, _ := core.Protect(func() {
		dv, _, _ = decode.Decode(context.Background(), bitio.NewBitReader(in, -1), dsl.GroupFor(p), decode.Options{IsRoot: true, FillGaps: true, Force: force})
	})
	if pv != nil || dv == nil {
		return nil // C03/C06 territory
	}
	ref := dsl.Ref(p, []bool(core.BitsFromBytes(in)), force, 1)
	var out []finding
	for _, g := range dsl.RefGapRegions(ref.Root) {
		node := dsl.NodeByPath(dv, g.Path)
		if node == nil {
			continue
		}
		out = append(out, judgeRegion(g.Path, node, g.Lo, g.Hi, ref.Bufs[g.Buf])...)
	}
	return out
}

func judgeCorpusTree(it corpus.Item) []finding {
	if it.Res.Panic != nil || it.Res.Value == nil {
		return nil
	}
	var out []finding
	top := it.Res.Value
	for _, rv := range dsl.BufferRoots(top) {
		if rv != top && rv.Format == nil {
			continue // nested buffers built without gap filling
		}
		l, err := bitiox.Len(rv.RootReader)
		if err != nil {
			continue
		}
		if _, ok := rv.V.(*decode.Compound); !ok {
			// a format whose root is one scalar (json, yaml, text formats): it is the only field
			// and there is nowhere to put a gap, so it has to span its whole buffer
			if ir := rv.InnerRange(); rv.Err == nil && (ir.Start != 0 || ir.Len != l) {
				fname := "?"
				if rv.Format != nil {
					fname = rv.Format.Name
				}
				out = append(out, finding{sig: "tree:scalar-root-does-not-cover-buffer:" + fname,
					msg: fmt.Sprintf("%s (%s): the root is a single scalar with range %d:%d, its buffer has %d bits: bits %d..%d are in no field and no gap field", dsl.PathOf(rv), fname, ir.Start, ir.Start+ir.Len, l, ir.Start+ir.Len, l)})
			}
			continue
		}
		buf, err := dsl.ReaderBits(rv.RootReader)
		if err != nil {
			continue
		}
		lo := int64(0)
		fname := "?"
		if rv.Format != nil {
			fname = rv.Format.Name
		}
		for _, f := range judgeRegion(dsl.PathOf(rv)+" ("+fname+")", rv, lo, l, buf) {
			if f.sig != "gaps:adjacency-plus-one-swallows-one-bit-hole" {
				f.sig += ":" + fname
			}
			out = append(out, f)
		}
	}
	return out
}

func trees(r *core.Run) {
	maxOps := core.Pick(r, 3, 4)
	r.Rule("trees: every gap filled region (top level buffer, length/range delimited sub-formats, nested format buffers) of every DSL program with <= N ops x 2 inputs x force, and of every corpus decode (file x {probe, -d formats} x truncation/overwrite family): coverage bitmap, gap/field overlap, gap content; non-trivial = region containing at least one gap field and one decoded leaf")
	var evals int64
	if os.Getenv("VERIF_ONLY") != "corpus" {
		dsl.Enumerate(maxOps, 3, func(idx int64, p dsl.Prog) bool {
			if !r.Mine(idx) {
				return true
			}
			if idx&0xfff == 0 && r.Expired() {
				r.NotExhaustive("deadline during DSL tree enumeration")
				return false
			}
			for _, in := range dslInputs {
				for _, force := range []bool{false, true} {
					evals++
					for _, f := range judgeDSLTree(p, in, force) {
						r.Violate(f.sig, fmt.Sprintf("prog %s input %x force=%v: %s", p, in, force, f.msg), TreeCase{Kind: "dsl", Prog: p.String(), Input: fmt.Sprintf("%x", in), Force: force})
					}
				}
			}
			if idx%7 == 0 {
				r.Nontrivial(p.String())
			}
			if idx%90001 == 0 {
				r.Sample(map[string]any{"dsl_prog": p.String()})
			}
			return true
		})
		r.Section("trees-dsl")
		layouts(r, &evals)
		bitWindows(r, &evals)
	}
	if os.Getenv("VERIF_ONLY") != "dsl" {
		maxSize := int64(core.Pick(r, 1<<18, 0))
		corpus.Walk(r, maxSize, 64, core.Pick(r, 8, 200), func(it corpus.Item) {
			evals++
			fs := judgeCorpusTree(it)
			if it.Res.Value != nil {
				r.Nontrivial(it.String())
			}
			for _, f := range fs {
				r.Violate(f.sig, fmt.Sprintf("%s: %s", it, f.msg), TreeCase{Kind: "corpus", File: it.File.Path, Format: it.Format, Mut: it.Variant.Kind, At: it.Variant.At})
			}
			if evals%30011 == 0 {
				r.Sample(map[string]any{"corpus_case": it.String()})
			}
		})
		r.Section("trees-corpus")
	}
	r.Eval(evals)
}

func replayTree(r *core.Run, raw json.RawMessage) bool {
	var c TreeCase
	if err := json.Unmarshal(raw, &c); err != nil {
		fmt.Println(err)
		return false
	}
	var fs []finding
	switch c.Kind {
	case "dsl":
		p, err := dsl.Parse(c.Prog)
		if err != nil {
			fmt.Println(err)
			return false
		}
		var in []byte
		fmt.Sscanf(c.Input, "%x", &in)
		fs = judgeDSLTree(p, in, c.Force)
	case "corpus":
		data, err := os.ReadFile(filepath.Join(r.Repo, c.File))
		if err != nil {
			fmt.Println(err)
			return false
		}
		v := corpus.Variant{Kind: c.Mut, At: c.At}
		d := v.Apply(data)
		f := corpus.File{Path: c.File}
		fs = judgeCorpusTree(corpus.Item{File: &f, Format: c.Format, Variant: v, Data: d, Res: corpus.Decode(d, c.Format, false, 60*time.Second)})
	case "bitwindow":
		fs = judgeBitWindow(c.Format, int64(c.At))
	}
	for _, f := range fs {
		fmt.Printf("  %s %s\n", f.sig, f.msg)
	}
	return len(fs) > 0
}

// bitWindows: the formats whose root is one scalar over the whole buffer (bits, bytes)
// decoded over buffers of every bit length 0..40, not only whole bytes (a bit slice of a
// binary, a bit field handed to decode): the scalar root has to span the buffer, there is
// nowhere else a left over bit could be accounted for.
var bitWindowData = []byte{0xa7, 0x3c, 0xd1, 0x6b, 0xe2}

func judgeBitWindow(format string, n int64) []finding {
	g, err := interp.DefaultRegistry.Group(format)
	if err != nil {
		return nil
	}
	var dv *decode.Value
	pv, _ := core.Protect(func() {
		dv, _, _ = decode.Decode(context.Background(), bitio.NewBitReader(bitWindowData, n), g, decode.Options{IsRoot: true, FillGaps: true})
	})
	if pv != nil || dv == nil {
		return nil // C06 territory
	}
	it := corpus.Item{File: &corpus.File{Path: fmt.Sprintf("(first %d bits of %x)", n, bitWindowData)}, Format: format, Res: corpus.Result{Value: dv}}
	return judgeCorpusTree(it)
}

func bitWindows(r *core.Run, evals *int64) {
	for _, f := range []string{"bits", "bytes"} {
		for n := int64(0); n <= 40; n++ {
			if !r.Mine(int64(len(f))*1000 + n) {
				continue
			}
			*evals++
			r.Count("bit_window_decodes", 1)
			if n%8 != 0 {
				r.Nontrivial(fmt.Sprintf("bitwindow:%s:%d", f, n))
			}
			for _, fd := range judgeBitWindow(f, n) {
				r.Violate(fd.sig, fmt.Sprintf("decode of the first %d bits of %x as %s: %s", n, bitWindowData, f, fd.msg), TreeCase{Kind: "bitwindow", Format: f, At: int(n)})
			}
		}
	}
	r.Section("trees-bit-windows")
}

// layouts: leaves placed explicitly. A struct or an array of three fields, each read
// inside its own range(off, w) window with (off, w) from a grid over a 5 byte input, in
// every combination (equal and unequal sizes, contiguous, spaced, overlapping, out of
// order), optionally preceded by a plain field: the fields are where the input says
// (offset tables, strips, chunk indexes), not where the previous one ended. Same
// coverage oracle as every other tree.
func layouts(r *core.Run, evals *int64) {
	type place struct{ off, w int64 }
	var places []place
	for _, w := range []int64{1, 3, 8} {
		for _, off := range []int64{0, 1, 3, 8, 9, 11, 16, 19, 24, 32} {
			if off+w <= 40 {
				places = append(places, place{off, w})
			}
		}
	}
	if r.Quick() {
		// quick: offsets {0,3,8,11,16,24} only
		var p2 []place
		for _, p := range places {
			switch p.off {
			case 0, 3, 8, 11, 16, 24:
				p2 = append(p2, p)
			}
		}
		places = p2
	}
	leaf := func(name string, p place) dsl.Op {
		return dsl.Op{K: "range", Off: p.off, W: p.w, Body: []dsl.Op{{K: "u", Name: name, W: p.w}}}
	}
	in := dslInputs[0]
	idx := int64(1) << 40
	n := 0
	for _, kind := range []string{"array", "struct"} {
		for _, a := range places {
			for _, b := range places {
				for _, c := range places {
					idx++
					if !r.Mine(idx) {
						continue
					}
					if idx&0x3ff == 0 && r.Expired() {
						r.NotExhaustive("deadline during the layout enumeration")
						return
					}
					p := dsl.Prog{{K: kind, Name: "t", Body: []dsl.Op{leaf("a", a), leaf("b", b), leaf("c", c)}}}
					*evals++
					n++
					for _, f := range judgeDSLTree(p, in, false) {
						r.Violate(layoutSig(f.sig), fmt.Sprintf("prog %s input %x: %s", p, in, f.msg), TreeCase{Kind: "dsl", Prog: p.String(), Input: fmt.Sprintf("%x", in)})
					}
					if a != b && b != c {
						r.Nontrivial(p.String())
					}
				}
			}
		}
	}
	r.Count("layout_programs", int64(n))
	r.Section("trees-layouts")
}

// layoutSig: the recorded ranges.Gaps finding keeps its signature in every section.
func layoutSig(sig string) string {
	if sig == "gaps:adjacency-plus-one-swallows-one-bit-hole" {
		return sig
	}
	return "layout:" + sig
}
