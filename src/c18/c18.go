// Package c18 decides property C18 (decoding is deterministic, isolated and
// race-free): (1) all sequences of <= 3 decode+display jobs from a pool of 6 (same
// file repeatedly, different formats, succeeding and failing decodes, per-format
// options set and unset) run in one process in three sharing modes, every job output
// compared byte for byte with its lone run and the registry's default arguments
// fingerprinted after every job; (2) every interleaving of 2-3 threads resolving the
// process wide format registry (check-time instrumented, sync shimmed) under the
// controlled scheduler with race detection; (3) supplement: the same job bodies on
// free running goroutines under the Go race detector (thorough tier).
package c18

import (
	"bytes"
	"compress/gzip"
	"encoding/json"
	"fmt"
	"os"
	"os/exec"
	"path/filepath"
	"strings"

	"github.com/wader/fq/internal/verif/c19"
	"github.com/wader/fq/internal/verif/core"
	"github.com/wader/fq/internal/verif/fqrun"
	"github.com/wader/fq/pkg/interp"
)

var Check = core.Check{
	ID:     "C18",
	Level:  "model_checking",
	Shards: 16,
	Run:    run,
	Replay: replay,
	Parent: parent,
}

// Job is one decode + display job.
type Job struct {
	Name string `json:"name"`
	File string `json:"file"`
	// Expr decodes `$f` (file name) and displays
	Expr string `json:"expr"`
}

func files(repo string) map[string][]byte {
	rd := func(p string) []byte {
		b, err := os.ReadFile(filepath.Join(repo, p))
		if err != nil {
			panic(err)
		}
		return b
	}
	mp3 := rd("format/mp3/testdata/headerfooter.mp3")
	var gz bytes.Buffer
	zw := gzip.NewWriter(&gz)
	_, _ = zw.Write([]byte(`{"a":[1,2,{"b":"c"}],"n":12345678901234567890}`))
	_ = zw.Close()
	return map[string][]byte{
		"a.mp3":   mp3,
		"b.gz":    gz.Bytes(),
		"c.pcap":  rd("format/pcap/testdata/sll2_tcp.pcap"),
		"d.json":  []byte(`{"x":[1,2,3],"y":{"z":null}}`),
		"e.trunc": mp3[:40],
		"f.csv":   []byte("a;b,c\n1;2,3\n"),
	}
}

var jobs = []Job{
	{"mp3", "a.mp3", `open | decode("mp3") | (dv, (tovalue|tojson), (.frames[0].header | tobytes | tohex))`},
	{"gzip+json", "b.gz", `open | decode("gzip") | (dv, (tovalue|tojson), (.uncompressed | tobytes | tohex))`},
	{"pcap", "c.pcap", `open | decode("pcap") | (dv, (tovalue|tojson), (.tcp_connections[0].client.stream | tobytes | tohex))`},
	{"json", "d.json", `open | decode("json") | (dv, (tovalue|tojson))`},
	{"truncated-forced", "e.trunc", `open | decode("mp3"; {force: true}) | (dv, (tovalue|tojson))`},
	{"csv-comma-opt", "f.csv", `open | decode("csv"; {comma: ";"}) | (dv, (tovalue|tojson))`},
	{"csv-default", "f.csv", `open | decode("csv") | (dv, (tovalue|tojson))`},
}

// runJob evaluates a job on session s and returns everything it printed and output.
func runJob(s *fqrun.Session, j Job) string {
	outs, err := s.Eval(nil, fmt.Sprintf("%q | %s", j.File, j.Expr))
	var sb strings.Builder
	sb.Write(s.Stdout())
	for _, o := range outs {
		fmt.Fprintf(&sb, "%v\n", o)
	}
	if err != nil {
		if pe, ok := fqrun.IsPanic(err); ok {
			fmt.Fprintf(&sb, "PANIC: %v\n", pe.Value)
		} else {
			fmt.Fprintf(&sb, "ERR: %v\n", err)
		}
	}
	return sb.String()
}

// registryFingerprint hashes every default argument reachable from the registry:
// a job that mutates them leaks options into later jobs.
func registryFingerprint() uint64 {
	var parts []any
	gs := interp.DefaultRegistry.Groups()
	names := make([]string, 0, len(gs))
	for n := range gs {
		names = append(names, n)
	}
	sortStrings(names)
	for _, n := range names {
		g := gs[n]
		parts = append(parts, n, g.DefaultInArg, len(g.Formats))
		for _, f := range g.Formats {
			parts = append(parts, f.Name, f.DefaultInArg)
		}
	}
	return core.DeepHash(parts...)
}

func sortStrings(s []string) {
	for a := 1; a < len(s); a++ {
		for b := a; b > 0 && s[b] < s[b-1]; b-- {
			s[b], s[b-1] = s[b-1], s[b]
		}
	}
}

type HistCase struct {
	Kind string `json:"kind"`
	Mode string `json:"mode"`
	Seq  []int  `json:"seq"`
}

func histories(r *core.Run) {
	fs := files(r.Repo)
	// lone runs: each job in a process-fresh session (this worker has run nothing else
	// on these sessions); taken twice to make sure the baseline itself is stable
	// (a process that has run nothing else: a child of this binary per job)
	base := make([]string, len(jobs))
	for i, j := range jobs {
		out, err := loneRun(i)
		if err != nil {
			r.Violate("hist:lone-run-failed:"+j.Name, fmt.Sprintf("lone run of job %s in a fresh process failed: %v", j.Name, err), HistCase{Kind: "hist", Mode: "lone", Seq: []int{i}})
			continue
		}
		base[i] = out
		if strings.Contains(out, "ERR:") || strings.TrimSpace(out) == "" {
			// the comparison below would be vacuous
			r.Violate("harness:job-produces-no-output:"+j.Name, fmt.Sprintf("lone run of job %s produced no decode output: %q", j.Name, trunc(out, 200)), HistCase{Kind: "hist", Mode: "lone", Seq: []int{i}})
		}
		if again, _ := loneRun(i); again != base[i] {
			r.Violate("hist:lone-run-not-repeatable:"+j.Name, fmt.Sprintf("job %s: two lone runs (fresh processes) differ: %s", j.Name, firstDiff(base[i], again)), HistCase{Kind: "hist", Mode: "lone", Seq: []int{i}})
		}
		if strings.Contains(base[i], "PANIC") {
			r.Violate("hist:panic:"+j.Name, "job "+j.Name+" panics: "+trunc(base[i], 300), HistCase{Kind: "hist", Mode: "lone", Seq: []int{i}})
		}
	}
	fp0 := registryFingerprint()
	maxLen := core.Pick(r, 3, 4)
	n := len(jobs)
	var idx, evals int64
	var seq []int
	var rec func()
	rec = func() {
		if len(seq) > 0 {
			idx++
			if r.Mine(idx) && !r.Expired() {
				for _, mode := range []string{"fresh-interpreters", "one-interpreter"} {
					var s *fqrun.Session
					for k, ji := range seq {
						if s == nil || mode == "fresh-interpreters" {
							if s != nil {
								s.Close()
							}
							s, _ = fqrun.NewCLISession(fs)
						}
						got := runJob(s, jobs[ji])
						evals++
						if got != base[ji] {
							r.Violate("hist:output-differs:"+mode+":"+jobs[ji].Name, fmt.Sprintf("mode %s sequence %v: output of job #%d (%s) differs from its lone run: %s", mode, names(seq), k, jobs[ji].Name, firstDiff(base[ji], got)), HistCase{Kind: "hist", Mode: mode, Seq: append([]int{}, seq...)})
						}
						if fp := registryFingerprint(); fp != fp0 {
							r.Violate("hist:registry-defaults-mutated:"+jobs[ji].Name, fmt.Sprintf("mode %s sequence %v: after job #%d (%s) the default arguments in the format registry changed", mode, names(seq), k, jobs[ji].Name), HistCase{Kind: "hist", Mode: mode, Seq: append([]int{}, seq...)})
							fp0 = fp
						}
					}
					if s != nil {
						s.Close()
					}
				}
				if len(seq) > 1 {
					r.Nontrivial(fmt.Sprint(seq))
				}
				if idx%97 == 0 {
					r.Sample(map[string]any{"history": names(seq)})
				}
			}
		}
		if len(seq) == maxLen {
			return
		}
		for i := 0; i < n; i++ {
			seq = append(seq, i)
			rec()
			seq = seq[:len(seq)-1]
		}
	}
	rec()
	if r.Expired() {
		r.NotExhaustive("deadline in history enumeration")
	}
	r.Eval(evals)
	r.AddTransitions(evals)
	r.AddTraces(evals)
	r.AddStates(idx)
	r.Section(fmt.Sprintf("histories<=%d", maxLen))

	// mode c: one fq invocation with several inputs (probe), outputs in argument order
	// equal to the concatenation of the lone invocations
	cli := []string{"a.mp3", "b.gz", "c.pcap", "d.json"}
	lone := map[string]string{}
	for _, f := range cli {
		res := fqrun.Run(fqrun.Opts{Args: []string{"dv, (tovalue|tojson)", f}, Files: fs, StdinIsTerminal: true})
		lone[f] = string(res.Stdout)
	}
	var cidx int64
	var cs []string
	var crec func()
	crec = func() {
		if len(cs) > 1 {
			cidx++
			if r.Mine(cidx) && !r.Expired() {
				res := fqrun.Run(fqrun.Opts{Args: append([]string{"dv, (tovalue|tojson)"}, cs...), Files: fs, StdinIsTerminal: true})
				want := ""
				for _, f := range cs {
					want += lone[f]
				}
				evals++
				if string(res.Stdout) != want || res.Panic != nil {
					r.Violate("hist:cli-multi-input", fmt.Sprintf("fq EXPR %v: output differs from the concatenation of lone runs: %s panic=%v", cs, firstDiff(want, string(res.Stdout)), res.Panic), map[string]any{"kind": "cli", "files": cs})
				}
			}
		}
		if len(cs) == 3 {
			return
		}
		for _, f := range cli {
			cs = append(cs, f)
			crec()
			cs = cs[:len(cs)-1]
		}
	}
	crec()
	r.Section("cli-multi-input<=3")
}

func names(seq []int) []string {
	var o []string
	for _, i := range seq {
		o = append(o, jobs[i].Name)
	}
	return o
}

func trunc(s string, n int) string {
	if len(s) > n {
		return s[:n]
	}
	return s
}

func firstDiff(a, b string) string {
	la, lb := strings.Split(a, "\n"), strings.Split(b, "\n")
	for i := 0; i < len(la) || i < len(lb); i++ {
		var x, y string
		if i < len(la) {
			x = la[i]
		}
		if i < len(lb) {
			y = lb[i]
		}
		if x != y {
			return fmt.Sprintf("line %d: lone %q vs %q", i+1, trunc(x, 160), trunc(y, 160))
		}
	}
	return "(equal)"
}

// loneRun executes one job in a fresh child process of this binary.
func loneRun(i int) (string, error) {
	exe, err := os.Executable()
	if err != nil {
		return "", err
	}
	cmd := exec.Command(exe, "--tier", "quick")
	cmd.Env = append(os.Environ(), fmt.Sprintf("VERIF_C18_LONE=%d", i), "VERIF_SHARD=0/1", "VERIF_SHARD_OUT=/dev/null")
	out, err := cmd.Output()
	return string(out), err
}

func run(r *core.Run) {
	if s := os.Getenv("VERIF_C18_LONE"); s != "" {
		var i int
		fmt.Sscanf(s, "%d", &i)
		sess, err := fqrun.NewCLISession(files(r.Repo))
		if err != nil {
			panic(err)
		}
		fmt.Print(runJob(sess, jobs[i]))
		os.Stdout.Sync()
		os.Exit(0)
	}
	if os.Getenv("VERIF_C18_FREERUN") != "" {
		freeRun(r)
		freeRunCorpus(r)
		return
	}
	r.Rule("histories: all sequences of <= N jobs from the pool x 2 sharing modes, states = histories, transitions = jobs executed (each on the real interpreter); schedules: every interleaving of registry resolution threads (bounded then unbounded with pruning); non-trivial = history of >= 2 jobs / scenario with > 1 schedule")
	only := os.Getenv("VERIF_ONLY")
	// hooks: histories run outside any scheduled execution (hooks are no-ops there);
	// schedules run in other shards so that no straggler goroutine overlaps them
	schedShard := r.ShardN <= 1 || r.ShardIdx == 0
	if schedShard && (only == "" || only == "sched") {
		registrySchedules(r)
	}
	if only == "" || only == "hist" {
		histories(r)
	}
	if only == "" || only == "corpushist" {
		corpusHistories(r)
		optionHistories(r)
		// generated captures cut in two and decoded one after the other (shared with C19)
		c19.CrossCapture(r)
	}
	if only == "" || only == "valhist" {
		// evaluation histories on one decoded value (options set and unset)
		valueHistories(r)
	}
}

// parent: free running -race supplement (thorough tier; the race build is prepared by ./check)
func parent(r *core.Run) {
	bin := os.Getenv("VERIF_RACE_BIN")
	if bin == "" {
		r.Extra("free_running_race_pass", map[string]any{"ran": false, "why": "no race build (./check builds it when the toolchain supports -race)"})
		return
	}
	if o := os.Getenv("VERIF_ONLY"); o != "" && o != "freerun" {
		return
	}
	cmd := exec.Command(bin, "--tier", "quick")
	cmd.Env = append(os.Environ(), "VERIF_C18_FREERUN=1", "VERIF_SHARD=0/1", "VERIF_SHARD_OUT=/dev/null", "GORACE=halt_on_error=0 history_size=5")
	out, err := cmd.CombinedOutput()
	text := string(out)
	races := strings.Count(text, "WARNING: DATA RACE")
	njobs := 0
	if i := strings.Index(text, "FREERUN-JOBS "); i >= 0 {
		fmt.Sscanf(text[i:], "FREERUN-JOBS %d", &njobs)
	}
	done := strings.Contains(text, "FREERUN-DONE")
	r.Extra("free_running_race_pass", map[string]any{"ran": true, "completed": done, "corpus_jobs_each_on_two_goroutines": njobs, "data_races_reported": races, "exit_error": fmt.Sprint(err)})
	r.Count("freerun_concurrent_job_pairs", int64(njobs))
	if races > 0 {
		i := strings.Index(text, "WARNING: DATA RACE")
		// signature: the first fq frame of the report
		site := "unknown"
		for _, l := range strings.Split(text[i:], "\n") {
			l = strings.TrimSpace(l)
			if strings.HasPrefix(l, "github.com/wader/fq/") && !strings.Contains(l, "/internal/verif/") {
				site = strings.TrimPrefix(l, "github.com/wader/fq/")
				if k := strings.LastIndex(site, "("); k > 0 && strings.HasSuffix(site, ")") {
					site = site[:k]
				}
				break
			}
		}
		r.Violate("freerun:data-race:"+site, "Go race detector reported a data race between two concurrent decodes (free running pass): "+trunc(text[i:], 1500), map[string]any{"kind": "freerun"})
	}
	for _, l := range strings.Split(text, "\n") {
		if strings.HasPrefix(l, "FREERUN-DIFF ") {
			r.Violate("freerun:concurrent-result-differs", strings.TrimPrefix(l, "FREERUN-DIFF "), map[string]any{"kind": "freerun"})
		}
	}
	if !done && races == 0 {
		r.NotExhaustive("the free running race pass did not complete: " + trunc(text, 300))
	}
}

func replay(r *core.Run, raw json.RawMessage) bool {
	var k struct {
		Kind string `json:"kind"`
	}
	_ = json.Unmarshal(raw, &k)
	if is, bad := c19.ReplayCrossCapture(raw); is {
		return bad
	}
	sub := core.NewScratchRun(r)
	switch k.Kind {
	case "sched":
		return replaySched(r, raw)
	case "valhist":
		return replayValHist(r, raw)
	default:
		histories(sub)
	}
	for _, v := range sub.Violations() {
		fmt.Println("  ", v.Signature, v.What)
	}
	return len(sub.Violations()) > 0
}

// freeRun: the job bodies on 8 free running goroutines (race build).
func freeRun(r *core.Run) {
	fs := files(r.Repo)
	done := make(chan struct{})
	for g := 0; g < 8; g++ {
		go func(g int) {
			defer func() { done <- struct{}{} }()
			for k := 0; k < 6; k++ {
				s, err := fqrun.NewCLISession(fs)
				if err != nil {
					return
				}
				_ = runJob(s, jobs[(g+k)%len(jobs)])
				s.Close()
			}
		}(g)
	}
	for g := 0; g < 8; g++ {
		<-done
	}
}
