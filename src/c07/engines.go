package c07

import (
	"context"
	"fmt"
	"strings"
	"time"

	"github.com/wader/fq/internal/verif/core"
	"github.com/wader/fq/internal/verif/fqrun"
	"github.com/wader/fq/pkg/interp"
	"github.com/wader/gojq"
)

// outCap bounds the outputs collected from one (program, input) evaluation. The
// grammar has no unbounded generators, so the cap is a safety net only; hitting it
// is counted and the case is compared on the common prefix.
const outCap = 4096

// ---------------------------------------------------------------------------
// Reference engine: the gojq fork fq links, bare. No fq prelude, no module loader,
// no fq functions. The only embedder supplied pieces are the ones gojq's own
// command line supplies because the library leaves them to the embedder:
// debug/0 and stderr/0 (side effect on stderr, value passed through unchanged).

func passThrough(v any, _ []any) any { return v }

var refBaseOpts = []gojq.CompilerOption{
	gojq.WithFunction("debug", 0, 0, passThrough),
	gojq.WithFunction("stderr", 0, 0, passThrough),
}

func refCompile(text string, extra ...gojq.CompilerOption) (*gojq.Code, error) {
	q, err := gojq.Parse(text)
	if err != nil {
		return nil, err
	}
	opts := append(append([]gojq.CompilerOption{}, refBaseOpts...), extra...)
	return gojq.Compile(q, opts...)
}

// refRun runs compiled code on a private copy of input.
func refRun(code *gojq.Code, input any, vars ...any) Obs {
	ctx, cancel := context.WithTimeout(context.Background(), 20*time.Second)
	defer cancel()
	var o Obs
	pv, _ := core.Protect(func() {
		drain(code.RunWithContext(ctx, clone(input), vars...), &o)
	})
	if pv != nil {
		// the reference engine itself crashed (a defect of the gojq fork, which fq
		// shares): recorded as a failure at this point of the stream
		o.Err = true
		o.Msg = "GO PANIC in reference: " + core.PanicString(pv)
		o.Panic = true
	}
	return o
}

func drain(it gojq.Iter, o *Obs) {
	for {
		v, ok := it.Next()
		if !ok {
			return
		}
		if e, ok := v.(error); ok {
			o.Err = true
			o.Msg = e.Error()
			return
		}
		if len(o.Outs) >= outCap {
			o.Trunc = true
			return
		}
		o.Outs = append(o.Outs, canon(v))
	}
}

// ---------------------------------------------------------------------------
// Subject: fq's interpreter (interp.Interp.Eval through fqrun.Session), i.e. the
// same program text compiled with fq's whole prelude in scope.

type fqEngine struct {
	s      *fqrun.Session
	evals  int
	panics int
	// step brackets every single interpreter call for the livelock watchdog
	step func(what, prog string) func()
}

func (e *fqEngine) begin(what, prog string) func() {
	if e.step == nil {
		return func() {}
	}
	return e.step(what, prog)
}

// panicked: a Go panic unwound through the interpreter. It is replaced now and
// then rather than every time (a new interpreter costs ~50 ms; programs that panic
// come in runs).
func (e *fqEngine) panicked() {
	e.panics++
	if e.panics%16 == 0 {
		e.reset()
	}
}

func newFQ() *fqEngine {
	e := &fqEngine{}
	e.reset()
	return e
}

func (e *fqEngine) reset() {
	if e.s != nil {
		e.s.Close()
	}
	s, err := fqrun.NewSession(nil)
	if err != nil {
		panic("c07: cannot start fq session: " + err.Error())
	}
	e.s = s
	e.evals = 0
}

// tick recycles the interpreter now and then so that captured stderr (debug
// output) does not accumulate without bound.
func (e *fqEngine) tick() {
	e.evals++
	if e.evals >= 400 {
		e.reset()
	}
}

// run evaluates one program text unbatched on a private copy of input. A parse or
// compile failure is returned separately (fq reports it instead of an iterator).
func (e *fqEngine) run(text string, input any) (o Obs, compileErr error) {
	e.tick()
	defer e.begin("one program", text)()
	pv, stack := core.Protect(func() {
		it, err := e.s.I.Eval(e.s.Ctx, clone(input), text, interp.EvalOpts{})
		if err != nil {
			o, compileErr = Obs{Err: true, Msg: "compile: " + err.Error()}, err
			return
		}
		drain(it, &o)
	})
	if pv != nil {
		o.Err = true
		o.Panic = true
		o.Msg = "GO PANIC: " + core.PanicString(pv) + " @ " + core.PanicSite(stack)
		e.panicked()
	}
	return o, compileErr
}

// batchText wraps n programs so that one compile of fq's prelude serves all of
// them: for each input of the input array, one array per program holding every
// output wrapped as [v] followed by null if the program ended with an error.
//
//	.[] as $__c07in | [ [try ($__c07in | (P1) | [.]) catch null], ... ]
//
// Each program sits in its own parenthesised scope (defs, labels and variables do
// not leak), `try` passes earlier outputs on and catches the error exactly where
// it happens, and outputs are wrapped so that a program yielding null is distinct
// from the error marker. Programs reading `input` are never batched.
func batchText(progs []string) string {
	var b strings.Builder
	b.WriteString(".[] as $__c07in | [")
	for i, p := range progs {
		if i > 0 {
			b.WriteString(",")
		}
		b.WriteString("\n[try ($__c07in | (")
		b.WriteString(p)
		b.WriteString(") | [.]) catch null]")
	}
	b.WriteString("\n]")
	return b.String()
}

// runBatch returns obs[input][program].
func (e *fqEngine) runBatch(progs []string, inputs []any) ([][]Obs, error) {
	if len(progs) == 0 {
		return make([][]Obs, len(inputs)), nil
	}
	e.tick()
	defer e.begin(fmt.Sprintf("a batch of %d programs starting with", len(progs)), progs[0])()
	in := make([]any, len(inputs))
	for i, v := range inputs {
		in[i] = clone(v)
	}
	outs, err := e.s.Eval(in, batchText(progs))
	if err != nil {
		return nil, err
	}
	if len(outs) != len(inputs) {
		return nil, fmt.Errorf("batch produced %d rows for %d inputs", len(outs), len(inputs))
	}
	res := make([][]Obs, len(inputs))
	for i, row := range outs {
		cols, ok := row.([]any)
		if !ok || len(cols) != len(progs) {
			return nil, fmt.Errorf("batch row %d malformed", i)
		}
		res[i] = make([]Obs, len(progs))
		for j, c := range cols {
			items, ok := c.([]any)
			if !ok {
				return nil, fmt.Errorf("batch cell %d/%d malformed", i, j)
			}
			var o Obs
			for k, it := range items {
				if it == nil {
					if k != len(items)-1 {
						return nil, fmt.Errorf("batch cell %d/%d: error marker not last", i, j)
					}
					o.Err = true
					break
				}
				w, ok := it.([]any)
				if !ok || len(w) != 1 {
					return nil, fmt.Errorf("batch cell %d/%d: item not wrapped", i, j)
				}
				o.Outs = append(o.Outs, canon(w[0]))
			}
			res[i][j] = o
		}
	}
	return res, nil
}

// runBatchRobust is runBatch that cannot fail: a batch that breaks as a whole (a
// Go panic, an error `try` cannot catch, a compile error only fq reports) is
// bisected until the offending programs are isolated; those are evaluated
// unbatched. unbatched[j] tells which programs that happened to.
func (e *fqEngine) runBatchRobust(progs []string, inputs []any) (obs [][]Obs, unbatched map[int]bool) {
	obs = make([][]Obs, len(inputs))
	for i := range obs {
		obs[i] = make([]Obs, len(progs))
	}
	unbatched = map[int]bool{}
	var rec func(lo, hi int)
	rec = func(lo, hi int) {
		if lo >= hi {
			return
		}
		if hi-lo == 1 {
			if res, err := e.runBatch(progs[lo:hi], inputs); err == nil {
				for i := range inputs {
					obs[i][lo] = res[i][0]
				}
				return
			} else if _, isPanic := fqrun.IsPanic(err); isPanic {
				e.panicked()
			}
			unbatched[lo] = true
			for i, in := range inputs {
				obs[i][lo], _ = e.run(progs[lo], in)
			}
			return
		}
		res, err := e.runBatch(progs[lo:hi], inputs)
		if err == nil {
			for i := range inputs {
				copy(obs[i][lo:hi], res[i])
			}
			return
		}
		if _, isPanic := fqrun.IsPanic(err); isPanic {
			e.panicked()
		}
		mid := (lo + hi) / 2
		rec(lo, mid)
		rec(mid, hi)
	}
	rec(0, len(progs))
	return obs, unbatched
}
