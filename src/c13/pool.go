package c13

import (
	"bytes"
	"compress/gzip"
	"fmt"
	"math/big"
	"strings"
	"sync"
)

// poolItem is one boundary value. Expr is a jq expression that builds it inside
// fq (binaries and decode values have no JSON form); Expr is also what violation
// reports print, so every reported case is a runnable fq expression.
type poolItem struct {
	Expr string
	Type string // coarse class used for the non-triviality key
}

// gzipSample is the buffer the decode values of the pool are taken from: a gzip
// member (struct root, "members" array, scalar with symbol mapping, raw bits).
func gzipSample() []byte {
	var b bytes.Buffer
	w, _ := gzip.NewWriterLevel(&b, gzip.NoCompression)
	w.Name = "a"
	_, _ = w.Write([]byte("hello"))
	_ = w.Close()
	return b.Bytes()
}

func gzipSampleExpr() string {
	var sb strings.Builder
	sb.WriteString("[")
	for i, c := range gzipSample() {
		if i > 0 {
			sb.WriteString(",")
		}
		fmt.Fprintf(&sb, "%d", c)
	}
	sb.WriteString("]")
	return sb.String()
}

// ---------------------------------------------------------------------------
// cborSample: the second decode sample of the pool. The gzip member has no decoded
// string, float, boolean, null or big integer scalar, no synthetic (range-less) value
// and no second root buffer; a CBOR document has all of them. It is written as a
// jq byte list (numbers, strings and nested lists, what tobytes accepts), decoded with
// the cbor function of the tree under test and bound to $c. Content:
//   - unsigned 0, 255, 2^64-1; negative -1, -2^64 (big integer scalars);
//   - byte strings: empty, 3 bytes, indefinite length (value in its own root buffer);
//   - text strings on a grid of byte and rune lengths around the default
//     string_truncate (50) and the levels the option objects give it:
//     "é" x {26,40,49,50,51} (bytes > 50 > runes .. runes > 50), "a" x {49,50,51},
//     "€" x 17 (51 bytes), U+1F600 x {13,50,51} (52, 200, 204 bytes), 30 "a" + 15 "é",
//     "", "a", invalid UTF-8, control characters/escape sequence/quote/backslash,
//     an indefinite length string (synthetic value without a range);
//   - floats: half 1.0, half NaN, single +Inf, double -0.0, 1e308, 0.5, -Inf;
//   - false, true, null, undefined; a bignum tag, a date tag; a map whose key is
//     a long multi-byte string; empty array, empty map; a trailing byte (gap field).
// fq's decoder leaves the break byte of an indefinite byte/text string to the enclosing
// array (it becomes an element of its own); the element count accounts for that so
// that the whole document is consumed.
type cborDoc struct {
	parts []string
	n     int            // elements of the top level array as fq counts them
	at    map[string]int // name -> element index
}

func (c *cborDoc) add(name string, consumed int, frag string) {
	if name != "" {
		c.at[name] = c.n
	}
	c.n += consumed
	c.parts = append(c.parts, frag)
}

// cborText: header of a definite length text string of byteLen bytes followed by the
// jq expression that yields the string.
func cborText(expr string, byteLen int) string {
	switch {
	case byteLen <= 23:
		return fmt.Sprintf("%d,%s", 0x60+byteLen, expr)
	case byteLen <= 255:
		return fmt.Sprintf("120,%d,%s", byteLen, expr)
	}
	return fmt.Sprintf("121,%d,%d,%s", byteLen>>8, byteLen&255, expr)
}

func rep(s string, n int) string { return fmt.Sprintf("(%q*%d)", s, n) }

var (
	cborOnce sync.Once
	cborExpr string
	cborAt   map[string]int
)

func cborSample() (string, map[string]int) {
	cborOnce.Do(func() {
		c := &cborDoc{at: map[string]int{}}
		ff8 := "255,255,255,255,255,255,255,255"
		c.add("uint0", 1, "0")
		c.add("uint255", 1, "24,255")
		c.add("uint64max", 1, "27,"+ff8)
		c.add("neg1", 1, "32")
		c.add("negbig", 1, "59,"+ff8)
		c.add("bytes0", 1, "64")
		c.add("bytes3", 1, "67,0,255,128")
		c.add("bytesindef", 2, "95,65,97,66,98,99,255")
		c.add("str0", 1, "96")
		c.add("str1", 1, cborText(`"a"`, 1))
		for _, n := range []int{26, 40, 49, 50, 51} {
			c.add(fmt.Sprintf("e%d", n), 1, cborText(rep("é", n), 2*n))
		}
		for _, n := range []int{49, 50, 51} {
			c.add(fmt.Sprintf("a%d", n), 1, cborText(rep("a", n), n))
		}
		c.add("euro17", 1, cborText(rep("€", 17), 51))
		for _, n := range []int{13, 50, 51} {
			c.add(fmt.Sprintf("emoji%d", n), 1, cborText(rep("\U0001F600", n), 4*n))
		}
		c.add("mixed", 1, cborText(`("a"*30+"é"*15)`, 60))
		c.add("badutf8", 1, "98,255,254")
		c.add("ctrl", 1, cborText(`"\u0000\n\t\"\\\u001b[31m\u007f"`, 11))
		c.add("strindef", 2, "127,97,97,"+cborText(rep("é", 40), 80)+",255")
		c.add("f16one", 1, "249,60,0")
		c.add("f16nan", 1, "249,126,0")
		c.add("f32inf", 1, "250,127,128,0,0")
		c.add("f64negzero", 1, "251,128,0,0,0,0,0,0,0")
		c.add("f64big", 1, "251,127,225,204,243,133,235,200,160") // 1e308
		c.add("f64half", 1, "251,63,224,0,0,0,0,0,0")
		c.add("f64neginf", 1, "251,255,240,0,0,0,0,0,0")
		c.add("false", 1, "244")
		c.add("true", 1, "245")
		c.add("null", 1, "246")
		c.add("undefined", 1, "247")
		c.add("bignum", 1, "194,73,1,0,0,0,0,0,0,0,0")
		c.add("date", 1, "192,"+cborText(`"2013-03-21T20:04:00Z"`, 20))
		c.add("map", 1, "162,"+cborText(`"a"`, 1)+",1,"+cborText(rep("é", 40), 80)+",130,1,129,128")
		c.add("array0", 1, "128")
		c.add("map0", 1, "160")
		head := fmt.Sprintf("152,%d", c.n)
		if c.n > 255 {
			panic("c13: cbor sample has too many elements")
		}
		// one trailing byte: a gap field at the root
		cborExpr = "[" + head + "," + strings.Join(c.parts, ",") + ",0]"
		cborAt = c.at
	})
	return cborExpr, cborAt
}

// cborVal: the expression of the value field of a named element of $c.
func cborVal(name string) string {
	_, at := cborSample()
	i, ok := at[name]
	if !ok {
		panic("c13: no cbor sample element " + name)
	}
	return fmt.Sprintf("$c.elements[%d].value", i)
}

// wideBin: a binary with the given unit over the 26 letters (208 bits). Only the
// registered Go function _tobits gives a binary a unit other than 1 and 8; the unit
// is not limited to 64 bits (a unit is an arbitrary precision number when indexed).
func wideBin(unit int, keepRange bool) string {
	return fmt.Sprintf(`("abcdefghijklmnopqrstuvwxyz"|_tobits({unit:%d,keep_range:%v,pad_to_units:0}))`, unit, keepRange)
}

// coarseType: the pool types "x:y" refine the class x (used where one input per class
// is selected).
func coarseType(t string) string {
	if i := strings.IndexByte(t, ':'); i >= 0 && !strings.HasPrefix(t, "opt:") {
		return t[:i]
	}
	return t
}

// basePool: the boundary values per jq type of DESIGN §C13.
func basePool(thorough bool) []poolItem {
	p := []poolItem{
		{"null", "null"},
		{"true", "boolean"},
		{"false", "boolean"},
		{"0", "number"},
		{"-1", "number"},
		{"1", "number"},
		{"0.5", "number"},
		{"63", "number"},
		{"64", "number"},
		{"65", "number"},
		{"2147483648", "number"},           // 2^31
		{"9223372036854775808", "bignum"},  // 2^63
		{"18446744073709551616", "bignum"}, // 2^64
		{"-9223372036854775809", "bignum"}, // -2^63-1
		{"1e308", "number"},
		{"nan", "number"},
		{`""`, "string"},
		{`"a"`, "string"},
		{`("a"*10240)`, "string"},               // 10 KiB
		{`([255,254,128,0]|tobytes)`, "binary"}, // invalid UTF-8
		{`("a"|tobits|.[0:3])`, "binary"},       // 3 bits, not byte aligned
		{"[]", "array"},
		{"[0]", "array"},
		{"[[[]]]", "array"},
		{"{}", "object"},
		{`{"a":null}`, "object"},
		{"$d", "decode_struct"},
		{"$d.members", "decode_array"},
		{"$d.members[0].compression_method", "decode_scalar"},
		{"$d.members[0].compressed", "decode_raw"},
		// the CBOR sample: every scalar kind, strings on the byte/rune length grid
		{"$c", "decode_struct:scalars"},
		// a decoded multi-byte string scalar (80 bytes, 40 runes)
		{cborVal("e40"), "decode_scalar:string"},
		// a binary whose unit is wider than 64 bits (2 units of 72 bits + 64 bits)
		{wideBin(72, true), "binary:wideunit"},
	}
	if thorough {
		p = append(p,
			poolItem{cborVal("e26"), "decode_scalar:string"},
			poolItem{cborVal("e49"), "decode_scalar:string"},
			poolItem{cborVal("emoji13"), "decode_scalar:string"},
			poolItem{cborVal("ctrl"), "decode_scalar:string"},
			poolItem{cborVal("strindef"), "decode_scalar:string_synthetic"},
			poolItem{cborVal("negbig"), "decode_scalar:bigint"},
			poolItem{cborVal("f16nan"), "decode_scalar:float"},
			poolItem{cborVal("true"), "decode_scalar:boolean"},
			poolItem{cborVal("null"), "decode_scalar:null"},
			poolItem{cborVal("bytesindef"), "decode_raw:nested_root"},
			poolItem{"$c.elements", "decode_array:scalars"},
			poolItem{wideBin(13, true), "binary:unit13"},
			poolItem{wideBin(64, true), "binary:unit64"},
			poolItem{wideBin(65, false), "binary:wideunit"},
			poolItem{wideBin(104, true), "binary:wideunit"},
			poolItem{wideBin(1000, true), "binary:wideunit"},
		)
		p = append(p,
			poolItem{"-0.5", "number"},
			poolItem{"4294967296", "number"},           // 2^32
			poolItem{"9007199254740993", "number"},     // 2^53+1
			poolItem{"9223372036854775807", "number"},  // 2^63-1 (max int)
			poolItem{"-9223372036854775808", "number"}, // -2^63 (min int)
			poolItem{"infinite", "number"},
			poolItem{"-infinite", "number"},
			poolItem{"-1e308", "number"},
			poolItem{`"\u0000"`, "string"},
			poolItem{`"1"`, "string"},
			poolItem{`"é€😀"`, "string"},
			poolItem{`[null]`, "array"},
			poolItem{`[1,"a"]`, "array"},
			poolItem{`[["a","b"]]`, "array"},
			poolItem{`{"a":{"a":[]}}`, "object"},
			poolItem{`{"":""}`, "object"},
			poolItem{`(""|tobytes)`, "binary"},
			poolItem{"$d.members[0]", "decode_struct"},
			poolItem{"$d.members[0].uncompressed", "decode_raw"},
		)
	}
	return p
}

// the statement that binds $d (decode sample) in front of the pool array
func poolPrelude() string {
	ce, _ := cborSample()
	return "(" + gzipSampleExpr() + " | tobytes | gzip) as $d | (" + ce + " | tobytes | cbor) as $c"
}

type optVal struct {
	Expr string
	Val  any
}

func optValues(thorough bool) []optVal {
	two63, _ := new(big.Int).SetString("9223372036854775808", 10)
	vs := []optVal{
		{`"a"`, "a"}, // wrong type for numbers/booleans/maps
		{"-1", -1},   // negative; wrong type for strings
		{"0", 0},
		{"2147483648", 2147483648},
		{"9223372036854775808", two63},
	}
	if thorough {
		two64, _ := new(big.Int).SetString("18446744073709551616", 10)
		vs = append(vs,
			optVal{"null", nil},
			optVal{"true", true},
			optVal{"1", 1},
			optVal{"65", 65},
			optVal{"0.5", 0.5},
			optVal{"1e308", 1e308},
			optVal{"18446744073709551616", two64},
			optVal{`""`, ""},
			optVal{"[0]", []any{0}},
			optVal{`{"a":null}`, map[string]any{"a": nil}},
		)
	}
	return vs
}

// optionObjects: for every key one object per value with only that member set
// (every other member of the option object is therefore "missing"; the object with
// all members missing, {}, is in the base pool).
func optionObjects(keys []string, thorough bool) (items []poolItem, vals []any) {
	for _, k := range keys {
		for _, v := range optValues(thorough) {
			items = append(items, poolItem{Expr: fmt.Sprintf("{%q:%s}", k, v.Expr), Type: "opt:" + k})
			vals = append(vals, map[string]any{k: v.Val})
		}
	}
	return items, vals
}

// ---------------------------------------------------------------------------
// covering array of strength 2 (all pairs) for k factors with n levels each:
// orthogonal array OA(p^2, k, p, 2) for a prime p >= max(n, k-1), rows (i, j),
// column c < k-1 has value (i + c*j) mod p, the last column has value j; levels
// >= n are folded with mod n (a surjection keeps every pair covered).

func nextPrime(n int) int {
	for p := n; ; p++ {
		if p < 2 {
			continue
		}
		ok := true
		for d := 2; d*d <= p; d++ {
			if p%d == 0 {
				ok = false
				break
			}
		}
		if ok {
			return p
		}
	}
}

func coveringArray(k, n int) [][]int {
	m := n
	if k-1 > m {
		m = k - 1
	}
	p := nextPrime(m)
	rows := make([][]int, 0, p*p)
	seen := map[string]bool{}
	for i := 0; i < p; i++ {
		for j := 0; j < p; j++ {
			row := make([]int, k)
			for c := 0; c < k-1; c++ {
				row[c] = ((i + c*j) % p) % n
			}
			row[k-1] = j % n
			key := fmt.Sprint(row)
			if !seen[key] {
				seen[key] = true
				rows = append(rows, row)
			}
		}
	}
	return rows
}

// pairsCovered verifies the strength-2 claim (used for the evidence, and a harness
// self check): every pair of columns sees all n*n value pairs.
func pairsCovered(rows [][]int, k, n int) bool {
	for a := 0; a < k; a++ {
		for b := a + 1; b < k; b++ {
			seen := make([]bool, n*n)
			cnt := 0
			for _, r := range rows {
				x := r[a]*n + r[b]
				if !seen[x] {
					seen[x] = true
					cnt++
				}
			}
			if cnt != n*n {
				return false
			}
		}
	}
	return true
}

// tupleSpace enumerates the tuples (input, arg1, .., argK) of one function as
// indices into its pool. Shapes:
//   - full: the full product n^k (k = arity+1 factors);
//   - covering: strength-2 covering array only (arity >= 3);
//   - basepairs (quick tier, only when the full product exceeds the tier's cap,
//     which happens for arity-2 functions with many option keys): the full product
//     over the base pool plus a strength-2 covering array over the whole pool (every
//     pair of values, option objects included, in every pair of positions occurs);
//   - mixed (thorough tier over its cap): basepairs plus every option object in
//     every single position against the full base product in the other positions.
//
// In the product shapes the input varies fastest, so the tuples that share an
// argument vector are adjacent (the runaway rule of exec.go relies on that).
type tupleSpace struct {
	// inputs: shape "inputs": the values of position 0 (the input) are these pool indices,
	// the arguments range over the whole pool
	inputs []int
	k, n   int
	nbase  int
	shape  string
	rows   [][]int
	nA     int64 // size of the base product
	nB     int64 // mixed: size of the single-option region
	count  int64
}

func ipow(b int64, e int) int64 {
	r := int64(1)
	for i := 0; i < e; i++ {
		r *= b
	}
	return r
}

func newTupleSpace(arity, n, nbase int, fullArity int, fullCap int64, overCapShape string) *tupleSpace {
	ts := &tupleSpace{k: arity + 1, n: n, nbase: nbase}
	if arity > fullArity {
		ts.shape = "covering"
		ts.rows = coveringArray(ts.k, n)
		ts.count = int64(len(ts.rows))
		return ts
	}
	full := ipow(int64(n), ts.k)
	if full <= fullCap || n == nbase {
		ts.shape = "full"
		ts.count = full
		return ts
	}
	ts.shape = overCapShape
	ts.rows = coveringArray(ts.k, n)
	ts.nA = ipow(int64(nbase), ts.k)
	if ts.shape == "mixed" {
		ts.nB = int64(ts.k) * int64(n-nbase) * ipow(int64(nbase), ts.k-1)
	}
	ts.count = ts.nA + ts.nB + int64(len(ts.rows))
	return ts
}

// digits: mixed radix decomposition, position 0 (the input) is the least
// significant digit, then the last argument, ..., the first argument.
func digits(i int64, base, k int) []int {
	t := make([]int, k)
	t[0] = int(i % int64(base))
	i /= int64(base)
	for c := k - 1; c >= 1; c-- {
		t[c] = int(i % int64(base))
		i /= int64(base)
	}
	return t
}

// newInputTupleSpace: input from the given pool indices x full product of the arguments.
func newInputTupleSpace(arity, n, nbase int, inputs []int) *tupleSpace {
	ts := &tupleSpace{k: arity + 1, n: n, nbase: nbase, shape: "inputs", inputs: inputs}
	ts.count = int64(len(inputs)) * ipow(int64(n), arity)
	return ts
}

func (ts *tupleSpace) at(i int64) []int {
	switch ts.shape {
	case "inputs":
		t := make([]int, ts.k)
		t[0] = ts.inputs[int(i%int64(len(ts.inputs)))]
		i /= int64(len(ts.inputs))
		for c := ts.k - 1; c >= 1; c-- {
			t[c] = int(i % int64(ts.n))
			i /= int64(ts.n)
		}
		return t
	case "covering":
		return ts.rows[i]
	case "full":
		return digits(i, ts.n, ts.k)
	}
	if i < ts.nA {
		return digits(i, ts.nbase, ts.k)
	}
	i -= ts.nA
	if i < ts.nB {
		rest := ipow(int64(ts.nbase), ts.k-1)
		block := int64(ts.n-ts.nbase) * rest
		pos := int(i / block)
		i %= block
		opt := int(i / rest)
		d := digits(i%rest, ts.nbase, ts.k-1)
		if pos == 0 {
			// digits() treats its position 0 specially; for an option object in the
			// input position any bijection of the remaining positions will do
			t := make([]int, 0, ts.k)
			t = append(t, ts.nbase+opt)
			return append(t, d...)
		}
		t := make([]int, 0, ts.k)
		t = append(t, d[:pos]...)
		t = append(t, ts.nbase+opt)
		t = append(t, d[pos:]...)
		return t
	}
	return ts.rows[i-ts.nB]
}
