package c04

// Hand-written writers for the tls-handshakes section: Ethernet/IPv4/TCP framing and
// the classic pcap file (a copy of the ~100 lines of src/c19/wire.go that are needed
// here; nothing uses gopacket, which fq reassembles with, or any fq code), and a TLS
// record / handshake message writer after RFC 2246/4346/5246 (records, hello messages,
// Certificate, ServerKeyExchange, ServerHelloDone, ClientKeyExchange, ChangeCipherSpec,
// Finished), RFC 4279/5489 (PSK key exchange messages) and RFC 4492 (EC key exchange).

import (
	"encoding/binary"
	"fmt"
	"strconv"
	"strings"
)

// ---------------------------------------------------------------------------
// packets and capture file

func tlsOnesSum(sum uint32, b []byte) uint32 {
	for i := 0; i+1 < len(b); i += 2 {
		sum += uint32(b[i])<<8 | uint32(b[i+1])
	}
	if len(b)%2 == 1 {
		sum += uint32(b[len(b)-1]) << 8
	}
	return sum
}

func tlsFoldSum(sum uint32) uint16 {
	for sum>>16 != 0 {
		sum = sum&0xffff + sum>>16
	}
	return uint16(sum)
}

const (
	tcpFIN = 0x01
	tcpSYN = 0x02
	tcpPSH = 0x08
	tcpACK = 0x10
)

// tcpSegment: TCP header without options + payload, correct checksum (RFC 793).
func tcpSegment(srcIP, dstIP [4]byte, srcPort, dstPort uint16, seq, ack uint32, flags byte, payload []byte) []byte {
	b := make([]byte, 20+len(payload))
	binary.BigEndian.PutUint16(b[0:], srcPort)
	binary.BigEndian.PutUint16(b[2:], dstPort)
	binary.BigEndian.PutUint32(b[4:], seq)
	binary.BigEndian.PutUint32(b[8:], ack)
	b[12] = 5 << 4
	b[13] = flags
	binary.BigEndian.PutUint16(b[14:], 0xfaf0)
	copy(b[20:], payload)
	var ph [12]byte
	copy(ph[0:], srcIP[:])
	copy(ph[4:], dstIP[:])
	ph[9] = 6
	binary.BigEndian.PutUint16(ph[10:], uint16(len(b)))
	binary.BigEndian.PutUint16(b[16:], ^tlsFoldSum(tlsOnesSum(tlsOnesSum(0, ph[:]), b)))
	return b
}

// ipv4Datagram: IPv4 header (IHL 5, DF) around payload (RFC 791).
func ipv4Datagram(srcIP, dstIP [4]byte, id uint16, proto byte, payload []byte) []byte {
	b := make([]byte, 20+len(payload))
	b[0] = 0x45
	binary.BigEndian.PutUint16(b[2:], uint16(len(b)))
	binary.BigEndian.PutUint16(b[4:], id)
	binary.BigEndian.PutUint16(b[6:], 0x4000)
	b[8] = 64
	b[9] = proto
	copy(b[12:], srcIP[:])
	copy(b[16:], dstIP[:])
	binary.BigEndian.PutUint16(b[10:], ^tlsFoldSum(tlsOnesSum(0, b[:20])))
	copy(b[20:], payload)
	return b
}

func etherFrame(toServer bool, ip []byte) []byte {
	macA := []byte{0x02, 0, 0, 0, 0, 0x0a}
	macB := []byte{0x02, 0, 0, 0, 0, 0x0b}
	src, dst := macA, macB
	if !toServer {
		src, dst = macB, macA
	}
	b := make([]byte, 0, 14+len(ip))
	b = append(b, dst...)
	b = append(b, src...)
	b = append(b, 0x08, 0x00)
	return append(b, ip...)
}

// pcapFile: classic little endian pcap, link type ethernet.
func pcapFile(frames [][]byte) []byte {
	le := binary.LittleEndian
	out := make([]byte, 24)
	le.PutUint32(out[0:], 0xa1b2c3d4)
	le.PutUint16(out[4:], 2)
	le.PutUint16(out[6:], 4)
	le.PutUint32(out[16:], 262144)
	le.PutUint32(out[20:], 1)
	for i, f := range frames {
		var h [16]byte
		le.PutUint32(h[0:], 1700000000+uint32(i))
		le.PutUint32(h[4:], uint32(i)*1000)
		le.PutUint32(h[8:], uint32(len(f)))
		le.PutUint32(h[12:], uint32(len(f)))
		out = append(out, h[:]...)
		out = append(out, f...)
	}
	return out
}

// tcpSeg is one data segment of the conversation.
type tcpSeg struct {
	fromClient bool
	payload    []byte
}

// tcpConversation: a complete connection (SYN, SYN-ACK, ACK, data segments in the
// order given, FIN each way, last ACK) as a pcap file.
func tcpConversation(segs []tcpSeg) []byte {
	cIP, sIP := [4]byte{10, 0, 0, 1}, [4]byte{10, 0, 0, 2}
	const cPort, sPort = 40123, 443
	cSeq, sSeq := uint32(1000), uint32(500000)
	var frames [][]byte
	id := uint16(1)
	send := func(fromClient bool, flags byte, payload []byte) {
		var seg []byte
		if fromClient {
			ack := sSeq
			if flags&tcpACK == 0 {
				ack = 0
			}
			seg = tcpSegment(cIP, sIP, cPort, sPort, cSeq, ack, flags, payload)
			frames = append(frames, etherFrame(true, ipv4Datagram(cIP, sIP, id, 6, seg)))
		} else {
			seg = tcpSegment(sIP, cIP, sPort, cPort, sSeq, cSeq, flags, payload)
			frames = append(frames, etherFrame(false, ipv4Datagram(sIP, cIP, id, 6, seg)))
		}
		id++
		adv := uint32(len(payload))
		if flags&(tcpSYN|tcpFIN) != 0 {
			adv++
		}
		if fromClient {
			cSeq += adv
		} else {
			sSeq += adv
		}
	}
	send(true, tcpSYN, nil)
	send(false, tcpSYN|tcpACK, nil)
	send(true, tcpACK, nil)
	for _, s := range segs {
		send(s.fromClient, tcpACK|tcpPSH, s.payload)
	}
	send(true, tcpFIN|tcpACK, nil)
	send(false, tcpFIN|tcpACK, nil)
	send(true, tcpACK, nil)
	return pcapFile(frames)
}

// ---------------------------------------------------------------------------
// TLS

const (
	recCCS       = 20
	recAlert     = 21
	recHandshake = 22
	recAppData   = 23

	hsClientHello       = 1
	hsServerHello       = 2
	hsCertificate       = 11
	hsServerKeyExchange = 12
	hsServerHelloDone   = 14
	hsClientKeyExchange = 16
	hsFinished          = 20
)

var hsNames = map[int]string{
	hsClientHello: "client_hello", hsServerHello: "server_hello", hsCertificate: "certificate",
	hsServerKeyExchange: "server_key_exchange", hsServerHelloDone: "server_hello_done",
	hsClientKeyExchange: "client_key_exchange", hsFinished: "finished",
}

func tlsRecord(typ byte, ver uint16, payload []byte) []byte {
	b := []byte{typ, byte(ver >> 8), byte(ver), byte(len(payload) >> 8), byte(len(payload))}
	return append(b, payload...)
}

func hsMessage(typ byte, body []byte) []byte {
	b := []byte{typ, byte(len(body) >> 16), byte(len(body) >> 8), byte(len(body))}
	return append(b, body...)
}

func vec8(b []byte) []byte  { return append([]byte{byte(len(b))}, b...) }
func vec16(b []byte) []byte { return append([]byte{byte(len(b) >> 8), byte(len(b))}, b...) }
func vec24(b []byte) []byte {
	return append([]byte{byte(len(b) >> 16), byte(len(b) >> 8), byte(len(b))}, b...)
}

func tlsRandom(seed byte) []byte {
	b := make([]byte, 32)
	// gmt_unix_time 2023-11-14
	binary.BigEndian.PutUint32(b, 1700000000)
	for i := 4; i < 32; i++ {
		b[i] = seed + byte(i)
	}
	return b
}

// helloExtensions: renegotiation_info (empty) and ec_point_formats, TLS 1.0+.
func helloExtensions() []byte {
	var e []byte
	e = append(e, 0xff, 0x01, 0x00, 0x01, 0x00)       // renegotiation_info, 1 byte: empty
	e = append(e, 0x00, 0x0b, 0x00, 0x02, 0x01, 0x00) // ec_point_formats: uncompressed
	return vec16(e)
}

func clientHelloBody(ver uint16, suites []uint16, ext bool) []byte {
	b := []byte{byte(ver >> 8), byte(ver)}
	b = append(b, tlsRandom(0x10)...)
	b = append(b, 0) // session id
	var cs []byte
	for _, s := range suites {
		cs = append(cs, byte(s>>8), byte(s))
	}
	b = append(b, vec16(cs)...)
	b = append(b, 1, 0) // compression methods: null
	if ext {
		b = append(b, helloExtensions()...)
	}
	return b
}

func serverHelloBody(ver uint16, suite uint16, ext bool) []byte {
	b := []byte{byte(ver >> 8), byte(ver)}
	b = append(b, tlsRandom(0x80)...)
	b = append(b, vec8([]byte{0xd0, 0xd1, 0xd2, 0xd3})...) // session id
	b = append(b, byte(suite>>8), byte(suite))
	b = append(b, 0)
	if ext {
		b = append(b, helloExtensions()...)
	}
	return b
}

// certificateBody: a certificate list with one entry whose content is opaque to TLS: a
// DER SEQUENCE { INTEGER 5, OCTET STRING of n position dependent bytes } (fq decodes the
// entries as ASN.1 BER, so it has to be some BER value).
func certificateBody(n int) []byte {
	os := append([]byte{0x04, byte(n)}, fill(n, 'c')...)
	inner := append([]byte{0x02, 0x01, 0x05}, os...)
	der := append([]byte{0x30, byte(len(inner))}, inner...)
	return vec24(vec24(der))
}

// fill: n position dependent bytes. 'a': k (counts from 0, so a reader that takes the
// first bytes for a length sees a small one), 'b': 0xa0+k (sees a huge one), other: 0x40+3k.
func fill(n int, kind byte) []byte {
	b := make([]byte, n)
	for k := range b {
		switch kind {
		case 'a':
			b[k] = byte(k)
		case 'b':
			b[k] = byte(0xa0 + k)
		default:
			b[k] = byte(0x40 + 3*k)
		}
	}
	return b
}

// A body shape is a '+' separated list of parts "raw:N[:f]" | "v8:N[:f]" | "v16:N[:f]"
// (N position dependent bytes with fill f, behind no / a 1 byte / a 2 byte length), or
// "hex:<bytes>". An empty string is the empty body.
func shapeBytes(shape string) ([]byte, error) {
	var out []byte
	if shape == "" {
		return out, nil
	}
	for _, part := range strings.Split(shape, "+") {
		f := strings.Split(part, ":")
		if len(f) < 2 {
			return nil, fmt.Errorf("bad shape part %q", part)
		}
		if f[0] == "hex" {
			var b []byte
			if _, err := fmt.Sscanf(f[1], "%x", &b); err != nil && f[1] != "" {
				return nil, err
			}
			out = append(out, b...)
			continue
		}
		n, err := strconv.Atoi(f[1])
		if err != nil || n < 0 || n > 60000 {
			return nil, fmt.Errorf("bad shape part %q", part)
		}
		kind := byte('a')
		if len(f) > 2 && len(f[2]) == 1 {
			kind = f[2][0]
		}
		p := fill(n, kind)
		switch f[0] {
		case "raw":
			out = append(out, p...)
		case "v8":
			if n > 255 {
				return nil, fmt.Errorf("bad shape part %q", part)
			}
			out = append(out, vec8(p)...)
		case "v16":
			out = append(out, vec16(p)...)
		default:
			return nil, fmt.Errorf("bad shape part %q", part)
		}
	}
	return out, nil
}

// span labels a byte range of one direction's stream.
type span struct {
	off, n int
	label  string
}

// tlsConv describes one conversation; build() returns the pcap and, per direction, the
// byte stream that was sent with its labelled spans.
type tlsConv struct {
	Suite  uint16
	Ver    uint16
	CKE    string // ClientKeyExchange body shape
	SKE    string // ServerKeyExchange body shape, "-" = message absent
	Cert   bool
	Ext    bool
	App    bool
	Layout string // rec | flight | segsplit | recsplit
}

type builtConv struct {
	pcap           []byte
	client, server []byte
	cspans, sspans []span
}

type hsMsg struct {
	typ  int
	body []byte
}

// dirWriter accumulates one direction's stream and labels.
type dirWriter struct {
	buf   []byte
	spans []span
	segs  [][]byte // TCP payloads
	mark  int
}

func (w *dirWriter) label(n int, l string) {
	if n > 0 {
		w.spans = append(w.spans, span{len(w.buf), n, l})
	}
}

// handshakeRecord writes msgs into ONE record.
func (w *dirWriter) handshakeRecord(ver uint16, msgs []hsMsg) {
	var payload []byte
	for _, m := range msgs {
		payload = append(payload, hsMessage(byte(m.typ), m.body)...)
	}
	w.label(5, "record_header")
	w.buf = append(w.buf, tlsRecord(recHandshake, ver, nil)[:3]...)
	w.buf = append(w.buf, byte(len(payload)>>8), byte(len(payload)))
	for i, m := range msgs {
		name := hsNames[m.typ]
		if i > 0 {
			name += "(not-first-in-record)"
		}
		w.label(4, name+".header")
		w.buf = append(w.buf, hsMessage(byte(m.typ), m.body)[:4]...)
		w.label(len(m.body), name+".body")
		w.buf = append(w.buf, m.body...)
	}
}

// fragmentedHandshake writes one message over two records, cut after `cut` bytes of
// the message (header included).
func (w *dirWriter) fragmentedHandshake(ver uint16, m hsMsg, cut int) {
	all := hsMessage(byte(m.typ), m.body)
	if cut < 1 {
		cut = 1
	}
	if cut >= len(all) {
		cut = len(all) - 1
	}
	name := hsNames[m.typ]
	for i, part := range [][]byte{all[:cut], all[cut:]} {
		w.label(5, "record_header")
		w.buf = append(w.buf, tlsRecord(recHandshake, ver, nil)[:3]...)
		w.buf = append(w.buf, byte(len(part)>>8), byte(len(part)))
		w.label(len(part), fmt.Sprintf("%s.fragment%d", name, i))
		w.buf = append(w.buf, part...)
	}
}

func (w *dirWriter) opaqueRecord(typ byte, ver uint16, payload []byte, l string) {
	w.label(5, "record_header")
	w.buf = append(w.buf, tlsRecord(typ, ver, payload)[:5]...)
	w.label(len(payload), l)
	w.buf = append(w.buf, payload...)
}

// flush turns what was written since the last flush into one TCP segment (or two, cut
// at stream offset splitAt when mark < splitAt < len).
func (w *dirWriter) flush(splitAt int) {
	if len(w.buf) == w.mark {
		return
	}
	if splitAt > w.mark && splitAt < len(w.buf) {
		w.segs = append(w.segs, append([]byte{}, w.buf[w.mark:splitAt]...), append([]byte{}, w.buf[splitAt:]...))
	} else {
		w.segs = append(w.segs, append([]byte{}, w.buf[w.mark:]...))
	}
	w.mark = len(w.buf)
}

func (c tlsConv) build() (*builtConv, error) {
	cke, err := shapeBytes(c.CKE)
	if err != nil {
		return nil, err
	}
	var ske []byte
	if c.SKE != "-" {
		if ske, err = shapeBytes(c.SKE); err != nil {
			return nil, err
		}
	}
	ver := c.Ver
	ext := c.Ext && ver != 0x0300
	cw, sw := &dirWriter{}, &dirWriter{}
	var segs []tcpSeg
	emit := func(fromClient bool, w *dirWriter, splitAt int) {
		n := len(w.segs)
		w.flush(splitAt)
		for _, p := range w.segs[n:] {
			segs = append(segs, tcpSeg{fromClient, p})
		}
	}
	perSeg := c.Layout == "rec" // one record per TCP segment

	// flight 1: ClientHello (record version 1.0 as real stacks send, or ssl3)
	recVer := ver
	chRecVer := uint16(0x0301)
	if ver == 0x0300 {
		chRecVer = 0x0300
	}
	cw.handshakeRecord(chRecVer, []hsMsg{{hsClientHello, clientHelloBody(ver, []uint16{c.Suite, 0x00ff}, ext)}})
	emit(true, cw, -1)

	// flight 2: ServerHello [Certificate] [ServerKeyExchange] ServerHelloDone
	sm := []hsMsg{{hsServerHello, serverHelloBody(ver, c.Suite, ext)}}
	if c.Cert {
		sm = append(sm, hsMsg{hsCertificate, certificateBody(20)})
	}
	if c.SKE != "-" {
		sm = append(sm, hsMsg{hsServerKeyExchange, ske})
	}
	sm = append(sm, hsMsg{hsServerHelloDone, nil})
	switch c.Layout {
	case "flight":
		sw.handshakeRecord(recVer, sm)
		emit(false, sw, -1)
	case "segsplit":
		// one record per message, one TCP segment cut in the middle of the ServerHello body
		start := len(sw.buf)
		for _, m := range sm {
			sw.handshakeRecord(recVer, []hsMsg{m})
		}
		emit(false, sw, start+5+4+20)
	case "recsplit":
		// the ServerKeyExchange (or, without one, the ServerHelloDone stays whole) is
		// fragmented over two records
		for _, m := range sm {
			if m.typ == hsServerKeyExchange && len(m.body) > 0 {
				sw.fragmentedHandshake(recVer, m, 4+len(m.body)/2)
			} else {
				sw.handshakeRecord(recVer, []hsMsg{m})
			}
		}
		emit(false, sw, -1)
	default:
		for _, m := range sm {
			sw.handshakeRecord(recVer, []hsMsg{m})
			if perSeg {
				emit(false, sw, -1)
			}
		}
		emit(false, sw, -1)
	}

	// flight 3: ClientKeyExchange, ChangeCipherSpec, Finished (encrypted)
	ckeMsg := hsMsg{hsClientKeyExchange, cke}
	switch c.Layout {
	case "recsplit":
		if len(cke) > 0 {
			cw.fragmentedHandshake(recVer, ckeMsg, 4+len(cke)/2)
		} else {
			cw.fragmentedHandshake(recVer, ckeMsg, 2)
		}
		emit(true, cw, -1)
	case "segsplit":
		start := len(cw.buf)
		cw.handshakeRecord(recVer, []hsMsg{ckeMsg})
		// cut inside the message: in the body when there is one, else in the header
		emit(true, cw, start+5+2+(len(cke)+2)/2)
	default:
		cw.handshakeRecord(recVer, []hsMsg{ckeMsg})
		if perSeg {
			emit(true, cw, -1)
		}
	}
	cw.opaqueRecord(recCCS, recVer, []byte{1}, "change_cipher_spec")
	if perSeg {
		emit(true, cw, -1)
	}
	cw.opaqueRecord(recHandshake, recVer, fill(40, 'e'), "finished(encrypted)")
	emit(true, cw, -1)

	// flight 4: ChangeCipherSpec, Finished (encrypted)
	sw.opaqueRecord(recCCS, recVer, []byte{1}, "change_cipher_spec")
	if perSeg {
		emit(false, sw, -1)
	}
	sw.opaqueRecord(recHandshake, recVer, fill(40, 'f'), "finished(encrypted)")
	emit(false, sw, -1)

	if c.App {
		cw.opaqueRecord(recAppData, recVer, fill(29, 'g'), "application_data(encrypted)")
		emit(true, cw, -1)
		sw.opaqueRecord(recAppData, recVer, fill(53, 'h'), "application_data(encrypted)")
		emit(false, sw, -1)
	}
	return &builtConv{pcap: tcpConversation(segs), client: cw.buf, server: sw.buf, cspans: cw.spans, sspans: sw.spans}, nil
}

func labelAt(spans []span, byteOff int) string {
	for _, s := range spans {
		if byteOff >= s.off && byteOff < s.off+s.n {
			return s.label
		}
	}
	return "?"
}
