// Package c05 decides property C05 (tobytes/tobits of a value are exactly the input
// bits of its range): for every value of every tree of the shared tree corpus (all
// decoder-DSL programs up to an op bound x inputs, decoded at the jq level; every
// corpus file x {probe, own formats} x {intact, truncations}) the conversions
// tobits, tobytes, ._bits, ._bytes and every bits_format rendering of raw leaves are
// compared with the harness' own slicing of the buffer the value belongs to; the
// command line path (raw stdout, -o bits_format) is checked on top.
package c05

import (
	"encoding/json"
	"fmt"
	"os"
	"path/filepath"
	"runtime/pprof"
	"strings"

	"github.com/wader/fq/internal/verif/fqrun"

	"github.com/wader/fq/internal/verif/core"
)

var Check = core.Check{
	ID:     "C05",
	Level:  "exploration",
	Shards: 16,
	// a decoder crash is property C06's subject
	CrashIsInconclusive: true,
	Run:                 run,
	Replay:              replay,
}

func run(r *core.Run) {
	only := os.Getenv("VERIF_ONLY")
	if p := os.Getenv("VERIF_PROFILE"); p != "" && r.ShardIdx == 0 {
		f, _ := os.Create(p)
		_ = pprof.StartCPUProfile(f)
		defer pprof.StopCPUProfile()
	}
	if only == "fq" {
		// dev knob: VERIF_ONLY=fq VERIF_ARGS="arg<US>arg..." [VERIF_FILES=path,...] runs the
		// in-process fq command line once and prints the result (no verdict)
		devFQ()
		return
	}
	w, err := NewWalker(r, C05Driver)
	if err != nil {
		panic(err)
	}
	defer w.Close()
	MaxValueBits = int64(core.Pick(r, 1<<26, 1<<28))
	r.Rule("every value of every tree: (a) all decoder-DSL programs with <= N ops (dsl_max_ops), nesting <= 3, decoded at the jq level (decode(\"vdsl\"; {prog}) for programs with <= 2 ops, the function _decode/2 it ends in for larger ones) on 2 inputs, and programs with <= N-1 ops also from tobytes[1:], from tobits[3:] and with a root array; (b) every corpus file x {probe, -d formats of its fqtests} x {intact, prefixes len-1, len/2, start of last top level field} (quick: files <= 256 KiB, trees <= 20000 values, values <= 8 MiB; thorough: all files, more truncations, trees <= 250000 values, values <= 32 MiB; larger ones counted in trees_skipped_by_size): tobits/tobytes/._bits/._bytes read bit exact against the harness' slice of the value's buffer, 7 bits_format renderings of every raw leaf decoded back, raw stdout of the CLI; non-trivial = tree with a value that is not byte aligned or lives in a nested buffer")
	r.Assume("nested buffers of real formats are only known through fq itself: the nested root's own tobits is the buffer its children are checked against (contents of decompressed/reassembled data are C15's subject)")
	r.Assume("decode/2 only adds option defaults before calling _decode/2 (pkg/interp/decode.jq): programs with more than 2 ops are decoded through _decode/2 directly because decode/2 costs ~2 ms per call in registry and option lookups")
	r.Assume("a bits_format rendering of a range that is not a whole number of bytes may pad with zero bits on either side")
	var st Stats
	var evals int64
	judge := func(t *Tree) {
		if s, ok := t.Out.(string); ok {
			classifyString(r, t, s)
			return
		}
		if m, ok := t.Out.(map[string]any); ok {
			// the format returns a binary instead of a tree (bytes, bits): it is the root
			evals++
			r.Count("trees_that_are_a_binary", 1)
			got, err := ReadBinary(m["nondv"])
			top := BitBufFromBytes(t.Data)
			if err != nil || !top.EqualRange(got, t.Lo, t.Hi-t.Lo, 0) {
				r.Violate(t.Case.Kind+":root-binary", fmt.Sprintf("%s: decode returned a binary of %s (err %v), the input is %s", t.Case, got.Short(), err, top.Extract(t.Lo, t.Hi-t.Lo, 0).Short()), t.Case)
			}
			return
		}
		evals++
		before := st
		for _, f := range JudgeTree(t, &st) {
			r.Violate(f.Sig, f.Msg, t.Case)
		}
		if st.Unaligned > before.Unaligned || st.Nested > before.Nested {
			r.Nontrivial(t.Case.Prog + t.Case.File + t.Case.Format)
		}
		if evals%4001 == 0 {
			r.Sample(map[string]any{"tree": t.Case.String(), "values": st.Values - before.Values})
		}
	}
	// shares of the time budget, so that an overloaded machine cuts every part's tail
	// instead of starving the last part
	span := r.Deadline.Sub(r.Start)
	cliUntil := r.Start.Add(span * 15 / 100)
	corpusUntil := r.Start.Add(span * 60 / 100)
	if only == "" || only == "cli" {
		if runCLI(r, cliUntil, 2, core.Pick(r, 1, 2), core.Pick(r, 1, 2)) {
			r.Section("cli-dsl")
		}
	}
	if only == "" || only == "corpus" {
		o := CorpusOpts{MaxSize: int64(core.Pick(r, 1<<18, 0)), MaxValues: core.Pick(r, 20000, 250000), More: r.Thorough()}
		cli := func(t *Tree) {
			judge(t)
			if t.Case.Mut == "intact" {
				corpusCLI(r, t)
			}
		}
		if w.WalkCorpus(o, TopStarts, corpusUntil, cli) {
			r.Section("corpus")
		}
	}
	if only == "" || only == "large" {
		if runLarge(r) {
			r.Section("large")
		}
	}
	// the large enumeration last (simplest programs first): a deadline cuts only its tail
	if only == "" || only == "dsl" {
		maxOps := core.Pick(r, 3, 4)
		if w.WalkDSL(maxOps, 2, judge) {
			r.Section("dsl")
		}
	}
	r.Eval(evals)
	r.Count("driver_evals", w.Evals)
	r.Count("values", st.Values)
	r.Count("values_synthetic", st.Synthetic)
	r.Count("values_not_byte_aligned", st.Unaligned)
	r.Count("values_nested_roots", st.Nested)
	r.Count("raw_leaves", st.RawLeaves)
	r.Count("bits_format_renderings", st.Renders)
	r.Count("dsl_values_without_reference_node", st.Unmatched)
}

// classifyString handles trees for which the driver returned a string.
func classifyString(r *core.Run, t *Tree, s string) {
	switch {
	case len(s) >= 5 && s[:5] == "SKIP:":
		// outside the stated bound of the tier (tree of more than MaxValues values or with a
		// value above MaxValueBits): counted, not judged
		r.Count("trees_skipped_by_size", 1)
	case t.Case.Kind == "corpus" && len(s) >= 10 && s[:10] == "EVALPANIC:":
		r.Count("corpus_decode_panics", 1)
		r.Inconclusive("decoder panic (C06's subject): " + t.Case.String())
	case t.Case.Kind == "corpus" && len(s) >= 4 && s[:4] == "ERR:":
		// the format does not accept the (truncated) file: no tree to judge
		r.Count("corpus_decodes_without_tree", 1)
	default:
		r.Violate(t.Case.Kind+":driver-error", fmt.Sprintf("%s: driver failed: %s", t.Case, trunc(s, 300)), t.Case)
	}
}

func trunc(s string, n int) string {
	if len(s) > n {
		return s[:n] + "..."
	}
	return s
}

// ReplayCase is what a replay file holds: a tree case, or a CLI case.
type ReplayCase struct {
	TreeCase
	CLI *CLICase `json:"cli,omitempty"`
}

func replay(r *core.Run, raw json.RawMessage) bool {
	if ok, bad := replayLarge(raw); ok {
		return bad
	}
	var c ReplayCase
	if err := json.Unmarshal(raw, &c); err != nil {
		fmt.Println(err)
		return false
	}
	if c.CLI != nil {
		return replayCLI(r, c.CLI)
	}
	w, err := NewWalker(r, C05Driver)
	if err != nil {
		fmt.Println(err)
		return false
	}
	defer w.Close()
	t, err := BuildTree(r.Repo, c.TreeCase)
	if err != nil {
		fmt.Println(err)
		return false
	}
	w.EvalTrees([]*Tree{t}, c.Fast, 0)
	fmt.Printf("  case: %s\n", t.Case)
	if s, ok := t.Out.(string); ok {
		fmt.Printf("  driver: %s\n", s)
		return c.Kind == "dsl"
	}
	var st Stats
	fs := JudgeTree(t, &st)
	if recs, err := ParseRecs(t.Out); err == nil && len(recs) <= 40 {
		for _, rec := range recs {
			tb, _ := ReadBinary(rec.Tobits)
			ty, _ := ReadBinary(rec.Tobytes)
			fmt.Printf("    %-24s %d..%d tobits=%s tobytes=%x\n", PathString(rec.Path), rec.Start, rec.Stop, tb.Short(), ty.B)
		}
	}
	for _, f := range fs {
		fmt.Printf("  %s: %s\n", f.Sig, f.Msg)
	}
	fmt.Printf("  %d values judged\n", st.Values)
	return len(fs) > 0
}

// BuildTree prepares the tree of any case.
func BuildTree(repo string, c TreeCase) (*Tree, error) {
	if c.Kind == "dsl" {
		return BuildDSL(c)
	}
	return BuildCorpus(repo, c, nil)
}

func devFQ() {
	files := map[string][]byte{}
	for _, f := range strings.Split(os.Getenv("VERIF_FILES"), ",") {
		if f == "" {
			continue
		}
		b, err := os.ReadFile(f)
		if err != nil {
			fmt.Println(err)
			return
		}
		files[filepath.Base(f)] = b
	}
	res := fqrun.Run(fqrun.Opts{Args: strings.Split(os.Getenv("VERIF_ARGS"), "\x1f"), Files: files, StdinIsTerminal: true})
	fmt.Printf("exit=%d panic=%v\nstdout=%q\nstderr=%s\n", res.Exit, res.Panic, res.Stdout, res.Stderr)
}
