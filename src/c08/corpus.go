package c08

// Corpus trees: per format family (directory under format/) the smallest sample
// file that decodes without error with the format its own fqtest names, decoded at
// jq level like the plans. Expected JSON = Sym/Actual reading of the decoded tree.

import (
	"fmt"
	"sort"
	"strings"

	"github.com/wader/fq/internal/verif/core"
	"github.com/wader/fq/internal/verif/corpus"
	"github.com/wader/fq/internal/verif/fqrun"
	"github.com/wader/fq/pkg/decode"
)

const corpusMaxFile = 8 * 1024
const corpusMaxNodes = 4000

func countNodes(dv *decode.Value) int {
	n := 1
	if c, ok := dv.V.(*decode.Compound); ok {
		for _, ch := range c.Children {
			n += countNodes(ch)
		}
	}
	return n
}

func family2(path string) string {
	parts := strings.Split(path, "/")
	if len(parts) > 1 {
		return parts[1]
	}
	return path
}

func corpusTrees(r *core.Run, s *fqrun.Session) []*tree {
	files, _ := corpus.Files(r.Repo, corpusMaxFile)
	byFam := map[string][]corpus.File{}
	var fams []string
	for _, f := range files {
		if len(f.Data) == 0 || len(f.Formats) == 0 {
			continue
		}
		fam := family2(f.Path)
		if _, ok := byFam[fam]; !ok {
			fams = append(fams, fam)
		}
		byFam[fam] = append(byFam[fam], f)
	}
	sort.Strings(fams)
	var out []*tree
	for _, fam := range fams {
		fs := byFam[fam]
		sort.SliceStable(fs, func(i, j int) bool {
			if len(fs[i].Data) != len(fs[j].Data) {
				return len(fs[i].Data) < len(fs[j].Data)
			}
			return fs[i].Path < fs[j].Path
		})
		for _, f := range fs {
			t, err := decodeCorpus(s, f.Path, f.Data, f.Formats[0])
			if err != nil {
				continue
			}
			out = append(out, t)
			break
		}
	}
	if r.ShardIdx == 0 {
		var names []string
		for _, t := range out {
			names = append(names, t.name[7:])
		}
		r.Extra("corpus_trees", names)
		r.Extra("corpus_families_with_samples", len(fams))
	}
	return out
}

func decodeCorpus(s *fqrun.Session, path string, data []byte, format string) (*tree, error) {
	root, dv, err := decodeJQ(s, data, format, map[string]any{})
	if err != nil {
		return nil, err
	}
	if dv.Err != nil {
		return nil, fmt.Errorf("decode error: %v", dv.Err)
	}
	if n := countNodes(dv); n < 3 || n > corpusMaxNodes {
		return nil, fmt.Errorf("%d nodes", n)
	}
	t := &tree{name: "corpus:" + path + "|" + format, root: root, dv: dv, want: deepCopy(refOf(dv))}
	t.seal()
	return t, nil
}

// corpusTree rebuilds one corpus tree from its name (replay).
func corpusTree(r *core.Run, s *fqrun.Session, name string) (*tree, error) {
	name = strings.TrimPrefix(name, "corpus:")
	path, format, ok := strings.Cut(name, "|")
	if !ok {
		return nil, fmt.Errorf("bad corpus tree name %q", name)
	}
	files, _ := corpus.Files(r.Repo, corpusMaxFile)
	for _, f := range files {
		if f.Path == path {
			return decodeCorpus(s, f.Path, f.Data, format)
		}
	}
	return nil, fmt.Errorf("no corpus file %s", path)
}

// ---- command line tie-in -------------------------------------------------------------
//
// The session evaluates tovalue with explicit options. Here the real command line
// (fq -d c08s -o tree=.. 'tovalue | tojson' file) must print the same JSON text as
// the session does for the root of every plan, and `fq -V` likewise.

func (e *engine) cli() {
	for _, name := range planNames {
		p := thePlans[name]
		format := "c08s"
		if p.rootArray {
			format = "c08a"
		}
		t, err := planTree(e.s, name)
		if err != nil {
			panic(err)
		}
		outs, err := e.s.Eval(t.root, toValue+" | tojson")
		if err != nil || len(outs) != 1 {
			panic(fmt.Sprintf("c08: cli section: %v", err))
		}
		want, _ := outs[0].(string)
		for _, expr := range []string{"tovalue | tojson", "[.. | tovalue] | .[0] | tojson"} {
			res := fqrun.Run(fqrun.Opts{Args: []string{"-r", "-d", format, "-o", "tree=" + name, expr, "in.bin"}, Files: map[string][]byte{"in.bin": p.input()}, StdinIsTerminal: true})
			e.r.Eval(1)
			got := strings.TrimSuffix(string(res.Stdout), "\n")
			if res.Exit != 0 || got != want {
				e.r.Violate("cli:tovalue-text-differs:"+name, fmt.Sprintf("fq -r -d %s -o tree=%s '%s' prints %s (exit %d, stderr %s) but the session's tovalue({bits_format:\"string\"}) | tojson gives %s", format, name, expr, firstDiffShort(got, want), res.Exit, trunc(string(res.Stderr), 200), trunc(want, 80)),
					map[string]any{"kind": "cli", "tree": "plan:" + name, "path": []any{}})
			}
		}
	}
	e.r.Section("cli")
}
