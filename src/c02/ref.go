package c02

// Reference semantics of every reader kind, written from the definitions over a
// plain bit string (one byte per bit, stream order = most significant bit first)
// with math/big. Nothing of fq's bitio/decode/mathx is used here.

import (
	"math"
	"math/big"
	"strings"
	"unicode/utf16"
	"unicode/utf8"
)

type mode int

const (
	mValue   mode = iota // must return val and advance by consumed
	mErr                 // must fail (error or recoverable panic), no value
	mEither              // may fail; if it returns a value it must be val/consumed
	mConsume             // value not defined by the property; must not fail and must advance by consumed
	mSkip                // input outside the defined domain of this reader; not called
)

type expect struct {
	mode     mode
	val      any   // uint64 | int64 | *big.Int | float64 | bool | string
	consumed int64 // position advance on success
	need     int64 // bits that have to exist after pos for success (== consumed except peeks)
	class    string
	// sigClass, when set, names a class of inputs for which a deviation is keyed
	// by the class alone (one root cause for a whole reader family).
	sigClass string
	// trunc is the toward-zero neighbour for inexact float conversions (diagnosis only)
	trunc    float64
	hasTrunc bool
	// note marks text cases that involve a byte order mark (counters only, never judged)
	note string
}

type params struct {
	nBits  int
	fBits  int
	endian int // enBE/enLE, when the reader takes an endian argument
	ov     uint64
	nBytes int
	enc    string
}

var (
	bigOne  = big.NewInt(1)
	two63   = new(big.Int).Lsh(bigOne, 63)
	two64   = new(big.Int).Lsh(bigOne, 64)
	minI64  = new(big.Int).Neg(two63)
	maxI64p = two63 // exclusive
)

// unsignedOf: sum of bit_i * 2^(n-1-i). The bits are grouped right aligned into
// base 256 digits (most significant first) for big.Int.SetBytes.
func unsignedOf(f []byte) *big.Int {
	n := len(f)
	digits := make([]byte, (n+7)/8)
	for i, b := range f {
		if b != 0 {
			w := n - 1 - i // weight 2^w
			digits[len(digits)-1-w/8] |= 1 << uint(w%8)
		}
	}
	return new(big.Int).SetBytes(digits)
}

// byteSwap reverses the order of the 8 bit groups of f (len(f)%8 == 0).
func byteSwap(f []byte) []byte {
	n := len(f) / 8
	o := make([]byte, 0, len(f))
	for i := n - 1; i >= 0; i-- {
		o = append(o, f[i*8:i*8+8]...)
	}
	return o
}

func (rd *reader) effEndian(p params, dEndian int) int {
	switch rd.endian {
	case enCur:
		return dEndian
	case enArg:
		return p.endian
	}
	return rd.endian
}

func (rd *reader) width(p params) int {
	if rd.fixedBits != 0 {
		return rd.fixedBits
	}
	return p.nBits
}

func fail(class string) expect { return expect{mode: mErr, class: class} }

// oracle gives the demanded behaviour of reader rd called with p at bit pos of bits.
func oracle(rd *reader, p params, dEndian int, bits []byte, pos int) expect {
	left := len(bits) - pos
	le := rd.effEndian(p, dEndian) == enLE
	switch rd.kind {
	case kU, kS, kFP:
		n := rd.width(p)
		minBits := 0
		if rd.kind == kS {
			minBits = 1
		}
		if n < minBits || n > 64 {
			return fail("invalid-width")
		}
		if n > left {
			return fail("short")
		}
		cons := int64(n)
		if rd.peek {
			cons = 0
		}
		if le && n > 8 && n%8 != 0 {
			// little endian is only defined for whole byte widths
			return expect{mode: mConsume, consumed: cons, need: int64(n), class: "le-odd-width"}
		}
		f := bits[pos : pos+n]
		if le && n%8 == 0 {
			f = byteSwap(f)
		}
		u := unsignedOf(f)
		e := expect{mode: mValue, consumed: cons, need: int64(n)}
		switch rd.kind {
		case kU:
			e.val = u.Uint64()
			e.class = "u"
		case kS:
			// two's complement: subtract 2^n when the leading bit is set
			if f[0] != 0 {
				u.Sub(u, new(big.Int).Lsh(bigOne, uint(n)))
				e.class = "neg"
			} else {
				e.class = "nonneg"
			}
			e.val = u.Int64()
		case kFP:
			fb := rd.fixedF
			if rd.fixedBits == 0 {
				fb = p.fBits
			}
			if fb < 0 {
				return expect{mode: mSkip}
			}
			// u / 2^fb, correctly rounded to float64
			x := new(big.Float).SetPrec(80).SetInt(u)
			x.SetMantExp(x, -fb)
			v, _ := x.Float64()
			e.val = v
			e.class = "fp"
			if fb >= 64 {
				e.sigClass = "fixedpoint:fBits>=64"
			}
		}
		return e
	case kUBig, kSBig:
		n := p.nBits
		if n < 0 {
			return fail("invalid-width")
		}
		if n > left {
			return fail("short")
		}
		if n == 0 {
			return expect{mode: mSkip}
		}
		if le && n > 8 && n%8 != 0 {
			return expect{mode: mConsume, consumed: int64(n), need: int64(n), class: "le-odd-width"}
		}
		f := bits[pos : pos+n]
		if le && n%8 == 0 {
			f = byteSwap(f)
		}
		u := unsignedOf(f)
		cl := "u"
		if rd.kind == kSBig {
			cl = "nonneg"
			if f[0] != 0 {
				u.Sub(u, new(big.Int).Lsh(bigOne, uint(n)))
				cl = "neg"
			}
		}
		return expect{mode: mValue, val: u, consumed: int64(n), need: int64(n), class: cl}
	case kF:
		n := rd.width(p)
		if n != 16 && n != 32 && n != 64 && n != 80 {
			return fail("unsupported-float-width")
		}
		if n > left {
			return fail("short")
		}
		f := bits[pos : pos+n]
		if le {
			f = byteSwap(f)
		}
		e := refFloat(f)
		e.consumed, e.need = int64(n), int64(n)
		return e
	case kBool:
		if left < 1 {
			return fail("short")
		}
		return expect{mode: mValue, val: bits[pos] == 1, consumed: 1, need: 1, class: "bool"}
	case kUnary:
		if p.ov > 1 {
			return expect{mode: mSkip}
		}
		n := 0
		for {
			if pos+n >= len(bits) {
				return fail("short")
			}
			if uint64(bits[pos+n]) != p.ov {
				break
			}
			n++
		}
		return expect{mode: mValue, val: uint64(n), consumed: int64(n + 1), need: int64(n + 1), class: "unary"}
	case kULEB, kSLEB:
		return refLEB(rd.kind == kSLEB, bits, pos)
	case kTextFixed, kTextNull, kTextShort, kTextShortFixed, kTextNullFixed:
		return refText(rd, p, bits, pos)
	}
	return expect{mode: mSkip}
}

// exactFloat converts sign * mant * 2^exp to the nearest float64 (ties to even),
// also returning the toward-zero neighbour.
func exactFloat(neg bool, mant *big.Int, exp int) (v float64, trunc float64, exact bool) {
	x := new(big.Float).SetPrec(uint(mant.BitLen() + 1)).SetInt(mant)
	x.SetMantExp(x, exp)
	if neg {
		x.Neg(x)
	}
	v, acc := x.Float64()
	trunc = v
	if acc != big.Exact {
		// v was rounded; toward-zero neighbour
		if (acc == big.Above) != neg {
			// |v| > |x|
			trunc = math.Nextafter(v, 0)
			if math.IsInf(v, 0) {
				trunc = math.Copysign(math.MaxFloat64, v)
			}
		}
	}
	if v == 0 && neg {
		v = math.Copysign(0, -1)
		if trunc == 0 {
			trunc = v
		}
	}
	return v, trunc, acc == big.Exact
}

// refFloat interprets f (16/32/64/80 bits, most significant first) as IEEE 754
// binary16/32/64 or x87 double extended.
func refFloat(f []byte) expect {
	neg := f[0] != 0
	var ebits, mbits int
	switch len(f) {
	case 16:
		ebits, mbits = 5, 10
	case 32:
		ebits, mbits = 8, 23
	case 64:
		ebits, mbits = 11, 52
	case 80:
		return refFloat80(f)
	}
	e := int(unsignedOf(f[1 : 1+ebits]).Int64())
	m := unsignedOf(f[1+ebits:])
	bias := 1<<(ebits-1) - 1
	emax := 1<<ebits - 1
	switch {
	case e == emax && m.Sign() == 0:
		s := 1
		if neg {
			s = -1
		}
		return expect{mode: mValue, val: math.Inf(s), class: "inf"}
	case e == emax:
		return expect{mode: mValue, val: math.NaN(), class: "nan"}
	case e == 0:
		// subnormal: m * 2^(1-bias-mbits)
		v, _, _ := exactFloat(neg, m, 1-bias-mbits)
		return expect{mode: mValue, val: v, class: "subnormal"}
	}
	// (2^mbits + m) * 2^(e-bias-mbits)
	mm := new(big.Int).Add(m, new(big.Int).Lsh(bigOne, uint(mbits)))
	v, _, _ := exactFloat(neg, mm, e-bias-mbits)
	return expect{mode: mValue, val: v, class: "normal"}
}

// x87 extended: 1 sign, 15 exponent (bias 16383), 64 bit significand with explicit
// integer bit: value = (-1)^s * m * 2^(max(e,1)-16383-63).
func refFloat80(f []byte) expect {
	neg := f[0] != 0
	e := int(unsignedOf(f[1:16]).Int64())
	m := unsignedOf(f[16:])
	intBit := f[16] != 0
	frac := unsignedOf(f[17:])
	if e == 0x7fff {
		if !intBit {
			// pseudo-infinity / pseudo-NaN: not a value in any revision of the format
			return expect{mode: mConsume, class: "f80-pseudo-special"}
		}
		if frac.Sign() == 0 {
			s := 1
			if neg {
				s = -1
			}
			return expect{mode: mValue, val: math.Inf(s), class: "inf"}
		}
		ex := expect{mode: mValue, val: math.NaN(), class: "nan"}
		if new(big.Int).Rsh(frac, 11).Sign() == 0 {
			ex.sigClass = "float80:nan-with-payload-only-in-low-11-bits"
		}
		return ex
	}
	ee := e
	if ee == 0 {
		ee = 1
	}
	v, tr, exact := exactFloat(neg, m, ee-16383-63)
	ex := expect{mode: mValue, val: v, class: "normal"}
	switch {
	case m.Sign() == 0 && e == 0:
		ex.class = "zero"
	case e == 0:
		ex.class = "denormal"
		ex.sigClass = "float80:denormal-or-pseudo-denormal"
	case !intBit:
		ex.class = "unnormal"
		ex.sigClass = "float80:unnormal-integer-bit-clear"
	case math.IsInf(v, 0):
		ex.class = "overflow"
		ex.sigClass = "float80:exponent-above-float64-range"
	case v == 0 || math.Abs(v) < 0x1p-1022:
		ex.class = "underflow"
		ex.sigClass = "float80:exponent-below-float64-normal-range"
	case !exact:
		ex.class = "inexact"
		ex.sigClass = "float80:inexact-significand"
		ex.trunc, ex.hasTrunc = tr, true
	}
	return ex
}

func byteAt(bits []byte, pos int) (byte, bool) {
	if pos+8 > len(bits) {
		return 0, false
	}
	var b byte
	for i := 0; i < 8; i++ {
		b = b<<1 | bits[pos+i]
	}
	return b, true
}

// refLEB: little endian base 128: value = sum group_i * 128^i, last group has the
// top bit clear; signed form sign-extends from bit 6 of the last group. The target
// types are uint64/int64 with at most ceil(64/7) = 10 groups.
func refLEB(signed bool, bits []byte, pos int) expect {
	v := new(big.Int)
	g := 0
	var last byte
	for {
		b, ok := byteAt(bits, pos+8*g)
		if !ok {
			return fail("short")
		}
		v.Or(v, new(big.Int).Lsh(big.NewInt(int64(b&0x7f)), uint(7*g)))
		g++
		last = b
		if b&0x80 == 0 {
			break
		}
	}
	cons := int64(8 * g)
	if signed {
		if last&0x40 != 0 {
			v.Sub(v, new(big.Int).Lsh(bigOne, uint(7*g)))
		}
		if v.Cmp(minI64) < 0 || v.Cmp(maxI64p) >= 0 {
			return fail("overflow")
		}
		e := expect{mode: mValue, val: v.Int64(), consumed: cons, need: cons, class: "sleb"}
		if g > 10 {
			e.mode = mEither // over-long encoding of a representable value: rejecting it is allowed
			e.class = "sleb-overlong"
		}
		return e
	}
	if v.Cmp(two64) >= 0 {
		return fail("overflow")
	}
	e := expect{mode: mValue, val: v.Uint64(), consumed: cons, need: cons, class: "uleb"}
	if g > 10 {
		e.mode = mEither
		e.class = "uleb-overlong"
	} else if v.Cmp(two63) >= 0 {
		// fq documents 63 bits as its limit and reports overflow above it (an error is allowed)
		e.mode = mEither
		e.class = "uleb-bit63"
	}
	return e
}

func bytesAt(bits []byte, pos, n int) ([]byte, bool) {
	if n < 0 || pos+8*n > len(bits) {
		return nil, false
	}
	o := make([]byte, n)
	for i := range o {
		o[i], _ = byteAt(bits, pos+8*i)
	}
	return o, true
}

// decodeText decodes raw in the named encoding; ok=false when raw is not a well
// formed sequence in that encoding (outside the enumerated domain). A byte order
// mark (U+FEFF in the encoding form) is a signature, not text, only as the very
// first code unit(s) of a field read with a byte order mark aware encoding: exactly
// one is removed there; everywhere else U+FEFF is an ordinary character of the value.
// note says which of the two happened (for the counters).
func decodeText(enc string, raw []byte) (s string, ok bool, note string) {
	defer func() {
		if ok && strings.ContainsRune(s, 0xfeff) {
			if note != "" {
				note += "|"
			}
			note += "u+feff-kept-in-value"
		}
	}()
	switch enc {
	case "utf8bom":
		if !utf8.Valid(raw) {
			return "", false, ""
		}
		s = string(raw)
		if len(s) >= 3 && s[:3] == "\xef\xbb\xbf" {
			s = s[3:] // the decoder strips one leading byte order mark
			note = "utf8-leading-bom-removed"
		}
		return s, true, note
	case "utf16le", "utf16be", "utf16bom":
		if len(raw)%2 != 0 {
			return "", false, ""
		}
		be := enc == "utf16be"
		if enc == "utf16bom" && len(raw) >= 2 {
			// a byte order mark overrides the default (little endian) and is removed
			if raw[0] == 0xfe && raw[1] == 0xff {
				be = true
				raw = raw[2:]
				note = "utf16-leading-bom-removed"
			} else if raw[0] == 0xff && raw[1] == 0xfe {
				raw = raw[2:]
				note = "utf16-leading-bom-removed"
			}
		}
		us := make([]uint16, len(raw)/2)
		for i := range us {
			if be {
				us[i] = uint16(raw[2*i])<<8 | uint16(raw[2*i+1])
			} else {
				us[i] = uint16(raw[2*i+1])<<8 | uint16(raw[2*i])
			}
		}
		// reject unpaired surrogates
		for i := 0; i < len(us); i++ {
			switch {
			case us[i] >= 0xd800 && us[i] < 0xdc00:
				if i+1 >= len(us) || us[i+1] < 0xdc00 || us[i+1] > 0xdfff {
					return "", false, ""
				}
				i++
			case us[i] >= 0xdc00 && us[i] <= 0xdfff:
				return "", false, ""
			}
		}
		return string(utf16.Decode(us)), true, note
	}
	return "", false, ""
}

func refText(rd *reader, p params, bits []byte, pos int) expect {
	enc := rd.enc
	if enc == "arg" {
		enc = p.enc
	}
	done := func(raw []byte, consumedBytes int, class string) expect {
		s, ok, note := decodeText(enc, raw)
		if !ok {
			return expect{mode: mSkip}
		}
		c := int64(consumedBytes) * 8
		return expect{mode: mValue, val: s, consumed: c, need: c, class: class, note: note}
	}
	switch rd.kind {
	case kTextFixed:
		if p.nBytes < 0 {
			return fail("invalid-length")
		}
		raw, ok := bytesAt(bits, pos, p.nBytes)
		if !ok {
			return fail("short")
		}
		return done(raw, p.nBytes, "text")
	case kTextNull:
		cb := 1
		if enc != "utf8bom" {
			cb = 2
		}
		for k := 0; ; k++ {
			unit, ok := bytesAt(bits, pos+8*cb*k, cb)
			if !ok {
				return fail("short")
			}
			zero := true
			for _, b := range unit {
				zero = zero && b == 0
			}
			if zero {
				raw, _ := bytesAt(bits, pos, cb*k)
				return done(raw, cb*(k+1), "text-null")
			}
		}
	case kTextShort:
		l, ok := byteAt(bits, pos)
		if !ok {
			return fail("short")
		}
		raw, ok := bytesAt(bits, pos+8, int(l))
		if !ok {
			return fail("short")
		}
		return done(raw, 1+int(l), "text-short")
	case kTextShortFixed:
		if p.nBytes < 1 {
			return expect{mode: mSkip}
		}
		all, ok := bytesAt(bits, pos, p.nBytes)
		if !ok {
			return fail("short")
		}
		l := int(all[0])
		if l > p.nBytes-1 {
			return expect{mode: mSkip} // length beyond the fixed field: not defined
		}
		return done(all[1:1+l], p.nBytes, "text-short-fixed")
	case kTextNullFixed:
		if p.nBytes < 0 {
			return fail("invalid-length")
		}
		all, ok := bytesAt(bits, pos, p.nBytes)
		if !ok {
			return fail("short")
		}
		for i, b := range all {
			if b == 0 {
				all = all[:i]
				break
			}
		}
		return done(all, p.nBytes, "text-null-fixed")
	}
	return expect{mode: mSkip}
}
