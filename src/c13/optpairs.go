package c13

// Option pairs. Many option dependent faults need two options at once (a mode that
// enables a code path and a value that breaks it: bits_format=snippet with sizebase=1,
// color with a byte_colors range, ...). Every scalar option of the live `options`
// object is a factor with typed levels (number: absent,-1,0,1,37,256; boolean: absent,
// true,false; string: absent, "", "a", the default and every string literal the Go
// source switches the option on); a strength-2 covering array over all factors gives a
// few hundred option objects that contain EVERY pair of (option=level, option=level).
// Each object goes to every function that hands its argument to options/1, on one input
// per decode value kind, binary and number.

import (
	"go/ast"
	"go/parser"
	"go/token"
	"path/filepath"
	"sort"
	"strconv"
	"strings"
	"unicode"
)

func camelToSnake(s string) string {
	var sb strings.Builder
	rs := []rune(s)
	for i, r := range rs {
		if unicode.IsUpper(r) {
			if i > 0 && (unicode.IsLower(rs[i-1]) || (i+1 < len(rs) && unicode.IsLower(rs[i+1]))) {
				sb.WriteByte('_')
			}
			sb.WriteRune(unicode.ToLower(r))
		} else {
			sb.WriteRune(r)
		}
	}
	return sb.String()
}

// switchedStrings: option name (snake case of the field a `switch x.Field` is on) -> the
// string literals of its cases, from the Go sources of pkg/interp of the tree under test.
func switchedStrings(repo string) map[string][]string {
	out := map[string][]string{}
	fset := token.NewFileSet()
	pkgs, err := parser.ParseDir(fset, filepath.Join(repo, "pkg/interp"), nil, 0)
	if err != nil {
		return out
	}
	for _, pkg := range pkgs {
		for name, f := range pkg.Files {
			if strings.HasSuffix(name, "_test.go") {
				continue
			}
			ast.Inspect(f, func(n ast.Node) bool {
				sw, ok := n.(*ast.SwitchStmt)
				if !ok || sw.Tag == nil {
					return true
				}
				sel, ok := sw.Tag.(*ast.SelectorExpr)
				if !ok {
					return true
				}
				key := camelToSnake(sel.Sel.Name)
				for _, st := range sw.Body.List {
					cc, ok := st.(*ast.CaseClause)
					if !ok {
						continue
					}
					for _, e := range cc.List {
						if bl, ok := e.(*ast.BasicLit); ok && bl.Kind == token.STRING {
							if v, err := strconv.Unquote(bl.Value); err == nil {
								out[key] = append(out[key], v)
							}
						}
					}
				}
				return true
			})
		}
	}
	return out
}

type optFactor struct {
	key    string
	levels []any // levels[0] = absent (nil marker handled by the builder)
}

type absentT struct{}

func optionFactors(opts map[string]any, enums map[string][]string) []optFactor {
	var keys []string
	for k := range opts {
		keys = append(keys, k)
	}
	sort.Strings(keys)
	var fs []optFactor
	for _, k := range keys {
		f := optFactor{key: k, levels: []any{absentT{}}}
		switch d := opts[k].(type) {
		case bool:
			f.levels = append(f.levels, true, false)
		case int, float64:
			f.levels = append(f.levels, -1, 0, 1, 37, 256) // huge values (2^31: runaway loops) are in the single option objects
		case string:
			seen := map[string]bool{}
			for _, v := range append(append([]string{"", "a", d}, enums[k]...), "") {
				if !seen[v] {
					seen[v] = true
					f.levels = append(f.levels, v)
				}
			}
		default:
			continue // structured options: shaped.go
		}
		fs = append(fs, f)
	}
	return fs
}

// optionPairObjects: the rows of a strength-2 covering array over the factors.
func optionPairObjects(opts map[string]any, enums map[string][]string) ([]shapedOpt, int, bool) {
	fs := optionFactors(opts, enums)
	maxL := 0
	for _, f := range fs {
		if len(f.levels) > maxL {
			maxL = len(f.levels)
		}
	}
	rows := coveringArray(len(fs), maxL)
	// fold every column onto its factor's own number of levels and verify all pairs
	folded := make([][]int, len(rows))
	for i, r := range rows {
		folded[i] = make([]int, len(fs))
		for c := range fs {
			folded[i][c] = r[c] % len(fs[c].levels)
		}
	}
	ok := true
	for a := 0; a < len(fs) && ok; a++ {
		for b := a + 1; b < len(fs) && ok; b++ {
			seen := map[[2]int]bool{}
			for _, r := range folded {
				seen[[2]int{r[a], r[b]}] = true
			}
			if len(seen) != len(fs[a].levels)*len(fs[b].levels) {
				ok = false
			}
		}
	}
	var out []shapedOpt
	dedup := map[string]bool{}
	for _, r := range folded {
		o := map[string]any{}
		for c, f := range fs {
			if _, absent := f.levels[r[c]].(absentT); !absent {
				o[f.key] = f.levels[r[c]]
			}
		}
		t := jsonText(o)
		if !dedup[t] {
			dedup[t] = true
			out = append(out, shapedOpt{expr: t, val: o})
		}
	}
	return out, len(fs), ok
}
