package c06

import (
	"context"
	"encoding/hex"
	"encoding/json"
	"fmt"
	"hash/fnv"
	"os"
	"path/filepath"
	"regexp"
	"runtime/debug"
	"runtime/metrics"
	"strconv"
	"strings"
	"sync"
	"sync/atomic"
	"syscall"
	"time"

	"github.com/wader/fq/internal/verif/core"
	"github.com/wader/fq/internal/verif/fqrun"
	"github.com/wader/fq/pkg/bitio"
	"github.com/wader/fq/pkg/decode"
	"github.com/wader/fq/pkg/interp"
	"github.com/wader/gojq"
)

// Case is one replayable case: a byte string (literally, or as seed + mutation) and
// the configuration it is decoded under.
type Case struct {
	Sec    string `json:"sec"`              // scan | empty | own | cross | sentinel
	Format string `json:"format"`           // group passed to decode(); "probe" for the probe configuration
	Force  bool   `json:"force,omitempty"`  // decode option force
	Probe  bool   `json:"probe,omitempty"`  // configuration = probe (what `fq . file` does)
	Path   string `json:"path,omitempty"`   // scan: corpus file
	Seed   *Seed  `json:"seed,omitempty"`   // derivation of the seed (without bytes)
	Mut    *Mut   `json:"mut,omitempty"`    // point of the mutation family
	Hex    string `json:"hex,omitempty"`    // the decoded bytes when short
	Size   int    `json:"size,omitempty"`   // length of the decoded bytes
	Kind   string `json:"kind,omitempty"`   // set by core for process deaths: "crash"
	Desc   string `json:"desc,omitempty"`   // set by core for process deaths: our descJSON
	Site   string `json:"site,omitempty"`   // faulting site
	Class  string `json:"class,omitempty"`  // panic class
	CLI    any    `json:"cli,omitempty"`    // process-like observation
	Repeat string `json:"repeat,omitempty"` // re-run count
}

func (c Case) String() string {
	var sb strings.Builder
	sb.WriteString(c.Sec + ": ")
	switch {
	case c.Seed != nil:
		sb.WriteString("seed " + c.Seed.ID() + " (" + c.Seed.Origin() + ")")
	case c.Path != "":
		sb.WriteString(c.Path)
	default:
		sb.WriteString("bytes")
	}
	if c.Mut != nil {
		sb.WriteString(" " + c.Mut.String())
	}
	if c.Probe {
		sb.WriteString(" | decode (probe)")
	} else {
		sb.WriteString(" | decode(\"" + c.Format + "\"")
		if c.Force {
			sb.WriteString("; {force:true}")
		}
		sb.WriteString(")")
	}
	return sb.String()
}

// descJSON is the crash-attribution line handed to core (<= 511 bytes): enough to
// rebuild the case in replay.
func descJSON(c Case) string {
	if c.Seed != nil {
		s := *c.Seed
		s.Data = nil
		c.Seed = &s
	}
	b, _ := json.Marshal(c)
	if len(b) > 490 && c.Hex != "" {
		c.Hex = ""
		b, _ = json.Marshal(c)
	}
	if len(b) > 490 && c.Seed != nil {
		// replay finds the seed again by format and rank (full scan)
		c.Seed = &Seed{Format: c.Seed.Format, Rank: c.Seed.Rank, Class: -1}
		b, _ = json.Marshal(c)
	}
	return string(b)
}

// ---------------------------------------------------------------------------
// tally: what the shard reports. Kept outside core.Run so that it survives both a
// self re-exec (watchdog) and a restart by core after a process death (it is saved
// to a carry file in the run's scratch directory every few seconds and on every
// violation, and loaded by whichever worker image comes next).

type tviol struct {
	Sig  string `json:"sig"`
	What string `json:"what"`
	Case any    `json:"case"`
}

type tally struct {
	Evals        int64            `json:"evals"`
	Counts       map[string]int64 `json:"counts"`
	Nontrivial   []uint64         `json:"nontrivial"`
	Inconclusive []string         `json:"inconclusive"`
	NotExh       []string         `json:"notexh"`
	Viol         []tviol          `json:"viol"`
	Samples      []any            `json:"samples"`
	Sites        map[string]int   `json:"sites"`
	nt           map[uint64]struct{}
}

func newTally() *tally {
	return &tally{Counts: map[string]int64{}, nt: map[uint64]struct{}{}, Sites: map[string]int{}}
}

func (t *tally) inconclusive(s string) {
	t.Counts["inconclusive"]++
	if len(t.Inconclusive) < 50 {
		t.Inconclusive = append(t.Inconclusive, s)
	}
}

func (t *tally) save(path string) error {
	t.Nontrivial = t.Nontrivial[:0]
	for k := range t.nt {
		t.Nontrivial = append(t.Nontrivial, k)
	}
	b, err := json.Marshal(t)
	if err != nil {
		return err
	}
	tmp := path + ".tmp"
	if err := os.WriteFile(tmp, b, 0o644); err != nil {
		return err
	}
	return os.Rename(tmp, path)
}

func loadTally(path string) (*tally, error) {
	b, err := os.ReadFile(path)
	if err != nil {
		return nil, err
	}
	t := newTally()
	if err := json.Unmarshal(b, t); err != nil {
		return nil, err
	}
	if t.Counts == nil {
		t.Counts = map[string]int64{}
	}
	if t.Sites == nil {
		t.Sites = map[string]int{}
	}
	for _, k := range t.Nontrivial {
		t.nt[k] = struct{}{}
	}
	return t, nil
}

func (t *tally) flush(r *core.Run) {
	r.Eval(t.Evals)
	for k, v := range t.Counts {
		r.Count(k, v)
	}
	for k := range t.nt {
		r.NontrivialHash(k)
	}
	for _, s := range t.Inconclusive {
		r.Inconclusive(s)
	}
	for _, s := range t.NotExh {
		r.NotExhaustive(s)
	}
	for _, v := range t.Viol {
		r.Violate(v.Sig, v.What, v.Case)
	}
	for _, s := range t.Samples {
		r.Sample(s)
	}
}

// ---------------------------------------------------------------------------

type job struct {
	idx    int64
	c      Case
	data   []byte
	format string
	force  bool
	// faithful: call decode/2, dv, tovalue themselves (see driverProg)
	faithful bool

	// observations (written by the evaluator goroutine before it reports)
	decoded  bool // decode() returned a tree
	values   int  // number of values in it
	hasErr   bool // tree carries a decode error
	dumped   bool
	tovalued bool
	jqErr    string // decode() raised a jq error (reported decode failure)
}

type outcome struct {
	panicErr *fqrun.PanicError
	evalErr  error // the evaluation ended for another reason than exhaustion of the case feed
}

type worker struct {
	r  *core.Run
	t  *tally
	mu sync.Mutex // guards cur* (watchdog)

	state any // global interpreter state as `fq` sets it up (options stack)

	cover    []*Seed // coverage seeds of the structural section
	coverMax int     // per format

	jobs chan *job
	res  chan outcome
	cur  *job // job the evaluator is working on

	curActive bool
	curIdx    int64
	curDesc   string
	curStart  time.Time
	curCPU    time.Duration

	inScan      atomic.Bool
	curKey      string // (seed, configuration) of the running case, for wdSkipAfter
	wdSkipAfter int64
	stepCPU     time.Duration
	stepWall    time.Duration
	heapMax     uint64
	softDL      time.Time
	lastSave    time.Time
	carry       string
	sampleN     int64
}

// the registered jq functions reach the worker through this (one worker per process)
var theWorker *worker

// driverProg: one compiled program per interpreter, data driven over the case feed.
// Mode 1 ("faithful") calls the public functions exactly as a user does:
// decode/2, dv, tovalue. Mode 0 ("fast") is the same pipeline with the loop
// invariant parts of those three jq definitions hoisted out of the loop (decode/2
// rebuilds `_registry` and `options` on every call, ~3 ms): the bodies below are
// decode/2 (pkg/interp/decode.jq), display/2 as called by dv and tovalue/0
// (pkg/interp/interp.jq, decode.jq) with `options` evaluated once. Every fault the
// fast mode finds is re-run in faithful mode (standalone) before it is reported.
const driverProg = `(.state | _global_state(.)) as $_
| options as $o
| ({progress: null} + $o) as $dopts
| (options({array_truncate: 0, string_truncate: 0, verbose: true}) | .raw_output = false) as $dvo
| _c06_cases as $c
| try
    ( if $c.m == 1 then
        ( $c.b
        | decode($c.f; $c.o)
        | _c06_mark("decoded")
        | (dv | empty), _c06_mark("dumped"), (tovalue | _c06_mark("tovalue") | empty)
        | empty
        )
      else
        ( $c.b
        | _decode($c.f; $dopts + $c.o + (if $c.f == "probe" then {is_probe: true, filename: null} else {} end))
        | _c06_mark("decoded")
        | ( . as $v
          | (try _todisplay catch $v)
          | if _can_display then _display($dvo) else _print_color_json($dvo) end
          | empty
          )
        , _c06_mark("dumped")
        , (_tovalue($o) | _c06_mark("tovalue") | empty)
        | empty
        )
      end
    )
  catch _c06_caught
| empty`

func init() {
	interp.RegisterIter0("_c06_cases", func(_ *interp.Interp, _ any) gojq.Iter { return caseIter{} })
	interp.RegisterFunc1("_c06_mark", func(_ *interp.Interp, c any, what string) any {
		w := theWorker
		if w == nil || w.cur == nil {
			return c
		}
		j := w.cur
		switch what {
		case "decoded":
			j.decoded = true
			if dv, ok := c.(interp.DecodeValue); ok {
				v := dv.DecodeValue()
				j.values = treeSize(v)
				j.hasErr = v.Err != nil
			}
		case "dumped":
			j.dumped = true
		case "tovalue":
			j.tovalued = true
		}
		return c
	})
	interp.RegisterFunc0("_c06_caught", func(_ *interp.Interp, c any) any {
		w := theWorker
		if w != nil && w.cur != nil {
			s := fmt.Sprint(c)
			if len(s) > 200 {
				s = s[:200]
			}
			if s == "" {
				s = "error"
			}
			w.cur.jqErr = s
		}
		return nil
	})
	// Sentinel format: a decoder that fails in the three ways the oracle must tell
	// apart. It is not in the probe group and is excluded from the format list.
	interp.RegisterFormat(&decode.Group{Name: sentinelFormat}, &decode.Format{
		Description: "verification harness sentinel (C06)",
		DecodeFn: func(d *decode.D) any {
			d.FieldU8("kind")
			b := d.BytesRange(0, 1)
			switch b[0] {
			case 'P': // genuine runtime fault inside a decoder
				var tbl []int
				idx := int(d.FieldU8("index"))
				d.FieldValueUint("entry", uint64(tbl[idx]))
			case 'E': // decoder's own validity check
				d.Fatalf("sentinel: invalid")
			case 'I': // short read
				d.FieldU64("beyond_end")
			}
			return nil
		},
	})
}

const sentinelFormat = "c06_sentinel"

type caseIter struct{}

// Next hands the next case to the jq driver. Returning from here means the previous
// case ran to completion (all three phases or a caught jq error).
func (caseIter) Next() (any, bool) {
	w := theWorker
	if w.cur != nil {
		w.cur = nil
		w.res <- outcome{}
	}
	j, ok := <-w.jobs
	if !ok {
		return nil, false
	}
	w.cur = j
	bin, err := interp.NewBinaryFromBitReader(bitio.NewBitReader(j.data, -1), 8, 0)
	if err != nil {
		return err, true
	}
	mode := 0
	if j.faithful {
		mode = 1
	}
	return map[string]any{"b": bin, "f": j.format, "o": map[string]any{"force": j.force}, "m": mode}, true
}

// evaluator runs one long-lived interpreter evaluating the driver over the feed.
func (w *worker) evaluator() {
	s, err := fqrun.NewSession(nil)
	if err != nil {
		// drain so that the main loop does not block
		for range w.jobs {
			w.res <- outcome{evalErr: err}
		}
		return
	}
	_, err = s.Eval(map[string]any{"state": cliState()}, driverProg)
	pe, isPanic := fqrun.IsPanic(err)
	if w.cur != nil {
		// the evaluation ended inside a case
		w.cur = nil
		if isPanic {
			w.res <- outcome{panicErr: pe}
		} else {
			if err == nil {
				err = fmt.Errorf("driver ended without error inside a case")
			}
			w.res <- outcome{evalErr: err}
		}
		go func() { defer func() { _ = recover() }(); s.Close() }()
		return
	}
	s.Close()
	if err != nil {
		// failed outside a case (compile error, ...): every later job fails
		for range w.jobs {
			w.res <- outcome{evalErr: err}
		}
	}
}

// exec runs one case and returns its outcome. Starts a fresh interpreter when the
// previous one was lost to a panic.
func (w *worker) exec(j *job) outcome {
	if w.jobs == nil {
		w.jobs = make(chan *job)
		w.res = make(chan outcome)
		go w.evaluator()
	}
	w.r.Case(j.idx, descJSON(j.c))
	w.begin(j.idx, j.c.String())
	w.jobs <- j
	o := <-w.res
	w.end()
	if o.panicErr != nil || o.evalErr != nil {
		// that evaluator is gone
		close(w.jobs)
		w.jobs, w.res = nil, nil
	}
	return o
}

func (w *worker) closeEvaluator() {
	if w.jobs != nil {
		close(w.jobs)
		w.jobs, w.res = nil, nil
	}
}

// ---------------------------------------------------------------------------
// classification

var digitsRe = regexp.MustCompile(`[0-9]+`)
var hexRe = regexp.MustCompile(`0x[0-9a-f]+`)

// panicClass folds the concrete numbers out of a panic message.
func panicClass(msg string) string {
	m := strings.TrimPrefix(msg, "runtime error: ")
	for _, k := range []string{"index out of range", "slice bounds out of range", "invalid memory address or nil pointer dereference",
		"makeslice: len out of range", "makeslice: cap out of range", "integer divide by zero", "interface conversion", "negative shift amount",
		"strings: negative Repeat count", "bytes: negative Repeat count", "hash is nil", "out of memory", "stack overflow", "makechan: size out of range"} {
		if strings.Contains(m, k) {
			return k
		}
	}
	m = hexRe.ReplaceAllString(m, "N")
	m = digitsRe.ReplaceAllString(m, "N")
	if len(m) > 60 {
		m = m[:60]
	}
	return m
}

var frameFileRe = regexp.MustCompile(`/format/([a-z0-9_/]+)/[^/]+\.go:\d+`)

// ownerFormat names the decoder package of the innermost format/ frame of a trace.
func ownerFormat(stack string) string {
	for _, l := range strings.Split(stack, "\n") {
		l = strings.TrimSpace(l)
		if strings.Contains(l, "/internal/verif/") {
			continue
		}
		if m := frameFileRe.FindStringSubmatch(l); m != nil {
			return m[1]
		}
	}
	return "core"
}

// repoRoot is the tree under test; core.PanicSite only strips "/repo/".
var repoRoot = "/repo"

func panicSite(stack string) string {
	site := core.PanicSite(stack)
	if repoRoot != "" && repoRoot != "/repo" {
		site = strings.Replace(site, "@"+strings.TrimSuffix(repoRoot, "/")+"/", "@", 1)
	}
	return site
}

func signature(stack, msg string) (sig, site, class string) {
	site = panicSite(stack)
	class = panicClass(msg)
	return "panic:" + ownerFormat(stack) + ":" + site + ":" + class, site, class
}

var documentedExit = map[int]bool{0: true, 2: true, 3: true, 4: true, 5: true}

type cliObs struct {
	Args   []string `json:"args"`
	Exit   int      `json:"exit"`
	Panic  string   `json:"panic,omitempty"`
	Site   string   `json:"site,omitempty"`
	Stderr string   `json:"stderr"`
	Bad    bool     `json:"violates"`
}

// cliRun is the process-like observation: the same bytes as a file given to fq's
// real entry point (argument parsing, open, decode, display), once per expression
// until one ends in a Go panic (= the process would die with a trace, status 2).
func cliRun(c Case, data []byte) cliObs {
	var last cliObs
	for _, expr := range []string{".", "dv", "tovalue"} {
		var args []string
		if !c.Probe {
			args = append(args, "-d", c.Format)
		}
		if c.Force {
			args = append(args, "-o", "force=true")
		}
		args = append(args, expr, "input.bin")
		res := fqrun.Run(fqrun.Opts{Args: args, Files: map[string][]byte{"input.bin": data}, StdinIsTerminal: true})
		o := cliObs{Args: append([]string{"fq"}, args...), Exit: res.Exit, Stderr: firstN(string(res.Stderr), 300)}
		if res.Panic != nil {
			o.Panic = core.PanicString(res.Panic)
			o.Site = panicSite(res.PanicStack)
			o.Bad = true
			return o
		}
		if !documentedExit[res.Exit] || strings.Contains(string(res.Stderr), "goroutine ") {
			o.Bad = true
			return o
		}
		last = o
	}
	return last
}

func firstN(s string, n int) string {
	if len(s) > n {
		return s[:n] + "..."
	}
	return s
}

// reportPanic records a Go panic that escaped fq for a case: signature by
// (decoder package, function@file, panic class); the first time a signature shows
// in this worker the case is re-run 5 times on fresh interpreters and once process
// like.
func (w *worker) reportPanic(c Case, data []byte, msg, stack string) {
	sig, site, class := signature(stack, msg)
	w.t.Counts["panics"]++
	w.t.Sites[sig]++
	if w.t.Sites[sig] > 1 {
		return
	}
	c.Site, c.Class = site, class
	c.Size = len(data)
	if len(data) <= 4096 {
		c.Hex = hex.EncodeToString(data)
	}
	if c.Seed != nil {
		s := *c.Seed
		s.Data = nil
		c.Seed = &s
	}
	rep := 0
	for i := 0; i < 5; i++ {
		if o := standalone(w.state, c, data); o.panicMsg != "" && panicClass(o.panicMsg) == class && panicSite(o.stack) == site {
			rep++
		}
	}
	c.Repeat = fmt.Sprintf("%d/5", rep)
	cli := cliRun(c, data)
	c.CLI = cli
	if rep < 5 && c.Sec != "scan" {
		// not deterministic: not believed (never an alarm), but listed
		w.t.inconclusive(fmt.Sprintf("panic reproduced only %d/5 times: %s: %s", rep, c.String(), msg))
		delete(w.t.Sites, sig)
		return
	}
	what := fmt.Sprintf("%s (%d bytes%s) -> Go panic escaped fq: %s at %s; re-run %s; process-like `%s`: exit=%d panic=%q stderr=%q; expected: decode tree or decode error with exit status 0/4/5",
		c.String(), len(data), hexNote(data), msg, site, c.Repeat, strings.Join(cli.Args, " "), cli.Exit, cli.Panic, firstN(cli.Stderr, 120))
	w.t.Viol = append(w.t.Viol, tviol{Sig: sig, What: what, Case: c})
	w.saveCarry()
}

func hexNote(data []byte) string {
	if len(data) <= 48 {
		return ": " + hex.EncodeToString(data)
	}
	return ""
}

type soloObs struct {
	panicMsg string
	stack    string
	evalErr  string
	decoded  bool
	jqErr    string
}

// standalone runs one case on a fresh interpreter without the feed machinery.
func standalone(state any, c Case, data []byte) soloObs {
	var o soloObs
	s, err := fqrun.NewSession(nil)
	if err != nil {
		o.evalErr = err.Error()
		return o
	}
	bin, _ := interp.NewBinaryFromBitReader(bitio.NewBitReader(data, -1), 8, 0)
	in := map[string]any{"state": cliState(), "b": bin, "f": c.Format, "o": map[string]any{"force": c.Force}}
	outs, err := s.Eval(in, `(.state | _global_state(.)) as $_ | . as $c
| try ($c.b | decode($c.f; $c.o) | (dv | empty), (tovalue | "tree")) catch ("decode error: " + tostring)`)
	if pe, ok := fqrun.IsPanic(err); ok {
		o.panicMsg = core.PanicString(pe.Value)
		o.stack = pe.Stack
		go func() { defer func() { _ = recover() }(); s.Close() }()
		return o
	}
	s.Close()
	if err != nil {
		o.evalErr = err.Error()
	}
	for _, v := range outs {
		if sv, ok := v.(string); ok {
			if sv == "tree" {
				o.decoded = true
			} else {
				o.jqErr = firstN(sv, 200)
			}
		}
	}
	return o
}

// ---------------------------------------------------------------------------
// watchdog: never an alarm. A case that neither returns nor can be cancelled (the
// decoders do not poll the context) is recorded as inconclusive and the worker
// replaces its own process image, resuming after the case.

func cpuTime() time.Duration {
	var ru syscall.Rusage
	if syscall.Getrusage(syscall.RUSAGE_SELF, &ru) != nil {
		return 0
	}
	return time.Duration(ru.Utime.Nano() + ru.Stime.Nano())
}

func (w *worker) begin(idx int64, desc string) {
	cpu := cpuTime()
	w.mu.Lock()
	w.curIdx, w.curDesc, w.curStart, w.curCPU, w.curActive = idx, desc, time.Now(), cpu, true
	w.mu.Unlock()
}

func (w *worker) end() {
	w.mu.Lock()
	w.curActive = false
	w.mu.Unlock()
}

func (w *worker) startWatchdog() {
	sample := []metrics.Sample{{Name: "/memory/classes/heap/objects:bytes"}}
	go func() {
		for {
			time.Sleep(50 * time.Millisecond)
			w.mu.Lock()
			active, start, cpu0 := w.curActive, w.curStart, w.curCPU
			w.mu.Unlock()
			if !active {
				continue
			}
			wall := time.Since(start)
			if wall < 500*time.Millisecond {
				continue
			}
			if time.Now().After(w.softDL.Add(2*time.Second)) && !w.inScan.Load() {
				// do not let one case carry the shard past the tier's budget
				w.selfRestart("the tier deadline passed during the case", start)
				continue
			}
			el := cpuTime() - cpu0
			metrics.Read(sample)
			heap := sample[0].Value.Uint64()
			why := ""
			stepCPU, heapMax := w.stepCPU, w.heapMax
			if w.inScan.Load() {
				// seed selection: files that are this expensive intact are no seeds
				stepCPU, heapMax = 4*time.Second, 2<<30
			}
			switch {
			case el > stepCPU:
				why = "no verdict after " + stepCPU.String() + " of cpu time"
			case wall > w.stepWall:
				why = "no verdict after " + w.stepWall.String()
			case heap > heapMax:
				why = fmt.Sprintf("live heap grew to %d MiB (many small allocations, not one sized by an input field)", heap>>20)
			}
			if why != "" {
				w.selfRestart(why, start)
			}
		}
	}()
}

func (w *worker) selfRestart(why string, start time.Time) {
	w.mu.Lock() // never unlocked when the image is replaced
	if !w.curActive || w.curStart != start {
		w.mu.Unlock()
		return
	}
	t := w.t
	t.inconclusive("watchdog (" + why + "): " + w.curDesc)
	t.Counts["inconclusive_watchdog_restart"]++
	if w.curKey != "" {
		t.Counts["wd:"+w.curKey]++
		if p := w.wdFile(w.curKey); p != "" {
			if f, err := os.OpenFile(p, os.O_CREATE|os.O_WRONLY|os.O_APPEND, 0o644); err == nil {
				_, _ = f.Write([]byte{'x'})
				f.Close()
			}
		}
	}
	if w.carry == "" || !w.r.IsChild {
		fmt.Fprintf(os.Stderr, "[C06] watchdog: %s: %s (not a shard child; stopping)\n", why, w.curDesc)
		os.Exit(3)
	}
	if err := t.save(w.carry); err != nil {
		fmt.Fprintln(os.Stderr, "[C06] watchdog: cannot save carry:", err)
		os.Exit(3)
	}
	var env []string
	for _, kv := range os.Environ() {
		if strings.HasPrefix(kv, "VERIF_SHARD_RESUME=") {
			continue
		}
		env = append(env, kv)
	}
	env = append(env, "VERIF_SHARD_RESUME="+strconv.FormatInt(w.curIdx, 10))
	exe, err := os.Executable()
	if err == nil {
		err = syscall.Exec(exe, os.Args, env)
	}
	fmt.Fprintln(os.Stderr, "[C06] watchdog: exec failed:", err)
	os.Exit(3)
}

// watchdog stops per (seed, configuration) are counted across all shards (one byte
// appended to a file in the run's scratch directory per stop).
func (w *worker) wdFile(key string) string {
	if w.carry == "" {
		return ""
	}
	return filepath.Join(filepath.Dir(w.carry), fmt.Sprintf("c06-wd-%016x", hash64(key)))
}

func (w *worker) wdStops(key string) int64 {
	if p := w.wdFile(key); p != "" {
		if fi, err := os.Stat(p); err == nil {
			return fi.Size()
		}
		return 0
	}
	return w.t.Counts["wd:"+key]
}

func (w *worker) expired() bool { return time.Now().After(w.softDL) }

func (w *worker) saveCarry() {
	if w.carry == "" {
		return
	}
	w.mu.Lock()
	_ = w.t.save(w.carry)
	w.mu.Unlock()
	w.lastSave = time.Now()
}

func newWorker(r *core.Run) *worker {
	w := &worker{r: r, t: newTally()}
	repoRoot = r.Repo
	// the limits only decide between "verdict" and "inconclusive", never an alarm;
	// 16 workers share the machine, so the live heap ceiling is far below the
	// 16 GiB address space ceiling that turns a single oversized allocation into a
	// process death
	w.stepCPU = core.Pick(r, 3*time.Second, 10*time.Second)
	w.stepWall = 10 * w.stepCPU
	w.heapMax = core.Pick(r, uint64(1<<30), uint64(3<<30))
	w.wdSkipAfter = core.Pick(r, int64(3), int64(12))
	// stop early enough that the shards' results are merged inside the tier's budget
	// (the margin is a fraction of the tier's whole budget, not of what is left for
	// this process image: images started late must stop at the same time)
	total := 150 * time.Second
	env := "VERIF_QUICK_DEADLINE"
	if r.Thorough() {
		total, env = 25*time.Minute, "VERIF_THOROUGH_DEADLINE"
	}
	if d, err := time.ParseDuration(os.Getenv(env)); err == nil && d > 0 {
		total = d
	}
	w.softDL = r.Deadline.Add(-total / 8)
	if out := os.Getenv("VERIF_SHARD_OUT"); out != "" && r.IsChild {
		w.carry = filepath.Join(filepath.Dir(out), fmt.Sprintf("c06-carry-%d.json", r.ShardIdx))
		if t, err := loadTally(w.carry); err == nil {
			w.t = t
			w.t.Counts["worker_images_resumed"]++
		}
	}
	// a Go stack overflow is fatal at 1 GB by default; keep fq's default
	debug.SetMaxStack(1 << 30)
	theWorker = w
	return w
}

// ---------------------------------------------------------------------------

var (
	cliStateOnce sync.Once
	cliStateJSON []byte
	cliStateErr  string
)

// cliState is the interpreter's global state (options stack etc.) exactly as the
// command line entry point leaves it: obtained by running the real _main once. A
// bare Interp.Eval has no options, so dump and tovalue would fail before doing any
// work.
func cliState() any {
	cliStateOnce.Do(func() {
		res := fqrun.Run(fqrun.Opts{Args: []string{"-n", "-r", "_global_state | tojson"}, StdinIsTerminal: true})
		if res.Panic != nil || res.Exit != 0 {
			cliStateErr = res.String()
			return
		}
		cliStateJSON = []byte(strings.TrimSpace(string(res.Stdout)))
	})
	if cliStateJSON == nil {
		return nil
	}
	dec := json.NewDecoder(strings.NewReader(string(cliStateJSON)))
	dec.UseNumber()
	var v any
	if err := dec.Decode(&v); err != nil {
		cliStateErr = err.Error()
		return nil
	}
	return fixNumbers(v)
}

func fixNumbers(v any) any {
	switch x := v.(type) {
	case json.Number:
		if i, err := strconv.Atoi(string(x)); err == nil {
			return i
		}
		f, _ := x.Float64()
		return f
	case []any:
		for i := range x {
			x[i] = fixNumbers(x[i])
		}
		return x
	case map[string]any:
		for k := range x {
			x[k] = fixNumbers(x[k])
		}
		return x
	}
	return v
}

func hash64(parts ...string) uint64 {
	h := fnv.New64a()
	for _, p := range parts {
		h.Write([]byte(p))
		h.Write([]byte{0})
	}
	return h.Sum64()
}

var _ = context.Background
