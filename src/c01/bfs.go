package c01

import (
	"errors"
	"fmt"
	"io"

	"github.com/wader/fq/internal/verif/core"
	"github.com/wader/fq/pkg/bitio"
)

// Op is one operation of the history alphabet.
type Op struct {
	K      string `json:"k"` // read | readat | seek | readfull | readatfull | clone
	N      int64  `json:"n,omitempty"`
	Off    int64  `json:"off,omitempty"`
	Whence int    `json:"whence,omitempty"`
}

func (o Op) String() string {
	switch o.K {
	case "read":
		return fmt.Sprintf("ReadBits(%d)", o.N)
	case "readat":
		return fmt.Sprintf("ReadBitsAt(%d,@%d)", o.N, o.Off)
	case "seek":
		return fmt.Sprintf("SeekBits(%d,%s)", o.Off, [...]string{"Start", "Current", "End"}[o.Whence])
	case "readfull":
		return fmt.Sprintf("ReadFull(%d)", o.N)
	case "readatfull":
		return fmt.Sprintf("ReadAtFull(%d,@%d)", o.N, o.Off)
	case "clone":
		return "Clone"
	}
	return "?"
}

func opAlphabet(l int64, thorough bool) []Op {
	ns := []int64{0, 1, 3, 7, 8, 9, 16, 17, 64, 65}
	offs := []int64{-9, -8, -1, 0, 1, 7, 8, 9, l - 1, l, l + 1}
	// dedup offs
	seen := map[int64]bool{}
	var uo []int64
	for _, o := range offs {
		if !seen[o] {
			seen[o] = true
			uo = append(uo, o)
		}
	}
	var ops []Op
	for _, n := range ns {
		ops = append(ops, Op{K: "read", N: n})
	}
	for _, o := range uo {
		for w := 0; w < 3; w++ {
			ops = append(ops, Op{K: "seek", Off: o, Whence: w})
		}
	}
	// seek offsets relative to end that land inside
	for _, o := range []int64{-l, -l - 1, -3} {
		ops = append(ops, Op{K: "seek", Off: o, Whence: 2})
	}
	for _, n := range ns {
		ops = append(ops, Op{K: "readfull", N: n})
	}
	ans := []int64{1, 8, 9, 17}
	if thorough {
		ans = ns
	}
	// read-at offsets are non-negative (a negative offset has no corresponding
	// bits; like io.ReaderAt it is a caller error and outside the statement)
	for _, n := range ans {
		for _, o := range uo {
			if o >= 0 {
				ops = append(ops, Op{K: "readat", N: n, Off: o})
			}
		}
	}
	for _, n := range []int64{3, 8, 17} {
		for _, o := range uo {
			if o >= 0 {
				ops = append(ops, Op{K: "readatfull", N: n, Off: o})
			}
		}
	}
	ops = append(ops, Op{K: "clone"})
	return ops
}

// model is the reference: a bit string and a cursor.
type model struct {
	ref core.Bits
	pos int64
}

type failure struct {
	class string
	msg   string
}

const canary = 0x5a

// apply executes op on the real reader and on the model and compares observations.
// It may replace *rp (clone). check=false replays without judging.
func apply(rp *bitio.ReaderAtSeeker, m *model, op Op, check bool) *failure {
	r := *rp
	l := int64(len(m.ref))
	fail := func(class, f string, a ...any) *failure {
		if !check {
			return nil
		}
		return &failure{class: class, msg: fmt.Sprintf(f, a...)}
	}
	newBuf := func(n int64) []byte {
		p := make([]byte, bitio.BitsByteCount(n)+9)
		for i := range p {
			p[i] = canary
		}
		return p
	}
	switch op.K {
	case "read", "readat":
		pos := m.pos
		if op.K == "readat" {
			pos = op.Off
		}
		p := newBuf(op.N)
		var rn int64
		var err error
		if op.K == "read" {
			rn, err = r.ReadBits(p, op.N)
		} else {
			rn, err = r.ReadBitsAt(p, op.N, op.Off)
		}
		avail := l - pos
		if pos < 0 || avail < 0 {
			avail = 0
		}
		want := min(op.N, avail)
		if rn < 0 || rn > want {
			f := fail("too-many-bits", "%s at pos %d of %d bits returned n=%d (err=%v), at most %d bits exist", op, pos, l, rn, err, want)
			if op.K == "read" && rn > 0 {
				m.pos += rn
			}
			return f
		}
		if rn > 0 {
			got := core.BitsOfBuf(p, 0, rn)
			exp := m.ref.Slice(pos, pos+rn)
			if !got.Equal(exp) {
				if op.K == "read" {
					m.pos += rn
				}
				return fail("wrong-bits", "%s at pos %d returned bits %s, source has %s", op, pos, got, exp)
			}
		}
		if op.K == "read" {
			m.pos += rn
		}
		if pos < 0 {
			if err == nil {
				return fail("negative-offset-accepted", "%s returned n=%d without error", op, rn)
			}
			return nil
		}
		if err != nil && !(pos+op.N > l || (pos >= l)) {
			return fail("spurious-error", "%s at pos %d of %d returned err=%v although %d bits exist", op, pos, l, err, avail)
		}
		if err != nil && errors.Is(err, io.EOF) && pos+rn != l && pos < l {
			return fail("eof-before-end", "%s at pos %d of %d returned n=%d with EOF, logical end not reached", op, pos, l, rn)
		}
		if err == nil && rn == 0 && op.N > 0 {
			return fail("no-progress", "%s at pos %d of %d returned (0, nil): no bits and no end-of-data", op, pos, l)
		}
	case "seek":
		var base int64
		switch op.Whence {
		case io.SeekStart:
			base = 0
		case io.SeekCurrent:
			base = m.pos
		case io.SeekEnd:
			base = l
		}
		t := base + op.Off
		got, err := r.SeekBits(op.Off, op.Whence)
		switch {
		case t < 0:
			if err == nil {
				// cursor state after an accepted negative seek is undefined; resync impossible
				f := fail("negative-seek-accepted", "%s from pos %d (len %d) to %d succeeded (returned %d)", op, m.pos, l, t, got)
				m.pos = t
				return f
			}
		case t <= l:
			if err != nil {
				return fail("seek-failed", "%s from pos %d (len %d) to %d failed: %v", op, m.pos, l, t, err)
			}
			m.pos = t
			if got != t {
				return fail("seek-wrong-pos", "%s from pos %d (len %d) returned %d, expected %d", op, base, l, got, t)
			}
		default: // beyond the end: may fail (cursor unchanged) or succeed (reads yield nothing)
			if err == nil {
				m.pos = t
				if got != t {
					return fail("seek-wrong-pos", "%s from pos %d (len %d) returned %d, expected %d", op, base, l, got, t)
				}
			}
		}
	case "readfull", "readatfull":
		pos := m.pos
		if op.K == "readatfull" {
			pos = op.Off
		}
		p := newBuf(op.N)
		var err error
		if op.K == "readfull" {
			_, err = bitio.ReadFull(r, p, op.N)
		} else {
			_, err = bitio.ReadAtFull(r, p, op.N, op.Off)
		}
		if pos < 0 {
			if err == nil && op.N > 0 {
				return fail("negative-offset-accepted", "%s succeeded", op)
			}
			return nil
		}
		avail := max(l-pos, 0)
		if op.N <= avail {
			if op.K == "readfull" {
				m.pos += op.N
			}
			if err != nil {
				return fail("readfull-failed", "%s at pos %d of %d failed (%v) although %d bits exist", op, pos, l, err, avail)
			}
			got := core.BitsOfBuf(p, 0, op.N)
			exp := m.ref.Slice(pos, pos+op.N)
			if !got.Equal(exp) {
				return fail("wrong-bits", "%s at pos %d returned bits %s, source has %s", op, pos, got, exp)
			}
		} else {
			if op.K == "readfull" && pos <= l {
				m.pos = l
			}
			if err == nil {
				return fail("readfull-beyond-end", "%s at pos %d of %d succeeded, only %d bits exist", op, pos, l, avail)
			}
			got := core.BitsOfBuf(p, 0, avail)
			exp := m.ref.Slice(pos, pos+avail)
			if !got.Equal(exp) {
				return fail("wrong-bits", "failing %s at pos %d: available bits %s, source has %s", op, pos, got, exp)
			}
		}
	case "clone":
		c, err := bitio.CloneReaderAtSeeker(r)
		if err != nil {
			return fail("clone-failed", "clone: %v", err)
		}
		*rp = c
		m.pos = 0
	}
	return nil
}

// Case is the replayable unit of the composition exploration.
type Case struct {
	Kind string `json:"kind"`
	Spec *Spec  `json:"spec,omitempty"`
	Ops  []Op   `json:"ops,omitempty"`
	// other explorations
	Args map[string]any `json:"args,omitempty"`
}

// runHistory builds a fresh object, replays ops, judges only the last one.
// Returns the state key after the last op.
func runHistory(s Spec, ops []Op, judgeAll bool) (key uint64, f *failure, pv any) {
	b, err := build(s)
	if err != nil {
		return 0, &failure{class: "build", msg: err.Error()}, nil
	}
	defer b.close()
	m := &model{ref: b.ref}
	r := b.r
	pv, _ = core.Protect(func() {
		for i, op := range ops {
			ff := apply(&r, m, op, judgeAll || i == len(ops)-1)
			if ff != nil && f == nil {
				f = ff
			}
		}
	})
	if pv != nil {
		return 0, f, pv
	}
	return core.DeepHash(r, m.pos), f, nil
}

// exploreSpec is the explicit-state search over one composition.
func exploreSpec(r *core.Run, s Spec, depth int, maxStates int) {
	l := refLen(s)
	if l < 0 {
		r.Count("compositions_unbuildable", 1)
		return
	}
	ops := opAlphabet(l, r.Thorough())
	if hasOver(s) {
		// the end of a window that is longer than its source is the declared length, not the
		// number of bits that exist: seeks relative to the end are not part of this model
		var o2 []Op
		for _, o := range ops {
			if !(o.K == "seek" && o.Whence == 2) {
				o2 = append(o2, o)
			}
		}
		ops = o2
	}
	k0, f0, pv0 := runHistory(s, nil, true)
	if pv0 != nil || f0 != nil {
		r.Violate("build:"+s.Kinds(), fmt.Sprintf("building %s: %v %v", s, f0, pv0), Case{Kind: "compose", Spec: &s})
		return
	}
	seen := map[uint64]struct{}{k0: {}}
	frontier := [][]Op{nil}
	var transitions int64
	capped := false
	for d := 0; d < depth && len(frontier) > 0; d++ {
		var next [][]Op
		for _, h := range frontier {
			if r.Expired() {
				r.NotExhaustive("deadline reached inside a composition search")
				break
			}
			for _, op := range ops {
				hist := append(append(make([]Op, 0, len(h)+1), h...), op)
				r.StepBegin(op.K+":"+s.Kinds(), fmt.Sprintf("%v on %s", hist, s), Case{Kind: "compose", Spec: &s, Ops: hist})
				key, f, pv := runHistory(s, hist, false)
				r.StepEnd()
				transitions++
				if pv != nil {
					msg := core.PanicString(pv)
					if len(msg) > 60 {
						msg = msg[:60]
					}
					r.Violate(fmt.Sprintf("panic:%s:%s:%s", s.Kinds(), op.K, msg),
						fmt.Sprintf("%s after %v on %s panicked: %v", op, h, s, pv), Case{Kind: "compose", Spec: &s, Ops: hist})
					continue
				}
				if f != nil {
					r.Violate(fmt.Sprintf("%s:%s:%s", f.class, op.K, s.Kinds()),
						fmt.Sprintf("%s ; history %v ; reader %s", f.msg, hist, s), Case{Kind: "compose", Spec: &s, Ops: hist})
					continue // do not expand past a failed observation
				}
				if _, ok := seen[key]; !ok {
					if len(seen) >= maxStates {
						capped = true
						continue
					}
					seen[key] = struct{}{}
					next = append(next, hist)
				}
			}
		}
		frontier = next
	}
	if capped {
		r.NotExhaustive(fmt.Sprintf("state cap %d per composition reached", maxStates))
		r.Count("compositions_state_capped", 1)
	}
	r.AddStates(int64(len(seen)))
	r.AddTransitions(transitions)
	r.AddTraces(transitions) // every transition is a model history replayed on a fresh real object
	r.Eval(transitions)
	r.Count("compositions_explored", 1)
	if len(seen) > 1 {
		r.Nontrivial("compose:" + s.String())
	}
}
