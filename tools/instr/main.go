// instr derives instrumented copies of fq source files from the LIVE tree at check
// time (nothing is hand placed in /repo): scheduling/race-detection points before
// every statement that touches a tracked field, `go` statements routed through the
// scheduler, channel close / non-blocking receive announced, and the import "sync"
// replaced by the vsync shim so the code's own Lock/Unlock/Do calls are what the
// explorer sees. It fails loudly when a tracked field no longer exists.
package main

import (
	"bytes"
	"encoding/json"
	"fmt"
	"go/ast"
	"go/parser"
	"go/printer"
	"go/token"
	"os"
	"path/filepath"
	"strconv"
	"strings"
)

type fileSpec struct {
	File   string   `json:"file"`
	Fields []string `json:"fields"`
	Go     bool     `json:"go"`
	Sync   bool     `json:"sync"`
	Chans  bool     `json:"chans"`
	// Idents: package level variables to track (accessed as bare identifiers)
	Idents []string `json:"idents"`
	// Structs: every field of these struct types (declared in the file) is tracked,
	// except fields whose type comes from package sync; derived from the live source
	// so that fields added by a change are tracked too
	Structs []string `json:"structs"`
}

type spec struct {
	Repo  string     `json:"repo"`
	Out   string     `json:"out"`
	Files []fileSpec `json:"files"`
}

const vhookPath = "github.com/wader/fq/internal/verif/vhook"
const vsyncPath = "github.com/wader/fq/internal/verif/vsync"

type inst struct {
	fset    *token.FileSet
	fs      fileSpec
	rel     string
	tracked map[string]bool
	idents  map[string]bool
	seen    map[string]int
	nAccess int
	nGo     int
	nChan   int
	usesVH  bool
}

func exprString(fset *token.FileSet, e ast.Expr) string {
	var b bytes.Buffer
	_ = printer.Fprint(&b, fset, e)
	return b.String()
}

type hook struct {
	x     ast.Expr
	xs    string
	field string
	write bool
}

// collect finds tracked accesses in expression e (not descending into func literals).
func (in *inst) collect(e ast.Node, write bool, out *[]hook) {
	if e == nil {
		return
	}
	ast.Inspect(e, func(n ast.Node) bool {
		switch x := n.(type) {
		case *ast.FuncLit:
			return false
		case *ast.KeyValueExpr:
			// struct literal keys are not accesses
			in.collect(x.Value, false, out)
			return false
		case *ast.SelectorExpr:
			if in.tracked[x.Sel.Name] {
				in.seen[x.Sel.Name]++
				*out = append(*out, hook{x: x.X, xs: exprString(in.fset, x.X), field: x.Sel.Name, write: write})
			}
			in.collect(x.X, false, out)
			return false
		case *ast.Ident:
			if in.idents[x.Name] && x.Obj != nil && x.Obj.Kind == ast.Var {
				if _, isField := x.Obj.Decl.(*ast.Field); !isField {
					if vs, ok := x.Obj.Decl.(*ast.ValueSpec); ok && vs != nil {
						in.seen[x.Name]++
						*out = append(*out, hook{x: nil, xs: "", field: x.Name, write: write})
					}
				}
			}
		case *ast.UnaryExpr:
			if x.Op == token.AND {
				in.collect(x.X, true, out)
				return false
			}
		case *ast.CallExpr:
			// arguments of in-place mutators are written: slices.Sort*, sort.*, copy(dst,..)
			name := ""
			switch f := x.Fun.(type) {
			case *ast.SelectorExpr:
				name = f.Sel.Name
				in.collect(f.X, false, out)
			case *ast.Ident:
				name = f.Name
			}
			mut := strings.HasPrefix(name, "Sort") || strings.HasPrefix(name, "Stable") || name == "Reverse" || name == "Slice" || name == "SliceStable"
			for i, a := range x.Args {
				in.collect(a, write || mut || (name == "copy" && i == 0), out)
			}
			if _, ok := x.Fun.(*ast.FuncLit); ok {
				return false
			}
			return false
		}
		return true
	})
}

// lhsBase: for an assignment target like s.f, s.f[i], s.f[a:b] the tracked selector is written.
func (in *inst) collectLHS(e ast.Expr, out *[]hook) {
	switch x := e.(type) {
	case *ast.SelectorExpr:
		in.collect(x, true, out)
	case *ast.IndexExpr:
		in.collectLHS(x.X, out)
		in.collect(x.Index, false, out)
	case *ast.SliceExpr:
		in.collectLHS(x.X, out)
	case *ast.StarExpr:
		in.collect(x.X, false, out)
	case *ast.ParenExpr:
		in.collectLHS(x.X, out)
	case *ast.Ident:
		in.collect(x, true, out)
	default:
		in.collect(e, false, out)
	}
}

func (in *inst) site(pos token.Pos) string {
	p := in.fset.Position(pos)
	return in.rel + ":" + strconv.Itoa(p.Line)
}

func call(fn string, args ...ast.Expr) ast.Stmt {
	return &ast.ExprStmt{X: &ast.CallExpr{Fun: &ast.SelectorExpr{X: ast.NewIdent("vhook"), Sel: ast.NewIdent(fn)}, Args: args}}
}

func lit(s string) ast.Expr { return &ast.BasicLit{Kind: token.STRING, Value: strconv.Quote(s)} }

// hooksFor returns the statements to insert before st.
func (in *inst) hooksFor(st ast.Stmt) []ast.Stmt {
	var hs []hook
	var pre []ast.Stmt
	switch s := st.(type) {
	case *ast.AssignStmt:
		for _, l := range s.Lhs {
			if s.Tok == token.DEFINE {
				continue
			}
			in.collectLHS(l, &hs)
		}
		for _, r := range s.Rhs {
			in.collect(r, false, &hs)
		}
	case *ast.IncDecStmt:
		in.collectLHS(s.X, &hs)
	case *ast.ExprStmt:
		in.collect(s.X, false, &hs)
	case *ast.ReturnStmt:
		for _, r := range s.Results {
			in.collect(r, false, &hs)
		}
	case *ast.DeferStmt:
		in.collect(s.Call, false, &hs)
	case *ast.GoStmt:
		in.collect(s.Call, false, &hs)
	case *ast.SendStmt:
		in.collect(s.Chan, false, &hs)
		in.collect(s.Value, false, &hs)
	case *ast.IfStmt:
		if s.Init != nil {
			pre = append(pre, in.hooksFor(s.Init)...)
		}
		in.collect(s.Cond, false, &hs)
	case *ast.ForStmt:
		if s.Init != nil {
			pre = append(pre, in.hooksFor(s.Init)...)
		}
		in.collect(s.Cond, false, &hs)
	case *ast.RangeStmt:
		in.collect(s.X, false, &hs)
	case *ast.SwitchStmt:
		if s.Init != nil {
			pre = append(pre, in.hooksFor(s.Init)...)
		}
		in.collect(s.Tag, false, &hs)
	case *ast.TypeSwitchStmt:
		in.collect(s.Assign, false, &hs)
	case *ast.DeclStmt:
		in.collect(s.Decl, false, &hs)
	case *ast.LabeledStmt:
		return in.hooksFor(s.Stmt)
	case *ast.SelectStmt:
		if in.fs.Chans {
			hasDefault := false
			for _, c := range s.Body.List {
				if cc := c.(*ast.CommClause); cc.Comm == nil {
					hasDefault = true
				}
			}
			if hasDefault {
				for _, c := range s.Body.List {
					cc := c.(*ast.CommClause)
					var rx ast.Expr
					switch cm := cc.Comm.(type) {
					case *ast.ExprStmt:
						rx = cm.X
					case *ast.AssignStmt:
						if len(cm.Rhs) == 1 {
							rx = cm.Rhs[0]
						}
					}
					if u, ok := rx.(*ast.UnaryExpr); ok && u.Op == token.ARROW {
						pre = append(pre, call("ChanPoll", lit(in.site(st.Pos())), u.X))
						in.nChan++
						in.usesVH = true
					}
				}
			}
		}
	}
	// close(ch)
	if in.fs.Chans {
		if es, ok := st.(*ast.ExprStmt); ok {
			if c, ok := es.X.(*ast.CallExpr); ok {
				if id, ok := c.Fun.(*ast.Ident); ok && id.Name == "close" && len(c.Args) == 1 {
					pre = append(pre, call("ChanClose", lit(in.site(st.Pos())), c.Args[0]))
					in.nChan++
					in.usesVH = true
				}
			}
		}
	}
	// dedup hooks, writes subsume reads
	type key struct{ xs, f string }
	w := map[key]bool{}
	var order []key
	exprs := map[key]ast.Expr{}
	for _, h := range hs {
		k := key{h.xs, h.field}
		if _, ok := w[k]; !ok {
			order = append(order, k)
			exprs[k] = h.x
		}
		w[k] = w[k] || h.write
	}
	// access hooks first, channel hooks last: a channel hook's bookkeeping must be
	// immediately followed by the real channel operation (no point in between)
	chanHooks := pre
	pre = nil
	defer func() {}()
	for _, k := range order {
		var obj ast.Expr = ast.NewIdent("nil")
		if exprs[k] != nil {
			obj = exprs[k]
		}
		wr := "false"
		if w[k] {
			wr = "true"
		}
		pre = append(pre, call("Access", lit(in.site(st.Pos())), obj, lit(k.f), ast.NewIdent(wr)))
		in.nAccess++
		in.usesVH = true
	}
	return append(pre, chanHooks...)
}

func (in *inst) rewriteList(list []ast.Stmt) []ast.Stmt {
	var out []ast.Stmt
	for _, st := range list {
		pre := in.hooksFor(st)
		out = append(out, pre...)
		if g, ok := st.(*ast.GoStmt); ok && in.fs.Go {
			// go f(args) -> vhook.Go(func() { f(args) })
			fl := &ast.FuncLit{Type: &ast.FuncType{Params: &ast.FieldList{}}, Body: &ast.BlockStmt{List: []ast.Stmt{&ast.ExprStmt{X: g.Call}}}}
			st = call("Go", fl)
			in.nGo++
			in.usesVH = true
		}
		out = append(out, st)
	}
	return out
}

func (in *inst) walk(n ast.Node) {
	ast.Inspect(n, func(n ast.Node) bool {
		switch x := n.(type) {
		case *ast.BlockStmt:
			if x != nil {
				// children first (so inserted hooks are not re-visited)
				for _, s := range x.List {
					in.walk(s)
				}
				x.List = in.rewriteList(x.List)
				return false
			}
		case *ast.CaseClause:
			for _, s := range x.Body {
				in.walk(s)
			}
			x.Body = in.rewriteList(x.Body)
			return false
		case *ast.CommClause:
			for _, s := range x.Body {
				in.walk(s)
			}
			x.Body = in.rewriteList(x.Body)
			return false
		}
		return true
	})
}

func main() {
	b, err := os.ReadFile(os.Args[1])
	if err != nil {
		fmt.Println(err)
		os.Exit(1)
	}
	var sp spec
	if err := json.Unmarshal(b, &sp); err != nil {
		fmt.Println(err)
		os.Exit(1)
	}
	for _, fs := range sp.Files {
		src := filepath.Join(sp.Repo, fs.File)
		fset := token.NewFileSet()
		f, err := parser.ParseFile(fset, src, nil, parser.ParseComments)
		if err != nil {
			fmt.Printf("instr: %s does not parse: %v\n", src, err)
			os.Exit(1)
		}
		in := &inst{fset: fset, fs: fs, rel: fs.File, tracked: map[string]bool{}, idents: map[string]bool{}, seen: map[string]int{}}
		for _, x := range fs.Fields {
			in.tracked[x] = true
		}
		for _, sn := range fs.Structs {
			found := false
			ast.Inspect(f, func(n ast.Node) bool {
				ts, ok := n.(*ast.TypeSpec)
				if !ok || ts.Name.Name != sn {
					return true
				}
				st, ok := ts.Type.(*ast.StructType)
				if !ok {
					return true
				}
				found = true
				for _, fld := range st.Fields.List {
					if se, ok := fld.Type.(*ast.SelectorExpr); ok {
						if id, ok := se.X.(*ast.Ident); ok && id.Name == "sync" {
							continue
						}
					}
					for _, nm := range fld.Names {
						if !in.tracked[nm.Name] {
							in.tracked[nm.Name] = true
							fs.Fields = append(fs.Fields, nm.Name)
						}
					}
				}
				return false
			})
			if !found {
				// renamed or split: fall back to every struct type declared in the file, so
				// that a refactoring does not leave the check without a verdict
				fmt.Printf("INSTR-WARNING struct type %q not found in %s: tracking the fields of every struct type of the file\n", sn, fs.File)
				ast.Inspect(f, func(n ast.Node) bool {
					ts, ok := n.(*ast.TypeSpec)
					if !ok {
						return true
					}
					st, ok := ts.Type.(*ast.StructType)
					if !ok {
						return true
					}
					for _, fld := range st.Fields.List {
						if se, ok := fld.Type.(*ast.SelectorExpr); ok {
							if id, ok := se.X.(*ast.Ident); ok && id.Name == "sync" {
								continue
							}
						}
						for _, nm := range fld.Names {
							if !in.tracked[nm.Name] {
								in.tracked[nm.Name] = true
								fs.Fields = append(fs.Fields, nm.Name)
							}
						}
					}
					return true
				})
			}
		}
		for _, x := range fs.Idents {
			in.idents[x] = true
		}
		for _, d := range f.Decls {
			if fd, ok := d.(*ast.FuncDecl); ok && fd.Body != nil {
				in.walk(fd.Body)
			}
		}
		for _, x := range append(append([]string{}, fs.Fields...), fs.Idents...) {
			if in.seen[x] == 0 {
				fmt.Printf("INSTR-WARNING tracked name %q is not accessed anywhere in %s (unused, renamed or removed)\n", x, fs.File)
			}
		}
		if in.nAccess == 0 {
			// nothing to schedule on: an exploration of this file would be vacuous
			fmt.Printf("instr: no access point could be generated in %s (tracked: %v)\n", fs.File, append(append([]string{}, fs.Fields...), fs.Idents...))
			os.Exit(1)
		}
		nSync := 0
		for _, im := range f.Imports {
			if fs.Sync && im.Path.Value == `"sync"` {
				im.Path.Value = strconv.Quote(vsyncPath)
				im.Name = ast.NewIdent("sync")
				nSync++
			}
		}
		if in.usesVH {
			// add the vhook import to the first import decl (or a new one)
			spec := &ast.ImportSpec{Name: ast.NewIdent("vhook"), Path: &ast.BasicLit{Kind: token.STRING, Value: strconv.Quote(vhookPath)}}
			added := false
			for _, d := range f.Decls {
				if gd, ok := d.(*ast.GenDecl); ok && gd.Tok == token.IMPORT {
					gd.Specs = append(gd.Specs, spec)
					if !gd.Lparen.IsValid() {
						gd.Lparen = gd.Pos()
						gd.Rparen = gd.End()
					}
					added = true
					break
				}
			}
			if !added {
				gd := &ast.GenDecl{Tok: token.IMPORT, Specs: []ast.Spec{spec}}
				f.Decls = append([]ast.Decl{gd}, f.Decls...)
			}
		}
		var buf bytes.Buffer
		if err := printer.Fprint(&buf, fset, f); err != nil {
			fmt.Println(err)
			os.Exit(1)
		}
		out := filepath.Join(sp.Out, fs.File)
		_ = os.MkdirAll(filepath.Dir(out), 0o755)
		if err := os.WriteFile(out, buf.Bytes(), 0o644); err != nil {
			fmt.Println(err)
			os.Exit(1)
		}
		fmt.Printf("OVERLAY %s %s\n", src, out)
		fmt.Printf("INSTR %s access_points=%d go_rewrites=%d chan_points=%d sync_import_shimmed=%d\n", fs.File, in.nAccess, in.nGo, in.nChan, nSync)
	}
}
