package c03

import (
	"fmt"
	"os"
	"path/filepath"
	"strings"
	"time"

	"github.com/wader/fq/internal/verif/core"
	"github.com/wader/fq/internal/verif/corpus"
	"github.com/wader/fq/internal/verif/dsl"
	"github.com/wader/fq/pkg/decode"
)

type finding struct{ sig, msg string }

func judgeCorpus(it corpus.Item) []finding {
	if it.Res.Panic != nil || it.Res.Value == nil {
		// crashes are property C06's subject; here only the tree is judged
		return nil
	}
	var out []finding
	seen := map[string]bool{}
	for _, is := range dsl.CheckTree(it.Res.Value, int64(len(it.Data))*8) {
		site := is.Site
		// recorded finding: fields the tls decoder adds to the nested root struct
		// "message" after it was post-processed (see known_findings.jsonl); kept
		// narrow: tls values at or below a struct named message only
		if strings.HasPrefix(site, "tls:") && strings.Contains(is.Msg, ".message") {
			site = "tls:message-late-fields"
		}
		sig := "corpus:" + is.Class + ":" + site
		if !seen[sig] {
			seen[sig] = true
			out = append(out, finding{sig, is.Msg})
		}
	}
	return out
}

func runCorpus(r *core.Run) {
	r.Rule("(b) every file under format/*/testdata (not .fqtest) x {probe, formats named with -d in the directory's fqtests} x {intact, every prefix length 0..64, prefixes and 00/ff overwrites at field boundaries of the intact decode}: structural invariants; non-trivial = decode returned a tree with >= 3 values")
	maxSize := int64(core.Pick(r, 1<<18, 0))
	var evals int64
	corpus.Walk(r, maxSize, 64, core.Pick(r, 8, 200), func(it corpus.Item) {
		evals++
		if it.Res.Value != nil {
			n := 0
			_ = it.Res.Value.WalkPreOrder(func(_ *decode.Value, _ *decode.Value, _ int, _ int) error { n++; return nil })
			if n >= 3 {
				r.Nontrivial(it.String())
			}
		}
		for _, f := range judgeCorpus(it) {
			r.Violate(f.sig, fmt.Sprintf("%s: %s", it, f.msg), Case{Kind: "corpus", File: it.File.Path, Format: it.Format, Trunc: it.Variant.At, Mut: it.Variant.Kind})
		}
		if evals%20011 == 0 {
			r.Sample(map[string]any{"corpus_case": it.String()})
		}
	})
	r.Eval(evals)
	r.Count("corpus_decodes", evals)
	r.Section("corpus")
}

func replayCorpus(r *core.Run, c Case) bool {
	data, err := os.ReadFile(filepath.Join(r.Repo, c.File))
	if err != nil {
		fmt.Println(err)
		return false
	}
	v := corpus.Variant{Kind: c.Mut, At: c.Trunc}
	d := v.Apply(data)
	res := corpus.Decode(d, c.Format, c.Force, 60*time.Second)
	f := corpus.File{Path: c.File}
	fs := judgeCorpus(corpus.Item{File: &f, Format: c.Format, Variant: v, Data: d, Res: res})
	fmt.Printf("  %s -d %s %s@%d (%d bytes):\n", c.File, c.Format, c.Mut, c.Trunc, len(d))
	for _, x := range fs {
		fmt.Printf("    %s %s\n", x.sig, x.msg)
	}
	return len(fs) > 0
}
