package c11

import (
	"bytes"
	"context"
	"encoding/json"
	"fmt"
	"io"
	"math"
	"math/big"
	"os"
	"runtime"
	"sort"
	"strconv"
	"strings"
	"time"

	"github.com/wader/fq/internal/verif/core"
	"github.com/wader/fq/internal/verif/fqrun"
	"github.com/wader/fq/pkg/interp"
	"github.com/wader/gojq"
)

// Files visible to every run (command line and reference session).
func semFiles() map[string][]byte {
	fs := map[string][]byte{
		"f.json": []byte(`{"a":[1,2]}`),
		"g.json": []byte(`[3,{"a":4}]`),
		"m.jq":   []byte("def mf: \"mf\";\ndef mg(x): [x];\n"),
		"d.json": []byte(`{"k":[1]}`),
	}
	for _, n := range captureNames {
		if strings.HasPrefix(n, "$") {
			continue
		}
		fs["cap_"+n+".jq"] = []byte("def " + n + ": \"captured\";\ndef " + n + "(a): \"captured1\";\n")
	}
	return fs
}

var semModes = []string{"null", "normal", "slurp"}

type semState struct {
	files  map[string][]byte
	s      *fqrun.Session
	inputs []any // decoded f.json, g.json as `inputs` yields them
	r      *core.Run
}

func newSemState() *semState {
	st := &semState{files: semFiles()}
	s, err := fqrun.NewSession(st.files)
	if err != nil {
		panic(err)
	}
	st.s = s
	// the reference session gets the option defaults the command line starts with
	if _, err := s.Eval(nil, `_options_stack([_opt_build_default_fixed]) as $_ | empty`); err != nil {
		panic(fmt.Sprintf("session option setup: %v", err))
	}
	vals, err := s.Eval(nil, `("f.json", "g.json") | open | decode`)
	if err != nil || len(vals) != 2 {
		panic(fmt.Sprintf("session input setup: %v %v", vals, err))
	}
	st.inputs = vals
	return st
}

func (st *semState) close() { st.s.Close() }

type bareRes struct {
	compileErr error
	outs       []any
	err        error
	panicked   any
	timeout    bool
}

// bare evaluates the unmodified program text directly (no rewrite).
func (st *semState) bare(input any, p string) (res bareRes) {
	ctx, cancel := context.WithTimeout(context.Background(), 30*time.Second)
	defer cancel()
	pv, _ := core.Protect(func() {
		it, err := st.s.I.Eval(ctx, input, p, interp.EvalOpts{})
		if err != nil {
			res.compileErr = err
			return
		}
		for {
			v, ok := it.Next()
			if !ok {
				break
			}
			if e, ok := v.(error); ok {
				res.err = e
				break
			}
			res.outs = append(res.outs, v)
		}
	})
	res.panicked = pv
	res.timeout = ctx.Err() != nil
	return res
}

// ---- canonical JSON of values ---------------------------------------------

func canonFloat(f float64) string {
	switch {
	case math.IsNaN(f):
		return "null"
	case math.IsInf(f, 1):
		f = math.MaxFloat64
	case math.IsInf(f, -1):
		f = -math.MaxFloat64
	}
	if f == math.Trunc(f) && math.Abs(f) < 1e15 {
		return strconv.FormatInt(int64(f), 10)
	}
	return strconv.FormatFloat(f, 'g', -1, 64)
}

func canon(b *strings.Builder, v any, depth int) {
	if depth > 64 {
		b.WriteString("<deep>")
		return
	}
	switch v := v.(type) {
	case nil:
		b.WriteString("null")
	case bool:
		b.WriteString(strconv.FormatBool(v))
	case int:
		b.WriteString(strconv.Itoa(v))
	case float64:
		b.WriteString(canonFloat(v))
	case *big.Int:
		b.WriteString(v.String())
	case json.Number:
		s := v.String()
		if bi, ok := new(big.Int).SetString(s, 10); ok {
			b.WriteString(bi.String())
		} else if f, err := strconv.ParseFloat(s, 64); err == nil || f != 0 {
			b.WriteString(canonFloat(f))
		} else {
			b.WriteString("<num " + s + ">")
		}
	case string:
		e, _ := json.Marshal(v)
		b.Write(e)
	case []any:
		b.WriteByte('[')
		for i, x := range v {
			if i > 0 {
				b.WriteByte(',')
			}
			canon(b, x, depth+1)
		}
		b.WriteByte(']')
	case map[string]any:
		ks := make([]string, 0, len(v))
		for k := range v {
			ks = append(ks, k)
		}
		sort.Strings(ks)
		b.WriteByte('{')
		for i, k := range ks {
			if i > 0 {
				b.WriteByte(',')
			}
			e, _ := json.Marshal(k)
			b.Write(e)
			b.WriteByte(':')
			canon(b, v[k], depth+1)
		}
		b.WriteByte('}')
	case gojq.JQValue:
		canon(b, v.JQValueToGoJQ(), depth+1)
	default:
		fmt.Fprintf(b, "<%T>", v)
	}
}

func canonList(vs []any) []string {
	out := make([]string, len(vs))
	for i, v := range vs {
		var b strings.Builder
		canon(&b, v, 0)
		out[i] = b.String()
	}
	return out
}

func parseJSONStream(b []byte) ([]string, error) {
	dec := json.NewDecoder(bytes.NewReader(b))
	dec.UseNumber()
	var out []any
	for {
		var v any
		err := dec.Decode(&v)
		if err == io.EOF {
			break
		}
		if err != nil {
			return canonList(out), err
		}
		out = append(out, v)
	}
	return canonList(out), nil
}

// ---- one program, one mode --------------------------------------------------

type expectation struct {
	exit    int
	outs    []string
	skip    string // non empty: reference inconclusive
	errText string
}

func (st *semState) expect(p string, mode string) expectation {
	var ins []any
	switch mode {
	case "null":
		ins = []any{nil}
	case "normal":
		ins = st.inputs
	case "slurp":
		ins = []any{append([]any{}, st.inputs...)}
	}
	var e expectation
	for _, in := range ins {
		br := st.bare(in, p)
		switch {
		case br.timeout:
			e.skip = "reference evaluation timed out"
			return e
		case br.panicked != nil:
			e.skip = fmt.Sprintf("reference evaluation panicked: %v", br.panicked)
			return e
		case br.compileErr != nil:
			return expectation{exit: 3, errText: errText(br.compileErr)}
		}
		e.outs = append(e.outs, canonList(br.outs)...)
		if br.err != nil {
			e.exit = 5
			e.errText = errText(br.err)
			if strings.Contains(e.errText, "Error() panics") {
				// the error value itself crashes when formatted (on either side): a crash
				// defect outside this property (reported separately), no verdict here
				e.skip = "the program's runtime error cannot be formatted: " + e.errText
				return e
			}
		}
	}
	return e
}

// errText renders an error for descriptions only; some error values of the
// interpreter panic while formatting themselves.
func errText(err error) (s string) {
	if pv, _ := core.Protect(func() { s = err.Error() }); pv != nil {
		s = fmt.Sprintf("<%T: Error() panics: %v>", err, pv)
	}
	return s
}

func cliArgs(p string, mode string) []string {
	var args []string
	switch mode {
	case "null":
		args = append(args, "-n")
	case "slurp":
		args = append(args, "-s")
	}
	if strings.HasPrefix(p, "-") {
		args = append(args, "--")
	}
	args = append(args, p)
	if mode != "null" {
		args = append(args, "f.json", "g.json")
	}
	return args
}

// cli runs the command line in-process. A run that does not come back (never
// observed to be reproducible; the verdict is then inconclusive, never an alarm)
// is abandoned after a generous limit.
func (st *semState) cli(p string, mode string) (fqrun.Result, bool) {
	ctx, cancel := context.WithTimeout(context.Background(), 60*time.Second)
	defer cancel()
	ch := make(chan fqrun.Result, 1)
	go func() {
		ch <- fqrun.Run(fqrun.Opts{Args: cliArgs(p, mode), Files: st.files, StdinIsTerminal: true, Ctx: ctx})
	}()
	select {
	case res := <-ch:
		return res, ctx.Err() != nil
	case <-time.After(90 * time.Second):
		if f := os.Getenv("VERIF_C11_DUMP"); f != "" {
			buf := make([]byte, 1<<20)
			n := runtime.Stack(buf, true)
			_ = os.WriteFile(fmt.Sprintf("%s.%d", f, os.Getpid()), buf[:n], 0o644)
		}
		return fqrun.Result{}, true
	}
}

// slurpSafe: `P | slurp("v")` means `(P) | slurp("v")` - true when the right spine of P's
// pipe chain has no variable binding, label or function definition (their scope would
// extend over the appended stage).
func slurpSafe(p string) bool {
	q, err := gojq.Parse(p)
	if err != nil {
		return false
	}
	if len(q.Imports) > 0 || q.Meta != nil {
		return false
	}
	return rightEdgeClosed(q)
}

// rightEdgeClosed: nothing on the right edge of the syntax tree (the operand chain that
// the appended `| slurp(..)` would continue) opens a scope that reaches to the end of the
// program: no function definition, variable binding or label.
func rightEdgeClosed(q *gojq.Query) bool {
	for q != nil {
		if len(q.FuncDefs) > 0 {
			return false
		}
		if q.Term != nil {
			if q.Term.Type == gojq.TermTypeLabel {
				return false
			}
			for _, sf := range q.Term.SuffixList {
				if sf.Bind != nil {
					return false
				}
			}
			return true
		}
		if q.Right == nil {
			return true
		}
		q = q.Right
	}
	return true
}

// checkSlurpLast: the rewrite of a pipeline that ends in one of fq's slurp functions
// (slurp, repl, help: the last stage is cut off and fed the collected outputs). A REPL
// session evaluates `P | slurp("c11v")` and then prints $c11v: it has to be the array of
// P's outputs.
// slurpStages: every kind of stage that can stand directly in front of a slurp function,
// two and three stage pipelines over three sources (full product). Binds only bind one value
// (their scope extends over the appended stage, which then still runs once).
func slurpStagePrograms() []item {
	srcs := []string{`[[1,2],[3]]`, `({a:[1,2]}, [3])`, `[null, {a:1}]`}
	stages := []string{`.`, `.[]`, `.[]?`, `.[0]`, `.[0]?`, `.a?`, `.?`, `..`, `.[1:]`, `(.)`, `first(.[])`, `. as $x | $x`, `. as [$x] | $x`,
		`.[]?|.`, `.|.`, `[.[]?]`, `{a:.}`, `-(length)`, `try .[] catch "E"`, `if . then .[]? else . end`, `reduce .[]? as $x (0; .+1)`, `..?`, `.[]?.a?`, `"\(.)"`, `@json`, `def f: .[]?; f`}
	var out []item
	for _, x := range srcs {
		for _, a := range stages {
			if strings.HasPrefix(a, "def ") {
				continue
			}
			out = append(out, item{text: x + " | " + a, skel: "slurp-stage:" + a})
			for _, b := range stages {
				if strings.HasPrefix(b, "def ") {
					continue
				}
				out = append(out, item{text: x + " | " + a + " | " + b, skel: "slurp-stage:" + a + " | " + b})
			}
		}
	}
	return out
}

func (st *semState) checkSlurpLast(it item, verbose bool) []viol {
	p := it.text
	// open: the right edge of P sits under a binding, label or definition whose scope takes
	// in the appended stage. Whether fq then treats the slurp function as "last in the
	// pipeline" is its choice (it may refuse: "must be last"), but if it does collect, what it
	// collects has to be the outputs of the program the user wrote - never anything else.
	open := false
	if !strings.HasPrefix(it.skel, "slurp-stage:") && !slurpSafe(p) {
		q, err := gojq.Parse(p)
		if err != nil || len(q.Imports) > 0 || q.Meta != nil {
			return nil
		}
		open = true
	}
	e := st.expect(p, "null")
	if e.skip != "" || e.exit != 0 {
		return nil
	}
	ctx, cancel := context.WithTimeout(context.Background(), 60*time.Second)
	defer cancel()
	lines := []string{p + ` | slurp("c11v")`, `$c11v | tojson`}
	res := fqrun.Run(fqrun.Opts{Args: []string{"-n", "-i"}, Lines: lines, Files: st.files, StdinIsTerminal: true, StdoutIsTerminal: true, Ctx: ctx})
	if st.r != nil {
		st.r.Eval(1)
	}
	if ctx.Err() != nil {
		return nil
	}
	if verbose {
		fmt.Printf("  REPL lines %q: exit=%d stdout=%q stderr=%q; direct outputs=%v\n", lines, res.Exit, res.Stdout, res.Stderr, e.outs)
	}
	desc := fmt.Sprintf("fq -n -i, lines %q: stdout=%q stderr=%q; direct evaluation of the program gives %v", lines, trunc(string(res.Stdout), 200), trunc(string(res.Stderr), 200), e.outs)
	sig := "slurp-last:" + skelTop(it.skel)
	out := strings.TrimSpace(string(res.Stdout))
	if i := strings.LastIndexByte(out, '\n'); i >= 0 {
		out = strings.TrimSpace(out[i+1:])
	}
	if open {
		sig = "slurp-open:" + skelTop(it.skel)
		if st.r != nil {
			st.r.Count("slurp_open_edge_programs", 1)
		}
	}
	var text string
	if err := json.Unmarshal([]byte(out), &text); err != nil {
		if open {
			return nil
		}
		return []viol{{sig: sig + ":no-array", prog: p, what: "the slurped variable was not printed: " + desc}}
	}
	got, err := parseJSONStream([]byte(text))
	if err != nil || len(got) != 1 {
		if open {
			return nil
		}
		return []viol{{sig: sig + ":no-array", prog: p, what: "the slurped variable is not one JSON value: " + desc}}
	}
	if open && st.r != nil {
		st.r.Count("slurp_open_edge_collected", 1)
	}
	var sb strings.Builder
	sb.WriteString("[")
	for i, o := range e.outs {
		if i > 0 {
			sb.WriteString(",")
		}
		sb.WriteString(o)
	}
	sb.WriteString("]")
	want, err := parseJSONStream([]byte(sb.String()))
	if err != nil || len(want) != 1 {
		return nil
	}
	if got[0] != want[0] {
		return []viol{{sig: sig + ":outputs", prog: p, what: "the outputs collected for the slurp function differ from the program's outputs: " + desc}}
	}
	return nil
}

// check runs one program in one mode through both sides. sigFor builds the signature class.
func (st *semState) check(it item, mode string, verbose bool, capture bool) []viol {
	if mode == "slurplast" {
		return st.checkSlurpLast(it, verbose)
	}
	p := it.text
	e := st.expect(p, mode)
	if e.skip != "" {
		if st.r != nil {
			st.r.Count("sem_reference_inconclusive", 1)
			st.r.Inconclusive(fmt.Sprintf("%q (%s): %s", p, mode, e.skip))
		}
		return nil
	}
	res, timedOut := st.cli(p, mode)
	if st.r != nil {
		st.r.Eval(1)
	}
	if verbose {
		fmt.Printf("  mode %s: fq %q\n    command line: exit=%d stdout=%q stderr=%q\n    direct:       exit=%d outputs=%v error=%q\n", mode, cliArgs(p, mode), res.Exit, res.Stdout, res.Stderr, e.exit, e.outs, e.errText)
	}
	if timedOut {
		if st.r != nil {
			st.r.Count("sem_cli_run_did_not_return", 1)
			st.r.Inconclusive(fmt.Sprintf("%q (%s): command line run did not finish in 60s", p, mode))
		}
		return nil
	}
	desc := desc0(p, mode, res, e)
	if capture {
		// one class per (form, name): mode and symptom are in the description
		return st.verdict(res, e, func(kind string) string { return "capture:" + it.skel }, desc)
	}
	return st.verdict(res, e, func(kind string) string { return "sem:" + mode + ":" + kind + ":" + skelTop(it.skel) }, desc)
}

func desc0(p, mode string, res fqrun.Result, e expectation) func(string) string {
	return func(what string) string {
		return fmt.Sprintf("fq %q: %s; command line: exit=%d stdout=%q stderr=%q; direct evaluation of the program: exit=%d outputs=%v error=%q",
			cliArgs(p, mode), what, res.Exit, trunc(string(res.Stdout), 200), trunc(string(res.Stderr), 200), e.exit, e.outs, trunc(e.errText, 120))
	}
}

func (st *semState) verdict(res fqrun.Result, e expectation, sig func(kind string) string, desc func(string) string) []viol {
	if res.Panic != nil {
		return []viol{{sig: sig("panic"), what: desc(fmt.Sprintf("Go panic %v", res.Panic))}}
	}
	if res.Exit != e.exit {
		return []viol{{sig: sig("exit"), what: desc("exit status differs")}}
	}
	got, perr := parseJSONStream(res.Stdout)
	if perr != nil {
		return []viol{{sig: sig("stdout"), what: desc("standard output is not the JSON of the program's outputs")}}
	}
	if len(got) != len(e.outs) {
		return []viol{{sig: sig("stdout"), what: desc(fmt.Sprintf("%d outputs instead of %d", len(got), len(e.outs)))}}
	}
	for i := range got {
		if got[i] != e.outs[i] {
			return []viol{{sig: sig("stdout"), what: desc(fmt.Sprintf("output %d is %s instead of %s", i, got[i], e.outs[i]))}}
		}
	}
	if e.exit == 0 && len(res.Stderr) != 0 {
		return []viol{{sig: sig("stderr"), what: desc("error output for a program without error")}}
	}
	if e.exit != 0 && !bytes.Contains(res.Stderr, []byte("error:")) {
		return []viol{{sig: sig("stderr"), what: desc("no error message for a failing program")}}
	}
	return nil
}

func trunc(s string, n int) string {
	if len(s) > n {
		return s[:n] + "..."
	}
	return s
}

// ---- capture set ------------------------------------------------------------

// names the wrapper, the error handler and the display stage use
var captureNames = []string{
	"inputs", "input", "_cli_display", "_cli_eval_on_expr_error", "display", "display_implicit", "error", "empty",
	"_cli_eval", "_cli_last_expr_error", "_display_default_opts", "options", "_eval_is_compile_error",
	"_error_str", "printerrln", "input_filename", "tostring", "_is_object", "_help_slurp", "_cli_repl_error",
	"_cli_slurp_error", "_repeat_break", "_input", "open", "decode", "help", "repl", "slurp",
	"$_args", "$opts", "$expr", "$err", "$c", "$filename",
}

// captureSet builds programs that define or bind the wrapper's names.
func captureSet() []item {
	var out []item
	add := func(form, name, text string) { out = append(out, item{text, form + ":" + name}) }
	for _, n := range captureNames {
		if strings.HasPrefix(n, "$") {
			add("bind-var", n, "7 as "+n+" | "+n)
			add("bind-var-unused", n, "7 as "+n+" | 8")
			add("destructure-var", n, "[7] as ["+n+"] | "+n)
			add("reduce-var", n, "reduce (1,2) as "+n+" (0; . + "+n+")")
			add("foreach-var", n, "foreach (1,2) as "+n+" (0; "+n+"; [., "+n+"])")
			add("param-var", n, "def f("+n+"): "+n+"; f(7)")
			add("objkey-var", n, "7 as "+n+" | {"+n+"}")
			add("unbound-var", n, n)
			continue
		}
		add("def-call-last", n, "def "+n+": 7; "+n)
		add("def-unused", n, "def "+n+": 7; 8")
		// the definition stands further along the pipe spine: behind bindings, a pipe, a
		// label, inside parentheses, try, if and reduce bodies (the rewrite walks that spine
		// to find the last stage and the definitions in scope there)
		add("def-after-bind-call-last", n, "1 as $x | def "+n+": 7; "+n)
		add("def-after-destructure-call-last", n, "[1] as [$x] | def "+n+": 7; "+n)
		add("def-after-destructure-alt-call-last", n, "[1] as [$x] ?// $x | def "+n+": 7; "+n)
		add("def-after-two-binds-call-last", n, "1 as $x | 2 as $y | def "+n+": 7; "+n)
		add("def-after-pipe-call-last", n, "1 | def "+n+": 7; "+n)
		add("def-after-bind-pipe-call-last", n, "1 as $x | 2 | def "+n+": 7; "+n)
		add("def-after-pipe-bind-call-last", n, "1 | 2 as $x | def "+n+": 7; "+n)
		add("def-after-label-call-last", n, "label $l | def "+n+": 7; "+n)
		add("def-in-parens-call-last", n, "(def "+n+": 7; "+n+")")
		add("def-in-parens-after-bind-call-last", n, "1 as $x | (def "+n+": 7; "+n+")")
		add("def-after-bind-call-after-pipe", n, "1 as $x | def "+n+": 7; 2 | "+n)
		add("def-before-bind-call-last", n, "def "+n+": 7; 1 as $x | "+n)
		add("def-before-bind-call-after-pipe", n, "def "+n+": 7; 1 as $x | 2 | "+n)
		add("def-after-bind-comma-last", n, "1 as $x | def "+n+": 7; 8, "+n)
		add("def1-after-bind-call-last", n, "1 as $x | def "+n+"(a): a; "+n+"(8)")
		add("def-in-try-call-last", n, "try (def "+n+": 7; "+n+") catch 0")
		add("def-in-if-call-last", n, "if true then def "+n+": 7; "+n+" else 0 end")
		add("def-in-reduce-update", n, "reduce 1 as $x (0; def "+n+": 7; "+n+")")
		add("def-after-bind-in-def-body", n, "def f: 1 as $x | def "+n+": 7; "+n+"; f")
		add("def-call-inner", n, "def "+n+": 7; ["+n+"]")
		add("def1-call-last", n, "def "+n+"(a): a; "+n+"(8)")
		add("def1v-call-last", n, "def "+n+"($a): $a; "+n+"(8)")
		add("def1-call-inner", n, "def "+n+"(a): a; ["+n+"(8)]")
		add("param-call-last", n, "def f("+n+"): "+n+"; f(7)")
		add("param-call-inner", n, "def f("+n+"): ["+n+"]; f(7)")
		add("var-same-name", n, "7 as $"+n+" | $"+n)
		add("label-same-name", n, "label $"+n+" | 1, break $"+n+", 2")
		add("import-alias", n, "import \"m\" as "+n+"; "+n+"::mf")
		add("import-data-alias", n, "import \"d\" as $"+n+"; $"+n+"::"+n)
		add("include-module-defining", n, "include \"cap_"+n+"\"; 8")
		add("include-module-defining", n, "include \"cap_"+n+"\"; 8, (\"e\" | error(.))")
		add("import-module-defining", n, "import \"cap_"+n+"\" as c; c::"+n)
		add("objkey", n, "{"+n+": 7}")
		add("field", n, "{\""+n+"\": 7} | ."+n)
		add("nested-def-shadow", n, "def f: def "+n+": 7; "+n+"; f")
	}
	return out
}

// sideEffectFree reports whether the capture program may be compared (programs that
// call the real display/input functions are defined by their side effects).
func isSlurpName(n string) bool { return n == "help" || n == "repl" || n == "slurp" }

// ---- enumeration -------------------------------------------------------------

type semLevel struct {
	level
	modes []string
}

func runCapture(r *core.Run, st *semState, modes []string) bool {
	caps := captureSet()
	var ncap int64
	for _, it := range caps {
		h := hashText(it.text)
		if !r.Mine(int64(h >> 2)) {
			continue
		}
		if r.Expired() {
			r.NotExhaustive("deadline: capture set not finished")
			return false
		}
		if ok, _, _, vs := synCheck(it.text, it.skel, true); ok {
			report(r, "syn", it, "", vs)
		}
		form, name, _ := strings.Cut(it.skel, ":")
		for _, mode := range modes {
			vs := st.check(it, mode, false, true)
			if len(vs) > 0 && isSlurpName(name) && strings.HasSuffix(form, "-call-last") {
				// one class per captured name: the last call of the pipeline is taken for fq's own help/repl/slurp
				vs[0].sig = "capture:pipe-last-call-rewritten:" + name
			}
			report(r, "sem", it, mode, vs)
			if len(vs) > 0 {
				break
			}
		}
		r.NontrivialHash(h)
		ncap++
		if ncap == 1 {
			r.Sample(map[string]any{"oracle": "semantic, capture set", "program": it.text, "modes": modes})
		}
	}
	r.Count("sem_capture_programs", ncap)
	if r.ShardIdx == 0 {
		r.Extra("capture_set_size", len(caps))
		r.Extra("capture_names", captureNames)
	}
	sectionDone(r, "semantic:capture-set:"+strings.Join(modes, "+"))
	r.Logf("semantic capture set: %d programs (this shard)", ncap)
	return true
}

var semSeen = map[string]struct{}{}

func runSemantic(r *core.Run, st *semState, levels []semLevel) bool {
	seen := semSeen
	for _, l := range levels {
		if l.name == "slurp-stages" {
			n := 0
			for i, it := range slurpStagePrograms() {
				if !r.Mine(int64(hashText(it.text) >> 1)) {
					continue
				}
				_ = i
				if r.Expired() {
					r.NotExhaustive("deadline: slurp stage programs not finished")
					return false
				}
				report(r, "sem", it, "slurplast", st.check(it, "slurplast", false, false))
				r.NontrivialHash(hashText(it.text))
				n++
			}
			r.Count("sem_runs_slurp_stages", int64(n))
			sectionDone(r, "semantic:slurp-stages")
			continue
		}
		if l.name == "capture-set" {
			if os.Getenv("VERIF_ONLY") == "slurplast" {
				continue
			}
			if !runCapture(r, st, l.modes) {
				return false
			}
			continue
		}
		var n int64
		done := l.each(r, func(it item) bool {
			h := hashText(it.text)
			if !l.mine(r, h) {
				return true
			}
			if _, err := gojq.Parse(it.text); err != nil {
				return true
			}
			for _, mode := range l.modes {
				if os.Getenv("VERIF_ONLY") == "slurplast" && mode != "slurplast" {
					continue
				}
				key := mode + "\x00" + it.text
				if _, ok := seen[key]; ok {
					continue
				}
				seen[key] = struct{}{}
				if r.Expired() {
					return false
				}
				vs := st.check(it, mode, false, false)
				report(r, "sem", it, mode, vs)
				n++
			}
			r.NontrivialHash(h)
			if n%997 == 1 {
				r.Sample(map[string]any{"oracle": "semantic", "level": l.name, "program": it.text, "args": cliArgs(it.text, l.modes[0])})
			}
			return true
		})
		r.Count("sem_runs_"+l.name, n)
		if !done {
			r.NotExhaustive("deadline: semantic level " + l.name + " (" + strings.Join(l.modes, ",") + ") not finished")
			return false
		}
		sectionDone(r, "semantic:"+l.name+":"+strings.Join(l.modes, "+"))
		r.Logf("semantic %s %v: runs=%d", l.name, l.modes, n)
	}
	return true
}
