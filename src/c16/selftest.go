package c16

import (
	"bytes"
	"encoding/asn1"
	"encoding/hex"
	"fmt"
	"math"

	"github.com/wader/fq/internal/verif/core"
)

// selfTest anchors the harness encoders to published test vectors (RFC 8949
// appendix A, bsonspec.org, msgpack.org, the BitTorrent specification) and to Go's
// encoding/asn1 for the DER subset. A failure here is a harness error, never a verdict.
func selfTest(r *core.Run) {
	has := func(name string, set encSet, want string) {
		w, err := hex.DecodeString(want)
		if err != nil {
			panic(err)
		}
		for i := 0; i < set.Count(); i++ {
			if bytes.Equal(set.At(i).B, w) {
				return
			}
		}
		panic(fmt.Sprintf("C16 selftest: %s: no encoding equals the published vector %s", name, want))
	}
	full := mode{full: true}
	str := func(s string) *V { return vStrLit(s) }
	// RFC 8949 appendix A
	has("cbor 1000000", cborEncs(vInt("1000000"), full), "1a000f4240")
	has("cbor 18446744073709551615", cborEncs(vInt("18446744073709551615"), full), "1bffffffffffffffff")
	has("cbor -1000", cborEncs(vInt("-1000"), full), "3903e7")
	has("cbor -18446744073709551616", cborEncs(vInt("-18446744073709551616"), full), "3bffffffffffffffff")
	has("cbor 1.5", cborEncs(vFlt(1.5), full), "f93e00")
	has("cbor 65504.0", cborEncs(vFlt(65504), full), "f97bff")
	has("cbor 5.960464477539063e-8", cborEncs(vFlt(5.960464477539063e-8), full), "f90001")
	has("cbor 100000.0", cborEncs(vFlt(100000), full), "fa47c35000")
	has("cbor -4.1", cborEncs(vFlt(-4.1), full), "fbc010666666666666")
	has("cbor -Infinity", cborEncs(vFlt(math.Inf(-1)), full), "f9fc00")
	has("cbor NaN", cborEncs(vFlt(math.NaN()), full), "f97e00")
	has("cbor IETF", cborEncs(str("IETF"), full), "6449455446")
	has("cbor h'01020304'", cborEncs(vBinLit([]byte{1, 2, 3, 4}), full), "4401020304")
	has("cbor [1,[2,3],[4,5]]", cborEncs(vArr(vInt("1"), vArr(vInt("2"), vInt("3")), vArr(vInt("4"), vInt("5"))), mode{}), "8301820203820405")
	has("cbor {a:1,b:[2,3]}", cborEncs(vMap([]string{"a", "b"}, []*V{vInt("1"), vArr(vInt("2"), vInt("3"))}), mode{}), "a26161016162820203")
	has("cbor (_ strea,ming)", cborEncs(str("streaming"), full), "7f657374726561646d696e67ff")
	has("cbor [_ 1,[2,3]]", cborEncs(vArr(vInt("1"), vArr(vInt("2"), vInt("3"))), mode{}), "9f01820203ff")
	has("cbor {_ a:1}", cborEncs(vMap([]string{"a"}, []*V{vInt("1")}), full), "bf616101ff")
	// msgpack.org front page
	has("msgpack {compact:true,schema:0}", mpEncs(vMap([]string{"compact", "schema"}, []*V{vBool(true), vInt("0")}), mode{}), "82a7636f6d70616374c3a6736368656d6100")
	has("msgpack -33", mpEncs(vInt("-33"), full), "d0df")
	has("msgpack 65536", mpEncs(vInt("65536"), full), "ce00010000")
	// bsonspec.org
	has("bson {hello:world}", bsonEncs(vMap([]string{"hello"}, []*V{str("world")}), full), "160000000268656c6c6f0006000000776f726c640000")
	has("bson {BSON:[awesome,5.05,1986]}", bsonEncs(vMap([]string{"BSON"}, []*V{vArr(str("awesome"), vFlt(5.05), vInt("1986"))}), mode{}),
		"310000000442534f4e002600000002300008000000617765736f6d65000131003333333333331440103200c20700000000")
	// BitTorrent specification
	has("bencode d3:cow3:moo4:spam4:eggse", benEncs(vMap([]string{"spam", "cow"}, []*V{str("eggs"), str("moo")}), full), hex.EncodeToString([]byte("d3:cow3:moo4:spam4:eggse")))
	has("bencode i-3e", benEncs(vInt("-3"), full), hex.EncodeToString([]byte("i-3e")))
	// X.690 8.5 example-free: cross check the DER subset with encoding/asn1
	der := func(name string, v *V, g any) {
		w, err := asn1.Marshal(g)
		if err != nil {
			panic(err)
		}
		got := berEncs(v, full).At(0).B
		if !bytes.Equal(got, w) {
			panic(fmt.Sprintf("C16 selftest: asn1 %s: harness canonical encoding %x != encoding/asn1 %x", name, got, w))
		}
	}
	for _, l := range intLeaves() {
		der("integer "+l.I, l, l.Int())
	}
	der("true", vBool(true), true)
	der("false", vBool(false), false)
	der("null", vNull(), asn1.NullRawValue)
	for _, n := range []int{0, 1, 31, 127, 128, 255, 256, 65535, 65536} {
		der(fmt.Sprintf("octet string %d", n), vBin(n), vBin(n).Bytes())
		der(fmt.Sprintf("utf8 string %d", n), vStr(n), asn1.RawValue{Tag: asn1.TagUTF8String, Bytes: vStr(n).Bytes()})
	}
	der("sequence", vArr(vInt("1"), vInt("-129"), vInt("65536")), []int{1, -129, 65536})
	der("sequence of 256", vRepArr(256), make([]int, 256))
	seq := make([]int, 257)
	for i := range seq {
		seq[i] = seqElem(i)
	}
	der("sequence of 257 distinct integers", vSeqArr(257), seq)
	// REAL: X.690 8.5.7 base 2, check by evaluating the definition on our own octets
	for _, f := range []float64{0.5, 1.5, -4.1, math.SmallestNonzeroFloat64, math.MaxFloat64, 1e-45, 100000} {
		for _, e := range berReal(f, true) {
			if e.B[0]&0x80 == 0 {
				continue
			}
			if g := evalBerBinaryReal(e.B); math.Float64bits(g) != math.Float64bits(f) {
				panic(fmt.Sprintf("C16 selftest: REAL %v form %s = %x evaluates to %v", f, e.L, e.B, g))
			}
		}
	}
	r.Section("selftest")
}

// evalBerBinaryReal evaluates X.690 8.5.7 with exact big float arithmetic.
func evalBerBinaryReal(b []byte) float64 {
	first := b[0]
	sign := 1.0
	if first&0x40 != 0 {
		sign = -1
	}
	base := []int{1, 3, 4}[(first>>4)&3] // log2 of the base
	F := int(first>>2) & 3
	var expBytes []byte
	rest := b[1:]
	switch first & 3 {
	case 0, 1, 2:
		n := int(first&3) + 1
		expBytes, rest = rest[:n], rest[n:]
	case 3:
		n := int(rest[0])
		expBytes, rest = rest[1:1+n], rest[1+n:]
	}
	E := 0
	for i, c := range expBytes {
		if i == 0 {
			E = int(int8(c))
		} else {
			E = E<<8 | int(c)
		}
	}
	var N uint64
	for _, c := range rest {
		N = N<<8 | uint64(c)
	}
	return sign * math.Ldexp(float64(N), F+E*base)
}
