package c11

import (
	"encoding/json"
	"fmt"
	"strings"

	"github.com/wader/fq/internal/verif/core"
	"github.com/wader/fq/internal/verif/fqrun"
)

// Histories: one interpreter evaluates many expressions (a REPL session, eval/1 with several
// texts, every input of a command line). What an expression means must not depend on which
// expressions the same interpreter saw before. The classes below group program texts that are
// different programs but equal under some plausible normalisation of the text (white space
// runs, line ends, case, number spelling, quotes, comments): exactly what a cache or an
// interning table keyed too coarsely would confuse. Every ordered sequence of two (thorough:
// three) different members of a class runs on one fresh interpreter; the result for the last
// member has to be the result it gives alone on a fresh interpreter.
var confusableClasses = [][]string{
	// white space inside string literals
	{`"a b"`, `"a  b"`, "\"a\tb\"", `"a b "`, `" a b"`, `"ab"`, `"a\tb"`, `"a\nb"`},
	{`"a b" | length`, `"a  b" | length`, `"a   b" | length`},
	// raw strings of fq's lexer
	{"`a b`", "`a  b`", "`a\tb`", "`a\nb`", "`a \\n b`"},
	// object keys, index strings, format strings, interpolation
	{`{"a b": 1}`, `{"a  b": 1}`, `{"a b" : 1}`, `{"a b":1}`},
	{`.["a b"]`, `.["a  b"]`, `."a b"`, `."a  b"`},
	{`@base64 "x y"`, `@base64 "x  y"`, `@text "x y"`, `@json "x  y"`},
	{`"\(1) x"`, `"\(1)  x"`, `"\( 1 ) x"`, `"\(1)x"`},
	// comments: a line end closes a comment, a space does not
	{"1 # c\n+ 2", "1 # c + 2", "1 # c\n + 2", "1 +\n# c\n2"},
	{"\"#\" | length", "\"# \" | length", "\"#\"\n| length", "# \"\n1"},
	// case and number spellings
	{`"A"`, `"a"`, `.A`, `.a`, `$__loc__`, `{A:1}`, `{a:1}`},
	{`1`, `1.0`, `1.00`, `01`, `1e0`, `10e-1`, `0x1`, `0b1`, `0o1`},
	{`100000000000000000000`, `1e20`, `100000000000000000001`, `1E20`},
	{`-1`, `- 1`, `-(1)`, `0-1`, `-1.0`},
	// white space between tokens that changes the tokens
	{`1 - 1`, `1 -1`, `1-1`, `1 - -1`, `1--1`},
	{`. as $x | $x`, `. as $x|$x`, `.as $x | $x`},
	{`.a.b`, `.a .b`, `.a | .b`, `. a . b`, `.a."b"`},
	{`.[1:2]`, `.[1 :2]`, `.[1: 2]`, `.[1:][2]`, `.[12]`, `.[1 2]`},
	{`"a" "b"`, `"a""b"`, `"a","b"`, `"a" , "b"`},
	{`if . then 1 else 2 end`, `if .then 1 else 2 end`, `if . then 1 else 2end`},
	{`def f: 1; f`, `def f:1;f`, `def f: 1 ; f`, `def  f: 1; f`, `deff: 1; f`},
	{`[1,2]|.[0]`, `[1,2] | .[0]`, `[1,2]|. [0]`, `[1, 2] | .[ 0 ]`},
	// trailing and leading white space, line ends
	{`.`, `. `, ` .`, ".\n", ".\r\n", "\t.", ``, ` `, "\n"},
	// strings that only differ in escapes
	{"\"\u00e9\"", "\"e\u0301\"", `"\u00e9"`, `"e"`, `"\\u00e9"`},
	{`"\""`, `"\\"`, `"'"`, `"\\\""`},
}

// histInput is what every program of the classes is applied to.
const histInputJSON = `{"a":{"b":5},"A":6,"a b":1,"a  b":2,"b":[3,4]}`

// histDriver: .progs in order on one interpreter: the printed form of the parsed tree (the
// path every expression takes) and the outputs of eval/1.
const histDriver = `.in as $in | .progs | map(. as $p | [ (try ($p | _query_fromstring | _query_tostring) catch "ERROR"), (try [$in | eval($p)] catch "ERROR") ])`

// histFiles: modules for the repeat histories. A module in a directory that itself includes
// a sibling and a module of a sub directory reaching up: their relative paths are resolved
// against the including module's directory every time the module is loaded.
var histFiles = map[string][]byte{
	"top.jq":       []byte(`def t: "t";`),
	"lib/a.jq":     []byte(`def a: "a";`),
	"lib/b.jq":     []byte(`include "a"; def b: a + "b";`),
	"lib/i.jq":     []byte(`import "a" as m; def i: m::a + "i";`),
	"lib/sub/c.jq": []byte(`include "../a"; def c: a + "c";`),
	"lib/sub/d.jq": []byte(`include "c"; def d: c + "d";`),
	"lib/data.json": []byte(`{"k": 5}`),
}

// repeatPrograms: programs that load modules; each is evaluated two and three times in a
// row and with every other one in between (A A, A A A, A B A): the last result has to be
// the result of a lone evaluation on a fresh interpreter.
var repeatPrograms = []string{
	`include "top"; t`,
	`include "./top"; t`,
	`include "lib/a"; a`,
	`include "./lib/b"; b`,
	`include "lib/b"; b`,
	`import "./lib/b" as m; m::b`,
	`include "lib/i"; i`,
	`include "lib/sub/c"; c`,
	`include "./lib/sub/d"; d`,
	`import "lib/sub/d" as m; m::d`,
	`import "lib/data" as $d; $d::d`,
	`include "lib/b"; include "lib/sub/c"; b + c`,
	`def f: 1; f`,
}

func histEval(progs []string) (rows []string, err error) {
	s, err := fqrun.NewCLISession(histFiles)
	if err != nil {
		return nil, err
	}
	defer s.Close()
	var in any
	if err := json.Unmarshal([]byte(histInputJSON), &in); err != nil {
		return nil, err
	}
	ps := make([]any, len(progs))
	for i, p := range progs {
		ps[i] = p
	}
	outs, err := s.Eval(map[string]any{"in": in, "progs": ps}, histDriver)
	if err != nil {
		return nil, err
	}
	if len(outs) != 1 {
		return nil, fmt.Errorf("%d outputs", len(outs))
	}
	arr, ok := outs[0].([]any)
	if !ok || len(arr) != len(progs) {
		return nil, fmt.Errorf("bad driver result %v", outs[0])
	}
	for _, row := range arr {
		var sb strings.Builder
		canon(&sb, row, 0)
		rows = append(rows, sb.String())
	}
	return rows, nil
}

// histREPL runs the lines through a REPL session (the real path incl. completion of the
// wrapper) and returns what was printed after the last line was entered, approximated by
// stdout of the whole session minus stdout of the session without the last line.
func histREPL(lines []string) (string, bool) {
	res := fqrun.Run(fqrun.Opts{Args: []string{"-n", "-i"}, Lines: lines, Files: histFiles, StdinIsTerminal: true, StdoutIsTerminal: true})
	if res.Panic != nil {
		return fmt.Sprintf("panic: %v", res.Panic), true
	}
	return string(res.Stdout) + "\x00" + string(res.Stderr), true
}

type histCase struct {
	Seq []string `json:"seq"`
}

// seqs yields every sequence of n pairwise different members of the class.
func seqs(class []string, n int, yield func([]string)) {
	var cur []int
	var rec func()
	rec = func() {
		if len(cur) == n {
			s := make([]string, n)
			for i, c := range cur {
				s[i] = class[c]
			}
			yield(s)
			return
		}
		for i := range class {
			dup := false
			for _, c := range cur {
				if c == i {
					dup = true
				}
			}
			if dup {
				continue
			}
			cur = append(cur, i)
			rec()
			cur = cur[:len(cur)-1]
		}
	}
	rec()
}

func histCheckSeq(r *core.Run, seq []string, lone map[string]string, loneREPL map[string]string, verbose bool) (bad bool) {
	last := seq[len(seq)-1]
	rows, err := histEval(seq)
	if r != nil {
		r.Eval(1)
	}
	if err != nil {
		if r != nil {
			r.Violate("history:driver-failed", fmt.Sprintf("sequence %q on one interpreter: %v", seq, err), Case{Kind: "hist", Program: last, Skel: strings.Join(seq, "\x01")})
		}
		return true
	}
	got := rows[len(rows)-1]
	want, ok := lone[last]
	if !ok {
		l, err := histEval([]string{last})
		if err != nil {
			return false
		}
		want = l[0]
		lone[last] = want
	}
	if verbose {
		fmt.Printf("  sequence %q on one interpreter: last gives %s; alone on a fresh interpreter: %s\n", seq, got, want)
	}
	if got != want {
		bad = true
		if r != nil {
			r.Violate("history:parse-print-eval-depends-on-earlier-expressions", fmt.Sprintf("after %q the same interpreter gives for %q [printed tree, eval outputs] = %s; alone on a fresh interpreter %s", seq[:len(seq)-1], last, got, want), Case{Kind: "hist", Program: last, Skel: strings.Join(seq, "\x01")})
		}
	}
	// the REPL path: lines entered one after the other; the output of the session is the output
	// of the session without the last line followed by what the last line prints alone
	if strings.ContainsAny(strings.Join(seq, ""), "\n\r") {
		return bad // one REPL line cannot carry a line end
	}
	all, _ := histREPL(seq)
	head, _ := histREPL(seq[:len(seq)-1])
	wantR, ok := loneREPL[last]
	if !ok {
		wantR, _ = histREPL([]string{last})
		loneREPL[last] = wantR
	}
	if r != nil {
		r.Eval(1)
	}
	ha, hb := strings.SplitN(head, "\x00", 2), strings.SplitN(all, "\x00", 2)
	la := strings.SplitN(wantR, "\x00", 2)
	if len(ha) == 2 && len(hb) == 2 && len(la) == 2 {
		if verbose {
			fmt.Printf("  REPL lines %q: stdout %q; without the last line %q; the last line alone %q\n", seq, hb[0], ha[0], la[0])
		}
		if hb[0] != ha[0]+la[0] {
			bad = true
			if r != nil {
				r.Violate("history:repl-line-depends-on-earlier-lines", fmt.Sprintf("REPL lines %q print %q; the lines before the last print %q and the last line alone prints %q", seq, hb[0], ha[0], la[0]), Case{Kind: "hist", Program: last, Skel: strings.Join(seq, "\x01")})
			}
		}
	}
	return bad
}

func runHistories(r *core.Run) bool {
	n := core.Pick(r, 2, 3)
	var idx int64
	lone, loneREPL := map[string]string{}, map[string]string{}
	var total, distinct int64
	for ci, class := range confusableClasses {
		stop := false
		for k := 2; k <= n && !stop; k++ {
			seqs(class, k, func(seq []string) {
				idx++
				if stop || !r.Mine(idx) {
					return
				}
				if r.Expired() {
					stop = true
					return
				}
				total++
				histCheckSeq(r, seq, lone, loneREPL, false)
				r.NontrivialHash(hashText(fmt.Sprintf("hist:%d:%s", ci, strings.Join(seq, "\x01"))))
			})
		}
		if stop {
			r.NotExhaustive("deadline: confusable histories not finished")
			return false
		}
	}
	// repeat histories over module loading programs
	var reps, repsOK int64
	for i, a := range repeatPrograms {
		var list [][]string
		list = append(list, []string{a, a}, []string{a, a, a})
		for j, b := range repeatPrograms {
			if i != j {
				list = append(list, []string{a, b, a})
			}
		}
		for _, seq := range list {
			idx++
			if !r.Mine(idx) {
				continue
			}
			if r.Expired() {
				r.NotExhaustive("deadline: repeat histories not finished")
				return false
			}
			reps++
			histCheckSeq(r, seq, lone, loneREPL, false)
			if l, ok := lone[a]; ok && !strings.Contains(l, "ERROR") {
				repsOK++
			}
			r.NontrivialHash(hashText("hist:repeat:" + strings.Join(seq, "\x01")))
		}
	}
	r.Count("history_repeat_sequences", reps)
	r.Count("history_repeat_sequences_whose_lone_run_loads_its_modules", repsOK)
	// vacuity guard: members of a class have to be different programs for the driver
	seen := map[string]struct{}{}
	for _, v := range lone {
		seen[v] = struct{}{}
	}
	distinct = int64(len(seen))
	r.Count("history_sequences", total)
	r.Count("history_distinct_lone_results_seen_by_shard", distinct)
	sectionDone(r, "histories:confusable")
	r.Logf("histories: %d sequences, %d distinct lone results on this shard", total, distinct)
	return true
}
