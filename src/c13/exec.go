package c13

import (
	"context"
	"encoding/json"
	"fmt"
	"hash/fnv"
	"os"
	"path/filepath"
	"runtime/debug"
	"runtime/metrics"
	"strconv"
	"strings"
	"sync"
	"sync/atomic"
	"syscall"
	"time"

	"github.com/wader/fq/internal/verif/core"
	"github.com/wader/fq/internal/verif/fqrun"
	"github.com/wader/fq/pkg/interp"
	"github.com/wader/gojq"
)

// ---------------------------------------------------------------------------
// tally: everything the shard wants to report. It is kept outside core.Run so that
// it survives a self re-exec of the worker (see watchdog) and is flushed into the
// Run once at the end.

type tviol struct {
	Sig  string `json:"sig"`
	What string `json:"what"`
	Case any    `json:"case"`
}

type tally struct {
	Evals        int64            `json:"evals"`
	Counts       map[string]int64 `json:"counts"`
	Nontrivial   []uint64         `json:"nontrivial"`
	Inconclusive []string         `json:"inconclusive"`
	NotExh       []string         `json:"notexh"`
	Viol         []tviol          `json:"viol"`
	Samples      []any            `json:"samples"`
	Restarts     int              `json:"restarts"`
	NotCallable  []string         `json:"not_callable"`
	Kills        []killRec        `json:"kills"`

	nt map[uint64]struct{}
}

func newTally() *tally {
	return &tally{Counts: map[string]int64{}, nt: map[uint64]struct{}{}}
}

func (t *tally) nontrivial(key string) {
	h := fnv.New64a()
	h.Write([]byte(key))
	t.nt[h.Sum64()] = struct{}{}
}

func (t *tally) save(path string) error {
	t.Nontrivial = t.Nontrivial[:0]
	for k := range t.nt {
		t.Nontrivial = append(t.Nontrivial, k)
	}
	b, err := json.Marshal(t)
	if err != nil {
		return err
	}
	return os.WriteFile(path, b, 0o644)
}

func loadTally(path string) (*tally, error) {
	b, err := os.ReadFile(path)
	if err != nil {
		return nil, err
	}
	t := newTally()
	if err := json.Unmarshal(b, t); err != nil {
		return nil, err
	}
	if t.Counts == nil {
		t.Counts = map[string]int64{}
	}
	for _, k := range t.Nontrivial {
		t.nt[k] = struct{}{}
	}
	return t, nil
}

func (t *tally) flush(r *core.Run) {
	r.Eval(t.Evals)
	for k, v := range t.Counts {
		r.Count(k, v)
	}
	for k := range t.nt {
		r.NontrivialHash(k)
	}
	for _, s := range t.Inconclusive {
		r.Inconclusive(s)
	}
	for _, s := range t.NotExh {
		r.NotExhaustive(s)
	}
	for _, v := range t.Viol {
		r.Violate(v.Sig, v.What, v.Case)
	}
	for _, s := range t.Samples {
		r.Sample(s)
	}
	if t.Restarts > 0 {
		r.Count("worker_self_restarts", int64(t.Restarts))
	}
}

// ---------------------------------------------------------------------------

type limits struct {
	// step limits are in process CPU time so that a loaded machine does not turn
	// slow cases into inconclusive ones; the wall limits only catch evaluations that
	// block without using CPU
	softStep time.Duration // cancel the evaluation context
	hardStep time.Duration // context ignored: re-exec the worker
	softWall time.Duration
	hardWall time.Duration
	// fastStep replaces softStep for the rest of a function (in this shard) once
	// stepCancelsForFast of its cases ran into softStep: functions with a jq level
	// endless loop on a whole argument class (to_radix with base 1) would otherwise
	// cost softStep for each of hundreds of tuples
	fastStep time.Duration
	softHeap uint64 // live heap bytes: cancel
	hardRSS  uint64 // resident bytes: re-exec
}

type worker struct {
	r   *core.Run
	t   *tally
	mu  sync.Mutex // guards t and cur*
	lim limits

	sess           *fqrun.Session
	evalsOnSession int
	highMem        atomic.Bool // resident memory went over 1 GiB during a case

	// current case (for the watchdog)
	curIdx    int64
	curDesc   string
	curStart  time.Time
	curCPU    time.Duration
	curActive bool
	curCancel context.CancelFunc
	curReason string
	curSoft   time.Duration
	curFn     string
	curItems  []string
	run       *runaway

	stepCancels map[string]int
	sampled     map[string]bool
}

const stepCancelsForFast = 3

func (w *worker) session() (*fqrun.Session, error) {
	if w.sess == nil {
		s, err := fqrun.NewSession(nil)
		if err != nil {
			return nil, err
		}
		w.sess = s
	}
	return w.sess, nil
}

func (w *worker) dropSession() {
	if w.sess != nil {
		// the interpreter may be in an arbitrary state after a panic; do not Stop()
		// it through code paths that could block, just let it go
		s := w.sess
		w.sess = nil
		w.evalsOnSession = 0
		go func() { defer func() { _ = recover() }(); s.Close() }()
	}
}

func cpuTime() time.Duration {
	var ru syscall.Rusage
	if syscall.Getrusage(syscall.RUSAGE_SELF, &ru) != nil {
		return 0
	}
	return time.Duration(ru.Utime.Nano() + ru.Stime.Nano())
}

func rssBytes() uint64 {
	b, err := os.ReadFile("/proc/self/statm")
	if err != nil {
		return 0
	}
	f := strings.Fields(string(b))
	if len(f) < 2 {
		return 0
	}
	n, _ := strconv.ParseUint(f[1], 10, 64)
	return n * uint64(os.Getpagesize())
}

func (w *worker) startWatchdog() {
	sample := []metrics.Sample{{Name: "/memory/classes/heap/objects:bytes"}}
	go func() {
		for {
			time.Sleep(20 * time.Millisecond)
			w.mu.Lock()
			active, start, cancel, reason, cpu0, soft := w.curActive, w.curStart, w.curCancel, w.curReason, w.curCPU, w.curSoft
			w.mu.Unlock()
			if !active {
				continue
			}
			wall := time.Since(start)
			el := cpuTime() - cpu0
			metrics.Read(sample)
			heap := sample[0].Value.Uint64()
			rss := rssBytes()
			if rss > 1<<30 {
				w.highMem.Store(true)
			}
			if reason == "" {
				why := ""
				if el > soft {
					why = "step limit " + soft.String() + " cpu"
				} else if wall > w.lim.softWall {
					why = "step limit " + w.lim.softWall.String() + " wall"
				} else if heap > w.lim.softHeap {
					why = fmt.Sprintf("live heap %d MiB over the ceiling", heap>>20)
				}
				if why != "" {
					w.mu.Lock()
					if w.curActive && w.curStart == start {
						w.curReason = why
						if cancel != nil {
							cancel()
						}
					}
					w.mu.Unlock()
				}
			}
			if el > w.lim.hardStep || wall > w.lim.hardWall || rss > w.lim.hardRSS {
				why := "no return after " + w.lim.hardStep.String() + " cpu / " + w.lim.hardWall.String() + " wall (context cancellation ignored)"
				if rss > w.lim.hardRSS {
					why = fmt.Sprintf("resident memory %d MiB over the hard ceiling", rss>>20)
				}
				w.selfRestart(why)
			}
		}
	}()
}

// selfRestart replaces the process image (same pid, so the parent keeps waiting)
// to get rid of an evaluation that neither returns nor honours cancellation, or
// that is about to exhaust memory. The case is recorded as inconclusive and the
// new image resumes after it.
func (w *worker) selfRestart(why string) {
	w.mu.Lock() // never unlocked: the process image is replaced
	if !w.curActive {
		w.mu.Unlock()
		return
	}
	t := w.t
	t.Inconclusive = append(t.Inconclusive, "watchdog ("+why+"): "+w.curDesc)
	t.Counts["inconclusive_watchdog_restart"]++
	t.Restarts++
	t.Kills = append(t.Kills, killRec{Fn: w.curFn, Items: w.curItems})
	out := os.Getenv("VERIF_SHARD_OUT")
	carry := filepath.Join(filepath.Dir(out), fmt.Sprintf("c13-carry-%d.json", w.r.ShardIdx))
	if out == "" || !w.r.IsChild {
		fmt.Fprintf(os.Stderr, "[C13] watchdog: %s: %s (not a shard child, exiting)\n", why, w.curDesc)
		os.Exit(3)
	}
	if err := t.save(carry); err != nil {
		fmt.Fprintln(os.Stderr, "[C13] watchdog: cannot save carry:", err)
		os.Exit(3)
	}
	var env []string
	for _, kv := range os.Environ() {
		if strings.HasPrefix(kv, "VERIF_SHARD_RESUME=") || strings.HasPrefix(kv, "C13_CARRY=") {
			continue
		}
		env = append(env, kv)
	}
	env = append(env, fmt.Sprintf("VERIF_SHARD_RESUME=%d", w.curIdx), "C13_CARRY="+carry)
	exe, err := os.Executable()
	if err != nil {
		os.Exit(3)
	}
	err = syscall.Exec(exe, os.Args, env)
	fmt.Fprintln(os.Stderr, "[C13] watchdog: exec failed:", err)
	os.Exit(3)
}

func (w *worker) begin(idx int64, desc string, cancel context.CancelFunc, fn string, items []string) {
	cpu := cpuTime() // ~1 us
	w.mu.Lock()
	w.curFn, w.curItems = fn, items
	w.curSoft = w.lim.softStep
	if w.stepCancels[fn] >= stepCancelsForFast {
		w.curSoft = w.lim.fastStep
	}
	w.curIdx, w.curDesc, w.curStart, w.curActive, w.curCancel, w.curReason = idx, desc, time.Now(), true, cancel, ""
	w.curCPU = cpu
	w.mu.Unlock()
}

func (w *worker) end() (reason string) {
	w.mu.Lock()
	w.curActive = false
	reason = w.curReason
	w.mu.Unlock()
	return reason
}

// ---------------------------------------------------------------------------

// fnPool is the pool of one function: base values + its option objects.
type fnPool struct {
	items   []poolItem
	nbase   int
	optVals []any // Go values of items[nbase:], passed as evaluation input
}

func makePool(f *fnInfo, thorough bool, extraKeys []string) *fnPool {
	base := basePool(thorough)
	// the large per-key value set of the thorough tier is used for arity <= 1; the
	// cube of an arity-2 function keeps the five values of the quick tier
	oi, ov := optionObjects(f.Keys, thorough && f.Key.Arity <= 1)
	ei, ev := optionObjects(extraKeys, false)
	items := append(append(base, oi...), ei...)
	return &fnPool{items: items, nbase: len(base), optVals: append(ov, ev...)}
}

// freshOptVals: the option objects as new Go values for every evaluation.
func (p *fnPool) freshOptVals() []any {
	out := make([]any, len(p.optVals))
	for i, v := range p.optVals {
		out[i] = deepCopy(v)
	}
	return out
}

func deepCopy(v any) any {
	switch x := v.(type) {
	case map[string]any:
		m := make(map[string]any, len(x))
		for k, e := range x {
			m[k] = deepCopy(e)
		}
		return m
	case []any:
		a := make([]any, len(x))
		for i, e := range x {
			a[i] = deepCopy(e)
		}
		return a
	}
	return v
}

// freshFlags: which pool entries are JSON containers (copied per use).
func (p *fnPool) freshFlags() []any {
	out := make([]any, len(p.items))
	for i, it := range p.items {
		out[i] = it.Type == "array" || it.Type == "object" || strings.HasPrefix(it.Type, "opt:")
	}
	return out
}

const outLimit = 4

var profile = os.Getenv("VERIF_C13_PROFILE") != ""
var debugCases = os.Getenv("VERIF_C13_DEBUG") != ""

// cliState is the interpreter's global state (options stack etc.) exactly as the
// command line entry point leaves it for `fq -n EXPR`: obtained by running the real
// _main once. A bare Interp.Eval has no options at all and every display function
// would fail early with "invalid bits format".
var (
	cliStateOnce sync.Once
	cliStateJSON []byte
	cliStateErr  string
)

func cliState() any {
	cliStateOnce.Do(func() {
		res := fqrun.Run(fqrun.Opts{Args: []string{"-n", "-r", "_global_state | tojson"}, StdinIsTerminal: true})
		if res.Panic != nil || res.Exit != 0 {
			cliStateErr = res.String()
			return
		}
		cliStateJSON = []byte(strings.TrimSpace(string(res.Stdout)))
	})
	if cliStateJSON == nil {
		return nil
	}
	// a fresh copy for every evaluation (fq may keep references)
	dec := json.NewDecoder(strings.NewReader(string(cliStateJSON)))
	dec.UseNumber()
	var v any
	if err := dec.Decode(&v); err != nil {
		cliStateErr = err.Error()
		return nil
	}
	return fixNumbers(v)
}

// fixNumbers turns json.Number into the int/float64 gojq expects.
func fixNumbers(v any) any {
	switch x := v.(type) {
	case json.Number:
		if i, err := strconv.Atoi(string(x)); err == nil {
			return i
		}
		f, _ := x.Float64()
		return f
	case []any:
		for i := range x {
			x[i] = fixNumbers(x[i])
		}
		return x
	case map[string]any:
		for k := range x {
			x[k] = fixNumbers(x[k])
		}
		return x
	}
	return v
}

// driver: one program per function/arity, data driven over the tuples in .cs
// (indices into the pool). Each case yields exactly one output: the array of the
// jq types of the first outLimit results, with "E" appended when the function
// raised a (caught) error. The global interpreter state is put back before every
// case so that a case means the same thing alone as in the batch.
func driver(f *fnInfo, thorough bool) string {
	var sb strings.Builder
	// _c13_fresh: deep copy of a JSON container. fq functions may modify arrays and
	// objects they are given in place (gojqx.NormalizeFn does), and both program
	// constants and evaluation inputs are shared Go values, so without the copy one
	// case could change the pool for the following ones.
	sb.WriteString("def _c13_fresh: if type == \"array\" then [.[] | _c13_fresh] elif type == \"object\" then (to_entries | map({(.key): (.value | _c13_fresh)}) | add // {}) else . end; ")
	sb.WriteString(". as {g: $g0, o: $o, fr: $fr, cs: $cs} | _global_state($g0) as $_ | ")
	sb.WriteString(poolPrelude())
	sb.WriteString(" | ([")
	for i, it := range basePool(thorough) {
		if i > 0 {
			sb.WriteString(", ")
		}
		sb.WriteString(it.Expr)
	}
	sb.WriteString("] + $o) as $p | $cs[] as $c | _global_state($g0) as $_ | ($p[$c[0]] | if $fr[$c[0]] then _c13_fresh end) | [limit(")
	sb.WriteString(strconv.Itoa(outLimit))
	sb.WriteString("; try (")
	sb.WriteString(callExpr(f, func(i int) string { return fmt.Sprintf("($p[$c[%d]] | if $fr[$c[%d]] then _c13_fresh end)", i+1, i+1) }))
	if debugCases {
		sb.WriteString(" | type) catch (\"E\", (tostring | .[0:120])))]")
	} else {
		sb.WriteString(" | type) catch \"E\")]")
	}
	return sb.String()
}

func callExpr(f *fnInfo, arg func(i int) string) string {
	if f.Key.Arity == 0 {
		return f.Key.Name
	}
	args := make([]string, f.Key.Arity)
	for i := range args {
		args[i] = arg(i)
	}
	return f.Key.Name + "(" + strings.Join(args, "; ") + ")"
}

// caseExpr renders one case as a stand-alone fq program (what reports print and
// what replay runs).
func caseExpr(f *fnInfo, p *fnPool, t []int) string {
	return poolPrelude() + " | " + p.items[t[0]].Expr + " | try " + callExpr(f, func(i int) string { return p.items[t[i+1]].Expr }) + " catch ."
}

func caseShort(f *fnInfo, p *fnPool, t []int) string {
	return p.items[t[0]].Expr + " | " + callExpr(f, func(i int) string { return p.items[t[i+1]].Expr })
}

type caseRec struct {
	Fn    string   `json:"fn"`
	Arity int      `json:"arity"`
	In    string   `json:"in"`
	Args  []string `json:"args"`
	Expr  string   `json:"expr"`
}

func mkCase(f *fnInfo, p *fnPool, t []int) caseRec {
	c := caseRec{Fn: f.Key.Name, Arity: f.Key.Arity, In: p.items[t[0]].Expr, Expr: caseExpr(f, p, t)}
	for i := 1; i < len(t); i++ {
		c.Args = append(c.Args, p.items[t[i]].Expr)
	}
	return c
}

// standalone evaluates one case expression in a fresh interpreter and reports what
// happened: "values", "panic", "error".
type obs struct {
	Kind  string // "ok" | "panic" | "uncatchable" | "compile"
	Text  string
	Site  string
	Stack string
}

func standalone(expr string, timeout time.Duration) obs {
	s, err := fqrun.NewSession(nil)
	if err != nil {
		return obs{Kind: "compile", Text: err.Error()}
	}
	ctx, cancel := context.WithTimeout(context.Background(), timeout)
	defer cancel()
	s.Ctx = ctx
	outs, err := s.Eval(cliState(), "_global_state(.) as $_ | null | ["+"limit("+strconv.Itoa(outLimit)+"; "+expr+" | type)]")
	if pe, ok := fqrun.IsPanic(err); ok {
		return obs{Kind: "panic", Text: pe.Error(), Site: panicSite(pe.Stack), Stack: pe.Stack}
	}
	defer s.Close()
	if err != nil {
		if ctx.Err() != nil {
			return obs{Kind: "timeout", Text: err.Error()}
		}
		return obs{Kind: "uncatchable", Text: fmt.Sprintf("%T: %v", err, err)}
	}
	b, _ := json.Marshal(outs)
	return obs{Kind: "ok", Text: string(b)}
}

type chunk struct {
	f      *fnInfo
	pool   *fnPool
	ts     *tupleSpace
	prog   string
	from   int64 // tuple range
	to     int64
	base   int64 // global index of tuple `from`
	seq    int64
	panics int
}

func errClass(err error) string {
	var he *gojq.HaltError
	if e, ok := err.(*gojq.HaltError); ok {
		he = e
	}
	if he != nil {
		return "halt"
	}
	return fmt.Sprintf("%T", err)
}

// runChunk evaluates the tuples [from,to) of one function.
func (w *worker) runChunk(c *chunk) {
	r, t, f := w.r, w.t, c.f
	if profile {
		c0 := cpuTime()
		defer func() {
			w.mu.Lock()
			t.Counts["cpu_ms:"+f.Key.String()] += int64((cpuTime() - c0) / time.Millisecond)
			w.mu.Unlock()
		}()
	}
	n := int(c.to - c.from)
	tuples := make([][]int, n)
	for i := 0; i < n; i++ {
		tuples[i] = c.ts.at(c.from + int64(i))
	}
	// order: the tuples of this chunk that are executed by this process, i.e. not
	// already done by a previous process image (resume point) and not predicted to
	// run away (see runaway rules)
	var order []int
	items := func(tp []int) []string {
		it := make([]string, len(tp))
		for j, v := range tp {
			it[j] = c.pool.items[v].Expr
		}
		return it
	}
	for i := 0; i < n; i++ {
		if c.base+int64(i) <= r.Resume {
			continue
		}
		if w.run.skip(f.Key.String(), items(tuples[i])) {
			w.mu.Lock()
			t.Counts["inconclusive_skipped_predicted_runaway"]++
			if t.Counts["inconclusive_skipped_predicted_runaway"] <= 3 {
				t.Inconclusive = append(t.Inconclusive, "not executed (same arguments ran into the watchdog for other inputs): "+caseShort(f, c.pool, tuples[i]))
			}
			w.mu.Unlock()
			continue
		}
		order = append(order, i)
	}
	p := 0
	for p < len(order) {
		s, err := w.session()
		if err != nil {
			w.mu.Lock()
			t.NotExh = append(t.NotExh, "interpreter could not be created: "+err.Error())
			w.mu.Unlock()
			return
		}
		cs := make([]any, 0, len(order)-p)
		for _, i := range order[p:] {
			row := make([]any, len(tuples[i]))
			for j, v := range tuples[i] {
				row[j] = v
			}
			cs = append(cs, row)
		}
		ctx, cancel := context.WithCancel(context.Background())
		input := map[string]any{"g": cliState(), "o": c.pool.freshOptVals(), "fr": c.pool.freshFlags(), "cs": cs}
		w.evalsOnSession++
		var it gojq.Iter
		pv, stack := core.Protect(func() { it, err = s.I.Eval(ctx, input, c.prog, interp.EvalOpts{}) })
		if pv != nil {
			cancel()
			w.mu.Lock()
			t.Viol = append(t.Viol, tviol{"panic:compile:" + f.Key.String() + ":" + panicSite(stack),
				"compiling a call of " + f.Key.String() + " panicked: " + core.PanicString(pv), mkCase(f, c.pool, tuples[order[p]])})
			w.mu.Unlock()
			w.dropSession()
			return
		}
		if err != nil {
			cancel()
			w.mu.Lock()
			t.NotCallable = append(t.NotCallable, f.Key.String()+": "+err.Error())
			w.mu.Unlock()
			return
		}
		broke := false
		for p < len(order) {
			k := order[p]
			idx := c.base + int64(k)
			desc := caseShort(f, c.pool, tuples[k])
			r.Case(idx, desc)
			w.begin(idx, desc, cancel, f.Key.String(), items(tuples[k]))
			var v any
			var ok bool
			pv, stack := core.Protect(func() { v, ok = it.Next() })
			reason := w.end()
			if pv != nil {
				w.onPanic(c, tuples[k], pv, stack)
				broke = true
			} else if !ok {
				// the driver ended early: every case must produce one output
				w.mu.Lock()
				t.Viol = append(t.Viol, tviol{"harness:driver-ended-early:" + f.Key.String(), "driver produced no output for " + desc, mkCase(f, c.pool, tuples[k])})
				w.mu.Unlock()
				broke = true
			} else if e, isErr := v.(error); isErr {
				if ctx.Err() != nil || reason != "" {
					w.mu.Lock()
					t.Evals++
					t.Counts["inconclusive_cancelled"]++
					if strings.HasPrefix(reason, "step limit") {
						w.stepCancels[f.Key.String()]++
					}
					if len(t.Inconclusive) < 40 {
						t.Inconclusive = append(t.Inconclusive, "cancelled ("+reason+"): "+desc)
					}
					w.mu.Unlock()
				} else {
					w.onUncatchable(c, tuples[k], e)
				}
				broke = true
			} else {
				if debugCases {
					b, _ := json.Marshal(v)
					fmt.Fprintf(os.Stderr, "CASE %s => %s\n", desc, b)
				}
				w.onResult(c, tuples[k], v)
				if reason != "" {
					// the watchdog cancelled the context while the case was finishing;
					// the case itself is conclusive, the evaluation must be restarted
					broke = true
				}
			}
			if w.highMem.Swap(false) {
				debug.FreeOSMemory()
			}
			p++
			if broke {
				break
			}
		}
		cancel()
		if broke {
			if w.evalsOnSession > 64 {
				w.dropSession()
			}
		} else {
			// drain so that fq releases the evaluation context
			core.Protect(func() { it.Next() })
		}
		if w.sess != nil {
			_ = w.sess.Stdout()
		}
	}
}

// ---------------------------------------------------------------------------
// Runaway rules. Some argument values make a function compute or allocate for
// minutes without being wrong (hexdump({line_bytes: 2^31}) prints a 2 GiB wide
// line); Go code does not honour the context, so each such case costs a watchdog
// kill (process re-exec). To keep that bounded, kills are remembered (they travel
// with the tally through the re-exec) and:
//   L1: once a function was killed for 2 different inputs with the same argument
//       vector, its remaining inputs for that argument vector are not executed;
//   L2: (arity >= 2) once a value X in argument position j was involved in kills
//       with 2 different settings of the other arguments, tuples with X in position
//       j are not executed.
// Not executed tuples are counted as inconclusive (inconclusive_skipped_predicted_
// runaway); a kill or a skip is never a violation. Arity-0 functions have no rule.

type killRec struct {
	Fn    string   `json:"fn"`
	Items []string `json:"items"` // input, arg1, ..
}

type runaway struct {
	l1 map[string]bool
	l2 map[string]bool
}

func newRunaway(kills []killRec) *runaway {
	ra := &runaway{l1: map[string]bool{}, l2: map[string]bool{}}
	inputs := map[string]map[string]bool{}
	others := map[string]map[string]bool{}
	for _, k := range kills {
		if len(k.Items) < 2 {
			continue
		}
		vk := k.Fn + "\x00" + strings.Join(k.Items[1:], "\x00")
		if inputs[vk] == nil {
			inputs[vk] = map[string]bool{}
		}
		inputs[vk][k.Items[0]] = true
		if len(inputs[vk]) >= 2 {
			ra.l1[vk] = true
		}
		if len(k.Items) >= 3 {
			for j := 1; j < len(k.Items); j++ {
				ik := fmt.Sprintf("%s\x00%d\x00%s", k.Fn, j, k.Items[j])
				var rest []string
				for m := 1; m < len(k.Items); m++ {
					if m != j {
						rest = append(rest, k.Items[m])
					}
				}
				if others[ik] == nil {
					others[ik] = map[string]bool{}
				}
				others[ik][strings.Join(rest, "\x00")] = true
				if len(others[ik]) >= 2 {
					ra.l2[ik] = true
				}
			}
		}
	}
	return ra
}

func (ra *runaway) skip(fn string, items []string) bool {
	if ra == nil || len(items) < 2 || (len(ra.l1) == 0 && len(ra.l2) == 0) {
		return false
	}
	if ra.l1[fn+"\x00"+strings.Join(items[1:], "\x00")] {
		return true
	}
	if len(items) >= 3 && len(ra.l2) > 0 {
		for j := 1; j < len(items); j++ {
			if ra.l2[fmt.Sprintf("%s\x00%d\x00%s", fn, j, items[j])] {
				return true
			}
		}
	}
	return false
}

func (w *worker) onResult(c *chunk, tp []int, v any) {
	t := w.t
	w.mu.Lock()
	defer w.mu.Unlock()
	t.Evals++
	arr, _ := v.([]any)
	shape := make([]string, 0, len(arr))
	for _, x := range arr {
		if s, ok := x.(string); ok {
			shape = append(shape, s)
		}
	}
	sh := strings.Join(shape, ",")
	raised := len(shape) > 0 && shape[len(shape)-1] == "E"
	switch {
	case len(shape) == 0:
		t.Counts["cases_empty"]++
	case shape[0] == "E":
		t.Counts["cases_caught_error"]++
	default:
		t.Counts["cases_with_values"]++
	}
	if !raised {
		// non-trivial: the function accepted the tuple (ran to completion without
		// raising an error; display-like functions legitimately output nothing)
		var sb strings.Builder
		sb.WriteString(c.f.Key.String())
		for _, i := range tp {
			sb.WriteString("|")
			sb.WriteString(c.pool.items[i].Type)
		}
		sb.WriteString("=>")
		sb.WriteString(sh)
		t.nontrivial(sb.String())
		if len(shape) > 0 && c.f.Kind != "format" && c.f.Key.Arity > 0 && len(t.Samples) < 2 && !w.sampled[c.f.Key.String()] && c.seq%5 == 0 {
			w.sampled[c.f.Key.String()] = true
			t.Samples = append(t.Samples, map[string]any{"case": caseShort(c.f, c.pool, tp), "result_types": shape})
		}
	}
}

func (w *worker) onPanic(c *chunk, tp []int, pv any, stack string) {
	site := panicSite(stack)
	cr := mkCase(c.f, c.pool, tp)
	sig := "panic:" + c.f.Key.String() + ":" + site + ":" + normMsg(core.PanicString(pv))
	w.mu.Lock()
	w.t.Evals++
	w.t.Counts["cases_go_panic"]++
	c.panics++
	for _, v := range w.t.Viol {
		if v.Sig == sig {
			w.t.Counts["violations_folded:"+sig]++
			w.mu.Unlock()
			return
		}
	}
	w.mu.Unlock()
	// believe it only after it reproduces outside the explorer
	rep := 0
	for i := 0; i < 5; i++ {
		if o := standalone(cr.Expr, 20*time.Second); o.Kind == "panic" {
			rep++
		}
	}
	what := fmt.Sprintf("`%s` -> Go panic %q at %s (stand-alone reproduction %d/5); expected values or a catchable jq error",
		caseShort(c.f, c.pool, tp), core.PanicString(pv), site, rep)
	if rep == 0 {
		sig = "panic-in-batch-only:" + c.f.Key.String() + ":" + site + ":" + normMsg(core.PanicString(pv))
	}
	w.mu.Lock()
	defer w.mu.Unlock()
	w.t.Viol = append(w.t.Viol, tviol{sig, what, cr})
}

// panicSite is core.PanicSite with the root of the tree under test normalised to
// /repo (core only strips that literal prefix; mutant runs use VERIF_REPO).
func panicSite(stack string) string {
	if repoRoot != "" && repoRoot != "/repo" {
		stack = strings.ReplaceAll(stack, strings.TrimSuffix(repoRoot, "/")+"/", "/repo/")
	}
	return core.PanicSite(stack)
}

var repoRoot string

// normMsg makes a panic message usable as part of a signature: numbers are
// replaced (index values, lengths, addresses) and the text is cut.
func normMsg(m string) string {
	var sb strings.Builder
	prevDigit := false
	for _, c := range m {
		if c >= '0' && c <= '9' {
			if !prevDigit {
				sb.WriteByte('#')
			}
			prevDigit = true
			continue
		}
		prevDigit = false
		if c == '\n' {
			break
		}
		sb.WriteRune(c)
	}
	s := sb.String()
	if len(s) > 80 {
		s = s[:80]
	}
	return s
}

func (w *worker) onUncatchable(c *chunk, tp []int, e error) {
	cr := mkCase(c.f, c.pool, tp)
	w.mu.Lock()
	defer w.mu.Unlock()
	w.t.Evals++
	w.t.Counts["cases_uncatchable"]++
	sig := "uncatchable:" + c.f.Key.String() + ":" + errClass(e)
	for _, v := range w.t.Viol {
		if v.Sig == sig {
			w.t.Counts["violations_folded:"+sig]++
			return
		}
	}
	what := fmt.Sprintf("`%s` -> error that `try` does not catch (%T: %.200s); expected values or a catchable jq error",
		caseShort(c.f, c.pool, tp), e, e.Error())
	w.t.Viol = append(w.t.Viol, tviol{sig, what, cr})
}
