package c14

// Section "malformed": every single-character deletion, insertion and
// substitution (6 character alphabet) of 5 well-formed encodings per decoder.
// Oracle: the dialect reference decoder (ref) classifies the mutated text.
//   reference rejects  -> fq must fail, or return a value that re-encodes to
//                         exactly the mutated text (lenient but faithful);
//   reference accepts v -> fq must fail (stricter, counted) or return v.

import (
	"bytes"
	"encoding/json"
	"encoding/xml"
	"fmt"
	"io"
	"math/big"
	"net/url"
	"sort"
	"strings"

	"github.com/BurntSushi/toml"
	"gopkg.in/yaml.v3"
)

type malDecoder struct {
	name     string
	sigName  string // name used in violation signatures (defaults to name)
	dec      string // jq: text -> value (already converted to plain JSON)
	enc      string // jq: decoded value -> text again ("" when there is no encoder)
	binary   bool   // the input is a byte string (text decoders)
	seeds    []string
	alphabet []string
	ref      func(t string) (any, error)
	// same decides equality of fq's value and the reference value (default canon equality)
	same func(got, want any) bool
	// known classifies a deviation that has the exact shape of a recorded defect
	known func(t string, got res) string
}

func b64Dec(variant string, seeds ...string) malDecoder {
	opt := ""
	name := "from_base64"
	if variant != "" {
		opt = fmt.Sprintf("({encoding:%q})", variant)
		name += "(" + variant + ")"
	} else {
		variant = "std"
	}
	return malDecoder{name: name, dec: "from_base64" + opt + "|tobytes|explode", enc: "tobytes|to_base64" + opt, seeds: seeds,
		alphabet: []string{"A", "=", "+", "-", "\n", "!"},
		ref: func(t string) (any, error) {
			b, err := refUnb64(t, variant)
			return bytesToList(b), err
		}}
}

func strDec(name string, from func(b []byte) string, seeds ...string) malDecoder {
	return malDecoder{name: name, dec: name, enc: "to_" + strings.TrimPrefix(name, "from_") + "|tobytes|explode", binary: true, seeds: seeds,
		alphabet: []string{"\x00", "A", "\x80", "\xd8", "\xfe", "\xff"},
		ref:      func(t string) (any, error) { return from([]byte(t)), nil },
		same: func(got, want any) bool {
			g, ok := got.(string)
			return ok && squeezeRepl(g) == squeezeRepl(want.(string))
		}}
}

func radixDec(base int, seeds ...string) malDecoder {
	return malDecoder{name: fmt.Sprintf("from_radix(%d)", base), sigName: "from_radix", dec: fmt.Sprintf("from_radix(%d)", base), enc: fmt.Sprintf("to_radix(%d)", base), seeds: seeds,
		alphabet: []string{"0", "1", "z", "_", "-", " "},
		ref: func(t string) (any, error) {
			n, err := refFromRadix(t, base)
			if err != nil {
				return nil, err
			}
			return bigItem(n), nil
		},
		known: func(t string, got res) string {
			// digits that exist in the 64 character table but are >= base are summed positionally
			v, ok := got.one()
			if !ok {
				return ""
			}
			if t == "" {
				if canon(v) == "0" {
					return "empty-string-accepted-as-zero"
				}
				return ""
			}
			n := new(big.Int)
			for i := 0; i < len(t); i++ {
				d := strings.IndexByte(radixDigits, t[i])
				if d < 0 {
					return ""
				}
				n.Mul(n, big.NewInt(int64(base)))
				n.Add(n, big.NewInt(int64(d)))
			}
			if canon(v) == n.String() {
				return "digit-not-below-base-accepted"
			}
			return ""
		}}
}

func normYAML(v any) any {
	switch x := v.(type) {
	case map[string]any:
		o := map[string]any{}
		for k, c := range x {
			o[k] = normYAML(c)
		}
		return o
	case map[any]any:
		o := map[string]any{}
		for k, c := range x {
			o[fmt.Sprint(k)] = normYAML(c)
		}
		return o
	case []any:
		o := make([]any, len(x))
		for i, c := range x {
			o[i] = normYAML(c)
		}
		return o
	case []map[string]any:
		o := make([]any, len(x))
		for i, c := range x {
			o[i] = normYAML(c)
		}
		return o
	case int64:
		return int(x)
	case uint64:
		return bigItem(new(big.Int).SetUint64(x))
	}
	return v
}

// strictJSON: exactly one JSON text, surrounded by optional white space.
func strictJSON(t string) (any, error) {
	d := json.NewDecoder(strings.NewReader(t))
	d.UseNumber()
	var v any
	if err := d.Decode(&v); err != nil {
		return nil, err
	}
	var extra any
	if err := d.Decode(&extra); err != io.EOF {
		return nil, errMalformed
	}
	return fixNumbers(v), nil
}

func refURLObject(t string) (any, error) {
	u, err := url.Parse(t)
	if err != nil {
		return nil, err
	}
	p := urlParts{scheme: u.Scheme, host: u.Host, path: u.Path, rawquery: u.RawQuery, fragment: u.Fragment}
	if u.User != nil {
		p.user = []string{u.User.Username()}
		if pw, ok := u.User.Password(); ok {
			p.user = append(p.user, pw)
		}
	}
	m := p.object()
	if u.RawPath != "" {
		m["rawpath"] = u.RawPath
	}
	if u.RawQuery != "" {
		// net/url drops pairs it cannot decode; from_url documents query as the decoded form of rawquery
		qm := map[string]any{}
		for k, v := range u.Query() {
			if len(v) > 1 {
				qm[k] = strItems(v)
			} else {
				qm[k] = v[0]
			}
		}
		m["query"] = qm
	}
	return m, nil
}

func malDecoders() []malDecoder {
	utf16seeds := func(be, bom bool) []string {
		var o []string
		for _, s := range []string{"a", "é€", "\U0001F600", "a\U0001F600b", "\uFEFFé"} {
			o = append(o, string(refUTF16(s, be, bom)))
		}
		return o
	}
	ds := []malDecoder{
		{name: "from_hex", dec: "from_hex|tobytes|explode", enc: "tobytes|to_hex", seeds: []string{"00", "0f10", "deadbeef", "ABCDEF", "7f80ff"},
			alphabet: []string{"0", "f", "g", "G", " ", "="},
			ref: func(t string) (any, error) {
				b, err := refUnhex(t)
				return bytesToList(b), err
			},
			same: func(got, want any) bool { return canon(got) == canon(want) }},
		b64Dec("", "AA==", "AAE=", "AAEC", "Kz/9gP8=", "+/+/"),
		b64Dec("std", "AA==", "AAE=", "AAEC", "Kz/9gP8=", "+/+/"),
		b64Dec("url", "AA==", "AAE=", "AAEC", "Kz_9gP8=", "-_-_"),
		b64Dec("rawstd", "AA", "AAE", "AAEC", "Kz/9gP8", "+/+/"),
		b64Dec("rawurl", "AA", "AAE", "AAEC", "Kz_9gP8", "-_-_"),
		{name: "from_urlencode", dec: "from_urlencode", enc: "to_urlencode", seeds: []string{"a+b", "%41", "a%20b%2F", "%C3%A9", "x%25y"},
			alphabet: []string{"%", "+", "g", "4", " ", "é"},
			ref:      func(t string) (any, error) { return refUnpercent(t, true) }},
		{name: "from_urlpath", dec: "from_urlpath", enc: "to_urlpath", seeds: []string{"a+b", "%41", "a%20b%2F", "%C3%A9", "x%25y"},
			alphabet: []string{"%", "+", "g", "4", " ", "é"},
			ref:      func(t string) (any, error) { return refUnpercent(t, false) }},
		{name: "from_urlquery", dec: "from_urlquery", enc: "to_urlquery", seeds: []string{"a=b", "a=b&c=d", "a=1&a=2", "k=%C3%A9+x", "=v&k="},
			alphabet: []string{"&", "=", "%", ";", "+", "a"},
			ref: func(t string) (any, error) {
				q, err := refQueryParse(t)
				if err != nil {
					return nil, err
				}
				m := map[string]any{}
				for k, v := range q {
					if len(v) > 1 {
						m[k] = strItems(v)
					} else {
						m[k] = v[0]
					}
				}
				return m, nil
			}},
		{name: "from_url", dec: "from_url", enc: "to_url", seeds: []string{"http://h/p?q=1#f", "s://u:p@h:80/a%20b", "//h", "/p?a=b&a=c", "mailto:x@y"},
			alphabet: []string{":", "/", "%", "@", "#", " "},
			ref:      refURLObject},
		strDec("from_utf8", refFromUTF8, "a", "é€", "\U0001F600", "a\U0001F600b", "\uFEFFé"),
		strDec("from_utf16", func(b []byte) string { return refFromUTF16(b, false, true) }, append(utf16seeds(false, true), string(refUTF16("é", true, true)))...),
		strDec("from_utf16le", func(b []byte) string { return refFromUTF16(b, false, false) }, utf16seeds(false, false)...),
		strDec("from_utf16be", func(b []byte) string { return refFromUTF16(b, true, false) }, utf16seeds(true, false)...),
		strDec("from_iso8859_1", refFromLatin1, "a", "\xe9\xff", "\x00\x7f\x80", "abc", "\xa4"),
		radixDec(2, "101", "0", "1111111111111111111111111111111111111111111111111111111111111111", "10", "1"),
		radixDec(16, "ff", "0", "10000000000000000", "7f", "deadbeef"),
		radixDec(36, "zz", "0", "10", "fq", "z0"),
		radixDec(62, "Zz", "0", "10", "aA0", "Z"),
		{name: "fromjson", dec: "fromjson", enc: "tojson", seeds: []string{`{"a":[1,2]}`, `[true,null]`, `"a\nb"`, `-1.5e3`, `{"":{}}`},
			alphabet: []string{`"`, ",", "}", "1", " ", "x"}, ref: strictJSON},
		{name: "from_jq", dec: "from_jq", enc: "to_jq", seeds: []string{`{"a":[1,2]}`, `[true,null]`, `"a\nb"`, `1.5e3`, `{"a":{}}`},
			alphabet: []string{`"`, ",", "}", "1", " ", "x"}, ref: refJQ,
			known: func(t string, got res) string {
				// `1[1,2]` parses as an index expression on a literal; from_jq looks at the literal only
				v, ok := got.one()
				if !ok {
					return ""
				}
				for i := 1; i < len(t); i++ {
					if t[i] != '[' || !strings.ContainsRune("0123456789\"]}el", rune(t[i-1])) {
						continue
					}
					depth := 0
					for j := i; j < len(t); j++ {
						if t[j] == '[' {
							depth++
						} else if t[j] == ']' {
							depth--
							if depth == 0 {
								if w, err := refJQ(t[:i] + t[j+1:]); err == nil && canon(w) == canon(v) {
									return "index-suffix-after-literal-ignored"
								}
								break
							}
						}
					}
				}
				return ""
			}},
		{name: "from_jsonl", dec: "from_jsonl", enc: "to_jsonl", seeds: []string{"1\n2\n", "{\"a\":1}\n[2]\n", "\"x\"\n", "[]\n{}\n", "true\nnull\n"},
			alphabet: []string{`"`, ",", "}", "1", "\n", "x"},
			ref: func(t string) (any, error) {
				d := json.NewDecoder(strings.NewReader(t))
				d.UseNumber()
				vs := []any{}
				for {
					var v any
					err := d.Decode(&v)
					if err == io.EOF {
						break
					}
					if err != nil {
						return nil, err
					}
					vs = append(vs, fixNumbers(v))
				}
				if len(vs) == 0 {
					return nil, errMalformed
				}
				return vs, nil
			}},
		{name: "from_yaml", dec: "from_yaml", enc: "to_yaml", seeds: []string{"a: 1\nb: [x, y]\n", "- 1\n- a: b\n", "{a: \"q\", b: null}\n", "a:\n  b:\n    - 1\n", "- |\n  t\n- 'u'\n"},
			alphabet: []string{":", "-", " ", "\n", "\"", "["},
			ref: func(t string) (any, error) {
				d := yaml.NewDecoder(strings.NewReader(t))
				var v any
				if err := d.Decode(&v); err != nil {
					return nil, err
				}
				if err := d.Decode(new(any)); err != io.EOF {
					return nil, errMalformed
				}
				v = normYAML(v)
				if !rootContainer(v) {
					return nil, errMalformed
				}
				return v, nil
			}},
		{name: "from_toml", dec: "from_toml", enc: "to_toml", seeds: []string{"a = 1\nb = [\"x\", \"y\"]\n", "[t]\nk = true\n", "a = \"q\"\n", "[[l]]\nn = 1.5\n[[l]]\nn = 2\n", "a.b = 'c'\n"},
			alphabet: []string{"=", "[", " ", "\n", "\"", "."},
			ref: func(t string) (any, error) {
				var v any
				if _, err := toml.NewDecoder(strings.NewReader(t)).Decode(&v); err != nil {
					return nil, err
				}
				v = normYAML(v)
				if m, ok := v.(map[string]any); !ok || len(m) == 0 {
					return nil, errMalformed
				}
				return v, nil
			}},
		{name: "from_xml", dec: "from_xml", enc: "to_xml", seeds: []string{"<a><b>t</b></a>", "<a k=\"v\"/>", "<a>t<!--c--></a>", "<a><b/><b/></a>", "<x:a xmlns:x=\"u\">1</x:a>"},
			alphabet: []string{"<", ">", "/", "\"", "&", "a"},
			ref: func(t string) (any, error) {
				// well-formedness only (non-strict dialect): one root element, balanced, nothing but
				// white space / comments / PIs around it. The value is judged by idempotence.
				d := xml.NewDecoder(strings.NewReader(t))
				d.Strict = false
				depth, roots := 0, 0
				for {
					tok, err := d.Token()
					if err == io.EOF {
						break
					}
					if err != nil {
						return nil, err
					}
					switch x := tok.(type) {
					case xml.StartElement:
						if depth == 0 {
							roots++
						}
						depth++
					case xml.EndElement:
						depth--
					case xml.CharData:
						if depth == 0 && len(bytes.TrimSpace(x)) > 0 {
							return nil, errMalformed
						}
					}
				}
				if roots != 1 || depth != 0 {
					return nil, errMalformed
				}
				return nil, nil
			},
			same: func(got, want any) bool { return true },
			known: func(t string, got res) string {
				i := strings.IndexByte(t, '<')
				if i <= 0 || strings.TrimSpace(t[:i]) == "" || !got.ok {
					return ""
				}
				d := xml.NewDecoder(strings.NewReader(t[i:]))
				d.Strict = false
				for {
					if _, err := d.Token(); err == io.EOF {
						return "text-before-root-element-ignored"
					} else if err != nil {
						return ""
					}
				}
			}},
	}
	for _, comma := range []string{",", "\t"} {
		comma := comma
		seeds := []string{"a,b\nc,d\n", "a\n", "\"x,y\",z\n1,2\n", "a,b,c\n", "q,\"r\"\"s\"\n1,2\n"}
		for i := range seeds {
			seeds[i] = strings.ReplaceAll(seeds[i], ",", comma)
		}
		o := fmt.Sprintf("({comma:%q})", comma)
		ds = append(ds, malDecoder{name: "from_csv" + o, sigName: "from_csv", dec: "from_csv" + o, enc: "to_csv" + o, seeds: seeds,
			alphabet: []string{comma, "\n", "\"", "a", "#", " "},
			ref: func(t string) (any, error) {
				// dialect: leading space is trimmed unless the separator itself is white space
				rows, err := goCSV(t, comma, comma != "\t" && comma != " ", true)
				if err != nil {
					return nil, err
				}
				return rows, nil
			},
			same: func(got, want any) bool {
				return canon(got) == canon(want) || (canon(want) == "[]" && got == nil)
			},
			known: func(t string, got res) string {
				v, ok := got.one()
				if !ok {
					return ""
				}
				if m, ok := unwrap(v).(map[string]any); ok && len(m) == 1 && canon(m["gap0"]) == canon(t) {
					return "decode-error-returned-as-gap-value"
				}
				if comma == "\t" {
					// recorded class: exactly what the library does when it trims the tab separator
					if pred, err := goCSV(t, comma, true, true); err == nil && (canon(pred) == canon(v) || (len(pred) == 0 && v == nil)) {
						return "separator-trimmed-as-leading-space"
					}
				}
				return ""
			}})
	}
	return ds
}

// mutations: every single-character (rune, or byte for binary inputs) deletion,
// insertion and substitution; duplicates and the seed itself removed.
func mutations(seed string, alphabet []string, binary bool) []string {
	var units []string
	if binary {
		for i := 0; i < len(seed); i++ {
			units = append(units, seed[i:i+1])
		}
	} else {
		for _, r := range seed {
			units = append(units, string(r))
		}
	}
	seen := map[string]bool{seed: true}
	var out []string
	add := func(parts ...[]string) {
		var b strings.Builder
		for _, p := range parts {
			for _, u := range p {
				b.WriteString(u)
			}
		}
		s := b.String()
		if !seen[s] {
			seen[s] = true
			out = append(out, s)
		}
	}
	for i := range units {
		add(units[:i], units[i+1:])
		for _, a := range alphabet {
			add(units[:i], []string{a}, units[i+1:])
		}
	}
	for i := 0; i <= len(units); i++ {
		for _, a := range alphabet {
			add(units[:i], []string{a}, units[i:])
		}
	}
	return out
}

func malItem(dec string, t string, binary bool) any {
	if binary {
		return map[string]any{"d": dec, "b": bytesToList([]byte(t))}
	}
	return map[string]any{"d": dec, "t": t}
}

func enumMalformed(e *env) {
	total := 0
	var names []string
	for _, d := range malDecoders() {
		if len(d.seeds) != 5 || len(d.alphabet) != 6 {
			if !(d.name == "from_utf16" && len(d.seeds) == 6) {
				panic("malformed: decoder " + d.name + " must have 5 seeds and a 6 character alphabet")
			}
		}
		var items []any
		for _, s := range d.seeds {
			// the seeds themselves are well-formed: the reference must accept them
			if _, err := d.ref(s); err != nil {
				panic(fmt.Sprintf("malformed: seed %q of %s is rejected by the reference: %v", s, d.name, err))
			}
			items = append(items, malItem(d.name, s, d.binary))
			for _, m := range mutations(s, d.alphabet, d.binary) {
				items = append(items, malItem(d.name, m, d.binary))
			}
		}
		total += len(items)
		names = append(names, d.name)
		e.each(items, 160, func(items []any) { checkMalformed(e, d.name, items) })
	}
	sort.Strings(names)
	e.r.Extra("malformed_inputs", total)
	e.r.Extra("malformed_decoders", names)
}

func checkMalformed(e *env, fn string, items []any) {
	var d *malDecoder
	for _, c := range malDecoders() {
		if c.name == fn {
			c := c
			d = &c
		}
	}
	if d == nil {
		return
	}
	inputs := make([]any, len(items))
	texts := make([]string, len(items))
	for i, it := range items {
		m := itemMap(it)
		if d.binary {
			b, _ := listToBytes(m["b"])
			texts[i] = string(b)
			inputs[i] = map[string]any{"b": m["b"]}
		} else {
			texts[i] = itemStr(m["t"])
			inputs[i] = map[string]any{"t": texts[i]}
		}
	}
	in := "$it.t"
	if d.binary {
		in = "($it.b|tobytes)"
	}
	body := fmt.Sprintf(". as $it | [T(%s|%s), T(%s|%s|%s)]", in, d.dec, in, d.dec, d.enc)
	if d.name == "from_xml" {
		body = fmt.Sprintf(". as $it | [T(%s|%s), T(%s|%s|%s), T(%s|%s|%s|%s)]", in, d.dec, in, d.dec, d.enc, in, d.dec, d.enc, d.dec)
	}
	outs := e.batch(fn, body, inputs)
	sigName := d.sigName
	if sigName == "" {
		sigName = d.name
	}
	same := d.same
	if same == nil {
		same = func(got, want any) bool { return canon(got) == canon(want) }
	}
	for i, o := range outs {
		if o == nil {
			continue
		}
		obs := asList(o)
		if len(obs) < 2 {
			e.violate("escape:malformed", "malformed driver output", fn, items[i])
			continue
		}
		t := texts[i]
		shown := fmt.Sprintf("%q", t)
		if d.binary {
			shown = fmt.Sprintf("bytes %x", t)
		}
		e.r.Eval(2)
		got := getRes(obs[0])
		re := getRes(obs[1])
		want, rerr := d.ref(t)
		e.r.Nontrivial("mal:" + fn + ":" + t)
		if rerr != nil {
			e.show("%s | %s -> %s ; reference: malformed (%v)", shown, d.name, got, rerr)
			e.r.Count("malformed_rejected_by_reference", 1)
			if !got.ok {
				e.r.Count("malformed_rejected_by_fq", 1)
				continue
			}
			// lenient but faithful?
			var reText string
			faithful := false
			if v, ok := re.one(); ok {
				if d.binary {
					b, ok := listToBytes(v)
					faithful = ok && string(b) == t
				} else {
					reText, _ = v.(string)
					faithful = reText == t
				}
			}
			if faithful {
				e.r.Count("malformed_accepted_faithfully", 1)
				continue
			}
			class := ""
			if d.known != nil {
				if k := d.known(t, got); k != "" {
					class = ":" + k
				}
			}
			sig := "malformed:" + sigName + class
			if sigName == "from_csv" && class != "" {
				sig = "csv" + class
			}
			e.violate(sig, fmt.Sprintf("%s | %s = %s although the input is malformed (%v); the value re-encodes to %s, not to the input", shown, d.name, got, rerr, re), fn, items[i])
			continue
		}
		e.show("%s | %s -> %s ; reference: %s", shown, d.name, got, trunc(canon(want), 300))
		e.r.Count("mutant_still_wellformed", 1)
		if !got.ok {
			e.r.Count("wellformed_rejected_by_fq", 1)
			continue
		}
		v, ok := got.one()
		if !ok || !same(unwrap(v), want) {
			class := ""
			if d.known != nil {
				if k := d.known(t, got); k != "" {
					class = ":" + k
				}
			}
			sig := "wellformed:" + sigName + class
			if sigName == "from_csv" && class != "" {
				sig = "csv" + class
			}
			if d.name == "from_jq" {
				if k := classifyRoundTrip("jq", want, got, t); k != "" {
					sig = "jq:" + k
				}
			}
			e.violate(sig, fmt.Sprintf("%s | %s = %s, reference decoder %s", shown, d.name, got, trunc(canon(want), 300)), fn, items[i])
			continue
		}
		if d.name == "from_xml" && len(obs) == 3 {
			// accepted XML: decoding must be idempotent through to_xml
			again := getRes(obs[2])
			if av, ok := again.one(); !ok || canon(av) != canon(v) {
				e.r.Count("xml_lenient_not_idempotent", 1)
			}
		}
	}
}
