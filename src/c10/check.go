package c10

import (
	"fmt"
	"regexp"
	"strings"
)

var rangeTail = regexp.MustCompile(` [0-9a-z.]+-[0-9a-z.]+ \([0-9a-z.]+\)$`)

// Opt is one display configuration. Every field is passed explicitly to fq.
type Opt struct {
	LB       int  `json:"line_bytes"`
	AddrBase int  `json:"addrbase"`
	SizeBase int  `json:"sizebase"`
	DB       int  `json:"display_bytes"` // -1: not passed (dd/ddv/hd default 0)
	Verbose  int  `json:"verbose"`       // -1: not passed, 0/1
	Color    bool `json:"color"`
	Unicode  bool `json:"unicode"`
	AT       int  `json:"array_truncate,omitempty"` // 0: not passed (d: 50, dd/dv/ddv: 0)
}

func (o Opt) String() string {
	at := ""
	if o.AT > 0 {
		at = fmt.Sprintf(",array_truncate:%d", o.AT)
	}
	return fmt.Sprintf("{line_bytes:%d,addrbase:%d,sizebase:%d,display_bytes:%d,verbose:%d,color:%v,unicode:%v%s}", o.LB, o.AddrBase, o.SizeBase, o.DB, o.Verbose, o.Color, o.Unicode, at)
}

// JQ is the option object handed to hd/d/dd/dv/ddv.
func (o Opt) JQ() map[string]any {
	m := map[string]any{"line_bytes": o.LB, "addrbase": o.AddrBase, "sizebase": o.SizeBase, "color": o.Color, "unicode": o.Unicode}
	if o.DB >= 0 {
		m["display_bytes"] = o.DB
	}
	if o.Verbose >= 0 {
		m["verbose"] = o.Verbose == 1
	}
	if o.AT > 0 {
		m["array_truncate"] = o.AT
	}
	return m
}

func (o Opt) sep() rune {
	if o.Unicode {
		return '│'
	}
	return '|'
}

// expVal is what the oracle knows about one value of the displayed (sub)tree, in
// display order (pre-order).
type expVal struct {
	path      string
	prefix    string // start of its tree text after the indentation
	depth     int
	rootDepth int    // number of buffer switches between the displayed value and this one
	buf       []byte // buffer its range refers to, last partial byte zero padded
	bufBits   int64
	start, n  int64 // inner range, bits
	leaf      bool  // scalar: its bytes must be shown when n > 0
	synthetic bool  // no range text
}

type finding struct{ sig, msg string }

const sigNestedAddr = "addr:nested-root-address-loses-last-rootdepth-chars"
const sigBase2Header = "header:addrbase2-column-label-wider-than-cell"

// lineOf reports whether tree text t is the line of value ev.
func lineOf(t string, ev *expVal) bool {
	ind := 2 * ev.depth
	if len(t) < ind+len(ev.prefix)+1 {
		return false
	}
	for i := 0; i < ind; i++ {
		if t[i] != ' ' {
			return false
		}
	}
	if !strings.HasPrefix(t[ind:], ev.prefix) {
		return false
	}
	switch t[ind+len(ev.prefix)] {
	case ':', '{', '[':
		return true
	}
	return false
}

// checkDump is the oracle: raw is what fq printed, exp the values in display order,
// verbose: 0 range texts are not looked at, 1 they must be present, 2 they are checked
// when present (a line ending in "X-Y (Z)"); db is the effective display_bytes.
func checkDump(raw string, o Opt, verbose int, db int, exp []expVal) (fs []finding) {
	add := func(sig, f string, a ...any) {
		if len(fs) < 8 {
			fs = append(fs, finding{sig, fmt.Sprintf(f, a...)})
		}
	}
	out, ok := stripANSI(raw)
	if !ok {
		add("ansi:stray-escape", "output holds an escape byte outside a CSI sequence")
		return
	}
	if !o.Color && out != raw {
		add("ansi:colour-when-off", "colour off but the output holds ANSI sequences")
	}
	rows, err := parseRows(out, o.LB, o.sep())
	if err != nil {
		add("grammar:row", "%v", err)
		return
	}
	lb := int64(o.LB)
	pos := 0
	aw := -1
	for _, r := range rows {
		if aw >= 0 && r.addrWidth != aw {
			add("grammar:address-column-width", "address column width changes from %d to %d at %q", aw, r.addrWidth, r.raw)
			return
		}
		aw = r.addrWidth
	}
	for k := range exp {
		ev := &exp[k]
		var next *expVal
		if k+1 < len(exp) {
			next = &exp[k+1]
		}
		// block of this value: [standalone header row] value line, continuation rows
		var hdr *row
		if pos < len(rows) && rows[pos].kind == rowHeader && rows[pos].tree == "" {
			hdr = &rows[pos]
			pos++
		}
		if pos >= len(rows) {
			add("tree:value-line-missing", "no line for value %s (%d values expected, output ended)", ev.path, len(exp))
			return
		}
		first := pos
		if !lineOf(rows[pos].tree, ev) {
			add("tree:value-line-missing", "expected the line of %s (prefix %q at depth %d), found %q", ev.path, ev.prefix, ev.depth, rows[pos].raw)
			return
		}
		if rows[pos].kind == rowHeader {
			if hdr != nil {
				add("grammar:two-headers", "two header rows for %s", ev.path)
			}
			hdr = &rows[pos]
		}
		pos++
		for pos < len(rows) {
			r := &rows[pos]
			if r.kind == rowHeader {
				break
			}
			if next != nil && r.tree != "" && lineOf(r.tree, next) {
				break
			}
			pos++
		}
		block := rows[first:pos]

		// ---- header labels
		if hdr != nil {
			checkHeader(hdr, o, add)
		}

		// ---- range text
		line := block[0].tree
		if (verbose == 1 || (verbose == 2 && rangeTail.MatchString(line))) && !ev.synthetic {
			want := " " + refRangeText(ev.start, ev.n, o.AddrBase, o.SizeBase)
			if !strings.HasSuffix(line, want) {
				tail := line
				if len(tail) > 60 {
					tail = "..." + tail[len(tail)-60:]
				}
				add("range:verbose-text", "%s has inner range start %d bits length %d bits: expected the line to end with %q (addrbase %d, sizebase %d), line is %q", ev.path, ev.start, ev.n, want[1:], o.AddrBase, o.SizeBase, tail)
			}
		}

		// ---- bytes
		var data []*row
		stars := 0
		for i := range block {
			switch block[i].kind {
			case rowData:
				if stars > 0 {
					add("grammar:data-after-skip-row", "%s: data row after the * row: %q", ev.path, block[i].raw)
				}
				data = append(data, &block[i])
			case rowStar:
				stars++
			default:
				if i > 0 && (!blank(block[i].hex) || !blank(block[i].ascii)) {
					add("grammar:stray-cells", "%s: row without address holds cells: %q", ev.path, block[i].raw)
				}
			}
		}
		if ev.n == 0 {
			if len(data) > 0 || stars > 0 {
				add("bytes:shown-for-empty-value", "%s has length 0 but bytes are shown: %q", ev.path, data0(data, block))
			}
			continue
		}
		if len(data) == 0 {
			if ev.leaf {
				add("bytes:not-shown", "%s (bits %d..%d) shows no bytes", ev.path, ev.start, ev.start+ev.n)
			}
			if stars > 0 {
				add("grammar:skip-row-without-data", "%s: * row without data rows", ev.path)
			}
			continue
		}
		startByte := ev.start / 8
		stopByte := (ev.start + ev.n - 1) / 8
		bufLastByte := (ev.bufBits - 1) / 8
		line0 := startByte / lb
		lastShown := int64(-1)
		bad, started, ended := false, false, false
		for i, r := range data {
			aexp := (line0 + int64(i)) * lb
			// address text
			if a, ok := parseAddr(r.addr, o.AddrBase); !ok || a != aexp {
				if ev.rootDepth > 0 && isCutAddr(r.addr, aexp, o.AddrBase, ev.rootDepth) {
					add(sigNestedAddr, "%s (buffer nesting %d below the displayed value): row %d of its bytes starts at byte %d = %q but the address column shows %q; row: %q", ev.path, ev.rootDepth, i, aexp, refPrefix(o.AddrBase)+refInt(aexp, o.AddrBase), r.addr, r.raw)
				} else {
					add("addr:wrong", "%s: row %d of its bytes (value bytes %d..%d, line_bytes %d) must start at byte %d = %s but the address column shows %q; row: %q", ev.path, i, startByte, stopByte, lb, aexp, refPrefix(o.AddrBase)+refInt(aexp, o.AddrBase), r.addr, r.raw)
					bad = true
				}
			}
			cells, marker, err := parseHexCells(r.hex, o.LB, o.sep())
			if err != nil {
				add("grammar:hex-column", "%s: %v in row %q", ev.path, err, r.raw)
				bad = true
				break
			}
			lastCol := -1
			for c := 0; c < o.LB; c++ {
				at := aexp + int64(c)
				if cells[c] < 0 {
					// blank: only before the first byte and after the last one
					if started {
						ended = true
					}
					if r.ascii[c] != ' ' && !(marker >= 0 && c == marker+1 && r.ascii[c] == o.sep()) {
						add("ascii:char-without-byte", "%s: ASCII column %d holds %q but the hex column is blank there; row: %q", ev.path, c, string(r.ascii[c]), r.raw)
						bad = true
					}
					continue
				}
				if ended || (!started && at != startByte) || (started && at != lastShown+1) {
					add("bytes:misplaced", "%s (bytes %d..%d): a byte is shown at address %d (row address %d column %d) which does not continue a single run starting at byte %d; row: %q", ev.path, startByte, stopByte, at, aexp, c, startByte, r.raw)
					bad = true
					break
				}
				started = true
				if at > stopByte {
					add("bytes:beyond-value", "%s covers bytes %d..%d but a byte at address %d is shown; row: %q", ev.path, startByte, stopByte, at, r.raw)
					bad = true
					break
				}
				if at >= int64(len(ev.buf)) {
					add("bytes:beyond-buffer", "%s: byte shown at address %d but its buffer has %d bytes; row: %q", ev.path, at, len(ev.buf), r.raw)
					bad = true
					break
				}
				if byte(cells[c]) != ev.buf[at] {
					add("bytes:hex-differs", "%s: row address %d (%q) column %d shows %02x but byte %d of the buffer is %02x; row: %q", ev.path, aexp, r.addr, c, cells[c], at, ev.buf[at], r.raw)
					bad = true
				}
				if r.ascii[c] != refASCII(ev.buf[at]) {
					add("bytes:ascii-differs", "%s: row address %d column %d shows ASCII %q but byte %d of the buffer is %02x (%q); row: %q", ev.path, aexp, c, string(r.ascii[c]), at, ev.buf[at], string(refASCII(ev.buf[at])), r.raw)
					bad = true
				}
				lastShown = at
				lastCol = c
			}
			if bad {
				break
			}
			if marker >= 0 {
				if i != len(data)-1 || marker != lastCol || lastShown != bufLastByte {
					add("bytes:false-end-marker", "%s: end-of-buffer marker after column %d of row %q but the buffer's last byte is %d and the last byte shown is %d", ev.path, marker, r.raw, bufLastByte, lastShown)
				}
				if marker+1 < o.LB && r.ascii[marker+1] != o.sep() {
					add("grammar:ascii-end-marker", "%s: hex column has an end marker but the ASCII column has none; row: %q", ev.path, r.raw)
				}
			}
		}
		if bad {
			continue
		}
		if lastShown < startByte {
			add("bytes:not-shown", "%s (bytes %d..%d) has data rows without any byte", ev.path, startByte, stopByte)
			continue
		}
		truncAllowed := db > 0 && ev.n > int64(db)*8
		switch {
		case lastShown < stopByte && !truncAllowed:
			add("bytes:incomplete", "%s covers bytes %d..%d (%d bits, display_bytes %d) but only bytes %d..%d are shown", ev.path, startByte, stopByte, ev.n, db, startByte, lastShown)
		case lastShown < stopByte && stars == 0:
			add("bytes:truncated-without-marker", "%s covers bytes %d..%d but only %d..%d are shown and no * row says so", ev.path, startByte, stopByte, startByte, lastShown)
		case lastShown == stopByte && stars > 0:
			add("bytes:false-skip-row", "%s: all bytes %d..%d are shown but a * row follows", ev.path, startByte, stopByte)
		}
	}
	if pos != len(rows) {
		add("tree:extra-rows", "%d rows after the last expected value, first: %q", len(rows)-pos, rows[pos].raw)
	}
	return
}

func data0(data []*row, block []row) string {
	if len(data) > 0 {
		return data[0].raw
	}
	return block[0].raw
}

// isCutAddr: text is the zero padded address text of a (with prefix) of length
// len(text)+r without its last r characters.
func isCutAddr(text string, a int64, base, r int) bool {
	p := refPrefix(base)
	full := len(text) + r
	d := refInt(a, base)
	if len(p)+len(d) > full {
		return false
	}
	t := p + strings.Repeat("0", full-len(p)-len(d)) + d
	return t[:len(text)] == text
}

// checkHeader: the label over column c is c in the address base, two characters
// wide (zero padded; the last two digits when c needs more, as the ASCII header keeps
// the last digit).
func checkHeader(h *row, o Opt, add func(sig, f string, a ...any)) {
	wide := false
	var sb, ab strings.Builder
	for c := 0; c < o.LB; c++ {
		l := refLabel(c, o.AddrBase)
		if len(l) > 2 {
			wide = true
		}
		sb.WriteString(l[len(l)-2:])
		if c < o.LB-1 {
			sb.WriteByte(' ')
		}
		ab.WriteString(l[len(l)-1:])
	}
	got := strings.TrimRight(string(h.hex), " ")
	if a := string(h.ascii); a != ab.String() {
		add("header:ascii-label", "ASCII header is %q, the last digits of the column numbers in base %d are %q", a, o.AddrBase, ab.String())
	}
	if got == sb.String() {
		return
	}
	if wide && o.AddrBase == 2 {
		// which column is first mislabelled
		for c := 0; c < o.LB; c++ {
			l := refLabel(c, 2)
			cell := string(h.hex[3*c : 3*c+2])
			sepOK := c == o.LB-1 || h.hex[3*c+2] == ' '
			if cell != l[len(l)-2:] || !sepOK {
				add(sigBase2Header, "addrbase 2 line_bytes %d: header %q: column %d is number %q in base 2 but the characters over that column are %q", o.LB, got, c, l, string(h.hex[3*c:min(3*c+3, len(h.hex))]))
				return
			}
		}
	}
	add("header:wrong-label", "hex header is %q, the column numbers in base %d are %q", got, o.AddrBase, sb.String())
}
