// Package c09 decides property C09 (binary values obey bit-string algebra) by
// enumerating every expression tree up to a depth bound over a fixed alphabet of
// leaves and operators, evaluating each with fq in-process and comparing the
// result with a reference bit-string evaluator written from the documentation.
//
// Evaluation is layered: the fq values of all trees of depth d are kept (as the Go
// values the interpreter produced) and one driver program applies the whole
// operator alphabet to a chunk of them, so a tree of depth d+1 costs one operator
// application. A textual section re-evaluates a deterministic subset as complete
// program texts to tie the layered evaluation to what a user would type.
package c09

import (
	"bufio"
	"encoding/json"
	"fmt"
	"hash/fnv"
	"os"
	"runtime/pprof"
	"strings"

	"github.com/wader/fq/internal/verif/core"
	"github.com/wader/fq/internal/verif/fqrun"
)

var Check = core.Check{
	ID:     "C09",
	Level:  "exploration",
	Shards: 16,
	Run:    run,
	Replay: replay,
	Parent: parent,
}

type lazyTree func() *Tree

// node is an evaluated tree: the reference value and fq's value agree.
type node struct {
	tree lazyTree
	ref  *Val
	fq   any
	key  uint64 // hash of the reference value
	live bool   // ref is a value (not error/unmodelled) and fq agreed
	why  kind   // for dead nodes: kErr, kUnmodelled, or kOther (disagreement)
}

type result struct {
	ok       bool // operator produced a value
	v        any
	panicked bool // a Go panic was isolated to this case and already reported
}

type explorer struct {
	r    *core.Run
	s    *fqrun.Session
	ls   []leaf
	ops  []Op
	drv  string
	pre  string // program prefix binding $d to the decoded c09dsl tree
	buf  []byte
	only string
	// beyond: the trees being compared lie outside the depth bound (extra
	// observations); they are kept out of the bound accounting
	beyond bool
}

func (e *explorer) account(name string) {
	if e.beyond {
		e.r.Count("beyond_bound_"+name, 1)
		return
	}
	e.r.Count(name, 1)
}

func (e *explorer) want(section string) bool { return e.only == "" || e.only == section }

func run(r *core.Run) {
	if p := os.Getenv("C09_PROBE"); p != "" {
		if r.ShardIdx == 0 {
			probe(p)
		}
		return
	}
	if p := os.Getenv("C09_PROF"); p != "" && r.ShardIdx == 0 {
		if f, err := os.Create(p); err == nil {
			_ = pprof.StartCPUProfile(f)
			defer pprof.StopCPUProfile()
		}
	}
	r.Rule("a case is non-trivial when a binary or decode value is the operand (or inside the operand array) or the result; distinct = distinct (operator, reference operand value) pairs, for [x,y] distinct (x value, y value) pairs")
	for _, a := range assumptions() {
		r.Assume(a)
	}
	ls, buf := leaves(r.Seed)
	s, err := fqrun.NewSession(nil)
	if err != nil {
		r.NotExhaustive("could not start fq session: " + err.Error())
		return
	}
	defer s.Close()
	e := &explorer{r: r, s: s, ls: ls, ops: unaryOps(), only: os.Getenv("VERIF_ONLY"), buf: buf, pre: leafPrelude(buf)}
	e.drv = driverText(e.ops)
	r.Extra("leaves", len(ls))
	r.Extra("unary_operators", len(e.ops))
	r.Extra("tree_depth_bound", core.Pick(r, 3, 4))

	l1 := e.levelOne()
	if l1 == nil {
		return
	}
	r.Logf("depth<=2: %d trees", len(l1))
	if e.want("depth3") {
		e.depthThree(l1)
	}
	if e.want("law") {
		e.law(l1)
	}
	if e.want("law3") {
		e.law3(l1)
	}
	if e.want("splice") {
		e.splice(l1)
	}
	if e.want("rangekeys") {
		e.rangekeys(l1)
	}
	if e.want("textual") {
		e.textual(l1)
	}
}

// parent cross-checks that the shards together accounted for every tree of the
// bound (computed from the alphabet sizes).
func parent(r *core.Run) {
	if os.Getenv("VERIF_ONLY") != "" || os.Getenv("C09_PROBE") != "" {
		return
	}
	nl, no := int64(numLeaves), int64(len(unaryOps()))
	d2 := nl + nl*no + nl*nl                // depth <= 2
	d3 := d2 + (d2-nl)*no + (d2*d2 - nl*nl) // depth <= 3
	bound := d3
	if r.Thorough() {
		// depth 4 without array nodes over depth-3 children: op(t) for every depth-3 tree t
		bound = d3 + (d3-d2)*no
	}
	r.Extra("trees_in_bound", bound)
	got := r.Counter("trees_compared") + r.Counter("trees_unmodelled_root") + r.Counter("trees_dead_subtree")
	r.Extra("trees_accounted", got)
	if got != bound {
		r.NotExhaustive(fmt.Sprintf("accounted for %d of %d trees of the bound", got, bound))
	}
}

func hashStr(s string) uint64 {
	h := fnv.New64a()
	h.Write([]byte(s))
	return h.Sum64()
}

func mix(a, b uint64) uint64 {
	x := a*0x9e3779b97f4a7c15 ^ (b + 0x7f4a7c15bf58476d + (a << 6) + (a >> 2))
	x ^= x >> 31
	return x * 0xbf58476d1ce4e5b9
}

// ---- evaluation helpers ------------------------------------------------------------

const chunkVals = 96

// evalOps applies ops to every value; tree(i) names value i for diagnostics.
func (e *explorer) evalOps(vals []any, ops []Op, drv string, tree func(i int) *Tree) [][]result {
	out := make([][]result, 0, len(vals))
	// about 10^4 operator applications per compiled program
	chunkVals := chunkVals * len(e.ops) / len(ops)
	for lo := 0; lo < len(vals); lo += chunkVals {
		hi := lo + chunkVals
		if hi > len(vals) {
			hi = len(vals)
		}
		out = append(out, e.evalChunk(vals[lo:hi], ops, drv, func(i int) *Tree { return tree(lo + i) })...)
	}
	return out
}

func (e *explorer) evalChunk(vals []any, ops []Op, drv string, tree func(i int) *Tree) [][]result {
	outs, err := e.s.Eval(append([]any{}, vals...), drv)
	if err == nil && len(outs) == 1 {
		if rows, ok := outs[0].([]any); ok && len(rows) == len(vals) {
			res := make([][]result, len(vals))
			good := true
			for i, row := range rows {
				cols, ok := row.([]any)
				if !ok || len(cols) != len(ops) {
					good = false
					break
				}
				res[i] = make([]result, len(ops))
				for j, c := range cols {
					if w, ok := c.([]any); ok && len(w) == 1 {
						res[i][j] = result{ok: true, v: w[0]}
					}
				}
			}
			if good {
				return res
			}
		}
	}
	// A failure of the batch: isolate it.
	if len(vals) > 1 {
		res := make([][]result, 0, len(vals))
		for i := range vals {
			i := i
			res = append(res, e.evalChunk(vals[i:i+1], ops, drv, func(int) *Tree { return tree(i) })...)
		}
		return res
	}
	if len(ops) > 1 {
		row := make([]result, 0, len(ops))
		for j := range ops {
			r1 := e.evalChunk(vals, ops[j:j+1], driverText(ops[j:j+1]), tree)
			row = append(row, r1[0][0])
		}
		return [][]result{row}
	}
	t := tOp(ops[0], tree(0))
	what := fmt.Sprintf("%s: evaluation did not complete: %v (outputs %d)", t.Short(e.ls), err, len(outs))
	sig := "eval-failed:" + opNames[ops[0].K]
	if pe, ok := fqrun.IsPanic(err); ok {
		sig = "panic:" + core.PanicSite(pe.Stack) + ":" + opNames[ops[0].K]
	}
	e.r.Violate(sig, what, caseOf(e, t, "tree"))
	return [][]result{{result{panicked: true}}}
}

// evalPairs builds [x, y] for every x of a and y of b.
func (e *explorer) evalPairs(a, b []any) ([][]any, error) {
	outs, err := e.s.Eval(map[string]any{"a": append([]any{}, a...), "b": append([]any{}, b...)}, pairText)
	if err != nil || len(outs) != 1 {
		return nil, fmt.Errorf("pair construction failed: %v", err)
	}
	rows, ok := outs[0].([]any)
	if !ok || len(rows) != len(a) {
		return nil, fmt.Errorf("pair construction: bad shape")
	}
	res := make([][]any, len(a))
	for i, row := range rows {
		cols, ok := row.([]any)
		if !ok || len(cols) != len(b) {
			return nil, fmt.Errorf("pair construction: bad shape")
		}
		res[i] = cols
	}
	return res, nil
}

type Case struct {
	Kind string `json:"kind"` // "tree" | "law"
	Tree *Tree  `json:"tree"`
	JQ   string `json:"jq"`
	Seed int64  `json:"seed"`
}

func caseOf(e *explorer, t *Tree, kind string) Case {
	return Case{Kind: kind, Tree: t, JQ: t.JQ(e.ls, e.buf), Seed: e.r.Seed}
}

func operandClass(v *Val) string {
	switch v.K {
	case kBin:
		al := "aligned"
		if v.Start%8 != 0 || len(v.Bits)%8 != 0 {
			al = "unaligned"
		}
		return fmt.Sprintf("binary-unit%d-%s", v.Unit, al)
	case kArr:
		if hasBinary(v) {
			return "array-with-binary"
		}
		return "array"
	}
	return v.K.String()
}

// compare judges one evaluated tree. opName/operand only feed the signature.
// It returns the node for the tree.
func (e *explorer) compare(tree lazyTree, opName string, operand *Val, ref *Val, rs result, nontrivKey uint64, key uint64) node {
	n := node{tree: tree, ref: ref}
	if rs.panicked {
		n.why = kOther
		e.account("trees_compared")
		return n
	}
	switch ref.K {
	case kUnmodelled:
		e.account("trees_unmodelled_root")
		n.why = kUnmodelled
		return n
	case kErr:
		e.r.Eval(1)
		e.account("trees_compared")
		n.why = kErr
		if rs.ok {
			got := observe(rs.v)
			t := tree()
			e.r.Violate("value-instead-of-error:"+opName+":"+operandClass(operand),
				fmt.Sprintf("%s: reference: error (%s); fq: %s", t.Short(e.ls), ref.Why, got), caseOf(e, t, "tree"))
			n.why = kOther
		} else {
			e.r.Count("agree_error", 1)
			if hasBinary(operand) {
				e.r.NontrivialHash(nontrivKey)
			}
		}
		return n
	}
	e.r.Eval(1)
	e.account("trees_compared")
	if !rs.ok {
		t := tree()
		e.r.Violate("error-instead-of-value:"+opName+":"+operandClass(operand),
			fmt.Sprintf("%s: reference: %s; fq: error", t.Short(e.ls), ref), caseOf(e, t, "tree"))
		n.why = kOther
		return n
	}
	got := observe(rs.v)
	if !equal(ref, got) {
		t := tree()
		e.r.Violate("wrong-result:"+opName+":"+operandClass(operand)+":"+diff(ref, got),
			fmt.Sprintf("%s: reference: %s; fq: %s", t.Short(e.ls), ref, got), caseOf(e, t, "tree"))
		n.why = kOther
		return n
	}
	e.r.Count("agree_value", 1)
	if ref.K == kBin {
		e.r.Count("binary_results", 1)
	}
	if hasBinary(operand) || hasBinary(ref) {
		e.r.NontrivialHash(nontrivKey)
	}
	n.live, n.fq = true, rs.v
	if n.key = key; key == 0 {
		n.key = hashStr(ref.String())
	}
	return n
}

// expand applies the whole alphabet to every (live) operand, compares, and calls
// visit with each operand's results.
func (e *explorer) expand(operands []node, visit func(i int, children []node)) {
	vals := make([]any, len(operands))
	for i := range operands {
		vals[i] = operands[i].fq
	}
	for lo := 0; lo < len(vals); lo += chunkVals {
		hi := lo + chunkVals
		if hi > len(vals) {
			hi = len(vals)
		}
		res := e.evalChunk(vals[lo:hi], e.ops, e.drv, func(i int) *Tree { return operands[lo+i].tree() })
		for i, row := range res {
			x := operands[lo+i]
			children := make([]node, len(e.ops))
			for j, rs := range row {
				op := e.ops[j]
				ref := apply(op, x.ref)
				children[j] = e.compare(func() *Tree { return tOp(op, x.tree()) }, opNames[op.K], x.ref, ref, rs, mix(uint64(j)+1, x.key), 0)
			}
			visit(lo+i, children)
		}
	}
}

// ---- depth <= 2 ----------------------------------------------------------------------

// levelOne evaluates and checks all trees of depth <= 2 (leaf, op(leaf),
// [leaf, leaf]). Every shard needs their values; a tree is judged (counted,
// alarmed) only by the shard that owns its index.
func (e *explorer) levelOne() []node {
	r := e.r
	parts := make([]string, len(e.ls))
	for i, l := range e.ls {
		parts[i] = l.JQ
	}
	outs, err := e.s.Eval(nil, e.pre+"["+strings.Join(parts, ", ")+"]")
	if err != nil || len(outs) != 1 {
		r.Violate("leaves-failed", fmt.Sprintf("leaf values could not be built: %v", err), Case{Kind: "leaves", Seed: r.Seed})
		return nil
	}
	lv, _ := outs[0].([]any)
	if len(lv) != len(e.ls) {
		r.Violate("leaves-failed", "leaf program returned a wrong shape", Case{Kind: "leaves", Seed: r.Seed})
		return nil
	}
	quiet := &explorer{r: core.NewScratchRun(r), s: e.s, ls: e.ls, ops: e.ops, drv: e.drv, pre: e.pre, buf: e.buf}
	judge := func(idx int) *explorer {
		if r.Mine(int64(idx)) && e.want("depth2") {
			return e
		}
		return quiet
	}
	var l1 []node
	for i := range e.ls {
		i := i
		n := judge(i).compare(func() *Tree { return tLeaf(i) }, "leaf", e.ls[i].Ref, e.ls[i].Ref, result{ok: true, v: lv[i]}, mix(0, uint64(i)), 0)
		l1 = append(l1, n)
	}
	for _, n := range l1 {
		if !n.live {
			// a leaf the reference and fq disagree on: nothing above it is meaningful
			r.NotExhaustive("a leaf value disagreed with the reference")
			return nil
		}
	}
	leafNodes := append([]node{}, l1...)
	vals := make([]any, len(leafNodes))
	for i := range leafNodes {
		vals[i] = leafNodes[i].fq
	}
	res := e.evalOps(vals, e.ops, e.drv, func(i int) *Tree { return tLeaf(i) })
	for i, row := range res {
		x := leafNodes[i]
		for j, rs := range row {
			op := e.ops[j]
			l1 = append(l1, judge(len(l1)).compare(func() *Tree { return tOp(op, x.tree()) }, opNames[op.K], x.ref, apply(op, x.ref), rs, mix(uint64(j)+1, x.key), 0))
		}
	}
	prs, err := e.evalPairs(vals, vals)
	if err != nil {
		r.Violate("pairs-failed", err.Error(), Case{Kind: "pairs", Seed: r.Seed})
		return nil
	}
	for i := range leafNodes {
		for j := range leafNodes {
			x, y := leafNodes[i], leafNodes[j]
			ref := pair(x.ref, y.ref)
			l1 = append(l1, judge(len(l1)).compare(func() *Tree { return tPair(x.tree(), y.tree()) }, "[x,y]", ref, ref, result{ok: true, v: prs[i][j]}, mix(mix(7, x.key), y.key), mix(mix(7, x.key), y.key)))
		}
	}
	if e.want("depth2") {
		r.Section("depth2")
	}
	return l1
}

// ---- depth 3 (and 4) -------------------------------------------------------------------

func (e *explorer) depthThree(l1 []node) {
	r := e.r
	nl := len(e.ls)
	nops := int64(len(e.ops))
	deep := r.Thorough()

	// deeper: op(t) for every live depth-3 tree t (thorough)
	var pending []node
	stopped := false
	flush := func(force bool) {
		if !deep {
			pending = pending[:0]
			return
		}
		for len(pending) >= chunkVals || (force && len(pending) > 0) {
			if stopped || r.Expired() {
				r.NotExhaustive("deadline during depth-4 trees")
				stopped = true
				pending = pending[:0]
				return
			}
			n := chunkVals
			if n > len(pending) {
				n = len(pending)
			}
			e.expand(pending[:n], func(int, []node) {})
			pending = append(pending[:0], pending[n:]...)
		}
	}
	addDepth3 := func(n node) {
		if !deep {
			return
		}
		if n.live {
			pending = append(pending, n)
		} else {
			r.Count("trees_dead_subtree", nops)
		}
	}

	// (a) op(x), x of depth 2
	var mineLive []node
	for idx := nl; idx < len(l1); idx++ {
		if !r.Mine(int64(idx)) {
			continue
		}
		if l1[idx].live {
			mineLive = append(mineLive, l1[idx])
		} else {
			r.Count("trees_dead_subtree", nops)
			if deep {
				r.Count("trees_dead_subtree", nops*nops)
			}
		}
	}
	for lo := 0; lo < len(mineLive) && !stopped; lo += chunkVals {
		if r.Expired() {
			r.NotExhaustive("deadline during depth-3 unary trees")
			stopped = true
			break
		}
		hi := lo + chunkVals
		if hi > len(mineLive) {
			hi = len(mineLive)
		}
		r.Case(int64(lo), "depth3 unary chunk")
		e.expand(mineLive[lo:hi], func(i int, children []node) {
			for j, c := range children {
				if (lo+i+j)%4099 == 0 && c.live {
					r.Sample(map[string]any{"expr": c.tree().Short(e.ls), "result": c.ref.String()})
				}
				addDepth3(c)
			}
		})
		flush(false)
	}
	flush(true)
	if !stopped {
		r.Section("depth3-unary")
		if deep {
			r.Section("depth4-over-unary")
		}
	}
	r.Logf("depth-3 unary done (shard 0: %d operands)", len(mineLive))

	// (b) [x, y], x and y of depth <= 2, not both leaves
	var liveB []node
	var liveBIdx []int
	for idx := range l1 {
		if l1[idx].live {
			liveB = append(liveB, l1[idx])
			liveBIdx = append(liveBIdx, idx)
		}
	}
	bvals := make([]any, len(liveB))
	for i := range liveB {
		bvals[i] = liveB[i].fq
	}
	extra := []Op{{K: oToBits}, {K: oToBytes}}
	extraDrv := driverText(extra)
	const aChunk = 8
	var mineA []int
	for idx := range l1 {
		if r.Mine(int64(idx)) {
			mineA = append(mineA, idx)
		}
	}
	for lo := 0; lo < len(mineA) && !stopped; lo += aChunk {
		if r.Expired() {
			r.NotExhaustive("deadline during depth-3 array trees")
			stopped = true
			break
		}
		hi := lo + aChunk
		if hi > len(mineA) {
			hi = len(mineA)
		}
		var as []node
		for _, ai := range mineA[lo:hi] {
			total := int64(len(l1))
			if ai < nl {
				total -= int64(nl) // [leaf, leaf] is a depth-2 tree
			}
			if !l1[ai].live {
				r.Count("trees_dead_subtree", total)
				if deep {
					r.Count("trees_dead_subtree", total*nops)
				}
				continue
			}
			dead := total - int64(len(liveB))
			if ai < nl {
				dead = 0
				for idx := nl; idx < len(l1); idx++ {
					if !l1[idx].live {
						dead++
					}
				}
			}
			r.Count("trees_dead_subtree", dead)
			if deep {
				r.Count("trees_dead_subtree", dead*nops)
			}
			as = append(as, l1[ai])
		}
		if len(as) == 0 {
			continue
		}
		avals := make([]any, len(as))
		for i := range as {
			avals[i] = as[i].fq
		}
		r.Case(int64(mineA[lo]), "depth3 pairs chunk")
		prs, err := e.evalPairs(avals, bvals)
		if err != nil {
			r.Violate("pairs-failed", err.Error()+" at "+as[0].tree().Short(e.ls), Case{Kind: "pairs", Seed: r.Seed})
			continue
		}
		var arrs []node
		for i, x := range as {
			xLeaf := x.tree().Leaf != nil
			for j, y := range liveB {
				if xLeaf && liveBIdx[j] < nl {
					continue
				}
				x, y := x, y
				ref := pair(x.ref, y.ref)
				n := e.compare(func() *Tree { return tPair(x.tree(), y.tree()) }, "[x,y]", ref, ref, result{ok: true, v: prs[i][j]}, mix(mix(7, x.key), y.key), mix(mix(7, x.key), y.key))
				if n.live {
					arrs = append(arrs, n)
				} else if deep {
					r.Count("trees_dead_subtree", nops)
				}
			}
		}
		if deep {
			for _, n := range arrs {
				pending = append(pending, n)
			}
			flush(false)
			continue
		}
		// quick tier: beyond the depth bound, every array tree is also observed
		// through tobits and tobytes (the concatenation itself)
		vals := make([]any, len(arrs))
		for i := range arrs {
			vals[i] = arrs[i].fq
		}
		res := e.evalOps(vals, extra, extraDrv, func(i int) *Tree { return arrs[i].tree() })
		e.beyond = true
		for i, row := range res {
			x := arrs[i]
			for j, rs := range row {
				op := extra[j]
				c := e.compare(func() *Tree { return tOp(op, x.tree()) }, opNames[op.K], x.ref, apply(op, x.ref), rs, mix(uint64(j)+1, x.key), 1)
				if (lo+i)%9973 == 0 && j == 0 && c.live {
					r.Sample(map[string]any{"expr": c.tree().Short(e.ls), "result": c.ref.String()})
				}
			}
		}
		e.beyond = false
	}
	flush(true)
	if !stopped {
		r.Section("depth3-arrays")
		if deep {
			r.Section("depth4-over-arrays")
		} else {
			r.Section("concat-observation")
		}
	}
	r.Logf("depth-3 arrays done")
}

// ---- split/concat law --------------------------------------------------------------------

// law checks [c[:k], c[k:]] | tobits against the reference and against fq's own
// c[0:] | tobits, for c = b.bits and b.bytes and every k in 0..length, on every
// binary valued tree of depth <= 2 (quick) — thorough adds the binaries of depth 3.
func (e *explorer) law(l1 []node) {
	r := e.r
	var bins []node
	for idx, n := range l1 {
		if n.live && n.ref.K == kBin && r.Mine(int64(idx)) {
			bins = append(bins, n)
		}
	}
	e.lawOn(bins)
	if r.Thorough() {
		var ops []node
		for idx := len(e.ls); idx < len(l1); idx++ {
			if l1[idx].live && r.Mine(int64(idx)) {
				ops = append(ops, l1[idx])
			}
		}
		quiet := &explorer{r: core.NewScratchRun(r), s: e.s, ls: e.ls, ops: e.ops, drv: e.drv, pre: e.pre, buf: e.buf}
		for lo := 0; lo < len(ops); lo += chunkVals {
			if r.Expired() {
				r.NotExhaustive("deadline during the split/concat law on depth-3 binaries")
				return
			}
			hi := lo + chunkVals
			if hi > len(ops) {
				hi = len(ops)
			}
			var bins3 []node
			quiet.expand(ops[lo:hi], func(i int, children []node) {
				for _, c := range children {
					if c.live && c.ref.K == kBin {
						bins3 = append(bins3, c)
					}
				}
			})
			e.lawOn(bins3)
		}
	}
	r.Section("split-concat-law")
}

func (e *explorer) lawOn(bins []node) {
	r := e.r
	const lawChunk = 32
	for lo := 0; lo < len(bins); lo += lawChunk {
		hi := lo + lawChunk
		if hi > len(bins) {
			hi = len(bins)
		}
		vals := make([]any, 0, hi-lo)
		for _, n := range bins[lo:hi] {
			vals = append(vals, n.fq)
		}
		outs, err := e.s.Eval(vals, lawText)
		rows, _ := func() ([]any, bool) {
			if err != nil || len(outs) != 1 {
				return nil, false
			}
			a, ok := outs[0].([]any)
			return a, ok
		}()
		if len(rows) != len(vals) {
			t := bins[lo].tree()
			r.Violate("law-eval-failed", fmt.Sprintf("split/concat driver failed near %s: %v", t.Short(e.ls), err), caseOf(e, t, "law"))
			continue
		}
		for i, row := range rows {
			b := bins[lo+i]
			units, _ := row.([]any)
			if len(units) != 2 {
				continue
			}
			for ui, uop := range []Op{{K: oBits}, {K: oBytes}} {
				c := apply(uop, b.ref)
				m, _ := units[ui].(map[string]any)
				splits, _ := m["split"].([]any)
				l := binLen(c)
				wholeRef := apply(Op{K: oToBits}, apply(Op{K: oSlice, A: ip(0)}, c))
				ctree := func() *Tree { return tOp(uop, b.tree()) }
				if len(splits) != l+1 {
					t := ctree()
					r.Violate("law:split-count:"+opNames[uop.K], fmt.Sprintf("%s: %d split points evaluated, reference length %d", t.Short(e.ls), len(splits), l), caseOf(e, t, "law"))
					continue
				}
				var wholeGot *Val
				if w, ok := m["whole"].([]any); ok && len(w) == 1 {
					wholeGot = observe(w[0])
				}
				for k := 0; k <= l; k++ {
					k := k
					ltree := func() *Tree {
						c := ctree()
						return tOp(Op{K: oToBits}, tPair(tOp(Op{K: oSlice, B: ip(k)}, c), tOp(Op{K: oSlice, A: ip(k)}, c)))
					}
					ref := apply(Op{K: oToBits}, pair(apply(Op{K: oSlice, B: ip(k)}, c), apply(Op{K: oSlice, A: ip(k)}, c)))
					if !equal(ref, wholeRef) {
						panic("c09: reference model violates the split/concat law")
					}
					r.Eval(1)
					r.Count("law_cases", 1)
					r.NontrivialHash(mix(mix(uint64(ui)+11, uint64(k)), b.key))
					var got *Val
					if w, ok := splits[k].([]any); ok && len(w) == 1 {
						got = observe(w[0])
					}
					switch {
					case got == nil:
						t := ltree()
						r.Violate("law:error:"+opNames[uop.K]+":"+operandClass(c), fmt.Sprintf("%s: reference: %s; fq: error", t.Short(e.ls), ref), caseOf(e, t, "law"))
					case !equal(ref, got):
						t := ltree()
						r.Violate("law:wrong-result:"+opNames[uop.K]+":"+operandClass(c)+":"+diff(ref, got), fmt.Sprintf("%s: reference: %s; fq: %s", t.Short(e.ls), ref, got), caseOf(e, t, "law"))
					case wholeGot == nil || !equal(wholeGot, got):
						t := ltree()
						r.Violate("law:split-differs-from-whole:"+opNames[uop.K]+":"+operandClass(c), fmt.Sprintf("%s: fq: %s but fq's unsplit value: %v", t.Short(e.ls), got, wholeGot), caseOf(e, t, "law"))
					}
				}
			}
		}
	}
}

// ---- three-way split law ------------------------------------------------------------------

// law3Grid lists the cut pairs (a, k), 0 <= a <= k <= l: all of them for short binaries,
// for longer ones every position near the start (two bytes) and the end (one byte).
func law3Grid(l int) [][2]int {
	var pos []int
	for p := 0; p <= l; p++ {
		if l <= 26 || p <= 17 || p >= l-9 {
			pos = append(pos, p)
		}
	}
	var g [][2]int
	for i, a := range pos {
		for _, k := range pos[i:] {
			g = append(g, [2]int{a, k})
		}
	}
	return g
}

// law3 cuts c = b.bits of every binary valued tree of depth <= 2 at every pair of
// positions of law3Grid and checks the flat and the nested concatenation of the three
// parts, observed as a bit string and through byte-unit indexing, against the reference.
func (e *explorer) law3(l1 []node) {
	r := e.r
	var bins []node
	for idx, n := range l1 {
		if n.live && n.ref.K == kBin && r.Mine(int64(idx)) {
			bins = append(bins, n)
		}
	}
	obsOps := [][]Op{{{K: oToBits}}, {{K: oToBytes}, {K: oExplode}}, {{K: oToBytes}, {K: oIndex, N: 0}}, {{K: oToBytes}, {K: oIndex, N: -1}}}
	const chunk = 8
	for lo := 0; lo < len(bins); lo += chunk {
		if r.Expired() {
			r.NotExhaustive("deadline during the three-way split law")
			return
		}
		hi := lo + chunk
		if hi > len(bins) {
			hi = len(bins)
		}
		vals := make([]any, 0, hi-lo)
		grids := make([][][2]int, 0, hi-lo)
		jgrids := make([]any, 0, hi-lo)
		for _, n := range bins[lo:hi] {
			vals = append(vals, n.fq)
			c := apply(Op{K: oBits}, n.ref)
			g := law3Grid(binLen(c))
			grids = append(grids, g)
			jg := make([]any, len(g))
			for i, ak := range g {
				jg[i] = []any{ak[0], ak[1]}
			}
			jgrids = append(jgrids, jg)
		}
		outs, err := e.s.Eval(map[string]any{"bins": vals, "grid": jgrids}, law3Text)
		var rows []any
		if err == nil && len(outs) == 1 {
			rows, _ = outs[0].([]any)
		}
		if len(rows) != len(vals) {
			t := bins[lo].tree()
			r.Violate("law3-eval-failed", fmt.Sprintf("three-way split driver failed near %s: %v", t.Short(e.ls), err), caseOf(e, t, "law"))
			continue
		}
		for i, row := range rows {
			b := bins[lo+i]
			c := apply(Op{K: oBits}, b.ref)
			cuts, _ := row.([]any)
			if len(cuts) != len(grids[i]) {
				t := b.tree()
				r.Violate("law3:cut-count", fmt.Sprintf("%s: %d cuts evaluated, %d expected", t.Short(e.ls), len(cuts), len(grids[i])), caseOf(e, t, "law"))
				continue
			}
			for ci, ak := range grids[i] {
				a, k := ak[0], ak[1]
				x := apply(Op{K: oSlice, B: ip(a)}, c)
				y := apply(Op{K: oSlice, A: ip(a), B: ip(k)}, c)
				z := apply(Op{K: oSlice, A: ip(k)}, c)
				refArr := pair(x, pair(y, z))
				forms, _ := cuts[ci].([]any)
				if len(forms) != 2 {
					continue
				}
				for oi, chain := range obsOps {
					ref := refArr
					for _, o := range chain {
						ref = apply(o, ref)
					}
					if ref.K == kUnmodelled {
						continue
					}
					r.Eval(2)
					r.Count("law3_cases", 2)
					r.NontrivialHash(mix(mix(mix(uint64(oi)+101, uint64(a)), uint64(k)), b.key))
					for fi, form := range forms {
						obs, _ := form.([]any)
						var got *Val
						if oi < len(obs) {
							if w, ok := obs[oi].([]any); ok && len(w) == 1 {
								got = observe(w[0])
							}
						}
						ltree := func() *Tree {
							ct := tOp(Op{K: oBits}, b.tree())
							t := tPair(tOp(Op{K: oSlice, B: ip(a)}, ct), tPair(tOp(Op{K: oSlice, A: ip(a), B: ip(k)}, ct), tOp(Op{K: oSlice, A: ip(k)}, ct)))
							for _, o := range chain {
								t = tOp(o, t)
							}
							return t
						}
						shape := []string{"flat", "nested"}[fi]
						name := opNames[chain[len(chain)-1].K]
						switch {
						case ref.K == kErr:
							if got != nil {
								t := ltree()
								r.Violate("law3:value-instead-of-error:"+name, fmt.Sprintf("%s (%s): reference: error; fq: %s", t.Short(e.ls), shape, got), caseOf(e, t, "law"))
							}
						case got == nil:
							t := ltree()
							r.Violate("law3:error:"+name+":"+operandClass(c), fmt.Sprintf("%s (%s): reference: %s; fq: error", t.Short(e.ls), shape, ref), caseOf(e, t, "law"))
						case !equal(ref, got):
							t := ltree()
							r.Violate("law3:wrong-result:"+name+":"+operandClass(c)+":"+diff(ref, got), fmt.Sprintf("%s (%s): reference: %s; fq: %s", t.Short(e.ls), shape, ref, got), caseOf(e, t, "law"))
						}
					}
				}
			}
		}
	}
	r.Section("three-way-split-law")
}

// ---- textual cross-check ----------------------------------------------------------------------

// textual evaluates complete program texts (what a user types): every tree of
// depth <= 2 and a deterministic 1/N stride of the depth-3 unary trees, each in
// one fresh evaluation, against the reference. It ties the layered evaluation
// (values handed back to fq through Go) to textual evaluation.
func (e *explorer) textual(l1 []node) {
	r := e.r
	var trees []*Tree
	for idx := range l1 {
		if r.Mine(int64(idx)) {
			trees = append(trees, l1[idx].tree())
		}
	}
	stride := core.Pick(r, 211, 53)
	for idx := len(e.ls); idx < len(l1); idx++ {
		if !r.Mine(int64(idx)) {
			continue
		}
		for j := range e.ops {
			if (idx*len(e.ops)+j)%stride == 0 {
				trees = append(trees, tOp(e.ops[j], l1[idx].tree()))
			}
		}
	}
	const per = 60
	for lo := 0; lo < len(trees); lo += per {
		if r.Expired() {
			r.NotExhaustive("deadline during the textual cross-check")
			return
		}
		hi := lo + per
		if hi > len(trees) {
			hi = len(trees)
		}
		e.textualBatch(trees[lo:hi])
	}
	r.Section("textual-crosscheck")
}

func (e *explorer) textualBatch(trees []*Tree) {
	parts := make([]string, len(trees))
	for i, t := range trees {
		parts[i] = "try [" + t.jq(e.ls) + "] catch null"
	}
	outs, err := e.s.Eval(nil, e.pre+"["+strings.Join(parts, ", ")+"]")
	var cols []any
	if err == nil && len(outs) == 1 {
		cols, _ = outs[0].([]any)
	}
	if len(cols) != len(trees) {
		if len(trees) > 1 {
			for i := range trees {
				e.textualBatch(trees[i : i+1])
			}
			return
		}
		t := trees[0]
		sig := "textual:eval-failed"
		if pe, ok := fqrun.IsPanic(err); ok {
			sig = "textual:panic:" + core.PanicSite(pe.Stack)
		}
		e.r.Violate(sig, fmt.Sprintf("%s: evaluation did not complete: %v", t.Short(e.ls), err), caseOf(e, t, "tree"))
		return
	}
	for i, t := range trees {
		ref := t.Ref(e.ls)
		e.r.Count("textual_cases", 1)
		if ref.K == kUnmodelled {
			continue
		}
		e.r.Eval(1)
		var got *Val
		if w, ok := cols[i].([]any); ok && len(w) == 1 {
			got = observe(w[0])
		}
		switch {
		case ref.K == kErr && got != nil:
			e.r.Violate("textual:value-instead-of-error:"+rootName(t), fmt.Sprintf("%s: reference: error; fq: %s", t.Short(e.ls), got), caseOf(e, t, "tree"))
		case ref.K != kErr && got == nil:
			e.r.Violate("textual:error-instead-of-value:"+rootName(t), fmt.Sprintf("%s: reference: %s; fq: error", t.Short(e.ls), ref), caseOf(e, t, "tree"))
		case ref.K != kErr && !equal(ref, got):
			e.r.Violate("textual:wrong-result:"+rootName(t)+":"+diff(ref, got), fmt.Sprintf("%s: reference: %s; fq: %s", t.Short(e.ls), ref, got), caseOf(e, t, "tree"))
		}
	}
}

func rootName(t *Tree) string {
	switch {
	case t.Leaf != nil:
		return "leaf"
	case t.Op != nil:
		return opNames[t.Op.K]
	}
	return "[x,y]"
}

// ---- replay ----------------------------------------------------------------------------------

func replay(r *core.Run, raw json.RawMessage) bool {
	var c Case
	if err := json.Unmarshal(raw, &c); err != nil {
		fmt.Println("bad case:", err)
		return false
	}
	ls, buf := leaves(c.Seed)
	if !c.Tree.valid() {
		fmt.Println("  case carries no expression tree (harness level failure); re-run the check")
		return false
	}
	s, err := fqrun.NewSession(nil)
	if err != nil {
		fmt.Println(err)
		return false
	}
	defer s.Close()
	text := c.Tree.JQ(ls, buf)
	ref := c.Tree.Ref(ls)
	fmt.Printf("  program:   %s\n  reference: %s\n", text, ref)
	outs, err := s.Eval(nil, text)
	if pe, ok := fqrun.IsPanic(err); ok {
		fmt.Printf("  fq:        go panic: %v\n", pe.Value)
		return true
	}
	if err != nil {
		fmt.Printf("  fq:        error: %v\n", err)
		return ref.K != kErr && ref.K != kUnmodelled
	}
	if len(outs) != 1 {
		fmt.Printf("  fq:        %d outputs\n", len(outs))
		return true
	}
	got := observe(outs[0])
	fmt.Printf("  fq:        %s\n", got)
	if ref.K == kUnmodelled {
		return false
	}
	return ref.K == kErr || !equal(ref, got)
}

// probe evaluates every line of a file as a jq program (development aid).
func probe(path string) {
	f, err := os.Open(path)
	if err != nil {
		fmt.Println(err)
		return
	}
	defer f.Close()
	s, err := fqrun.NewSession(nil)
	if err != nil {
		fmt.Println(err)
		return
	}
	sc := bufio.NewScanner(f)
	for sc.Scan() {
		l := sc.Text()
		if l == "" {
			continue
		}
		outs, err := s.Eval(nil, l)
		fmt.Printf("%s\n   => %v err=%v\n", l, outs, err)
	}
}
