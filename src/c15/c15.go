// Package c15 checks property C15: container decoders (gzip, zip, tar, png, gif,
// wav) report what independent writers stored, expose decompressed payloads equal
// to the originals, mark stored checksums of intact files valid and never give a
// clean all-valid result after a covered byte was altered.
//
// Writers are the Go standard library (compress/gzip, compress/flate,
// compress/zlib, archive/zip, archive/tar, image/png, image/gif) and small
// hand-written ones (writers.go). Every grid point of every section is generated,
// decoded through fq's jq interface (forced format and probe) by one compiled
// driver program per section, and the observation is compared with what was
// written. Fault enumeration: every single byte change (xor 0x01, xor 0x80) at
// every offset of every checksummed region / stored checksum of every generated
// file of at most 300 bytes.
package c15

import (
	"bytes"
	"encoding/hex"
	"encoding/json"
	"fmt"
	"math/big"
	"os"
	"sort"
	"strings"

	"github.com/wader/fq/internal/verif/core"
	"github.com/wader/fq/internal/verif/fqrun"
	"github.com/wader/fq/pkg/bitio"
	"github.com/wader/fq/pkg/interp"
)

var Check = core.Check{
	ID:     "C15",
	Level:  "fault_enumeration",
	Shards: 16,
	Run:    run,
	Replay: replay,
}

const faultMaxSize = 300

// region is a byte range of a generated file that takes part in the fault
// enumeration.
type region struct {
	Name  string
	Start int
	End   int
	// Kind: "covered" (a byte under a stored checksum), "stored" (the stored
	// checksum itself), "zlib" (png zTXt/iCCP zlib stream incl. adler32: the chunk
	// crc is recomputed after the change so that only the zlib layer can notice),
	// "isize" (gzip ISIZE, a length check and not a checksum).
	Kind string
	// Fix, when set, repairs outer checksums after the byte change.
	Fix func(b []byte)
	// Unvalidated names the stored checksum guarding the region when fq is known
	// (from its source) not to compute it; used only to name the signature.
	Checksum string
}

// mm is one mismatch between what was written and what fq reports.
type mm struct {
	Sig  string
	What string
}

type genFile struct {
	Desc    string
	Data    []byte
	Exp     any
	Zero    bool // zero member archive: a decode error is accepted
	Regions []region
	Spec    any
	Nontriv bool
	bad     bool // the intact file already violates: no fault enumeration on it
}

type section struct {
	name    string
	fqfmt   string
	prog    string
	fprog   string // lighter observation for the fault enumeration ("def fobs: ...;")
	newSpec func() any
	enum    func(r *core.Run, emit func(spec any))
	build   func(spec any) *genFile
	// check compares an observation of the intact file.
	check func(f *genFile, o map[string]any, probe bool) []mm
	// onError may classify a failed decode of an intact file (optional).
	onError func(f *genFile, o map[string]any, probe bool) []mm
	// claims renders the payload/name claims of an observation (fault oracle:
	// a clean all-valid tree is accepted only when it is truthful).
	truthful func(f *genFile, mut []byte, reg region, o map[string]any) (ok bool, why string)
}

var sections []*section

func register(s *section) { sections = append(sections, s) }

// Case is the replayable description of one evaluation.
type Case struct {
	Section string          `json:"section"`
	Spec    json.RawMessage `json:"spec"`
	Desc    string          `json:"desc"`
	Mode    string          `json:"mode"` // forced | probe | fault
	Off     int             `json:"off,omitempty"`
	Xor     int             `json:"xor,omitempty"`
	Region  string          `json:"region,omitempty"`
	Hex     string          `json:"hex,omitempty"`
	NP      int             `json:"payload_grid"` // size of the payload grid the member rotation used (7 quick, 9 thorough)
}

func shortHex(b []byte) string {
	if len(b) <= 400 {
		return hex.EncodeToString(b)
	}
	return hex.EncodeToString(b[:64]) + fmt.Sprintf("...(%d bytes)", len(b))
}

const jqCommon = `
def tb: if type == "null" then null else tobytes end;
def plain: if type == "null" then null elif type == "number" then . + 0 elif type == "string" then . + "" elif type == "boolean" then (. and true) else . end;
def act: if type == "null" then null else (._actual | plain) end;
def desc: if type == "null" then null else (._description | plain) end;
def errs: (._error | if type == "null" then null else (try (.error | tostring) catch "error") end);
def validity: [.. | select(type != "object" and type != "array" and type != "null") | (try (._description | plain) catch null) as $d | select($d == "valid" or $d == "invalid") | [(try (._path | map(tostring) | join(".")) catch "?"), $d]];
def nested: if type == "null" then null else {fmt: (try format catch null), bytes: tb} end;
`

type runner struct {
	r  *core.Run
	sx *section
	s  *fqrun.Session
}

func newRunner(r *core.Run, sx *section) *runner {
	s, err := fqrun.NewSession(nil)
	if err != nil {
		panic(err)
	}
	return &runner{r: r, sx: sx, s: s}
}

func (rn *runner) program(probe bool) string {
	if !probe && rn.sx.fprog != "" {
		return jqCommon + rn.sx.fprog + "\n.[] | [ (try (decode(\"" + rn.sx.fqfmt + "\") | fobs) catch {jqerr: tostring}) ]"
	}
	p := jqCommon + rn.sx.prog + "\n.[] | [ (try (decode(\"" + rn.sx.fqfmt + "\") | obs) catch {jqerr: tostring})"
	if probe {
		p += ", (try (decode(\"probe\") | obs) catch {jqerr: tostring})"
	}
	return p + " ]"
}

func toBinary(b []byte) interp.Binary {
	bin, err := interp.NewBinaryFromBitReader(bitio.NewBitReader(b, -1), 8, 0)
	if err != nil {
		panic(err)
	}
	return bin
}

// eval decodes the given files; result[i] = observations of file i (forced[,probe]).
// A Go panic escaping fq is isolated by re-running the batch one file at a time.
func (rn *runner) eval(files [][]byte, probe bool) [][]map[string]any {
	in := make([]any, len(files))
	for i, f := range files {
		in[i] = toBinary(f)
	}
	outs, err := rn.s.Eval(in, rn.program(probe))
	rn.r.Eval(int64(len(files) * core.Pick2(probe, 1, 2)))
	if err == nil && len(outs) == len(files) {
		res := make([][]map[string]any, len(files))
		for i, o := range outs {
			for _, x := range o.([]any) {
				m, _ := x.(map[string]any)
				res[i] = append(res[i], m)
			}
		}
		return res
	}
	if len(files) == 1 {
		msg := "no output"
		if err != nil {
			msg = err.Error()
		}
		key := "jqerr"
		if _, ok := fqrun.IsPanic(err); ok {
			key = "panic"
			// a fresh interpreter after a panic
			rn.s, _ = fqrun.NewSession(nil)
		}
		m := map[string]any{key: msg}
		if probe {
			return [][]map[string]any{{m, m}}
		}
		return [][]map[string]any{{m}}
	}
	if _, ok := fqrun.IsPanic(err); ok {
		rn.s, _ = fqrun.NewSession(nil)
	}
	var res [][]map[string]any
	for _, f := range files {
		res = append(res, rn.eval([][]byte{f}, probe)...)
	}
	return res
}

// ---- value helpers -------------------------------------------------------

func gi(v any) (int64, bool) {
	switch x := v.(type) {
	case int:
		return int64(x), true
	case int64:
		return x, true
	case float64:
		return int64(x), x == float64(int64(x))
	case *big.Int:
		return x.Int64(), x.IsInt64()
	}
	return 0, false
}

func gb(v any) ([]byte, bool) {
	switch x := v.(type) {
	case interp.Binary:
		s, ok := x.JQValueToGoJQ().(string)
		return []byte(s), ok
	case string:
		return []byte(x), true
	case []byte:
		return x, true
	}
	return nil, false
}

func gs(v any) (string, bool) { s, ok := v.(string); return s, ok }

func show(v any) string {
	switch x := v.(type) {
	case nil:
		return "null"
	case interp.Binary:
		b, _ := gb(x)
		return "bytes:" + shortB(b)
	case []byte:
		return "bytes:" + shortB(x)
	case string:
		if len(x) > 80 {
			return fmt.Sprintf("%q...(%d)", x[:60], len(x))
		}
		return fmt.Sprintf("%q", x)
	case map[string]any:
		ks := make([]string, 0, len(x))
		for k := range x {
			ks = append(ks, k)
		}
		sort.Strings(ks)
		var sb strings.Builder
		sb.WriteString("{")
		for i, k := range ks {
			if i > 0 {
				sb.WriteString(",")
			}
			sb.WriteString(k + ":" + show(x[k]))
		}
		sb.WriteString("}")
		return sb.String()
	case []any:
		var sb strings.Builder
		sb.WriteString("[")
		for i, e := range x {
			if i > 0 {
				sb.WriteString(",")
			}
			if i >= 12 {
				sb.WriteString(fmt.Sprintf("...(%d)", len(x)))
				break
			}
			sb.WriteString(show(e))
		}
		sb.WriteString("]")
		return sb.String()
	}
	return fmt.Sprintf("%v", v)
}

func shortB(b []byte) string {
	if len(b) <= 24 {
		return hex.EncodeToString(b)
	}
	return hex.EncodeToString(b[:16]) + fmt.Sprintf("...(%d bytes)", len(b))
}

// cmp collects mismatches of one observation.
type cmp struct {
	pre string // signature prefix, e.g. "gzip"
	ms  []mm
}

func (c *cmp) add(field, what string) {
	c.ms = append(c.ms, mm{Sig: c.pre + ":" + field, What: what})
}

func (c *cmp) num(field string, got any, want int64) {
	g, ok := gi(got)
	if !ok || g != want {
		c.add(field, fmt.Sprintf("%s: fq reports %s, written %d", field, show(got), want))
	}
}

func (c *cmp) str(field string, got any, want string) {
	g, ok := gs(got)
	if !ok || g != want {
		c.add(field, fmt.Sprintf("%s: fq reports %s, written %s", field, show(got), show(want)))
	}
}

func (c *cmp) boolean(field string, got any, want bool) {
	g, ok := got.(bool)
	if !ok || g != want {
		c.add(field, fmt.Sprintf("%s: fq reports %s, written %v", field, show(got), want))
	}
}

func (c *cmp) bytes(field string, got any, want []byte) {
	g, ok := gb(got)
	if !ok || !bytes.Equal(g, want) {
		c.add(field, fmt.Sprintf("%s: fq reports %s, written %s", field, show(got), show(want)))
	}
}

func (c *cmp) absent(field string, got any) {
	if got != nil {
		c.add(field, fmt.Sprintf("%s: fq reports %s, nothing was written", field, show(got)))
	}
}

// validity returns the (path, valid|invalid) pairs of an observation.
func validityOf(o map[string]any) (all [][2]string, invalid []string) {
	l, _ := o["validity"].([]any)
	for _, e := range l {
		p, _ := e.([]any)
		if len(p) != 2 {
			continue
		}
		a, _ := p[0].(string)
		b, _ := p[1].(string)
		all = append(all, [2]string{a, b})
		if b != "valid" {
			invalid = append(invalid, a)
		}
	}
	return
}

func obsError(o map[string]any) (string, bool) {
	if o == nil {
		return "no observation", true
	}
	for _, k := range []string{"jqerr", "panic", "err"} {
		if v, ok := o[k]; ok && v != nil {
			return k + ": " + fmt.Sprint(v), true
		}
	}
	return "", false
}

// ---- run -----------------------------------------------------------------

func only(name string) bool {
	o := os.Getenv("VERIF_ONLY")
	if o == "" {
		return true
	}
	for _, s := range strings.Split(o, ",") {
		if s == name {
			return true
		}
	}
	return false
}

func run(r *core.Run) {
	r.Rule("one evaluation = one fq decode (jq decode(\"<format>\") or decode(\"probe\")) of one generated or corrupted file plus the extraction of the compared fields; " +
		"an intact file is non-trivial when it has at least one member/chunk with a non-empty payload or an optional header field; a corruption is non-trivial always (distinct key = file + offset + xor mask)")
	r.Assume("no bzip2 writer is available offline (Go's compress/bzip2 only decompresses): bzip2 is NOT covered by this check, only by the repository's own sample files")
	r.Assume("writers are trusted: Go standard library compress/gzip, compress/flate, compress/zlib, archive/zip (CreateHeader and CreateRaw), archive/tar, image/png, image/gif, hash/crc32, hash/adler32; the hand-written gzip header, png chunk, zip64 and wav writers are cross-checked once per run against the standard library readers where one exists")
	r.Assume("multi member archives: member i of a grid point (name n, payload p) gets name (n+i) mod |names| and payload (p+i) mod |payloads|, so the product member count x name x payload x writer configuration is complete while names stay distinct inside one archive")
	r.Assume("gzip ISIZE is a length, not a checksum: a changed ISIZE that fq reports as stored (unvalidated, gzip.go 'TODO: verify isize?') is counted in isize_reported_as_stored and is not a violation")
	r.Extra("fault_rule", fmt.Sprintf("files of at most %d bytes; every offset of every checksummed region and stored checksum; masks 0x01 and 0x80; accepted: decode error, at least one invalid checksum, or a truthful clean tree (the independent recomputation of the stored checksum over the payload fq exposes matches, which can only happen when the byte did not reach the payload, e.g. deflate padding bits)", faultMaxSize))
	if r.Thorough() {
		extendPayloads()
		r.Extra("thorough_extra", "payload grid extended by 1 MiB constant and 1 MiB LCG noise; zip64 form with the full name x payload grid")
	}
	selfTest(r)
	var idx int64
	// cheap sections first so that a short deadline still covers every format
	order := map[string]int{"wav": 0, "gif": 1, "tar": 2, "zip": 3, "png": 4, "gzip": 5}
	sort.SliceStable(sections, func(i, j int) bool { return order[sections[i].name] < order[sections[j].name] })
	for _, sx := range sections {
		if !only(sx.name) {
			r.NotExhaustive("VERIF_ONLY excludes section " + sx.name)
			continue
		}
		if !runSection(r, sx, &idx) {
			return
		}
	}
}

// runSection returns false when the deadline expired.
func runSection(r *core.Run, sx *section, idx *int64) bool {
	rn := newRunner(r, sx)
	defer func() { rn.s.Close() }()
	var batch []*genFile
	var batchBytes int
	expired := false
	flush := func() {
		if len(batch) == 0 {
			return
		}
		rn.intact(batch)
		for _, f := range batch {
			if r.Expired() {
				expired = true
				break
			}
			rn.faults(f)
		}
		batch, batchBytes = nil, 0
	}
	n := int64(0)
	sx.enum(r, func(spec any) {
		i := *idx
		*idx++
		n++
		if expired || !r.Mine(i) {
			return
		}
		if r.Expired() {
			expired = true
			return
		}
		f := sx.build(spec)
		if f == nil {
			r.Count(sx.name+"_writer_refused", 1)
			return
		}
		f.Spec = spec
		r.Case(i, sx.name+" "+f.Desc)
		batch = append(batch, f)
		batchBytes += len(f.Data)
		if len(batch) >= 64 || batchBytes > 2<<20 {
			flush()
		}
	})
	if !expired {
		flush()
	}
	if r.ShardIdx == 0 {
		r.Extra("grid_"+sx.name, n)
	}
	if expired {
		r.NotExhaustive("deadline reached in section " + sx.name)
		return false
	}
	r.Section(sx.name)
	return true
}

func (rn *runner) caseOf(f *genFile, mode string) Case {
	sp, _ := json.Marshal(f.Spec)
	return Case{Section: rn.sx.name, Spec: sp, Desc: f.Desc, Mode: mode, Hex: shortHex(f.Data), NP: len(payloads)}
}

func (rn *runner) intact(batch []*genFile) {
	r, sx := rn.r, rn.sx
	files := make([][]byte, len(batch))
	for i, f := range batch {
		files[i] = f.Data
	}
	res := rn.eval(files, true)
	for i, f := range batch {
		r.Count(sx.name+"_files", 1)
		if f.Nontriv {
			r.Nontrivial(sx.name + "|" + f.Desc)
		}
		if i == 0 && r.ShardIdx < 2 {
			r.Sample(map[string]any{"section": sx.name, "file": f.Desc, "size": len(f.Data), "observation": trimShow(show(res[i][0]), 600)})
		}
		forcedSig := ""
		for k, mode := range []string{"forced", "probe"} {
			o := res[i][k]
			if msg, isErr := obsError(o); isErr {
				if k == 1 && forcedSig != "" {
					// same root cause as the forced decode of this file: the decoder fails, so no format is recognised
					r.Violate(forcedSig, fmt.Sprintf("%s file %s: probe does not recognise the file (same cause as the forced decode)", sx.name, f.Desc), rn.caseOf(f, mode))
					continue
				}
				if f.Zero {
					r.Count(sx.name+"_zero_member_decode_error_"+mode, 1)
					continue
				}
				if _, ok := o["panic"]; ok {
					r.Violate(sx.name+":panic:"+mode, fmt.Sprintf("%s file %s (%d bytes, %s): fq panics: %s", sx.name, f.Desc, len(f.Data), mode, msg), rn.caseOf(f, mode))
					continue
				}
				f.bad = true
				if sx.onError != nil {
					ms := sx.onError(f, o, k == 1)
					// the section classified the error (root cause visible in the partial tree)
					for _, m := range ms {
						if k == 0 && forcedSig == "" {
							forcedSig = m.Sig
						}
						r.Violate(m.Sig, fmt.Sprintf("%s file %s (%d bytes, %s decode): %s", sx.name, f.Desc, len(f.Data), mode, m.What), rn.caseOf(f, mode))
					}
					if len(ms) > 0 {
						continue
					}
				}
				r.Violate(sx.name+":intact-file-decode-error:"+mode, fmt.Sprintf("%s file %s (%d bytes): %s decode of an intact file fails: %s", sx.name, f.Desc, len(f.Data), mode, msg), rn.caseOf(f, mode))
				continue
			}
			if f.Zero {
				r.Count(sx.name+"_zero_member_decoded_"+mode, 1)
			}
			if k == 1 {
				if g, _ := gs(o["fmt"]); g != sx.fqfmt && forcedSig != "" {
					r.Violate(forcedSig, fmt.Sprintf("%s file %s: probe does not recognise the file (same cause as the forced decode)", sx.name, f.Desc), rn.caseOf(f, mode))
					continue
				} else if g != sx.fqfmt {
					r.Violate(sx.name+":probe-format", fmt.Sprintf("%s file %s (%d bytes): probe decodes it as %s", sx.name, f.Desc, len(f.Data), show(o["fmt"])), rn.caseOf(f, mode))
					continue
				}
			}
			ms := sx.check(f, o, k == 1)
			if len(ms) == 0 {
				_, inv := validityOf(o)
				for _, p := range inv {
					ms = append(ms, mm{Sig: sx.name + ":intact-checksum-invalid:" + stripIdx(p), What: "checksum/assert field " + p + " of an intact file says invalid"})
				}
			}
			for _, m := range ms {
				f.bad = true
				if k == 0 && forcedSig == "" {
					forcedSig = m.Sig
				}
				r.Violate(m.Sig, fmt.Sprintf("%s file %s (%d bytes, %s decode): %s", sx.name, f.Desc, len(f.Data), mode, m.What), rn.caseOf(f, mode))
			}
		}
	}
}

func trimShow(s string, n int) string {
	if len(s) > n {
		return s[:n] + "..."
	}
	return s
}

// stripIdx removes array indexes from a path (signature folding).
func stripIdx(p string) string {
	parts := strings.Split(p, ".")
	out := parts[:0]
	for _, s := range parts {
		if s == "" {
			continue
		}
		if s[0] >= '0' && s[0] <= '9' {
			continue
		}
		out = append(out, s)
	}
	return strings.Join(out, ".")
}

// faults enumerates every single byte change of every region of a small file.
func (rn *runner) faults(f *genFile) {
	r, sx := rn.r, rn.sx
	if len(f.Data) > faultMaxSize || len(f.Regions) == 0 || f.Zero {
		return
	}
	if f.bad {
		r.Count(sx.name+"_fault_files_skipped_intact_already_violates", 1)
		return
	}
	type fc struct {
		reg region
		off int
		x   byte
	}
	var cases []fc
	var files [][]byte
	seen := map[[2]int]bool{}
	for _, reg := range f.Regions {
		for off := reg.Start; off < reg.End; off++ {
			for _, x := range []byte{0x01, 0x80} {
				k := [2]int{off, int(x)}
				if reg.Fix == nil {
					if seen[k] {
						continue
					}
					seen[k] = true
				}
				m := append([]byte{}, f.Data...)
				m[off] ^= x
				if reg.Fix != nil {
					reg.Fix(m)
				}
				cases = append(cases, fc{reg, off, x})
				files = append(files, m)
			}
		}
	}
	r.Count(sx.name+"_fault_files", 1)
	res := rn.eval(files, false)
	for i, c := range cases {
		o := res[i][0]
		r.Count(sx.name+"_faults", 1)
		r.Count("faults_"+c.reg.Kind, 1)
		r.Nontrivial(fmt.Sprintf("%s|%s|%d|%d|%s", sx.name, f.Desc, c.off, c.x, c.reg.Name))
		mkCase := func() Case {
			cs := rn.caseOf(f, "fault")
			cs.Off, cs.Xor, cs.Region = c.off, int(c.x), c.reg.Name
			return cs
		}
		if _, isErr := obsError(o); isErr {
			if _, ok := o["panic"]; ok {
				r.Count("fault_outcome_panic", 1)
			} else {
				r.Count("fault_outcome_decode_error", 1)
			}
			continue
		}
		if _, inv := validityOf(o); len(inv) > 0 {
			r.Count("fault_outcome_invalid_checksum", 1)
			continue
		}
		ok, why := sx.truthful(f, files[i], c.reg, o)
		if ok {
			r.Count("fault_outcome_"+why, 1)
			continue
		}
		sig := sx.name + ":corruption-undetected:" + c.reg.Kind + ":" + c.reg.Name
		if c.reg.Checksum != "" {
			sig = sx.name + ":unvalidated-checksum:" + c.reg.Checksum + ":clean-result-after-corruption"
		}
		r.Violate(sig, fmt.Sprintf("%s file %s (%d bytes): byte at offset %d (%s, %s) xor 0x%02x gives a clean tree without any invalid checksum: %s; file %s",
			sx.name, f.Desc, len(f.Data), c.off, c.reg.Name, c.reg.Kind, c.x, why, shortHex(files[i])), mkCase())
	}
}

// ---- replay --------------------------------------------------------------

func replay(r *core.Run, raw json.RawMessage) bool {
	var c Case
	if err := json.Unmarshal(raw, &c); err != nil {
		fmt.Println("bad case:", err)
		return false
	}
	var sx *section
	for _, s := range sections {
		if s.name == c.Section {
			sx = s
		}
	}
	if sx == nil {
		fmt.Println("unknown section", c.Section)
		return false
	}
	if c.NP > 7 {
		extendPayloads()
	}
	spec := sx.newSpec()
	if err := json.Unmarshal(c.Spec, spec); err != nil {
		fmt.Println("bad spec:", err)
		return false
	}
	f := sx.build(spec)
	if f == nil {
		fmt.Println("writer refuses the spec")
		return false
	}
	f.Spec = spec
	sr := core.NewScratchRun(r)
	rn := newRunner(sr, sx)
	defer rn.s.Close()
	fmt.Printf("  section %s file %s (%d bytes) %s\n  written: %s\n", sx.name, f.Desc, len(f.Data), shortHex(f.Data), trimShow(fmt.Sprintf("%+v", f.Exp), 1500))
	if c.Mode == "fault" {
		var reg *region
		for i := range f.Regions {
			if f.Regions[i].Name == c.Region && c.Off >= f.Regions[i].Start && c.Off < f.Regions[i].End {
				reg = &f.Regions[i]
			}
		}
		if reg == nil {
			fmt.Println("region not found")
			return false
		}
		m := append([]byte{}, f.Data...)
		m[c.Off] ^= byte(c.Xor)
		if reg.Fix != nil {
			reg.Fix(m)
		}
		o := rn.eval([][]byte{m}, false)[0][0]
		fmt.Printf("  corrupted: offset %d xor 0x%02x region %s (%s): %s\n  fq observation: %s\n", c.Off, c.Xor, reg.Name, reg.Kind, shortHex(m), trimShow(show(o), 3000))
		if _, isErr := obsError(o); isErr {
			return false
		}
		if _, inv := validityOf(o); len(inv) > 0 {
			fmt.Println("  invalid:", inv)
			return false
		}
		ok, why := sx.truthful(f, m, *reg, o)
		fmt.Println("  clean tree:", why)
		return !ok
	}
	rn.intact([]*genFile{f})
	res := rn.eval([][]byte{f.Data}, true)[0]
	fmt.Printf("  fq forced observation: %s\n  fq probe observation: %s\n", trimShow(show(res[0]), 3000), trimShow(show(res[1]), 3000))
	for _, v := range sr.Violations() {
		fmt.Printf("  %s: %s\n", v.Signature, v.What)
	}
	return len(sr.Violations()) > 0
}
