#!/bin/bash
# tools/seedcheck.sh <seed-id> <property> <demo-pkg-dir> [check-tier]
# Confirms a seeded change in a scratch worktree of /repo (outside /repo and /verif):
#  1. patch applies, tree builds, full pinned suite passes WITH the patch
#  2. demo test FAILS with the patch, PASSES without it
#  3. ./check <property> (against the patched worktree via VERIF_REPO) reports VIOLATION
# Writes /verif/seeded/<seed-id>/meta.json fields "confirmed" and "detected".
set -u
ID=$1; PROP=$2; PKG=$3; TIER=${4:-quick}
S=/verif/seeded/$ID
WT=/tmp/seedwt-$ID-${PHASE:-all}
export GOFLAGS=-mod=mod GOPROXY=off GOSUMDB=off GOTOOLCHAIN=local GOCACHE=/verif/.cache/go-build
git -C /repo worktree remove --force $WT 2>/dev/null
git -C /repo worktree add -q --detach $WT HEAD || exit 2
cleanup() { git -C /repo worktree remove --force $WT 2>/dev/null; rm -rf $WT; }
trap cleanup EXIT
cd $WT
git apply $S/patch.diff || { echo "PATCH DOES NOT APPLY"; exit 2; }
suite=fail; demo_with=unknown; demo_without=unknown; detected=no
PHASE=${PHASE:-all}   # all | confirm (suite + demo only) | check (check only, keeps earlier confirm results)
if [ "$PHASE" = check ]; then
  ( cd /verif && VERIF_REPO=$WT ./check $PROP --tier $TIER >$S/check.log 2>&1 ); rc=$?
  if grep -q "^VIOLATION property=$PROP" $S/check.log; then detected=yes; fi
  grep -A1 "^VIOLATION" $S/check.log | head -6
  echo "seed=$ID property=$PROP check_rc=$rc detected=$detected"
  python3 - <<EOP
import json,os
p=os.path.join("$S",'meta.json'); m=json.load(open(p)) if os.path.exists(p) else {}
m.update({"detected_by_check": "$detected"=="yes", "check_tier": "$TIER"})
json.dump(m,open(p,'w'),indent=1)
EOP
  exit 0
fi
if go build ./... 2>$S/build.log; then
  if go test -vet=off -count=1 -timeout 25m ./... >$S/suite.log 2>&1; then suite=pass; else
    # the completion test has a 10 s wall-clock budget and flakes under load: re-run failing packages once
    pk=$(grep "^FAIL[[:space:]]github" $S/suite.log | awk '{print $2}' | sed 's|github.com/wader/fq|.|')
    if [ -n "$pk" ] && go test -vet=off -count=1 -timeout 25m $pk >>$S/suite.log 2>&1; then suite=pass; fi
  fi
fi
grep -E "^(FAIL|---)" $S/suite.log | head -5
cp $S/demo_test.go $WT/$PKG/zz_seed_demo_test.go
if go test -vet=off -count=1 -run 'TestSeed' ./$PKG/ >$S/demo_with.log 2>&1; then demo_with=pass; else demo_with=fail; fi
# check against patched tree
rc=skipped
if [ "$PHASE" != confirm ]; then ( cd /verif && VERIF_REPO=$WT ./check $PROP --tier $TIER >$S/check.log 2>&1 ); rc=$?; fi
if [ -f $S/check.log ] && grep -q "^VIOLATION property=$PROP" $S/check.log; then detected=yes; fi
grep -A1 "^VIOLATION" $S/check.log | head -6
# without the patch
git apply -R $S/patch.diff
if go test -vet=off -count=1 -run 'TestSeed' ./$PKG/ >$S/demo_without.log 2>&1; then demo_without=pass; else demo_without=fail; fi
rm -f $S/build.log
echo "seed=$ID property=$PROP suite_with_patch=$suite demo_with_patch=$demo_with demo_without_patch=$demo_without check_rc=$rc detected=$detected"
python3 - "$S" "$ID" "$PROP" "$suite" "$demo_with" "$demo_without" "$detected" "$TIER" <<'EOF'
import json,sys,os
S,ID,PROP,suite,dw,dwo,det,tier=sys.argv[1:]
p=os.path.join(S,'meta.json')
m=json.load(open(p)) if os.path.exists(p) else {}
m.update({"id":ID,"property":PROP,"suite_with_patch":suite,"demo_with_patch":dw,"demo_without_patch":dwo,
 "confirmed": suite=="pass" and dw=="fail" and dwo=="pass", "detected_by_check":det=="yes","check_tier":tier,
 "ran":["git worktree add /tmp/seedwt-%s HEAD; git apply patch.diff"%ID,"go test -vet=off -count=1 ./... (with patch)","go test -run TestSeed ./<pkg>/ (with and without patch)","VERIF_REPO=<worktree> ./check %s --tier %s"%(PROP,tier)]})
json.dump(m,open(p,'w'),indent=1)
EOF
