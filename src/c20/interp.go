package c20

import (
	"bytes"
	"context"
	"fmt"
	"io"
	"io/fs"
	"strings"
	"sync"
	"testing/fstest"
	"time"

	_ "github.com/wader/fq/format/all"
	"github.com/wader/fq/internal/verif/core"
	"github.com/wader/fq/pkg/interp"
)

// Interpreter level: a REPL session (fq -n -i) with nested REPL levels. The stdout
// writer is the environment: at the k-th write of the line under test it delivers
// an interrupt exactly as cli.go does (a token on InterruptChan) and lets the
// interrupt goroutine act. Oracle: no write of the interrupted line reaches stdout
// afterwards, the same REPL level then runs the next line (enclosing evaluations
// keep their contexts), and the session ends normally.

type replOS struct {
	lines       []string
	interruptCh chan struct{}
	wait        time.Duration

	mu          sync.Mutex
	stdout      bytes.Buffer
	stderr      bytes.Buffer
	armed       bool // the line under test is running
	writes      int  // writes of the line under test
	fireAt      int
	interrupted bool
	writesAfter int
	bytesAfter  int
	lineIdx     int
	testLine    int

	// command line mode (no REPL): args of the run, stdout not a terminal (raw output), files
	cliArgs []string
	files   fstest.MapFS

	// blocked reads (blocked.go): a file system with the file under test, a stdin that is not a
	// terminal, and a channel closed when the REPL asks for the line after the line under test
	fsys      fs.FS
	stdin     interp.Input
	afterTest chan struct{}
}

type replOut struct{ o *replOS }

func (w replOut) Size() (int, int) { return 130, 25 }
func (w replOut) IsTerminal() bool { return w.o.cliArgs == nil }
func (w replOut) Write(p []byte) (int, error) {
	o := w.o
	o.mu.Lock()
	defer o.mu.Unlock()
	o.stdout.Write(p)
	if !o.armed {
		return len(p), nil
	}
	if o.interrupted {
		o.writesAfter++
		o.bytesAfter += len(p)
		return len(p), nil
	}
	o.writes++
	if o.writes == o.fireAt {
		o.interrupted = true
		o.interruptCh <- struct{}{} // unbuffered: returns when the interrupt goroutine took it
		time.Sleep(o.wait)          // let it cancel (microseconds needed)
	}
	return len(p), nil
}

type replErr struct{ w io.Writer }

func (replErr) Size() (int, int)              { return 130, 25 }
func (replErr) IsTerminal() bool              { return false }
func (e replErr) Write(p []byte) (int, error) { return e.w.Write(p) }

type replIn struct{ interp.FileReader }

func (replIn) Size() (int, int) { return 130, 25 }
func (replIn) IsTerminal() bool { return true }

func (o *replOS) Platform() interp.Platform {
	return interp.Platform{OS: "testos", Arch: "testarch", GoVersion: "testgo"}
}
func (o *replOS) Stdin() interp.Input {
	if o.stdin != nil {
		return o.stdin
	}
	return replIn{interp.FileReader{R: &bytes.Buffer{}}}
}
func (o *replOS) Stdout() interp.Output        { return replOut{o} }
func (o *replOS) Stderr() interp.Output        { return replErr{&o.stderr} }
func (o *replOS) InterruptChan() chan struct{} { return o.interruptCh }
func (o *replOS) Args() []string {
	if o.cliArgs != nil {
		return append([]string{"fq"}, o.cliArgs...)
	}
	return []string{"fq", "-n", "-i"}
}
func (o *replOS) Environ() []string {
	return []string{"NO_COLOR=1", "NO_DECODE_PROGRESS=1", "CONFIG_DIR=/config"}
}
func (o *replOS) ConfigDir() (string, error) { return "/config", nil }
func (o *replOS) FS() fs.FS {
	if o.fsys != nil {
		return o.fsys
	}
	if o.files != nil {
		return o.files
	}
	return fstest.MapFS{}
}
func (o *replOS) History() ([]string, error) { return nil, nil }
func (o *replOS) Readline(opts interp.ReadlineOpts) (string, error) {
	o.mu.Lock()
	defer o.mu.Unlock()
	o.armed = false
	if o.afterTest != nil && o.lineIdx > o.testLine {
		close(o.afterTest)
		o.afterTest = nil
	}
	if o.lineIdx >= len(o.lines) {
		return "", io.EOF
	}
	l := o.lines[o.lineIdx]
	if o.lineIdx == o.testLine {
		o.armed = true
	}
	o.lineIdx++
	return l, nil
}

type ReplCase struct {
	Kind   string   `json:"kind"`
	Prefix []string `json:"prefix,omitempty"` // lines evaluated at the same level before the line under test
	Depth  int      `json:"depth"`
	Prog   string   `json:"prog"`
	FireAt int      `json:"fire_at"`
	WaitMs int      `json:"wait_ms"`
}

type replObs struct {
	interrupted bool
	writesAfter int
	bytesAfter  int
	nextRan     bool
	outerRan    bool
	timedOut    bool
	err         error
	writes      int
}

func runRepl(c ReplCase) replObs {
	// depth 1: top REPL; depth d: d-1 nested `repl` calls before the line under test
	var lines []string
	for i := 1; i < c.Depth; i++ {
		lines = append(lines, fmt.Sprintf("%d | repl", i))
	}
	lines = append(lines, c.Prefix...)
	test := len(lines)
	lines = append(lines, c.Prog, `"next-line-ran"`)
	for i := 1; i < c.Depth; i++ {
		lines = append(lines, "^D")
	}
	// ^D is io.EOF per level: model by returning EOF: use a marker handled below
	o := &replOS{interruptCh: make(chan struct{}), wait: time.Duration(c.WaitMs) * time.Millisecond, fireAt: c.FireAt, testLine: test}
	// translate ^D markers: Readline returns EOF when the line is "^D"
	o.lines = lines
	var obs replObs
	i, err := interp.New(&eofOS{o}, interp.DefaultRegistry)
	if err != nil {
		obs.err = err
		return obs
	}
	defer i.Stop()
	done := make(chan error, 1)
	go func() {
		var e error
		pv, _ := core.Protect(func() { e = i.Main(context.Background(), o.Stdout(), "testversion") })
		if pv != nil {
			e = fmt.Errorf("panic: %v", pv)
		}
		done <- e
	}()
	select {
	case obs.err = <-done:
	case <-time.After(120 * time.Second):
		obs.timedOut = true
		return obs
	}
	o.mu.Lock()
	defer o.mu.Unlock()
	obs.interrupted = o.interrupted
	obs.writesAfter, obs.bytesAfter, obs.writes = o.writesAfter, o.bytesAfter, o.writes
	out := o.stdout.String()
	obs.nextRan = strings.Contains(out, "next-line-ran")
	obs.outerRan = true
	if c.Depth > 1 {
		obs.outerRan = strings.Contains(out, "outer-level-ran")
	}
	return obs
}

// eofOS maps the line "^D" to io.EOF (leaves one REPL level) and appends a probe
// line for the outer level.
type eofOS struct{ *replOS }

func (e *eofOS) Readline(opts interp.ReadlineOpts) (string, error) {
	l, err := e.replOS.Readline(opts)
	if err != nil {
		return l, err
	}
	if l == "^D" {
		// after leaving the inner level, the outer level evaluates one more line
		e.replOS.mu.Lock()
		e.replOS.lines = append(e.replOS.lines[:e.replOS.lineIdx], append([]string{`"outer-level-ran"`}, e.replOS.lines[e.replOS.lineIdx:]...)...)
		e.replOS.mu.Unlock()
		return "", io.EOF
	}
	return l, nil
}

func replInterrupts(r *core.Run) {
	progs := []string{
		`[range(100000;103000)]`,                      // one large value: many writes inside a single output call
		`range(2000) | tostring`,                      // many small outputs
		`[range(3000)] | tobytes | dd`,                // hexdump of a binary
		`"abc" | tobytes | repeat(.) | limit(2000;.)`, // generator
	}
	depths := []int{1, 2, 3}
	fires := core.Pick(r, []int{1, 2, 5, 9}, []int{1, 2, 3, 5, 9, 17, 33})
	var n int64
	idx := int64(0)
	for _, d := range depths {
		for _, p := range progs {
			for _, k := range fires {
				idx++
				if r.ShardN > 1 && idx%int64(r.ShardN-1) != int64(r.ShardIdx-1) {
					continue
				}
				if r.Expired() {
					r.NotExhaustive("deadline in REPL interrupt enumeration")
					return
				}
				c := ReplCase{Kind: "repl", Depth: d, Prog: p, FireAt: k, WaitMs: 150}
				obs := runRepl(c)
				n++
				if bad := judgeRepl(c, obs); bad != "" {
					// classify before believing: repeat with a 10x longer settle time
					c2 := c
					c2.WaitMs = 1500
					obs2 := runRepl(c2)
					if bad2 := judgeRepl(c2, obs2); bad2 != "" {
						r.Violate("repl:"+strings.SplitN(bad2, ":", 2)[0], fmt.Sprintf("REPL depth %d line %q interrupt at write %d: %s", d, p, k, bad2), c2)
					} else {
						r.Inconclusive(fmt.Sprintf("REPL depth %d %q write %d: %s with 150ms settle time only", d, p, k, bad))
					}
				}
				if obs.interrupted {
					r.Nontrivial(fmt.Sprintf("repl:%d:%s:%d", d, p, k))
				}
			}
		}
	}
	r.Eval(n)
	r.AddTransitions(n)
	r.AddTraces(n)
	r.Sample(map[string]any{"repl_case": ReplCase{Kind: "repl", Depth: 2, Prog: progs[0], FireAt: 2, WaitMs: 150}})
	r.Section("repl-interrupt-during-output")
}

// replHistories: evaluation histories. Lines that end in every way an evaluation can
// end (values, runtime error, nested evaluation that finishes / fails and is caught /
// is abandoned by first() or limit()) are run before, and as a silent prelude inside,
// the line under test; the interrupt is delivered at the k-th write of the line under
// test, all of whose output comes from the line's own (outermost running) evaluation.
// Whatever happened before, the interrupt has to cancel that evaluation.
var replPrefixLines = []string{
	`1`,
	`error("x")`,
	`eval("1")`,
	`try eval("error(1)") catch .`,
	`first(eval("1,2"))`,
	`[limit(1; eval("range(10)"))]`,
	`try eval("1, error(2)") catch .`,
	`eval("eval(\"1\")")`,
}

var replPreludes = []string{
	``,
	`(try eval("error(1)") catch empty), `,
	`(first(eval("1,2")) | empty), `,
	`(eval("empty")), `,
	`(try error("x") catch empty), `,
	`([eval("1,2,3")] | empty), `,
	`(try eval("eval(\"error(1)\")") catch empty), `,
	`([limit(2; eval("range(10)"))] | empty), `,
}

func replHistories(r *core.Run) {
	var prefixes [][]string
	prefixes = append(prefixes, nil)
	for _, a := range replPrefixLines {
		prefixes = append(prefixes, []string{a})
	}
	if r.Thorough() {
		for _, a := range replPrefixLines {
			for _, b := range replPrefixLines {
				prefixes = append(prefixes, []string{a, b})
			}
		}
	}
	depths := []int{1, 2}
	fires := core.Pick(r, []int{1, 7}, []int{1, 2, 7, 19})
	var n int64
	idx := int64(0)
	for _, d := range depths {
		for _, pf := range prefixes {
			for _, pre := range replPreludes {
				for _, k := range fires {
					idx++
					if r.ShardN > 1 && idx%int64(r.ShardN-1) != int64(r.ShardIdx-1) {
						continue
					}
					if r.Expired() {
						r.NotExhaustive("deadline in REPL history enumeration")
						return
					}
					c := ReplCase{Kind: "repl-history", Prefix: pf, Depth: d, Prog: pre + `(range(3000) | tostring)`, FireAt: k, WaitMs: 150}
					obs := runRepl(c)
					n++
					if bad := judgeRepl(c, obs); bad != "" {
						c2 := c
						c2.WaitMs = 1500
						obs2 := runRepl(c2)
						if bad2 := judgeRepl(c2, obs2); bad2 != "" {
							// signature: how the earlier evaluation ended, not the whole history
							last := pre
							if last == "" && len(pf) > 0 {
								last = "line:" + pf[len(pf)-1]
							}
							r.Violate("repl-history:"+strings.SplitN(bad2, ":", 2)[0]+":after:"+last,
								fmt.Sprintf("REPL depth %d, earlier lines %q, line %q, interrupt at write %d: %s", d, pf, c.Prog, k, bad2), c2)
						} else {
							r.Inconclusive(fmt.Sprintf("REPL history depth %d %q %q write %d: %s with 150ms settle time only", d, pf, c.Prog, k, bad))
						}
					}
					if obs.interrupted && (len(pf) > 0 || pre != "") {
						r.Nontrivial(fmt.Sprintf("repl-history:%d:%v:%s:%d", d, pf, pre, k))
					}
				}
			}
		}
	}
	r.Eval(n)
	r.AddTransitions(n)
	r.AddTraces(n)
	r.Sample(map[string]any{"repl_history_case": ReplCase{Kind: "repl-history", Prefix: []string{replPrefixLines[3]}, Depth: 1, Prog: replPreludes[2] + `(range(3000) | tostring)`, FireAt: 7, WaitMs: 150}})
	r.Section("repl-interrupt-after-history")
}

func judgeRepl(c ReplCase, o replObs) string {
	switch {
	case o.timedOut:
		return "hang: session did not end within 120 s"
	case o.err != nil && !strings.Contains(o.err.Error(), "context canceled"):
		return "error: session ended with " + o.err.Error()
	case !o.interrupted:
		return "" // fewer writes than the firing index: nothing to judge
	case o.writesAfter > 0:
		return fmt.Sprintf("output-after-cancel: %d writes (%d bytes) of the interrupted evaluation reached stdout after the interrupt", o.writesAfter, o.bytesAfter)
	case !o.nextRan:
		return "repl-died: the REPL level did not run the next line after the interrupt"
	case !o.outerRan:
		return "outer-died: the enclosing REPL level did not run after leaving the interrupted level"
	}
	return ""
}

// ---- command line, raw output ---------------------------------------------------------------
//
// With stdout not a terminal binaries are written raw, through the copy functions
// (bitio/io.Copy with 32 KiB chunks) instead of one Write per rendered line. The stdout
// writer delivers the interrupt at the k-th write of the run; nothing of the interrupted
// evaluation may reach stdout afterwards and the process must end (no hang).

type CLICase struct {
	Kind   string   `json:"kind"`
	Args   []string `json:"args"`
	File   int      `json:"file_bytes,omitempty"` // size of the generated input file big.bin
	FireAt int      `json:"fire_at"`
	WaitMs int      `json:"wait_ms"`
}

func cliFile(n int) []byte {
	b := make([]byte, n)
	for i := range b {
		b[i] = byte(i*7 + i>>8)
	}
	return b
}

func runCLI(c CLICase) replObs {
	o := &replOS{interruptCh: make(chan struct{}), wait: time.Duration(c.WaitMs) * time.Millisecond, fireAt: c.FireAt, cliArgs: c.Args, armed: true}
	if c.File > 0 {
		o.files = fstest.MapFS{"big.bin": &fstest.MapFile{Data: cliFile(c.File)}}
	}
	var obs replObs
	i, err := interp.New(o, interp.DefaultRegistry)
	if err != nil {
		obs.err = err
		return obs
	}
	defer i.Stop()
	done := make(chan error, 1)
	go func() {
		var e error
		pv, _ := core.Protect(func() { e = i.Main(context.Background(), o.Stdout(), "testversion") })
		if pv != nil {
			e = fmt.Errorf("panic: %v", pv)
		}
		done <- e
	}()
	select {
	case obs.err = <-done:
	case <-time.After(120 * time.Second):
		obs.timedOut = true
		return obs
	}
	o.mu.Lock()
	defer o.mu.Unlock()
	obs.interrupted = o.interrupted
	obs.writesAfter, obs.bytesAfter, obs.writes = o.writesAfter, o.bytesAfter, o.writes
	return obs
}

func judgeCLI(c CLICase, o replObs) string {
	switch {
	case o.timedOut:
		return "hang: run did not end within 120 s"
	case o.err != nil && strings.HasPrefix(o.err.Error(), "panic:"):
		return "error: run ended with " + o.err.Error()
	case !o.interrupted:
		return ""
	case o.writesAfter > 0:
		return fmt.Sprintf("output-after-cancel: %d writes (%d bytes) of the interrupted evaluation reached stdout after the interrupt", o.writesAfter, o.bytesAfter)
	}
	return ""
}

func cliRawInterrupts(r *core.Run) {
	type prog struct {
		args []string
		file int
	}
	mib := 1 << 20
	progs := []prog{
		{[]string{"-n", `"a" * 1048576 | tobytes`}, 0}, // one binary over a string, 32 copy chunks
		{[]string{"-n", `("a" * 300000 | tobytes), ("b" * 300000 | tobytes), ("c" * 300000 | tobytes)`}, 0},
		{[]string{"-n", `"a" * 1048576 | tobits | .[3:]`}, 0}, // not byte aligned
		{[]string{"-n", `["a" * 200000, ["b" * 200000, 255], "c" * 200000] | tobytes`}, 0},
		{[]string{"-d", "bytes", "tobytes", "big.bin"}, mib + 3},         // file backed decode value
		{[]string{"-d", "bytes", ".[100:]", "big.bin"}, mib + 3},         // slice of it
		{[]string{"-d", "bytes", "tobytes, tobytes", "big.bin"}, 300000}, // two outputs
		{[]string{"-nr", `"a" * 1048576`}, 0},                            // raw string output
		{[]string{"-nj", `range(20000) | tostring`}, 0},                  // joined output
	}
	fires := core.Pick(r, []int{1, 2, 5}, []int{1, 2, 3, 5, 9, 17, 31})
	var n int64
	idx := int64(0)
	for pi, p := range progs {
		for _, k := range fires {
			idx++
			if r.ShardN > 1 && idx%int64(r.ShardN-1) != int64(r.ShardIdx-1) {
				continue
			}
			if r.Expired() {
				r.NotExhaustive("deadline in command line raw output interrupt enumeration")
				return
			}
			c := CLICase{Kind: "cli-raw", Args: p.args, File: p.file, FireAt: k, WaitMs: 150}
			obs := runCLI(c)
			n++
			if bad := judgeCLI(c, obs); bad != "" {
				c2 := c
				c2.WaitMs = 1500
				obs2 := runCLI(c2)
				if bad2 := judgeCLI(c2, obs2); bad2 != "" {
					r.Violate("cli-raw:"+strings.SplitN(bad2, ":", 2)[0], fmt.Sprintf("fq %q (stdout not a terminal) interrupt at write %d: %s", p.args, k, bad2), c2)
				} else {
					r.Inconclusive(fmt.Sprintf("fq %q write %d: %s with 150ms settle time only", p.args, k, bad))
				}
			}
			if obs.interrupted {
				r.Nontrivial(fmt.Sprintf("cli-raw:%d:%d", pi, k))
				r.Count("cli_raw_interrupted_runs", 1)
			}
			r.Count("cli_raw_writes_seen", int64(obs.writes))
		}
	}
	r.Eval(n)
	r.AddTransitions(n)
	r.AddTraces(n)
	r.Sample(map[string]any{"cli_raw_case": CLICase{Kind: "cli-raw", Args: progs[0].args, FireAt: 2, WaitMs: 150}})
	r.Section("cli-raw-output-interrupt")
}
