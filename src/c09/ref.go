package c09

// Reference bit-string evaluator. Written from doc/usage.md (§Binary, §Binary
// array, §Binary values) and the jq manual for the plain JSON operations; it
// shares no code with fq. Where the documentation is silent the choice is listed
// in assumptions() and was checked against its documented neighbours.

import (
	"encoding/hex"
	"fmt"
	"math"
	"math/big"
	"strconv"
	"strings"
	"unicode/utf8"
)

type kind int

const (
	kNull kind = iota
	kNum
	kStr
	kArr
	kBin
	kDV
	kErr
	kUnmodelled // outside the documented domain: not compared, subtree not explored
)

func (k kind) String() string {
	if k < 0 || k > kUnmodelled {
		return "other"
	}
	return [...]string{"null", "number", "string", "array", "binary", "decode_value", "error", "unmodelled"}[k]
}

// Val is a value of the reference model (and the normal form fq results are
// converted to for comparison).
type Val struct {
	K   kind
	N   *big.Int // kNum integer, kDV value
	F   float64  // kNum non-integer (IsF)
	IsF bool
	S   string // kStr: raw bytes
	A   []*Val // kArr
	// kBin, kDV: Bits is one '0'/'1' character per bit, Start the bit offset in the
	// source buffer (0 for a fresh buffer), Unit 1 or 8 (kDV: 8)
	Bits  string
	Unit  int
	Start int
	Why   string // kErr / kUnmodelled: reason (never compared)
}

var (
	vNull = &Val{K: kNull}
)

func vErr(why string) *Val        { return &Val{K: kErr, Why: why} }
func vUnmodelled(why string) *Val { return &Val{K: kUnmodelled, Why: why} }
func vInt(i int64) *Val           { return &Val{K: kNum, N: big.NewInt(i)} }
func vBig(b *big.Int) *Val        { return &Val{K: kNum, N: b} }
func vFloat(f float64) *Val {
	if f == math.Trunc(f) && math.Abs(f) < 1e15 {
		return vInt(int64(f))
	}
	return &Val{K: kNum, F: f, IsF: true}
}
func vStr(s string) *Val  { return &Val{K: kStr, S: s} }
func vArr(a ...*Val) *Val { return &Val{K: kArr, A: a} }
func vBin(bits string, unit, start int) *Val {
	return &Val{K: kBin, Bits: bits, Unit: unit, Start: start}
}

func bytesToBits(b []byte) string {
	var sb strings.Builder
	sb.Grow(len(b) * 8)
	for _, c := range b {
		for i := 7; i >= 0; i-- {
			sb.WriteByte('0' + (c>>uint(i))&1)
		}
	}
	return sb.String()
}

// bitsToBytesTrailing packs bits into bytes, zero filling the last byte at the
// least significant side.
func bitsToBytesTrailing(bits string) []byte {
	out := make([]byte, (len(bits)+7)/8)
	for i := 0; i < len(bits); i++ {
		if bits[i] == '1' {
			out[i/8] |= 0x80 >> uint(i%8)
		}
	}
	return out
}

func bitsToBig(bits string) *big.Int {
	n := new(big.Int)
	if bits == "" {
		return n
	}
	n.SetString(bits, 2)
	return n
}

func zeros(n int) string { return strings.Repeat("0", n) }

// ---- conversion to bits ----------------------------------------------------

// toBits implements "Use tobits and tobytes to create them from decode values,
// strings, numbers or binary arrays" and the §Binary array member rules.
// It returns the bits, the source start offset, or a non-nil error/unmodelled Val.
func toBits(v *Val, inArray bool) (string, int, *Val) {
	switch v.K {
	case kStr:
		return bytesToBits([]byte(v.S)), 0, nil
	case kNum:
		n := v.N
		if v.IsF {
			// assumption A3: fractional numbers truncate toward zero
			f := math.Trunc(v.F)
			n = big.NewInt(int64(f))
		}
		if inArray {
			if n.Sign() < 0 || n.Cmp(big.NewInt(255)) > 0 {
				return "", 0, vErr("array member not 0..255")
			}
			return bytesToBits([]byte{byte(n.Int64())}), 0, nil
		}
		if n.Sign() < 0 {
			return "", 0, vUnmodelled("negative number outside the documented domain")
		}
		if n.Sign() == 0 {
			return "0", 0, nil
		}
		return n.Text(2), 0, nil
	case kArr:
		var sb strings.Builder
		for _, e := range v.A {
			b, _, bad := toBits(e, true)
			if bad != nil {
				return "", 0, bad
			}
			sb.WriteString(b)
		}
		return sb.String(), 0, nil
	case kBin, kDV:
		return v.Bits, v.Start, nil
	case kNull:
		return "", 0, vErr("null can't be a binary")
	}
	return "", 0, v
}

func padFront(bits string, multiple int) string {
	if multiple <= 0 {
		return bits
	}
	return zeros((multiple-len(bits)%multiple)%multiple) + bits
}

// ---- operators ---------------------------------------------------------------

type opKind int

const (
	oToBits opKind = iota
	oToBytes
	oToBitsN
	oToBytesN
	oToBitsRange
	oToBytesRange
	oIndex
	oSlice
	oBits
	oBytes
	oToNumber
	oToString
	oExplode
	oToHex
	oLength
	oSize
	oStart
	oStop
	oUnit
	oToValue
)

var opNames = [...]string{"tobits", "tobytes", "tobits(n)", "tobytes(n)", "tobitsrange", "tobytesrange", ".[i]", ".[a:b]",
	".bits", ".bytes", "tonumber", "tostring", "explode", "to_hex", "length", ".size", ".start", ".stop", ".unit", "tovalue"}

// Op is one unary operator instance. A and B are slice bounds (nil = null), N is
// the padding argument or the index.
type Op struct {
	K opKind `json:"k"`
	N int    `json:"n,omitempty"`
	A *int   `json:"a,omitempty"`
	B *int   `json:"b,omitempty"`
}

func bound(p *int) string {
	if p == nil {
		return "null"
	}
	return strconv.Itoa(*p)
}

// JQ renders the operator as jq source.
func (o Op) JQ() string {
	switch o.K {
	case oToBits:
		return "tobits"
	case oToBytes:
		return "tobytes"
	case oToBitsN:
		return fmt.Sprintf("tobits(%d)", o.N)
	case oToBytesN:
		return fmt.Sprintf("tobytes(%d)", o.N)
	case oToBitsRange:
		return "tobitsrange"
	case oToBytesRange:
		return "tobytesrange"
	case oIndex:
		return fmt.Sprintf(".[%d]", o.N)
	case oSlice:
		return fmt.Sprintf(".[%s:%s]", bound(o.A), bound(o.B))
	case oBits:
		return ".bits"
	case oBytes:
		return ".bytes"
	case oToNumber:
		return "tonumber"
	case oToString:
		return "tostring"
	case oExplode:
		return "explode"
	case oToHex:
		return "to_hex"
	case oLength:
		return "length"
	case oSize:
		return ".size"
	case oStart:
		return ".start"
	case oStop:
		return ".stop"
	case oUnit:
		return ".unit"
	case oToValue:
		// the in-process session has no option stack; bits_format "string" is the CLI default
		return `tovalue({bits_format:"string"})`
	}
	return "?"
}

func binLen(v *Val) int { return len(v.Bits) / v.Unit }

// jqSliceBounds is the jq manual's .[a:b] on a sequence of length l: null bounds
// are the ends, negative bounds count from the end, everything is clamped.
func jqSliceBounds(a, b *int, l int) (int, int) {
	clamp := func(i, lo, hi int) int {
		if i < 0 {
			i += hi
		}
		if i < lo {
			return lo
		}
		if i > hi {
			return hi
		}
		return i
	}
	s, e := 0, l
	if a != nil {
		s = clamp(*a, 0, l)
	}
	if b != nil {
		e = clamp(*b, s, l)
	}
	return s, e
}

func validUTF8(s string) bool { return utf8.ValidString(s) }

// apply evaluates one unary operator on a reference value.
func apply(o Op, v *Val) *Val {
	if v.K == kErr || v.K == kUnmodelled {
		return v
	}
	switch o.K {
	case oToBits, oToBytes, oToBitsN, oToBytesN, oToBitsRange, oToBytesRange:
		bits, start, bad := toBits(v, false)
		if bad != nil {
			return bad
		}
		switch o.K {
		case oToBits:
			return vBin(bits, 1, 0)
		case oToBytes:
			return vBin(padFront(bits, 8), 8, 0)
		case oToBitsN:
			return vBin(padFront(bits, 1*o.N), 1, 0)
		case oToBytesN:
			n := o.N
			if n == 0 {
				n = 1
			}
			return vBin(padFront(bits, 8*n), 8, 0)
		case oToBitsRange:
			return vBin(bits, 1, start)
		default:
			return vBin(bits, 8, start)
		}
	case oToHex:
		bits, _, bad := toBits(v, false)
		if bad != nil {
			return bad
		}
		// assumption A2: a partial last byte is zero filled at the least significant side
		return vStr(hex.EncodeToString(bitsToBytesTrailing(bits)))
	}

	switch v.K {
	case kBin:
		return applyBin(o, v)
	case kDV:
		switch o.K {
		case oToNumber, oToValue:
			return vBig(v.N)
		case oToString:
			return vStr(v.N.String())
		case oLength:
			return vBig(new(big.Int).Abs(v.N))
		case oIndex, oSlice, oExplode:
			return vErr("number decode value is not indexable")
		default:
			return vUnmodelled("key of a scalar decode value (C08's subject)")
		}
	case kNull:
		switch o.K {
		case oIndex, oSlice, oBits, oBytes, oSize, oStart, oStop, oUnit, oToValue:
			return vNull
		case oLength:
			return vInt(0)
		case oToString:
			return vStr("null")
		default:
			return vErr("not applicable to null")
		}
	case kNum:
		switch o.K {
		case oToNumber, oToValue:
			return v
		case oToString:
			if v.IsF {
				return vStr(strconv.FormatFloat(v.F, 'g', -1, 64))
			}
			return vStr(v.N.String())
		case oLength:
			if v.IsF {
				return vFloat(math.Abs(v.F))
			}
			return vBig(new(big.Int).Abs(v.N))
		default:
			return vErr("not applicable to number")
		}
	case kStr:
		switch o.K {
		case oToString, oToValue:
			return v
		case oToNumber:
			return strToNumber(v.S)
		case oLength:
			if !validUTF8(v.S) {
				return vUnmodelled("code point operation on a string that is not UTF-8")
			}
			return vInt(int64(utf8.RuneCountInString(v.S)))
		case oExplode:
			if !validUTF8(v.S) {
				return vUnmodelled("code point operation on a string that is not UTF-8")
			}
			out := []*Val{}
			for _, r := range v.S {
				out = append(out, vInt(int64(r)))
			}
			return vArr(out...)
		case oSlice:
			if !validUTF8(v.S) {
				return vUnmodelled("code point operation on a string that is not UTF-8")
			}
			rs := []rune(v.S)
			s, e := jqSliceBounds(o.A, o.B, len(rs))
			return vStr(string(rs[s:e]))
		case oIndex:
			return vUnmodelled("number index on a string (jq manual: not defined)")
		default:
			return vErr("string has no keys")
		}
	case kArr:
		switch o.K {
		case oLength:
			return vInt(int64(len(v.A)))
		case oIndex:
			i := o.N
			if i < 0 {
				i += len(v.A)
			}
			if i < 0 || i >= len(v.A) {
				return vNull
			}
			return v.A[i]
		case oSlice:
			s, e := jqSliceBounds(o.A, o.B, len(v.A))
			return vArr(v.A[s:e]...)
		case oToString:
			s, ok := toJSON(v)
			if !ok {
				return vUnmodelled("JSON text of an array holding binaries, decode values or strings needing escapes")
			}
			return vStr(s)
		case oToValue:
			out := make([]*Val, len(v.A))
			for i, e := range v.A {
				out[i] = apply(o, e)
				if out[i].K == kErr || out[i].K == kUnmodelled {
					return vUnmodelled("tovalue of an array member: " + out[i].Why)
				}
			}
			return vArr(out...)
		default:
			return vErr("not applicable to array")
		}
	}
	return vUnmodelled("internal")
}

func applyBin(o Op, v *Val) *Val {
	u := v.Unit
	l := binLen(v)
	switch o.K {
	case oBits:
		return vBin(v.Bits, 1, v.Start)
	case oBytes:
		return vBin(v.Bits, 8, v.Start)
	case oLength, oSize:
		// "in the binary's own unit"; a partial last unit does not count (assumption A1)
		return vInt(int64(l))
	case oStart:
		return vInt(int64(v.Start / u))
	case oStop:
		return vInt(int64((v.Start + len(v.Bits) + u - 1) / u))
	case oUnit:
		return vInt(int64(u))
	case oIndex:
		i := o.N
		if i < 0 {
			i += l
		}
		if i < 0 || i >= l {
			return vNull // assumption A4
		}
		return vBig(bitsToBig(v.Bits[i*u : (i+1)*u]))
	case oSlice:
		s, e := jqSliceBounds(o.A, o.B, l)
		return vBin(v.Bits[s*u:e*u], u, v.Start+s*u)
	case oToNumber:
		return vBig(bitsToBig(v.Bits))
	case oToString:
		// "Will act as byte padded strings": assumption A2, zero fill at the end
		return vStr(string(bitsToBytesTrailing(v.Bits)))
	case oToValue:
		if len(v.Bits)%8 != 0 {
			return vUnmodelled("tovalue of a binary that is not a whole number of bytes")
		}
		return vStr(string(bitsToBytesTrailing(v.Bits)))
	case oExplode:
		out := make([]*Val, l)
		for i := 0; i < l; i++ {
			out[i] = vBig(bitsToBig(v.Bits[i*u : (i+1)*u]))
		}
		return vArr(out...)
	}
	return vUnmodelled("internal")
}

// strToNumber: only canonical decimal literals are modelled; strings without any
// digit cannot be numbers; every other spelling (leading zeros, exponents, hex
// like to_hex output, nan) is left to the jq implementation.
func strToNumber(s string) *Val {
	if s == "" {
		return vErr("empty string is not a number")
	}
	t := strings.TrimPrefix(s, "-")
	intPart, frac, hasFrac := strings.Cut(t, ".")
	digits := func(x string) bool {
		if x == "" {
			return false
		}
		for i := 0; i < len(x); i++ {
			if x[i] < '0' || x[i] > '9' {
				return false
			}
		}
		return true
	}
	if digits(intPart) && (intPart == "0" || intPart[0] != '0') && (!hasFrac || digits(frac)) {
		if !hasFrac {
			n, _ := new(big.Int).SetString(s, 10)
			if n.Sign() == 0 && strings.HasPrefix(s, "-") {
				return vUnmodelled("negative zero")
			}
			return vBig(n)
		}
		f, err := strconv.ParseFloat(s, 64)
		if err == nil {
			return vFloat(f)
		}
	}
	if !strings.ContainsAny(s, "0123456789") {
		switch strings.ToLower(strings.TrimLeft(s, "+-")) {
		case "nan", "inf", "infinity":
			return vUnmodelled("non-finite number spelling")
		}
		return vErr("not a number")
	}
	return vUnmodelled("non-canonical number spelling")
}

// toJSON is compact JSON for arrays of numbers, nulls, arrays and strings that
// need no escaping.
func toJSON(v *Val) (string, bool) {
	switch v.K {
	case kNull:
		return "null", true
	case kNum:
		if v.IsF {
			return strconv.FormatFloat(v.F, 'g', -1, 64), true
		}
		return v.N.String(), true
	case kStr:
		if !validUTF8(v.S) {
			return "", false
		}
		for _, r := range v.S {
			if r < 0x20 || r == '"' || r == '\\' || r == 0x7f || r == utf8.RuneError || r == '<' || r == '>' || r == '&' || r == 0x2028 || r == 0x2029 {
				return "", false
			}
		}
		return `"` + v.S + `"`, true
	case kArr:
		parts := make([]string, len(v.A))
		for i, e := range v.A {
			s, ok := toJSON(e)
			if !ok {
				return "", false
			}
			parts[i] = s
		}
		return "[" + strings.Join(parts, ",") + "]", true
	}
	return "", false
}

// pair is the array constructor [x, y].
func pair(x, y *Val) *Val { return array(x, y) }

// array is the array constructor [m0, m1, ...].
func array(ms ...*Val) *Val {
	for _, c := range ms {
		if c.K == kErr {
			return c
		}
	}
	for _, c := range ms {
		if c.K == kUnmodelled {
			return c
		}
	}
	return vArr(ms...)
}

// ---- comparison / printing -------------------------------------------------------

func equal(a, b *Val) bool {
	if a.K != b.K {
		return false
	}
	switch a.K {
	case kNull, kErr, kUnmodelled:
		return true
	case kNum:
		if a.IsF != b.IsF {
			return false
		}
		if a.IsF {
			return a.F == b.F
		}
		return a.N.Cmp(b.N) == 0
	case kStr:
		return a.S == b.S
	case kArr:
		if len(a.A) != len(b.A) {
			return false
		}
		for i := range a.A {
			if !equal(a.A[i], b.A[i]) {
				return false
			}
		}
		return true
	case kBin:
		return a.Bits == b.Bits && a.Unit == b.Unit && a.Start == b.Start
	case kDV:
		return a.Bits == b.Bits && a.Start == b.Start && a.N.Cmp(b.N) == 0
	}
	return false
}

func (v *Val) String() string {
	switch v.K {
	case kNull:
		return "null"
	case kNum:
		if v.IsF {
			return strconv.FormatFloat(v.F, 'g', -1, 64)
		}
		return v.N.String()
	case kStr:
		return strconv.Quote(v.S)
	case kArr:
		p := make([]string, len(v.A))
		for i, e := range v.A {
			p[i] = e.String()
		}
		return "[" + strings.Join(p, ",") + "]"
	case kBin:
		return fmt.Sprintf("binary(unit=%d,start_bit=%d,bits=%d:%s)", v.Unit, v.Start, len(v.Bits), v.Bits)
	case kDV:
		return fmt.Sprintf("decode_value(start_bit=%d,bits=%s,value=%s)", v.Start, v.Bits, v.N)
	case kErr:
		return "error"
	case kUnmodelled:
		return "unmodelled(" + v.Why + ")"
	}
	return "other(" + v.Why + ")"
}

// hasBinary reports whether a binary or decode value occurs in v.
func hasBinary(v *Val) bool {
	switch v.K {
	case kBin, kDV:
		return true
	case kArr:
		for _, e := range v.A {
			if hasBinary(e) {
				return true
			}
		}
	}
	return false
}

func assumptions() []string {
	return []string{
		"A1 (doc silent, DESIGN §C09 probe): for a binary whose bit length is not a multiple of its unit, size = length = explode|length = floor(bits/unit), start = floor(start_bit/unit), stop = ceil(stop_bit/unit)",
		"A2 (doc: 'act as byte padded strings', side not stated): tostring and to_hex zero fill a partial last byte at the least significant side; tobytes/tobytes(n)/tobits(n) zero pad at the most significant side as documented",
		"A3 (doc silent): fractional numbers truncate toward zero before conversion (1.5|tobits = 1|tobits, [1.9]|tobytes = [1]|tobytes)",
		"A4 (doc silent, jq convention): .[i] outside the binary is null; slice bounds follow the jq manual (null = end, negative from the end, clamped)",
		"A5 (doc silent): tobitsrange/tobytesrange of a string, number or array start at 0; of a binary or decode value they keep the source bit offset; tobits/tobytes results start at 0",
		"A6: a decode value inside a binary array contributes the bits of its range (the usage.md example uses binaries made from decode values); tonumber/tostring/length/tovalue of the number decode value leaf act on its value",
		"excluded as outside the documented domain (not compared, not expanded): negative top-level numbers, tovalue of a binary that is not whole bytes, keys of a scalar decode value, number index on a plain string, code point operations on strings that are not UTF-8, tonumber of non-canonical spellings, tostring of arrays that hold binaries or strings needing JSON escapes",
		"tovalue is evaluated as tovalue({bits_format:\"string\"}) because the in-process session has no option stack; \"string\" is the CLI default",
		"error messages are not compared, only error versus value",
	}
}
