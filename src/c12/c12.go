// Package c12 decides property C12 (paths and tree navigation are mutually
// consistent): (1) for every value of every tree of the shared tree corpus (package
// c05: all decoder-DSL programs up to an op bound x inputs, every corpus file x
// formats x truncations, decoded at the jq level) the upward navigation (topath,
// parent, parents, root, buffer_root, format_root, _index, _name) is compared with
// the tree shape found by descending from the root; (2) for all path arrays up to a
// length over an alphabet of awkward keys, path_to_expr | expr_to_path is the identity.
package c12

import (
	"encoding/json"
	"fmt"
	"os"

	"github.com/wader/fq/internal/verif/c05"
	"github.com/wader/fq/internal/verif/core"
)

var Check = core.Check{
	ID:                  "C12",
	Level:               "exploration",
	Shards:              16,
	CrashIsInconclusive: true, // a decoder crash is property C06's subject
	Run:                 run,
	Replay:              replay,
}

func run(r *core.Run) {
	only := os.Getenv("VERIF_ONLY")
	r.Rule("(1) every value of every tree: all decoder-DSL programs with <= N ops (dsl_max_ops) x 2 inputs (programs with <= N-1 ops also decoded from a byte slice, a bit slice and with a root array), every corpus file x {probe, -d formats of its fqtests} x {intact, prefixes len-1, len/2, start of last top level field} (quick: files <= 256 KiB, trees <= 20000 values; thorough: all files, more truncations, trees <= 250000 values): topath, root|getpath(topath), parent, parents, root, buffer_root, format_root, _index, _name against the shape found by descent (Go identity of the values and their jq visible _start/_stop/_name/tobits); (2) every path array of length <= L (path_max_len) over 18 elements, and the key grid (every ASCII character and 47 characters of other scripts - case-fold partners of ASCII letters, foreign letters/digits, combining and format characters - in 6 positions of a key x 5 path shapes; every key of two ASCII class representatives): path_to_expr | expr_to_path; non-trivial = tree with a nested buffer, a nested format or an array, or a path array with a key that is not an identifier")
	r.Assume("decode/2 only adds option defaults before calling _decode/2 (pkg/interp/decode.jq): DSL programs with more than 2 ops are decoded through _decode/2 directly")
	r.Assume("format_root is the nearest value at or above that is a format root or a buffer root (a nested buffer without a format of its own, e.g. FieldStructRootBitBufFn, ends the search as in pkg/decode/value.go; the documentation does not say)")
	r.Assume("_index of a struct field or of a parentless root is not judged (the property only asks that the parent holds the value under its name or index): counted in *_not_judged")
	if only == "" || only == "paths" {
		if runPaths(r, r.Start.Add(r.Deadline.Sub(r.Start)*35/100), core.Pick(r, 3, 4)) {
			r.Section("paths")
		}
	}
	if only == "paths" {
		return
	}
	w, err := c05.NewWalker(r, NavDriver)
	if err != nil {
		panic(err)
	}
	defer w.Close()
	w.Named = true
	c05.MaxValueBits = int64(core.Pick(r, 1<<26, 1<<28))
	var st Stats
	var evals int64
	judge := func(t *c05.Tree) {
		if s, ok := t.Out.(string); ok {
			classifyString(r, t, s)
			return
		}
		if _, ok := t.Out.(map[string]any); ok {
			r.Count("trees_that_are_a_binary", 1) // bytes/bits formats: no tree to navigate
			return
		}
		evals++
		before := st
		for _, f := range JudgeTree(t, &st) {
			r.Violate(f.Sig, f.Msg, t.Case)
		}
		if st.Interesting > before.Interesting {
			r.Nontrivial(t.Case.Prog + t.Case.File + t.Case.Format)
		}
		if evals%4001 == 0 {
			r.Sample(map[string]any{"tree": t.Case.String(), "values": st.Values - before.Values})
		}
	}
	if only == "" || only == "corpus" {
		o := c05.CorpusOpts{MaxSize: int64(core.Pick(r, 1<<18, 0)), MaxValues: core.Pick(r, 20000, 250000), More: r.Thorough()}
		// share of the time budget, so that an overloaded machine cuts every part's tail
		until := r.Start.Add(r.Deadline.Sub(r.Start) * 60 / 100)
		if w.WalkCorpus(o, topStarts, until, judge) {
			r.Section("corpus")
		}
	}
	// the large enumeration last (simplest programs first): a deadline cuts only its tail
	if only == "" || only == "dsl" {
		if w.WalkDSL(core.Pick(r, 3, 4), 2, judge) {
			r.Section("dsl")
		}
	}
	r.Eval(evals)
	r.Count("driver_evals", w.Evals)
	r.Count("values", st.Values)
	r.Count("values_in_arrays", st.InArray)
	r.Count("gap_fields_in_arrays", st.GapsInArrays)
	r.Count("values_below_nested_buffer_roots", st.BelowNested)
	r.Count("values_below_nested_format_roots", st.BelowFormat)
	r.Count("tobits_compared", st.TobitsCompared)
	r.Count("dsl_values_without_reference_node", st.Unmatched)
	r.Count("known_c03_tls_late_fields_skipped", st.KnownTLS)
	r.Count("values_of_trees_above_20000_values_parents_not_checked", st.ParentsNotChecked)
	r.Count("struct_fields_reporting_an_index_not_judged", st.StructFieldWithIndex)
	r.Count("scalar_roots_reporting_an_index_not_judged", st.RootWithIndex)
}

func classifyString(r *core.Run, t *c05.Tree, s string) {
	has := func(p string) bool { return len(s) >= len(p) && s[:len(p)] == p }
	switch {
	case has("SKIP:"):
		r.Count("trees_skipped_by_size", 1)
	case t.Case.Kind == "corpus" && has("EVALPANIC:"):
		r.Count("corpus_decode_panics", 1)
		r.Inconclusive("decoder panic (C06's subject): " + t.Case.String())
	case t.Case.Kind == "corpus" && has("ERR:"):
		r.Count("corpus_decodes_without_tree", 1)
	default:
		if len(s) > 300 {
			s = s[:300]
		}
		r.Violate(t.Case.Kind+":driver-error", fmt.Sprintf("%s: driver failed: %s", t.Case, s), t.Case)
	}
}

// ReplayCase is a tree case or a path case.
type ReplayCase struct {
	c05.TreeCase
	Path *PathCase `json:"path,omitempty"`
}

func replay(r *core.Run, raw json.RawMessage) bool {
	var c ReplayCase
	if err := json.Unmarshal(raw, &c); err != nil {
		fmt.Println(err)
		return false
	}
	if c.Path != nil {
		return replayPath(c.Path)
	}
	w, err := c05.NewWalker(r, NavDriver)
	if err != nil {
		fmt.Println(err)
		return false
	}
	defer w.Close()
	t, err := c05.BuildTree(r.Repo, c.TreeCase)
	if err != nil {
		fmt.Println(err)
		return false
	}
	w.EvalTrees([]*c05.Tree{t}, c.Fast, 0)
	fmt.Printf("  case: %s\n", t.Case)
	if s, ok := t.Out.(string); ok {
		fmt.Printf("  driver: %s\n", s)
		return c.Kind == "dsl"
	}
	var st Stats
	fs := JudgeTree(t, &st)
	if recs, err := parse(t.Out); err == nil && len(recs) <= 40 {
		for _, rec := range recs {
			fmt.Printf("    descent %-22s topath %-22s _index %v _name %q parent %s buffer_root %s format_root %s\n", c05.PathString(rec.Path), pathOrErr(rec.Topath), rec.Index, rec.Name, dvPath(rec.Parent), dvPath(rec.BufferRoot), dvPath(rec.FormatRoot))
		}
	}
	for _, f := range fs {
		fmt.Printf("  %s: %s\n", f.Sig, f.Msg)
	}
	fmt.Printf("  %d values judged\n", st.Values)
	return len(fs) > 0
}
