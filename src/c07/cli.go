package c07

import (
	"context"
	"fmt"
	"sort"
	"strings"
	"time"

	"github.com/wader/fq/internal/verif/core"
	"github.com/wader/fq/internal/verif/fqrun"
	"github.com/wader/gojq"
)

// ---------------------------------------------------------------------------
// CLI section: the same differential through fq's command line (cli.Main's code
// path: argument parsing, the input loop of init.jq, display_implicit and the
// colorjson encoder), comparing what is printed.
//
//  (a) output path: `fq -nc --argjson in V '$in | P'` for every L1 atom on every L1
//      pool value and for the JSON number/string pool; stdout lines are parsed back
//      compared as text with the reference outputs printed by the reference
//      engine's own encoder (gojq.Marshal), the exit status with the presence of an
//      error, and the ["DEBUG:",v] lines on stderr with the values the reference
//      handed to debug.
//  (b) input / inputs / input_filename: `fq -c -d json P f0.json f1.json ...`
//      against the reference driven the way jq's main loop is defined: for each
//      value of the input iterator run P; input/inputs consume from the same
//      iterator; input_filename names the file of the value read last.

const cliBase = 2_000_000_000

// printText renders a reference output with the reference engine's own printer
// (gojq.Marshal: compact, sorted keys, NaN as null, infinities as the largest
// double, invalid UTF-8 replaced), which is what `jq -c` writes.
func printText(v any) string {
	b, err := gojq.Marshal(v)
	if err != nil {
		return "<!marshal error: " + err.Error() + ">"
	}
	return string(b)
}

type cliObs struct {
	Outs   []string // printed lines (compact JSON text), in order
	Errors int      // number of jq errors reported
	Exit   int
	Debug  []string // the JSON text shown as v in ["DEBUG:",v]
}

func (o cliObs) String() string {
	s := "[" + strings.Join(o.Outs, ", ") + "]"
	if len(s) > 400 {
		s = s[:400] + "..."
	}
	return fmt.Sprintf("stdout %s, %d error(s), exit %d, debug %v", s, o.Errors, o.Exit, o.Debug)
}

func sameCLI(a, b cliObs) bool {
	if a.Errors != b.Errors || a.Exit != b.Exit || len(a.Outs) != len(b.Outs) || len(a.Debug) != len(b.Debug) {
		return false
	}
	for i := range a.Outs {
		if a.Outs[i] != b.Outs[i] {
			return false
		}
	}
	for i := range a.Debug {
		if a.Debug[i] != b.Debug[i] {
			return false
		}
	}
	return true
}

// fileIter is the reference's input iterator over the named files' values.
type fileIter struct {
	names []string
	vals  []any
	pos   int
	cur   any
}

func (it *fileIter) Next() (any, bool) {
	if it.pos >= len(it.vals) {
		return nil, false
	}
	it.cur = it.names[it.pos]
	v := clone(it.vals[it.pos])
	it.pos++
	return v, true
}

// refCLI runs prog the way jq's command line is defined to.
func refCLI(prog string, nullInput bool, names []string, vals []any, vars []string, varVals []any) (cliObs, error) {
	var o cliObs
	it := &fileIter{names: names, vals: vals}
	q, err := gojq.Parse(prog)
	if err != nil {
		return o, err
	}
	code, err := gojq.Compile(q,
		gojq.WithFunction("debug", 0, 0, func(v any, _ []any) any { o.Debug = append(o.Debug, printText(v)); return v }),
		gojq.WithFunction("stderr", 0, 0, passThrough),
		gojq.WithFunction("input_filename", 0, 0, func(any, []any) any { return it.cur }),
		gojq.WithInputIter(it),
		gojq.WithVariables(vars),
	)
	if err != nil {
		return o, err
	}
	runOne := func(v any) {
		ctx, cancel := context.WithTimeout(context.Background(), 20*time.Second)
		defer cancel()
		iter := code.RunWithContext(ctx, v, varVals...)
		for {
			x, ok := iter.Next()
			if !ok {
				return
			}
			if _, ok := x.(error); ok {
				o.Errors++
				o.Exit = 5
				return
			}
			o.Outs = append(o.Outs, printText(x))
		}
	}
	if nullInput {
		runOne(nil)
	} else {
		for {
			v, ok := it.Next()
			if !ok {
				break
			}
			runOne(v)
		}
	}
	return o, nil
}

// fqCLI runs the real command line in process and parses what it printed.
func fqCLI(args []string, files map[string][]byte) (cliObs, fqrun.Result, error) {
	res := fqrun.Run(fqrun.Opts{Args: args, Files: files, StdinIsTerminal: true})
	var o cliObs
	o.Exit = res.Exit
	if res.Panic != nil {
		return o, res, fmt.Errorf("go panic: %v", res.Panic)
	}
	for _, l := range strings.Split(string(res.Stdout), "\n") {
		if l == "" {
			continue
		}
		if _, err := parseJSON(l); err != nil {
			return o, res, fmt.Errorf("stdout line %q is not JSON: %v", l, err)
		}
		o.Outs = append(o.Outs, l)
	}
	for _, l := range strings.Split(string(res.Stderr), "\n") {
		switch {
		case strings.HasPrefix(l, "error:"):
			o.Errors++
		case strings.HasPrefix(l, `["DEBUG:",`):
			if strings.HasSuffix(l, "]") {
				o.Debug = append(o.Debug, l[len(`["DEBUG:",`):len(l)-1])
			} else {
				o.Debug = append(o.Debug, "<!unparsable:"+l+">")
			}
		}
	}
	return o, res, nil
}

type cliCase struct {
	prog      string
	raw       bool // (c): the program text is given to fq exactly as written (not wrapped in `$in | (...)`)
	nullInput bool
	input     string   // (a): value of $in as JSON text
	files     []string // (b): file contents, f0.json ...
}

func (c cliCase) args() ([]string, map[string][]byte) {
	if c.raw {
		return []string{"-nc", "--argjson", "in", c.input, c.prog}, nil
	}
	if c.files == nil {
		return []string{"-nc", "--argjson", "in", c.input, "$in | (" + c.prog + ")"}, nil
	}
	args := []string{"-c", "-d", "json"}
	if c.nullInput {
		args = append(args, "-n")
	}
	args = append(args, c.prog)
	files := map[string][]byte{}
	for i, f := range c.files {
		n := fmt.Sprintf("f%d.json", i)
		files[n] = []byte(f)
		args = append(args, n)
	}
	return args, files
}

func (c cliCase) run() (ref cliObs, fo cliObs, res fqrun.Result, refErr, fqErr error) {
	args, files := c.args()
	if c.raw {
		ref, refErr = refCLI(c.prog, true, nil, nil, []string{"$in"}, []any{mustJSON(c.input)})
	} else if c.files == nil {
		ref, refErr = refCLI("$in | ("+c.prog+")", true, nil, nil, []string{"$in"}, []any{mustJSON(c.input)})
	} else {
		var names []string
		var vals []any
		for i, f := range c.files {
			names = append(names, fmt.Sprintf("f%d.json", i))
			vals = append(vals, mustJSON(f))
		}
		ref, refErr = refCLI(c.prog, c.nullInput, names, vals, nil, nil)
	}
	fo, res, fqErr = fqCLI(args, files)
	return
}

func (c cliCase) asCase() Case {
	args, files := c.args()
	fs := map[string]string{}
	for k, v := range files {
		fs[k] = string(v)
	}
	return Case{Section: "CLI", Program: c.prog, Input: c.input, Args: args, Files: fs}
}

var cliInputProgs = []string{".", "input", "[., input]", "[inputs]", "[., inputs]", "input_filename", "[., input_filename]", "[input, input_filename]", "[inputs] | [., input_filename]",
	"first(inputs)", "[limit(1; inputs)]", "try input catch \"E\"", "[., (try input catch \"E\")]", "(input, input)", "[.[]?]", "., input | type", "reduce inputs as $x (.; [., $x])", "[inputs] | length",
	"input | input_filename", "inputs | input_filename", "error", "if . == 1 then error else . end", "debug", "[debug, input]", "input as $x | [$x, .]", "[., input] | tojson", "inputs | [.] | length",
	"[inputs | tojson | fromjson] | length", ". as $a | input as $b | $a == $b", "[input?]", "[.,1] | (.[0], input)", "label $l | inputs | ., break $l", "isempty(inputs)", "[range(2) | try input catch \"E\"]",
	"def f: input; [f, f]", "[inputs] | add", "input_filename | type", "[repeat(input)]?", "[limit(3; repeat(try input catch \"E\"))]"}

var cliFileSets = [][]string{
	{"1"}, {"1", "[2]"}, {"1", "[2]", "{\"a\":3}"}, {"null", "false", "0"}, {"18446744073709551616", "\"x\""}, {"[1,[2]]", "{\"a\":{\"b\":[1,\"x\"]}}", "1.5", "\"a,b\""},
	{" 1 \n", "[1.0,1e2,-0]"}, {"{}", "{}"},
}

var cliOutputProgs = []string{".", "[.]", "{a:.}", "tojson", "tostring", "[., nan, infinite, -infinite]", "nan", "-infinite", "., error, 3", "debug", "[.[]?|debug]", "debug(\"m\",\"n\")", ".. ", "@json", "tojson|fromjson", "., (.|error)", "empty", "[limit(3;repeat(.))]"}

func cliCases(r *core.Run) []cliCase {
	var cs []cliCase
	// (a) every L1 atom on every L1 pool value
	seen := map[string]bool{}
	for _, a := range allAtoms() {
		if seen[a.text] {
			continue
		}
		seen[a.text] = true
		for _, in := range l1PoolText {
			cs = append(cs, cliCase{prog: a.text, input: in})
		}
	}
	for _, p := range cliOutputProgs {
		for _, in := range tojsonValues {
			cs = append(cs, cliCase{prog: p, input: in})
		}
	}
	// (c) user definitions shadow everything fq defines or treats specially: for every
	// function name fq's bundled jq sources and Go registry define (found at run time), a
	// user definition of that name at the root, after a pipe, inside a bind body and inside
	// an array, called as the last term / not last, with 0 and 1 parameters. The program is
	// passed exactly as written so that fq's own rewrite of the query sees the user's text.
	for _, n := range shadowNames(r) {
		for _, f := range shadowForms {
			if strings.HasPrefix(n, "_") && !f.internal {
				continue
			}
			cs = append(cs, cliCase{prog: strings.ReplaceAll(f.text, "NAME", n), raw: true, input: "[3,4]"})
		}
	}
	// (b)
	for _, fs := range cliFileSets {
		for _, p := range cliInputProgs {
			cs = append(cs, cliCase{prog: p, files: fs})
			cs = append(cs, cliCase{prog: p, files: fs, nullInput: true})
		}
	}
	return cs
}

var shadowForms = []struct {
	text     string
	internal bool // also for `_` prefixed (internal) names
}{
	{"def NAME: 41; NAME", true},
	{"$in | def NAME: length; NAME", true},
	{"$in as $x | def NAME: $x | length; NAME", false},
	{"def NAME: 42; $in | NAME", false},
	{"def NAME: 43; NAME | . + 1", false},
	{"[def NAME: 44; NAME]", false},
	{"def NAME(f): f + 1; NAME(45)", false},
	{"$in | def NAME(f): f; NAME(length)", false},
	{"def NAME: 46; def g: NAME; g", false},
	{"def NAME: 47; 1 as $y | NAME", false},
	{"def NAME: 48; if true then NAME else 0 end", false},
	{"def NAME: 49; try NAME catch 0", false},
	{"$in | def NAME($a): $a + 1; NAME(50)", false},
	{"$in | . as [$NAME] | $NAME", false},
}

var shadowNamesCache []string

// shadowNames: every distinct function name defined by fq (bundled jq sources incl.
// generated ones, Go registry), computed from the live tree.
func shadowNames(r *core.Run) []string {
	if shadowNamesCache != nil {
		return shadowNamesCache
	}
	fq := newWatchedFQ(r)
	defs, _, _ := fqDefined(fq)
	seen := map[string]bool{}
	var names []string
	gen := 0
	for _, d := range defs {
		n := d.name[:strings.LastIndex(d.name, "/")]
		// per format decode functions (mp3, from_mp3, ...) are generated from one template
		// (dynamic include): the first 6 generated names stand for the rest
		if strings.HasSuffix(d.src, "(generated)") && !seen[n] {
			if gen >= 6 {
				continue
			}
			gen++
		}
		if !seen[n] {
			seen[n] = true
			names = append(names, n)
		}
	}
	sort.Strings(names)
	if len(names) < 300 {
		panic(fmt.Sprintf("c07: implausible shadow name discovery: %d names", len(names)))
	}
	r.Extra("cli_shadow_names", len(names))
	r.Extra("cli_shadow_forms", len(shadowForms))
	shadowNamesCache = names
	return names
}

func cliSection(r *core.Run) {
	cs := cliCases(r)
	r.Extra("cli_cases", len(cs))
	for i, c := range cs {
		if !r.Mine(cliBase + int64(i)) {
			continue
		}
		if r.Expired() {
			r.NotExhaustive("deadline: CLI section not finished")
			return
		}
		args, _ := c.args()
		r.Case(cliBase+int64(i), "CLI "+strings.Join(args, " "))
		ref, fo, res, refErr, fqErr := c.run()
		r.Eval(1)
		if refErr != nil {
			// not a program of the reference language (fq must then fail to compile: exit 3)
			if res.Exit != 3 {
				r.Violate("CLI:ref-rejects-fq-compiles:"+features(c.prog), fmt.Sprintf("fq %s: reference does not compile the program (%v), fq: %v", strings.Join(args, " "), refErr, res), c.asCase())
			}
			continue
		}
		if len(ref.Outs) > 0 {
			r.Nontrivial("CLI " + strings.Join(args, " ") + " " + strings.Join(c.files, "|"))
		}
		if fqErr != nil {
			r.Violate("CLI:unparsable-output:"+features(c.prog), fmt.Sprintf("fq %s: %v; %v", strings.Join(args, " "), fqErr, res), c.asCase())
			continue
		}
		if sameCLI(ref, fo) {
			continue
		}
		// confirm by repetition (fq must be deterministic)
		_, fo2, _, _, _ := c.run()
		kind := "output-differs"
		switch {
		case !sameCLI(fo, fo2):
			kind = "fq-nondeterministic"
		case ref.Exit != fo.Exit || ref.Errors != fo.Errors:
			kind = "errors-differ"
		case len(ref.Debug) != len(fo.Debug) || strings.Join(ref.Debug, "\x00") != strings.Join(fo.Debug, "\x00"):
			if strings.Join(ref.Outs, "\x00") == strings.Join(fo.Outs, "\x00") {
				kind = "debug-messages-differ"
			}
		}
		sec := "CLI-output"
		class := features(c.prog) + ":in=" + jqTypeText(c.input)
		if c.files != nil {
			sec = "CLI-input"
			class = features(c.prog) + fmt.Sprintf(":null-input=%v", c.nullInput)
		}
		files := append([]string{}, c.files...)
		sort.Strings(files)
		r.Violate(fmt.Sprintf("%s:%s:%s", sec, kind, class),
			fmt.Sprintf("fq %s (files %q): reference -> %v ; fq -> %v", strings.Join(args, " "), c.files, ref, fo), c.asCase())
	}
	if r.ShardIdx == 0 {
		r.Section("CLI")
	}
}

func jqTypeText(t string) string {
	if t == "" {
		return "none"
	}
	v, err := parseJSON(t)
	if err != nil {
		return "?"
	}
	return jqType(v)
}

func replayCLI(r *core.Run, c Case) bool {
	cc := cliCase{prog: c.Program, input: c.Input}
	if len(c.Files) > 0 {
		for i := 0; i < len(c.Files); i++ {
			cc.files = append(cc.files, c.Files[fmt.Sprintf("f%d.json", i)])
		}
		for _, a := range c.Args {
			if a == "-n" {
				cc.nullInput = true
			}
		}
	}
	args, _ := cc.args()
	ref, fo, res, refErr, fqErr := cc.run()
	fmt.Printf("  fq %s\n  files: %q\n", strings.Join(args, " "), cc.files)
	if refErr != nil {
		fmt.Printf("  reference: does not compile: %v\n  fq: %v\n", refErr, res)
		return res.Exit != 3
	}
	fmt.Printf("  reference: %v\n  fq:        %v\n", ref, fo)
	if fqErr != nil {
		fmt.Printf("  fq raw: %v (%v)\n", res, fqErr)
		return true
	}
	return !sameCLI(ref, fo)
}
