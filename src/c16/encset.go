package c16

import (
	"strings"
)

// enc is one wire encoding of a value.
type enc struct {
	B []byte
	L string // label: which variant was chosen at every node
	// Opts are decode options the variant needs (text formats only, e.g. csv comma)
	Opts map[string]any
}

// encSet is an indexable (lazily composed) set of encodings.
type encSet interface {
	Count() int
	At(i int) enc
}

type list []enc

func (l list) Count() int   { return len(l) }
func (l list) At(i int) enc { return l[i] }

func one(b []byte, l string) list { return list{{B: b, L: l}} }

// wrapFn builds a container encoding from the encodings of its parts.
type wrapFn struct {
	L  string
	Fn func(parts [][]byte) []byte
}

// prod is the cartesian product: every wrap x every combination of part encodings.
type prod struct {
	kids  []encSet
	wraps []wrapFn
	n     int
}

func newProd(kids []encSet, wraps []wrapFn) *prod {
	n := len(wraps)
	for _, k := range kids {
		n *= k.Count()
	}
	return &prod{kids: kids, wraps: wraps, n: n}
}

func (p *prod) Count() int { return p.n }

func (p *prod) At(i int) enc {
	w := p.wraps[i%len(p.wraps)]
	i /= len(p.wraps)
	parts := make([][]byte, len(p.kids))
	labels := make([]string, len(p.kids))
	for k, ks := range p.kids {
		c := ks.Count()
		e := ks.At(i % c)
		i /= c
		parts[k] = e.B
		labels[k] = e.L
	}
	l := w.L
	if len(labels) > 0 {
		l += "(" + strings.Join(labels, ",") + ")"
	}
	return enc{B: w.Fn(parts), L: l}
}

// oneAtATime is the reduced combination used for the largest values: every
// encoding of every part and every wrap, each while all the others keep their
// first (shortest/canonical) form.
type oneAtATime struct {
	kids  []encSet
	wraps []wrapFn
	offs  []int // per kid: start index
	n     int
}

func newOneAtATime(kids []encSet, wraps []wrapFn) *oneAtATime {
	o := &oneAtATime{kids: kids, wraps: wraps}
	n := len(wraps) // index 0: all canonical, 1..W-1: other wraps
	for _, k := range kids {
		o.offs = append(o.offs, n)
		n += k.Count() - 1
	}
	o.n = n
	return o
}

func (o *oneAtATime) Count() int { return o.n }

func (o *oneAtATime) At(i int) enc {
	w := o.wraps[0]
	if i < len(o.wraps) {
		w = o.wraps[i]
	}
	parts := make([][]byte, len(o.kids))
	labels := make([]string, len(o.kids))
	for k, ks := range o.kids {
		j := 0
		if i >= o.offs[k] && i < o.offs[k]+ks.Count()-1 {
			j = i - o.offs[k] + 1
		}
		e := ks.At(j)
		parts[k] = e.B
		labels[k] = e.L
	}
	l := w.L
	if len(labels) > 0 {
		l += "(" + strings.Join(labels, ",") + ")"
	}
	return enc{B: w.Fn(parts), L: l}
}

func concat(parts ...[]byte) []byte {
	n := 0
	for _, p := range parts {
		n += len(p)
	}
	out := make([]byte, 0, n)
	for _, p := range parts {
		out = append(out, p...)
	}
	return out
}

func be(n uint64, nbytes int) []byte {
	b := make([]byte, nbytes)
	for i := nbytes - 1; i >= 0; i-- {
		b[i] = byte(n)
		n >>= 8
	}
	return b
}

func le(n uint64, nbytes int) []byte {
	b := make([]byte, nbytes)
	for i := 0; i < nbytes; i++ {
		b[i] = byte(n)
		n >>= 8
	}
	return b
}

// mode says how encodings of the nodes of one value are combined.
type mode struct {
	// full: per leaf every variant including every chunk split point; otherwise
	// every width/length form but only the 1-chunk and the middle 2-chunk split
	full bool
	// sum: containers combine part encodings one at a time instead of as a product
	sum bool
	// canon: only the first (shortest/canonical) encoding of the value
	canon bool
	// shape: the value comes from the container skeleton family (forms.go): every
	// structure plan and document variant, default spellings only
	shape bool
}

type firstOnly struct{ set encSet }

func (f firstOnly) Count() int   { return 1 }
func (f firstOnly) At(i int) enc { return f.set.At(0) }

func combine(m mode, kids []encSet, wraps []wrapFn) encSet {
	if m.sum {
		return newOneAtATime(kids, wraps)
	}
	return newProd(kids, wraps)
}

// splitPoints returns the chunk boundaries used for 2-chunk encodings of b.
func splitPoints(b []byte, text bool, full bool) []int {
	n := len(b)
	var cand []int
	if !full {
		cand = []int{n / 2}
	} else if n <= 64 {
		for i := 0; i <= n; i++ {
			cand = append(cand, i)
		}
	} else {
		cand = []int{0, 1, 23, 24, 255, 256, n / 2, n - 256, n - 255, n - 24, n - 23, n - 1, n}
	}
	seen := map[int]bool{}
	var out []int
	for _, c := range cand {
		if c < 0 || c > n {
			continue
		}
		for text && !validUTF8Boundary(b, c) {
			c++
		}
		if !seen[c] {
			seen[c] = true
			out = append(out, c)
		}
	}
	return out
}
