package c18

// Value histories: evaluation histories on ONE decoded value.
//
// The other history sections decode again for every job, so what an evaluation leaves
// behind IN the decoded value (the tree that `decode` returned and that a REPL, `-s`,
// a variable binding or a multi output expression evaluates many times) was never
// observed. Here a value is decoded once, bound, and a sequence of read-only
// evaluations - conversions and displays with every evaluation option set and unset -
// is run on that one value; what every evaluation prints must be byte-identical to the
// same evaluation alone on a freshly decoded value in a fresh interpreter.
//
// Operation alphabet (built by reflection over interp.Options, nothing else is known
// about what an option does): observers without options (tovalue, tojson, keys, dv, d,
// path walk, attribute walk, child conversion, bytes, repr) + tovalue({k: v}) and
// display({k: v}) for every scalar option field k and every value v of its kind.
//
// (a) generated layouts (decoder DSL, format "vdsl"): a struct of 1..K byte fields with
//     an undecoded byte present or absent in EVERY slot (before the first field, between
//     two fields, behind the last one) - at the root, inside a sub format in the middle of
//     the root, and next to / inside an array - x ALL ordered pairs of operations.
// (b) corpus: the smallest sample of every format named by the fqtests x every
//     operation followed by the combined observation.

import (
	"encoding/hex"
	"encoding/json"
	"fmt"
	"hash/fnv"
	"os"
	"reflect"
	"sort"
	"strconv"
	"strings"
	"time"

	"github.com/wader/fq/internal/verif/core"
	"github.com/wader/fq/internal/verif/dsl"
	"github.com/wader/fq/internal/verif/fqrun"
	"github.com/wader/fq/pkg/interp"
)

// vop is one read-only evaluation of a decode value; Expr prints everything it
// observes to stdout and outputs nothing.
type vop struct {
	Name string
	Expr string
}

const (
	markCase = "\x01\x02C18-CASE"
	markOp   = "\x01\x02C18-OP"
)

// evalOptionValues: values for one evaluation option by Go kind.
func evalOptionValues(k reflect.Kind) []string {
	switch k {
	case reflect.Bool:
		return []string{"true", "false"}
	case reflect.Int, reflect.Int8, reflect.Int16, reflect.Int32, reflect.Int64:
		return []string{"0", "3"}
	case reflect.String:
		return []string{`"hex"`, `"string"`}
	}
	return nil
}

// valueOps: the operation alphabet. The last two entries are auxiliary (the combined
// observation and the measured count of structs with a gap that is not their last
// child); nAlpha is the size of the alphabet proper.
func valueOps() (ops []vop, nAlpha int, obs int, gapc int, groups [][]int) {
	pr := func(e string) string { return "(" + e + ") | tojson | println" }
	ops = []vop{
		{"tovalue", pr("tovalue")},
		{"tojson", "tojson | println"},
		{"keys", pr(`try keys catch "nokeys"`)},
		{"dv", "dv"},
		{"d", "d"},
		{"paths", pr("[path(..)]")},
		{"attrs", pr("[.. | [._name, ._start, ._stop, ._gap]]")},
		{"children", pr("[.[]? | tovalue]")},
		{"bytes", pr("tobytes | tohex")},
		{"repr", pr(`try torepr catch "norepr"`)},
	}
	rt := reflect.TypeOf(interp.Options{})
	for fi := 0; fi < rt.NumField(); fi++ {
		f := rt.Field(fi)
		if !f.IsExported() {
			continue
		}
		key := snake(f.Name)
		vs := evalOptionValues(f.Type.Kind())
		if vs == nil {
			continue
		}
		// the operations of one option field: both functions without options and with
		// every value of the field
		g := []int{0, 4}
		for range vs {
			g = append(g, len(ops)+len(g)-2, len(ops)+len(g)-1)
		}
		groups = append(groups, g)
		for _, v := range vs {
			ops = append(ops,
				vop{fmt.Sprintf("tovalue({%s: %s})", key, v), pr(fmt.Sprintf("tovalue({%s: %s})", key, v))},
				vop{fmt.Sprintf("display({%s: %s})", key, v), fmt.Sprintf("display({%s: %s})", key, v)})
		}
	}
	nAlpha = len(ops)
	obs = len(ops)
	ops = append(ops, vop{"observe", `(tovalue | tojson | println), ((try keys catch "nokeys") | tojson | println), ([.. | [._name, ._start, ._stop, ._gap]] | tojson | println), dv`})
	gapc = len(ops)
	ops = append(ops, vop{"nonlast-gaps", pr(`[.. | select(type == "object") | [.[] | try ._gap catch false] | .[:-1] | select(any)] | length`)})
	// the observation without the walk in jq (large values)
	ops = append(ops, vop{"observe-native", `(tovalue | tojson | println), ((try keys catch "nokeys") | tojson | println), dv`})
	return
}

// driver: ONE program text for all cases; a case is {f: file, d: format, o: decode
// options, s: [operation index, ...]}: the file is decoded once, the operations are
// evaluated one after the other on that one value.
func driver(ops []vop) string {
	var sb strings.Builder
	sb.WriteString("def vop($i):\n")
	for i, o := range ops {
		if i == 0 {
			sb.WriteString("  if")
		} else {
			sb.WriteString("  elif")
		}
		fmt.Fprintf(&sb, " $i == %d then (%s)\n", i, o.Expr)
	}
	sb.WriteString("  else error(\"bad op\") end;\n")
	fmt.Fprintf(&sb, `.[] as $c
| (%s | println)
, ( (try {v: ($c.f | open | decode($c.d; $c.o))} catch {e: ("ERR-DECODE: " + tostring)}) as $d
  | if $d.e then ($d.e | println)
    else
      ( $d.v as $v
      | $c.s[] as $i
      | (%s | println)
      , ($v | try vop($i) catch ("ERR: " + tostring) | println)
      )
    end
  )
`, jqString(markCase), jqString(markOp))
	return sb.String()
}

func jqString(s string) string { b, _ := json.Marshal(s); return string(b) }

type vcase struct {
	File   string
	Format string
	Opts   map[string]any
	Seq    []int
}

// runCases evaluates the cases on ONE fresh interpreter; result[i][k] is what
// operation k of case i printed (nil when the decode itself failed).
func runCases(files map[string][]byte, prog string, cases []vcase) ([][]string, error) {
	s, err := fqrun.NewCLISession(files)
	if err != nil {
		return nil, err
	}
	defer s.Close()
	in := make([]any, len(cases))
	for i, c := range cases {
		seq := make([]any, len(c.Seq))
		for k, v := range c.Seq {
			seq[k] = v
		}
		o := map[string]any{}
		for k, v := range c.Opts {
			o[k] = v
		}
		in[i] = map[string]any{"f": c.File, "d": c.Format, "o": o, "s": seq}
	}
	_, err = s.Eval(in, prog)
	text := string(s.Stdout())
	if err != nil {
		return nil, fmt.Errorf("driver: %w (stdout %q)", err, trunc(text, 200))
	}
	parts := strings.Split(text, markCase+"\n")
	if len(parts) != len(cases)+1 {
		return nil, fmt.Errorf("driver: %d case marks for %d cases", len(parts)-1, len(cases))
	}
	out := make([][]string, len(cases))
	for i := range cases {
		p := strings.Split(parts[i+1], markOp+"\n")
		if len(p)-1 != len(cases[i].Seq) {
			if strings.HasPrefix(p[0], "ERR-DECODE") {
				continue
			}
			return nil, fmt.Errorf("driver: case %d: %d op marks for %d ops: %q", i, len(p)-1, len(cases[i].Seq), trunc(parts[i+1], 200))
		}
		out[i] = p[1:]
	}
	return out, nil
}

// lone: every operation alone on a freshly decoded value; taken on two fresh
// interpreters in opposite orders (a baseline that itself depended on what the
// interpreter evaluated before would differ between the two).
func loneOutputs(files map[string][]byte, prog string, nops int, mk func(seq []int) vcase) ([]string, error) {
	var fwd, bwd []vcase
	for i := 0; i < nops; i++ {
		fwd = append(fwd, mk([]int{i}))
		bwd = append(bwd, mk([]int{nops - 1 - i}))
	}
	a, err := runCases(files, prog, fwd)
	if err != nil {
		return nil, err
	}
	b, err := runCases(files, prog, bwd)
	if err != nil {
		return nil, err
	}
	out := make([]string, nops)
	for i := 0; i < nops; i++ {
		if a[i] == nil || b[nops-1-i] == nil {
			return nil, fmt.Errorf("decode failed")
		}
		if a[i][0] != b[nops-1-i][0] {
			return nil, fmt.Errorf("lone evaluation of operation %d differs between two fresh interpreters: %s", i, firstDiff(a[i][0], b[nops-1-i][0]))
		}
		out[i] = a[i][0]
	}
	return out, nil
}

// layout is one generated value: a DSL program and the input it decodes.
type layout struct {
	Name string
	Prog dsl.Prog
	Data []byte
}

func u8(name string) dsl.Op { return dsl.Op{K: "u", Name: name, W: 8} }

// slotLayouts: k byte fields and a mask of k+1 slots holding an undecoded byte;
// returns the ops and the number of bytes they span (a trailing slot is input that
// nothing reads).
func slotOps(k int, mask int) (ops []dsl.Op, nbytes int) {
	for i := 0; i < k; i++ {
		if mask>>uint(i)&1 == 1 {
			ops = append(ops, dsl.Op{K: "seekrel", Off: 8})
			nbytes++
		}
		ops = append(ops, u8(string(rune('a'+i))))
		nbytes++
	}
	if mask>>uint(k)&1 == 1 {
		nbytes++
	}
	return
}

func input(n int) []byte {
	b := make([]byte, n)
	for i := range b {
		b[i] = byte(0x41 + i) // printable, all different
	}
	return b
}

func layouts(maxFields int) []layout {
	var out []layout
	for k := 1; k <= maxFields; k++ {
		for mask := 0; mask < 1<<uint(k+1); mask++ {
			ops, n := slotOps(k, mask)
			out = append(out, layout{fmt.Sprintf("root:k=%d:slots=%0*b", k, k+1, mask), ops, input(n)})
			// the same struct as a sub format in the middle of the root
			out = append(out, layout{fmt.Sprintf("sub:k=%d:slots=%0*b", k, k+1, mask),
				dsl.Prog{u8("pre"), {K: "fmtlen", Name: "sub", W: int64(n) * 8, Body: ops}, u8("post")}, input(n + 2)})
		}
	}
	// arrays: an undecoded byte between two elements, in front of and behind the array
	for mask := 0; mask < 8; mask++ {
		var ops []dsl.Op
		n := 0
		ops = append(ops, u8("pre"))
		n++
		if mask&1 == 1 {
			ops = append(ops, dsl.Op{K: "seekrel", Off: 8})
			n++
		}
		body := []dsl.Op{u8("e")}
		n++
		if mask&2 == 2 {
			body = append(body, dsl.Op{K: "seekrel", Off: 8})
			n++
		}
		body = append(body, u8("e"))
		n++
		ops = append(ops, dsl.Op{K: "array", Name: "arr", Body: body})
		if mask&4 == 4 {
			ops = append(ops, dsl.Op{K: "seekrel", Off: 8})
			n++
		}
		ops = append(ops, u8("post"))
		n++
		out = append(out, layout{fmt.Sprintf("array:slots=%03b", mask), ops, input(n)})
	}
	return out
}

type ValHistCase struct {
	Kind   string   `json:"kind"`
	Family string   `json:"family"`
	Value  string   `json:"value"`
	Format string   `json:"format"`
	Prog   string   `json:"prog,omitempty"`
	Data   string   `json:"data_hex,omitempty"`
	Seq    []string `json:"seq"`
}

func hash64(s string) uint64 {
	h := fnv.New64a()
	h.Write([]byte(s))
	return h.Sum64()
}

func valueHistories(r *core.Run) {
	ops, nAlpha, obs, gapc, groups := valueOps()
	prog := driver(ops)
	sub := os.Getenv("C18_VALHIST")
	if sub == "" || sub == "generated" {
		valueHistoriesGenerated(r, ops, nAlpha, obs, gapc, groups, prog)
	}
	if sub == "" || sub == "corpus" {
		valueHistoriesCorpus(r, ops, nAlpha, obs, gapc, prog)
	}
}

func valueHistoriesGenerated(r *core.Run, ops []vop, nAlpha, obs, gapc int, groups [][]int, prog string) {
	ls := layouts(core.Pick(r, 2, 3))
	const parts = 1 // a unit = one layout (x one part of the first operations when parts > 1)
	var cases, evals, withGap, units, nObs, nPairs int64
	distinct := map[uint64]bool{}
	for li, l := range ls {
		files := map[string][]byte{"in.bin": l.Data}
		mk := func(seq []int) vcase {
			return vcase{File: "in.bin", Format: "vdsl", Opts: map[string]any{"prog": l.Prog.String()}, Seq: seq}
		}
		vc := func(seq []int) ValHistCase {
			c := ValHistCase{Kind: "valhist", Family: "generated", Value: l.Name, Format: "vdsl", Prog: l.Prog.String(), Data: hex.EncodeToString(l.Data)}
			for _, i := range seq {
				c.Seq = append(c.Seq, ops[i].Name)
			}
			return c
		}
		var lone []string
		for part := 0; part < parts; part++ {
			if !r.Mine(int64(li*parts+part) + 1<<42) {
				continue
			}
			if r.Expired() {
				r.NotExhaustive("deadline in the value histories (generated layouts)")
				return
			}
			if lone == nil {
				var err error
				lone, err = loneOutputs(files, prog, len(ops), mk)
				if err != nil {
					r.Violate("valhist:lone-evaluation-not-repeatable", fmt.Sprintf("layout %s %s: %v", l.Name, l.Prog, err), vc(nil))
					break
				}
				if strings.Contains(lone[0], "ERR") || strings.Contains(lone[gapc], "ERR") {
					r.Violate("harness:valhist-operation-fails", fmt.Sprintf("layout %s: tovalue or the gap count fails on a fresh value: %q %q", l.Name, trunc(lone[0], 200), trunc(lone[gapc], 200)), vc(nil))
					break
				}
			}
			if part == 0 {
				r.Count("valhist_generated_values", 1)
				if n, err := strconv.Atoi(strings.TrimSpace(lone[gapc])); err == nil && n > 0 {
					withGap++
				}
				for i := 0; i < nAlpha; i++ {
					distinct[hash64(l.Name+"\x00"+lone[i])] = true
				}
			}
			units++
			// (1) every operation, then the combined observation; (2) for every option
			// field all ordered pairs (a, b) of the operations that name it or leave it unset
			var cs []vcase
			for a := 0; a < nAlpha; a++ {
				if a%parts == part {
					cs = append(cs, mk([]int{a, obs}))
					nObs++
				}
			}
			for gi, g := range groups {
				if gi%parts != part {
					continue
				}
				// second operations that leave the option unset are the observation of (1)
				for _, a := range g {
					for _, b := range g[2:] {
						cs = append(cs, mk([]int{a, b}))
						nPairs++
					}
				}
			}
			got, err := runCases(files, prog, cs)
			if err != nil {
				r.Violate("harness:valhist-driver", fmt.Sprintf("layout %s: %v", l.Name, err), vc(nil))
				break
			}
			for i, c := range cs {
				cases++
				evals += 2
				a, b := c.Seq[0], c.Seq[1]
				if a != b {
					r.NontrivialHash(hash64(fmt.Sprintf("valhist:%s:%d:%d", l.Name, a, b)))
				}
				if got[i] == nil {
					r.Violate("harness:valhist-decode-failed", fmt.Sprintf("layout %s does not decode", l.Name), vc(c.Seq))
					continue
				}
				if got[i][0] != lone[a] {
					r.Violate("valhist:first-evaluation-differs:"+opClass(ops[a].Name),
						fmt.Sprintf("layout %s (%s, input %x): %s on the freshly decoded value differs from the same on another fresh value: %s", l.Name, l.Prog, l.Data, ops[a].Name, firstDiff(lone[a], got[i][0])), vc(c.Seq[:1]))
				}
				if got[i][1] != lone[b] {
					r.Violate("valhist:result-depends-on-earlier-evaluation:"+opClass(ops[a].Name),
						fmt.Sprintf("layout %s (%s, input %x) decoded once: after `%s` on the decoded value, `%s` on the same value differs from its lone evaluation: %s", l.Name, l.Prog, l.Data, ops[a].Name, ops[b].Name, firstDiff(lone[b], got[i][1])), vc(c.Seq))
				}
			}
		}
	}
	r.Eval(evals)
	r.AddTransitions(evals)
	r.AddTraces(cases)
	r.Count("valhist_generated_units", units)
	r.Count("valhist_generated_values_with_a_gap_not_last", withGap)
	r.Count("valhist_generated_histories_operation_then_observation", nObs)
	r.Count("valhist_generated_histories_ordered_pairs_per_option", nPairs)
	r.Count("valhist_generated_distinct_lone_outputs", int64(len(distinct)))
	if r.ShardIdx == 0 {
		r.Count("valhist_operations", int64(nAlpha))
		r.Count("valhist_layouts", int64(len(ls)))
	}
	r.Section("value-histories-generated")
}

// opClass: the operation without its option value (signature class).
func opClass(name string) string {
	if i := strings.Index(name, ":"); i > 0 {
		return name[:i] + "})"
	}
	return name
}

func valueHistoriesCorpus(r *core.Run, ops []vop, nAlpha, obs, gapc int, prog string) {
	var jobs []freeJob
	for _, j := range freeJobs(r.Repo, int64(core.Pick(r, 4<<10, 64<<10))) {
		if j.Format != "probe" {
			jobs = append(jobs, j)
		}
	}
	sort.SliceStable(jobs, func(a, b int) bool { return jobs[a].Format < jobs[b].Format })
	var cases, evals, withGap, values, failing int64
	for ji, j := range jobs {
		if !r.Mine(int64(ji) + 1<<43) {
			continue
		}
		if r.Expired() {
			r.NotExhaustive("deadline in the value histories (corpus)")
			return
		}
		files := map[string][]byte{"in.bin": j.data}
		mk := func(seq []int) vcase {
			return vcase{File: "in.bin", Format: j.Format, Seq: seq}
		}
		vc := func(seq []int) ValHistCase {
			c := ValHistCase{Kind: "valhist", Family: "corpus", Value: j.Path, Format: j.Format}
			for _, i := range seq {
				c.Seq = append(c.Seq, ops[i].Name)
			}
			return c
		}
		// lone: the observation and the gap count, each alone, twice
		obs := gapc + 1 // the observation without the walk in jq
		var lone [2]string
		ok := true
		for k, op := range []int{obs, gapc} {
			a, err := runCases(files, prog, []vcase{mk([]int{op})})
			if err != nil {
				r.Violate("harness:valhist-driver", fmt.Sprintf("%s -d %s: %v", j.Path, j.Format, err), vc(nil))
				ok = false
				break
			}
			if a[0] == nil {
				// a sample that its format does not decode on its own (named for a sub format)
				failing++
				ok = false
				break
			}
			b, err := runCases(files, prog, []vcase{mk([]int{gapc}), mk([]int{op})})
			if err != nil || b[1] == nil || a[0][0] != b[1][0] {
				r.Violate("valhist:lone-evaluation-not-repeatable", fmt.Sprintf("%s -d %s: %s alone differs between two fresh interpreters (%v)", j.Path, j.Format, ops[op].Name, err), vc([]int{op}))
				ok = false
				break
			}
			lone[k] = a[0][0]
		}
		if !ok {
			continue
		}
		values++
		if n, err := strconv.Atoi(strings.TrimSpace(lone[1])); err == nil && n > 0 {
			withGap++
			if withGap <= 3 {
				r.Sample(map[string]any{"value_history_corpus_value_with_a_gap_not_last": j.Path, "format": j.Format})
			}
		}
		var cs []vcase
		for a := 0; a < nAlpha; a++ {
			cs = append(cs, mk([]int{a, obs}))
		}
		t0 := time.Now()
		got, err := runCases(files, prog, cs)
		if os.Getenv("C18_DEBUG") != "" {
			fmt.Printf("DEBUG valhist corpus %s -d %s %d bytes: %v\n", j.Path, j.Format, len(j.data), time.Since(t0))
		}
		if err != nil {
			r.Violate("harness:valhist-driver", fmt.Sprintf("%s -d %s: %v", j.Path, j.Format, err), vc(nil))
			continue
		}
		for i, c := range cs {
			cases++
			evals += 2
			r.NontrivialHash(hash64(fmt.Sprintf("valhist-corpus:%s:%d", j.Path, i)))
			if got[i] == nil {
				r.Violate("valhist:decode-not-repeatable", fmt.Sprintf("%s -d %s decodes alone but not after other decodes on the same interpreter", j.Path, j.Format), vc(c.Seq))
				continue
			}
			if got[i][1] != lone[0] {
				r.Violate("valhist:result-depends-on-earlier-evaluation:"+opClass(ops[c.Seq[0]].Name),
					fmt.Sprintf("%s -d %s decoded once: after `%s` on the decoded value, the observation (tovalue, keys, dv) of the same value differs from its lone evaluation: %s", j.Path, j.Format, ops[c.Seq[0]].Name, firstDiff(lone[0], got[i][1])), vc(c.Seq))
			}
		}
	}
	r.Eval(evals)
	r.AddTransitions(evals)
	r.AddTraces(cases)
	r.Count("valhist_corpus_values", values)
	r.Count("valhist_corpus_samples_not_decoding_alone", failing)
	r.Count("valhist_corpus_values_with_a_gap_not_last", withGap)
	r.Count("valhist_corpus_histories", cases)
	r.Section("value-histories-corpus")
}

// replayValHist re-runs one recorded value history and prints both observations.
func replayValHist(r *core.Run, raw json.RawMessage) bool {
	var c ValHistCase
	if err := json.Unmarshal(raw, &c); err != nil || len(c.Seq) == 0 {
		return false
	}
	ops, _, _, _, _ := valueOps()
	prog := driver(ops)
	idx := func(name string) int {
		for i, o := range ops {
			if o.Name == name {
				return i
			}
		}
		return -1
	}
	var seq []int
	for _, n := range c.Seq {
		i := idx(n)
		if i < 0 {
			fmt.Println("   unknown operation", n)
			return false
		}
		seq = append(seq, i)
	}
	var data []byte
	var opts map[string]any
	if c.Family == "generated" {
		data, _ = hex.DecodeString(c.Data)
		opts = map[string]any{"prog": c.Prog}
	} else {
		for _, j := range freeJobs(r.Repo, 64<<10) {
			if j.Path == c.Value {
				data = j.data
			}
		}
	}
	files := map[string][]byte{"in.bin": data}
	last := seq[len(seq)-1]
	lone, err1 := runCases(files, prog, []vcase{{File: "in.bin", Format: c.Format, Opts: opts, Seq: []int{last}}})
	got, err2 := runCases(files, prog, []vcase{{File: "in.bin", Format: c.Format, Opts: opts, Seq: seq}})
	if err1 != nil || err2 != nil || lone[0] == nil || got[0] == nil {
		fmt.Println("   replay failed:", err1, err2)
		return false
	}
	fmt.Printf("   %s -d %s %s: decoded once, evaluations %v\n", c.Value, c.Format, c.Prog, c.Seq)
	fmt.Printf("   lone   %s: %s\n", c.Seq[len(c.Seq)-1], trunc(lone[0][0], 600))
	fmt.Printf("   after  %v: %s\n", c.Seq[:len(c.Seq)-1], trunc(got[0][len(seq)-1], 600))
	return lone[0][0] != got[0][len(seq)-1]
}
