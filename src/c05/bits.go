package c05

import (
	"fmt"
	"math/big"

	"github.com/wader/fq/internal/bitiox"
	"github.com/wader/fq/pkg/bitio"
	"github.com/wader/fq/pkg/interp"
)

// BitBuf is a bit string held MSB first in bytes; bits beyond N in the last byte
// are zero. It is the harness' own representation of a buffer (input file, nested
// buffer predicted by the reference interpreter, or bits read back from fq).
type BitBuf struct {
	B []byte
	N int64
}

func BitBufFromBytes(b []byte) BitBuf { return BitBuf{B: b, N: int64(len(b)) * 8} }

func BitBufFromBools(bits []bool) BitBuf {
	out := make([]byte, (len(bits)+7)/8)
	for i, v := range bits {
		if v {
			out[i/8] |= 1 << (7 - uint(i%8))
		}
	}
	return BitBuf{B: out, N: int64(len(bits))}
}

// octet returns the 8 bits at bit position pos of the virtual string that is zero
// outside [lo,hi) and equal to the buffer inside.
func (b BitBuf) octet(pos, lo, hi int64) byte {
	if pos+8 <= lo || pos >= hi {
		return 0
	}
	var v uint16
	bi := pos >> 3 // floor also for negative pos
	if bi >= 0 && bi < int64(len(b.B)) {
		v = uint16(b.B[bi]) << 8
	}
	if bi+1 >= 0 && bi+1 < int64(len(b.B)) {
		v |= uint16(b.B[bi+1])
	}
	sh := uint(pos - bi*8)
	o := byte(v >> (8 - sh))
	// mask bits outside [lo,hi)
	if pos < lo {
		o &= 0xff >> uint(lo-pos)
	}
	if pos+8 > hi {
		o &= 0xff << uint(pos+8-hi)
	}
	return o
}

// Extract returns lead zero bits followed by bits [start,start+n) of b, left
// aligned (the byte form fq must produce for tobytes when lead pads to a byte
// boundary, the exact bits when lead is 0).
func (b BitBuf) Extract(start, n, lead int64) BitBuf {
	total := lead + n
	out := make([]byte, (total+7)/8)
	base := start - lead
	for j := range out {
		out[j] = b.octet(base+int64(j)*8, start, start+n)
	}
	return BitBuf{B: out, N: total}
}

// EqualRange reports whether got equals lead zero bits followed by b[start:start+n).
func (b BitBuf) EqualRange(got BitBuf, start, n, lead int64) bool {
	if got.N != lead+n {
		return false
	}
	base := start - lead
	// byte aligned fast path
	if base >= 0 && base%8 == 0 && lead == 0 && n >= 8 {
		nb := n / 8
		s := base / 8
		if s+nb > int64(len(b.B)) {
			return false
		}
		gb, bb := got.B[:nb], b.B[s:s+nb]
		for i := range gb {
			if gb[i] != bb[i] {
				return false
			}
		}
		for j := nb; j < int64(len(got.B)); j++ {
			if got.B[j] != b.octet(base+j*8, start, start+n) {
				return false
			}
		}
		return true
	}
	for j := range got.B {
		if got.B[j] != b.octet(base+int64(j)*8, start, start+n) {
			return false
		}
	}
	return true
}

func (b BitBuf) Equal(o BitBuf) bool {
	if b.N != o.N {
		return false
	}
	for i := int64(0); i < (b.N+7)/8; i++ {
		if b.B[i] != o.B[i] {
			return false
		}
	}
	return true
}

// Short renders a bit string for messages.
func (b BitBuf) Short() string {
	if b.N <= 64 {
		s := make([]byte, b.N)
		for i := int64(0); i < b.N; i++ {
			s[i] = '0' + b.B[i/8]>>(7-uint(i%8))&1
		}
		return fmt.Sprintf("%d bits %s", b.N, s)
	}
	return fmt.Sprintf("%d bits %x...", b.N, b.B[:8])
}

// ReadBinary reads, bit exact, what fq hands to every consumer of a binary or decode
// value (to_hex, decode, output): the reader of its range.
func ReadBinary(v any) (BitBuf, error) {
	br, err := interp.ToBitReader(v)
	if err != nil {
		return BitBuf{}, err
	}
	n, err := bitiox.Len(br)
	if err != nil {
		return BitBuf{}, err
	}
	buf := make([]byte, (n+7)/8)
	if n > 0 {
		got, err := bitio.ReadAtFull(br, buf, n, 0)
		if err != nil {
			return BitBuf{}, err
		}
		if got != n {
			return BitBuf{}, fmt.Errorf("short read %d of %d bits", got, n)
		}
		// bits beyond n must not leak into comparisons
		if n%8 != 0 {
			buf[len(buf)-1] &= 0xff << uint(8-n%8)
		}
	}
	return BitBuf{B: buf, N: n}, nil
}

// Int64 converts a jq number as returned by the interpreter.
func Int64(v any) (int64, bool) {
	switch x := v.(type) {
	case int:
		return int64(x), true
	case int64:
		return x, true
	case float64:
		if x == float64(int64(x)) {
			return int64(x), true
		}
	case *big.Int:
		if x.IsInt64() {
			return x.Int64(), true
		}
	}
	return 0, false
}
