//go:build verif

package interp

import "io"

// VerifC10EvalOpts returns evaluation options whose display output (what d/dd/dv/
// hexdump and the JSON printer write: EvalInstance.Output) goes to w. Interp.Eval
// with the zero EvalOpts discards that stream; the command line passes the process
// stdout here exactly like this (Main: EvalOpts{output: output}).
func VerifC10EvalOpts(w io.Writer) EvalOpts { return EvalOpts{output: w} }
