package c04

// Section tls-handshakes: complete TCP connections carrying a TLS handshake, written by
// the hand-written writer of tlswire.go, for EVERY cipher suite fq knows (table read
// from fq's ciphersuites package at run time) x protocol versions x a grid of
// ClientKeyExchange / ServerKeyExchange bodies x record layouts, decoded as a top
// level pcap file. fq decodes key exchange messages in a post pass that runs after
// both directions were decoded and gap filled; the coverage oracle of the tree part
// is applied to the pcap buffer and every nested buffer root (the two stream buffers).

import (
	"encoding/json"
	"fmt"
	"os"
	"sort"
	"strings"
	"time"

	"github.com/wader/fq/format/tls/ciphersuites"
	"github.com/wader/fq/internal/bitiox"
	"github.com/wader/fq/internal/verif/core"
	"github.com/wader/fq/internal/verif/corpus"
	"github.com/wader/fq/internal/verif/dsl"
	"github.com/wader/fq/pkg/decode"
	"github.com/wader/fq/pkg/scalar"
)

// TLSCase is the replayable unit.
type TLSCase struct {
	Kind string `json:"kind"` // "tls"
	tlsConv
}

// kxClass: key exchange class of a suite, taken from its NAME (TLS_<class>_WITH_...),
// not from fq's KeyAgreement column.
func kxClass(name string) string {
	i := strings.Index(name, "_WITH_")
	if i < 0 {
		return "-"
	}
	s := name[:i]
	s = strings.TrimPrefix(strings.TrimPrefix(s, "TLS_"), "SSL_")
	return s
}

// ckeExpect: structure of the ClientKeyExchange body per class (RFC 5246 7.4.7: RSA
// EncryptedPreMasterSecret and explicit ClientDiffieHellmanPublic are opaque<0..2^16-1>;
// RFC 4492 5.7: ECPoint opaque<1..2^8-1>; RFC 4279 / RFC 5489: psk_identity<0..2^16-1>
// followed by nothing / the DH public / the encrypted premaster / the EC point;
// RFC 5054: srp_A<1..2^16-1>). "opaque": no claim.
func ckeExpect(class string) string {
	switch class {
	case "RSA", "RSA_EXPORT", "RSA_FIPS",
		"DHE_DSS", "DHE_DSS_EXPORT", "DHE_RSA", "DHE_RSA_EXPORT", "DH_DSS", "DH_DSS_EXPORT",
		"DH_RSA", "DH_RSA_EXPORT", "DH_anon", "DH_anon_EXPORT",
		"SRP_SHA", "SRP_SHA_DSS", "SRP_SHA_RSA":
		return "v16"
	case "ECDH_ECDSA", "ECDH_RSA", "ECDH_anon", "ECDHE_ECDSA", "ECDHE_RSA":
		return "v8"
	case "PSK":
		return "psk"
	case "DHE_PSK", "RSA_PSK":
		return "psk+v16"
	case "ECDHE_PSK":
		return "psk+v8"
	}
	return "opaque"
}

// ckeWellFormed: a well-formed body shape for an expectation.
func ckeWellFormed(expect string) string {
	switch expect {
	case "v16":
		return "v16:66"
	case "v8":
		return "v8:65"
	case "psk":
		return "v16:6"
	case "psk+v16":
		return "v16:6+v16:34"
	case "psk+v8":
		return "v16:6+v8:65"
	}
	return "v16:34"
}

// skeleton of a body shape: the vector kinds in order ("raw" parts are not vectors).
func shapeSkeleton(shape string) string {
	if shape == "" {
		return ""
	}
	var k []string
	for _, p := range strings.Split(shape, "+") {
		k = append(k, strings.SplitN(p, ":", 2)[0])
	}
	return strings.Join(k, "+")
}

func ckeIsWellFormed(expect, shape string) bool {
	sk := shapeSkeleton(shape)
	switch expect {
	case "v16", "psk":
		return sk == "v16"
	case "v8":
		return sk == "v8" && shape != "v8:0"
	case "psk+v16":
		return sk == "v16+v16"
	case "psk+v8":
		return sk == "v16+v8"
	}
	return true
}

// skeWellFormed: the ServerKeyExchange body shape for a class and version, "-" when the
// message is not sent (RFC 5246 7.4.3, RFC 4492 5.4, RFC 4279 2-4, RFC 5489 2). Signed
// parameters carry a SignatureAndHashAlgorithm only in TLS 1.2.
func skeWellFormed(class string, ver uint16) string {
	// (fill 'a': the signature starts 00 01 .., so a reader that takes its first bytes for
	// something else sees small numbers)
	sig := "+v16:32"
	if ver == 0x0303 {
		sig = "+hex:0401+v16:32"
	}
	const ecParams = "hex:030017+v8:65"
	const dhParams = "v16:32+v16:1:b+v16:32"
	switch class {
	case "ECDHE_ECDSA", "ECDHE_RSA":
		return ecParams + sig
	case "ECDH_anon":
		return ecParams
	case "DHE_DSS", "DHE_RSA", "DHE_DSS_EXPORT", "DHE_RSA_EXPORT":
		return dhParams + sig
	case "DH_anon", "DH_anon_EXPORT":
		return dhParams
	case "PSK", "RSA_PSK":
		return "v16:4" // psk_identity_hint
	case "DHE_PSK":
		return "v16:4+" + dhParams
	case "ECDHE_PSK":
		return "v16:4+" + ecParams
	}
	return "-"
}

// skeFamily: what the ServerKeyExchange of a class consists of (for signatures).
func skeFamily(class string) string {
	switch class {
	case "ECDHE_ECDSA", "ECDHE_RSA":
		return "ec-signed"
	case "ECDH_anon":
		return "ec-anon"
	case "DHE_DSS", "DHE_RSA", "DHE_DSS_EXPORT", "DHE_RSA_EXPORT":
		return "dh-signed"
	case "DH_anon", "DH_anon_EXPORT":
		return "dh-anon"
	case "PSK", "RSA_PSK":
		return "psk-hint"
	case "DHE_PSK":
		return "psk-hint+dh"
	case "ECDHE_PSK":
		return "psk-hint+ec"
	case "RSA", "DH_DSS", "DH_RSA", "ECDH_ECDSA", "ECDH_RSA":
		return "not-sent"
	}
	return "opaque"
}

// structuredByPostPass: classes for which fq replaced the ClientKeyExchange placeholder
// by a structure when this section was written. Only used for the non-vacuity
// assertion (the post pass ran); more classes may be structured (they are counted).
var structuredByPostPass = map[string]bool{
	"RSA": true, "DHE_DSS": true, "DHE_RSA": true, "DH_DSS": true, "DH_RSA": true, "DH_anon": true,
	"ECDH_ECDSA": true, "ECDH_RSA": true, "ECDH_anon": true, "ECDHE_ECDSA": true, "ECDHE_RSA": true,
}

type suiteInfo struct {
	id    uint16
	name  string
	class string
	known bool
	// fq's table has a key agreement for the suite (for some suites, e.g. the CCM ones, the
	// generated table says UNKNOWN although the name carries one; fq leaves those alone)
	fqClassified bool
}

// suiteTable: every 16 bit suite id of fq's table (sorted) plus two ids fq does not know.
func suiteTable() (all []suiteInfo, tooWide int) {
	var ids []int
	for id := range ciphersuites.Suits {
		ids = append(ids, id)
	}
	sort.Ints(ids)
	for _, id := range ids {
		if id < 0 || id > 0xffff {
			tooWide++ // SSLv2 three byte cipher kinds cannot be selected by a ServerHello
			continue
		}
		n := ciphersuites.Suits[id].Name
		all = append(all, suiteByID(uint16(id)))
		_ = n
	}
	added := 0
	for _, id := range []int{0x0a0a, 0xfffe, 0xeeee, 0x7a7a, 0x1234} {
		if _, ok := ciphersuites.Suits[id]; !ok && added < 2 {
			all = append(all, suiteByID(uint16(id)))
			added++
		}
	}
	return all, tooWide
}

func suiteByID(id uint16) suiteInfo {
	if s, ok := ciphersuites.Suits[int(id)]; ok {
		return suiteInfo{id, s.Name, kxClass(s.Name), true, s.KeyAgreement != ciphersuites.UNKNOWN_KeyAgreement}
	}
	return suiteInfo{id, fmt.Sprintf("unknown_%04x", id), "-", false, false}
}

var tlsVersions = []uint16{0x0303, 0x0301, 0x0302, 0x0300}

func verName(v uint16) string {
	switch v {
	case 0x0300:
		return "ssl3.0"
	case 0x0301:
		return "tls1.0"
	case 0x0302:
		return "tls1.1"
	case 0x0303:
		return "tls1.2"
	}
	return fmt.Sprintf("%04x", v)
}

// ckeGrid: lengths {0,1,2,3,34,66,130} of position dependent bytes without, with a one
// byte and with a two byte length in front; the unprefixed ones with two fills (first
// bytes read as a small / as a huge length); PSK style pairs of vectors.
func ckeGrid() []string {
	var g []string
	for _, n := range []int{0, 1, 2, 3, 34, 66, 130} {
		g = append(g, fmt.Sprintf("raw:%d:a", n))
		if n > 0 {
			g = append(g, fmt.Sprintf("raw:%d:b", n))
		}
		g = append(g, fmt.Sprintf("v8:%d", n), fmt.Sprintf("v16:%d", n))
	}
	for _, id := range []int{0, 6} {
		for _, n := range []int{0, 34} {
			g = append(g, fmt.Sprintf("v16:%d+v16:%d", id, n), fmt.Sprintf("v16:%d+v8:%d", id, n))
		}
	}
	// a vector followed by bytes that belong to nothing
	g = append(g, "v16:34+raw:3:b", "v8:34+raw:3:b")
	return g
}

func skeGrid() []string {
	return []string{
		"-", "", "raw:34:a", "raw:34:b",
		skeWellFormed("ECDHE_RSA", 0x0303), skeWellFormed("ECDHE_RSA", 0x0301), skeWellFormed("ECDH_anon", 0x0303),
		skeWellFormed("DHE_RSA", 0x0303), skeWellFormed("DHE_RSA", 0x0301), skeWellFormed("DH_anon", 0x0303),
		skeWellFormed("PSK", 0x0303), skeWellFormed("DHE_PSK", 0x0303), skeWellFormed("ECDHE_PSK", 0x0303),
		skeWellFormed("ECDHE_RSA", 0x0303) + "+raw:3:b",
	}
}

var tlsLayouts = []string{"rec", "flight", "segsplit", "recsplit"}

// tlsObs is what the harness reads off the decoded tree besides coverage.
type tlsObs struct {
	pcapErr       bool
	formats       [2]string // client, server stream format ("" = raw)
	hsTypes       [2][]int  // handshake message types of plain handshake records
	ccs           [2]int
	encrypted     [2]int
	ckeChildren   []string // names of the children of the client_key_exchange message
	skeChildren   []string
	buffersJudged int
}

func childNames(v *decode.Value) []string {
	c, ok := v.V.(*decode.Compound)
	if !ok {
		return nil
	}
	var n []string
	for _, ch := range c.Children {
		n = append(n, ch.Name)
	}
	return n
}

func child(v *decode.Value, name string) *decode.Value {
	if v == nil {
		return nil
	}
	c, ok := v.V.(*decode.Compound)
	if !ok {
		return nil
	}
	for _, ch := range c.Children {
		if ch.Name == name {
			return ch
		}
	}
	return nil
}

func uintOf(v *decode.Value) (uint64, bool) {
	if v == nil {
		return 0, false
	}
	if u, ok := v.V.(*scalar.Uint); ok {
		return u.Actual, true
	}
	return 0, false
}

func observeTLS(top *decode.Value) tlsObs {
	var o tlsObs
	o.pcapErr = top.Err != nil
	conns := child(top, "tcp_connections")
	if conns == nil {
		return o
	}
	cc, _ := conns.V.(*decode.Compound)
	if cc == nil || len(cc.Children) != 1 {
		return o
	}
	for di, dir := range []string{"client", "server"} {
		st := child(child(cc.Children[0], dir), "stream")
		if st == nil || st.Format == nil {
			continue
		}
		o.formats[di] = st.Format.Name
		recs := child(st, "records")
		if recs == nil {
			continue
		}
		rc, _ := recs.V.(*decode.Compound)
		if rc == nil {
			continue
		}
		for _, rec := range rc.Children {
			typ, _ := uintOf(child(rec, "type"))
			if child(rec, "encrypted_data") != nil {
				o.encrypted[di]++
				continue
			}
			msg := child(rec, "message")
			if msg == nil {
				continue
			}
			switch typ {
			case recCCS:
				o.ccs[di]++
			case recHandshake:
				mt, ok := uintOf(child(msg, "type"))
				if !ok {
					continue
				}
				o.hsTypes[di] = append(o.hsTypes[di], int(mt))
				if mt == hsClientKeyExchange {
					o.ckeChildren = childNames(msg)
				}
				if mt == hsServerKeyExchange {
					o.skeChildren = childNames(msg)
				}
			}
		}
	}
	return o
}

func hasName(names []string, n string) bool {
	for _, x := range names {
		if x == n {
			return true
		}
	}
	return false
}

func intsEq(a, b []int) bool {
	if len(a) != len(b) {
		return false
	}
	for i := range a {
		if a[i] != b[i] {
			return false
		}
	}
	return true
}

// judgeTLS builds, decodes and judges one conversation.
func judgeTLS(c tlsConv) (fs []finding, o tlsObs, err error) {
	b, err := c.build()
	if err != nil {
		return nil, o, err
	}
	res := corpus.Decode(b.pcap, "pcap", false, 60*time.Second)
	if res.TimedOut {
		return nil, o, fmt.Errorf("decode timed out")
	}
	if res.Panic != nil {
		return nil, o, fmt.Errorf("decoder crashed (property C06): %v", res.Panic)
	}
	top := res.Value
	if top == nil {
		return []finding{{"tls-handshakes:vacuous:pcap-not-decoded", fmt.Sprintf("the capture was not decoded as pcap: %v", res.Err)}}, o, nil
	}
	o = observeTLS(top)
	s := suiteByID(c.Suite)
	expect := ckeExpect(s.class)

	// the writer's streams are what fq reassembled (else the labels below mean nothing)
	streams := map[string][]byte{"client": b.client, "server": b.server}
	spans := map[string][]span{"client": b.cspans, "server": b.sspans}

	for _, rv := range dsl.BufferRoots(top) {
		if rv != top && rv.Format == nil {
			continue // raw nested buffer, one leaf, no gap filling
		}
		l, lerr := bitiox.Len(rv.RootReader)
		if lerr != nil {
			continue
		}
		fname := rv.Format.Name
		path := dsl.PathOf(rv)
		where := path + " (" + fname + ")"
		dir := ""
		switch {
		case strings.HasSuffix(path, ".client.stream"):
			dir = "client"
		case strings.HasSuffix(path, ".server.stream"):
			dir = "server"
		}
		if _, ok := rv.V.(*decode.Compound); !ok {
			continue
		}
		buf, berr := dsl.ReaderBits(rv.RootReader)
		if berr != nil {
			continue
		}
		o.buffersJudged++
		if dir != "" {
			want := []bool(core.BitsFromBytes(streams[dir]))
			same := len(want) == len(buf)
			for i := 0; same && i < len(want); i++ {
				same = want[i] == buf[i]
			}
			if !same {
				fs = append(fs, finding{"tls-handshakes:stream-differs-from-sent:" + dir, fmt.Sprintf("%s: the stream buffer (%d bits) is not the byte stream the writer sent (%d bits)", where, len(buf), len(want))})
				continue
			}
		}
		for _, f := range judgeRegion(where, rv, 0, l, buf) {
			switch f.sig {
			case "gaps:adjacency-plus-one-swallows-one-bit-hole":
				fs = append(fs, f)
			case "tree:uncovered-bit":
				fs = append(fs, labelHoles(c, s, expect, where, dir, rv, l, spans[dir])...)
			default:
				fs = append(fs, finding{"tls-handshakes:" + f.sig + ":" + fname, f.msg})
			}
		}
	}
	return fs, o, nil
}

// labelHoles: one finding per uncovered run, named after what the writer put there.
func labelHoles(c tlsConv, s suiteInfo, expect, where, dir string, rv *decode.Value, l int64, sp []span) []finding {
	field, gap, _, _, _, _ := dsl.RegionCoverage(rv, 0, l)
	var out []finding
	seen := map[string]bool{}
	for b := int64(0); b < l; b++ {
		if field[b] != 0 || gap[b] != 0 {
			continue
		}
		e := b
		for e < l && field[e] == 0 && gap[e] == 0 {
			e++
		}
		label := "?"
		if dir != "" {
			label = labelAt(sp, int(b/8))
		}
		sig := "tls-handshakes:uncovered-bit:" + dir + ":" + label
		switch label {
		case "client_key_exchange.body":
			wf := "malformed"
			if ckeIsWellFormed(expect, c.CKE) {
				wf = "wellformed"
			}
			sig += ":kx=" + expect + ":body=" + wf
		case "server_key_exchange.body":
			// (a well-formed body depends on the version: it goes into the signature then)
			wf := "malformed"
			if w := skeWellFormed(s.class, c.Ver); w != "-" && w == c.SKE {
				wf = "wellformed:" + verName(c.Ver)
			}
			sig += ":kx=" + skeFamily(s.class) + ":body=" + wf
		}
		if !seen[sig] {
			seen[sig] = true
			out = append(out, finding{sig, fmt.Sprintf("%s: bits %d..%d (bytes %d..%d of the %s stream, written as %s) are neither in a field nor in a gap field", where, b, e, b/8, (e+7)/8, dir, label)})
		}
		b = e
	}
	return out
}

// vacuity: what has to be in the tree for the case to have exercised anything.
func vacuity(c tlsConv, o tlsObs) []finding {
	var fs []finding
	s := suiteByID(c.Suite)
	v := func(what, msg string) { fs = append(fs, finding{"tls-handshakes:vacuous:" + what, msg}) }
	if o.formats[0] != "tls" && c.Layout != "recsplit" {
		v("client-not-tls", fmt.Sprintf("client stream decoded as %q, not tls", o.formats[0]))
	}
	serverFragmented := c.Layout == "recsplit" && c.SKE != "-" && c.SKE != ""
	if o.formats[1] != "tls" && !serverFragmented {
		v("server-not-tls", fmt.Sprintf("server stream decoded as %q, not tls", o.formats[1]))
	}
	if len(fs) > 0 || o.formats[0] != "tls" || o.formats[1] != "tls" {
		return fs
	}
	// handshake messages by type (fq decodes the first message of a record)
	wantC := []int{hsClientHello, hsClientKeyExchange}
	wantS := []int{hsServerHello}
	if c.Layout != "flight" {
		if c.Cert {
			wantS = append(wantS, hsCertificate)
		}
		if c.SKE != "-" {
			wantS = append(wantS, hsServerKeyExchange)
		}
		wantS = append(wantS, hsServerHelloDone)
	}
	if !intsEq(o.hsTypes[0], wantC) {
		v("client-handshake-messages", fmt.Sprintf("client handshake message types %v, sent %v", o.hsTypes[0], wantC))
	}
	if !intsEq(o.hsTypes[1], wantS) {
		v("server-handshake-messages", fmt.Sprintf("server handshake message types %v, sent %v", o.hsTypes[1], wantS))
	}
	if o.ccs[0] != 1 || o.ccs[1] != 1 {
		v("change-cipher-spec", fmt.Sprintf("change_cipher_spec records client %d server %d, sent 1 each", o.ccs[0], o.ccs[1]))
	}
	nEnc := 1
	if c.App {
		nEnc = 2
	}
	if o.encrypted[0] != nEnc || o.encrypted[1] != nEnc {
		v("encrypted-records", fmt.Sprintf("encrypted records client %d server %d, sent %d each", o.encrypted[0], o.encrypted[1], nEnc))
	}
	// the post pass ran
	if len(fs) == 0 && structuredByPostPass[s.class] && s.fqClassified && c.Ver != 0x0300 && ckeIsWellFormed(ckeExpect(s.class), c.CKE) && !o.pcapErr {
		if hasName(o.ckeChildren, "data") || len(o.ckeChildren) != 3 {
			v("post-pass-did-not-run:"+s.class, fmt.Sprintf("client_key_exchange of %s (%s) has the children %v: the placeholder was not replaced by a structure", s.name, verName(c.Ver), o.ckeChildren))
		}
	}
	return fs
}

func tlsHandshakes(r *core.Run) {
	suites, tooWide := suiteTable()
	grid := ckeGrid()
	skes := skeGrid()
	r.Rule("tls-handshakes: every cipher suite id of fq's table (+2 unknown ids) x versions {ssl3.0, tls1.0, 1.1, 1.2} x ClientKeyExchange body grid x ServerKeyExchange grid x record layouts, as a complete TCP connection in a pcap decoded at top level: coverage bitmap of the pcap buffer and of both stream buffers; non-trivial = both directions decoded as tls with the handshake messages found by type")

	// representatives: the first suite of every key exchange class (by name)
	var reps []suiteInfo
	seenClass := map[string]bool{}
	for _, s := range suites {
		k := s.class
		if !s.known {
			k = "unknown-id"
		}
		if !seenClass[k] {
			seenClass[k] = true
			reps = append(reps, s)
		}
	}

	idx := int64(1) << 41
	var evals, nCases int64
	stop := false
	run := func(c tlsConv) {
		idx++
		if stop || !r.Mine(idx) {
			return
		}
		if r.Expired() {
			r.NotExhaustive("deadline during the tls-handshakes enumeration")
			stop = true
			return
		}
		s := suiteByID(c.Suite)
		desc := fmt.Sprintf("tls %s(%04x) %s cke=%s ske=%s cert=%v app=%v layout=%s", s.name, c.Suite, verName(c.Ver), c.CKE, c.SKE, c.Cert, c.App, c.Layout)
		r.Case(idx, desc)
		fs, o, err := judgeTLS(c)
		evals++
		nCases++
		if err != nil {
			r.Inconclusive(desc + ": " + err.Error())
			r.Count("tls_inconclusive", 1)
			return
		}
		fs = append(fs, vacuity(c, o)...)
		for _, f := range fs {
			r.Violate(f.sig, desc+": "+f.msg, TLSCase{Kind: "tls", tlsConv: c})
		}
		r.Count("tls_buffers_judged", int64(o.buffersJudged))
		if o.formats[0] == "tls" && o.formats[1] == "tls" {
			r.Count("tls_both_directions_tls", 1)
			r.Nontrivial(desc)
		} else {
			r.Count("tls_direction_not_tls(fragmented handshake message)", 1)
		}
		if o.pcapErr {
			r.Count("tls_pcap_decode_error(post pass failed)", 1)
		}
		if len(o.ckeChildren) > 0 && !hasName(o.ckeChildren, "data") {
			r.Count("tls_post_pass_structured_cke", 1)
			r.Count("tls_post_pass_structured_cke:"+s.class, 1)
		}
		if len(o.skeChildren) > 0 && !hasName(o.skeChildren, "data") {
			r.Count("tls_post_pass_structured_ske", 1)
		}
		if nCases%977 == 1 {
			r.Sample(map[string]any{"tls_case": desc})
		}
	}

	full := r.Thorough()
	if full {
		// the full product
		for _, s := range suites {
			for _, ver := range tlsVersions {
				for _, lay := range tlsLayouts {
					for _, cke := range grid {
						run(tlsConv{Suite: s.id, Ver: ver, CKE: cke, SKE: skeWellFormed(s.class, ver), Cert: true, Ext: true, App: true, Layout: lay})
					}
					wf := ckeWellFormed(ckeExpect(s.class))
					for _, ske := range skes {
						run(tlsConv{Suite: s.id, Ver: ver, CKE: wf, SKE: ske, Cert: false, Ext: false, App: false, Layout: lay})
					}
				}
			}
		}
	} else {
		// (a) every suite x {well-formed body for its class, 34 unprefixed bytes} x every version, one record per message
		for _, s := range suites {
			wf := ckeWellFormed(ckeExpect(s.class))
			for _, ver := range tlsVersions {
				for _, cke := range []string{wf, "raw:34:a"} {
					run(tlsConv{Suite: s.id, Ver: ver, CKE: cke, SKE: skeWellFormed(s.class, ver), Cert: true, Ext: true, App: ver == 0x0303, Layout: "rec"})
				}
			}
		}
		// (b) one suite per key exchange class x all versions x all layouts x {all bodies, all ServerKeyExchange shapes}
		for _, s := range reps {
			wf := ckeWellFormed(ckeExpect(s.class))
			for _, ver := range tlsVersions {
				for _, lay := range tlsLayouts {
					for _, cke := range grid {
						run(tlsConv{Suite: s.id, Ver: ver, CKE: cke, SKE: skeWellFormed(s.class, ver), Cert: lay == "rec", Ext: true, App: false, Layout: lay})
					}
					for _, ske := range skes {
						run(tlsConv{Suite: s.id, Ver: ver, CKE: wf, SKE: ske, Cert: false, Ext: false, App: false, Layout: lay})
					}
				}
			}
		}
	}
	r.Eval(evals)
	r.Count("tls_captures", nCases)
	if r.ShardIdx == 0 {
		classes := map[string]int{}
		for _, s := range suites {
			classes[s.class]++
		}
		r.Extra("tls_suites_enumerated", len(suites))
		r.Extra("tls_suite_ids_wider_than_16_bits_skipped", tooWide)
		r.Extra("tls_key_exchange_classes", classes)
		r.Extra("tls_cke_body_grid", grid)
		r.Extra("tls_ske_body_grid", skes)
		r.Extra("tls_layouts", tlsLayouts)
	}
	if !stop {
		r.Section("tls-handshakes")
	}
}

func replayTLS(raw json.RawMessage) bool {
	var c TLSCase
	if err := json.Unmarshal(raw, &c); err != nil {
		fmt.Println(err)
		return false
	}
	fs, o, err := judgeTLS(c.tlsConv)
	if err != nil {
		fmt.Println("  inconclusive:", err)
		return false
	}
	fs = append(fs, vacuity(c.tlsConv, o)...)
	s := suiteByID(c.Suite)
	fmt.Printf("  suite %s (%04x) class %s, %s, ClientKeyExchange body %q (expected structure %s), ServerKeyExchange body %q, layout %s\n", s.name, c.Suite, s.class, verName(c.Ver), c.CKE, ckeExpect(s.class), c.SKE, c.Layout)
	fmt.Printf("  decoded: streams client=%q server=%q, handshake types client=%v server=%v, pcap error=%v\n  client_key_exchange children %v, server_key_exchange children %v, buffers judged %d\n", o.formats[0], o.formats[1], o.hsTypes[0], o.hsTypes[1], o.pcapErr, o.ckeChildren, o.skeChildren, o.buffersJudged)
	if os.Getenv("VERIF_TLS_DUMP") != "" {
		if b, err := c.tlsConv.build(); err == nil {
			_ = os.WriteFile(os.Getenv("VERIF_TLS_DUMP"), b.pcap, 0o644)
		}
	}
	for _, f := range fs {
		fmt.Printf("  %s %s\n", f.sig, f.msg)
	}
	return len(fs) > 0
}
