package c10

import (
	"bytes"
	"fmt"

	"github.com/wader/fq/internal/verif/core"
	"github.com/wader/fq/internal/verif/fqrun"
	"github.com/wader/fq/pkg/interp"
)

// sess is one in-process fq interpreter whose display stream is captured.
type sess struct {
	s   *fqrun.Session
	buf bytes.Buffer
}

func newSess() *sess {
	s, err := fqrun.NewSession(nil)
	if err != nil {
		panic(err)
	}
	x := &sess{s: s}
	// what the command line does before evaluating anything (init.jq _main): push the
	// built-in default options; without it options() has no defaults at all
	if _, err := x.eval(nil, `_options_stack([_opt_build_default_fixed]) | empty`, nil); err != nil {
		panic(fmt.Sprintf("c10: cannot initialise the option stack: %v", err))
	}
	return x
}

// eval runs expr with input c. Every output value is handed to fn together with the
// display output printed since the previous output value (the driver programs emit
// one marker value after each case). Returns the display output left at the end.
func (x *sess) eval(c any, expr string, fn func(v any, printed string)) (rest string, err error) {
	x.buf.Reset()
	pv, stack := core.Protect(func() {
		it, e := x.s.I.Eval(x.s.Ctx, c, expr, interp.VerifC10EvalOpts(&x.buf))
		if e != nil {
			err = e
			return
		}
		for {
			v, ok := it.Next()
			if !ok {
				break
			}
			if e, ok := v.(error); ok {
				err = e
				break
			}
			if fn != nil {
				fn(v, x.buf.String())
			}
			x.buf.Reset()
		}
	})
	if pv != nil {
		return x.buf.String(), &fqrun.PanicError{Value: pv, Stack: stack}
	}
	return x.buf.String(), err
}
