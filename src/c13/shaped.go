package c13

// Shaped option values. The single-member option objects of pool.go give every
// option key a scalar boundary value; options whose value is a structure (byte_colors:
// array of {ranges: [[lo,hi]], value}, colors: object of strings, ...) never get a
// value of the right shape that way. Here the default value of every structured option
// (read from the live `options` object) is mutated one site at a time - every number
// leaf to {-1, 256, 2^16}, every string leaf to {"", "a"}, every array emptied and its
// first element doubled, every object member dropped - and each mutated value is passed
// alone and together with every boolean option that is off by default switched on
// (color, verbose, unicode, ...: the code that consumes a structured option is often
// only reached in such a mode), to every function that hands an argument to options/1,
// on a reduced input set (one value per jq type and decode value kind).

import (
	"fmt"
	"sort"
)

type shapedOpt struct {
	expr string // jq text of the object
	val  map[string]any
}

func jsonText(v any) string {
	switch x := v.(type) {
	case nil:
		return "null"
	case bool:
		if x {
			return "true"
		}
		return "false"
	case int:
		return fmt.Sprint(x)
	case float64:
		if x == float64(int64(x)) {
			return fmt.Sprint(int64(x))
		}
		return fmt.Sprint(x)
	case string:
		return fmt.Sprintf("%q", x)
	case []any:
		s := "["
		for i, e := range x {
			if i > 0 {
				s += ","
			}
			s += jsonText(e)
		}
		return s + "]"
	case map[string]any:
		ks := make([]string, 0, len(x))
		for k := range x {
			ks = append(ks, k)
		}
		sort.Strings(ks)
		s := "{"
		for i, k := range ks {
			if i > 0 {
				s += ","
			}
			s += fmt.Sprintf("%q:%s", k, jsonText(x[k]))
		}
		return s + "}"
	}
	return fmt.Sprintf("%v", v)
}

// mutations returns every single-site mutation of v (deep copies).
func mutations(v any) []any {
	var out []any
	switch x := v.(type) {
	case int, float64:
		out = append(out, -1, 256, 65536)
	case string:
		out = append(out, "", "a")
	case []any:
		out = append(out, []any{})
		if len(x) > 0 {
			out = append(out, append([]any{deepCopy(x[0])}, deepCopy(x).([]any)...))
		}
		for i := range x {
			for _, m := range mutations(x[i]) {
				c := deepCopy(x).([]any)
				c[i] = m
				out = append(out, c)
			}
		}
	case map[string]any:
		ks := make([]string, 0, len(x))
		for k := range x {
			ks = append(ks, k)
		}
		sort.Strings(ks)
		for _, k := range ks {
			c := deepCopy(x).(map[string]any)
			delete(c, k)
			out = append(out, c)
			for _, m := range mutations(x[k]) {
				c := deepCopy(x).(map[string]any)
				c[k] = m
				out = append(out, c)
			}
		}
	}
	return out
}

// shapedOptions builds the objects from the live defaults (opts = `options`).
func shapedOptions(opts map[string]any, thorough bool) []shapedOpt {
	var keys, bools []string
	for k, v := range opts {
		switch x := v.(type) {
		case []any:
			if len(x) > 0 {
				keys = append(keys, k)
			}
		case map[string]any:
			if len(x) > 0 {
				keys = append(keys, k)
			}
		case bool:
			if !x {
				bools = append(bools, k)
			}
		}
	}
	sort.Strings(keys)
	sort.Strings(bools)
	var out []shapedOpt
	for _, k := range keys {
		ms := mutations(opts[k])
		if !thorough {
			// quick: for an object valued option (colors) only the mutations of its first
			// three members (the members are handled by one loop)
			if m, ok := opts[k].(map[string]any); ok && len(m) > 3 {
				ms = ms[:9]
			}
		}
		for _, m := range ms {
			add := func(extra string) {
				o := map[string]any{k: deepCopy(m)}
				if extra != "" {
					o[extra] = true
				}
				out = append(out, shapedOpt{expr: jsonText(o), val: o})
			}
			add("")
			for _, b := range bools {
				add(b)
			}
		}
	}
	return out
}
