#!/usr/bin/env python3
# usage: seedmeta.py <seed-id> detected|missed "<text>"   (records the outcome of a strengthening in seeded/<id>/meta.json)
import json,sys
i,kind,text=sys.argv[1:4]
p=f'/verif/seeded/{i}/meta.json'
m=json.load(open(p))
if kind=='detected':
    m['detected_by_check']=True; m['detected_after']=text
    m.setdefault('first_run_detected', False)
else:
    m['detected_by_check']=False; m['why_missed']=text
json.dump(m,open(p,'w'),indent=1)
