package c06

import (
	"bytes"
	"fmt"
)

// The mutation family is a finite grid of points (operator, offset, value) that is
// the same for every seed; a point applies to a seed when the bytes it touches exist
// and the result differs from the seed. The canonical grid order (see Grid) is the
// enumeration order, so a deadline leaves a prefix of the grid that was applied to
// *every* seed.

type Mut struct {
	Op  string `json:"op"`  // intact trunc tail byte w2 w4 rm1 rm4 rm16 rm512 dup1 dup4 dup16 dup512 | structural: rmv dupv swapv zerov (Off = start byte, Val = length of the value's range)
	Off int    `json:"off"` // trunc: resulting length; tail: bytes cut from the end; else byte offset
	Val int    `json:"val"` // index into the operator's value table
}

func (m Mut) String() string {
	switch m.Op {
	case "intact":
		return "intact"
	case "trunc":
		return fmt.Sprintf("trunc@%d", m.Off)
	case "tail":
		return fmt.Sprintf("trunc@len-%d", m.Off)
	case "byte":
		return fmt.Sprintf("byte@%d=%s", m.Off, byteValNames[m.Val])
	case "w2", "w4":
		return fmt.Sprintf("%s@%d=%s", m.Op, m.Off, winValNames[m.Val])
	}
	if isStructural(m.Op) {
		return fmt.Sprintf("%s[%d:%d]", m.Op, m.Off, m.Off+m.Val)
	}
	if m.Op == "chv" {
		return fmt.Sprintf("chv@%d=%q", m.Off, byte(m.Val))
	}
	if m.Op == "ch2v" {
		return fmt.Sprintf("ch2v@%d=%q", m.Off, textPairs[m.Val])
	}
	return fmt.Sprintf("%s@%d", m.Op, m.Off)
}

var structuralOps = []string{"rmv", "dupv", "swapv", "zerov", "onesv"}

// chv: one byte of a text leaf replaced by a character that number and name parsers treat
// specially (Off = byte offset, Val = the character)
var textChars = []byte{'-', '9', '+', ' ', '.'}

// ch2v: two adjacent bytes of a text leaf replaced by a signed number (Val = index)
var textPairs = []string{"-1", "-9", "+1"}

func isStructural(op string) bool {
	for _, o := range structuralOps {
		if o == op {
			return true
		}
	}
	return false
}

var byteValNames = []string{"00", "ff", "7f", "80", "b^01", "b^80"}

// window values: all zero, all one, largest positive and most negative signed
// value in big and little endian (00.. and ff.. are the same in both endians).
var winValNames = []string{"00..", "ff..", "7fff..be", "7fff..le", "8000..be", "8000..le"}

var blockSizes = []int{1, 4, 16, 512}

func winBytes(w, val int) []byte {
	b := make([]byte, w)
	switch val {
	case 0:
	case 1:
		for i := range b {
			b[i] = 0xff
		}
	case 2: // 7fff.. big endian
		for i := range b {
			b[i] = 0xff
		}
		b[0] = 0x7f
	case 3: // 7fff.. little endian
		for i := range b {
			b[i] = 0xff
		}
		b[w-1] = 0x7f
	case 4: // 8000.. big endian
		b[0] = 0x80
	case 5: // 8000.. little endian
		b[w-1] = 0x80
	}
	return b
}

// Grid returns every point of the family for bounds T (truncation) and O (offsets),
// in enumeration order: the tail truncations first, then offset major (all operators
// and values at offset 0, then at offset 1, ...), so that a deadline leaves "every
// operator at every offset < X" rather than "some operators at all offsets".
func Grid(T, O int) []Mut {
	var g []Mut
	for k := 8; k >= 1; k-- {
		g = append(g, Mut{"tail", k, 0})
	}
	max := T
	if O-1 > max {
		max = O - 1
	}
	for off := 0; off <= max; off++ {
		if off <= T {
			g = append(g, Mut{"trunc", off, 0})
		}
		if off >= O {
			continue
		}
		for v := range byteValNames {
			g = append(g, Mut{"byte", off, v})
		}
		for _, w := range []int{2, 4} {
			if off%w == 0 {
				for v := range winValNames {
					g = append(g, Mut{fmt.Sprintf("w%d", w), off, v})
				}
			}
		}
		for _, b := range blockSizes {
			if off%b == 0 {
				g = append(g, Mut{fmt.Sprintf("rm%d", b), off, 0}, Mut{fmt.Sprintf("dup%d", b), off, 0})
			}
		}
	}
	return g
}

func blockOf(op string) (kind string, size int) {
	switch op {
	case "rm1":
		return "rm", 1
	case "rm4":
		return "rm", 4
	case "rm16":
		return "rm", 16
	case "rm512":
		return "rm", 512
	case "dup1":
		return "dup", 1
	case "dup4":
		return "dup", 4
	case "dup16":
		return "dup", 16
	case "dup512":
		return "dup", 512
	}
	return "", 0
}

// Applies reports whether the point yields a byte string different from the seed
// (and not already produced by an earlier point of the same operator class). T is
// needed to fold the tail truncations that coincide with a head truncation.
func (m Mut) Applies(seed []byte, T int) bool {
	n := len(seed)
	switch m.Op {
	case "intact":
		return true
	case "trunc":
		return m.Off < n
	case "tail":
		l := n - m.Off
		return l > T // l <= T is the point trunc@l
	case "byte":
		if m.Off >= n {
			return false
		}
		return byteVal(seed[m.Off], m.Val) != seed[m.Off]
	case "w2", "w4":
		w := 2
		if m.Op == "w4" {
			w = 4
		}
		if m.Off+w > n {
			return false
		}
		return !bytes.Equal(seed[m.Off:m.Off+w], winBytes(w, m.Val))
	}
	if k, _ := blockOf(m.Op); k != "" {
		return m.Off < n
	}
	if m.Op == "chv" {
		return m.Off >= 0 && m.Off < n && seed[m.Off] != byte(m.Val)
	}
	if m.Op == "ch2v" {
		return m.Off >= 0 && m.Off+2 <= n && m.Val < len(textPairs) && string(seed[m.Off:m.Off+2]) != textPairs[m.Val]
	}
	if isStructural(m.Op) {
		if m.Val <= 0 || m.Off < 0 || m.Off+m.Val > n {
			return false
		}
		switch m.Op {
		case "swapv":
			return m.Off+2*m.Val <= n && !bytes.Equal(seed[m.Off:m.Off+m.Val], seed[m.Off+m.Val:m.Off+2*m.Val])
		case "zerov":
			return !bytes.Equal(seed[m.Off:m.Off+m.Val], make([]byte, m.Val))
		}
		return true
	}
	return false
}

func byteVal(b byte, val int) byte {
	switch val {
	case 0:
		return 0x00
	case 1:
		return 0xff
	case 2:
		return 0x7f
	case 3:
		return 0x80
	case 4:
		return b ^ 0x01
	}
	return b ^ 0x80
}

// Apply builds the mutated byte string (always a fresh slice).
func (m Mut) Apply(seed []byte) []byte {
	n := len(seed)
	switch m.Op {
	case "trunc":
		l := m.Off
		if l > n {
			l = n
		}
		return append([]byte{}, seed[:l]...)
	case "tail":
		l := n - m.Off
		if l < 0 {
			l = 0
		}
		return append([]byte{}, seed[:l]...)
	case "byte":
		d := append([]byte{}, seed...)
		if m.Off < n {
			d[m.Off] = byteVal(d[m.Off], m.Val)
		}
		return d
	case "w2", "w4":
		w := 2
		if m.Op == "w4" {
			w = 4
		}
		d := append([]byte{}, seed...)
		if m.Off+w <= n {
			copy(d[m.Off:], winBytes(w, m.Val))
		}
		return d
	}
	if m.Op == "ch2v" && m.Off >= 0 && m.Off+2 <= n && m.Val < len(textPairs) {
		d := append([]byte{}, seed...)
		copy(d[m.Off:], textPairs[m.Val])
		return d
	}
	if m.Op == "chv" && m.Off >= 0 && m.Off < n {
		d := append([]byte{}, seed...)
		d[m.Off] = byte(m.Val)
		return d
	}
	if isStructural(m.Op) && m.Val > 0 && m.Off >= 0 && m.Off+m.Val <= n {
		a, e := m.Off, m.Off+m.Val
		d := make([]byte, 0, n+m.Val)
		switch m.Op {
		case "rmv":
			d = append(append(d, seed[:a]...), seed[e:]...)
		case "dupv":
			d = append(append(append(d, seed[:e]...), seed[a:e]...), seed[e:]...)
		case "swapv": // with the following range of the same length (array elements of one size)
			if e+m.Val <= n {
				d = append(append(append(append(d, seed[:a]...), seed[e:e+m.Val]...), seed[a:e]...), seed[e+m.Val:]...)
			} else {
				d = append(d, seed...)
			}
		case "zerov", "onesv":
			d = append(d, seed...)
			for i := a; i < e; i++ {
				if m.Op == "zerov" {
					d[i] = 0
				} else {
					d[i] = 0xff
				}
			}
		}
		return d
	}
	if k, b := blockOf(m.Op); k != "" && m.Off < n {
		end := m.Off + b
		if end > n {
			end = n
		}
		d := make([]byte, 0, n+b)
		d = append(d, seed[:m.Off]...)
		if k == "dup" {
			d = append(d, seed[m.Off:end]...)
			d = append(d, seed[m.Off:end]...)
		}
		d = append(d, seed[end:]...)
		return d
	}
	return append([]byte{}, seed...)
}
