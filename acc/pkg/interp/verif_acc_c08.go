//go:build verif

package interp

import "github.com/wader/fq/pkg/decode"

// VerifC08DecodeValue wraps a node of a decoded tree exactly like the interpreter
// does for every child it hands to jq (makeDecodeValue with the "value" kind), so
// the C08 check can feed each node of a tree it decoded in Go to jq programs and
// call the gojq.JQValue methods of the wrapper directly.
func VerifC08DecodeValue(dv *decode.Value) any { return makeDecodeValue(dv, decodeValueValue) }
