package c14

// Section "xmlns": element trees whose element and attribute names are namespace
// qualified, with the declarations (xmlns="..", xmlns:p="..") spread over the tree.
//
// fq keeps the prefixes of the document (`<q:c/>` is "q:c"), but the XML reader
// underneath resolves every prefix to its namespace URL, so from_xml has to map
// the URL back to the prefix that is bound to it *at that element*. The scope of a
// declaration is the declaring element and its descendants (Namespaces in XML
// 1.0, section 6.1), a declaration of the same prefix further in replaces it.
// Enumerated: every tree shape up to a number of elements x per element one
// optional declaration x a prefix for the element name x an optional prefixed
// attribute, restricted to the documents where every name that is used can be
// mapped back in exactly one way (see nsDomain). The oracle is the inverse law
// and "from_xml of the harness-written text is the tree"; nothing about how fq
// does the lookup is assumed.

import (
	"fmt"
	"sort"
	"strings"
)

type nsDecl struct{ prefix, url string } // prefix "" = default namespace

// one URL under the default namespace and two prefixes, a second URL to re-declare
// the default namespace and one of the prefixes
var nsDeclsAll = []*nsDecl{nil, {"", "U"}, {"p", "U"}, {"q", "U"}, {"", "V"}, {"p", "V"}}
var nsDeclsOneURL = nsDeclsAll[:4]

// (prefix of the element name, prefix of its attribute k or "-" for no attribute)
var nsUsesAll = [][2]string{{"", "-"}, {"p", "-"}, {"q", "-"}, {"", "p"}, {"", "q"}}
var nsUsesNames = nsUsesAll[:3]

var nsLocals = []string{"a", "b", "c", "d", "e"}

// nsShapes returns all ordered trees with n elements as parent vectors in
// document order (parent[0] = -1).
func nsShapes(n int) [][]int {
	var out [][]int
	var rec func(par []int)
	rec = func(par []int) {
		if len(par) == n {
			out = append(out, append([]int{}, par...))
			return
		}
		for c := len(par) - 1; c != -1; c = par[c] {
			rec(append(par[:len(par):len(par)], c))
		}
	}
	rec([]int{-1})
	return out
}

func nsQName(prefix, local string) string {
	if prefix == "" {
		return local
	}
	return prefix + ":" + local
}

// nsOnlyPrefix: prefix is bound in scope and no other prefix (the default
// namespace included) is bound to the same URL. An unprefixed name without a
// default namespace is in no namespace and always fine.
func nsOnlyPrefix(scope map[string]string, prefix string) bool {
	u, ok := scope[prefix]
	if !ok {
		return prefix == ""
	}
	for p, pu := range scope {
		if p != prefix && pu == u {
			return false
		}
	}
	return true
}

type nsElemChoice struct {
	decl *nsDecl
	use  [2]string
}

// nsEnum calls fn for every document of the family with exactly n elements.
// fn gets the choices in document order; it must not keep the slice.
func nsEnum(n int, decls []*nsDecl, uses [][2]string, fn func(par []int, ch []nsElemChoice)) {
	for _, par := range nsShapes(n) {
		ch := make([]nsElemChoice, n)
		scopes := make([]map[string]string, n)
		var rec func(i, ndecl int)
		rec = func(i, ndecl int) {
			if i == n {
				if ndecl > 0 { // without a declaration it is a plain tree of section xml
					fn(par, ch)
				}
				return
			}
			for _, d := range decls {
				s := map[string]string{}
				if par[i] >= 0 {
					for k, v := range scopes[par[i]] {
						s[k] = v
					}
				}
				nd := ndecl
				if d != nil {
					s[d.prefix] = d.url
					nd++
				}
				scopes[i] = s
				for _, u := range uses {
					if !nsOnlyPrefix(s, u[0]) || (u[1] != "-" && !nsOnlyPrefix(s, u[1])) {
						continue
					}
					ch[i] = nsElemChoice{d, u}
					rec(i+1, nd)
				}
			}
		}
		rec(0, 0)
	}
}

// nsTree builds the array representation [name, attributes-or-null, [children]].
func nsTree(par []int, ch []nsElemChoice) any {
	nodes := make([][]any, len(par))
	for i := len(par) - 1; i >= 0; i-- {
		attrs := map[string]any{}
		if d := ch[i].decl; d != nil {
			if d.prefix == "" {
				attrs["xmlns"] = d.url
			} else {
				attrs["xmlns:"+d.prefix] = d.url
			}
		}
		if a := ch[i].use[1]; a != "-" {
			attrs[nsQName(a, "k")] = "v" + nsLocals[i]
		}
		var am any
		if len(attrs) > 0 {
			am = attrs
		}
		kids := []any{}
		for j := i + 1; j < len(par); j++ {
			if par[j] == i {
				kids = append(kids, []any(nodes[j]))
			}
		}
		nodes[i] = []any{nsQName(ch[i].use[0], nsLocals[i]), am, kids}
	}
	return []any(nodes[0])
}

// ---------------------------------------------------------------------------
// what a tree contains (domain test for replayed items, evidence counters)

type nsFacts struct {
	inDomain   bool
	names      int  // names in a namespace (prefixed names, unprefixed element names under a default namespace)
	afterScope bool // a name in URL u after the end of an element that bound another prefix to u
	redeclared bool // a prefix is declared again, with another URL, inside the scope of a declaration
	decls      int
}

func nsSplit(name string) (prefix, local string) {
	if i := strings.IndexByte(name, ':'); i >= 0 {
		return name[:i], name[i+1:]
	}
	return "", name
}

func nsDeclOf(attr string) (prefix string, ok bool) {
	if attr == "xmlns" {
		return "", true
	}
	if strings.HasPrefix(attr, "xmlns:") {
		return attr[len("xmlns:"):], true
	}
	return "", false
}

func sortedKeys(m map[string]any) []string {
	keys := make([]string, 0, len(m))
	for k := range m {
		keys = append(keys, k)
	}
	sort.Strings(keys)
	return keys
}

// nsInspect walks a tree in document order with the scope rules of the
// namespace recommendation.
func nsInspect(t any) nsFacts {
	f := nsFacts{inDomain: true}
	closed := map[string]map[string]bool{} // url -> prefixes bound to it by elements that have ended
	var walk func(t any, scope map[string]string)
	walk = func(t any, scope map[string]string) {
		l, ok := t.([]any)
		if !ok || len(l) != 3 {
			f.inDomain = false
			return
		}
		name, _ := l[0].(string)
		attrs, _ := l[1].(map[string]any)
		s := map[string]string{}
		for k, v := range scope {
			s[k] = v
		}
		var own []nsDecl
		for _, k := range sortedKeys(attrs) {
			if p, ok := nsDeclOf(k); ok {
				u, _ := attrs[k].(string)
				if old, ok := scope[p]; ok && old != u {
					f.redeclared = true
				}
				s[p] = u
				own = append(own, nsDecl{p, u})
				f.decls++
			}
		}
		use := func(prefix string) {
			if !nsOnlyPrefix(s, prefix) {
				f.inDomain = false
				return
			}
			u, ok := s[prefix]
			if !ok {
				return
			}
			f.names++
			for p := range closed[u] {
				if p != prefix {
					f.afterScope = true
				}
			}
		}
		p, _ := nsSplit(name)
		use(p)
		for _, k := range sortedKeys(attrs) {
			if _, ok := nsDeclOf(k); ok || strings.HasPrefix(k, "#") {
				continue
			}
			if p, _ := nsSplit(k); p != "" {
				use(p)
			}
		}
		kids, _ := l[2].([]any)
		for _, c := range kids {
			walk(c, s)
		}
		for _, d := range own {
			if closed[d.url] == nil {
				closed[d.url] = map[string]bool{}
			}
			closed[d.url][d.prefix] = true
		}
	}
	walk(t, map[string]string{})
	return f
}

// nsRefText writes the document the way it is usually written by hand:
// declarations first, then the other attributes, double quotes.
func nsRefText(t any) string {
	l := t.([]any)
	name := l[0].(string)
	attrs, _ := l[1].(map[string]any)
	var b strings.Builder
	b.WriteString("<" + name)
	keys := sortedKeys(attrs)
	for pass := 0; pass < 2; pass++ {
		for _, k := range keys {
			if _, isDecl := nsDeclOf(k); isDecl == (pass == 0) {
				b.WriteString(" " + k + "=\"" + attrs[k].(string) + "\"")
			}
		}
	}
	kids := l[2].([]any)
	if len(kids) == 0 {
		b.WriteString("/>")
		return b.String()
	}
	b.WriteString(">")
	for _, c := range kids {
		b.WriteString(nsRefText(c))
	}
	b.WriteString("</" + name + ">")
	return b.String()
}

// nsOuterDeclarationUsed predicts the result for the recorded defect "a
// declaration that was replaced by a closer declaration of the same prefix is
// still used to name the URL": every declaration of the ancestors-or-self counts,
// replaced or not; a default namespace declaration among them wins, otherwise the
// closest one. Only used to give that defect its own narrow signature.
func nsOuterDeclarationUsed(t any) (any, bool) {
	changed := false
	var walk func(t any, scope map[string]string, path []nsDecl) any
	walk = func(t any, scope map[string]string, path []nsDecl) any {
		l := t.([]any)
		attrs, _ := l[1].(map[string]any)
		s := map[string]string{}
		for k, v := range scope {
			s[k] = v
		}
		path = path[:len(path):len(path)]
		for _, k := range sortedKeys(attrs) {
			if p, ok := nsDeclOf(k); ok {
				s[p] = attrs[k].(string)
				path = append(path, nsDecl{p, attrs[k].(string)})
			}
		}
		rename := func(qname string, isAttr bool) string {
			p, local := nsSplit(qname)
			if p == "" {
				return qname
			}
			u, ok := s[p]
			if !ok {
				return qname
			}
			got, found := "", false
			for i := len(path) - 1; i >= 0; i-- {
				if path[i].url != u {
					continue
				}
				if path[i].prefix == "" {
					got, found = "", true
					break
				}
				if !found {
					got, found = path[i].prefix, true
				}
			}
			if n := nsQName(got, local); found && n != qname {
				changed = true
				return n
			}
			return qname
		}
		var am any
		if attrs != nil {
			m := map[string]any{}
			for k, v := range attrs {
				if _, ok := nsDeclOf(k); ok || strings.HasPrefix(k, "#") {
					m[k] = v
				} else {
					m[rename(k, true)] = v
				}
			}
			am = m
		}
		kids := []any{}
		for _, c := range l[2].([]any) {
			kids = append(kids, walk(c, s, path))
		}
		return []any{rename(l[0].(string), false), am, kids}
	}
	out := walk(t, map[string]string{}, nil)
	return out, changed
}

const sigNSOuterDecl = "xml:namespace:prefix-declared-again:replaced-declaration-still-used"

// ---------------------------------------------------------------------------

func enumXMLNS(e *env) {
	full := core_pick(e, 3, 4)  // elements, full alphabets
	small := core_pick(e, 4, 5) // elements, one URL, element names only
	st := e.stream(96, func(items []any) { checkXMLNS(e, "xmlns", items) })
	total := 0
	emit := func(par []int, ch []nsElemChoice) {
		total++
		if st.want() {
			st.put(map[string]any{"kind": "nstree", "t": nsTree(par, ch)})
		} else {
			st.put(nil)
		}
	}
	for n := 1; n <= full; n++ {
		nsEnum(n, nsDeclsAll, nsUsesAll, emit)
	}
	nfull := total
	for n := full + 1; n <= small; n++ {
		nsEnum(n, nsDeclsOneURL, nsUsesNames, emit)
	}
	st.flush()
	e.r.Extra("xmlns_inputs", fmt.Sprintf("%d documents: all trees with <= %d elements x per element {no declaration, xmlns=U, xmlns:p=U, xmlns:q=U, xmlns=V, xmlns:p=V} x {name, p:name, q:name, name with p:k, name with q:k}, and %d with %d..%d elements over {no declaration, xmlns=U, xmlns:p=U, xmlns:q=U} x {name, p:name, q:name}; kept when at least one declaration is made and every used prefix is the only one bound to its URL at that element; each in array, object and object+#seq form and as harness-written text", total, full, total-nfull, full+1, small))
}

func checkXMLNS(e *env, fn string, items []any) {
	type doc struct {
		tree          any
		arr, obj, seq string
		facts         nsFacts
		text          string
		known         map[string]string // mode -> canonical wrong value of the recorded defect
		skip          bool
		objIn, seqIn  any
	}
	docs := make([]doc, len(items))
	inputs := make([]any, len(items))
	for i, it := range items {
		t := deepCopy(itemMap(it)["t"])
		d := doc{tree: t, facts: nsInspect(t)}
		if !d.facts.inDomain {
			d.skip = true
			docs[i] = d
			inputs[i] = map[string]any{"skip": true}
			continue
		}
		n, c := objectOf(t, false, -1)
		ns, cs := objectOf(t, true, -1)
		d.objIn, d.seqIn = map[string]any{n: c}, map[string]any{ns: cs}
		d.arr, d.obj, d.seq = canon(t), canon(d.objIn), canon(d.seqIn)
		d.text = nsRefText(t)
		if wrong, changed := nsOuterDeclarationUsed(t); changed && d.facts.redeclared {
			wn, wc := objectOf(wrong, false, -1)
			wsn, wsc := objectOf(wrong, true, -1)
			d.known = map[string]string{"array": canon(wrong), "object": canon(map[string]any{wn: wc}), "seq": canon(map[string]any{wsn: wsc})}
		}
		docs[i] = d
		inputs[i] = map[string]any{"skip": false, "a": t, "o": d.objIn, "s": d.seqIn, "t": d.text}
	}
	body := `. as $it | if $it.skip then [] else [
  T($it.a|to_xml|[., T(from_xml({array:true}))]),
  T($it.o|to_xml|[., T(from_xml)]),
  T($it.s|to_xml|[., T(from_xml({seq:true}))]),
  T($it.t|from_xml({array:true})), T($it.t|from_xml)] end`
	outs := e.batch(fn, body, inputs)
	for i, o := range outs {
		d := docs[i]
		if o == nil {
			continue
		}
		if d.skip {
			e.show("not in the domain (a used prefix is unbound or not the only one bound to its URL): %s", canon(d.tree))
			continue
		}
		obs := asList(o)
		if len(obs) != 5 {
			e.violate("escape:xml:namespace", "malformed driver output", fn, items[i])
			continue
		}
		e.r.Nontrivial("xmlns:" + d.arr)
		e.r.Count("xmlns_documents", 1)
		e.r.Count("xmlns_declarations", int64(d.facts.decls))
		e.r.Count("xmlns_names_in_a_namespace", int64(d.facts.names))
		if d.facts.afterScope {
			e.r.Count("xmlns_documents_name_after_end_of_scope_of_other_prefix_for_same_url", 1)
		}
		if d.facts.redeclared {
			e.r.Count("xmlns_documents_prefix_declared_again_with_other_url", 1)
		}
		sigOf := func(generic, mode string, got res) string {
			if v, ok := got.one(); ok && d.known != nil && canon(v) == d.known[mode] {
				return sigNSOuterDecl
			}
			return generic
		}
		modes := []struct{ name, want, dec string }{
			{"array", d.arr, "from_xml({array:true})"}, {"object", d.obj, "from_xml"}, {"seq", d.seq, "from_xml({seq:true})"},
		}
		for k, m := range modes {
			e.r.Eval(2)
			r := getRes(obs[k])
			v, ok := r.one()
			p := asList(v)
			if !ok || len(p) != 2 {
				e.violate("encode-error:xml:namespace:"+m.name, fmt.Sprintf("%s | to_xml = %s", m.want, r), fn, items[i])
				continue
			}
			text, _ := p[0].(string)
			back := getRes(p[1])
			e.show("%s | to_xml (%s) -> %q | %s -> %s", m.want, m.name, text, m.dec, back)
			if bv, ok := back.one(); !ok || canon(bv) != m.want {
				e.violate(sigOf("roundtrip:xml:namespace:"+m.name, m.name, back), fmt.Sprintf("%s | to_xml = %q; | %s = %s, want the input", m.want, text, m.dec, back), fn, items[i])
			}
			if m.name == "array" {
				// the text fq wrote, read without any namespace processing, must spell the same names
				if pt, err := refParseXML(text); err != nil || canon(pt) != d.arr {
					e.violate("ref:to_xml:namespace:go-encoding-xml", fmt.Sprintf("%s | to_xml = %q which a raw XML reader sees as %s (%v)", m.want, text, canon(pt), err), fn, items[i])
				}
			}
		}
		for k, m := range []struct{ name, want, dec string }{{"array", d.arr, "from_xml({array:true})"}, {"object", d.obj, "from_xml"}} {
			e.r.Eval(1)
			r := getRes(obs[3+k])
			e.show("%q | %s -> %s", d.text, m.dec, r)
			if v, ok := r.one(); !ok || canon(v) != m.want {
				e.violate(sigOf("ref:from_xml:namespace:"+m.name, m.name, r), fmt.Sprintf("%q | %s = %s, want %s", d.text, m.dec, r, m.want), fn, items[i])
			}
		}
	}
}
