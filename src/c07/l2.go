package c07

import (
	"fmt"
	"io/fs"
	"os"
	"sort"
	"strings"

	"github.com/wader/fq/internal/verif/core"
	"github.com/wader/fq/pkg/interp"
	"github.com/wader/gojq"
)

// ---------------------------------------------------------------------------
// Discovery (at run time, from the binary under test): which standard built-ins
// does fq redefine or wrap?
//
//   standard  = the reference engine's own builtin table (`builtins` evaluated by
//               bare gojq) plus the names the library leaves to the embedder and
//               gojq's CLI supplies (debug/0, stderr/0, input_filename/0)
//   fqDefined = every top level `def` in every .jq source bundled in the binary
//               (the embedded @builtin files, the files of every registered
//               format FS, and the text produced by "dynamic" includes), plus
//               every name of fq's Go function registry
//   redefined = standard ∩ fqDefined

var embedderStd = []string{"debug/0", "stderr/0", "input_filename/0"}

func refBuiltins() map[string]bool {
	code, err := refCompile("builtins")
	if err != nil {
		panic("c07: reference cannot evaluate builtins: " + err.Error())
	}
	m := map[string]bool{}
	it := code.Run(nil)
	v, _ := it.Next()
	for _, e := range v.([]any) {
		m[e.(string)] = true
	}
	if len(m) < 100 {
		panic("c07: implausibly small builtin table in the reference")
	}
	for _, e := range embedderStd {
		m[e] = true
	}
	return m
}

type defSite struct {
	name string // name/arity
	src  string // file or "go"
}

func defsOf(src, file string, fq *fqEngine, out *[]defSite, dynamic *int) {
	q, err := gojq.Parse(src)
	if err != nil {
		panic(fmt.Sprintf("c07: bundled %s does not parse: %v", file, err))
	}
	for _, fd := range q.FuncDefs {
		*out = append(*out, defSite{fmt.Sprintf("%s/%d", fd.Name, len(fd.Args)), file})
	}
	if q.Term != nil || q.Op != gojq.Operator(0) {
		// "dynamic include": the file's root expression outputs the source text
		// that is really included; evaluate it the way fq does (fq functions in
		// scope, null input) and scan that text too
		*dynamic++
		outs, err := fq.s.Eval(nil, src)
		if err != nil || len(outs) != 1 {
			panic(fmt.Sprintf("c07: dynamic include %s: %v (%d outputs)", file, err, len(outs)))
		}
		s, ok := outs[0].(string)
		if !ok {
			panic(fmt.Sprintf("c07: dynamic include %s did not produce a string", file))
		}
		defsOf(s, file+"(generated)", fq, out, dynamic)
	}
}

func fqDefined(fq *fqEngine) (defs []defSite, files int, dynamic int) {
	fss := []fs.ReadDirFS{interp.VerifC07BuiltinFS()}
	fss = append(fss, interp.DefaultRegistry.FSs...)
	for _, f := range fss {
		err := fs.WalkDir(f, ".", func(p string, d fs.DirEntry, err error) error {
			if err != nil || d.IsDir() || !strings.HasSuffix(p, ".jq") {
				return err
			}
			b, err := fs.ReadFile(f, p)
			if err != nil {
				return err
			}
			files++
			defsOf(string(b), p, fq, &defs, &dynamic)
			return nil
		})
		if err != nil {
			panic("c07: walking bundled jq sources: " + err.Error())
		}
	}
	for _, fn := range interp.DefaultRegistry.EnvFuncFns {
		f := fn(fq.s.I)
		for a := f.MinArity; a <= f.MaxArity; a++ {
			defs = append(defs, defSite{fmt.Sprintf("%s/%d", f.Name, a), "go"})
		}
	}
	return defs, files, dynamic
}

func discover(r *core.Run, fq *fqEngine) []defSite {
	std := refBuiltins()
	defs, files, dynamic := fqDefined(fq)
	if files < 15 || len(defs) < 300 {
		panic(fmt.Sprintf("c07: implausible discovery: %d files, %d definitions", files, len(defs)))
	}
	var red []defSite
	seen := map[string]bool{}
	for _, d := range defs {
		if std[d.name] && !seen[d.name] {
			seen[d.name] = true
			red = append(red, d)
		}
	}
	sort.Slice(red, func(i, j int) bool { return red[i].name < red[j].name })
	var names []string
	for _, d := range red {
		names = append(names, d.name+" ("+d.src+")")
	}
	r.Extra("l2_reference_builtins", len(std))
	r.Extra("l2_fq_jq_files_scanned", files)
	r.Extra("l2_fq_dynamic_includes", dynamic)
	r.Extra("l2_fq_definitions", len(defs))
	r.Extra("l2_redefined_standard_builtins", names)
	r.Logf("discovery: %d reference builtins, %d fq definitions in %d files (+%d dynamic) and the Go registry; redefined: %s", len(std), len(defs), files, dynamic, strings.Join(names, ", "))
	return red
}

// pooled maps every standard built-in the harness has an argument pool for to
// the L2 section that enumerates it. A redefinition found by discovery that is
// not in this table fails the run.
var pooled = map[string]string{
	"split/1": "regex", "split/2": "regex", "splits/1": "regex", "splits/2": "regex",
	"test/1": "regex", "test/2": "regex", "match/1": "regex", "match/2": "regex",
	"capture/1": "regex", "capture/2": "regex", "scan/1": "regex", "scan/2": "regex",
	"explode/0": "explode", "tojson/0": "tojson", "fromjson/0": "fromjson",
	"debug/0": "debug", "debug/1": "debug", "stderr/0": "debug",
	"input/0": "cli", "inputs/0": "cli", "input_filename/0": "cli",
}

func l2(r *core.Run) {
	fq := newWatchedFQ(r)
	red := discover(r, fq)
	for _, d := range red {
		if _, ok := pooled[d.name]; !ok {
			r.Violate("meta:redefinition-without-argument-pool:"+d.name,
				fmt.Sprintf("fq (%s) defines the standard built-in %s but the harness has no argument pool for it: its compatibility is unchecked", d.src, d.name),
				Case{Section: "meta", Program: d.name, Input: "null"})
		}
	}
	if os.Getenv("VERIF_ONLY") == "discover" {
		return
	}
	x := &l2run{r: r, d: &differ{r: r, fq: fq, section: "L2"}}
	x.regex()
	x.progSection("explode", explodeProgs, append(append([]string{}, explodeStrings...), nonStringPool...))
	x.progSection("tojson", tojsonProgs(), tojsonValues)
	x.progSection("fromjson", fromjsonProgs, fromjsonTexts())
	x.fromjsonValue()
	x.progSection("debug", debugProgs, l1PoolText)
	if r.ShardIdx == 0 {
		r.Section("L2")
	}
}

type l2run struct {
	r   *core.Run
	d   *differ
	idx int64 // global chunk index over all L2 sections
}

// mine advances the global chunk index and reports whether this shard owns it.
func (x *l2run) mine() bool {
	i := x.idx
	x.idx++
	return x.r.Mine(1_000_000_000 + i) // offset keeps L2 indices apart from L1 batch indices
}

// ---------------------------------------------------------------------------
// regex family: full product input x pattern x flags for every overloaded form.

var regexStrings = []string{`""`, `"a"`, `"a,b"`, `"aXbxc"`, `"aaa"`, `"é€"`, `"a\nb"`, `"1.5"`, `"[1,{}]"`, `"{"`, `"a.b"`, `"a,,b"`, `",a,"`, `"abc abc"`}
var nonStringPool = []string{`null`, `true`, `false`, `0`, `-1`, `1.5`, `9007199254740993`, `18446744073709551616`, `1000000000000000000000000000000`, `[]`, `[1,[2]]`, `["a","b"]`, `{}`, `{"a":{"b":1},"c":[1,"x"]}`}
var regexPatterns = []string{`""`, `","`, `"x"`, `"."`, `"a+"`, `"(?<n>b)"`, `"(b)|(c)"`, `"["`, `"\\d"`, `"a.b"`, `"(?<n>a)(?<m>,)?"`, `"^"`, `"$"`, `"é"`, `"\n"`, `"a|"`,
	`null`, `1`, `["a"]`, `["A","gi"]`, `{}`}
var regexFlags = []string{`null`, `""`, `"g"`, `"i"`, `"x"`, `"n"`, `"gi"`, `"b"`, `"s"`, `"l"`, `"p"`, `"gn"`, `"z"`, `1`}

type regexForm struct {
	name  string // name/arity it exercises
	text  string // with $p and $f
	flags bool
}

var regexForms = []regexForm{
	{"split/1", "split($p)", false}, {"split/2", "split($p; $f)", true},
	{"splits/1", "splits($p)", false}, {"splits/2", "splits($p; $f)", true},
	{"test/1", "test($p)", false}, {"test/2", "test($p; $f)", true},
	{"match/1", "match($p)", false}, {"match/2", "match($p; $f)", true},
	{"capture/1", "capture($p)", false}, {"capture/2", "capture($p; $f)", true},
	{"scan/1", "scan($p)", false}, {"scan/2", "scan($p; $f)", true},
}

func (x *l2run) regex() {
	r := x.r
	inputs := append(append([]string{}, regexStrings...), nonStringPool...)
	pats := pool(regexPatterns)
	flags := pool(regexFlags)
	var cases int64
	for _, f := range regexForms {
		code, err := refCompile(f.text, gojq.WithVariables([]string{"$p", "$f"}))
		if err != nil {
			panic("c07: reference does not compile " + f.text + ": " + err.Error())
		}
		fl := flags
		if !f.flags {
			fl = []any{nil}
		}
		for _, inText := range inputs {
			if !x.mine() {
				continue
			}
			if r.Expired() {
				r.NotExhaustive("deadline: L2 regex product not finished")
				return
			}
			in := mustJSON(inText)
			// the whole (pattern x flags) product for this form and input as data
			var data []any
			var refs []Obs
			type pf struct{ p, f any }
			var pfs []pf
			for _, p := range pats {
				for _, g := range fl {
					data = append(data, []any{clone(in), clone(p), clone(g)})
					refs = append(refs, refRun(code, in, clone(p), clone(g)))
					pfs = append(pfs, pf{p, g})
				}
			}
			text := ".[] as [$s,$p,$f] | [try ($s | " + f.text + " | [.]) catch null]"
			end := x.d.fq.begin("the data driven form of", f.text)
			outs, err := x.d.fq.s.Eval(data, text)
			end()
			x.d.fq.tick()
			if err != nil || len(outs) != len(data) {
				panic(fmt.Sprintf("c07 harness error: regex driver for %s failed: %v (%d rows of %d)", f.text, err, len(outs), len(data)))
			}
			for i := range data {
				fo, perr := cellObs(outs[i])
				if perr != nil {
					panic("c07 harness error: regex driver cell: " + perr.Error())
				}
				r.Eval(1)
				cases++
				lit := literalCall(f, pfs[i].p, pfs[i].f)
				if len(refs[i].Outs) > 0 {
					r.Nontrivial(lit + " @ " + inText)
				}
				if !sameObs(refs[i], fo) || i%37 == 0 {
					// confirm (or, every 37th case, validate the data driven driver)
					// with the unbatched program carrying the arguments as literals
					lo, _ := x.d.fq.run(lit, in)
					lcode, lerr := refCompile(lit)
					if lerr != nil {
						panic("c07: reference does not compile " + lit)
					}
					lref := refRun(lcode, in)
					r.Count("l2_regex_literal_form_checked", 1)
					if !sameObs(lref, refs[i]) {
						panic(fmt.Sprintf("c07 harness error: reference differs between variable and literal arguments: %s on %s: %v vs %v", lit, inText, refs[i], lref))
					}
					if sameObs(refs[i], fo) != sameObs(lref, lo) {
						panic(fmt.Sprintf("c07 harness error: fq differs between data driven and literal form: %s on %s: %v vs %v", lit, inText, fo, lo))
					}
					if !sameObs(lref, lo) && !x.d.classify(lit, in, lref, lo) {
						x.d.violate("L2:"+f.name, lit, in, lref, lo, regexClass(pfs[i].p, pfs[i].f))
					}
				}
			}
		}
	}
	r.Count("l2_regex_cases", cases)
	r.Extra("l2_regex_product", map[string]any{"forms": len(regexForms), "inputs": len(inputs), "patterns": len(regexPatterns), "flags": len(regexFlags)})
}

func regexClass(p, f any) string {
	return "pattern=" + canon(p) + ",flags=" + canon(f)
}

func literalCall(f regexForm, p, g any) string {
	s := strings.ReplaceAll(f.text, "$p", literal(p))
	return strings.ReplaceAll(s, "$f", literal(g))
}

// cellObs decodes one `[[v]..., null?]` cell of a driver program.
func cellObs(c any) (Obs, error) {
	items, ok := c.([]any)
	if !ok {
		return Obs{}, fmt.Errorf("cell is %T", c)
	}
	var o Obs
	for k, it := range items {
		if it == nil {
			if k != len(items)-1 {
				return o, fmt.Errorf("error marker not last")
			}
			o.Err = true
			break
		}
		w, ok := it.([]any)
		if !ok || len(w) != 1 {
			return o, fmt.Errorf("item not wrapped")
		}
		o.Outs = append(o.Outs, canon(w[0]))
	}
	return o, nil
}

// ---------------------------------------------------------------------------
// program sections: every program of a list on every value of a pool.

func (x *l2run) progSection(name string, progs []string, inputTexts []string) {
	r := x.r
	inputs := pool(inputTexts)
	d := &differ{r: r, fq: x.d.fq, section: "L2:" + name}
	const chunk = 24
	for s := 0; s < len(progs); s += chunk {
		if !x.mine() {
			continue
		}
		if r.Expired() {
			r.NotExhaustive("deadline: L2 " + name + " not finished")
			return
		}
		e := min(s+chunk, len(progs))
		d.compareBatch(progs[s:e], inputs, s == 0)
	}
	r.Extra("l2_"+name+"_product", map[string]any{"programs": len(progs), "inputs": len(inputs)})
}

var explodeStrings = []string{`""`, `"a"`, `"a,b"`, `"é€😀"`, `"e\u0301"`, `"\u0000\u007f"`, `"\ud83d\udc68\u200d\ud83d\udc69"`, `"a\nb"`, `"\uffff\ufffd"`, `"𝄞𝄞"`}
var explodeProgs = []string{"explode", "explode|implode", "explode|length", "[explode[]|[.]|implode]", "explode|map(.+1)|implode", "path(explode)", "[explode]|length",
	"try explode catch \"E\"", "explode?", "explode|reverse|implode", "(explode|implode) == .", "[.,.]|map(explode)", "explode as [$a] | $a", "def explode: 7; explode", ".[]?|explode", "tostring|explode|length"}

var tojsonValues = []string{`null`, `true`, `false`, `0`, `-0.0`, `1`, `-1`, `1.0`, `1.5`, `-2.5`, `0.1`, `1e-7`, `1.5e-9`, `5e-324`, `1e17`, `1e21`, `1.5e300`, `1.7976931348623157e308`,
	`123456789012`, `9007199254740992`, `9007199254740993`, `9223372036854775807`, `9223372036854775808`, `-9223372036854775808`, `-9223372036854775809`, `18446744073709551616`,
	`1000000000000000000000000000000`, `-1000000000000000000000000000000`, `3.0e10`, `1e400`,
	`""`, `"a"`, `"a,b"`, `"é€😀"`, `"\"\\/"`, `"\b\f\n\r\t"`, `"\u0000\u001f\u007f"`, `"<>&'"`, `"\u2028\u2029"`, `"\ufeff"`, `"e\u0301"`,
	`[]`, `[[]]`, `[1,[2]]`, `[null,true,1.5,"x"]`, `{}`, `{"a":{"b":1},"c":[1,"x"]}`, `{"b":1,"a":2,"aa":3,"":4,"é":5,"B":6,"a b":7}`, `{"a":[{"b":[{"c":[1.0,2e0]}]}]}`, `[1e1000,-1e1000]`,
	`[0.1,0.2,0.30000000000000004]`, `{"\n":"\n"}`}

func tojsonProgs() []string {
	prefixes := []string{".", "nan", "infinite", "-infinite", "[nan]", "{\"a\":nan}", "[infinite,-infinite,nan]", "[.,.]", "{\"k\":.}", ". as $v | [$v,{\"v\":$v}]", "[.,1e1000]", "-(.)?", "(.*2)?", "(./3)?"}
	probes := []string{"tojson", "tojson|fromjson", "tostring", "@json", "@text", "\"\\(.)\"", "@json \"v=\\(.)\"", "tojson|length", "[tojson,tostring]|.[0]==.[1]", "tojson|tojson",
		"tojson|fromjson|tojson", "[tojson]|join(\",\")", "tojson|test(\"e\")", "path(tojson)", "try tojson catch \"E\"", "tojson|explode|length", "tojson|ascii_downcase", "tojson|split(\",\")",
		"def tojson: 7; tojson", "[.[]?|tojson]"}
	var out []string
	for _, p := range prefixes {
		for _, q := range probes {
			if p == "." {
				out = append(out, q)
			} else {
				out = append(out, "("+p+") | "+q)
			}
		}
	}
	return out
}

var fromjsonProgs = []string{"fromjson", "try fromjson catch \"E\"", "[fromjson]|length", "fromjson|tojson", "fromjson|tostring", "fromjson|type", "fromjson|[.]", "fromjson|{a:.}",
	"[fromjson|..]", "fromjson|tojson|fromjson", "fromjson?", "path(fromjson)", "(fromjson|tojson) == .", "[.,.]|map(fromjson)", "fromjson|tojson|length", "def fromjson: 7; fromjson",
	"fromjson|[.,1]|sort", "fromjson|[.]|tojson", "fromjson as $v|$v", "[fromjson|numbers]", "fromjson|tostring|fromjson", "first(fromjson)", "[fromjson|..|numbers|tojson]"}

func fromjsonTexts() []string {
	raw := []string{"", " ", "null", " null ", "true", "false", "nul", "0", "-0", "-0.0", "1.0", "1.5", "-1", "1e2", "1E2", "1e-2", "1e400", "-1e400", "0.1e1", "01", "+1", ".5", "1.", "0x10", "1_000",
		"9007199254740993", "9223372036854775808", "18446744073709551616", "-18446744073709551616", "100000000000000000000000000000000000000000", "1.0000000000000000000001", "12345678901234567890.5",
		"1e17", "1e21", "123456789012345678e3", "0.1", "5e-324", "1e-400", "1.7976931348623157e308", "1.7976931348623159e308",
		"\"a\"", "\"\\u00e9\"", "\"\\ud83d\\ude00\"", "\"\\ud800\"", "\"\\udc00x\"", "\"\\ud800\\u0041\"", "\"\\x\"", "\"a", "'a'", "\"\\u0000\"", "\"\t\"", "\"\\/\"", "\"\\b\\f\\n\\r\\t\"", "\"é€😀\"",
		"[]", "[1,[2]]", "[1,]", "[,1]", "[1 2]", "{}", "{\"a\":1}", "{\"a\":1,}", "{a:1}", "{\"a\":1,\"a\":2}", "{\"b\":1,\"a\":2}", "{\"a\":{\"b\":[1,{\"c\":null}]}}", "[1,{}]", "{", "}", "[", "]",
		"1 2", "1,2", "null null", "[] []", "{}x", "1 x", "nan", "NaN", "-nan", "Infinity", "-Infinity", "infinity", "// c\n1", "/* c */ 1", "\ufeff1", "1\n", "\n\t 1 \r\n", "\u00a01", "1\u00a0", "1\f",
		"true false", "TRUE", "tru", "-", "--1", "1e", "1e+", "1.e1", "[1.0,1.50,2e0,-0]", "{\"1\":1,\"01\":2}", "\"\\u00E9\\u00e9\"", "[\"a\",\"b\"]",
		strings.Repeat("[", 100) + strings.Repeat("]", 100), strings.Repeat("[", 10001) + strings.Repeat("]", 10001), strings.Repeat("[", 50),
		"{\"_start\":5,\"a\":1}", "\"\\\"\"", "[null,true,false]", " [ 1 , { \"a\" : 2 } ] "}
	// trailing data: every structural token after every kind of top level value and separator
	for _, v := range []string{"1", "null", "\"s\"", "[1,2]", "{\"a\":1}", "[]", "{}"} {
		for _, sep := range []string{"", " ", "\n"} {
			for _, tok := range []string{"]", "}", ",", ":", "\"", "[", "{", "x", "1", "null", "\\", "/", "]]", "}1", "] 1"} {
				raw = append(raw, v+sep+tok)
			}
		}
	}
	out := make([]string, 0, len(raw)+len(nonStringPool))
	for _, s := range raw {
		b, _ := jsonMarshalString(s)
		out = append(out, b)
	}
	return append(out, nonStringPool...)
}

var debugProgs = []string{"debug", "debug(\"m\")", "debug(.)", "debug(.,.)", "debug(empty)", "debug(error)", "[debug]", "path(debug)", "path(debug(\"m\"))", "stderr", "path(stderr)", "debug|debug",
	"first(debug,1)", "[.[]?|debug]", "debug(debug)", "try debug(error(\"x\")) catch .", "stderr|stderr", "[limit(1;debug,debug)]", "debug as $x | $x", "reduce debug as $x (0;.+1)",
	"[.[]?|stderr]", "debug(\"a\",\"b\")", "[debug(\"a\",\"b\")]", "debug(1;2)?", "def debug: 7; debug", "def stderr: 7; stderr", "def debug(f): 8; debug(1)", "[paths|debug]", ".. |= debug", "debug(.[]?)",
	"label $l | debug | break $l", "[debug, stderr] | length", "debug(nan)", "debug(infinite) | stderr", "{a:debug}", "debug(\"\\(.)\")", "(debug | tojson) == tojson", "stderr | tojson"}

// ---------------------------------------------------------------------------
// What comes out of fromjson must behave as the JSON value it is. Full product of
// JSON texts x primitive probes, each compared as `TEXT | fromjson | PROBE`.

var fjvTexts = []string{`"-100000000000000000000"`, `"[-1,-100000000000000000000,-2.5]"`, `"{\"a\":-100000000000000000000}"`, `"18446744073709551616"`, `"null"`, `"true"`, `"false"`, `"0"`, `"-1"`, `"1.5"`, `"-2.5"`, `"1000000000000000000000000000000"`, `"\"\""`, `"\"abc\""`, `"\"é€😀\""`, `"\"1\""`, `"\"a,b\""`,
	`"[]"`, `"[1,[2]]"`, `"[3,1,2]"`, `"[\"b\",\"a\"]"`, `"{}"`, `"{\"a\":{\"b\":1}}"`, `"{\"_start\":5}"`, `"{\"d\":4,\"b\":{\"x\":1},\"a\":[1,\"x\"],\"c\":\"s\",\"e\":null}"`}

// keyProbes: probes that look up a string key. doc/usage.md, "Differences to jq":
//
//	"Some values can act as an object with keys even when it's an array, number etc."
//
// fromjson returns such a value (a decode value), so for these probes, and only
// these, the documented behaviour on a non-object is the value on the right.
var keyProbes = map[string]string{
	".a":               `if type == "object" then .a else null end`,
	".a?":              `if type == "object" then .a? else null end`,
	`.["a"]`:           `if type == "object" then .["a"] else null end`,
	".a.b":             `if type == "object" then .a.b else null end`,
	`getpath(["a"])`:   `if type == "object" or type == "null" then getpath(["a"]) else null end`,
	`try .a catch "E"`: `if type == "object" then (try .a catch "E") else null end`,
	".a // 7":          `if type == "object" then (.a // 7) else 7 end`,
	"[.a]":             `if type == "object" then [.a] else [null] end`,
	`path(.a)`:         `if type == "object" or type == "null" then path(.a) else ["a"] end`,
	// derived forms of the same documented behaviour
	`getpath(["a","b"])`: `if type == "object" or type == "null" then getpath(["a","b"]) else null end`,
	`pick(.a)?`:          `if type == "object" or type == "null" then (pick(.a)?) else {a: null} end`,
}

var fjvProbes = []string{".", "type", "length", "utf8bytelength", "not", "keys", "keys_unsorted", "values", "has(\"a\")", "has(0)", ".[0]", ".[-1]", ".[5]", ".[1:]", ".[:1]", ".[0:0]", ".[]", ".[]?", "..",
	"first", "last", "to_entries", "paths", "[paths]", "tostream", "add", "any", "all", "flatten", "sort", "unique", "reverse", "min", "max", "transpose", "tostring", "tojson", "tonumber", "fromjson", "ascii_downcase",
	"explode", "implode", "ltrimstr(\"a\")", "rtrimstr(\"c\")", "startswith(\"a\")", "test(\"a\")", "[match(\"a\";\"g\")]", "split(\",\")", "sub(\"a\";\"z\")", "join(\",\")", "index(\"b\")", "contains(\"a\")", "inside(\"abc\")", "trim", "ascii_upcase",
	". + 1", ". + \"x\"", ". + [9]", ". + {\"z\":1}", ". + null", "1 + .", ". - 1", ". * 2", "2 * .", ". / 2", ". % 2", "-(.)", ". == .", ". == 1", ". != null", ". < 1", ". <= \"b\"", "[., 1] | sort", "[., null, \"a\", [], {}] | sort", ". and true", ". // 7",
	"abs", "floor", "sqrt", "isnan", "infinite > .", "{(.):1}", "{a:.}", "[.]", "{a:1}[.]?", "[1,2,3][.]?", "[1,2,3][.:]?", "[1,2,3][:.]?", "limit(.; 1,2,3)", "[limit(3; range(.))]", "error", "try error catch .", "error(.)?", "if . then 1 else 2 end", "select(.)",
	"@text", "@json", "@csv", "@tsv", "@html", "@uri", "@sh", "@base64", "@base64d", "\"\\(.)\"", "del(.[0])", "del(.a)", ".[0] = 9", ".a = 9", ".[0] |= 9", ". |= 9", "setpath([0]; 9)", "setpath([\"a\"]; 9)", "getpath([0])", "delpaths([[0]])",
	"to_entries?", "with_entries(.)", "map(.)", "map_values(.)", "walk(.)", "group_by(.)", "unique_by(.)", "sort_by(.)", "min_by(.)", "tojson|fromjson", "path(..)", "[splits(\",\")]", "scan(\"a\")", "capture(\"(?<x>a)\")", "test(.)?", "split(.)?", "ltrimstr(.)", "index(.)?",
	"has(.)?", "contains(.)", "inside(.)", "IN(.)", "IN(1,null)", "env|type", "input_line_number?", "splits(\"a\")", "ascii?", "tojson|explode|implode|fromjson", "debug", "stderr", "debug(.)", ".. |= .", "paths(..)", "leaf_paths?", "getpath([\"a\",\"b\"])", "pick(.a)?", "pick(.[0])?",
	"todate?", "tojson|length", "significand?", "gamma?", "frexp?", "trunc?", "toarray?", "have_literal_numbers?", "halt_error?", "@base32?", "ltrimstr(1)", "combinations?", "[limit(3; repeat(.))]", "[.,.] | unique", "[.,.] | group_by(.)", "[[.],[.]] | transpose", "{a:.} | to_entries", "[.] | index(.)?", "[.] | inside([.])",
	"[.] | contains([.])", "{a:.} | .a", "[.][0]", "[.] | first", "[.] | .[]", "[.] | add", "[.,.] | add", "[.] | join(\",\")?", "[.] | min", "[.] | flatten", "[.] | implode?", "[.] | tojson", "{a:.} | tojson", "[.] | @csv?", "[.] | @sh?", "[.] | sort", "[.] | map(type)", "[[.]] | .[0][0] | type"}

func (x *l2run) fromjsonValue() {
	r := x.r
	inputs := pool(fjvTexts)
	d := &differ{r: r, fq: x.d.fq, section: "L2:fromjson-value"}
	var probes []string
	seen := map[string]bool{}
	for k := range keyProbes {
		probes = append(probes, k)
	}
	sort.Strings(probes)
	for _, p := range probes {
		seen[p] = true
	}
	for _, p := range fjvProbes {
		if _, err := refCompile(p); err != nil {
			// a probe naming something the reference does not have is not standard jq
			if r.ShardIdx == 0 {
				r.Count("l2_fromjson_value_probes_not_in_reference", 1)
			}
			continue
		}
		if !seen[p] {
			seen[p] = true
			probes = append(probes, p)
		}
	}
	// operation sequences: the value observed again AFTER a primitive was applied to it
	// (a primitive must not change the value it was applied to)
	for _, p := range append([]string{}, probes...) {
		// (the primitive's own result is judged by the plain probe, not again here)
		q := ". as $v | [try (" + p + ") catch \"E\"] | [$v, ($v | tojson)]"
		if _, err := refCompile(q); err == nil && !seen[q] {
			seen[q] = true
			probes = append(probes, q)
		}
	}
	dvPairs := map[string]bool{}
	const chunk = 16
	for s := 0; s < len(probes); s += chunk {
		if !x.mine() {
			continue
		}
		if r.Expired() {
			r.NotExhaustive("deadline: L2 fromjson-value not finished")
			return
		}
		e := min(s+chunk, len(probes))
		for _, q := range probes[s:e] {
			prog := "fromjson | " + q
			code, err := refCompile(prog)
			if err != nil {
				panic("c07: " + prog + ": " + err.Error())
			}
			docCode := code
			if doc, ok := keyProbes[q]; ok {
				if docCode, err = refCompile("fromjson | " + doc); err != nil {
					panic("c07: documented variant of " + q + ": " + err.Error())
				}
			}
			for i, in := range inputs {
				ref := refRun(code, in)
				w, _ := parseJSON(in.(string))
				n := 1
				if m, ok := w.(map[string]any); ok && len(m) > 1 {
					// a multi-key object: repeated evaluation must give one answer
					n = 12
				}
				d.pair = q + " @ " + jqType(w)
				seen := d.observe(prog, in, n, false)
				r.Eval(1)
				if len(ref.Outs) > 0 {
					r.Nontrivial(prog + " @ " + fjvTexts[i])
				}
				if len(seen) > 1 {
					// unstable order of object iteration; gone after tovalue?
					if so := d.observe(viaToValue(prog), in, 6, false); len(so) == 1 && sameObs(ref, so[0]) {
						d.fromjsonDecodeValue(prog, in, ref, seen[1])
						dvPairs[q+" @ object (result changes between evaluations)"] = true
						r.Count("fromjson_decode_value_object_order_unstable", 1)
						continue
					}
					var all []string
					for _, o := range seen {
						all = append(all, o.String())
					}
					r.Violate("L2:fromjson-value:fq-nondeterministic:probe="+q,
						fmt.Sprintf("program `%s` input %s: reference gojq -> %v ; fq gives different results on repeated evaluation: %s", prog, canon(in), ref, strings.Join(all, " | ")),
						Case{Section: d.section, Program: prog, Input: canon(in)})
					continue
				}
				fo := seen[0]
				if sameObs(ref, fo) {
					continue
				}
				if fo.Panic && !ref.Panic {
					d.goPanic(prog, in, ref, fo)
					continue
				}
				if docCode != code && sameObs(refRun(docCode, in), fo) {
					r.Count("documented_divergence:string key on a non-object decode value gives null", 1)
					continue
				}
				if d.classify(prog, in, ref, fo) {
					dvPairs[q+" @ "+jqType(w)] = true
					continue
				}
				d.violate("L2:fromjson-value", prog, in, ref, fo, "probe="+q+",value="+jqType(w))
			}
		}
	}
	for k := range dvPairs {
		r.Count("l2_fromjson_value_deviating_primitive: "+k, 1)
	}
	r.Extra("l2_fromjson_value_product", map[string]any{"probes": len(probes), "texts": len(fjvTexts)})
}
