// Package vhook is the controlled scheduler (engine E2) and the hook surface that
// check-time generated instrumentation calls. It is a leaf package (imports only the
// standard library) because instrumented fq packages import it.
//
// Model: threads are goroutines that run one at a time (a token is handed over at
// every Point). A Point is announced *before* the operation it guards (an access to
// a tracked field, a shimmed sync operation, a channel close/poll, a harness event);
// the scheduler then picks which enabled thread runs next. Exploration is stateless
// DFS over the choice sequences with an iterated preemption bound (Explore). The
// scheduler keeps vector clocks and reports conflicting tracked accesses that are not
// ordered by happens-before (spawn, join, shimmed sync, channel close->poll).
package vhook

import (
	"fmt"
	"runtime/debug"
	"sort"
	"strings"
	"sync"
	"sync/atomic"
)

// ---- public hook surface (called by instrumented code) --------------------

var active atomic.Pointer[Sched]

// Access is a scheduling point guarding a read or write of obj.field.
func Access(site string, obj any, field string, write bool) {
	s := active.Load()
	if s == nil {
		hookCalls.Add(1)
		return
	}
	s.access(site, obj, field, write)
}

// Go replaces the go statement in instrumented code.
func Go(fn func()) {
	s := active.Load()
	if s == nil {
		go fn()
		return
	}
	s.spawn("go", fn, false)
}

// ChanClose is announced before close(ch).
func ChanClose(site string, ch any) {
	s := active.Load()
	if s == nil {
		return
	}
	s.chanClose(site, ch)
}

// ChanPoll is announced before a non-blocking receive on ch.
func ChanPoll(site string, ch any) {
	s := active.Load()
	if s == nil {
		return
	}
	s.chanPoll(site, ch)
}

var hookCalls atomic.Int64

// HookCalls returns how many hooks ran outside a scheduled execution.
func HookCalls() int64 { return hookCalls.Load() }

// Active returns the scheduler of the running execution (nil outside).
func Active() *Sched { return active.Load() }

// ---- scheduler --------------------------------------------------------------

type VC []int

func (v VC) copy() VC { return append(VC{}, v...) }
func (v *VC) join(o VC) {
	for len(*v) < len(o) {
		*v = append(*v, 0)
	}
	for i, x := range o {
		if x > (*v)[i] {
			(*v)[i] = x
		}
	}
}

// leq: v happens-before-or-equal o
func (v VC) leq(o VC) bool {
	for i, x := range v {
		if x == 0 {
			continue
		}
		if i >= len(o) || x > o[i] {
			return false
		}
	}
	return true
}

type thread struct {
	id      int
	name    string
	sem     chan struct{}
	done    bool
	daemon  bool
	vc      VC
	blocked func() bool // non-nil: disabled until it returns true
	pending string      // description of the op it is about to do
	panicV  any
	panicS  string
	npoints int
}

type access struct {
	thread int
	vc     VC
	site   string
	write  bool
}

type locKey struct {
	obj   uintptr
	field string
}

type Race struct {
	Field string
	A, B  string // sites
	AW    bool
	BW    bool
}

func (r Race) String() string {
	k := func(w bool) string {
		if w {
			return "write"
		}
		return "read"
	}
	return fmt.Sprintf("data race on %s: %s at %s is not ordered with %s at %s", r.Field, k(r.AW), r.A, k(r.BW), r.B)
}

// Point is one scheduling decision of an execution.
type PointRec struct {
	Enabled []int  // thread ids in canonical order (running first if enabled)
	Chosen  int    // index into Enabled
	Running int    // thread that reached the point (-1: start)
	RunEn   bool   // the running thread was still enabled
	Op      string // what the chosen thread does next
	Key     uint64 // state key before the decision (0 when no StateFn is set)
}

type Sched struct {
	mu       sync.Mutex
	threads  []*thread
	cur      *thread
	prefix   []int
	Points   []PointRec
	locs     map[locKey][]access
	chans    map[uintptr]VC // closed channels -> clock at close
	syncVC   map[any]VC     // shim objects -> release clock
	Races    []Race
	Deadlock string
	Livelock bool
	Diverged string
	steps    int
	maxSteps int
	doneCh   chan struct{}
	failed   bool
	// Obs collects harness observations of this execution
	Obs []string
	// StateFn, when set, hashes the harness visible shared state; combined with the
	// per-thread positions it keys the state before every decision (used for pruning
	// the unbounded exploration)
	StateFn func() uint64
	// counters
	Accesses int
	SyncOps  int
}

func addr(obj any) uintptr {
	// pointers and channels: identity of the object
	return ptrOf(obj)
}

// NewSched creates a scheduler replaying prefix and then taking choice 0.
func NewSched(prefix []int, maxSteps int) *Sched {
	return &Sched{prefix: prefix, locs: map[locKey][]access{}, chans: map[uintptr]VC{}, syncVC: map[any]VC{}, maxSteps: maxSteps, doneCh: make(chan struct{})}
}

// Spawn creates a managed thread (harness side). Must be called before Run or from
// a managed thread.
func (s *Sched) Spawn(name string, fn func()) { s.spawn(name, fn, false) }

// SpawnDaemon: a thread that may stay blocked at the end without being a deadlock.
func (s *Sched) SpawnDaemon(name string, fn func()) { s.spawn(name, fn, true) }

func (s *Sched) spawn(name string, fn func(), daemon bool) {
	s.mu.Lock()
	t := &thread{id: len(s.threads), name: name, sem: make(chan struct{}, 1), daemon: daemon}
	if name == "go" {
		t.name = fmt.Sprintf("go#%d", t.id)
		// goroutines born inside code under test: daemons unless they finish
		t.daemon = true
	}
	if s.cur != nil {
		// child inherits the parent's clock (spawn edge)
		s.cur.vc = tick(s.cur.vc, s.cur.id)
		t.vc = s.cur.vc.copy()
	}
	t.vc = tick(t.vc, t.id)
	t.pending = "start " + t.name
	s.threads = append(s.threads, t)
	s.mu.Unlock()
	go func() {
		<-t.sem // wait to be scheduled the first time
		defer func() {
			if r := recover(); r != nil {
				if _, ok := r.(abortExec); !ok {
					t.panicV = r
					t.panicS = string(debug.Stack())
				}
			}
			s.finish(t)
		}()
		if !s.failed {
			fn()
		}
	}()
}

type abortExec struct{}

func tick(v VC, id int) VC {
	for len(v) <= id {
		v = append(v, 0)
	}
	v[id]++
	return v
}

// Run starts the execution from the harness goroutine (not a managed thread) and
// returns when every non-daemon thread is done, or on deadlock/livelock.
func (s *Sched) Run() {
	active.Store(s)
	defer active.Store(nil)
	s.mu.Lock()
	s.schedule(nil)
	s.mu.Unlock()
	<-s.doneCh
}

func (s *Sched) enabledLocked() []*thread {
	var en []*thread
	for _, t := range s.threads {
		if t.done {
			continue
		}
		if t.blocked != nil {
			if !t.blocked() {
				continue
			}
		}
		en = append(en, t)
	}
	return en
}

// schedule picks the next thread (s.mu held). from = thread that reached the point
// (nil at start or when it finished).
func (s *Sched) schedule(from *thread) {
	if s.failed {
		s.abortAll()
		return
	}
	en := s.enabledLocked()
	if len(en) == 0 {
		// everything finished or blocked
		var stuck []string
		for _, t := range s.threads {
			if !t.done && !t.daemon {
				stuck = append(stuck, t.name+" waiting: "+t.pending)
			}
		}
		if len(stuck) > 0 {
			s.Deadlock = strings.Join(stuck, "; ")
		}
		s.failed = true
		s.abortAll()
		return
	}
	// canonical order: running thread first if enabled, then ascending ids
	sort.Slice(en, func(i, j int) bool { return en[i].id < en[j].id })
	runEn := false
	if from != nil {
		for i, t := range en {
			if t == from {
				runEn = true
				copy(en[1:i+1], en[0:i])
				en[0] = from
				break
			}
		}
	}
	// if only daemons are left enabled and all non-daemons are done: stop
	allDone := true
	for _, t := range s.threads {
		if !t.done && !t.daemon {
			allDone = false
		}
	}
	if allDone {
		s.failed = true // not a failure: just unwinding the daemons
		s.abortAll()
		return
	}
	s.steps++
	if s.steps > s.maxSteps {
		s.Livelock = true
		s.failed = true
		s.abortAll()
		return
	}
	choice := 0
	i := len(s.Points)
	if i < len(s.prefix) {
		choice = s.prefix[i]
		if choice >= len(en) {
			s.Diverged = fmt.Sprintf("replay divergence at point %d: choice %d but only %d enabled", i, choice, len(en))
			s.failed = true
			s.abortAll()
			return
		}
	}
	ids := make([]int, len(en))
	for k, t := range en {
		ids[k] = t.id
	}
	running := -1
	if from != nil {
		running = from.id
	}
	next := en[choice]
	var key uint64
	if s.StateFn != nil {
		key = s.StateFn()
		for _, t := range s.threads {
			key = key*1099511628211 ^ uint64(t.npoints)<<8 ^ hashStr(t.pending)
			if t.done {
				key ^= 0x9e3779b97f4a7c15
			}
			key = key*31 + uint64(len(s.syncVC))
		}
		key = key*31 + uint64(running+2)
		key = key*31 + uint64(len(s.chans))
	}
	next.npoints++
	s.Points = append(s.Points, PointRec{Enabled: ids, Chosen: choice, Running: running, RunEn: runEn, Op: next.name + ": " + next.pending, Key: key})
	next.blocked = nil
	s.cur = next
	next.sem <- struct{}{}
}

func (s *Sched) abortAll() {
	// wake every parked thread so it can unwind with abortExec
	for _, t := range s.threads {
		if !t.done {
			select {
			case t.sem <- struct{}{}:
			default:
			}
		}
	}
	select {
	case <-s.doneCh:
	default:
		close(s.doneCh)
	}
}

func (s *Sched) finish(t *thread) {
	s.mu.Lock()
	t.done = true
	t.vc = tick(t.vc, t.id)
	if t.panicV != nil {
		s.failed = true
	}
	if s.failed {
		s.abortAll()
		s.mu.Unlock()
		return
	}
	s.schedule(nil)
	s.mu.Unlock()
}

// yield is the core of every point: announce op, let the scheduler choose, park.
func (s *Sched) yield(op string, blocked func() bool) {
	s.mu.Lock()
	t := s.cur
	if t == nil {
		s.mu.Unlock()
		return
	}
	t.pending = op
	t.blocked = blocked
	s.schedule(t)
	s.mu.Unlock()
	<-t.sem
	if s.failed {
		panic(abortExec{})
	}
}

// Point is a harness level scheduling point (no memory effect).
func (s *Sched) Point(op string) { s.yield(op, nil) }

// Block parks the calling thread until cond() holds (evaluated by the scheduler at
// each decision; must be side-effect free).
func (s *Sched) Block(op string, cond func() bool) { s.yield(op, cond) }

// JoinVC: harness level happens-before edge from thread named `from` (its current
// clock) to the caller, e.g. after observing a value published through a harness channel.
func (s *Sched) Me() int { return s.cur.id }

func (s *Sched) access(site string, obj any, field string, write bool) {
	kind := "read "
	if write {
		kind = "write "
	}
	s.yield(kind+field+" @"+site, nil)
	s.mu.Lock()
	t := s.cur
	s.Accesses++
	k := locKey{addr(obj), field}
	t.vc = tick(t.vc, t.id)
	for _, a := range s.locs[k] {
		if a.thread == t.id {
			continue
		}
		if !(a.write || write) {
			continue
		}
		ordered := a.thread < len(t.vc) && a.thread < len(a.vc) && a.vc[a.thread] <= t.vc[a.thread]
		if !ordered {
			r := Race{Field: field, A: a.site, AW: a.write, B: site, BW: write}
			dup := false
			for _, x := range s.Races {
				if x == r {
					dup = true
				}
			}
			if !dup {
				s.Races = append(s.Races, r)
			}
		}
	}
	// keep last write and reads since
	if write {
		s.locs[k] = []access{{t.id, t.vc.copy(), site, true}}
	} else {
		s.locs[k] = append(s.locs[k], access{t.id, t.vc.copy(), site, false})
	}
	s.mu.Unlock()
}

func (s *Sched) chanClose(site string, ch any) {
	s.yield("close chan @"+site, nil)
	s.mu.Lock()
	s.SyncOps++
	t := s.cur
	t.vc = tick(t.vc, t.id)
	s.chans[addr(ch)] = t.vc.copy()
	s.mu.Unlock()
}

func (s *Sched) chanPoll(site string, ch any) {
	s.yield("poll chan @"+site, nil)
	s.mu.Lock()
	s.SyncOps++
	if vc, ok := s.chans[addr(ch)]; ok {
		s.cur.vc.join(vc)
	}
	s.mu.Unlock()
}

// ChanClosed reports whether ch was closed through the hook (for Block predicates).
func (s *Sched) ChanClosed(ch any) bool {
	_, ok := s.chans[addr(ch)]
	return ok
}

// SyncPoint is used by the vsync shim: a scheduling point for a sync operation.
// blocked != nil disables the thread until it returns true.
func (s *Sched) SyncPoint(op string, blocked func() bool) {
	s.yield(op, blocked)
	s.mu.Lock()
	s.SyncOps++
	s.mu.Unlock()
}

// Acquire/Release transfer clocks through a shim object.
func (s *Sched) Release(obj any) {
	s.mu.Lock()
	t := s.cur
	t.vc = tick(t.vc, t.id)
	v := s.syncVC[obj]
	v.join(t.vc)
	s.syncVC[obj] = v
	s.mu.Unlock()
}

func (s *Sched) Acquire(obj any) {
	s.mu.Lock()
	if v, ok := s.syncVC[obj]; ok {
		s.cur.vc.join(v)
	}
	s.mu.Unlock()
}

// Panics returns the panics of managed threads.
func (s *Sched) Panics() []string {
	var out []string
	for _, t := range s.threads {
		if t.panicV != nil {
			out = append(out, fmt.Sprintf("%s: %v", t.name, t.panicV))
		}
	}
	return out
}

// PanicStacks returns the stacks of panicking threads.
func (s *Sched) PanicStacks() []string {
	var out []string
	for _, t := range s.threads {
		if t.panicV != nil {
			out = append(out, t.panicS)
		}
	}
	return out
}

// Choices returns the choice sequence of this execution.
func (s *Sched) Choices() []int {
	out := make([]int, len(s.Points))
	for i, p := range s.Points {
		out[i] = p.Chosen
	}
	return out
}

// Trace renders the schedule.
func (s *Sched) Trace() []string {
	var out []string
	for _, p := range s.Points {
		out = append(out, p.Op)
	}
	return out
}

func hashStr(s string) uint64 {
	var h uint64 = 14695981039346656037
	for i := 0; i < len(s); i++ {
		h = (h ^ uint64(s[i])) * 1099511628211
	}
	return h
}
