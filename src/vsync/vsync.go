// Package vsync is a drop-in shim for the parts of package sync that fq uses. The
// check-time rewriter replaces the import "sync" of tracked files by this package,
// so the code's own Lock/Unlock/Do/Wait calls become scheduling points that the
// controlled scheduler can disable and that carry happens-before edges. Outside a
// scheduled execution every type delegates to package sync.
package vsync

import (
	"sync"
	"sync/atomic"

	"github.com/wader/fq/internal/verif/vhook"
)

type Locker = sync.Locker

type Mutex struct {
	real   sync.Mutex
	held   bool
	holder int
}

func (m *Mutex) Lock() {
	s := vhook.Active()
	if s == nil {
		m.real.Lock()
		return
	}
	s.SyncPoint("Mutex.Lock", func() bool { return !m.held })
	m.held = true
	m.holder = s.Me()
	s.Acquire(m)
}

func (m *Mutex) TryLock() bool {
	s := vhook.Active()
	if s == nil {
		return m.real.TryLock()
	}
	s.SyncPoint("Mutex.TryLock", nil)
	if m.held {
		return false
	}
	m.held = true
	s.Acquire(m)
	return true
}

func (m *Mutex) Unlock() {
	s := vhook.Active()
	if s == nil {
		m.real.Unlock()
		return
	}
	s.SyncPoint("Mutex.Unlock", nil)
	if !m.held {
		panic("vsync: unlock of unlocked mutex")
	}
	s.Release(m)
	m.held = false
}

type RWMutex struct {
	real    sync.RWMutex
	writer  bool
	readers int
}

func (m *RWMutex) Lock() {
	s := vhook.Active()
	if s == nil {
		m.real.Lock()
		return
	}
	s.SyncPoint("RWMutex.Lock", func() bool { return !m.writer && m.readers == 0 })
	m.writer = true
	s.Acquire(m)
}
func (m *RWMutex) Unlock() {
	s := vhook.Active()
	if s == nil {
		m.real.Unlock()
		return
	}
	s.SyncPoint("RWMutex.Unlock", nil)
	s.Release(m)
	m.writer = false
}
func (m *RWMutex) RLock() {
	s := vhook.Active()
	if s == nil {
		m.real.RLock()
		return
	}
	s.SyncPoint("RWMutex.RLock", func() bool { return !m.writer })
	m.readers++
	s.Acquire(m)
}
func (m *RWMutex) RUnlock() {
	s := vhook.Active()
	if s == nil {
		m.real.RUnlock()
		return
	}
	s.SyncPoint("RWMutex.RUnlock", nil)
	s.Release(m)
	m.readers--
}
func (m *RWMutex) RLocker() Locker { return (*rlocker)(m) }

type rlocker RWMutex

func (r *rlocker) Lock()   { (*RWMutex)(r).RLock() }
func (r *rlocker) Unlock() { (*RWMutex)(r).RUnlock() }

type Once struct {
	real    sync.Once
	done    atomic.Bool
	running bool
}

func (o *Once) Do(f func()) {
	s := vhook.Active()
	if s == nil {
		if o.done.Load() {
			return
		}
		o.real.Do(func() {
			f()
			o.done.Store(true)
		})
		return
	}
	// a second caller waits until the first finished (sync.Once semantics)
	s.SyncPoint("Once.Do", func() bool { return !o.running })
	if o.done.Load() {
		s.Acquire(o)
		return
	}
	o.running = true
	defer func() {
		o.done.Store(true)
		o.running = false
		s.Release(o)
	}()
	f()
}

type WaitGroup struct {
	real sync.WaitGroup
	n    int
}

func (w *WaitGroup) Add(d int) {
	s := vhook.Active()
	if s == nil {
		w.real.Add(d)
		return
	}
	s.SyncPoint("WaitGroup.Add", nil)
	w.n += d
	if d < 0 {
		s.Release(w)
	}
}
func (w *WaitGroup) Done() { w.Add(-1) }
func (w *WaitGroup) Wait() {
	s := vhook.Active()
	if s == nil {
		w.real.Wait()
		return
	}
	s.SyncPoint("WaitGroup.Wait", func() bool { return w.n <= 0 })
	s.Acquire(w)
}

// Pool and Map are passed through (not used for synchronisation decisions in fq).
type Pool = sync.Pool
type Map = sync.Map
type Cond = sync.Cond

func NewCond(l Locker) *Cond { return sync.NewCond(l) }

func OnceFunc(f func()) func()             { return sync.OnceFunc(f) }
func OnceValue[T any](f func() T) func() T { return sync.OnceValue(f) }
