package c13

// Run-time enumeration of "every function fq adds to jq":
//   - every entry of interp.DefaultRegistry.EnvFuncFns, instantiated the same way
//     Interp.Eval does it (fn(interp) -> gojqx.Function{Name, MinArity, MaxArity});
//   - every top level `def` not starting with `_` in the embedded jq sources of
//     pkg/interp (builtinFS, through an overlay accessor) and of every file system a
//     format registered with interp.RegisterFS;
//   - the defs of the "dynamic include" sources (format_decode.jq generates four
//     decode functions per format/group) obtained by evaluating the generator the
//     way the module loader does.
// Nothing here is a hard coded function name.

import (
	"encoding/json"
	"fmt"
	"go/ast"
	"go/parser"
	"go/token"
	"io/fs"
	"os"
	"path/filepath"
	"reflect"
	"sort"
	"strconv"
	"strings"

	"github.com/wader/fq/internal/mapstruct"
	"github.com/wader/fq/internal/verif/fqrun"
	"github.com/wader/fq/pkg/interp"
	"github.com/wader/gojq"
)

type fnKey struct {
	Name  string
	Arity int
}

func (k fnKey) String() string { return k.Name + "/" + strconv.Itoa(k.Arity) }

type fnInfo struct {
	Key  fnKey
	Kind string // "go", "jq", "format" (generated decode function)
	Src  string // where it was found
	// ownKeys: option keys this definition reads itself (Go: fields of the option
	// structs in its signature; jq: `$param.key` accesses)
	ownKeys map[string]bool
	callees map[fnKey]bool
	// Keys: closure of ownKeys over callees (what the tuple pool uses)
	Keys []string
	// Group is the format/group name for generated decode functions
	Group string
	// ReachesOptions: one of its parameters is handed (transitively) to options/1
	ReachesOptions bool
}

type catalog struct {
	all    map[fnKey]*fnInfo // every definition incl. private jq defs (call graph)
	public []*fnInfo         // the functions under test, sorted
	// notes on the enumeration for the evidence file
	goCount, jqCount, fmtCount int
	sources                    []string
	formatKeys                 map[string][]string // format name -> decode_in_arg keys
	groupFormats               map[string][]string
}

// walkAST visits every gojq AST node reachable from v (reflection based so that
// new node kinds of the fork are not silently skipped).
func walkAST(v reflect.Value, visit func(reflect.Value)) {
	switch v.Kind() {
	case reflect.Ptr, reflect.Interface:
		if v.IsNil() {
			return
		}
		walkAST(v.Elem(), visit)
	case reflect.Struct:
		visit(v)
		for i := 0; i < v.NumField(); i++ {
			if v.Type().Field(i).IsExported() {
				walkAST(v.Field(i), visit)
			}
		}
	case reflect.Slice:
		for i := 0; i < v.Len(); i++ {
			walkAST(v.Index(i), visit)
		}
	}
}

func analyseDef(fd *gojq.FuncDef) (own map[string]bool, callees map[fnKey]bool) {
	own, callees = map[string]bool{}, map[fnKey]bool{}
	params := map[string]bool{}
	for _, a := range fd.Args {
		params[a] = true
	}
	// nested defs may bind more params; treat theirs the same
	walkAST(reflect.ValueOf(fd.Body), func(v reflect.Value) {
		if d, ok := v.Addr().Interface().(*gojq.FuncDef); ok {
			for _, a := range d.Args {
				params[a] = true
			}
		}
	})
	refsParam := func(q *gojq.Query) bool {
		found := false
		walkAST(reflect.ValueOf(q), func(v reflect.Value) {
			if n, ok := v.Addr().Interface().(*gojq.Func); ok && params[n.Name] {
				found = true
			}
		})
		return found
	}
	walkAST(reflect.ValueOf(fd.Body), func(v reflect.Value) {
		switch n := v.Addr().Interface().(type) {
		case *gojq.Func:
			if !strings.HasPrefix(n.Name, "$") && !params[n.Name] {
				k := fnKey{n.Name, len(n.Args)}
				// the edge carries option values only if an argument of the call
				// mentions one of the caller's parameters
				carries := false
				for _, a := range n.Args {
					carries = carries || refsParam(a)
				}
				callees[k] = callees[k] || carries
			}
		case *gojq.Term:
			if n.Type == gojq.TermTypeFunc && n.Func != nil && strings.HasPrefix(n.Func.Name, "$") && params[n.Func.Name] {
				if len(n.SuffixList) > 0 && n.SuffixList[0].Index != nil && n.SuffixList[0].Index.Name != "" {
					own[n.SuffixList[0].Index.Name] = true
				}
			}
		}
	})
	return own, callees
}

func isDynamic(q *gojq.Query) bool { return q.Term != nil || q.Op != gojq.Operator(0) }

func buildCatalog(s *fqrun.Session, repo string) (*catalog, error) {
	c := &catalog{all: map[fnKey]*fnInfo{}, formatKeys: map[string][]string{}, groupFormats: map[string][]string{}}
	pub := map[fnKey]*fnInfo{}

	addDefs := func(src, text, kind string) error {
		q, err := gojq.Parse(text)
		if err != nil {
			return fmt.Errorf("%s: %w", src, err)
		}
		if isDynamic(q) {
			// dynamic include: the root expression outputs the real source
			outs, err := s.Eval(nil, text)
			if err != nil || len(outs) != 1 {
				return fmt.Errorf("%s: dynamic include: %v %d", src, err, len(outs))
			}
			gen, ok := outs[0].(string)
			if !ok {
				return fmt.Errorf("%s: dynamic include: not a string", src)
			}
			q, err = gojq.Parse(gen)
			if err != nil {
				return fmt.Errorf("%s (generated): %w", src, err)
			}
			if strings.HasSuffix(src, "format_decode.jq") {
				kind = "format"
			}
		}
		for _, fd := range q.FuncDefs {
			k := fnKey{fd.Name, len(fd.Args)}
			own, callees := analyseDef(fd)
			fi := &fnInfo{Key: k, Kind: kind, Src: src, ownKeys: own, callees: callees}
			if old, ok := c.all[k]; ok {
				// redefinition (fq overloads e.g. match/test/tojson and keeps the
				// original as _orig_*): union for the call graph
				for x := range old.ownKeys {
					fi.ownKeys[x] = true
				}
				for x, cv := range old.callees {
					fi.callees[x] = fi.callees[x] || cv
				}
				if old.Kind == "format" {
					fi.Kind = "format"
				}
			}
			c.all[k] = fi
			if !strings.HasPrefix(fd.Name, "_") {
				pub[k] = fi
			}
		}
		return nil
	}

	// 1. embedded interpreter sources
	bfs := interp.VerifBuiltinFS()
	ents, err := bfs.ReadDir(".")
	if err != nil {
		return nil, err
	}
	for _, e := range ents {
		if !strings.HasSuffix(e.Name(), ".jq") {
			continue
		}
		b, err := bfs.ReadFile(e.Name())
		if err != nil {
			return nil, err
		}
		c.sources = append(c.sources, "@builtin/"+e.Name())
		if err := addDefs("@builtin/"+e.Name(), string(b), "jq"); err != nil {
			return nil, err
		}
	}
	// 2. file systems registered by formats
	for i, rfs := range interp.DefaultRegistry.FSs {
		ents, err := rfs.ReadDir(".")
		if err != nil {
			return nil, err
		}
		for _, e := range ents {
			if !strings.HasSuffix(e.Name(), ".jq") {
				continue
			}
			b, err := fs.ReadFile(rfs, e.Name())
			if err != nil {
				return nil, err
			}
			src := fmt.Sprintf("@registry[%d]/%s", i, e.Name())
			c.sources = append(c.sources, src)
			if err := addDefs(src, string(b), "jq"); err != nil {
				return nil, err
			}
		}
	}
	// 3. Go registered functions, instantiated like Interp.Eval does
	for _, ef := range interp.DefaultRegistry.EnvFuncFns {
		f := ef(s.I)
		for a := f.MinArity; a <= f.MaxArity; a++ {
			k := fnKey{f.Name, a}
			fi := &fnInfo{Key: k, Kind: "go", Src: "Registry.EnvFuncFns", ownKeys: map[string]bool{}, callees: map[fnKey]bool{}}
			if old, ok := c.all[k]; ok {
				// a jq def with the same name/arity shadows the Go function for user
				// programs; keep the jq one as the thing under test
				_ = old
				continue
			}
			c.all[k] = fi
			pub[k] = fi
		}
	}
	// 4. option keys of Go functions from the source of the tree under test
	goKeys, err := scanGoOptionKeys(repo)
	if err != nil {
		return nil, err
	}
	for k, keys := range goKeys {
		if fi, ok := c.all[k]; ok && fi.Kind == "go" {
			for _, x := range keys {
				fi.ownKeys[x] = true
			}
		}
	}
	// 5. decode options per format from the registry itself
	outs, err := s.Eval(nil, `_registry | {f: (.formats | map_values((.decode_in_arg // {}) | keys)), g: (.groups | map_values(map(tostring)))}`)
	if err == nil && len(outs) == 1 {
		if m, ok := outs[0].(map[string]any); ok {
			if fm, ok := m["f"].(map[string]any); ok {
				for name, v := range fm {
					for _, x := range toStrings(v) {
						c.formatKeys[name] = append(c.formatKeys[name], x)
					}
				}
			}
			if gm, ok := m["g"].(map[string]any); ok {
				for name, v := range gm {
					c.groupFormats[name] = toStrings(v)
				}
			}
		}
	} else {
		return nil, fmt.Errorf("_registry: %v", err)
	}

	// closure of keys over the call graph
	for _, fi := range pub {
		seen := map[fnKey]bool{}
		keys := map[string]bool{}
		var visit func(k fnKey)
		visit = func(k fnKey) {
			if seen[k] {
				return
			}
			seen[k] = true
			n, ok := c.all[k]
			if !ok {
				return
			}
			for x := range n.ownKeys {
				keys[x] = true
			}
			for cal, carries := range n.callees {
				if carries {
					visit(cal)
				}
			}
		}
		visit(fi.Key)
		if fi.Kind == "format" && fi.Key.Arity > 0 {
			g := strings.TrimPrefix(fi.Key.Name, "from_")
			if _, ok := c.groupFormats[g]; !ok {
				g = fi.Key.Name
			}
			fi.Group = g
			for _, f := range c.groupFormats[g] {
				for _, x := range c.formatKeys[f] {
					keys[x] = true
				}
			}
			for _, x := range c.formatKeys[g] {
				keys[x] = true
			}
		}
		for x := range keys {
			fi.Keys = append(fi.Keys, x)
		}
		sort.Strings(fi.Keys)
	}
	for _, fi := range pub {
		c.public = append(c.public, fi)
		switch fi.Kind {
		case "go":
			c.goCount++
		case "jq":
			c.jqCount++
		case "format":
			c.fmtCount++
		}
	}
	sort.Slice(c.public, func(i, j int) bool {
		a, b := c.public[i], c.public[j]
		if a.Kind != b.Kind {
			return a.Kind < b.Kind
		}
		if a.Key.Name != b.Key.Name {
			return a.Key.Name < b.Key.Name
		}
		return a.Key.Arity < b.Key.Arity
	})
	sort.Strings(c.sources)
	for _, fi := range c.public {
		fi.ReachesOptions = reachesOptions(c, fi)
	}
	return c, nil
}

// The catalog is the same for every process of a run (it is a function of the
// tree under test); a worker that re-executes itself after a watchdog kill reloads
// it from the run's scratch directory instead of recomputing it.
type catalogFile struct {
	Public  []*fnInfo
	Go      int
	Jq      int
	Fmt     int
	Sources []string
}

func loadOrBuildCatalog(cacheDir string, repo string) (*catalog, error) {
	path := ""
	if cacheDir != "" {
		path = filepath.Join(cacheDir, "c13-catalog.json")
		if b, err := os.ReadFile(path); err == nil {
			var cf catalogFile
			if json.Unmarshal(b, &cf) == nil && len(cf.Public) > 0 {
				return &catalog{public: cf.Public, goCount: cf.Go, jqCount: cf.Jq, fmtCount: cf.Fmt, sources: cf.Sources}, nil
			}
		}
	}
	s, err := fqrun.NewSession(nil)
	if err != nil {
		return nil, err
	}
	defer s.Close()
	c, err := buildCatalog(s, repo)
	if err != nil {
		return nil, err
	}
	if path != "" {
		if b, err := json.Marshal(catalogFile{Public: c.public, Go: c.goCount, Jq: c.jqCount, Fmt: c.fmtCount, Sources: c.sources}); err == nil {
			tmp := fmt.Sprintf("%s.%d", path, os.Getpid())
			if os.WriteFile(tmp, b, 0o644) == nil {
				_ = os.Rename(tmp, path)
			}
		}
	}
	return c, nil
}

func toStrings(v any) []string {
	var out []string
	if a, ok := v.([]any); ok {
		for _, x := range a {
			switch x := x.(type) {
			case string:
				out = append(out, x)
			case map[string]any:
				if n, ok := x["name"].(string); ok {
					out = append(out, n)
				}
			}
		}
	}
	return out
}

// ---------------------------------------------------------------------------
// Go side: which option keys does a registered Go function declare? The argument
// types are type parameters of gojqx.FuncN/IterN and not visible to reflection on
// the closures in the registry, so the source of the tree under test is read
// (go/parser only): RegisterFuncN/RegisterIterN("name", fn) -> fn's parameter
// types -> struct fields -> mapstruct.CamelToSnake(field).

func scanGoOptionKeys(repo string) (map[fnKey][]string, error) {
	out := map[fnKey][]string{}
	dirs := map[string]bool{}
	for _, root := range []string{"pkg/interp", "format"} {
		_ = filepath.WalkDir(filepath.Join(repo, root), func(p string, d fs.DirEntry, err error) error {
			if err != nil || d.IsDir() || !strings.HasSuffix(p, ".go") || strings.HasSuffix(p, "_test.go") {
				return nil
			}
			b, err := os.ReadFile(p)
			if err != nil {
				return nil
			}
			if strings.Contains(string(b), "RegisterFunc") || strings.Contains(string(b), "RegisterIter") {
				dirs[filepath.Dir(p)] = true
			}
			return nil
		})
	}
	var dl []string
	for d := range dirs {
		dl = append(dl, d)
	}
	sort.Strings(dl)
	for _, dir := range dl {
		fset := token.NewFileSet()
		pkgs, err := parser.ParseDir(fset, dir, func(fi fs.FileInfo) bool { return !strings.HasSuffix(fi.Name(), "_test.go") }, 0)
		if err != nil {
			return nil, fmt.Errorf("parse %s: %w", dir, err)
		}
		for _, pkg := range pkgs {
			scanGoPackage(pkg, out)
		}
	}
	return out, nil
}

type goPkg struct {
	structs map[string]*ast.StructType
	funcs   map[string]*ast.FuncDecl // "name" or "Recv.name"
}

func scanGoPackage(pkg *ast.Package, out map[fnKey][]string) {
	gp := &goPkg{structs: map[string]*ast.StructType{}, funcs: map[string]*ast.FuncDecl{}}
	for _, f := range pkg.Files {
		// struct types at any scope (option structs are often declared inside init())
		ast.Inspect(f, func(n ast.Node) bool {
			if ts, ok := n.(*ast.TypeSpec); ok {
				if st, ok := ts.Type.(*ast.StructType); ok {
					gp.structs[ts.Name.Name] = st
				}
			}
			return true
		})
		for _, d := range f.Decls {
			switch d := d.(type) {
			case *ast.FuncDecl:
				name := d.Name.Name
				if d.Recv != nil && len(d.Recv.List) == 1 {
					name = recvName(d.Recv.List[0].Type) + "." + name
				}
				gp.funcs[name] = d
			}
		}
	}
	for _, f := range pkg.Files {
		ast.Inspect(f, func(n ast.Node) bool {
			call, ok := n.(*ast.CallExpr)
			if !ok || len(call.Args) != 2 {
				return true
			}
			var fname string
			switch fun := call.Fun.(type) {
			case *ast.Ident:
				fname = fun.Name
			case *ast.SelectorExpr:
				fname = fun.Sel.Name
			}
			if !strings.HasPrefix(fname, "RegisterFunc") && !strings.HasPrefix(fname, "RegisterIter") {
				return true
			}
			arity, err := strconv.Atoi(fname[len("RegisterFunc"):])
			if err != nil {
				return true
			}
			lit, ok := call.Args[0].(*ast.BasicLit)
			if !ok || lit.Kind != token.STRING {
				return true
			}
			name, _ := strconv.Unquote(lit.Value)
			var ft *ast.FuncType
			var body *ast.BlockStmt
			method := false
			switch fv := call.Args[1].(type) {
			case *ast.FuncLit:
				ft, body = fv.Type, fv.Body
			case *ast.Ident:
				if d, ok := gp.funcs[fv.Name]; ok {
					ft, body = d.Type, d.Body
				}
			case *ast.SelectorExpr:
				// (*Interp).method
				if d, ok := gp.funcs[recvName(fv.X)+"."+fv.Sel.Name]; ok {
					ft, body, method = d.Type, d.Body, true
				}
			}
			if ft == nil {
				return true
			}
			keys := map[string]bool{}
			var ptypes []ast.Expr
			for _, p := range ft.Params.List {
				cnt := len(p.Names)
				if cnt == 0 {
					cnt = 1
				}
				for i := 0; i < cnt; i++ {
					ptypes = append(ptypes, p.Type)
				}
			}
			if !method && len(ptypes) > 0 {
				ptypes = ptypes[1:] // env
			}
			for _, t := range ptypes {
				gp.structKeys(t, keys, 0)
			}
			if body != nil {
				gp.bodyKeys(body, keys, 0)
			}
			var ks []string
			for k := range keys {
				ks = append(ks, k)
			}
			sort.Strings(ks)
			out[fnKey{name, arity}] = ks
			return true
		})
	}
}

func recvName(e ast.Expr) string {
	for {
		switch x := e.(type) {
		case *ast.ParenExpr:
			e = x.X
		case *ast.StarExpr:
			e = x.X
		case *ast.Ident:
			return x.Name
		default:
			return ""
		}
	}
}

func (gp *goPkg) structKeys(t ast.Expr, keys map[string]bool, depth int) {
	if depth > 3 {
		return
	}
	var st *ast.StructType
	switch x := t.(type) {
	case *ast.Ident:
		st = gp.structs[x.Name]
	case *ast.StructType:
		st = x
	case *ast.StarExpr:
		gp.structKeys(x.X, keys, depth)
		return
	case *ast.ArrayType:
		gp.structKeys(x.Elt, keys, depth+1)
		return
	}
	if st == nil {
		return
	}
	for _, f := range st.Fields.List {
		if f.Tag != nil && strings.Contains(f.Tag.Value, ",remain") {
			continue
		}
		for _, n := range f.Names {
			if !n.IsExported() {
				continue
			}
			keys[mapstruct.CamelToSnake(n.Name)] = true
		}
	}
}

// bodyKeys: option structs that the body fills through mapstruct.ToStruct, directly
// or in a package level function it calls (OptionsFromValue pattern).
func (gp *goPkg) bodyKeys(body *ast.BlockStmt, keys map[string]bool, depth int) {
	if depth > 2 {
		return
	}
	usesToStruct := false
	ast.Inspect(body, func(n ast.Node) bool {
		if call, ok := n.(*ast.CallExpr); ok {
			switch fun := call.Fun.(type) {
			case *ast.SelectorExpr:
				if fun.Sel.Name == "ToStruct" {
					usesToStruct = true
				}
			case *ast.Ident:
				if d, ok := gp.funcs[fun.Name]; ok && d.Body != nil && d.Body != body {
					gp.bodyKeys(d.Body, keys, depth+1)
				}
			}
		}
		return true
	})
	if usesToStruct {
		ast.Inspect(body, func(n ast.Node) bool {
			if vs, ok := n.(*ast.ValueSpec); ok && vs.Type != nil {
				gp.structKeys(vs.Type, keys, 0)
			}
			return true
		})
	}
}
