package c15

import (
	"bytes"
	"compress/flate"
	"compress/gzip"
	"encoding/binary"
	"fmt"
	"hash/crc32"
	"io"
	"time"

	"github.com/wader/fq/internal/verif/core"
)

// RFC 1952 FLG bits
const (
	fTEXT    = 1
	fHCRC    = 2
	fEXTRA   = 4
	fNAME    = 8
	fCOMMENT = 16
)

type gzSpec struct {
	Writer string `json:"writer"` // std (compress/gzip) | hand (RFC 1952 header written here + compress/flate)
	Level  int    `json:"level"`  // 0, 1, 9
	Flags  int    `json:"flags"`  // RFC 1952 FLG bits
	Count  int    `json:"count"`
	Name   int    `json:"name"`
	Pay    int    `json:"pay"`
	// Hdr: header field grid file: the fixed header fields of every member are
	// the given ones (compress/gzip: MTIME and OS; XFL follows from the level there).
	Hdr *gzHdr `json:"hdr,omitempty"`
}

// gzHdr: MTIME, XFL and OS of RFC 1952 2.3.1.
type gzHdr struct {
	Mtime uint32 `json:"mtime"`
	XFL   byte   `json:"xfl"`
	OS    byte   `json:"os"`
}

// RFC 1952 2.3.1 OS values, lower case without punctuation (255 = unknown has no name).
var gzOSNames = map[byte]string{0: "fat", 1: "amiga", 2: "vms", 3: "unix", 4: "vmcms", 5: "ataritos", 6: "hpfs", 7: "macintosh",
	8: "zsystem", 9: "cpm", 10: "tops20", 11: "ntfs", 12: "qdos", 13: "acornriscos"}

// XFL for deflate: 2 = maximum compression, slowest algorithm; 4 = fastest algorithm
var gzXFLNames = map[byte]string{2: "slow", 4: "fast"}

func normName(s string) string {
	var b []byte
	for i := 0; i < len(s); i++ {
		ch := s[i]
		if ch >= 'A' && ch <= 'Z' {
			ch += 'a' - 'A'
		}
		if ch >= 'a' && ch <= 'z' || ch >= '0' && ch <= '9' {
			b = append(b, ch)
		}
	}
	return string(b)
}

// boundary values of a 32 bit and an 8 bit field: every bit set and clear, sign and wrap edges
var u32Grid = []uint32{0, 1, 0x7fffffff, 0x80000000, 0xffffffff, 0x55555555, 0xaaaaaaaa}
var u8Grid = []byte{0, 1, 0x7f, 0x80, 0xff, 0x55, 0xaa}

func walk32() []uint32 {
	var l []uint32
	for i := 0; i < 32; i++ {
		l = append(l, 1<<i, ^uint32(1<<i))
	}
	return l
}

type gzMember struct {
	Flags                     int
	Mtime                     uint32
	XFL, OS                   byte
	Extra                     []byte
	Name, Comment             string
	HCRC                      []byte
	Payload                   []byte
	Start, CompStart, CompEnd int // offsets in the file
	HCRCOff                   int
}

type gzExp struct {
	Members []*gzMember
	Nested  string
	Inner   []byte
}

// gzip name grid: the shared names plus one that only needs Latin-1
var gzNames = append(append([]string{}, names...), "café.txt")
var gzNameLabels = append(append([]string{}, nameLabels...), "latin1")

func latin1(s string) ([]byte, bool) {
	var b []byte
	for _, r := range s {
		if r == 0 || r > 0xff {
			return nil, false
		}
		b = append(b, byte(r))
	}
	return b, true
}

func deflateRaw(p []byte, level int) []byte {
	var b bytes.Buffer
	w, err := flate.NewWriter(&b, level)
	if err != nil {
		panic(err)
	}
	_, _ = w.Write(p)
	_ = w.Close()
	return b.Bytes()
}

// handGzipMember writes one RFC 1952 member: header fields in the order FEXTRA,
// FNAME, FCOMMENT, FHCRC (CRC16 = low 16 bits of the CRC-32 of the header bytes).
// Strings are written as the bytes of the Go string (what GNU gzip does with the
// file system name).
func handGzipMember(m *gzMember, level int, base int) []byte {
	var b bytes.Buffer
	b.Write([]byte{0x1f, 0x8b, 8, byte(m.Flags)})
	_ = binary.Write(&b, binary.LittleEndian, m.Mtime)
	b.Write([]byte{m.XFL, m.OS})
	if m.Flags&fEXTRA != 0 {
		_ = binary.Write(&b, binary.LittleEndian, uint16(len(m.Extra)))
		b.Write(m.Extra)
	}
	if m.Flags&fNAME != 0 {
		b.WriteString(m.Name)
		b.WriteByte(0)
	}
	if m.Flags&fCOMMENT != 0 {
		b.WriteString(m.Comment)
		b.WriteByte(0)
	}
	if m.Flags&fHCRC != 0 {
		c := crc32.ChecksumIEEE(b.Bytes())
		m.HCRCOff = base + b.Len()
		m.HCRC = []byte{byte(c), byte(c >> 8)}
		b.Write(m.HCRC)
	}
	m.Start = base
	m.CompStart = base + b.Len()
	b.Write(deflateRaw(m.Payload, level))
	m.CompEnd = base + b.Len()
	_ = binary.Write(&b, binary.LittleEndian, crc32.ChecksumIEEE(m.Payload))
	_ = binary.Write(&b, binary.LittleEndian, uint32(len(m.Payload)))
	return b.Bytes()
}

func stdGzipMember(m *gzMember, level int, base int, setOS bool) []byte {
	var b bytes.Buffer
	w, err := gzip.NewWriterLevel(&b, level)
	if err != nil {
		panic(err)
	}
	hl := 10
	if m.Flags&fEXTRA != 0 {
		w.Extra = m.Extra
		hl += 2 + len(m.Extra)
	}
	if m.Flags&fNAME != 0 {
		w.Name = m.Name
		l, _ := latin1(m.Name)
		hl += len(l) + 1
	}
	if m.Flags&fCOMMENT != 0 {
		w.Comment = m.Comment
		hl += len(m.Comment) + 1
	}
	// compress/gzip stores uint32(ModTime.Unix()) when ModTime is after the epoch, else 0
	if m.Mtime != 0 {
		w.ModTime = time.Unix(int64(m.Mtime), 0)
	}
	if setOS {
		w.OS = m.OS
	}
	m.OS = w.OS
	if _, err := w.Write(m.Payload); err != nil {
		return nil
	}
	if err := w.Close(); err != nil {
		return nil
	}
	m.Start = base
	m.CompStart = base + hl
	m.CompEnd = base + b.Len() - 8
	return b.Bytes()
}

func gzBuild(spec any) *genFile {
	sp := spec.(*gzSpec)
	exp := &gzExp{}
	var out []byte
	pays := payloads
	for i := 0; i < sp.Count; i++ {
		p := pays[(sp.Pay+i)%len(pays)]
		m := &gzMember{Flags: sp.Flags, Mtime: 1600000000 + uint32(i), Payload: p.Data}
		switch sp.Level {
		case 9:
			m.XFL = 2
		case 1:
			m.XFL = 4
		}
		if sp.Hdr != nil {
			m.Mtime, m.OS = sp.Hdr.Mtime, sp.Hdr.OS
			if sp.Writer == "hand" {
				m.XFL = sp.Hdr.XFL
			}
		}
		if sp.Flags&fEXTRA != 0 {
			m.Extra = []byte{'A', 'p', 3, 0, 'x', byte(i), 'z'}
		}
		if sp.Flags&fNAME != 0 {
			m.Name = gzNames[(sp.Name+i)%len(gzNames)]
		}
		if sp.Flags&fCOMMENT != 0 {
			m.Comment = fmt.Sprintf("comment of member %d", i)
		}
		var b []byte
		if sp.Writer == "std" {
			if sp.Flags&(fHCRC|fTEXT) != 0 {
				return nil
			}
			if _, ok := latin1(m.Name); !ok {
				return nil
			}
			b = stdGzipMember(m, sp.Level, len(out), sp.Hdr != nil)
			if b == nil {
				return nil
			}
		} else {
			if sp.Hdr == nil {
				m.OS = 3
			}
			b = handGzipMember(m, sp.Level, len(out))
		}
		// what the writer really stored: MTIME, XFL, OS at their fixed offsets
		if binary.LittleEndian.Uint32(b[4:]) != m.Mtime || b[8] != m.XFL || b[9] != m.OS {
			panic(fmt.Sprintf("c15 harness error: gzip writer %s stored mtime/xfl/os %x, asked for %d/%d/%d", sp.Writer, b[4:10], m.Mtime, m.XFL, m.OS))
		}
		out = append(out, b...)
		exp.Members = append(exp.Members, m)
		if sp.Count == 1 {
			exp.Nested, exp.Inner = p.Nested, p.Inner
		}
	}
	f := &genFile{Data: out, Exp: exp, Zero: sp.Count == 0}
	f.Desc = fmt.Sprintf("writer=%s level=%d flags=0x%02x members=%d", sp.Writer, sp.Level, sp.Flags, sp.Count)
	if sp.Count > 0 {
		f.Desc += fmt.Sprintf(" name=%s payload=%s", gzNameLabels[sp.Name], pays[sp.Pay].Name)
	}
	f.Nontriv = sp.Count > 0 && (sp.Flags != 0 || len(exp.Members[0].Payload) > 0 || sp.Count > 1)
	if sp.Hdr != nil {
		f.Desc += fmt.Sprintf(" hdr(mtime=%d xfl=%d os=%d)", sp.Hdr.Mtime, sp.Hdr.XFL, sp.Hdr.OS)
		// header field grid files take no part in the fault enumeration
		return f
	}
	for i, m := range exp.Members {
		pre := fmt.Sprintf("member%d.", i)
		if m.Flags&fHCRC != 0 {
			f.Regions = append(f.Regions,
				region{Name: pre + "header", Start: m.Start, End: m.HCRCOff, Kind: "covered", Checksum: "header_crc"},
				region{Name: pre + "header_crc", Start: m.HCRCOff, End: m.HCRCOff + 2, Kind: "stored", Checksum: "header_crc"})
		}
		f.Regions = append(f.Regions,
			region{Name: pre + "compressed", Start: m.CompStart, End: m.CompEnd, Kind: "covered"},
			region{Name: pre + "crc32", Start: m.CompEnd, End: m.CompEnd + 4, Kind: "stored"},
			region{Name: pre + "isize", Start: m.CompEnd + 4, End: m.CompEnd + 8, Kind: "isize"})
	}
	return f
}

// gzHdrGrid: quick = a covering list (every value of every field once, the other
// fields at a default); thorough = the full product over the wider value lists.
func gzHdrGrid(wide bool) []gzHdr {
	mt := append([]uint32{}, u32Grid...)
	var xfl, os []byte
	xfl = append(xfl, u8Grid...)
	xfl = append(xfl, 2, 4)
	os = append(os, u8Grid...)
	for v := byte(2); v <= 14; v++ {
		os = append(os, v)
	}
	for i := 0; i < 8; i++ {
		xfl = append(xfl, 1<<i, ^byte(1<<i))
		os = append(os, 1<<i, ^byte(1<<i))
	}
	var l []gzHdr
	seen := map[gzHdr]bool{}
	add := func(h gzHdr) {
		if !seen[h] {
			seen[h] = true
			l = append(l, h)
		}
	}
	if wide {
		mt = append(mt, walk32()...)
		for _, m := range mt {
			for _, x := range xfl {
				for _, o := range os {
					add(gzHdr{m, x, o})
				}
			}
		}
		return l
	}
	for _, m := range append(mt, walk32()...) {
		add(gzHdr{m, 2, 3})
	}
	for _, x := range xfl {
		add(gzHdr{1600000000, x, 3})
	}
	for _, o := range os {
		add(gzHdr{1600000000, 2, o})
	}
	return l
}

func gzEnum(r *core.Run, emit func(any)) {
	emit(&gzSpec{Writer: "hand", Count: 0})
	// header field grid: FLG 0 and FNAME|FCOMMENT are the two flag bytes fq reads right
	for _, w := range []string{"std", "hand"} {
		seen := map[gzHdr]bool{}
		for _, h := range gzHdrGrid(r.Thorough()) {
			h := h
			if w == "std" {
				h.XFL = 2 // follows from level 9
				if seen[h] {
					continue
				}
				seen[h] = true
			}
			for _, flags := range []int{0, fNAME | fCOMMENT} {
				for count := 1; count <= core.Pick(r, 1, 2); count++ {
					emit(&gzSpec{Writer: w, Level: 9, Flags: flags, Count: count, Name: 0, Pay: 2, Hdr: &h})
				}
			}
		}
	}
	for _, w := range []string{"std", "hand"} {
		for _, level := range []int{0, 1, 9} {
			for flags := 0; flags < 32; flags += 2 { // every subset of FHCRC, FEXTRA, FNAME, FCOMMENT
				for count := 1; count <= 3; count++ {
					nn := 1
					if flags&fNAME != 0 {
						nn = len(gzNames)
					}
					for n := 0; n < nn; n++ {
						for p := range payloads {
							emit(&gzSpec{Writer: w, Level: level, Flags: flags, Count: count, Name: n, Pay: p})
						}
					}
				}
			}
		}
	}
}

const gzProg = `
def obs: {
  err: errs, fmt: (try format catch null), validity: validity,
  members: [.members[]? | {
    cm: (.compression_method|act), flags: (.flags | if type == "null" then null else tovalue({bits_format:"string"}) end),
    mtime: (.mtime|act), mtime_desc: (.mtime|desc), xfl: (.extra_flags|act), xfl_sym: (.extra_flags|._sym|plain), os: (.os|act), os_sym: (.os|._sym|plain),
    xlen: (.xlen|act), extra: (.extra_fields|tb), name: (.name|act), comment: (.comment|act), hcrc: (.header_crc|tb),
    unc: (.uncompressed|tb), comp: (.compressed|tb), crc: (.crc32|act), crc_desc: (.crc32|desc), isize: (.isize|act)}],
  unc: (.uncompressed | nested),
  inner: (try (.uncompressed.members[0].uncompressed | tb) catch null)
};`

// flagsMisread reports whether the observed flags struct of the first member is
// what reading the FLG byte most significant bit first in the order text,
// header_crc, extra, name, comment, reserved(3) gives, and that reading is wrong.
func flagsMisread(o map[string]any, flg int) bool {
	if flg == 0 || flg == fNAME|fCOMMENT {
		return false // the mirrored reading coincides with the right one
	}
	ms, _ := o["members"].([]any)
	if len(ms) == 0 {
		return false
	}
	m0, _ := ms[0].(map[string]any)
	fl, _ := m0["flags"].(map[string]any)
	if fl == nil {
		return false
	}
	b := func(k string) bool { v, _ := fl[k].(bool); return v }
	res, _ := gi(fl["reserved"])
	bit := func(i uint) bool { return flg>>i&1 == 1 }
	return b("text") == bit(7) && b("header_crc") == bit(6) && b("extra") == bit(5) &&
		b("name") == bit(4) && b("comment") == bit(3) && res == int64(flg&7)
}

func gzCheck(f *genFile, o map[string]any, probe bool) []mm {
	exp := f.Exp.(*gzExp)
	c := &cmp{pre: "gzip"}
	ms, _ := o["members"].([]any)
	if len(exp.Members) > 0 && flagsMisread(o, exp.Members[0].Flags) {
		flg := exp.Members[0].Flags
		m0 := ms[0].(map[string]any)
		c.add("flags:bit-order-reversed", fmt.Sprintf("FLG byte 0x%02x (RFC 1952: bit0 FTEXT, bit1 FHCRC, bit2 FEXTRA, bit3 FNAME, bit4 FCOMMENT) is reported as %s: the bits are read most significant first, so FNAME and FCOMMENT are swapped and FEXTRA/FHCRC land in 'reserved'; name=%s comment=%s written name=%q comment=%q",
			flg, show(m0["flags"]), show(m0["name"]), show(m0["comment"]), exp.Members[0].Name, exp.Members[0].Comment))
		return c.ms
	}
	if _, isErr := obsError(o); isErr {
		return nil
	}
	if len(ms) != len(exp.Members) {
		c.add("member-count", fmt.Sprintf("fq reports %d members, written %d", len(ms), len(exp.Members)))
		return c.ms
	}
	var all []byte
	for i, e := range exp.Members {
		m, _ := ms[i].(map[string]any)
		if m == nil {
			c.add("member", "member is not an object")
			continue
		}
		all = append(all, e.Payload...)
		c.num("compression_method", m["cm"], 8)
		fl, _ := m["flags"].(map[string]any)
		if fl == nil {
			c.add("flags", "no flags struct")
		} else {
			c.boolean("flags.text", fl["text"], e.Flags&fTEXT != 0)
			c.boolean("flags.header_crc", fl["header_crc"], e.Flags&fHCRC != 0)
			c.boolean("flags.extra", fl["extra"], e.Flags&fEXTRA != 0)
			c.boolean("flags.name", fl["name"], e.Flags&fNAME != 0)
			c.boolean("flags.comment", fl["comment"], e.Flags&fCOMMENT != 0)
			c.num("flags.reserved", fl["reserved"], 0)
		}
		c.num("mtime", m["mtime"], int64(e.Mtime))
		c.str("mtime.description", m["mtime_desc"], rfc3339UTC(int64(e.Mtime)))
		c.num("extra_flags", m["xfl"], int64(e.XFL))
		c.num("os", m["os"], int64(e.OS))
		// the names fq shows for XFL and OS against the RFC 1952 tables (spelling of
		// separators and case is fq's own: compared lower case without punctuation)
		symCheck := func(field string, got any, want string, v byte) {
			g, isStr := gs(got)
			if want == "" && got == nil {
				return
			}
			if want == "" || !isStr || normName(g) != want {
				c.add(fmt.Sprintf("%s.sym:%d", field, v), fmt.Sprintf("%s %d: fq shows the name %s, RFC 1952 says %s", field, v, show(got), show(want)))
			}
		}
		symCheck("extra_flags", m["xfl_sym"], gzXFLNames[e.XFL], e.XFL)
		symCheck("os", m["os_sym"], gzOSNames[e.OS], e.OS)
		if e.Flags&fEXTRA != 0 {
			c.num("xlen", m["xlen"], int64(len(e.Extra)))
			c.bytes("extra_fields", m["extra"], e.Extra)
		} else {
			c.absent("xlen", m["xlen"])
		}
		if e.Flags&fNAME != 0 {
			if g, _ := gs(m["name"]); g != e.Name {
				sp := f.Spec.(*gzSpec)
				if l1, ok := latin1(e.Name); ok && sp.Writer == "std" && !isASCII(e.Name) && g == string(bytes.ToValidUTF8(l1, []byte("�"))) {
					c.add("name:latin1-byte-decoded-as-utf8", fmt.Sprintf("name written by compress/gzip as ISO 8859-1 (RFC 1952 2.3.1) bytes %x is reported as %s, written %q", l1, show(m["name"]), e.Name))
				} else {
					c.str("name", m["name"], e.Name)
				}
			}
		} else {
			c.absent("name", m["name"])
		}
		if e.Flags&fCOMMENT != 0 {
			c.str("comment", m["comment"], e.Comment)
		} else {
			c.absent("comment", m["comment"])
		}
		if e.Flags&fHCRC != 0 {
			c.bytes("header_crc", m["hcrc"], e.HCRC)
		} else {
			c.absent("header_crc", m["hcrc"])
		}
		c.bytes("member.uncompressed", m["unc"], e.Payload)
		c.bytes("member.compressed", m["comp"], f.Data[e.CompStart:e.CompEnd])
		c.num("crc32", m["crc"], int64(crc32.ChecksumIEEE(e.Payload)))
		c.str("crc32.description", m["crc_desc"], "valid")
		c.num("isize", m["isize"], int64(uint32(len(e.Payload))))
	}
	u, _ := o["unc"].(map[string]any)
	if u == nil {
		c.add("uncompressed", "no root .uncompressed field")
		return c.ms
	}
	c.bytes("uncompressed", u["bytes"], all)
	if exp.Nested != "" {
		c.str("uncompressed.format:"+exp.Nested, u["fmt"], exp.Nested)
		if exp.Inner != nil {
			c.bytes("uncompressed.nested-gzip.uncompressed", o["inner"], exp.Inner)
		}
	}
	return c.ms
}

// gzTruthful: a clean all-valid tree of a changed file is accepted only when
// Go's compress/gzip reader (which verifies CRC-32 and ISIZE of every member)
// accepts the changed file too and yields the payload fq exposes.
func gzTruthful(f *genFile, mut []byte, reg region, o map[string]any) (bool, string) {
	u, _ := o["unc"].(map[string]any)
	got, _ := gb(u["bytes"])
	exp := f.Exp.(*gzExp)
	if reg.Kind == "isize" {
		var all []byte
		for _, e := range exp.Members {
			all = append(all, e.Payload...)
		}
		ms, _ := o["members"].([]any)
		for i, e := range exp.Members {
			if reg.Start == e.CompEnd+4 && i < len(ms) {
				m, _ := ms[i].(map[string]any)
				is, _ := gi(m["isize"])
				if bytes.Equal(got, all) && is == int64(binary.LittleEndian.Uint32(mut[reg.Start:])) {
					return true, "isize_reported_as_stored"
				}
			}
		}
		return false, "ISIZE changed, fq neither reports the stored value nor an error"
	}
	zr, err := gzip.NewReader(bytes.NewReader(mut))
	if err != nil {
		return false, "compress/gzip rejects the file (" + err.Error() + "), fq shows crc32 valid"
	}
	ref, err := io.ReadAll(zr)
	if err != nil {
		return false, "compress/gzip rejects the file (" + err.Error() + "), fq shows every crc32 valid and payload " + shortB(got)
	}
	if !bytes.Equal(ref, got) {
		return false, "compress/gzip yields " + shortB(ref) + ", fq exposes " + shortB(got)
	}
	return true, "truthful_clean_tree"
}

func init() {
	register(&section{
		name: "gzip", fqfmt: "gzip", prog: gzProg,
		fprog:    `def fobs: {err: errs, validity: validity, unc: {bytes: (.uncompressed|tb)}, members: [.members[]? | {isize: (.isize|act)}]};`,
		newSpec:  func() any { return &gzSpec{} },
		enum:     gzEnum,
		build:    gzBuild,
		check:    gzCheck,
		onError:  gzCheck,
		truthful: gzTruthful,
	})
}
