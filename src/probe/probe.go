package probe

import (
	"fmt"
	"time"

	"github.com/wader/fq/internal/verif/core"
	"github.com/wader/fq/internal/verif/fqrun"
)

var Check = core.Check{ID: "PROBE", Level: "other", Run: run}

func run(r *core.Run) {
	t := time.Now()
	res := fqrun.Run(fqrun.Opts{Args: []string{"-c", ".a", "f.json"}, Files: map[string][]byte{"f.json": []byte(`{"a":[1,2]}`)}, StdinIsTerminal: true})
	fmt.Println(res, time.Since(t))
	t = time.Now()
	res = fqrun.Run(fqrun.Opts{Args: []string{"-n", "1/0"}, StdinIsTerminal: true})
	fmt.Println(res, time.Since(t))
	res = fqrun.Run(fqrun.Opts{Args: []string{".", "missing"}, StdinIsTerminal: true})
	fmt.Println(res)
	s, err := fqrun.NewSession(map[string][]byte{"f.json": []byte(`{"a":[1,2]}`)})
	fmt.Println(err)
	t = time.Now()
	o, err := s.Eval(nil, `[1,2,3] | map(.+1) | tojson, ("abc" | tobits | .[3:11] | tobytes | tostring), (input_filename)`)
	fmt.Println(o, err, time.Since(t))
	o, err = s.Eval(nil, `"f.json" | open | decode | .a[1] | tovalue, (1|bsl(1;-1))`)
	fmt.Println(o, err)
	r.Eval(1)
}
