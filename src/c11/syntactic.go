package c11

import (
	"encoding/json"
	"fmt"
	"reflect"
	"strings"

	"github.com/wader/fq/internal/verif/core"
	"github.com/wader/gojq"
)

var (
	typTermPtr   = reflect.TypeOf((*gojq.Term)(nil))
	typStringPtr = reflect.TypeOf((*gojq.String)(nil))
)

// collapsible reports whether t is `( T )` with nothing attached: a
// TermTypeQuery without suffixes around a query that is a single term without
// definitions. Such a wrapper is a redundant parenthesis at tree level.
func collapsible(t *gojq.Term) bool {
	if t == nil || t.Type != gojq.TermTypeQuery || len(t.SuffixList) != 0 || t.Query == nil {
		return false
	}
	iq := t.Query
	return iq.Term != nil && iq.Meta == nil && len(iq.Imports) == 0 && len(iq.FuncDefs) == 0 &&
		iq.Left == nil && iq.Right == nil && iq.Op == 0 && iq.Func == ""
}

// normalize rewrites the tree in place: redundant parentheses around a single
// term are removed (not the ones that mark a string interpolation part, the
// printer keys on them), empty slices become nil.
func normalize(q *gojq.Query) {
	normValue(reflect.ValueOf(q))
}

func normValue(v reflect.Value) {
	switch v.Kind() {
	case reflect.Ptr:
		if v.IsNil() {
			return
		}
		switch v.Type() {
		case typTermPtr:
			t := v.Interface().(*gojq.Term)
			for collapsible(t) {
				*t = *t.Query.Term
			}
		case typStringPtr:
			s := v.Interface().(*gojq.String)
			if len(s.Queries) == 0 {
				s.Queries = nil
			}
			for _, part := range s.Queries {
				if part != nil && part.Term != nil && part.Term.Type == gojq.TermTypeQuery && len(part.Term.SuffixList) == 0 && part.Term.Query != nil {
					normValue(reflect.ValueOf(part.Term.Query))
				} else {
					normValue(reflect.ValueOf(part))
				}
			}
			return
		}
		normValue(v.Elem())
	case reflect.Struct:
		for i := 0; i < v.NumField(); i++ {
			normValue(v.Field(i))
		}
	case reflect.Slice:
		if v.Len() == 0 {
			if !v.IsNil() && v.CanSet() {
				v.Set(reflect.Zero(v.Type()))
			}
			return
		}
		for i := 0; i < v.Len(); i++ {
			normValue(v.Index(i))
		}
	}
}

// astDiff returns "" when both trees are equal, else the type level path of the
// first difference and a rendering of both sides.
func astDiff(a, b reflect.Value, path string) string {
	if a.Kind() != b.Kind() {
		return path + ": kind"
	}
	switch a.Kind() {
	case reflect.Ptr:
		if a.IsNil() || b.IsNil() {
			if a.IsNil() != b.IsNil() {
				return fmt.Sprintf("%s: nil=%v vs nil=%v", path, a.IsNil(), b.IsNil())
			}
			return ""
		}
		return astDiff(a.Elem(), b.Elem(), path)
	case reflect.Struct:
		for i := 0; i < a.NumField(); i++ {
			if d := astDiff(a.Field(i), b.Field(i), path+"."+a.Type().Field(i).Name); d != "" {
				return d
			}
		}
		return ""
	case reflect.Slice:
		if a.Len() != b.Len() {
			return fmt.Sprintf("%s: len %d vs %d", path, a.Len(), b.Len())
		}
		for i := 0; i < a.Len(); i++ {
			if d := astDiff(a.Index(i), b.Index(i), path+"[]"); d != "" {
				return d
			}
		}
		return ""
	case reflect.String:
		if a.String() != b.String() {
			return fmt.Sprintf("%s: %q vs %q", path, a.String(), b.String())
		}
		return ""
	case reflect.Bool:
		if a.Bool() != b.Bool() {
			return fmt.Sprintf("%s: %v vs %v", path, a.Bool(), b.Bool())
		}
		return ""
	case reflect.Int, reflect.Int64:
		if a.Int() != b.Int() {
			if a.Type() == reflect.TypeOf(gojq.TermType(0)) {
				return fmt.Sprintf("%s: %#v vs %#v", path, a.Interface(), b.Interface())
			}
			return fmt.Sprintf("%s: %v vs %v", path, a.Interface(), b.Interface())
		}
		return ""
	}
	if !reflect.DeepEqual(a.Interface(), b.Interface()) {
		return path + ": differs"
	}
	return ""
}

func diffQueries(a, b *gojq.Query) string {
	return astDiff(reflect.ValueOf(a), reflect.ValueOf(b), "Query")
}

// diffClass strips the concrete values from a diff for use in a signature.
func diffClass(d string) string {
	for i := 0; i < len(d); i++ {
		if d[i] == ':' {
			return d[:i]
		}
	}
	return d
}

type viol struct {
	sig  string
	what string
	prog string
}

const (
	sigInvalidUTF8 = "program-text-invalid-utf8"
	sigEmptyImport = "import-empty-path-printed-as-include"
)

// tail3 keeps the last three components of a type path.
func tail3(path string) string {
	n := 0
	for i := len(path) - 1; i >= 0; i-- {
		if path[i] == '.' {
			n++
			if n == 3 {
				return path[i+1:]
			}
		}
	}
	return path
}

// diffSig makes a narrow class from a tree difference: where (last path components) and what (both values).
func diffSig(d string) string {
	i := strings.Index(d, ": ")
	if i < 0 {
		return tail3(d)
	}
	return tail3(d[:i]) + ":" + trunc(d[i+2:], 48)
}

// textDiffSig: the differing middle parts of two texts.
func textDiffSig(a, b string) string {
	i := 0
	for i < len(a) && i < len(b) && a[i] == b[i] {
		i++
	}
	j := 0
	for j < len(a)-i && j < len(b)-i && a[len(a)-1-j] == b[len(b)-1-j] {
		j++
	}
	return fmt.Sprintf("%q->%q", trunc(a[i:len(a)-j], 24), trunc(b[i:len(b)-j], 24))
}

func safeParse(src string) (q *gojq.Query, err error, pv any) {
	pv, _ = core.Protect(func() { q, err = gojq.Parse(src) })
	return
}

func safeString(q *gojq.Query) (s string, pv any) {
	pv, _ = core.Protect(func() { s = q.String() })
	return
}

// synCheck runs the Go level syntactic oracles on one program text.
// accepted=false: the parser rejects the candidate (dropped).
func synCheck(p string, skel string, withJSON bool) (accepted bool, t1 string, strictSame bool, vs []viol) {
	defer func() {
		for i := range vs {
			vs[i].prog = p
		}
	}()
	q0, err, pv := safeParse(p)
	if pv != nil {
		return true, "", false, []viol{{sig: "syn:parse-panic:" + skelTop(skel), what: fmt.Sprintf("gojq.Parse(%q) panics: %v", p, pv)}}
	}
	if err != nil {
		return false, "", false, nil
	}
	// JSON image first, before anything mutates q0
	var jb []byte
	var jerr error
	if withJSON {
		jb, jerr = json.Marshal(q0)
	}
	t1, pv = safeString(q0)
	if pv != nil {
		return true, "", false, []viol{{sig: "syn:string-panic:" + skelTop(skel), what: fmt.Sprintf("Parse(%q).String() panics: %v", p, pv)}}
	}
	q1, err, pv := safeParse(t1)
	if pv != nil || err != nil {
		return true, t1, false, []viol{{sig: "syn:reparse-fails:" + skelTop(skel), what: fmt.Sprintf("program %q prints as %q which does not parse: %v%v", p, t1, err, pvs(pv))}}
	}
	t2, pv := safeString(q1)
	if pv != nil || t2 != t1 {
		vs = append(vs, viol{sig: "syn:not-fixpoint:" + textDiffSig(t1, t2), what: fmt.Sprintf("program %q prints as %q, which prints as %q", p, t1, t2)})
	}
	strictSame = diffQueries(q0, q1) == ""
	normalize(q0)
	normalize(q1)
	if d := diffQueries(q0, q1); d != "" {
		vs = append(vs, viol{sig: "syn:ast-differs:" + diffSig(d), what: fmt.Sprintf("program %q prints as %q whose tree differs at %s", p, t1, d)})
	}
	if !withJSON {
		return true, t1, strictSame, vs
	}

	// the AST -> JSON -> any -> JSON -> AST -> text path of pkg/interp/query.go, mirrored on the fork's types
	if jerr != nil {
		vs = append(vs, viol{sig: "syn:json-marshal:" + skelTop(skel), what: fmt.Sprintf("program %q: json.Marshal of the tree fails: %v", p, jerr)})
		return true, t1, strictSame, vs
	}
	var anyv any
	var qj gojq.Query
	if err := json.Unmarshal(jb, &anyv); err != nil {
		vs = append(vs, viol{sig: "syn:json-unmarshal:" + skelTop(skel), what: fmt.Sprintf("program %q: %v", p, err)})
		return true, t1, strictSame, vs
	}
	jb2, err := json.Marshal(anyv)
	if err == nil {
		err = json.Unmarshal(jb2, &qj)
	}
	if err != nil {
		vs = append(vs, viol{sig: "syn:json-unmarshal:" + skelTop(skel), what: fmt.Sprintf("program %q: tree does not survive JSON: %v", p, err)})
		return true, t1, strictSame, vs
	}
	tj, pv := safeString(&qj)
	if pv != nil || tj != t1 {
		normalize(&qj)
		d := diffQueries(q0, &qj)
		vs = append(vs, viol{sig: "syn:json-roundtrip:" + diffSig(d), what: fmt.Sprintf("program %q: tree printed directly %q, after the JSON round trip of query.go %q%s (%s)", p, t1, tj, pvs(pv), d)})
	}
	return true, t1, strictSame, vs
}

func pvs(pv any) string {
	if pv == nil {
		return ""
	}
	return fmt.Sprintf(" panic: %v", pv)
}

// skelTop cuts a skeleton to its three outermost construct levels.
func skelTop(s string) string {
	depth := 0
	out := make([]byte, 0, len(s))
	for i := 0; i < len(s); i++ {
		c := s[i]
		switch c {
		case '(':
			depth++
			if depth <= 2 {
				out = append(out, c)
			}
		case ')':
			if depth <= 2 {
				out = append(out, c)
			}
			depth--
		default:
			if depth <= 2 {
				out = append(out, c)
			}
		}
	}
	return string(out)
}

// ---- expected shape of the wrapped program --------------------------------

type wrapSpec struct {
	name   string
	input  string // null | inputs | slurp | repl
	catch  string
	output string
}

var wrapSpecs = []wrapSpec{
	{"cli-null", "null", "_cli_eval_on_expr_error", "_cli_display"},
	{"cli-inputs", "inputs", "_cli_eval_on_expr_error", "_cli_display"},
	{"cli-slurp", "slurp", "_cli_eval_on_expr_error", "_cli_display"},
	{"repl", "repl", "_repl_on_expr_error", "_repl_display"},
}

func fn(name string) *gojq.Query {
	return &gojq.Query{Term: &gojq.Term{Type: gojq.TermTypeFunc, Func: &gojq.Func{Name: name}}}
}

// expectedWrap builds, from the definition of the wrapper
// (`INPUT | try (PROGRAM) catch HANDLER | OUTPUT`, directives moved to the
// front), the tree that the text produced by _eval_query_rewrite must parse to.
func expectedWrap(p string, w wrapSpec) (*gojq.Query, error) {
	uq, err := gojq.Parse(p)
	if err != nil {
		return nil, err
	}
	meta, imports := uq.Meta, uq.Imports
	uq.Meta, uq.Imports = nil, nil
	if uq.Term == nil && uq.Op == 0 {
		// only definitions: the body is the identity
		uq.Term = &gojq.Term{Type: gojq.TermTypeIdentity}
	}
	var in *gojq.Query
	switch w.input {
	case "null":
		in = &gojq.Query{Term: &gojq.Term{Type: gojq.TermTypeNull}}
	case "inputs":
		in = fn("inputs")
	case "slurp":
		in = &gojq.Query{Term: &gojq.Term{Type: gojq.TermTypeArray, Array: &gojq.Array{Query: fn("inputs")}}}
	case "repl":
		in = &gojq.Query{Term: &gojq.Term{Type: gojq.TermTypeIdentity, SuffixList: []*gojq.Suffix{{Iter: true}}}}
	}
	try := &gojq.Query{Term: &gojq.Term{Type: gojq.TermTypeTry, Try: &gojq.Try{
		Body:  &gojq.Query{Term: &gojq.Term{Type: gojq.TermTypeQuery, Query: uq}},
		Catch: fn(w.catch),
	}}}
	// `a | b | c` parses right associated
	return &gojq.Query{
		Meta: meta, Imports: imports,
		Left: in, Op: gojq.OpPipe,
		Right: &gojq.Query{Left: try, Op: gojq.OpPipe, Right: fn(w.output)},
	}, nil
}

// checkWrapText compares the text produced by fq's rewrite with the expected tree.
func checkWrapText(p string, w wrapSpec, got string) *viol {
	exp, err := expectedWrap(p, w)
	if err != nil {
		return nil
	}
	gq, err, pv := safeParse(got)
	if err != nil || pv != nil {
		return &viol{sig: "wrap:" + w.name + ":unparsable", what: fmt.Sprintf("program %q is rewritten (%s) to %q which does not parse: %v%s", p, w.name, got, err, pvs(pv))}
	}
	normalize(exp)
	normalize(gq)
	if d := diffQueries(exp, gq); d != "" {
		return &viol{sig: "wrap:" + w.name + ":" + diffSig(d), what: fmt.Sprintf("program %q is rewritten (%s) to %q; its tree differs from INPUT | try (PROGRAM) catch H | OUT at %s", p, w.name, got, d)}
	}
	return nil
}
