package c01

import (
	"fmt"
	"io"
	"strings"

	"github.com/wader/fq/internal/verif/core"
	"github.com/wader/fq/pkg/bitio"
)

// bitio.Buffer used as what it is: a FIFO of bits. Breadth first search over every history of
// WriteBits(n) / ReadBits(n) / Bits / Len / Reset on one real Buffer (fresh object per
// history), against a bit string queue. The k-th bit ever written is bit k of a fixed,
// position dependent pattern, so stale or misplaced bits cannot look right by accident.
// States are merged by the deep hash of the real Buffer (all fields incl. the backing array)
// together with the model queue.

type FOp struct {
	K string `json:"k"` // w | r | bits | len | reset
	N int64  `json:"n,omitempty"`
}

func (o FOp) String() string {
	switch o.K {
	case "w", "r":
		return fmt.Sprintf("%s(%d)", o.K, o.N)
	}
	return o.K
}

var fifoPattern = []byte{0xb5, 0x9c, 0x7e, 0x21, 0x4a, 0x63, 0x81, 0xde, 0x13, 0xf7, 0xc0, 0x3e, 0xa9, 0x56, 0x0f, 0xe8}

func fifoBit(k int64) byte {
	k %= int64(len(fifoPattern) * 8)
	return (fifoPattern[k/8] >> (7 - uint(k%8))) & 1
}

func fifoOps(thorough bool) []FOp {
	ns := []int64{0, 1, 3, 4, 7, 8, 9, 13, 17}
	if thorough {
		ns = append(ns, 5, 15, 16, 24, 33)
	}
	var ops []FOp
	for _, n := range ns {
		ops = append(ops, FOp{K: "w", N: n})
	}
	for _, n := range ns {
		ops = append(ops, FOp{K: "r", N: n})
	}
	return append(ops, FOp{K: "bits"}, FOp{K: "len"}, FOp{K: "reset"})
}

func bitsOf(p []byte, n int64) string {
	var sb strings.Builder
	for i := int64(0); i < n; i++ {
		sb.WriteByte('0' + (p[i/8]>>(7-uint(i%8)))&1)
	}
	return sb.String()
}

// runFifo replays a history; judge all steps (a defect may show in any of them, the search
// reports the shortest history because it is breadth first).
func runFifo(h []FOp) (key uint64, f *failure, pv any) {
	b := &bitio.Buffer{}
	var queue []byte // one bit per element
	var written int64
	pv, _ = core.Protect(func() {
		for _, op := range h {
			if f != nil {
				return
			}
			switch op.K {
			case "w":
				p := make([]byte, bitio.BitsByteCount(op.N)+1)
				for i := range p {
					p[i] = 0xff // bits behind the n-th must not be taken
				}
				for i := int64(0); i < op.N; i++ {
					bit := fifoBit(written + i)
					if bit == 0 {
						p[i/8] &^= 1 << (7 - uint(i%8))
					}
				}
				n, err := b.WriteBits(p, op.N)
				if n != op.N || err != nil {
					f = &failure{"write-result", fmt.Sprintf("WriteBits(%d) returned n=%d err=%v", op.N, n, err)}
					return
				}
				for i := int64(0); i < op.N; i++ {
					queue = append(queue, fifoBit(written+i))
				}
				written += op.N
			case "r":
				for _, fill := range []byte{0x00} {
					p := make([]byte, bitio.BitsByteCount(op.N)+1)
					for i := range p {
						p[i] = fill
					}
					n, err := b.ReadBits(p, op.N)
					want := op.N
					if want > int64(len(queue)) {
						want = int64(len(queue))
					}
					switch {
					case len(queue) == 0 && op.N > 0:
						if n != 0 || err != io.EOF {
							f = &failure{"read-empty", fmt.Sprintf("ReadBits(%d) on an empty buffer returned n=%d err=%v", op.N, n, err)}
							return
						}
					case err != nil && !(err == io.EOF && n == want && want < op.N):
						f = &failure{"read-error", fmt.Sprintf("ReadBits(%d) with %d bits queued returned n=%d err=%v", op.N, len(queue), n, err)}
						return
					case n != want:
						f = &failure{"read-count", fmt.Sprintf("ReadBits(%d) with %d bits queued returned n=%d", op.N, len(queue), n)}
						return
					}
					var sb strings.Builder
					for _, q := range queue[:want] {
						sb.WriteByte('0' + q)
					}
					if got := bitsOf(p, n); got != sb.String() {
						f = &failure{"read-bits", fmt.Sprintf("ReadBits(%d) returned bits %s, written were %s", op.N, got, sb.String())}
						return
					}
					queue = queue[want:]
				}
			case "bits":
				p, n := b.Bits()
				var sb strings.Builder
				for _, q := range queue {
					sb.WriteByte('0' + q)
				}
				if int64(len(p))*8 < int64(len(queue)) {
					f = &failure{"bits-short", fmt.Sprintf("Bits() returned %d bytes for %d unread bits", len(p), len(queue))}
					return
				}
				if got := bitsOf(p, int64(len(queue))); got != sb.String() {
					f = &failure{"bits-content", fmt.Sprintf("Bits() returned %s, unread bits are %s", got, sb.String())}
					return
				}
				if n != int64(len(queue)) {
					f = &failure{"bits-count", fmt.Sprintf("Bits() returned a count of %d, %d bits are unread", n, len(queue))}
					return
				}
			case "len":
				if l := b.Len(); l != int64(len(queue)) {
					f = &failure{"len", fmt.Sprintf("Len() = %d, %d bits are unread", l, len(queue))}
					return
				}
			case "reset":
				b.Reset()
				queue = nil
			}
		}
	})
	if pv != nil || f != nil {
		return 0, f, pv
	}
	return core.DeepHash(b, string(queue), written%int64(len(fifoPattern)*8)), nil, nil
}

func bufferFifo(r *core.Run) {
	ops := fifoOps(r.Thorough())
	depth := core.Pick(r, 5, 6)
	maxStates := core.Pick(r, 400000, 2000000)
	k0, _, _ := runFifo(nil)
	seen := map[uint64]struct{}{k0: {}}
	frontier := [][]FOp{nil}
	var transitions int64
	reported := map[string]bool{}
	for d := 0; d < depth && len(frontier) > 0; d++ {
		var next [][]FOp
		for _, h := range frontier {
			if r.Expired() {
				r.NotExhaustive(fmt.Sprintf("buffer-fifo: deadline during depth %d", d+1))
				frontier = nil
				break
			}
			for _, op := range ops {
				hist := append(append(make([]FOp, 0, len(h)+1), h...), op)
				key, f, pv := runFifo(hist)
				transitions++
				if pv != nil || f != nil {
					class, msg := "panic", ""
					if f != nil {
						class, msg = f.class, f.msg
					} else {
						msg = core.PanicString(pv)
					}
					if !reported[class+op.K] {
						reported[class+op.K] = true
						r.Violate("buffer-fifo:"+class+":"+op.K, fmt.Sprintf("bitio.Buffer: %s ; history %v", msg, hist), Case{Kind: "buffer-fifo", Args: map[string]any{"ops": hist}})
					}
					continue
				}
				if _, ok := seen[key]; !ok {
					if len(seen) >= maxStates {
						r.NotExhaustive(fmt.Sprintf("buffer-fifo: state cap %d reached", maxStates))
						continue
					}
					seen[key] = struct{}{}
					next = append(next, hist)
				}
			}
		}
		frontier = next
	}
	r.AddStates(int64(len(seen)))
	r.AddTransitions(transitions)
	r.AddTraces(transitions)
	r.Eval(transitions)
	r.Count("buffer_fifo_states", int64(len(seen)))
	r.Count("buffer_fifo_transitions", transitions)
	r.Nontrivial("buffer-fifo")
	r.Section("buffer-fifo")
}
