package c20

import (
	"context"
	"fmt"
	"io"
	"io/fs"
	"runtime"
	"strings"
	"sync"
	"sync/atomic"
	"syscall"
	"time"

	"github.com/wader/fq/internal/verif/core"
	"github.com/wader/fq/pkg/interp"
)

// Interrupts that arrive while the innermost evaluation is *inside a read of its input*.
//
// "Delivered at any moment" includes the moments at which the evaluation is not executing
// jq code at all but sits in a Read of the file it opened (a pipe, terminal, socket or
// device whose writer is idle, a regular file on a stalled file system). The input file is
// the environment here: it hands out `head` bytes and then, in the next Read, delivers the
// interrupt exactly as cli.go does (a token on InterruptChan) while the evaluation is in
// that call. The call then either stays blocked for good (the writer never comes back: the
// file is released only when the case is over) or returns end of file after a settle time.
//
// Oracle (from the property text only): the interrupted evaluation ends although the read
// never returns (no deadlock), it ends cancelled (no value, nothing reaches stdout after the
// interrupt), and every enclosing evaluation / REPL level goes on: it still delivers its own
// remaining outputs, runs the next line, and the session ends normally.
//
// No wall clock decides on the good path: the harness waits for the end of the evaluation
// (a channel). "Not cancelled" is concluded (a) without any clock when the goroutine that
// runs the evaluation is itself the caller of the read that never returns - it cannot end
// before the file is let go, whatever happens to its context - or (b) when the evaluation
// did not end within a patience that is 3-4 orders of magnitude above what a cancellation
// takes, and a second run with a much longer patience agrees.

type BlockCase struct {
	Kind       string `json:"kind"`          // "blocked-read"
	Mode       string `json:"mode"`          // api: Interp.Eval inside d unfinished evaluations; repl: line at REPL depth d; cli: command line run
	File       string `json:"file"`          // what kind of file the input is
	Head       int    `json:"head_bytes"`    // bytes available before the read that blocks
	Via        string `json:"via"`           // how the evaluation reads the input
	Depth      int    `json:"depth"`         // enclosing evaluations (api) / REPL levels (repl)
	Stay       bool   `json:"stays_blocked"` // the read never returns (until the case is over) / returns EOF after the settle time
	PatienceMs int    `json:"patience_ms"`
	SettleMs   int    `json:"settle_ms"`
}

type blockKind struct {
	name string
	mode fs.FileMode
	seek string // works | fails | none (no Seek method at all)
}

var blockKinds = []blockKind{
	{"regular", 0, "works"},
	{"regular-noseek", 0, "none"}, // an fs.FS that hands out plain fs.File
	{"pipe", fs.ModeNamedPipe, "fails"},
	{"chardev", fs.ModeDevice | fs.ModeCharDevice, "fails"},
	{"socket", fs.ModeSocket, "fails"},
	{"irregular", fs.ModeIrregular, "none"},
	{"stdin", fs.ModeNamedPipe, "fails"}, // not from the file system: OS.Stdin()
}

func blockKindOf(name string) blockKind {
	for _, k := range blockKinds {
		if k.name == name {
			return k
		}
	}
	return blockKinds[0]
}

const blockFileName = "input.bin"

// blockState is the file under test (shared by all handles opened during one case).
type blockState struct {
	o      *replOS
	kind   blockKind
	head   []byte
	stay   bool
	settle time.Duration

	release chan struct{} // closed by the harness when the case is over
	inRead  chan struct{} // closed once the interrupt was taken while the evaluation is in the read

	mu        sync.Mutex
	fired     bool
	delivered bool
	opens     int
	reads     int
	seeks     int
	eventRead int
	afterRead int    // reads issued after the one that blocks
	evalG     string // the goroutine that runs the evaluation (Interp.Main / the iterator's Next)
	readG     string // the goroutine that called the read that blocks
}

// goid is the number of the calling goroutine as the runtime prints it
func goid() string {
	var b [64]byte
	f := strings.Fields(string(b[:runtime.Stack(b[:], false)]))
	if len(f) > 1 {
		return f[1]
	}
	return "?"
}

func (st *blockState) evaluatingHere() {
	st.mu.Lock()
	st.evalG = goid()
	st.mu.Unlock()
}

// evalInsideRead: the evaluation's own goroutine sits in the blocking read
func (st *blockState) evalInsideRead() bool {
	st.mu.Lock()
	defer st.mu.Unlock()
	return st.fired && st.delivered && st.evalG != "" && st.evalG == st.readG
}

type blockFile struct {
	st  *blockState
	pos int64
}

func (f *blockFile) Stat() (fs.FileInfo, error) {
	// a regular file announces more than it has delivered so far
	return interp.FixedFileInfo{FName: blockFileName, FMode: f.st.kind.mode, FSize: int64(len(f.st.head)) + 16}, nil
}
func (f *blockFile) Close() error { return nil }

func (f *blockFile) Read(p []byte) (int, error) {
	st := f.st
	st.mu.Lock()
	st.reads++
	if f.pos < int64(len(st.head)) {
		n := len(st.head) - int(f.pos)
		if n > 1024 {
			n = 1024 // several reads for the larger heads
		}
		if n > len(p) {
			n = len(p)
		}
		copy(p, st.head[f.pos:int(f.pos)+n])
		f.pos += int64(n)
		st.mu.Unlock()
		return n, nil
	}
	if st.fired {
		st.afterRead++
		st.mu.Unlock()
		return 0, io.EOF
	}
	st.fired = true
	st.eventRead = st.reads
	st.readG = goid()
	st.mu.Unlock()
	// The evaluation is inside this call and there is no data: the interrupt arrives now.
	st.o.mu.Lock()
	st.o.interrupted = true
	st.o.mu.Unlock()
	select {
	case st.o.interruptCh <- struct{}{}: // unbuffered: returns when the interrupt goroutine took it
		st.mu.Lock()
		st.delivered = true
		st.mu.Unlock()
	case <-st.release:
	}
	close(st.inRead)
	if st.stay {
		<-st.release
	} else {
		select {
		case <-time.After(st.settle):
		case <-st.release:
		}
	}
	return 0, io.EOF
}

func (f *blockFile) seek(off int64, whence int) (int64, error) {
	st := f.st
	st.mu.Lock()
	defer st.mu.Unlock()
	st.seeks++
	if st.kind.seek != "works" {
		return 0, &fs.PathError{Op: "seek", Path: blockFileName, Err: syscall.ESPIPE}
	}
	var base int64
	switch whence {
	case io.SeekCurrent:
		base = f.pos
	case io.SeekEnd:
		base = int64(len(st.head)) + 16
	}
	if base+off < 0 {
		return 0, &fs.PathError{Op: "seek", Path: blockFileName, Err: fs.ErrInvalid}
	}
	f.pos = base + off
	return f.pos, nil
}

// blockSeekFile is a handle that has a Seek method (like every *os.File has)
type blockSeekFile struct{ *blockFile }

func (f blockSeekFile) Seek(off int64, whence int) (int64, error) { return f.seek(off, whence) }

func (st *blockState) open() fs.File {
	st.mu.Lock()
	st.opens++
	st.mu.Unlock()
	f := &blockFile{st: st}
	if st.kind.seek == "none" {
		return f
	}
	return blockSeekFile{f}
}

type blockFS struct{ st *blockState }

func (b blockFS) Open(name string) (fs.File, error) {
	if name == blockFileName && b.st.kind.name != "stdin" {
		return b.st.open(), nil
	}
	return nil, &fs.PathError{Op: "open", Path: name, Err: fs.ErrNotExist}
}

// blockStdin is OS.Stdin(): one handle for the whole run
type blockStdin struct {
	fs.File
	tty bool
}

func (blockStdin) Size() (int, int)   { return 130, 25 }
func (s blockStdin) IsTerminal() bool { return s.tty }

type blockVia struct {
	name string
	expr string   // api and repl: the evaluated line; %s = the jq expression yielding the input path
	args []string // cli: arguments before the file name
}

var blockVias = []blockVia{
	{"tobytes", `%s | open | tobytes | tostring | length`, []string{"-d", "bytes", "tobytes | tostring | length"}},
	{"decode", `%s | open | decode("json") | tovalue`, []string{"-d", "json", "."}},
	// the REPL's paste reads stdin to its end
	{"paste", `paste | length`, nil},
}

func blockViaOf(name string) blockVia {
	for _, v := range blockVias {
		if v.name == name {
			return v
		}
	}
	return blockVias[0]
}

type blockObs struct {
	fired     bool // the input was read up to the blocking call
	delivered bool // the interrupt goroutine took the token while the evaluation was in that call
	hung      bool // the evaluation had not ended when the patience was over (the read still blocked)
	inside    bool // ... it could not: its own goroutine is the one inside the read that never returns
	stuck     bool // ... nor after the read was let go
	eventRead int
	reads     int
	seeks     int
	opens     int
	afterRead int

	// api
	innerVals  []any
	outerBad   string
	panicked   any
	startError error
	// repl / cli
	repl replObs
}

func newBlockOS(c BlockCase) (*replOS, *blockState) {
	o := &replOS{interruptCh: make(chan struct{})}
	head := make([]byte, c.Head)
	for i := range head {
		head[i] = byte('a' + i%26)
	}
	st := &blockState{
		o: o, kind: blockKindOf(c.File), head: head, stay: c.Stay,
		settle:  time.Duration(c.SettleMs) * time.Millisecond,
		release: make(chan struct{}), inRead: make(chan struct{}),
	}
	o.fsys = blockFS{st}
	if c.File == "stdin" {
		// paste is used at a terminal; the command line reads its input from a stdin that is none
		o.stdin = blockStdin{File: st.open(), tty: c.Via == "paste"}
	}
	return o, st
}

func (st *blockState) observe(obs *blockObs) {
	st.mu.Lock()
	defer st.mu.Unlock()
	obs.fired, obs.delivered = st.fired, st.delivered
	obs.eventRead, obs.reads, obs.seeks, obs.opens, obs.afterRead = st.eventRead, st.reads, st.seeks, st.opens, st.afterRead
}

const blockGiveUp = 120 * time.Second

// lastBlockStack: the trace of the last panic that escaped fq in a blocked read case (replay prints it)
var lastBlockStack atomic.Value

func blockDrain(iter interface{ Next() (any, bool) }) []any {
	var vs []any
	for n := 0; n < 100; n++ {
		v, ok := iter.Next()
		if !ok {
			break
		}
		vs = append(vs, v)
		if _, isErr := v.(error); isErr {
			break
		}
	}
	return vs
}

func runBlocked(c BlockCase) blockObs {
	switch c.Mode {
	case "api":
		return runBlockedAPI(c)
	default:
		return runBlockedMain(c)
	}
}

// api: c.Depth evaluations are started and left unfinished (one of their two outputs taken),
// then the evaluation that reads the input runs; afterwards the enclosing ones are finished,
// innermost first.
func runBlockedAPI(c BlockCase) (obs blockObs) {
	o, st := newBlockOS(c)
	o.cliArgs = []string{"-n", "."}
	released := false
	release := func() {
		if !released {
			released = true
			close(st.release)
		}
	}
	defer release()
	i, err := interp.New(o, interp.DefaultRegistry)
	if err != nil {
		obs.startError = err
		return obs
	}
	defer i.Stop()
	var outers []interface{ Next() (any, bool) }
	for d := 0; d < c.Depth; d++ {
		it, err := i.Eval(context.Background(), nil, fmt.Sprintf(`"a%d", "b%d"`, d, d), interp.EvalOpts{})
		if err != nil {
			obs.startError = err
			return obs
		}
		if v, ok := it.Next(); !ok || v != fmt.Sprintf("a%d", d) {
			obs.startError = fmt.Errorf("enclosing evaluation %d: first output %v %v", d, v, ok)
			return obs
		}
		outers = append(outers, it)
	}
	prog := fmt.Sprintf(blockViaOf(c.Via).expr, fmt.Sprintf("%q", blockFileName))
	done := make(chan []any, 1)
	go func() {
		var vs []any
		st.evaluatingHere()
		pv, stack := core.Protect(func() {
			it, err := i.Eval(context.Background(), nil, prog, interp.EvalOpts{})
			if err != nil {
				vs = []any{err}
				return
			}
			vs = blockDrain(it)
		})
		if pv != nil {
			lastBlockStack.Store(stack)
			vs = append(vs, fmt.Errorf("panic: %v [%s]", pv, core.PanicSite(stack)))
		}
		done <- vs
	}()
	patience := time.After(time.Duration(c.PatienceMs) * time.Millisecond)
	ended := false
	select {
	case obs.innerVals = <-done:
		ended = true
	case <-st.inRead:
		// the interrupt was taken; the evaluation is in the read
		if c.Stay && st.evalInsideRead() {
			obs.hung, obs.inside = true, true
		} else {
			select {
			case obs.innerVals = <-done:
				ended = true
			case <-patience:
				obs.hung = true
			}
		}
	case <-patience:
		obs.hung = true
	}
	if !ended {
		release()
		select {
		case obs.innerVals = <-done:
		case <-time.After(blockGiveUp):
			obs.stuck = true
		}
	}
	st.observe(&obs)
	if obs.stuck {
		return obs
	}
	// the enclosing evaluations, innermost first: the second output, then the end
	for d := c.Depth - 1; d >= 0 && obs.outerBad == ""; d-- {
		pv, _ := core.Protect(func() {
			v, ok := outers[d].Next()
			if !ok || v != fmt.Sprintf("b%d", d) {
				obs.outerBad = fmt.Sprintf("enclosing evaluation %d of %d delivered %v (more=%v) instead of its second output", d, c.Depth, v, ok)
				return
			}
			if v, ok := outers[d].Next(); ok {
				obs.outerBad = fmt.Sprintf("enclosing evaluation %d of %d delivered %v instead of ending", d, c.Depth, v)
			}
		})
		if pv != nil {
			obs.panicked = pv
		}
	}
	return obs
}

// repl / cli: a whole fq run (Interp.Main). repl: the line that reads the input is run at
// REPL depth d, then one more line at that level, then the levels are left one by one and
// each runs one more line. cli: fq ARGS [file].
func runBlockedMain(c BlockCase) (obs blockObs) {
	o, st := newBlockOS(c)
	released := false
	release := func() {
		if !released {
			released = true
			close(st.release)
		}
	}
	defer release()
	via := blockViaOf(c.Via)
	var theOS interp.OS = o
	ended := make(chan struct{}) // the interrupted evaluation is over
	if c.Mode == "repl" {
		var lines []string
		for i := 1; i < c.Depth; i++ {
			lines = append(lines, fmt.Sprintf("%d | repl", i))
		}
		o.testLine = len(lines)
		expr := via.expr
		if strings.Contains(expr, "%s") {
			expr = fmt.Sprintf(expr, fmt.Sprintf("%q", blockFileName))
		}
		lines = append(lines, expr, `"next-line-ran"`)
		for i := 1; i < c.Depth; i++ {
			lines = append(lines, "^D")
		}
		o.lines = lines
		o.afterTest = ended
		theOS = &eofOS{o}
	} else {
		o.cliArgs = append([]string{}, via.args...)
		if c.File != "stdin" {
			o.cliArgs = append(o.cliArgs, blockFileName)
		}
		o.armed = true
	}
	i, err := interp.New(theOS, interp.DefaultRegistry)
	if err != nil {
		obs.startError = err
		return obs
	}
	defer i.Stop()
	done := make(chan error, 1)
	go func() {
		var e error
		st.evaluatingHere()
		pv, stack := core.Protect(func() { e = i.Main(context.Background(), o.Stdout(), "testversion") })
		if pv != nil {
			lastBlockStack.Store(stack)
			e = fmt.Errorf("panic: %v [%s]", pv, core.PanicSite(stack))
		}
		done <- e
	}()
	patience := time.After(time.Duration(c.PatienceMs) * time.Millisecond)
	finished := false
	select {
	case <-ended: // repl: the level asked for its next line
	case obs.repl.err = <-done:
		finished = true
	case <-st.inRead:
		if c.Stay && st.evalInsideRead() {
			obs.hung, obs.inside = true, true
			release()
		} else {
			select {
			case <-ended:
			case obs.repl.err = <-done:
				finished = true
			case <-patience:
				obs.hung = true
				release()
			}
		}
	case <-patience:
		obs.hung = true
		release()
	}
	if !finished {
		select {
		case obs.repl.err = <-done:
		case <-time.After(blockGiveUp):
			obs.stuck = true
			obs.repl.timedOut = true
		}
	}
	st.observe(&obs)
	if obs.stuck {
		return obs
	}
	o.mu.Lock()
	defer o.mu.Unlock()
	obs.repl.interrupted = o.interrupted
	obs.repl.writesAfter, obs.repl.bytesAfter, obs.repl.writes = o.writesAfter, o.bytesAfter, o.writes
	out := o.stdout.String()
	obs.repl.nextRan, obs.repl.outerRan = true, true
	if c.Mode == "repl" {
		obs.repl.nextRan = strings.Contains(out, "next-line-ran")
		if c.Depth > 1 {
			obs.repl.outerRan = strings.Contains(out, "outer-level-ran")
		}
	}
	return obs
}

// judgeBlocked returns "" or "class: text". void: the case never got to the blocked read.
func judgeBlocked(c BlockCase, o blockObs) (bad string, void string) {
	where := fmt.Sprintf("read #%d of the %s input (%d bytes delivered before)", o.eventRead, c.File, c.Head)
	switch {
	case o.startError != nil:
		return "", "could not set the case up: " + o.startError.Error()
	case o.stuck:
		return fmt.Sprintf("stuck: the run did not end within %s after the blocked read was let go", blockGiveUp), ""
	case !o.fired:
		return "", "the evaluation never read the input to the blocking call"
	case !o.delivered:
		return "", "nobody took the interrupt while the evaluation was in the read"
	case o.inside:
		return fmt.Sprintf("not-cancelled: the interrupt was taken while the evaluation was in %s, which never returns; the goroutine running the evaluation is itself the caller of that read, so the evaluation cannot end and did not (it ended when the read was let go)", where), ""
	case o.hung:
		return fmt.Sprintf("not-cancelled: the interrupt was taken while the evaluation was in %s; %d ms later the evaluation still had not ended (it ended when the read was let go)", where, c.PatienceMs), ""
	}
	if c.Mode == "api" {
		if o.panicked != nil {
			return fmt.Sprintf("panic: %v", o.panicked), ""
		}
		for _, v := range o.innerVals {
			if e, ok := v.(error); ok && strings.HasPrefix(e.Error(), "panic:") {
				return "panic: " + e.Error(), ""
			}
		}
		if c.Stay {
			// the input never ended: whatever the evaluation delivers is not a result
			if len(o.innerVals) == 0 {
				return "silent-end: the evaluation interrupted in " + where + " ended without an error as if its input had ended", ""
			}
			for _, v := range o.innerVals {
				if _, ok := v.(error); !ok {
					return fmt.Sprintf("value-after-cancel: the evaluation interrupted in %s delivered the value %v", where, v), ""
				}
			}
		}
		if o.outerBad != "" {
			return "outer-cancelled: after an interrupt in " + where + ": " + o.outerBad, ""
		}
		return "", ""
	}
	r := o.repl
	switch {
	case r.err != nil && strings.HasPrefix(r.err.Error(), "panic:"):
		return "panic: run ended with " + r.err.Error(), ""
	case c.Mode == "repl" && r.err != nil && !strings.Contains(r.err.Error(), "context canceled"):
		return "error: session ended with " + r.err.Error(), ""
	case r.writesAfter > 0:
		return fmt.Sprintf("output-after-cancel: %d writes (%d bytes) reached stdout after the interrupt in %s", r.writesAfter, r.bytesAfter, where), ""
	case !r.nextRan:
		return "repl-died: the REPL level did not run the next line after the interrupt in " + where, ""
	case !r.outerRan:
		return "outer-died: the enclosing REPL level did not run after leaving the level interrupted in " + where, ""
	}
	return "", ""
}

// blockClass is the verdict class of a judgement; a panic is classed by its message
func blockClass(bad string) string {
	if strings.HasPrefix(bad, "panic:") {
		m := bad[strings.LastIndex(bad, "panic: ")+len("panic: "):]
		if j := strings.Index(m, " ["); j >= 0 {
			m = m[:j]
		}
		return "panic[" + m + "]"
	}
	return strings.SplitN(bad, ":", 2)[0]
}

func blockedCases(r *core.Run) []BlockCase {
	heads := core.Pick(r, []int{0, 7, 5000}, []int{0, 1, 7, 511, 512, 513, 5000, 70000})
	var cs []BlockCase
	add := func(c BlockCase) {
		c.Kind, c.PatienceMs, c.SettleMs = "blocked-read", 2000, 150
		cs = append(cs, c)
	}
	for _, stay := range []bool{true, false} {
		for _, k := range blockKinds {
			for _, h := range heads {
				for _, via := range []string{"tobytes", "decode"} {
					if k.name != "stdin" {
						for _, d := range []int{0, 1, 2} {
							add(BlockCase{Mode: "api", File: k.name, Head: h, Via: via, Depth: d, Stay: stay})
						}
						for _, d := range core.Pick(r, []int{1, 2}, []int{1, 2, 3}) {
							add(BlockCase{Mode: "repl", File: k.name, Head: h, Via: via, Depth: d, Stay: stay})
						}
					}
					add(BlockCase{Mode: "cli", File: k.name, Head: h, Via: via, Depth: 0, Stay: stay})
				}
				if k.name == "stdin" {
					for _, d := range core.Pick(r, []int{1, 2}, []int{1, 2, 3}) {
						add(BlockCase{Mode: "repl", File: k.name, Head: h, Via: "paste", Depth: d, Stay: stay})
					}
				}
			}
		}
	}
	return cs
}

func blockedReads(r *core.Run) {
	cs := blockedCases(r)
	var n int64
	confirmed := map[string]bool{} // signatures reproduced in this process
	slowHang := map[string]bool{}  // mode:file:via in which a hang was concluded from the patience
	for idx, c := range cs {
		if r.ShardN > 1 && int64(idx)%int64(r.ShardN-1) != int64(r.ShardIdx-1) {
			continue
		}
		if r.Expired() {
			r.NotExhaustive("deadline in blocked read interrupt enumeration")
			return
		}
		key := c.Mode + ":" + c.File + ":" + c.Via
		if slowHang[key] && c.Stay {
			// the same finding again would cost the patience each time
			r.Count("blocked_read_cases_skipped_after_a_hang_of_the_same_kind", 1)
			continue
		}
		obs := runBlocked(c)
		n++
		bad, void := judgeBlocked(c, obs)
		if void != "" {
			r.Count("blocked_read_void_cases", 1)
			r.Inconclusive(fmt.Sprintf("blocked read %+v: %s", c, void))
			continue
		}
		r.Count("blocked_read_interrupts_taken_inside_the_read", 1)
		r.Count("blocked_read_interrupts_taken_inside_the_read:"+c.Mode, 1)
		r.Count("blocked_read_input_reads", int64(obs.reads))
		r.Count("blocked_read_input_seeks", int64(obs.seeks))
		if obs.eventRead > 1 {
			r.Count("blocked_read_blocking_call_was_not_the_first_read", 1)
		}
		if c.Stay {
			r.Count("blocked_read_read_never_returns", 1)
			if !obs.hung {
				r.Count("blocked_read_evaluation_ended_while_the_read_was_still_blocked", 1)
			}
		}
		if bad != "" {
			sig := "blocked-read:" + blockClass(bad) + ":" + key
			r.Count("blocked_read_verdicts:"+blockClass(bad), 1)
			if confirmed[sig] {
				continue // core folds by signature
			}
			if obs.hung && !obs.inside && len(slowHang) > 0 {
				// a hang concluded from the patience was reproduced with the long patience in this
				// process already: not again for every kind of input
				confirmed[sig], slowHang[key] = true, true
				r.Violate(sig, fmt.Sprintf("%+v: %s", c, bad), c)
				continue
			}
			// classify before believing: again, with a much longer patience and settle time
			c2 := c
			c2.PatienceMs, c2.SettleMs = 20000, 1500
			obs2 := runBlocked(c2)
			if bad2, _ := judgeBlocked(c2, obs2); bad2 != "" {
				sig2 := "blocked-read:" + blockClass(bad2) + ":" + key
				confirmed[sig2] = true
				if obs2.hung && !obs2.inside {
					slowHang[key] = true
				}
				r.Violate(sig2, fmt.Sprintf("%+v: %s", c2, bad2), c2)
			} else {
				r.Inconclusive(fmt.Sprintf("blocked read %+v: %s, not with patience %d ms / settle %d ms", c, bad, c2.PatienceMs, c2.SettleMs))
			}
			continue
		}
		r.Nontrivial(fmt.Sprintf("blocked-read:%s:%s:%d:%s:%d:%v", c.Mode, c.File, c.Head, c.Via, c.Depth, c.Stay))
	}
	r.Eval(n)
	r.AddTransitions(n)
	r.AddTraces(n)
	r.Sample(map[string]any{"blocked_read_case": BlockCase{Kind: "blocked-read", Mode: "api", File: "pipe", Head: 7, Via: "tobytes", Depth: 1, Stay: true, PatienceMs: 2000, SettleMs: 150}})
	r.Section("interrupt-inside-blocked-input-read")
}
