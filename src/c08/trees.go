package c08

// Harness decoders. Three formats are registered in fq's default registry (before
// the first interpreter exists): c08s (struct root), c08a (array root), both taking
// the option `tree` naming one of the plans below. A plan is a tree of nodes; the
// same plan (a) produces the input bits, (b) drives the public decode API
// (Field* readers + scalar mappers) and (c) yields the expected JSON value of
// every node, written down here without consulting fq: the value of a scalar is
// its symbolic value when one was mapped and else the actual value that the input
// bits encode; a struct is an object, an array an array, raw bits a string of the
// field's bytes.

import (
	"encoding/binary"
	"fmt"
	"math"
	"math/big"

	"github.com/wader/fq/pkg/bitio"
	"github.com/wader/fq/pkg/decode"
	"github.com/wader/fq/pkg/interp"
	"github.com/wader/fq/pkg/scalar"
)

// ---- variants: no sym / description / sym of every jq type -------------------

type vnt struct {
	tag  string
	sym  any
	desc string
}

var big70 = new(big.Int).Lsh(big.NewInt(1), 70)

func allVariants() []vnt {
	return []vnt{
		{tag: "a_plain"},
		{tag: "b_desc", desc: "a description"},
		{tag: "c_str", sym: "sym"},
		{tag: "d_estr", sym: ""},
		{tag: "e_int", sym: int(7)},
		{tag: "f_zero", sym: int(0)},
		{tag: "g_i64", sym: int64(-3)},
		{tag: "h_u64", sym: uint64(1)<<63 + 1},
		{tag: "i_flt", sym: float64(2.5)},
		{tag: "j_big", sym: big70},
		{tag: "k_true", sym: true},
		{tag: "l_false", sym: false},
		{tag: "m_arr", sym: []any{1, "a", nil}},
		{tag: "n_obj", sym: map[string]any{"k": []any{true, map[string]any{"j": 1}}}},
		{tag: "o_strd", sym: "Sym A", desc: "other description"},
	}
}

// a few variants for the places where the full cross product is already covered
func fewVariants() []vnt {
	return []vnt{
		{tag: "a_plain"},
		{tag: "c_str", sym: "sym"},
		{tag: "n_obj", sym: map[string]any{"k": []any{true, map[string]any{"j": 1}}}},
		{tag: "o_strd", sym: "Sym A", desc: "other description"},
	}
}

// objects with several keys: a scalar that holds an object has no input order at
// all; kept apart (kinds flagged multikey, own struct) so that the other structs
// stay free of order effects
var multiObj = map[string]any{"b": []any{true}, "k": 1, "a": map[string]any{"y": 1, "x": 2}, "z": nil}
var extObj = map[string]any{"_format": nil, "_start": false, "_name": "own", "_len": nil, "_x": nil, "a": 1}

// ---- scalar kinds --------------------------------------------------------------

type kind struct {
	name     string
	pre      int    // pad bits in front (to place the field at a non byte aligned position)
	nbits    int    // bits consumed by the field (0 for synthetic values)
	data     []byte // the bits, left aligned
	actual   any    // expected actual as JSON (raw bits: set by rawWant)
	isRaw    bool
	badUTF   bool // raw bits that are not valid UTF-8
	multikey bool // value is an object with several keys
	read     func(d *decode.D, name string, k *kind, v vnt)
}

func um(v vnt) (m []scalar.UintMapper) {
	if v.sym != nil {
		m = append(m, scalar.UintSym(dc(v.sym)))
	}
	if v.desc != "" {
		m = append(m, scalar.UintDescription(v.desc))
	}
	return m
}
func sm(v vnt) (m []scalar.SintMapper) {
	if v.sym != nil {
		m = append(m, scalar.SintSym(dc(v.sym)))
	}
	if v.desc != "" {
		m = append(m, scalar.SintDescription(v.desc))
	}
	return m
}
func bm(v vnt) (m []scalar.BigIntMapper) {
	if v.sym != nil {
		m = append(m, scalar.BigIntSym(dc(v.sym)))
	}
	if v.desc != "" {
		m = append(m, scalar.BigIntDescription(v.desc))
	}
	return m
}
func fm(v vnt) (m []scalar.FltMapper) {
	if v.sym != nil {
		m = append(m, scalar.FltSym(dc(v.sym)))
	}
	if v.desc != "" {
		m = append(m, scalar.FltDescription(v.desc))
	}
	return m
}
func strm(v vnt) (m []scalar.StrMapper) {
	if v.sym != nil {
		m = append(m, scalar.StrSym(dc(v.sym)))
	}
	if v.desc != "" {
		m = append(m, scalar.StrDescription(v.desc))
	}
	return m
}
func boolm(v vnt) (m []scalar.BoolMapper) {
	if v.sym != nil {
		m = append(m, scalar.BoolSym(dc(v.sym)))
	}
	if v.desc != "" {
		m = append(m, scalar.BoolDescription(v.desc))
	}
	return m
}
func rawm(v vnt) (m []scalar.BitBufMapper) {
	if v.sym != nil {
		m = append(m, scalar.BitBufSym(dc(v.sym)))
	}
	if v.desc != "" {
		m = append(m, scalar.BitBufDescription(v.desc))
	}
	return m
}
func anym(v vnt) (m []scalar.AnyMapper) {
	if v.sym != nil {
		m = append(m, scalar.AnySym(dc(v.sym)))
	}
	if v.desc != "" {
		m = append(m, scalar.AnyDescription(v.desc))
	}
	return m
}

// dc: the decoder gets its own copy of every Go container; the plan's stay pristine
func dc(v any) any {
	switch v := v.(type) {
	case []any:
		out := make([]any, len(v))
		for i, e := range v {
			out[i] = dc(e)
		}
		return out
	case map[string]any:
		out := make(map[string]any, len(v))
		for k, e := range v {
			out[k] = dc(e)
		}
		return out
	}
	return v
}

func be64(u uint64) []byte  { b := make([]byte, 8); binary.BigEndian.PutUint64(b, u); return b }
func f64b(f float64) []byte { return be64(math.Float64bits(f)) }

func uintKind(name string, pre, nbits int, data []byte, want uint64) *kind {
	return &kind{name: name, pre: pre, nbits: nbits, data: data, actual: want,
		read: func(d *decode.D, n string, k *kind, v vnt) { d.FieldU(n, k.nbits, um(v)...) }}
}
func sintKind(name string, nbits int, data []byte, want int64) *kind {
	return &kind{name: name, nbits: nbits, data: data, actual: want,
		read: func(d *decode.D, n string, k *kind, v vnt) { d.FieldS(n, k.nbits, sm(v)...) }}
}
func fltKind(name string, f float64) *kind {
	return &kind{name: name, nbits: 64, data: f64b(f), actual: f,
		read: func(d *decode.D, n string, k *kind, v vnt) { d.FieldF64(n, fm(v)...) }}
}
func strKind(name string, s string) *kind {
	return &kind{name: name, nbits: len(s) * 8, data: []byte(s), actual: s,
		read: func(d *decode.D, n string, k *kind, v vnt) { d.FieldUTF8(n, k.nbits/8, strm(v)...) }}
}
func rawKind(name string, pre, nbits int, data []byte, bad bool) *kind {
	return &kind{name: name, pre: pre, nbits: nbits, data: data, isRaw: true, badUTF: bad, actual: rawWant(data, nbits),
		read: func(d *decode.D, n string, k *kind, v vnt) { d.FieldRawLen(n, int64(k.nbits), rawm(v)...) }}
}

// rawWant: the JSON value of raw bits is a string holding the bytes of the field,
// zero bit padded when the size is not byte aligned (usage.md, bits_format=string).
// usage.md does not say on which side the padding goes; Binary documents "zero pad
// most significant bits" for tobytes. padFront selects that reading; both readings
// are accepted by the reference check (see refRawAlternatives).
func rawWant(data []byte, nbits int) string {
	n := (nbits + 7) / 8
	b := make([]byte, n)
	copy(b, data[:n])
	if r := nbits % 8; r != 0 {
		b[n-1] &= byte(0xff << (8 - r))
	}
	return string(b)
}

// rawWantFront is the other reading: padding in front (value right aligned).
func rawWantFront(data []byte, nbits int) string {
	n := (nbits + 7) / 8
	v := new(big.Int).SetBytes(data[:n])
	if r := nbits % 8; r != 0 {
		v.Rsh(v, uint(8-r))
	}
	b := v.Bytes()
	for len(b) < n {
		b = append([]byte{0}, b...)
	}
	return string(b)
}

func anyReadKind(name string, val any) *kind {
	// a non synthetic scalar.Any: reads one byte and yields val
	return &kind{name: name, nbits: 8, data: []byte{0x41}, actual: val,
		read: func(d *decode.D, n string, k *kind, v vnt) {
			d.FieldAnyFn(n, func(d *decode.D) any { d.U8(); return dc(val) }, anym(v)...)
		}}
}

func scalarKinds() []*kind {
	ff := []byte{0xff, 0xff, 0xff, 0xff, 0xff, 0xff, 0xff, 0xfe}
	minS64 := []byte{0x80, 0, 0, 0, 0, 0, 0, 0}
	big72 := []byte{0xf0, 1, 2, 3, 4, 5, 6, 7, 8}
	want72, _ := new(big.Int).SetString("f00102030405060708", 16)
	neg72 := new(big.Int).Sub(want72, new(big.Int).Lsh(big.NewInt(1), 72))
	ks := []*kind{
		uintKind("u8", 0, 8, []byte{5}, 5),
		uintKind("u8zero", 0, 8, []byte{0}, 0),
		uintKind("u3at5", 5, 3, []byte{0xa0}, 5),
		uintKind("u64big", 0, 64, ff, 0xfffffffffffffffe),
		uintKind("u64p63", 0, 64, minS64, 1<<63),
		sintKind("s8neg", 8, []byte{0xfb}, -5),
		sintKind("s16pos", 16, []byte{0x01, 0x00}, 256),
		sintKind("s64min", 64, minS64, math.MinInt64),
		{name: "ubig72", nbits: 72, data: big72, actual: want72,
			read: func(d *decode.D, n string, k *kind, v vnt) { d.FieldUBigInt(n, 72, bm(v)...) }},
		{name: "sbig72", nbits: 72, data: big72, actual: neg72,
			read: func(d *decode.D, n string, k *kind, v vnt) { d.FieldSBigInt(n, 72, bm(v)...) }},
		{name: "ubig8", nbits: 8, data: []byte{200}, actual: big.NewInt(200),
			read: func(d *decode.D, n string, k *kind, v vnt) { d.FieldUBigInt(n, 8, bm(v)...) }},
		{name: "sbig8", nbits: 8, data: []byte{0xfd}, actual: big.NewInt(-3),
			read: func(d *decode.D, n string, k *kind, v vnt) { d.FieldSBigInt(n, 8, bm(v)...) }},
		fltKind("f64", 1.5),
		fltKind("f64neg", -2.25),
		fltKind("f64int", 3),
		fltKind("f64nzero", math.Copysign(0, -1)),
		fltKind("f64inf", math.Inf(1)),
		fltKind("f64ninf", math.Inf(-1)),
		fltKind("f64nan", math.NaN()),
		fltKind("f64huge", 1e300),
		fltKind("f64p53", 9007199254740993), // 2^53+1 rounds to 2^53
		{name: "f32", nbits: 32, data: []byte{0x3d, 0xcc, 0xcc, 0xcd}, actual: float64(math.Float32frombits(0x3dcccccd)),
			read: func(d *decode.D, n string, k *kind, v vnt) { d.FieldF32(n, fm(v)...) }},
		strKind("str", "aBc"),
		strKind("struni", "åÄ✓\U0001F600"),
		strKind("strempty", ""),
		strKind("strnum", "12"),
		strKind("stra", "a"),
		{name: "booltrue", pre: 0, nbits: 1, data: []byte{0x80}, actual: true,
			read: func(d *decode.D, n string, k *kind, v vnt) { d.FieldBool(n, boolm(v)...) }},
		{name: "boolfalse", pre: 3, nbits: 1, data: []byte{0x00}, actual: false,
			read: func(d *decode.D, n string, k *kind, v vnt) { d.FieldBool(n, boolm(v)...) }},
		rawKind("raw", 0, 24, []byte("hey"), false),
		rawKind("rawuni", 0, 24, []byte("✓"), false),
		rawKind("raw12at3", 3, 12, []byte{0x61, 0x60}, false), // 'a' then 0110 -> "a`"
		rawKind("raw3", 0, 3, []byte{0x60}, false),
		rawKind("rawempty", 0, 0, []byte{}, false),
		rawKind("rawbad", 0, 32, []byte{0xff, 0x61, 0xfe, 0xc3}, true),
		anyReadKind("anynull", nil),
		anyReadKind("anyarr", []any{1, "two", []any{3}, nil}),
		anyReadKind("anyobj", map[string]any{"a": map[string]any{"c": []any{1, "x"}}}),
		anyReadKind("anystr", "any"),
		anyReadKind("anyint", 42),
		anyReadKind("anyflt", 0.25),
		anyReadKind("anyearr", []any{}),
		anyReadKind("anyeobj", map[string]any{}),
		// synthetic values (no bits)
		{name: "synuint", actual: uint64(9),
			read: func(d *decode.D, n string, k *kind, v vnt) { d.FieldValueUint(n, 9, um(v)...) }},
		{name: "synsint", actual: int64(-9),
			read: func(d *decode.D, n string, k *kind, v vnt) { d.FieldValueSint(n, -9, sm(v)...) }},
		{name: "synbig", actual: big70,
			read: func(d *decode.D, n string, k *kind, v vnt) { d.FieldValueBigInt(n, big70, bm(v)...) }},
		{name: "synflt", actual: 0.5,
			read: func(d *decode.D, n string, k *kind, v vnt) { d.FieldValueFlt(n, 0.5, fm(v)...) }},
		{name: "synstr", actual: "syn",
			read: func(d *decode.D, n string, k *kind, v vnt) { d.FieldValueStr(n, "syn", strm(v)...) }},
		{name: "synbool", actual: true,
			read: func(d *decode.D, n string, k *kind, v vnt) { d.FieldValueBool(n, true, boolm(v)...) }},
		{name: "synnull", actual: nil,
			read: func(d *decode.D, n string, k *kind, v vnt) { d.FieldValueAny(n, nil, anym(v)...) }},
		{name: "synobj2", actual: multiObj, multikey: true,
			read: func(d *decode.D, n string, k *kind, v vnt) { d.FieldValueAny(n, dc(multiObj), anym(v)...) }},
		{name: "anyobj2", nbits: 8, data: []byte{0x42}, actual: multiObj, multikey: true,
			read: func(d *decode.D, n string, k *kind, v vnt) {
				d.FieldAnyFn(n, func(d *decode.D) any { d.U8(); return dc(multiObj) }, anym(v)...)
			}},
		// an object whose own keys are named like fq's extra keys, with null / false values:
		// the value's own member wins over the extra key, whatever its value
		{name: "anyobjext", nbits: 8, data: []byte{0x43}, actual: extObj, multikey: true,
			read: func(d *decode.D, n string, k *kind, v vnt) {
				d.FieldAnyFn(n, func(d *decode.D) any { d.U8(); return dc(extObj) }, anym(v)...)
			}},
		{name: "symobj2", nbits: 8, data: []byte{9}, actual: multiObj, multikey: true,
			read: func(d *decode.D, n string, k *kind, v vnt) { d.FieldU8(n, scalar.UintSym(dc(multiObj))) }},
		{name: "synobj", actual: map[string]any{"x": []any{1, 2}},
			read: func(d *decode.D, n string, k *kind, v vnt) {
				d.FieldValueAny(n, dc(k.actual), anym(v)...)
			}},
		{name: "synraw", actual: "bits", isRaw: true,
			read: func(d *decode.D, n string, k *kind, v vnt) {
				d.FieldValueBitBuf(n, bitio.NewBitReader([]byte("bits"), -1), rawm(v)...)
			}},
	}
	// real mapper types of pkg/scalar (what format decoders actually use)
	ks = append(ks,
		&kind{name: "mapsymstr", nbits: 8, data: []byte{2}, actual: "two",
			read: func(d *decode.D, n string, k *kind, v vnt) {
				d.FieldU8(n, scalar.UintMapSymStr{1: "one", 2: "two"})
			}},
		&kind{name: "mapmiss", nbits: 8, data: []byte{3}, actual: uint64(3),
			read: func(d *decode.D, n string, k *kind, v vnt) {
				d.FieldU8(n, scalar.UintMapSymStr{1: "one", 2: "two"})
			}},
		&kind{name: "mapsymbool", nbits: 8, data: []byte{1}, actual: false,
			read: func(d *decode.D, n string, k *kind, v vnt) { d.FieldU8(n, scalar.UintMapSymBool{1: false}) }},
		&kind{name: "mapsymflt", nbits: 8, data: []byte{1}, actual: 0.75,
			read: func(d *decode.D, n string, k *kind, v vnt) { d.FieldU8(n, scalar.UintMapSymFlt{1: 0.75}) }},
		&kind{name: "mapsymsint", nbits: 8, data: []byte{1}, actual: int64(-7),
			read: func(d *decode.D, n string, k *kind, v vnt) { d.FieldU8(n, scalar.UintMapSymSint{1: -7}) }},
		&kind{name: "mapsymuint", nbits: 8, data: []byte{1}, actual: uint64(77),
			read: func(d *decode.D, n string, k *kind, v vnt) { d.FieldU8(n, scalar.UintMapSymUint{1: 77}) }},
		&kind{name: "mapscalar", nbits: 8, data: []byte{1}, actual: "name",
			read: func(d *decode.D, n string, k *kind, v vnt) {
				d.FieldU8(n, scalar.UintMap{1: {Sym: "name", Description: "desc"}}, scalar.UintHex)
			}},
		&kind{name: "strparse", nbits: 16, data: []byte("42"), actual: uint64(42),
			read: func(d *decode.D, n string, k *kind, v vnt) { d.FieldUTF8(n, 2, scalar.StrSymParseUint(10)) }},
		&kind{name: "strmapsym", nbits: 8, data: []byte("x"), actual: "ex",
			read: func(d *decode.D, n string, k *kind, v vnt) { d.FieldUTF8(n, 1, scalar.StrMapSymStr{"x": "ex"}) }},
		&kind{name: "rawhex", nbits: 16, data: []byte{0xde, 0xad}, actual: "dead",
			read: func(d *decode.D, n string, k *kind, v vnt) { d.FieldRawLen(n, 16, scalar.RawHex) }},
		&kind{name: "boolmapstr", nbits: 1, data: []byte{0x80}, actual: "yes",
			read: func(d *decode.D, n string, k *kind, v vnt) { d.FieldBool(n, scalar.BoolMapSymStr{true: "yes"}) }},
		&kind{name: "sintmapstr", nbits: 8, data: []byte{0xff}, actual: "minus one",
			read: func(d *decode.D, n string, k *kind, v vnt) { d.FieldS8(n, scalar.SintMapSymStr{-1: "minus one"}) }},
	)
	return ks
}

// kinds whose reader ignores the variant (real mapper types)
func (k *kind) fixed() bool {
	switch k.name {
	case "symobj2", "mapsymstr", "mapmiss", "mapsymbool", "mapsymflt", "mapsymsint", "mapsymuint", "mapscalar", "strparse", "strmapsym", "rawhex", "boolmapstr", "sintmapstr":
		return true
	}
	return false
}

// ---- plan ----------------------------------------------------------------------

type ntype int

const (
	nLeaf ntype = iota
	nPad        // unnamed pad read as an unsigned field (keeps leafs unaligned without creating gaps)
	nSkip       // bits skipped with SeekRel: becomes a gap field of the buffer root
	nStruct
	nArray
	nRootStruct // FieldStructRootBitBufFn over a new buffer built from the kids
	nRootArray  // FieldArrayRootBitBufFn
	nRootRaw    // FieldRootBitBuf
	nFormat     // FieldFormat: sub format in the same buffer
	nFormatBuf  // FieldFormatBitBuf: sub format in a new buffer (gap filled)
)

type node struct {
	t    ntype
	name string
	kids []*node
	k    *kind
	v    vnt
	bits int    // nPad/nSkip
	raw  []byte // nRootRaw content
	// rm (nStruct): the decoder adds a placeholder field behind the kids and removes it again
	// (Value.Remove, what a decoder does that replaces a field in a later pass)
	rm bool
}

type bitw struct{ b []bool }

func (w *bitw) put(data []byte, n int) {
	for i := 0; i < n; i++ {
		w.b = append(w.b, data[i/8]>>(7-uint(i%8))&1 == 1)
	}
}
func (w *bitw) zeros(n int) {
	for i := 0; i < n; i++ {
		w.b = append(w.b, false)
	}
}

// skipped regions hold ASCII so that gap fields are valid UTF-8 (n is a multiple of 8)
func skipBytes(nbits int) []byte {
	b := make([]byte, nbits/8)
	for i := range b {
		b[i] = "gAp-"[i%4]
	}
	return b
}
func (w *bitw) pattern(n int) { w.put(skipBytes(n), n) }
func (w *bitw) bytes() []byte {
	out := make([]byte, (len(w.b)+7)/8)
	for i, v := range w.b {
		if v {
			out[i/8] |= 1 << (7 - uint(i%8))
		}
	}
	return out
}

// build appends the bits the node consumes in its own buffer.
func (n *node) build(w *bitw) {
	switch n.t {
	case nLeaf:
		w.put(n.k.data, n.k.nbits)
	case nPad:
		w.zeros(n.bits)
	case nSkip:
		w.pattern(n.bits)
	case nStruct, nArray, nFormat:
		for _, c := range n.kids {
			c.build(w)
		}
	case nRootStruct, nRootArray, nRootRaw, nFormatBuf:
		// own buffer, nothing in the parent
	}
}

func (n *node) ownBuffer() bitio.ReaderAtSeeker {
	if n.t == nRootRaw {
		return bitio.NewBitReader(n.raw, -1)
	}
	w := &bitw{}
	for _, c := range n.kids {
		c.build(w)
	}
	return bitio.NewBitReader(w.bytes(), int64(len(w.b)))
}

func emitKids(d *decode.D, kids []*node) {
	for _, c := range kids {
		c.emit(d)
	}
}

func subGroup(kids []*node) *decode.Group {
	return &decode.Group{Name: "c08sub", Formats: []*decode.Format{{Name: "c08sub", Description: "C08 sub format",
		DecodeFn: func(d *decode.D) any { emitKids(d, kids); return nil }}}}
}

func (n *node) emit(d *decode.D) {
	switch n.t {
	case nLeaf:
		n.k.read(d, n.name, n.k, n.v)
	case nPad:
		d.FieldU(n.name, n.bits)
	case nSkip:
		d.SeekRel(int64(n.bits))
	case nStruct:
		d.FieldStruct(n.name, func(d *decode.D) {
			emitKids(d, n.kids)
			if n.rm {
				d.FieldValueUint("placeholder", 1)
				if err := d.FieldGet("placeholder").Remove(); err != nil {
					d.Fatalf("c08 placeholder: %s", err)
				}
			}
		})
	case nArray:
		d.FieldArray(n.name, func(d *decode.D) { emitKids(d, n.kids) })
	case nRootStruct:
		d.FieldStructRootBitBufFn(n.name, n.ownBuffer(), func(d *decode.D) { emitKids(d, n.kids) })
	case nRootArray:
		d.FieldArrayRootBitBufFn(n.name, n.ownBuffer(), func(d *decode.D) { emitKids(d, n.kids) })
	case nRootRaw:
		d.FieldRootBitBuf(n.name, n.ownBuffer())
	case nFormat:
		d.FieldFormat(n.name, subGroup(n.kids), nil)
	case nFormatBuf:
		d.FieldFormatBitBuf(n.name, n.ownBuffer(), subGroup(n.kids), nil)
	}
}

// ---- plans -----------------------------------------------------------------------

// namer produces field names; sorted: ascending in input order; unsorted: descending.
type namer struct {
	unsorted bool
	i        int
}

func (nm *namer) next(label string) string {
	nm.i++
	if nm.unsorted {
		return fmt.Sprintf("n%03d_%s", 999-nm.i, label)
	}
	return fmt.Sprintf("n%03d_%s", nm.i, label)
}

// leafGroup returns the nodes for one (kind, variant): optional pad, the leaf,
// optional pad up to the byte boundary.
func leafGroup(nm *namer, k *kind, v vnt) []*node {
	var out []*node
	if k.pre > 0 {
		out = append(out, &node{t: nPad, name: nm.next("pre"), bits: k.pre})
	}
	out = append(out, &node{t: nLeaf, name: nm.next(k.name + "_" + v.tag), k: k, v: v})
	if r := (k.pre + k.nbits) % 8; r != 0 {
		out = append(out, &node{t: nPad, name: nm.next("post"), bits: 8 - r})
	}
	return out
}

func kindStruct(nm *namer, k *kind, vs []vnt) *node {
	n := &node{t: nStruct, name: nm.next(k.name)}
	inner := &namer{unsorted: nm.unsorted}
	if k.fixed() {
		vs = vs[:1]
	} else if k.multikey && len(vs) > 3 {
		vs = vs[:3]
	}
	for _, v := range vs {
		n.kids = append(n.kids, leafGroup(inner, k, v)...)
	}
	return n
}

func kindByName(ks []*kind, name string) *kind {
	for _, k := range ks {
		if k.name == name {
			return k
		}
	}
	panic("c08: no kind " + name)
}

// compounds: arrays, nested structs, nested buffers.
func compoundNodes(nm *namer, ks []*kind) []*node {
	plain := vnt{tag: "a_plain"}
	symv := vnt{tag: "c_str", sym: "sym"}
	leaf := func(inner *namer, kn string, v vnt) []*node { return leafGroup(inner, kindByName(ks, kn), v) }
	var out []*node

	// array of numbers
	a := &node{t: nArray, name: nm.next("arr_u8")}
	in := &namer{unsorted: nm.unsorted}
	for i := 0; i < 5; i++ {
		a.kids = append(a.kids, leaf(in, "u8", plain)...)
	}
	a.kids = append(a.kids, leaf(in, "s8neg", plain)...)
	out = append(out, a)
	// array of strings (sortable, unique, add)
	a = &node{t: nArray, name: nm.next("arr_str")}
	in = &namer{unsorted: nm.unsorted}
	for _, kn := range []string{"str", "stra", "strnum", "stra", "strempty", "struni"} {
		a.kids = append(a.kids, leaf(in, kn, plain)...)
	}
	out = append(out, a)
	// empty array, empty struct
	out = append(out, &node{t: nArray, name: nm.next("arr_empty")})
	out = append(out, &node{t: nStruct, name: nm.next("struct_empty")})
	// structs that had a field removed again: empty, and with two fields left
	out = append(out, &node{t: nStruct, name: nm.next("struct_rm_empty"), rm: true})
	{
		in := &namer{unsorted: nm.unsorted}
		s := &node{t: nStruct, name: nm.next("struct_rm"), rm: true}
		s.kids = append(s.kids, leaf(in, "u8", plain)...)
		s.kids = append(s.kids, leaf(in, "str", symv)...)
		out = append(out, s)
	}
	// mixed array: one of every kind plain and with a string sym
	a = &node{t: nArray, name: nm.next("arr_mixed")}
	in = &namer{unsorted: nm.unsorted}
	for _, k := range ks {
		if k.multikey {
			continue
		}
		a.kids = append(a.kids, leafGroup(in, k, plain)...)
		if !k.fixed() {
			a.kids = append(a.kids, leafGroup(in, k, symv)...)
		}
	}
	out = append(out, a)
	// array of structs, array of arrays
	a = &node{t: nArray, name: nm.next("arr_struct")}
	for i := 0; i < 3; i++ {
		in = &namer{unsorted: nm.unsorted}
		s := &node{t: nStruct, name: "item"}
		s.kids = append(s.kids, leaf(in, "u8", plain)...)
		s.kids = append(s.kids, leaf(in, "str", symv)...)
		if i == 1 {
			s.kids = append(s.kids, leaf(in, "booltrue", plain)...)
		}
		a.kids = append(a.kids, s)
	}
	out = append(out, a)
	a = &node{t: nArray, name: nm.next("arr_arr")}
	for i := 0; i < 3; i++ {
		in = &namer{unsorted: nm.unsorted}
		s := &node{t: nArray, name: "inner"}
		for j := 0; j < i; j++ {
			s.kids = append(s.kids, leaf(in, "u8", plain)...)
		}
		a.kids = append(a.kids, s)
	}
	out = append(out, a)
	// nested struct depth 3 with sym of array/object type inside
	in = &namer{unsorted: nm.unsorted}
	in2 := &namer{unsorted: nm.unsorted}
	in3 := &namer{unsorted: nm.unsorted}
	s3 := &node{t: nStruct, name: in2.next("deep")}
	s3.kids = append(s3.kids, leaf(in3, "u8", vnt{tag: "n_obj", sym: map[string]any{"k": 1}})...)
	s3.kids = append(s3.kids, leaf(in3, "raw", plain)...)
	s2 := &node{t: nStruct, name: in.next("mid")}
	s2.kids = append(s2.kids, leaf(in2, "f64", plain)...)
	s2.kids = append(s2.kids, s3)
	s2.kids = append(s2.kids, leaf(in2, "anyarr", plain)...)
	s1 := &node{t: nStruct, name: nm.next("nest")}
	s1.kids = append(s1.kids, leaf(in, "str", plain)...)
	s1.kids = append(s1.kids, s2)
	s1.kids = append(s1.kids, leaf(in, "synnull", plain)...)
	out = append(out, s1)

	// nested buffers
	in = &namer{unsorted: nm.unsorted}
	rs := &node{t: nRootStruct, name: nm.next("buf_struct")}
	for _, kn := range []string{"u8", "s64min", "str", "raw12at3", "rawbad", "f64nan", "anyobj", "synstr"} {
		rs.kids = append(rs.kids, leaf(in, kn, plain)...)
	}
	rs.kids = append(rs.kids, leaf(in, "u64big", symv)...)
	out = append(out, rs)
	in = &namer{unsorted: nm.unsorted}
	ra := &node{t: nRootArray, name: nm.next("buf_array")}
	for _, kn := range []string{"u8", "str", "booltrue", "raw", "sbig72"} {
		ra.kids = append(ra.kids, leaf(in, kn, plain)...)
	}
	out = append(out, ra)
	out = append(out, &node{t: nRootRaw, name: nm.next("buf_raw"), raw: []byte("nested raw ✓")})
	out = append(out, &node{t: nRootRaw, name: nm.next("buf_rawbad"), raw: []byte{0x80, 0x41, 0xff}})
	in = &namer{unsorted: nm.unsorted}
	f := &node{t: nFormat, name: nm.next("fmt_same")}
	f.kids = append(f.kids, leaf(in, "u8", plain)...)
	f.kids = append(f.kids, leaf(in, "str", symv)...)
	out = append(out, f)
	// sub format in its own buffer: that root is gap filled; names chosen so that the
	// sorted plan stays sorted around gap0 (the unsorted plan gets them reversed)
	fb := &node{t: nFormatBuf, name: nm.next("fmt_buf")}
	fbn := []string{"a1", "z1", "z2"}
	if nm.unsorted {
		fbn = []string{"z2", "z1", "a1"}
	}
	fb.kids = append(fb.kids, &node{t: nLeaf, name: fbn[0], k: kindByName(ks, "u8"), v: plain})
	fb.kids = append(fb.kids, &node{t: nSkip, bits: 16})
	fb.kids = append(fb.kids, &node{t: nLeaf, name: fbn[1], k: kindByName(ks, "str"), v: symv})
	fb.kids = append(fb.kids, &node{t: nLeaf, name: fbn[2], k: kindByName(ks, "raw"), v: plain})
	out = append(out, fb)
	return out
}

type plan struct {
	name      string
	rootArray bool
	kids      []*node
}

var (
	theKinds = scalarKinds()
	thePlans = map[string]*plan{}
)

func buildPlans() {
	var ks, mks []*kind
	for _, k := range theKinds {
		if k.multikey {
			mks = append(mks, k)
		} else {
			ks = append(ks, k)
		}
	}
	// objs: scalars that hold objects with several keys (no defined iteration order)
	{
		nm := &namer{}
		p := &plan{name: "objs"}
		for _, k := range mks {
			p.kids = append(p.kids, kindStruct(nm, k, allVariants()))
		}
		a := &node{t: nArray, name: nm.next("arr")}
		in := &namer{}
		for _, k := range mks {
			a.kids = append(a.kids, leafGroup(in, k, vnt{tag: "a_plain"})...)
		}
		p.kids = append(p.kids, a)
		thePlans[p.name] = p
	}
	// sorted: every struct has ascending field names, no gaps: exact comparison of
	// every query is possible
	{
		nm := &namer{}
		p := &plan{name: "sorted"}
		for _, k := range ks {
			p.kids = append(p.kids, kindStruct(nm, k, allVariants()))
		}
		p.kids = append(p.kids, compoundNodes(nm, ks)...)
		thePlans[p.name] = p
	}
	// unsorted: descending names (iteration order differs from sorted order) and gap
	// fields at the start, in the middle and at the end of the root
	{
		nm := &namer{unsorted: true}
		p := &plan{name: "unsorted"}
		p.kids = append(p.kids, &node{t: nSkip, bits: 16})
		for i, k := range ks {
			p.kids = append(p.kids, kindStruct(nm, k, fewVariants()))
			if i == 3 {
				p.kids = append(p.kids, &node{t: nSkip, bits: 8})
			}
			if i == 9 {
				p.kids = append(p.kids, &node{t: nSkip, bits: 24})
			}
		}
		p.kids = append(p.kids, compoundNodes(nm, ks)...)
		p.kids = append(p.kids, &node{t: nSkip, bits: 40})
		thePlans[p.name] = p
	}
	// gaps: a small root whose names stay sorted around the gap fields fq names
	// gap0, gap1 (names before < "gap0", names after > "gap1")
	{
		p := &plan{name: "gaps"}
		mk := func(name string, kn string, v vnt) {
			p.kids = append(p.kids, &node{t: nLeaf, name: name, k: kindByName(ks, kn), v: v})
		}
		p.kids = append(p.kids, &node{t: nSkip, bits: 16}) // gap0
		mk("gap0a", "u8", vnt{})
		mk("gap0b", "str", vnt{sym: "sym"})
		p.kids = append(p.kids, &node{t: nSkip, bits: 24}) // gap1
		mk("gap1a", "u8", vnt{})
		p.kids = append(p.kids, &node{t: nSkip, bits: 32}) // gap2
		mk("z1", "raw", vnt{})
		mk("z2", "s8neg", vnt{desc: "d"})
		thePlans[p.name] = p
	}
	// array: array root with one of every kind and gap elements
	{
		nm := &namer{}
		p := &plan{name: "array", rootArray: true}
		for i, k := range ks {
			if k.multikey {
				continue
			}
			p.kids = append(p.kids, leafGroup(nm, k, vnt{tag: "a_plain"})...)
			if i%3 == 0 && !k.fixed() {
				p.kids = append(p.kids, leafGroup(nm, k, vnt{tag: "c_str", sym: "sym"})...)
			}
			if i == 5 {
				p.kids = append(p.kids, &node{t: nSkip, bits: 16})
			}
		}
		s := &node{t: nStruct, name: nm.next("s")}
		in := &namer{}
		s.kids = append(s.kids, leafGroup(in, kindByName(ks, "u8"), vnt{tag: "a_plain"})...)
		p.kids = append(p.kids, s)
		p.kids = append(p.kids, &node{t: nSkip, bits: 8})
		thePlans[p.name] = p
	}
}

func (p *plan) input() []byte {
	w := &bitw{}
	for _, c := range p.kids {
		c.build(w)
	}
	if len(w.b)%8 != 0 {
		panic("c08: plan " + p.name + " is not byte aligned")
	}
	return w.bytes()
}

// In is the format option struct (jq: {tree: "sorted"}).
type In struct {
	Tree string `doc:"plan name"`
}

var (
	groupS = &decode.Group{Name: "c08s"}
	groupA = &decode.Group{Name: "c08a"}
)

func decodePlan(d *decode.D) any {
	var in In
	d.ArgAs(&in)
	p := thePlans[in.Tree]
	if p == nil {
		d.Fatalf("c08: no plan %q", in.Tree)
	}
	emitKids(d, p.kids)
	return nil
}

func init() {
	buildPlans()
	interp.RegisterFormat(groupS, &decode.Format{Description: "C08 harness tree (struct root)", DecodeFn: decodePlan, DefaultInArg: In{Tree: "sorted"}})
	interp.RegisterFormat(groupA, &decode.Format{Description: "C08 harness tree (array root)", DecodeFn: decodePlan, DefaultInArg: In{Tree: "array"}, RootArray: true, RootName: "items"})
}
