package c03

import "github.com/wader/fq/internal/verif/core"

func runCorpus(r *core.Run) {}

func replayCorpus(r *core.Run, c Case) bool { return false }
