package c11

import (
	"encoding/json"
	"fmt"
	"time"

	"github.com/wader/gojq"
)

func bench() {
	ps := []string{"1 + 2 * 3", "def f(g; $a): 1; f(.a; 7) | {a: 1}", "reduce (1,2) as $x (0; . + $x)"}
	for _, p := range ps {
		t := time.Now()
		for i := 0; i < 2000; i++ {
			gojq.Parse(p)
		}
		fmt.Println("parse", p, time.Since(t)/2000)
		q, _ := gojq.Parse(p)
		t = time.Now()
		for i := 0; i < 2000; i++ {
			_ = q.String()
		}
		fmt.Println("string", time.Since(t)/2000)
		t = time.Now()
		for i := 0; i < 2000; i++ {
			b, _ := json.Marshal(q)
			var v any
			json.Unmarshal(b, &v)
			b2, _ := json.Marshal(v)
			var qj gojq.Query
			json.Unmarshal(b2, &qj)
		}
		fmt.Println("json", time.Since(t)/2000)
		t = time.Now()
		for i := 0; i < 2000; i++ {
			synCheck(p, "x", false)
		}
		fmt.Println("synCheck", time.Since(t)/2000)
	}
	g := newGen(false)
	t := time.Now()
	n := 0
	g.level1Pairs(func(it item) bool { n++; hashText(it.text); return true })
	fmt.Println("enum level1", n, time.Since(t))
	t = time.Now()
	n = 0
	g.programs(2, polK4, func(it item) bool { n++; hashText(it.text); return true })
	fmt.Println("enum level2", n, time.Since(t))
	t = time.Now()
	n = 0
	g.programs(3, polK1, func(it item) bool { n++; hashText(it.text); return true })
	fmt.Println("enum level3", n, time.Since(t))
}
