package c08

// The read-only query family. A node is a jq filter text over `.` with at most one
// parameter kind whose values come from per-item pools ($k names, $i indices,
// [$a,$b] slice bounds, $p pool operands). Queries with n nodes are all pipelines
// n1 | n2 | .. of nodes (evaluated in layers, see apply in c08.go).

import (
	"fmt"
	"sort"
	"strings"

	"github.com/wader/gojq"
)

type qnode struct {
	text string
	par  string   // "", "k", "i", "ab", "p"
	uses []string // builtin functions the text calls, as name/arity
	// core: member of the family used at node positions >= 2 (DESIGN §C08 list);
	// the remaining nodes are applied as 1-node queries only
	core bool
	// ordfree: the result does not depend on the order of array elements / object
	// keys of the input beyond what a multiset comparison hides; only these are
	// applied to values below which a struct iterates in non sorted order
	ordfree bool
	// ordfree1: like ordfree but only when applied to a tree value itself (arrays of a
	// tree keep their order; an array built by an order exposing node does not, and
	// these nodes pair indices with contents)
	ordfree1 bool
	// strkey: string key lookup (documented difference: null instead of an error
	// on a decode value that is not an object)
	strkey bool
	// bytes: the result is made from the bytes of strings (byte counts, encodings);
	// not applied to values holding raw bits that are not UTF-8 (documented difference 4)
	bytes bool
	// cmp: the result depends on comparing or ordering strings with each other; not
	// applied to arrays/objects holding raw bits that are not UTF-8 (distinct byte
	// strings collapse to the same U+FFFD string in a decode value)
	cmp bool
}

// argx: the decode value is used as an argument (`. as $x | ...`)
func (q qnode) argx() bool { return strings.HasPrefix(q.text, ". as $x |") }

func n(text string, uses ...string) qnode { return qnode{text: text, uses: uses} }

func (q qnode) c() qnode  { q.core = true; return q }
func (q qnode) o() qnode  { q.ordfree = true; return q }
func (q qnode) o1() qnode { q.ordfree1 = true; return q }
func (q qnode) sk() qnode { q.strkey = true; return q }
func (q qnode) b() qnode  { q.bytes = true; return q }
func (q qnode) m() qnode  { q.cmp = true; return q }
func (q qnode) p(par string) qnode {
	q.par = par
	return q
}

func family() []qnode {
	qs := []qnode{
		// --- DESIGN §C08 family
		n("type", "type/0").c().o(),
		n("length", "length/0").c().o(),
		n("keys", "keys/0").c().o(),
		n("has($k)", "has/1").p("k").c().o(),
		n("has($i)", "has/1").p("i").o(),
		n(".[$k]").p("k").c().o().sk(),
		n(".[$k]?").p("k").o().sk(),
		n(".[$i]").p("i").c(),
		n(".[$i]?").p("i"),
		n(".[$a:$b]").p("ab").c(),
		n(".[]").c().o(),
		n(".[]?").c().o(),
		n("paths", "paths/0").c().o1(),
		n("paths(scalars)", "paths/1", "scalars/0").c().o1(),
		n("tojson", "tojson/0").c().o(),
		n("tostring", "tostring/0").c().o(),
		n("tonumber", "tonumber/0").c().o(),
		n(". == $p").p("p").c().m(),
		n(". != $p").p("p").m(),
		n(". < $p").p("p").c().m(),
		n(". <= $p").p("p").m(),
		n(". > $p").p("p").m(),
		n(". >= $p").p("p").m(),
		n("$p < .").p("p").m(),
		n("sort", "sort/0").c().o().m(),
		n("unique", "unique/0").c().o().m(),
		n("[$p, .] | sort", "sort/0").p("p").c().m(),
		n("[$p, ., $p] | unique", "unique/0").p("p").m(),
		n("[$p, .] | min", "min/0").p("p").m(),
		n("[., $p] | group_by(.)", "group_by/1").p("p").m(),
		n("add", "add/0").c(),
		n(". + $p").p("p").c().o(),
		n("$p + .").p("p").o(),
		n(". - $p").p("p").c().o().m(),
		n("$p - .").p("p").o().m(),
		n(". * $p").p("p").c().o(),
		n("$p * .").p("p").o(),
		n(". / $p").p("p").c().o(),
		n("$p / .").p("p").o(),
		n(". % $p").p("p").o(),
		n("$p % .").p("p").o(),
		n("ascii_downcase", "ascii_downcase/0").c().o(),
		n(`test("a")`, "test/1").c().o(),
		n(`ltrimstr("a")`, "ltrimstr/1").c().o(),
		n("to_entries", "to_entries/0").c(),
		n("with_entries(.)", "with_entries/1").c(),
		n("[.[]?]").c().o(),
		n("{a: .}").c().o(),
		n("..").c().o(),
		n("map(.)", "map/1").c().o(),
		n("select(.)", "select/1").c().o(),
		n("first", "first/0").c(),
		n("getpath([$k])", "getpath/1").p("k").c().o().sk(),
		n("getpath([$i])", "getpath/1").p("i"),
		n("getpath([])", "getpath/1").o(),
		n("tojson | fromjson", "tojson/0", "fromjson/0").c().o(),

		// --- more of the standard read-only language (1-node only)
		n("utf8bytelength", "utf8bytelength/0").o().b(),
		n("[paths]", "paths/0").o1(),
		n("[..]").o(),
		n("map_values(.)", "map_values/1").o(),
		n("last", "last/0"),
		n("first(.[]?)", "first/1"),
		n("[limit(2; .[]?)]", "limit/2"),
		n("nth(1)", "nth/1"),
		n("not", "not/0").o(),
		n("if . then 1 else 0 end").o(),
		n(`. // "d"`).o(),
		n(". and true").o(),
		n(". or false").o(),
		n("scalars", "scalars/0").o(),
		n("iterables", "iterables/0").o(),
		n("values", "values/0").o(),
		n("nulls", "nulls/0").o(),
		n("booleans", "booleans/0").o(),
		n("numbers", "numbers/0").o(),
		n("strings", "strings/0").o(),
		n("arrays", "arrays/0").o(),
		n("objects", "objects/0").o(),
		n("floor", "floor/0").o(),
		n("ceil", "ceil/0").o(),
		n("round", "round/0").o(),
		n("sqrt", "sqrt/0").o(),
		n("fabs", "fabs/0").o(),
		n("abs", "abs/0").o(),
		n("-(.)").o(),
		n("isnan", "isnan/0").o(),
		n("isinfinite", "isinfinite/0").o(),
		n("isnormal", "isnormal/0").o(),
		n("min", "min/0").o().m(),
		n("max", "max/0").o().m(),
		n("min_by(.)", "min_by/1").o().m(),
		n("reverse", "reverse/0").o(),
		n("flatten", "flatten/0").o(),
		n("any", "any/0").o(),
		n("all", "all/0").o(),
		n("walk(.)", "walk/1").o(),
		n("sort_by(.)", "sort_by/1").o().m(),
		n("unique_by(.)", "unique_by/1").o().m(),
		n("group_by(.)", "group_by/1").o().m(),
		n("ascii_upcase", "ascii_upcase/0").o(),
		n(`rtrimstr("c")`, "rtrimstr/1").o(),
		n(`startswith("a")`, "startswith/1").o(),
		n(`endswith("c")`, "endswith/1").o(),
		n("explode", "explode/0").o(),
		n(`split("B")`, "split/1").o(),
		n(`sub("a"; "x")`, "sub/2").o(),
		n(`[match("[a-z]"; "g").string]`, "match/2").o(),
		n(`join(",")`, "join/1"),
		n("tostream", "tostream/0"),
		n("fromstream(tostream)", "fromstream/1", "tostream/0").o1(),
		n("from_entries", "from_entries/0"),
		n("to_entries | from_entries", "to_entries/0", "from_entries/0"),
		n("transpose", "transpose/0"),
		n("implode", "implode/0"),
		n("todate", "todate/0").o(),
		n("@json").o(),
		n("@text").o(),
		n(`"\(.)"`).o(),
		n(`"x\(.)y"`).b(),
		n("@base64").b(),
		n("@uri").b(),
		n("@html").b(),
		n("@sh").b(),
		n("[.] | @csv"),
		n("[.] | @tsv"),
		n("try error catch .", "error/0").o(),
		n("isempty(.[]?)", "isempty/1").o(),
		n("[recurse(.[]?; . != null)]", "recurse/2").o(),
		n("path(..)", "path/1").o1(),
		n("[.[]?] | length", "length/0").o(),
		n("{(.): 1}"),
		n("contains($p)", "contains/1").p("p").o().m(),
		n("inside($p)", "inside/1").p("p").o().m(),
		n("index($p)", "index/1").p("p").m(),
		n("indices($p)", "indices/1").p("p").m(),
		n("ltrimstr($p)", "ltrimstr/1").p("p").o(),
		n("startswith($p)", "startswith/1").p("p").o(),
		n("IN($p, 1)", "IN/1").p("p").m(),
		n(". as $x | $p | IN($x)", "IN/1").p("p").m(),

		// --- the decode value as an argument of a standard function
		n(`. as $x | [10,20,30] | .[$x]`),
		n(`. as $x | [10,20,30] | .[$x:]`),
		n(`. as $x | [10,20,30] | .[:$x]`),
		n(`. as $x | "abcdef" | .[$x:]`),
		n(`. as $x | {"a":1,"aBc":2,"sym":3,"12":4} | .[$x]`),
		n(`. as $x | {"a":1,"aBc":2,"sym":3,"12":4} | has($x)`, "has/1"),
		n(`. as $x | [10,20,30] | has($x)`, "has/1"),
		n(`. as $x | {"a":[1,2]} | getpath(["a", $x])`, "getpath/1"),
		n(`. as $x | {"a":{"sym":2}} | getpath(["a", $x])`, "getpath/1"),
		n(`. as $x | "aBcaBc" | ltrimstr($x)`, "ltrimstr/1"),
		n(`. as $x | "aBcaBc" | test($x)`, "test/1"),
		n(`. as $x | "aBcaBc" | startswith($x)`, "startswith/1"),
		n(`. as $x | "aBcaBc" | index($x)`, "index/1"),
		n(`. as $x | "aBcaBc" | split($x)`, "split/1"),
		n(`. as $x | [1,"a",null,"sym",5,[1]] | index($x)`, "index/1"),
		n(`. as $x | [1,"a",null,"sym",5,[1]] | contains([$x])`, "contains/1"),
		n(`. as $x | [limit(3; range($x))]`, "limit/2", "range/1"),
		n(`. as $x | [1,2,3] | map(. + $x)`, "map/1"),
		n(`. as $x | [3,1,2] | sort_by(. * $x)`, "sort_by/1"),
		n(`. as $x | [[1,2],[3,4]] | flatten($x)`, "flatten/1"),
		n(`. as $x | [1,[2]] | tojson | .[$x:]`, "tojson/0"),
		n(`. as $x | null | [$x, $x] | unique`, "unique/0"),
		n(`. as $x | {} | .a = $x | .a | type`, "type/0"),
	}
	seen := map[string]bool{}
	for _, q := range qs {
		if seen[q.text] {
			panic("c08: duplicate query node " + q.text)
		}
		seen[q.text] = true
	}
	return qs
}

// builtinTable evaluates `builtins` with the gojq fork this binary links (the
// language definition fq builds on) and returns its name/arity table.
func builtinTable() map[string]bool {
	q, err := gojq.Parse("builtins")
	if err != nil {
		panic("c08: " + err.Error())
	}
	code, err := gojq.Compile(q)
	if err != nil {
		panic("c08: " + err.Error())
	}
	it := code.Run(nil)
	v, ok := it.Next()
	if !ok {
		panic("c08: builtins gave nothing")
	}
	arr, ok := v.([]any)
	if !ok || len(arr) < 100 {
		panic(fmt.Sprintf("c08: implausible builtins table: %T", v))
	}
	out := map[string]bool{}
	for _, e := range arr {
		if s, ok := e.(string); ok {
			out[s] = true
		}
	}
	return out
}

// checkBuiltins fails loudly when a node calls a function the fork does not
// define (a silently dropped node would shrink the family unnoticed).
func checkBuiltins(qs []qnode) int {
	tab := builtinTable()
	var missing []string
	used := map[string]bool{}
	for _, q := range qs {
		for _, u := range q.uses {
			used[u] = true
			if !tab[u] {
				missing = append(missing, u+" (in `"+q.text+"`)")
			}
		}
	}
	if len(missing) > 0 {
		sort.Strings(missing)
		panic("c08: query family names functions that the gojq fork does not define: " + strings.Join(missing, ", "))
	}
	return len(used)
}

const errMark = "\u0001E"
const errLit = `"\u0001E"` // the same string as a jq literal

// driver returns the jq program applying every node of qs to every item of the
// input array. Item: {v: lhs, t: rhs, K, I, AB, P}. Output per item: one entry per
// node; an entry is a pair [lhsResults, rhsResults] (parameterless node) or an
// array of pairs (one per parameter value, in pool order). Results are the
// outputs wrapped as [x], followed by the error mark where evaluation failed.
func driver(qs []qnode) string {
	var sb strings.Builder
	sb.WriteString(".[] | . as {v:$v, t:$t, K:$K, I:$I, AB:$AB, P:$P} | [\n")
	for i, q := range qs {
		if i > 0 {
			sb.WriteString(",\n")
		}
		pair := fmt.Sprintf(`[[try ($v | (%s) | [.]) catch %s], [try ($t | (%s) | [.]) catch %s]]`, q.text, errLit, q.text, errLit)
		switch q.par {
		case "":
			sb.WriteString(pair)
		case "k":
			sb.WriteString("[$K[] as $k | " + pair + "]")
		case "i":
			sb.WriteString("[$I[] as $i | " + pair + "]")
		case "ab":
			sb.WriteString("[$AB[] as [$a,$b] | " + pair + "]")
		case "p":
			sb.WriteString("[$P[] as $p | " + pair + "]")
		default:
			panic("c08: bad par " + q.par)
		}
	}
	sb.WriteString("\n]")
	return sb.String()
}
