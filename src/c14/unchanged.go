package c14

import (
	"fmt"
	"strings"
)

// Section "unchanged": a conversion function returns a new value; the value it was applied
// to is still the value it was. Every encoder (with option variants) x every value of a pool
// of nested values whose leaves are not strings (the encoders normalise numbers, null and
// booleans to text somewhere inside): the input is bound to a variable, printed, converted,
// and printed again. If an encoder normalises its argument in place, `$x | to_F | from_F == $x`
// compares the result with an already altered $x and the inverse law passes vacuously.

var unchangedValues = []string{
	`null`, `1`, `18446744073709551616`, `1.5`, `true`, `"s"`,
	`[1,null]`, `{"k":1,"n":null}`,
	`["b",{"k":1},[]]`, `["b",{"k":1,"n":null},[["c",null,[]],["d",{"x":true},[]]]]`,
	`{"a":{"#text":null,"@k":1}}`, `{"a":{"b":[1,2.5,null,true],"@c":18446744073709551616}}`,
	`[[1,null],["x",true]]`, `[[1.5,18446744073709551616]]`,
	`{"q":[1,"x"],"r":null,"s":true}`, `{"q":1}`,
	`{"scheme":"http","host":"h","path":"/p","query":{"a":1,"b":null},"user":{"username":"u","password":1}}`,
	`[{"a":1},{"a":[null]}]`, `{"t":{"u":{"v":[1,{"w":null}]}}}`,
}

var unchangedFns = []string{
	`to_xml`, `to_xml({indent: 2})`, `to_xml({attribute_prefix: "@"})`,
	`to_csv`, `to_csv({comma: ";"})`,
	`to_urlquery`, `to_url`, `to_urlpath`, `to_urlencode`,
	`to_toml`, `to_toml({indent: 2})`, `to_yaml`, `to_yaml({indent: 2})`,
	`tojson`, `to_jsonl`, `to_jq`, `to_jq({indent: 2})`,
	`to_hex`, `to_base64`, `to_base64({encoding: "url"})`, `to_md5`, `to_radix(16)`,
	`to_utf8`, `to_utf16`, `to_iso8859_1`, `to_xmlentities`,
	`tovalue`, `tobytes`, `tobits`, `tostring`,
}

func enumUnchanged(e *env) {
	var items []any
	for vi := range unchangedValues {
		for fi := range unchangedFns {
			items = append(items, map[string]any{"v": vi, "f": fi})
		}
	}
	e.r.Extra("unchanged_values", len(unchangedValues))
	e.r.Extra("unchanged_functions", len(unchangedFns))
	e.each(items, 64, func(items []any) { checkUnchanged(e, "unchanged", items) })
}

var unchangedBodyText string

func unchangedBody() string {
	if unchangedBodyText == "" {
		var sb strings.Builder
		sb.WriteString(".f as $f | .x as $x | ($x | tojson) as $before | (")
		for i, f := range unchangedFns {
			if i > 0 {
				sb.WriteString(" elif ")
			} else {
				sb.WriteString("if ")
			}
			fmt.Fprintf(&sb, "$f == %d then T($x | %s)", i, f)
		}
		sb.WriteString(" else null end) as $res | [$before, ($x | tojson), ($res | if type == \"array\" then \"value\" else \"error\" end)]")
		unchangedBodyText = sb.String()
	}
	return unchangedBodyText
}

func checkUnchanged(e *env, fn string, items []any) {
	inputs := make([]any, len(items))
	for i, it := range items {
		m := itemMap(it)
		vi, fi := itemInt(m["v"]), itemInt(m["f"])
		x, err := parseExact(unchangedValues[vi])
		if err != nil {
			panic(err)
		}
		inputs[i] = map[string]any{"f": fi, "x": x}
	}
	outs := e.batch(fn, unchangedBody(), inputs)
	for i, o := range outs {
		if o == nil {
			continue
		}
		m := itemMap(items[i])
		vi, fi := itemInt(m["v"]), itemInt(m["f"])
		row := asList(o)
		if len(row) != 3 {
			e.violate("escape:unchanged", "malformed driver output "+trunc(canon(o), 200), fn, items[i])
			continue
		}
		before, _ := row[0].(string)
		after, _ := row[1].(string)
		outcome, _ := row[2].(string)
		e.r.Eval(1)
		if outcome == "value" {
			e.r.Nontrivial(fmt.Sprintf("unchanged:%d:%d", vi, fi))
		}
		e.show("%s | %s: %s; input before %s after %s", unchangedValues[vi], unchangedFns[fi], outcome, before, after)
		want, err := parseExact(unchangedValues[vi])
		if err != nil {
			continue
		}
		if b, err := parseExact(before); err != nil || canon(b) != canon(want) {
			e.violate("escape:unchanged-input", fmt.Sprintf("value %s reached the driver as %s", unchangedValues[vi], before), fn, items[i])
			continue
		}
		if a, err := parseExact(after); err != nil || canon(a) != canon(want) {
			name := unchangedFns[fi]
			if k := strings.IndexByte(name, '('); k >= 0 {
				name = name[:k]
			}
			e.violate("input-changed-by-conversion:"+name, fmt.Sprintf("%s as $x | ($x | %s) | $x  gives %s: the conversion (%s) changed the value it was applied to", unchangedValues[vi], unchangedFns[fi], after, outcome), fn, items[i])
		}
	}
}
