package c17

import (
	"encoding/json"
	"fmt"
	"sort"
	"strings"

	"github.com/wader/fq/internal/verif/fqrun"
)

// OptDef is one row of fq's command line option table (the declared interface:
// the same information `fq --help` prints: spellings and arity). It is read at
// run time from the tree under test so that the alphabet follows the table.
type OptDef struct {
	Key      string
	Short    string
	Long     string
	Aliases  []string
	Kind     string // bool | string | array | object | pairs
	Optional bool
}

func (o OptDef) Spellings() []string {
	var s []string
	if o.Short != "" {
		s = append(s, o.Short)
	}
	if o.Long != "" {
		s = append(s, o.Long)
	}
	for _, a := range o.Aliases {
		dup := false
		for _, b := range s {
			dup = dup || a == b
		}
		if !dup {
			s = append(s, a)
		}
	}
	return s
}

type Table struct {
	Opts  []OptDef
	bySp  map[string]*OptDef
	byKey map[string]*OptDef
}

func (t *Table) Lookup(spelling string) *OptDef { return t.bySp[spelling] }
func (t *Table) Key(k string) *OptDef           { return t.byKey[k] }

// jqSpellings: the spellings and arity the jq manual gives for the features in
// the property's "jq-compatible modes" list. For these the model does not depend
// on fq's table at all: a spelling that fq's table lacks (or binds to something
// else) shows as a difference in behaviour.
var jqSpellings = map[string]*OptDef{}

func init() {
	for _, o := range []OptDef{
		{Key: "null_input", Short: "-n", Long: "--null-input", Kind: "bool"},
		{Key: "slurp", Short: "-s", Long: "--slurp", Kind: "bool"},
		{Key: "string_input", Short: "-R", Long: "--raw-input", Kind: "bool"},
		{Key: "raw_string", Short: "-r", Long: "--raw-output", Kind: "bool"},
		{Key: "join_output", Short: "-j", Long: "--join-output", Kind: "bool"},
		{Key: "null_output", Long: "--raw-output0", Kind: "bool"},
		{Key: "compact", Short: "-c", Long: "--compact-output", Kind: "bool"},
		{Key: "arg", Long: "--arg", Kind: "pairs"},
		{Key: "argjson", Long: "--argjson", Kind: "pairs"},
		{Key: "raw_file", Long: "--rawfile", Kind: "pairs"},
		{Key: "expr_file", Short: "-f", Long: "--from-file", Kind: "string"},
	} {
		o := o
		for _, sp := range o.Spellings() {
			jqSpellings[sp] = &o
		}
	}
}

func loadTable() (*Table, error) {
	// no option is used to read the option table (stdin is the JSON text null)
	res := fqrun.Run(fqrun.Opts{Args: []string{"_opt_cli_opts"}, Stdin: []byte("null")})
	if res.Exit != 0 || res.Panic != nil {
		return nil, fmt.Errorf("cannot read option table: %s", res)
	}
	var raw map[string]map[string]any
	if err := json.Unmarshal(res.Stdout, &raw); err != nil {
		return nil, fmt.Errorf("option table: %v", err)
	}
	t := &Table{bySp: map[string]*OptDef{}, byKey: map[string]*OptDef{}}
	keys := make([]string, 0, len(raw))
	for k := range raw {
		keys = append(keys, k)
	}
	sort.Strings(keys)
	for _, k := range keys {
		m := raw[k]
		o := OptDef{Key: k}
		if s, ok := m["short"].(string); ok {
			o.Short = s
		}
		if s, ok := m["long"].(string); ok {
			o.Long = s
		}
		if a, ok := m["aliases"].([]any); ok {
			for _, x := range a {
				if s, ok := x.(string); ok {
					o.Aliases = append(o.Aliases, s)
				}
			}
		}
		switch {
		case m["bool"] != nil:
			o.Kind = "bool"
		case m["string"] != nil:
			o.Kind = "string"
		case m["array"] != nil:
			o.Kind = "array"
		case m["object"] != nil:
			o.Kind = "object"
		case m["pairs"] != nil:
			o.Kind = "pairs"
		default:
			o.Kind = "bool"
		}
		if b, ok := m["optional"].(bool); ok {
			o.Optional = b
		}
		t.Opts = append(t.Opts, o)
	}
	for i := range t.Opts {
		o := &t.Opts[i]
		t.byKey[o.Key] = o
		for _, s := range o.Spellings() {
			t.bySp[s] = o
		}
	}
	return t, nil
}

// modelled: option keys whose semantics the reference model knows.
var modelled = map[string]bool{
	"arg": true, "argdecode": true, "argjson": true, "compact": true, "color_output": true,
	"decode_group": true, "expr_file": true, "show_help": true, "join_output": true,
	"include_path": true, "null_output": true, "null_input": true, "monochrome_output": true,
	"option": true, "string_input": true, "raw_file": true, "raw_string": true, "repl": true,
	"slurp": true, "unicode_output": true, "value_output": true, "show_version": true,
}

// Token is one element of the option alphabet: one or more argv words that are
// inserted together.
type Token struct {
	Words []string
	Label string // class label for coverage and signatures
	Canon bool   // canonical representative of its semantic class
	Bind  string // variable name bound by the token ("" if none)
}

func (t Token) String() string { return strings.Join(t.Words, " ") }

// names of variables by option key
var bindName = map[string]string{"arg": "va", "argjson": "vj", "raw_file": "vr", "argdecode": "vd"}

// buildAlphabet derives the option alphabet from the table.
func buildAlphabet(t *Table) []Token {
	var out []Token
	add := func(label string, canon bool, bind string, words ...string) {
		out = append(out, Token{Words: words, Label: label, Canon: canon, Bind: bind})
	}
	var boolShort []string
	for _, o := range t.Opts {
		if o.Kind == "bool" && o.Short != "" {
			boolShort = append(boolShort, o.Short)
		}
	}
	for _, o := range t.Opts {
		sp := o.Spellings()
		switch o.Kind {
		case "bool":
			for i, s := range sp {
				add("bool:"+o.Key, i == 0, "", s)
			}
			// a value on a flag that takes none
			l := o.Long
			if l == "" {
				l = sp[0]
			}
			add("bool=value:"+o.Key, false, "", l+"=1")
		case "string", "array", "object":
			good, bad := valuesFor(o.Key)
			for i, s := range sp {
				for j, g := range good {
					add("val:"+o.Key+":"+g.label, i == 0 && j == 0, "", s, g.v)
					if strings.HasPrefix(s, "--") {
						add("val=:"+o.Key+":"+g.label, false, "", s+"="+g.v)
					}
				}
				add("val-missing:"+o.Key, i == 0, "", s)
			}
			for _, b := range bad {
				add("val-bad:"+o.Key+":"+b.label, true, "", sp[0], b.v)
			}
		case "pairs":
			good, bad := pairsFor(o.Key)
			name := bindName[o.Key]
			if name == "" {
				name = "vx"
			}
			for i, s := range sp {
				for j, g := range good {
					add("pairs:"+o.Key+":"+g.label, i == 0 && j == 0, name, s, name, g.v)
				}
				add("pairs-missing1:"+o.Key, i == 0, "", s, name)
				add("pairs-missing2:"+o.Key, i == 0, "", s)
			}
			for _, b := range bad {
				add("pairs-bad:"+o.Key+":"+b.label, true, name, sp[0], name, b.v)
			}
		}
	}
	// jq manual spellings of listed features
	jq := make([]string, 0, len(jqSpellings))
	for s := range jqSpellings {
		jq = append(jq, s)
	}
	sort.Strings(jq)
	for _, s := range jq {
		if t.Lookup(s) != nil {
			continue // already generated from the table
		}
		o := jqSpellings[s]
		switch o.Kind {
		case "bool":
			add("jq-spelling:"+s, true, "", s)
		case "string":
			good, _ := valuesFor(o.Key)
			add("jq-spelling:"+s, true, "", s, good[0].v)
		case "pairs":
			good, _ := pairsFor(o.Key)
			add("jq-spelling:"+s, true, bindName[o.Key], s, bindName[o.Key], good[0].v)
		}
	}
	// combined short flags: every ordered pair of distinct bool shorts
	for _, a := range boolShort {
		for _, b := range boolShort {
			if a == b {
				continue
			}
			add("combined:"+a[1:]+b[1:], false, "", a+b[1:])
		}
	}
	if len(boolShort) >= 3 {
		add("combined3", true, "", boolShort[0]+boolShort[1][1:]+boolShort[2][1:])
	}
	// clusters with a valued option last / not last / unknown letter
	if d := t.Key("decode_group"); d != nil && d.Short != "" && len(boolShort) > 0 {
		add("cluster-valued-last", true, "", boolShort[0]+d.Short[1:], "json")
		add("cluster-valued-notlast", true, "", d.Short+boolShort[0][1:])
		add("cluster-valued-attached", true, "", d.Short+"json")
	}
	// "=value" on short options: alone, as the last letter of a cluster of one and of two
	// flags, and on a flag that takes no value (alone and in a cluster)
	for _, o := range t.Opts {
		if o.Short == "" || !(o.Kind == "string" || o.Kind == "array" || o.Kind == "object") {
			continue
		}
		good, _ := valuesFor(o.Key)
		add("short=:"+o.Key, false, "", o.Short+"="+good[0].v)
		if len(boolShort) > 0 {
			add("cluster-valued-last=:"+o.Key, false, "", boolShort[0]+o.Short[1:]+"="+good[0].v)
		}
		if len(boolShort) > 1 {
			add("cluster3-valued-last=:"+o.Key, false, "", boolShort[0]+boolShort[1][1:]+o.Short[1:]+"="+good[0].v)
		}
	}
	if len(boolShort) > 1 {
		add("short-bool=value", false, "", boolShort[0]+"=1")
		add("cluster-bool=value", false, "", boolShort[0]+boolShort[1][1:]+"=1")
	}
	if len(boolShort) > 0 {
		add("cluster-unknown-letter", true, "", boolShort[0]+unknownShort(t)[1:])
	}
	add("unknown-short", true, "", unknownShort(t))
	add("unknown-long", true, "", "--nope")
	add("unknown-long=", false, "", "--nope=1")
	add("dashdash", true, "", "--")
	add("numeric", true, "", "-1")
	return out
}

func unknownShort(t *Table) string {
	for _, c := range "xyzqwXYZQW" {
		s := "-" + string(c)
		if t.Lookup(s) == nil {
			return s
		}
	}
	return "-@"
}

type lv struct{ label, v string }

func valuesFor(key string) (good, bad []lv) {
	switch key {
	case "decode_group":
		return []lv{{"json", "json"}, {"probe", "probe"}, {"group", "image"}}, []lv{{"unknown", "nope"}}
	case "expr_file":
		return []lv{{"ok", "pa.jq"}, {"format", "pfmt.jq"}}, []lv{{"missing", "nofile.jq"}, {"nocompile", "pbad.jq"}, {"dir", "dir"}}
	case "show_help":
		return []lv{{"topic", "formats"}}, []lv{{"unknown-topic", "nope"}}
	case "include_path":
		return []lv{{"dir", "inc"}}, nil
	case "option":
		return []lv{{"noop", "bits_format=string"}, {"atfile", "bits_format=@optf"}},
			[]lv{{"nokv", "k"}, {"badvalue", "line_bytes=x"}, {"atmissing", "bits_format=@nofile"}}
	}
	return []lv{{"v", "v"}}, nil
}

func pairsFor(key string) (good, bad []lv) {
	switch key {
	case "arg":
		return []lv{{"str", "b c"}}, nil
	case "argjson":
		return []lv{{"json", `{"k":[1,"s"]}`}}, []lv{{"invalid", "{"}}
	case "raw_file":
		return []lv{{"file", "g2"}}, []lv{{"missing", "nofile"}, {"dir", "dir"}}
	case "argdecode":
		return []lv{{"file", "g2"}}, []lv{{"missing", "nofile"}, {"undecodable", "bad"}}
	}
	return []lv{{"v", "v"}}, nil
}
