package core

import (
	"hash/fnv"
	"math"
	"reflect"
)

// DeepHash hashes the complete reachable mutable state of a live Go object graph
// (including unexported fields, slice contents up to len, pointer targets) by
// reflection. It is the canonical state key of the explicit-state engine: two
// real objects with equal DeepHash (and equal reference-model state) have the same
// futures because the hash covers *every* field, so merging them is sound. Types
// from context/sync/time (goroutine plumbing) and chans/funcs are skipped.
func DeepHash(vs ...any) uint64 {
	h := &dh{h: fnv.New64a(), seen: map[uintptr]int{}}
	for _, v := range vs {
		h.val(reflect.ValueOf(v), 0)
	}
	return h.h.Sum64()
}

type dh struct {
	h interface {
		Write([]byte) (int, error)
		Sum64() uint64
	}
	seen map[uintptr]int
	buf  [8]byte
}

func (d *dh) u64(x uint64) {
	for i := 0; i < 8; i++ {
		d.buf[i] = byte(x >> (8 * i))
	}
	d.h.Write(d.buf[:])
}

func skipType(t reflect.Type) bool {
	switch t.PkgPath() {
	case "context", "sync", "sync/atomic", "time", "internal/sync":
		return true
	}
	return false
}

func (d *dh) val(v reflect.Value, depth int) {
	if !v.IsValid() {
		d.u64(0xdead)
		return
	}
	if depth > 40 {
		return
	}
	t := v.Type()
	if skipType(t) {
		return
	}
	d.u64(uint64(t.Kind()))
	switch t.Kind() {
	case reflect.Bool:
		if v.Bool() {
			d.u64(1)
		} else {
			d.u64(0)
		}
	case reflect.Int, reflect.Int8, reflect.Int16, reflect.Int32, reflect.Int64:
		d.u64(uint64(v.Int()))
	case reflect.Uint, reflect.Uint8, reflect.Uint16, reflect.Uint32, reflect.Uint64, reflect.Uintptr:
		d.u64(v.Uint())
	case reflect.Float32, reflect.Float64:
		d.u64(math.Float64bits(v.Float()))
	case reflect.String:
		d.u64(uint64(v.Len()))
		d.h.Write([]byte(v.String()))
	case reflect.Slice:
		if v.IsNil() {
			d.u64(0xffff)
			return
		}
		d.u64(uint64(v.Len()))
		if t.Elem().Kind() == reflect.Uint8 {
			n := v.Len()
			b := make([]byte, n)
			for i := 0; i < n; i++ {
				b[i] = byte(v.Index(i).Uint())
			}
			d.h.Write(b)
			return
		}
		if t.Elem().Kind() == reflect.Bool {
			n := v.Len()
			b := make([]byte, n)
			for i := 0; i < n; i++ {
				if v.Index(i).Bool() {
					b[i] = 1
				}
			}
			d.h.Write(b)
			return
		}
		for i := 0; i < v.Len(); i++ {
			d.val(v.Index(i), depth+1)
		}
	case reflect.Array:
		for i := 0; i < v.Len(); i++ {
			d.val(v.Index(i), depth+1)
		}
	case reflect.Struct:
		for i := 0; i < v.NumField(); i++ {
			d.val(v.Field(i), depth+1)
		}
	case reflect.Ptr:
		if v.IsNil() {
			d.u64(0xfffe)
			return
		}
		p := v.Pointer()
		if id, ok := d.seen[p]; ok {
			d.u64(uint64(id) | 1<<40)
			return
		}
		d.seen[p] = len(d.seen) + 1
		d.val(v.Elem(), depth+1)
	case reflect.Interface:
		if v.IsNil() {
			d.u64(0xfffd)
			return
		}
		d.val(v.Elem(), depth+1)
	case reflect.Map:
		if v.IsNil() {
			d.u64(0xfffc)
			return
		}
		d.u64(uint64(v.Len()))
		var acc uint64
		it := v.MapRange()
		for it.Next() {
			sub := &dh{h: fnv.New64a(), seen: d.seen}
			sub.val(it.Key(), depth+1)
			sub.val(it.Value(), depth+1)
			acc += sub.h.Sum64()
		}
		d.u64(acc)
	case reflect.Chan, reflect.Func, reflect.UnsafePointer:
		// not state we can or need to observe
	}
}
