#!/usr/bin/env python3
"""Regenerates /verif/MANIFEST.json from the table below (one entry per claimed property)."""
import json
import os

VERIF = os.path.dirname(os.path.dirname(os.path.abspath(__file__)))

CHECKS = {
    "C01": dict(
        category="model_checking",
        technique="explicit-state BFS over operation histories on the real reader objects (state = reference cursor + deep hash of all mutable fields), reference bit-string model as oracle; exhaustive alignment x length tables for the bit kernels",
        text="Every reader composition of the enumerated family (leaves: IOBitReadSeeker, NewBitReader, zero reader, the file stack IOBitReadSeeker(ahead(progress(ctx))); nodes: section/range/multi/clone/zero-pad; nesting 2 quick, 3 thorough) is searched breadth-first over the full operation alphabet (ReadBits/ReadBitsAt/SeekBits x3 whence/ReadFull/ReadAtFull/Clone over a boundary grid) to depth 3 (quick) / 4 (thorough) with state merging by a hash of every mutable field; each transition runs on a fresh real object and is compared with a reference bit string + cursor. Read64/Write64/copyBufBits are tabulated for every alignment and length; IOReader/IOReadSeeker/IOBitWriter/CopyBits and the read-ahead and progress wrappers get their own BFS.",
        design_ref="§C01",
        note="Trusted: the ~150 line reference model (bit slicing + cursor) and the Go reflect based state hash. Bounds: sources <= 3 bytes, window/length grid {0,1,3,7,8,9,15,16,17,64,65}, history depth 3/4, per-composition state cap (reported when hit). Negative read-at offsets and relative seeks in the padded tail of non byte aligned byte views are outside the statement and not judged.",
        engine="seqx",
    ),
}

NOT_YET = {
}


def main():
    props = [json.loads(l) for l in open(os.path.join(VERIF, "properties.jsonl"))]
    checks = []
    na = []
    for p in props:
        pid = p["id"]
        c = CHECKS.get(pid)
        if c and os.path.isdir(os.path.join(VERIF, "src", pid.lower())):
            checks.append(
                {
                    "property_id": pid,
                    "quick_cmd": f"./check {pid} --tier quick",
                    "thorough_cmd": f"./check {pid} --tier thorough",
                    "evidence_file": f"/verif/evidence/{pid}.json",
                    "replay_cmd_template": f"./check {pid} --replay {{path}}",
                    "engine": c.get("engine", "enum"),
                    "level_claimed": {"category": c["category"], "text": c["text"], "design_ref": c["design_ref"]},
                    "level_note": c["note"],
                    "technique": c["technique"],
                }
            )
        else:
            na.append({"property_id": pid, "reason": NOT_YET.get(pid, "check not built yet in this session (designed in DESIGN.md, model-checking applies); not claimed until its machinery is committed")})
    m = {
        "version": 1,
        "setup_cmd": "./setup.sh",
        "hooks": {
            "guard": "verif",
            "enable": "go build -tags verif -overlay <generated>: harness packages, accessor files and check-time generated instrumentation are injected through a build overlay; /repo carries no hook code",
            "baseline_off_cmd": "cd /repo && GOFLAGS=-mod=mod GOPROXY=off GOSUMDB=off GOTOOLCHAIN=local go test -vet=off -count=1 -timeout 25m ./...",
            "source_commits": [],
            "add_only": True,
        },
        "engines": [
            {"name": "seqx", "path": "/verif/src/core", "serves_properties": ["C01", "C04", "C20"], "kind_free_text": "explicit-state BFS over real objects by history replay + reference model, deep-hash state keys"},
            {"name": "sched", "path": "/verif/src/sched", "serves_properties": ["C18", "C20"], "kind_free_text": "cooperative scheduler + preemption-bounded stateless DFS with vector-clock race detection over check-time generated access points"},
            {"name": "enum", "path": "/verif/src/core", "serves_properties": [], "kind_free_text": "exhaustive grammar/product generators with process sharding, in-process fq runner"},
        ],
        "checks": checks,
        "not_applicable": na,
        "notes": "All checks rebuild from /repo's working tree via ./check (go build -overlay). Known findings: /verif/known_findings.jsonl.",
    }
    json.dump(m, open(os.path.join(VERIF, "MANIFEST.json"), "w"), indent=1)
    print("checks:", [c["property_id"] for c in checks], "not claimed:", len(na))


if __name__ == "__main__":
    main()
