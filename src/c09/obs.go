package c09

import (
	"fmt"
	"math/big"
	"strings"

	"github.com/wader/fq/internal/bitiox"
	"github.com/wader/fq/pkg/bitio"
	"github.com/wader/fq/pkg/interp"
	"github.com/wader/gojq"
)

const kOther kind = 100 // an fq result of a type the model has no counterpart for: never equal

// observe converts an fq result (a Go value produced by the interpreter) to the
// normal form of the reference model. Binaries are read bit by bit through the
// exported reader fq itself hands to every consumer; unit and the bit accurate
// start come from the binary's own keys.
func observe(v any) *Val {
	switch x := v.(type) {
	case nil:
		return vNull
	case int:
		return vInt(int64(x))
	case float64:
		return vFloat(x)
	case *big.Int:
		return vBig(x)
	case string:
		return vStr(x)
	case []any:
		out := make([]*Val, len(x))
		for i, e := range x {
			out[i] = observe(e)
		}
		return vArr(out...)
	case interp.Binary:
		bits, err := readBits(x)
		if err != nil {
			return &Val{K: kOther, Why: "binary could not be read: " + err.Error()}
		}
		unit, ok := x.JQValueKey("unit").(int)
		if !ok {
			return &Val{K: kOther, Why: fmt.Sprintf("binary .unit is %T", x.JQValueKey("unit"))}
		}
		bb, ok := x.JQValueKey("bits").(interp.Binary)
		if !ok {
			return &Val{K: kOther, Why: "binary .bits is not a binary"}
		}
		start, ok := bb.JQValueKey("start").(*big.Int)
		if !ok || !start.IsInt64() {
			return &Val{K: kOther, Why: "binary .bits.start is not an integer"}
		}
		return vBin(bits, unit, int(start.Int64()))
	case interp.DecodeValue:
		bits, err := readBits(x)
		if err != nil {
			return &Val{K: kOther, Why: "decode value range could not be read: " + err.Error()}
		}
		dv := x.DecodeValue()
		val := observe(x.(gojq.JQValue).JQValueToGoJQ())
		if val.K != kNum || val.IsF {
			return &Val{K: kOther, Why: "decode value leaf is not an integer"}
		}
		return &Val{K: kDV, Bits: bits, Start: int(dv.InnerRange().Start), Unit: 8, N: val.N}
	}
	return &Val{K: kOther, Why: fmt.Sprintf("%T", v)}
}

func readBits(v any) (string, error) {
	br, err := interp.ToBitReader(v)
	if err != nil {
		return "", err
	}
	n, err := bitiox.Len(br)
	if err != nil {
		return "", err
	}
	if n == 0 {
		return "", nil
	}
	buf := make([]byte, (n+7)/8)
	got, err := bitio.ReadAtFull(br, buf, n, 0)
	if err != nil {
		return "", err
	}
	if got != n {
		return "", fmt.Errorf("short read %d of %d bits", got, n)
	}
	// a read defines every bit it returns: the same read into a destination that held
	// ones before must give the same bits (a reader that leaves part of the destination
	// untouched shows whatever a consumer's reused buffer held)
	dirty := make([]byte, (n+7)/8)
	for i := range dirty {
		dirty[i] = 0xff
	}
	if got2, err := bitio.ReadAtFull(br, dirty, n, 0); err != nil || got2 != n {
		return "", fmt.Errorf("second read of the same %d bits failed: %d, %v", n, got2, err)
	}
	for i := int64(0); i < n; i++ {
		if (buf[i/8]>>(7-uint(i%8)))&1 != (dirty[i/8]>>(7-uint(i%8)))&1 {
			return "", fmt.Errorf("bit %d of %d depends on what the destination buffer held before the read (zeroed: %x, ones: %x)", i, n, buf[:min(len(buf), 8)], dirty[:min(len(dirty), 8)])
		}
	}
	var sb strings.Builder
	sb.Grow(int(n))
	for i := int64(0); i < n; i++ {
		sb.WriteByte('0' + (buf[i/8]>>(7-uint(i%8)))&1)
	}
	return sb.String(), nil
}

// diff names what differs between reference and observation (for signatures).
func diff(ref, got *Val) string {
	if ref.K != got.K {
		gk := "other"
		if got.K != kOther {
			gk = got.K.String()
		}
		return "kind:" + ref.K.String() + "-vs-" + gk
	}
	switch ref.K {
	case kBin:
		var d []string
		if ref.Unit != got.Unit {
			d = append(d, "unit")
		}
		if ref.Start != got.Start {
			d = append(d, "start")
		}
		if len(ref.Bits) != len(got.Bits) {
			d = append(d, "bitlen")
		} else if ref.Bits != got.Bits {
			d = append(d, "bits")
		}
		return "binary:" + strings.Join(d, "+")
	case kArr:
		if len(ref.A) != len(got.A) {
			return "array:length"
		}
		for i := range ref.A {
			if !equal(ref.A[i], got.A[i]) {
				return "array:" + diff(ref.A[i], got.A[i])
			}
		}
	}
	return ref.K.String() + ":value"
}
