package c19

// Multi-section pcapng files. A pcapng file is a sequence of sections, each with its
// own interface list (interface ids are local to a section) and byte order. Two
// sections with every pair of link types, each carrying its own conversation; section
// lengths given explicitly and left unspecified (-1); both byte orders incl. mixed.
// Every section's connections are judged against the reference model of its own
// packets.

import (
	"context"
	"encoding/binary"
	"fmt"

	"github.com/wader/fq/internal/verif/core"
	"github.com/wader/fq/pkg/bitio"
	"github.com/wader/fq/pkg/decode"
)

// SecCase is one replayable multi-section file.
type SecCase struct {
	Kind     string `json:"kind"` // "sections"
	Links    []int  `json:"links"`
	BE       []bool `json:"big_endian"`
	Explicit bool   `json:"explicit_section_length"`
	Lens     []int  `json:"payload_lens"`
	ExtraIf  bool   `json:"first_section_has_two_interfaces"`
}

func pcapngSection(bo binary.ByteOrder, links []int, pktIf int, frames [][]byte, explicit bool) []byte {
	u32 := func(b []byte, v uint32) []byte { var t [4]byte; bo.PutUint32(t[:], v); return append(b, t[:]...) }
	u16 := func(b []byte, v uint16) []byte { var t [2]byte; bo.PutUint16(t[:], v); return append(b, t[:]...) }
	var body []byte
	for _, link := range links {
		body = u32(body, 1)
		body = u32(body, 20)
		body = u16(body, uint16(link))
		body = u16(body, 0)
		body = u32(body, 262144)
		body = u32(body, 20)
	}
	for i, f := range frames {
		pad := (4 - len(f)%4) % 4
		total := uint32(32 + len(f) + pad)
		body = u32(body, 6)
		body = u32(body, total)
		body = u32(body, uint32(pktIf))
		body = u32(body, 0x0005f5e1)
		body = u32(body, uint32(i)*1000)
		body = u32(body, uint32(len(f)))
		body = u32(body, uint32(len(f)))
		body = append(body, f...)
		body = append(body, make([]byte, pad)...)
		body = u32(body, total)
	}
	var out []byte
	out = u32(out, 0x0a0d0d0a)
	out = u32(out, 28)
	out = u32(out, 0x1a2b3c4d)
	out = u16(out, 1)
	out = u16(out, 0)
	if explicit {
		// 64 bit section length in the section's byte order
		var t [8]byte
		bo.PutUint64(t[:], uint64(len(body)))
		out = append(out, t[:]...)
	} else {
		out = u32(out, 0xffffffff)
		out = u32(out, 0xffffffff)
	}
	out = u32(out, 28)
	return append(out, body...)
}

func secSpecs(c SecCase, i int) ([]ConnSpec, []Pkt) {
	specs := []ConnSpec{{N: [2]int{c.Lens[i], 1}, HS: true, FIN: true}}
	segs := [][]int{{c.Lens[i]}, {1}}
	order := []int{0, 1}
	return specs, baseHistory(specs, segs, order)
}

func buildSections(c SecCase) []byte {
	var out []byte
	for i := range c.Links {
		specs, ps := secSpecs(c, i)
		bo := binary.ByteOrder(binary.LittleEndian)
		if c.BE[i] {
			bo = binary.BigEndian
		}
		frames := make([][]byte, len(ps))
		for k, p := range ps {
			frames[k] = frame(c.Links[i], c.BE[i], p.Dir == 0, ipBytes(p, specs))
		}
		links, pktIf := []int{c.Links[i]}, 0
		if i == 0 && c.ExtraIf {
			// two interfaces in the first section, packets on the second one: a later section's
			// interface 0 must not be looked up in this list
			links, pktIf = []int{c.Links[(i+1)%len(c.Links)], c.Links[i]}, 1
		}
		out = append(out, pcapngSection(bo, links, pktIf, frames, c.Explicit)...)
	}
	return out
}

// observeSections returns one observation per section of a pcapng decode.
func observeSections(data []byte) (obs []Observation, errText string) {
	pv, stack := core.Protect(func() {
		v, _, err := decode.Decode(context.Background(), bitio.NewBitReader(data, -1), group("pcapng"), decode.Options{IsRoot: true, FillGaps: true})
		if v == nil {
			errText = fmt.Sprintf("decode failed: %v", err)
			return
		}
		if v.Err != nil {
			errText = "decode error: " + v.Err.Error()
			return
		}
		for _, sec := range children(v) {
			var ob Observation
			tc := child(sec, "tcp_connections")
			if tc == nil {
				ob.Err = "tcp_connections missing"
				obs = append(obs, ob)
				continue
			}
			for _, c := range children(tc) {
				var cv ConnView
				var err error
				if cv.Client, err = dirViewOf(child(c, "client")); err != nil {
					ob.Err = err.Error()
					break
				}
				if cv.Server, err = dirViewOf(child(c, "server")); err != nil {
					ob.Err = err.Error()
					break
				}
				ob.Conns = append(ob.Conns, cv)
			}
			obs = append(obs, ob)
		}
	})
	if pv != nil {
		errText = "panic: " + core.PanicString(pv) + " at " + core.PanicSite(stack)
	}
	return
}

func judgeSections(c SecCase, info map[string]int64) (sig, msg string) {
	data := buildSections(c)
	obs, errText := observeSections(data)
	if errText != "" {
		return "sections:decode", errText
	}
	if len(obs) != len(c.Links) {
		kind := "explicit"
		if !c.Explicit {
			kind = "unspecified"
		}
		return "sections:count:" + kind + "-length", fmt.Sprintf("the file has %d sections, fq reports %d", len(c.Links), len(obs))
	}
	for i := range c.Links {
		specs, ps := secSpecs(c, i)
		ex := reference(ps, specs)
		if ms := compare(ex, obs[i], info); len(ms) > 0 {
			return fmt.Sprintf("sections:section%d:%s", i, ms[0].class), fmt.Sprintf("section %d (link %s): %s", i, linkNames[c.Links[i]], ms[0].what)
		}
	}
	return "", ""
}

func sectionCases() []SecCase {
	var out []SecCase
	for _, a := range allLinks {
		for _, b := range allLinks {
			for _, explicit := range []bool{true, false} {
				for _, be := range [][]bool{{false, false}, {true, true}, {false, true}} {
					for _, extra := range []bool{false, true} {
						out = append(out, SecCase{Kind: "sections", Links: []int{a, b}, BE: be, Explicit: explicit, Lens: []int{2, 3}, ExtraIf: extra})
					}
				}
			}
		}
	}
	// three sections
	out = append(out, SecCase{Kind: "sections", Links: []int{linkEthernet, linkRaw, linkSLL}, BE: []bool{false, false, false}, Explicit: true, Lens: []int{1, 2, 3}})
	return out
}

func multiSections(r *core.Run, info map[string]int64) {
	cs := sectionCases()
	for i, c := range cs {
		if !r.Mine(int64(i) + 1<<50) {
			continue
		}
		if r.Expired() {
			r.NotExhaustive("deadline during the multi-section enumeration")
			return
		}
		r.Eval(1)
		r.AddTraces(1)
		r.AddTransitions(int64(len(c.Links)))
		if c.Links[0] != c.Links[1] {
			r.Nontrivial(fmt.Sprintf("sections:%v:%v:%v:%v", c.Links, c.BE, c.Explicit, c.ExtraIf))
		}
		if sig, msg := judgeSections(c, info); sig != "" {
			r.Violate(sig, fmt.Sprintf("pcapng file of %d sections (links %v, big endian %v, explicit section length %v, two interfaces in the first section %v): %s", len(c.Links), c.Links, c.BE, c.Explicit, c.ExtraIf, msg), c)
		}
	}
	r.Count("multi_section_files", int64(len(cs)))
	r.Section("pcapng-sections")
}
