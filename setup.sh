#!/bin/sh
# MANIFEST.setup_cmd: build everything from files on disk only (offline).
set -e
cd "$(dirname "$0")"
mkdir -p bin .build .cache evidence replays
export GOFLAGS=-mod=mod GOPROXY=off GOSUMDB=off GOTOOLCHAIN=local
ids=$(python3 -c "import json;print(' '.join(c['property_id'] for c in json.load(open('MANIFEST.json'))['checks']))")
# warm the build cache with the first one, then build the rest in parallel
first=1
for id in $ids; do
  if [ $first = 1 ]; then ./check "$id" --build-only; first=0; else ./check "$id" --build-only & fi
done
wait
# free running race detector builds (checks whose verif.json asks for the supplement)
for id in $ids; do
  d=src/$(echo $id | tr A-Z a-z)
  if grep -q '"race_supplement": *true' $d/verif.json 2>/dev/null; then ./check "$id" --race --build-only || echo "race build of $id failed (the check runs without the supplement)"; fi
done
echo setup done
