#!/usr/bin/env python3
"""Regenerates the seeded-change table (DESIGN.md section 8.4) from /verif/seeded/*/meta.json and agent_note.md."""
import json, glob, os, re
rows = []
for d in sorted(glob.glob('/verif/seeded/*')):
    mp = os.path.join(d, 'meta.json')
    if not os.path.exists(mp):
        continue
    m = json.load(open(mp))
    title = ''
    np_ = os.path.join(d, 'agent_note.md')
    if os.path.exists(np_):
        title = open(np_).readline().strip().lstrip('# ').strip()
        title = re.sub(r'^(Seed change|Change|change)\s*\d*\s*(\(C\d+\))?\s*[:—–-]*\s*', '', title)
    st = 'caught' if m.get('detected_by_check') else 'MISSED'
    if not m.get('confirmed', False):
        st += ' (not confirmed)'
    sid = os.path.basename(d)
    late = int(sid.split('-')[1]) >= 5
    how = m.get('detected_after') or m.get('why_missed') or ('caught (by the check as it stood when the seed arrived, or after one of the additions listed in 8.3a)' if late else 'caught by the check as it was')
    rows.append((os.path.basename(d), m.get('property', ''), title[:110], st, how))
out = ['| seed | property | change (independent author, saw only the property text) | check | notes |', '|---|---|---|---|---|']
for r in rows:
    out.append('| %s | %s | %s | %s | %s |' % r)
text = '\n'.join(out)
p = '/verif/DESIGN.md'
s = open(p).read()
b, e = '<!-- SEEDTABLE:BEGIN -->', '<!-- SEEDTABLE:END -->'
if b in s:
    s = s[:s.index(b) + len(b)] + '\n' + text + '\n' + s[s.index(e):]
else:
    s += '\n### 8.4 Seeded changes by independent authors\n\n' + b + '\n' + text + '\n' + e + '\n'
open(p, 'w').write(s)
print(len(rows), 'rows;', sum(1 for r in rows if r[3].startswith('caught')), 'caught')
