package c10

import (
	"bytes"
	"encoding/json"
	"fmt"
	"math"
	"math/big"
	"strconv"
	"strings"

	"github.com/wader/fq/internal/verif/core"
	"github.com/wader/fq/internal/verif/fqrun"
)

// ---- JSON side: numbers of any magnitude are printed exactly ------------------

type poolNum struct {
	lit string // JSON (and jq) literal
	i   *big.Int
	f   float64
}

func mustInt(s string) *big.Int {
	n, ok := new(big.Int).SetString(s, 10)
	if !ok {
		panic(s)
	}
	return n
}

func pow(b, e int64) *big.Int { return new(big.Int).Exp(big.NewInt(b), big.NewInt(e), nil) }

var pool = func() []poolNum {
	var p []poolNum
	addI := func(n *big.Int) { p = append(p, poolNum{lit: n.String(), i: n}) }
	addF := func(lit string) {
		f, err := strconv.ParseFloat(lit, 64)
		if err != nil {
			panic(err)
		}
		p = append(p, poolNum{lit: lit, f: f})
	}
	one := big.NewInt(1)
	addI(big.NewInt(0))
	p = append(p, poolNum{lit: "-0", i: big.NewInt(0)})
	addI(big.NewInt(1))
	addI(big.NewInt(-1))
	addI(new(big.Int).Sub(pow(2, 53), one))
	addI(new(big.Int).Add(pow(2, 53), one))
	addI(pow(2, 63))
	addI(new(big.Int).Neg(pow(2, 63)))
	addI(new(big.Int).Sub(pow(2, 64), one))
	addI(pow(2, 64))
	addI(pow(10, 30))
	addI(new(big.Int).Neg(pow(10, 30)))
	// both signs of the values around every machine word boundary (an encoder taking a
	// word sized fast path shows at exactly these)
	have := map[string]bool{}
	for _, q := range p {
		have[q.lit] = true
	}
	for _, k := range []int64{31, 32, 52, 53, 62, 63, 64, 65, 127, 128} {
		for _, d := range []int64{-1, 0, 1} {
			n := new(big.Int).Add(pow(2, k), big.NewInt(d))
			for _, v := range []*big.Int{n, new(big.Int).Neg(n)} {
				if !have[v.String()] {
					have[v.String()] = true
					addI(v)
				}
			}
		}
	}
	// floats: both signs of ordinary values and of the edges of the float64 range (largest
	// finite, smallest normal, smallest subnormal, the switch points of the notation)
	for _, l := range []string{"1e-7", "1e21", "1.5e300", "5e-324", "1.7976931348623157e308", "2.2250738585072014e-308",
		"2.225073858507201e-308", "0.1", "1.5", "123456.789", "1e20", "1e22", "9.999999999999999e-7", "0.000001", "3.141592653589793"} {
		addF(l)
		addF("-" + l)
	}
	return p
}()

// jdoc is a document: JSON text plus the expected structure where a number leaf is
// the pool index (int).
type jdoc struct {
	text string
	want any
}

func jdocs() []jdoc {
	var ds []jdoc
	for k, p := range pool {
		l := p.lit
		ds = append(ds,
			jdoc{l, k},
			jdoc{"[" + l + "]", []any{k}},
			jdoc{`{"a":` + l + `}`, map[string]any{"a": k}},
			jdoc{`{"a":[` + l + `,{"b":` + l + `}],"c":` + l + `}`, map[string]any{"a": []any{k, map[string]any{"b": k}}, "c": k}},
		)
	}
	var at, ot []string
	var aw []any
	ow := map[string]any{}
	for k, p := range pool {
		at = append(at, p.lit)
		aw = append(aw, k)
		key := fmt.Sprintf("k%02d", k)
		ot = append(ot, `"`+key+`":`+p.lit)
		ow[key] = k
	}
	ds = append(ds, jdoc{"[" + strings.Join(at, ",") + "]", aw}, jdoc{"{" + strings.Join(ot, ",") + "}", ow})
	// strings and object keys: every control character, the characters JSON and
	// JavaScript escape, the edges of the encoding forms (1/2/3/4 byte UTF-8, surrogate
	// range neighbours, noncharacters, BOM, replacement character)
	var runes []rune
	for c := rune(0); c < 0x20; c++ {
		runes = append(runes, c)
	}
	runes = append(runes, '"', '\\', '/', '<', '>', '&', '\'', 0x7f, 0x80, 0xa0, 0xff, 0x7ff, 0x800, 0x2028, 0x2029, 0xd7ff, 0xe000, 0xfeff, 0xfffd, 0xfffe, 0xffff, 0x10000, 0x1f600, 0x10ffff)
	lit := func(s string) string { b, _ := json.Marshal(s); return string(b) }
	var all strings.Builder
	for _, c := range runes {
		a, b := "a"+string(c)+"b", string(c)
		all.WriteString(b)
		ds = append(ds,
			jdoc{lit(a), a},
			jdoc{"[" + lit(b) + "," + lit(a) + "]", []any{b, a}},
			jdoc{"{" + lit(a) + ":" + lit(b) + "}", map[string]any{a: b}},
		)
	}
	ds = append(ds, jdoc{lit(all.String()), all.String()})
	return ds
}

// sameNumber: tok (a JSON number token) is exactly pool value p.
func sameNumber(tok string, p poolNum) bool {
	if p.i != nil {
		r, ok := new(big.Rat).SetString(tok)
		return ok && r.IsInt() && r.Num().Cmp(p.i) == 0
	}
	f, err := strconv.ParseFloat(tok, 64)
	if err != nil {
		return false
	}
	return f == p.f && (f != 0 || p.f == 0) && !math.IsInf(f, 0)
}

func sameJSON(got, want any, path string) string {
	switch w := want.(type) {
	case string:
		g, ok := got.(string)
		if !ok {
			return fmt.Sprintf("%s: expected the string %q, got %T %v", path, w, got, got)
		}
		if g != w {
			return fmt.Sprintf("%s: the string %q is printed as a JSON string that reads %q", path, w, g)
		}
	case int:
		n, ok := got.(json.Number)
		if !ok {
			return fmt.Sprintf("%s: expected the number %s, got %T %v", path, pool[w].lit, got, got)
		}
		if !sameNumber(n.String(), pool[w]) {
			return fmt.Sprintf("%s: the number %s is printed as %s", path, pool[w].lit, n.String())
		}
	case []any:
		g, ok := got.([]any)
		if !ok || len(g) != len(w) {
			return fmt.Sprintf("%s: expected an array of %d, got %v", path, len(w), got)
		}
		for i := range w {
			if m := sameJSON(g[i], w[i], fmt.Sprintf("%s[%d]", path, i)); m != "" {
				return m
			}
		}
	case map[string]any:
		g, ok := got.(map[string]any)
		if !ok || len(g) != len(w) {
			return fmt.Sprintf("%s: expected an object of %d keys, got %v", path, len(w), got)
		}
		for k, wv := range w {
			gv, ok := g[k]
			if !ok {
				return fmt.Sprintf("%s: key %q missing", path, k)
			}
			if m := sameJSON(gv, wv, path+"."+k); m != "" {
				return m
			}
		}
	}
	return ""
}

func nonFiniteDocs() []jdoc {
	hi, lo := poolIndex("1.7976931348623157e308"), poolIndex("-1.7976931348623157e308")
	return []jdoc{
		{"infinite", hi}, {"-infinite", lo}, {"[infinite, -infinite]", []any{hi, lo}},
		{"{a: -infinite, b: infinite}", map[string]any{"a": lo, "b": hi}},
		{"[-infinite] | .[0]", lo}, {"(-1.7976931348623157e308 * 10)", lo}, {"(1.7976931348623157e308 * 10)", hi},
	}
}

// JSONCase is one replayable JSON printing case (a whole channel run).
type JSONCase struct {
	Kind    string   `json:"kind"` // "json"
	Channel string   `json:"channel"`
	Args    []string `json:"args"`
}

type jchan struct {
	name  string
	flags bool // compact and colour flags apply
	mk    func(ds []jdoc) (args []string, files map[string][]byte)
	docs  func() []jdoc // nil: jdocs()
}

// A decode tree with 64 bit fields: u64 2^64-1, s64 -2^63, u64 2^53+1 (pool indices).
const wideProg = `[{"k":"u","n":"a","w":64},{"k":"s","n":"b","w":64},{"k":"u","n":"c","w":64}]`
const wideBytes = `[255,255,255,255,255,255,255,255, 128,0,0,0,0,0,0,0, 0,32,0,0,0,0,0,1]`

func poolIndex(lit string) int {
	for i, p := range pool {
		if p.lit == lit {
			return i
		}
	}
	panic(lit)
}

func wideDocs() []jdoc {
	return []jdoc{{"decode tree {a: u64 0xffffffffffffffff, b: s64 0x8000000000000000, c: u64 0x0020000000000001}", map[string]any{
		"a": poolIndex("18446744073709551615"), "b": poolIndex("-9223372036854775808"), "c": poolIndex("9007199254740993")}}}
}

func (c jchan) documents() []jdoc {
	if c.docs != nil {
		return c.docs()
	}
	return jdocs()
}

func jqString(s string) string { b, _ := json.Marshal(s); return string(b) }

func jchans() []jchan {
	fileArgs := func(ds []jdoc) ([]string, map[string][]byte) {
		var names []string
		files := map[string][]byte{}
		for i, d := range ds {
			n := fmt.Sprintf("d%03d.json", i)
			names = append(names, n)
			files[n] = []byte(d.text)
		}
		return names, files
	}
	lits := func(ds []jdoc) string {
		var l []string
		for _, d := range ds {
			l = append(l, "("+d.text+")")
		}
		return strings.Join(l, ", ")
	}
	strs := func(ds []jdoc) string {
		var l []string
		for _, d := range ds {
			l = append(l, jqString(d.text))
		}
		return "(" + strings.Join(l, ", ") + ")"
	}
	return []jchan{
		{"file:-V", true, func(ds []jdoc) ([]string, map[string][]byte) {
			n, f := fileArgs(ds)
			return append([]string{"-d", "json", "-V", "."}, n...), f
		}, nil},
		{"file:tovalue", true, func(ds []jdoc) ([]string, map[string][]byte) {
			n, f := fileArgs(ds)
			return append([]string{"-d", "json", "tovalue"}, n...), f
		}, nil},
		{"file:-V-nested", true, func(ds []jdoc) ([]string, map[string][]byte) {
			n, f := fileArgs(ds)
			return append([]string{"-d", "json", "-V", "[.]|.[0]"}, n...), f
		}, nil},
		{"file:tojson", false, func(ds []jdoc) ([]string, map[string][]byte) {
			n, f := fileArgs(ds)
			return append([]string{"-d", "json", "-r", "tojson"}, n...), f
		}, nil},
		{"file:tovalue|tojson", false, func(ds []jdoc) ([]string, map[string][]byte) {
			n, f := fileArgs(ds)
			return append([]string{"-d", "json", "-r", "tovalue | tojson"}, n...), f
		}, nil},
		{"literal", true, func(ds []jdoc) ([]string, map[string][]byte) { return []string{"-n", lits(ds)}, nil }, nil},
		{"literal|tojson", false, func(ds []jdoc) ([]string, map[string][]byte) {
			return []string{"-nr", "(" + lits(ds) + ") | tojson"}, nil
		}, nil},
		{"literal|tojson|fromjson", true, func(ds []jdoc) ([]string, map[string][]byte) {
			return []string{"-n", "(" + lits(ds) + ") | tojson | fromjson"}, nil
		}, nil},
		{"string|fromjson", true, func(ds []jdoc) ([]string, map[string][]byte) {
			return []string{"-n", strs(ds) + " | fromjson"}, nil
		}, nil},
		{"string|fromjson:-V", true, func(ds []jdoc) ([]string, map[string][]byte) {
			return []string{"-nV", strs(ds) + " | fromjson"}, nil
		}, nil},
		{"string|fromjson|tojson", false, func(ds []jdoc) ([]string, map[string][]byte) {
			return []string{"-nr", strs(ds) + " | fromjson | tojson"}, nil
		}, nil},
		{"string|fromjson|d", true, func(ds []jdoc) ([]string, map[string][]byte) {
			return []string{"-n", strs(ds) + " | fromjson | d"}, nil
		}, nil},
		// not finite: jq prints an infinity as the largest finite float64 of the same sign
		{"nonfinite:literal", true, func(ds []jdoc) ([]string, map[string][]byte) { return []string{"-n", lits(ds)}, nil }, nonFiniteDocs},
		{"nonfinite:tojson", false, func(ds []jdoc) ([]string, map[string][]byte) {
			return []string{"-nr", "(" + lits(ds) + ") | tojson"}, nil
		}, nonFiniteDocs},
		{"nonfinite:tojson|fromjson", true, func(ds []jdoc) ([]string, map[string][]byte) {
			return []string{"-n", "(" + lits(ds) + ") | tojson | fromjson"}, nil
		}, nonFiniteDocs},
		{"decode-tree:-V", true, func(ds []jdoc) ([]string, map[string][]byte) {
			return []string{"-n", "-V", wideBytes + ` | tobytes | decode("vdsl"; {prog: ` + jqString(wideProg) + `})`}, nil
		}, wideDocs},
		{"decode-tree:tovalue", true, func(ds []jdoc) ([]string, map[string][]byte) {
			return []string{"-n", wideBytes + ` | tobytes | decode("vdsl"; {prog: ` + jqString(wideProg) + `}) | tovalue`}, nil
		}, wideDocs},
		{"decode-tree:tojson", false, func(ds []jdoc) ([]string, map[string][]byte) {
			return []string{"-nr", wideBytes + ` | tobytes | decode("vdsl"; {prog: ` + jqString(wideProg) + `}) | tojson`}, nil
		}, wideDocs},
		{"decode-tree:fields:-V", true, func(ds []jdoc) ([]string, map[string][]byte) {
			return []string{"-n", "-V", wideBytes + ` | tobytes | decode("vdsl"; {prog: ` + jqString(wideProg) + `}) | {a, b, c: [.c]}`}, nil
		}, func() []jdoc {
			d := wideDocs()
			m := d[0].want.(map[string]any)
			return []jdoc{{d[0].text + " | {a, b, c: [.c]}", map[string]any{"a": m["a"], "b": m["b"], "c": []any{m["c"]}}}}
		}},
	}
}

// judgeJSON parses the output stream with a big-number decoder and compares.
func judgeJSON(stdout []byte, ds []jdoc, colour bool) (sig, msg string) {
	s, ok := stripANSI(string(stdout))
	if !ok {
		return "json:stray-escape", "output holds an escape byte outside a CSI sequence"
	}
	if !colour && s != string(stdout) {
		return "json:colour-when-off", "colour off but ANSI sequences in the output"
	}
	dec := json.NewDecoder(bytes.NewReader([]byte(s)))
	dec.UseNumber()
	for i, d := range ds {
		var v any
		if err := dec.Decode(&v); err != nil {
			return "json:invalid", fmt.Sprintf("output value %d (document %s) is not valid JSON: %v", i, d.text, err)
		}
		if m := sameJSON(v, d.want, "."); m != "" {
			sig := "json:number-not-exact"
			if strings.Contains(m, "the string ") {
				sig = "json:string-not-equal"
			}
			return sig, fmt.Sprintf("document %s: %s", d.text, m)
		}
	}
	var extra any
	if err := dec.Decode(&extra); err == nil {
		return "json:extra-output", fmt.Sprintf("more output values than documents: %v", extra)
	}
	return "", ""
}

func runJSONCase(args []string, files map[string][]byte) fqrun.Result {
	return fqrun.Run(fqrun.Opts{Args: args, Files: files, StdinIsTerminal: true})
}

func jsonFlagSets() [][]string {
	return [][]string{{"-M"}, {"-M", "-c"}, {"-C"}, {"-C", "-c"}}
}

func runJSON(r *core.Run, unit *int64) {
	r.Extra("json_documents", len(jdocs()))
	r.Extra("json_number_pool", len(pool))
	for _, ch := range jchans() {
		ds := ch.documents()
		fsets := [][]string{nil}
		if ch.flags {
			fsets = jsonFlagSets()
		}
		for _, fl := range fsets {
			idx := *unit
			*unit++
			if !r.Mine(idx) {
				continue
			}
			if r.Expired() {
				r.NotExhaustive("deadline during the JSON section")
				return
			}
			args, files := ch.mk(ds)
			args = append(append([]string{}, fl...), args...)
			r.Case(idx, "json "+ch.name+" "+strings.Join(fl, " "))
			res := runJSONCase(args, files)
			c := JSONCase{Kind: "json", Channel: ch.name, Args: args}
			r.Eval(int64(len(ds)))
			r.Count("json_values_printed", int64(len(ds)))
			if res.Panic != nil || res.Exit != 0 {
				r.Violate("json:run-failed:"+ch.name, fmt.Sprintf("fq %s: exit %d panic %v stderr %q", strings.Join(fl, " ")+" "+ch.name, res.Exit, res.Panic, string(res.Stderr)), c)
				continue
			}
			colour := len(fl) > 0 && fl[0] == "-C"
			if sig, msg := judgeJSON(res.Stdout, ds, colour); sig != "" {
				r.Violate(sig, fmt.Sprintf("channel %s flags %v: %s", ch.name, fl, msg), c)
			}
			r.Nontrivial("json|" + ch.name + "|" + strings.Join(fl, ""))
			if ch.name == "file:-V" && len(fl) == 2 {
				r.Sample(map[string]any{"kind": "json", "channel": ch.name, "flags": fl, "documents": len(ds), "first_output_bytes": string(res.Stdout[:min(len(res.Stdout), 120)])})
			}
		}
	}
	r.Section("json")
}

func replayJSON(c JSONCase) bool {
	ds := jdocs()
	var files map[string][]byte
	for _, ch := range jchans() {
		if ch.name == c.Channel {
			ds = ch.documents()
			_, files = ch.mk(ds)
		}
	}
	res := runJSONCase(c.Args, files)
	out := string(res.Stdout)
	if len(out) > 3000 {
		out = out[:3000] + "..."
	}
	fmt.Printf("  fq %q (documents d000.json.. = the pool inside scalars, arrays, objects)\n  exit %d stderr %q\n  stdout: %s\n", c.Args, res.Exit, string(res.Stderr), out)
	if res.Exit != 0 || res.Panic != nil {
		return true
	}
	colour := len(c.Args) > 0 && c.Args[0] == "-C"
	sig, msg := judgeJSON(res.Stdout, ds, colour)
	if sig != "" {
		fmt.Printf("  oracle: %s: %s\n", sig, msg)
		return true
	}
	return false
}
