// Package c10 decides property C10: what fq displays is true. Hex pairs, ASCII
// characters, row addresses, column labels, verbose ranges and sizes of hexdumps
// and tree dumps are parsed back and compared with the displayed buffer; JSON
// output is parsed with a big-number decoder and compared with the value.
package c10

import (
	"encoding/json"
	"fmt"
	"os"
	"runtime/pprof"
	"syscall"
	"time"

	"github.com/wader/fq/internal/verif/core"
)

var Check = core.Check{
	ID:     "C10",
	Level:  "exploration",
	Shards: 16,
	Run:    run,
	Replay: replay,
}

func run(r *core.Run) {
	only := os.Getenv("VERIF_ONLY")
	var unit int64
	x := newSess()
	t0 := time.Now()
	if p := os.Getenv("C10_PROF"); p != "" && r.ShardIdx == 0 {
		f, _ := os.Create(p)
		_ = pprof.StartCPUProfile(f)
		defer pprof.StopCPUProfile()
	}
	r.Rule("hexdump: a (binary, line_bytes, display_bytes) whose value starts unaligned (bit or mid-row) or spans >= 2 rows; trees: a displayed (program, value) whose display lists >= 3 values or crosses into a nested buffer; json: a (channel, flags) run over all documents")
	r.Assume("the decode tree (ranges, nested buffers) and binary slicing are taken as given: they are the subjects of C03/C04/C09; C10 compares what is displayed with them")
	r.Assume("d/dd/dv/ddv/hd on the bulk of the cases are executed as Display(value, options(<documented defaults of the function> + opts)) because converting the option object costs 20x the dump; every option configuration is additionally run through the real jq functions and must print byte-identical output")
	if only == "" || only == "digits" {
		runDigits(r, &unit)
		runWide(r, x, &unit)
	}
	if only == "" || only == "json" {
		runJSON(r, &unit)
		r.Logf("json section done, cpu %.1fs", cpuSeconds())
	}
	var te *treeEnv
	if only == "" || only == "tree" {
		te = newTreeEnv(r, x, treeLBsQuick)
		r.Logf("tree options prepared (%d configurations), cpu %.1fs", len(te.cfgs), cpuSeconds())
		runTreeReal(r, te, &unit)
		r.Logf("tree displays through jq functions done, cpu %.1fs", cpuSeconds())
	}
	if only == "" || only == "tree" {
		runArrayTrees(r, te, &unit)
		runTrees(r, te, &unit, 1, 2, core.Pick(r, dslInputs[:1], dslInputs), "dsl_trees", selAll)
		r.Logf("tree displays up to 2 ops done in %.1fs wall, cpu %.1fs", time.Since(t0).Seconds(), cpuSeconds())
		if r.Thorough() {
			runTrees(r, te, &unit, 3, 3, dslInputs[:1], "dsl_trees_3ops", selReduced)
			r.Logf("tree displays of 3 op programs done in %.1fs wall, cpu %.1fs", time.Since(t0).Seconds(), cpuSeconds())
		}
	}
	// last: in the thorough tier this is the full option product on every binary
	if only == "" || only == "hd" {
		runHD(r, x, &unit)
		r.Logf("hexdump section done in %.1fs wall, %.1fs cpu", time.Since(t0).Seconds(), cpuSeconds())
	}
}

var treeLBsQuick = []int{1, 2, 3, 4, 5, 7, 8, 16, 64} // also used by the thorough tier

func cpuSeconds() float64 {
	var ru syscall.Rusage
	_ = syscall.Getrusage(syscall.RUSAGE_SELF, &ru)
	return float64(ru.Utime.Sec+ru.Stime.Sec) + float64(ru.Utime.Usec+ru.Stime.Usec)/1e6
}

func replay(r *core.Run, raw json.RawMessage) bool {
	var k struct {
		Kind string `json:"kind"`
	}
	_ = json.Unmarshal(raw, &k)
	switch k.Kind {
	case "digits":
		var c DigitsCase
		if err := json.Unmarshal(raw, &c); err != nil {
			fmt.Println(err)
			return false
		}
		return replayDigits(c)
	case "json":
		var c JSONCase
		if err := json.Unmarshal(raw, &c); err != nil {
			fmt.Println(err)
			return false
		}
		return replayJSON(c)
	case "tree":
		var c TreeCase
		if err := json.Unmarshal(raw, &c); err != nil {
			fmt.Println(err)
			return false
		}
		return replayTree(c)
	case "hd":
		var c HDCase
		if err := json.Unmarshal(raw, &c); err != nil {
			fmt.Println(err)
			return false
		}
		return replayHD(c)
	}
	fmt.Println("unknown case kind", k.Kind)
	return false
}

func replayHD(c HDCase) bool {
	x := newSess()
	bi := 0
	if c.Fn == "" {
		c.Fn = "hd"
	}
	f := 0
	if c.Fn == "hexdump" {
		f = 1
	}
	bad := false
	fmt.Printf("  buffer (%d bytes): %x\n  program: $buffer | tobits | .[%d:%d] | %s(%s)\n", c.Buf, mkBuf(c.Buf), c.A, c.B, c.Fn, c.Opt)
	_, err := x.eval(map[string]any{"bufs": bufsJQ([]int{c.Buf}), "cases": []any{[]any{bi, int(c.A), int(c.B), f, c.Opt.JQ()}}}, hdProg, func(v any, printed string) {
		if _, ok := v.(int); !ok {
			fmt.Printf("  fq error: %v\n", v)
			bad = true
			return
		}
		fmt.Printf("  fq printed:\n%s", printed)
		for _, f := range judgeHD(c, printed) {
			fmt.Printf("  oracle: %s: %s\n", f.sig, f.msg)
			bad = true
		}
	})
	if err != nil {
		fmt.Println("  evaluation error:", err)
		return true
	}
	return bad
}

func replayTree(c TreeCase) bool {
	x := newSess()
	var in []byte
	fmt.Sscanf(c.Input, "%x", &in)
	trees, err := decodeProgs(x, in, []string{c.Prog})
	if err != nil || trees[0] == nil {
		fmt.Println("  decode failed:", err)
		return false
	}
	t := trees[0]
	ni := -1
	for i, n := range t.nodes {
		if n.path == c.Path {
			ni = i
		}
	}
	if ni < 0 {
		fmt.Println("  no value at", c.Path)
		return false
	}
	fmt.Printf("  program: [%s bytes] | decode(\"vdsl\"; {prog: %q, force: true}) | %s | %s(%s)\n", c.Input, c.Prog, c.Path, c.Fn, c.Opt)
	for br, b := range t.bufs {
		fmt.Printf("  buffer of %s: %x (%d bits)\n", dslPath(br), b, t.bits[br])
	}
	fmt.Println("  values displayed (path, inner range start:len in bits, buffer nesting):")
	for _, ev := range t.expected(ni, treeCfg{fv: fnVar{c.Fn, c.Opt.DB}, o: c.Opt}.effAT()) {
		fmt.Printf("    %-12s %d:%d nesting %d\n", ev.path, ev.start, ev.n, ev.rootDepth)
	}
	bad := false
	cfg := treeCfg{fv: fnVar{c.Fn, c.Opt.DB}, o: c.Opt}
	_, err = x.eval(map[string]any{"cases": []any{[]any{t.nodes[ni].jq, c.Fn, c.Opt.JQ()}}}, treeRealProg, func(v any, printed string) {
		if _, ok := v.(int); !ok {
			fmt.Printf("  fq error: %v\n", v)
			bad = true
			return
		}
		fmt.Printf("  fq printed:\n%s", printed)
		for _, f := range judgeTree(t, ni, cfg, printed) {
			fmt.Printf("  oracle: %s: %s\n", f.sig, f.msg)
			bad = true
		}
	})
	if err != nil {
		fmt.Println("  evaluation error:", err)
		return true
	}
	return bad
}
