package c20

import (
	"context"
	"fmt"

	"github.com/wader/fq/internal/ctxstack"
	"github.com/wader/fq/internal/verif/core"
)

// SOp is an operation of the sequential alphabet.
type SOp struct {
	K string `json:"k"` // push | pushbg | finish | interrupt | stop
	H int    `json:"h,omitempty"`
}

func (o SOp) String() string {
	if o.K == "finish" {
		return fmt.Sprintf("finish(%d)", o.H)
	}
	return o.K
}

// stackModel is the reference: which evaluations exist, which are live (on the
// stack), which contexts are cancelled.
type stackModel struct {
	parent    []int // -1 background
	live      []bool
	finished  []bool
	cancelled []bool
	stack     []int // live handles bottom..top
	stopped   bool
	obs       []string // used by the schedule oracle: observations after each E op
}

func (m *stackModel) cancel(h int) {
	if m.cancelled[h] {
		return
	}
	m.cancelled[h] = true
	// context semantics: children of a cancelled parent are cancelled
	for c, p := range m.parent {
		if p == h {
			m.cancel(c)
		}
	}
}

func (m *stackModel) apply(op SOp) {
	switch op.K {
	case "push", "pushbg":
		p := -1
		if op.K == "push" && len(m.stack) > 0 {
			p = m.stack[len(m.stack)-1]
		}
		h := len(m.parent)
		m.parent = append(m.parent, p)
		m.live = append(m.live, true)
		m.finished = append(m.finished, false)
		m.cancelled = append(m.cancelled, false)
		m.stack = append(m.stack, h)
		if p >= 0 && m.cancelled[p] {
			m.cancelled[h] = true
		}
	case "finish":
		h := op.H
		if h >= len(m.parent) || m.finished[h] {
			return
		}
		m.finished[h] = true
		// finishing an evaluation ends it and every evaluation started after it that is
		// still on the stack
		idx := -1
		for i, x := range m.stack {
			if x == h {
				idx = i
			}
		}
		if idx >= 0 {
			for _, x := range m.stack[idx:] {
				m.cancel(x)
				m.live[x] = false
			}
			m.stack = m.stack[:idx]
		}
		m.cancel(h)
	case "interrupt":
		if m.stopped {
			return
		}
		if len(m.stack) > 0 {
			m.cancel(m.stack[len(m.stack)-1])
		}
	case "stop":
		if m.stopped {
			return
		}
		m.stopped = true
		for _, x := range m.stack {
			m.cancel(x)
		}
	}
}

// seqSys is the real ctxstack.Stack driven sequentially: the trigger function blocks
// on a harness channel; "interrupt" hands it one token and waits until the trigger
// goroutine has acted and is back in the trigger function.
type seqSys struct {
	st      *ctxstack.Stack
	intCh   chan struct{}
	readyCh chan struct{}
	ctxs    []context.Context
	fins    []func()
	stopped bool
}

func newSeqSys() *seqSys {
	s := &seqSys{intCh: make(chan struct{}), readyCh: make(chan struct{}, 1)}
	s.st = ctxstack.New(func(stopCh chan struct{}) {
		select {
		case s.readyCh <- struct{}{}:
		default:
		}
		select {
		case <-stopCh:
		case <-s.intCh:
		}
	})
	<-s.readyCh // trigger goroutine is waiting
	return s
}

func (s *seqSys) apply(op SOp) {
	switch op.K {
	case "push", "pushbg":
		var parent context.Context = context.Background()
		if op.K == "push" {
			// nested evaluation: parent is the innermost live evaluation's context. The
			// harness tracks "innermost live" with the reference model; here the caller
			// passes H = parent handle + 1 (0 = background)
			if op.H > 0 {
				parent = s.ctxs[op.H-1]
			}
		}
		ctx, fin := s.st.Push(parent)
		s.ctxs = append(s.ctxs, ctx)
		s.fins = append(s.fins, fin)
	case "finish":
		if op.H < len(s.fins) {
			s.fins[op.H]()
		}
	case "interrupt":
		if s.stopped {
			return
		}
		s.intCh <- struct{}{}
		<-s.readyCh // back in the trigger function: the interrupt has been handled
	case "stop":
		if s.stopped {
			return
		}
		s.stopped = true
		s.st.Stop()
	}
}

func (s *seqSys) close() {
	if !s.stopped {
		s.stopped = true
		s.st.Stop()
	}
}

// SeqCase is the replayable history.
type SeqCase struct {
	Kind string `json:"kind"`
	Ops  []SOp  `json:"ops"`
}

// runSeq replays a history on a fresh real stack and on the model; returns state key
// and the first discrepancy.
func runSeq(ops []SOp) (key uint64, bad string, pv any) {
	sys := newSeqSys()
	defer func() {
		_, _ = core.Protect(sys.close)
	}()
	m := &stackModel{}
	pv, _ = core.Protect(func() {
		for i, op := range ops {
			real := op
			if op.K == "push" {
				// resolve parent from the model's innermost live evaluation
				real.H = 0
				if len(m.stack) > 0 {
					real.H = m.stack[len(m.stack)-1] + 1
				}
			}
			sys.apply(real)
			m.apply(op)
			if bad == "" {
				for h, ctx := range sys.ctxs {
					got := ctx.Err() != nil
					if got != m.cancelled[h] {
						bad = fmt.Sprintf("after %v (step %d): evaluation %d context cancelled=%v, stack model says %v", ops[:i+1], i+1, h, got, m.cancelled[h])
						break
					}
				}
			}
		}
	})
	if pv != nil {
		return 0, bad, pv
	}
	return core.DeepHash(sys.st, fmt.Sprint(m.parent, m.live, m.finished, m.cancelled, m.stack, m.stopped)), bad, nil
}

func seqOps(nHandles int) []SOp {
	ops := []SOp{{K: "push"}, {K: "pushbg"}, {K: "interrupt"}, {K: "stop"}}
	for h := 0; h < nHandles; h++ {
		ops = append(ops, SOp{K: "finish", H: h})
	}
	return ops
}

// seqBFS: explicit-state search over push/finish/interrupt/stop histories.
func seqBFS(r *core.Run) {
	depth := core.Pick(r, 7, 9)
	maxStates := core.Pick(r, 60000, 600000)
	r.Extra("seq_depth", depth)
	k0, _, _ := runSeq(nil)
	seen := map[uint64]struct{}{k0: {}}
	type node struct {
		ops []SOp
		nh  int
	}
	frontier := []node{{nil, 0}}
	var transitions int64
	for d := 0; d < depth && len(frontier) > 0; d++ {
		var next []node
		for fi, n := range frontier {
			_ = fi
			if r.Expired() {
				r.NotExhaustive("deadline during sequential stack search")
				break
			}
			for _, op := range seqOps(n.nh) {
				hist := append(append(make([]SOp, 0, len(n.ops)+1), n.ops...), op)
				r.StepBegin("seq:"+op.K, fmt.Sprint(hist), SeqCase{Kind: "seq", Ops: hist})
				key, bad, pv := runSeq(hist)
				r.StepEnd()
				transitions++
				if pv != nil {
					r.Violate("seq:panic:"+op.K, fmt.Sprintf("history %v panicked: %v", hist, pv), SeqCase{Kind: "seq", Ops: hist})
					continue
				}
				if bad != "" {
					r.Violate("seq:wrong-cancellation:"+op.K, bad, SeqCase{Kind: "seq", Ops: hist})
					continue
				}
				if _, ok := seen[key]; !ok {
					if len(seen) >= maxStates {
						r.NotExhaustive("state cap in sequential stack search")
						continue
					}
					seen[key] = struct{}{}
					nh := n.nh
					if op.K == "push" || op.K == "pushbg" {
						nh++
					}
					next = append(next, node{hist, nh})
				}
			}
		}
		frontier = next
	}
	r.AddStates(int64(len(seen)))
	r.AddTransitions(transitions)
	r.AddTraces(transitions)
	r.Eval(transitions)
	r.Nontrivial("seq-bfs")
	if r.ShardIdx == 0 {
		r.Sample(map[string]any{"sequential_history": fmt.Sprint([]SOp{{K: "push"}, {K: "push"}, {K: "push"}, {K: "finish", H: 1}, {K: "finish", H: 2}, {K: "interrupt"}})})
	}
	r.Section("sequential-stack-bfs")
}

func lastKinds(h []SOp) string {
	// class of the history: multiset free suffix of op kinds (keeps signatures few)
	s := ""
	for _, o := range h {
		s += o.K[:2]
	}
	if len(s) > 24 {
		s = s[len(s)-24:]
	}
	return s
}
