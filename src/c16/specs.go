package c16

import (
	"math"
	"math/big"
)

type valCase struct {
	v *V
	m mode
	// trailAll: trailing data cases for every encoding; otherwise only for the
	// one-at-a-time subset of the encodings
	trailAll bool
	// fam: "" for the node-count enumeration and the grid, "order" for the element
	// order family (its own section)
	fam string
}

type spec struct {
	name   string // unique name (also VERIF_ONLY section)
	fq     string // fq format name
	binary bool
	leafOK func(*V) bool
	rootOK func(*V) bool
	arrays bool
	maps   bool
	encs   func(*V, mode) encSet
	expect func(*V) *V
	// truncOK: every proper prefix of this encoding must be a decode error
	truncOK func(v *V, e enc) bool
	// trailing data kinds applicable
	trailing bool
	opts     map[string]any
	grid     func() []*V
	custom   func(thorough bool) []valCase
	maxNodes func(thorough bool) int
}

func intIn(lo, hi *big.Int) func(*V) bool {
	return func(v *V) bool { return v.T != "int" || inRange(v.Int(), lo, hi) }
}

func binToStr(v *V) *V {
	return v.mapV(func(n *V) *V {
		if n.T == "bin" {
			return &V{T: "str", N: n.N, S: n.S, buf: n.Bytes()}
		}
		return n
	})
}

func finite(v *V) bool {
	if v.T != "flt" {
		return true
	}
	f := v.Float()
	return !math.IsInf(f, 0) && !math.IsNaN(f)
}

func isT(v *V, ts ...string) bool {
	for _, t := range ts {
		if v.T == t {
			return true
		}
	}
	return false
}

func gridArrMap(arr, mp bool, wrap func(*V) *V, minLen int) func() []*V {
	return func() []*V {
		var out []*V
		for _, n := range gridLens {
			if n < minLen {
				continue
			}
			if arr {
				out = append(out, wrap(vRepArr(n)))
			}
			if mp {
				out = append(out, wrap(vRepMap(n)))
			}
		}
		return out
	}
}

func ident(v *V) *V { return v }

func hasBigString(v *V) bool {
	big := false
	v.walk(func(n *V) {
		if (n.T == "str" || n.T == "bin") && n.N > 256 {
			big = true
		}
	})
	return big
}

// ---------------------------------------------------------------------------
// element order family: containers whose members are pairwise distinct integers in
// a non monotonic order (V.Seq), so that "gives back that value" is judged for the
// position of every element of an array and for the key of every value of a map.
// The lengths surround the points where the number of decimal digits of an index
// or the number of bytes of a counter changes (9|10, 99|100, 255|256) and the
// points where the textual and the numeric order of the indexes differ first
// (10 < 2, 100 < 11, 110 < 12); the containers stand alone and below an object
// key, inside an array, next to a second container of the same kind and two
// levels down (the nestings thin out with the length: all seven up to 21 elements,
// four up to 111, two up to 257).

var seqLens = []int{2, 3, 9, 10, 11, 12, 19, 20, 21, 99, 100, 101, 110, 111, 255, 256, 257}

type seqWrap struct {
	name string
	// forms: the container header forms of the format (and the forms of the enclosing
	// nodes, one at a time) are varied; otherwise the shortest encoding only
	forms bool
	maxN  int              // applied to the lengths up to maxN
	fn    func(x, y *V) *V // y: a second container of the same kind, one element longer
}

var seqWraps = []seqWrap{
	{"alone", true, 257, func(x, y *V) *V { return x }},
	{"in-object", true, 257, func(x, y *V) *V { return vMap([]string{"a"}, []*V{x}) }},
	{"in-array", true, 111, func(x, y *V) *V { return vArr(x) }},
	{"siblings-in-array", false, 21, func(x, y *V) *V { return vArr(x, y) }},
	{"siblings-in-object", false, 21, func(x, y *V) *V { return vMap([]string{"a", "b"}, []*V{x, y}) }},
	{"object-array", false, 111, func(x, y *V) *V { return vMap([]string{"a"}, []*V{vArr(vStr(1), x, vStr(1))}) }},
	{"array-object", false, 21, func(x, y *V) *V { return vArr(vMap([]string{"a"}, []*V{x})) }},
}

// seqMode: which encodings of an order family value are decoded. The header forms
// are the matter of the grid; here they are crossed with the lengths up to 21 only.
func seqMode(w seqWrap, n int) mode {
	switch {
	case w.forms && n <= 21 && w.name == "alone":
		return mode{full: true, sum: true}
	case w.forms && n <= 21:
		return mode{sum: true}
	}
	return mode{sum: true, canon: true}
}

// orderCases: every length x {array, object} x every nesting the format can express.
func (sp *spec) orderCases() []valCase {
	if sp.custom != nil {
		return nil
	}
	var out []valCase
	admissible := func(v *V) bool {
		ok := sp.rootOK(v)
		v.walk(func(n *V) {
			if (n.T == "arr" && !sp.arrays) || (n.T == "map" && !sp.maps) || !sp.leafOK(n) {
				ok = false
			}
		})
		return ok
	}
	for _, n := range seqLens {
		for _, w := range seqWraps {
			if n > w.maxN {
				continue
			}
			for _, mk := range []func(int) *V{vSeqArr, vSeqMap} {
				v := w.fn(mk(n), mk(n+1))
				if !admissible(v) {
					continue
				}
				out = append(out, valCase{v: v, m: seqMode(w, n), fam: "order"})
			}
		}
	}
	return out
}

var allSpecs []*spec

func specs() []*spec {
	if allSpecs != nil {
		return allSpecs
	}
	yes := func(*V, enc) bool { return true }
	no := func(*V, enc) bool { return false }
	anyV := func(*V) bool { return true }
	std := func(thorough bool) int {
		if thorough {
			return 4
		}
		return 3
	}
	inA := func(k string) func(*V) *V {
		return func(v *V) *V { return vMap([]string{k}, []*V{v}) }
	}
	allSpecs = []*spec{
		{
			name: "msgpack", fq: "msgpack", binary: true, arrays: true, maps: true,
			leafOK: intIn(minI64, maxU64), rootOK: anyV,
			encs: mpEncs, expect: binToStr, truncOK: yes, trailing: true,
			grid: gridArrMap(true, true, ident, 0), maxNodes: std,
		},
		{
			name: "cbor", fq: "cbor", binary: true, arrays: true, maps: true,
			leafOK: intIn(neg264, maxU64), rootOK: anyV,
			encs: cborEncs, expect: binToStr, truncOK: yes, trailing: true,
			grid: gridArrMap(true, true, ident, 0), maxNodes: std,
		},
		{
			name: "bson", fq: "bson", binary: true, arrays: true, maps: true,
			leafOK: intIn(minI64, maxI64), rootOK: func(v *V) bool { return v.T == "map" },
			encs: bsonEncs, expect: binToStr, truncOK: yes, trailing: true,
			grid: func() []*V {
				return append(gridArrMap(false, true, ident, 0)(), gridArrMap(true, false, inA("a"), 0)()...)
			},
			// the root document is a node: one more level gives the same leaf pairs as the other formats
			maxNodes: std,
		},
		{
			name: "bencode", fq: "bencode", binary: true, arrays: true, maps: true,
			leafOK: func(v *V) bool { return isT(v, "int", "str", "arr", "map") }, rootOK: anyV,
			encs: benEncs, expect: ident, truncOK: yes, trailing: true,
			grid: gridArrMap(true, true, ident, 0), maxNodes: std,
		},
		{
			name: "asn1_ber", fq: "asn1_ber", binary: true, arrays: true, maps: false,
			leafOK: func(v *V) bool { return v.T != "map" }, rootOK: anyV,
			encs: berEncs, expect: binToStr, truncOK: yes, trailing: true,
			grid: gridArrMap(true, false, ident, 0), maxNodes: std,
		},
		{
			name: "json", fq: "json", arrays: true, maps: true,
			leafOK: func(v *V) bool { return v.T != "bin" && finite(v) }, rootOK: anyV,
			encs: jsonEncs, expect: ident, trailing: true,
			// a number's prefix can be a number
			truncOK: func(v *V, e enc) bool { return !isT(v, "int", "flt") },
			grid:    gridArrMap(true, true, ident, 0), maxNodes: std,
		},
		{
			name: "jsonl", fq: "jsonl", arrays: true, maps: true,
			leafOK: func(v *V) bool { return v.T != "bin" && finite(v) },
			rootOK: func(v *V) bool { return v.T == "arr" && len(v.Elems()) > 0 },
			encs:   jsonlEncs, expect: ident, trailing: true, truncOK: no,
			grid: gridArrMap(true, false, ident, 1), maxNodes: std,
		},
		{
			name: "yaml", fq: "yaml", arrays: true, maps: true,
			leafOK: intIn(minI64, maxU64), rootOK: isContainer,
			encs: yamlEncs, expect: binToStr, trailing: true,
			truncOK: func(v *V, e enc) bool { return len(e.L) >= 4 && e.L[:4] == "flow" },
			grid:    gridArrMap(true, true, ident, 0), maxNodes: std,
		},
		{
			name: "toml", fq: "toml", arrays: true, maps: true,
			leafOK: func(v *V) bool { return !isT(v, "null", "bin") && intIn(minI64, maxI64)(v) },
			rootOK: func(v *V) bool { return v.T == "map" && len(v.Elems()) > 0 },
			encs:   tomlEncs, expect: ident, trailing: true, truncOK: no,
			grid: func() []*V {
				return append(gridArrMap(false, true, ident, 1)(), gridArrMap(true, false, inA("a"), 0)()...)
			},
			maxNodes: std,
		},
		{
			name: "xml", fq: "xml", arrays: true, maps: true,
			leafOK: anyV, rootOK: func(v *V) bool { return xmlOK(v, true) },
			encs: xmlEncs, expect: xmlExpect, trailing: true,
			truncOK: yes,
			grid: func() []*V {
				return append(gridArrMap(false, true, ident, 0)(), gridArrMap(true, false, inA("a"), 2)()...)
			},
			maxNodes: std,
		},
		{
			name: "xml:array", fq: "xml", arrays: true, maps: true,
			leafOK: anyV, rootOK: func(v *V) bool { return xmlOK(v, true) },
			// same decoder path as "xml" for errors; only the value mapping differs
			encs: xmlEncs, expect: func(v *V) *V { return xmlArrayExpect("r", v)[0] }, trailing: false,
			truncOK: no,
			opts:    map[string]any{"array": true},
			grid: func() []*V {
				return append(gridArrMap(false, true, ident, 0)(), gridArrMap(true, false, inA("a"), 2)()...)
			},
			maxNodes: std,
		},
		{
			name: "csv", fq: "csv",
			encs: csvEncs, expect: ident, truncOK: no, trailing: false,
			custom: csvCases,
		},
	}
	// cheapest first, so that a run cut by the deadline still covers most formats
	order := []string{"bson", "bencode", "toml", "csv", "jsonl", "json", "xml", "xml:array", "yaml", "msgpack", "asn1_ber", "cbor"}
	var sorted []*spec
	for _, n := range order {
		for _, sp := range allSpecs {
			if sp.name == n {
				sorted = append(sorted, sp)
			}
		}
	}
	if len(sorted) != len(allSpecs) {
		panic("spec order")
	}
	allSpecs = sorted
	return allSpecs
}

func (sp *spec) encSet(v *V, m mode) encSet {
	set := sp.encs(v, m)
	if m.canon {
		return firstOnly{set}
	}
	return set
}

func (sp *spec) cases(thorough bool) []valCase {
	// not cached: the thorough lists are large and only walked once per phase
	var out []valCase
	if sp.custom != nil {
		out = sp.custom(thorough)
	} else {
		var leaves []*V
		for _, l := range allLeaves() {
			if (l.T == "arr" && !sp.arrays) || (l.T == "map" && !sp.maps) {
				continue
			}
			if sp.leafOK(l) {
				leaves = append(leaves, l)
			}
		}
		maxN := sp.maxNodes(thorough)
		bySize := enumValues(leaves, maxN, sp.arrays, sp.maps)
		for n := 1; n <= maxN; n++ {
			for _, v := range bySize[n] {
				if !sp.rootOK(v) {
					continue
				}
				if n >= 3 && hasSoloFloat(v) {
					continue
				}
				vc := valCase{v: v}
				switch {
				case n <= 2:
					vc.m = mode{full: true}
					vc.trailAll = true
				case n == 3:
					// quick: every form of every node one at a time; thorough: the full product.
					// The 64 KiB strings stay in the 1 and 2 node values in the quick tier.
					if !thorough && hasBigString(v) {
						continue
					}
					vc.m = mode{sum: !thorough}
				default:
					// 4 nodes (thorough only): the shortest encoding of every value
					vc.m = mode{sum: true, canon: true}
				}
				out = append(out, vc)
			}
		}
		if sp.grid != nil {
			for _, v := range sp.grid() {
				if sp.rootOK(v) {
					out = append(out, valCase{v: v, m: mode{full: true}, trailAll: true})
				}
			}
		}
	}
	out = append(out, sp.orderCases()...)
	return out
}

// csvCases: documents of rows of string fields.
func csvCases(thorough bool) []valCase {
	fields := []string{"", "a", "a,b", `q"q`, "l1\nl2", " lead", "trail ", "é€", "#c", "a;b", "a\tb", string(patternBytes(65536, false))}
	small := []string{"", "a", "a,b", "#c"}
	rowsOf := func(fs []string) []*V {
		var rows []*V
		for _, a := range fs {
			if a == "" {
				continue // encoding/csv writes a single empty field as an empty line: not representable
			}
			rows = append(rows, vArr(vStrLit(a)))
		}
		for _, a := range fs {
			for _, b := range fs {
				rows = append(rows, vArr(vStrLit(a), vStrLit(b)))
			}
		}
		return rows
	}
	var out []valCase
	add := func(rows ...*V) { out = append(out, valCase{v: vArr(rows...), m: mode{full: true}}) }
	add()
	for _, r := range rowsOf(fields) {
		add(r)
	}
	sr := rowsOf(small)
	for _, a := range sr {
		for _, b := range sr {
			add(a, b)
		}
	}
	if thorough {
		for _, a := range sr {
			for _, b := range sr {
				for _, c := range sr {
					add(a, b, c)
				}
			}
		}
	}
	return out
}
