#!/usr/bin/env python3
import json,sys
pid=sys.argv[1]; wt=sys.argv[2]; out=sys.argv[3]; n=sys.argv[4] if len(sys.argv)>4 else "2"
prop=None
for l in open('/verif/properties.jsonl'):
    p=json.loads(l)
    if p['id']==pid: prop=p
txt=json.dumps(prop,indent=1,ensure_ascii=False)
import glob,os
avoid=[]
for d in sorted(glob.glob('/verif/seeded/%s-*'%pid)):
    f=os.path.join(d,'agent_note.md')
    if os.path.exists(f):
        t=open(f).readline().strip().lstrip('# ').strip()
        if t: avoid.append(t)
avoid_txt=""
if avoid and os.environ.get("SEED_AVOID","1")=="1":
    avoid_txt="\n\nOther people already produced the following changes for this property; do NOT repeat these ideas or touch the same functions - find different mechanisms and different places:\n"+"\n".join("  - "+a for a in avoid)+"\n"
print(f"""You are given a scratch git worktree of the Go project wader/fq (a jq-like CLI and Go library with bit-level decoders for ~130 binary formats) at {wt}. Work ONLY inside {wt} and write your deliverables to {out} (create it). Do not read or write /repo or /verif or any other worktree under /tmp; do not use git commit/stash in ways that affect other worktrees (plain `git diff`, `git checkout -- <file>` inside your worktree are fine). The machine is offline; every shell call that runs go needs:
  export GOFLAGS=-mod=mod GOPROXY=off GOSUMDB=off GOTOOLCHAIN=local GOCACHE=/tmp/seedcache/go-build
(the environment does not persist between shell calls).

Here is a semantic property of fq that users rely on (JSON; "anchors" point at the code that implements it):

{txt}{avoid_txt}

YOUR TASK: produce {n} independent, realistic changes to fq's source code (non-test .go / .jq files of fq itself; never edit tests, testdata or goldens) such that EACH change, applied alone to HEAD:
  1. still compiles (`go build ./...`),
  2. still passes the complete existing test suite unedited: `cd {wt} && go test -vet=off -count=1 -timeout 25m ./...` must report no FAIL (this takes about 2-5 minutes; run it for real, do not assume),
  3. BREAKS the property above in a way you demonstrate with a small Go test (see below) that FAILS with the change and PASSES without it.
The changes should look like something a maintainer could plausibly commit (an optimisation, a refactor, a tidy-up, a "fix" with a slip, a cache, a hoisted buffer, an off-by-one at a boundary, reordered steps) — not sabotage with an obviously magic constant. Most important: each change must need something SPECIFIC to manifest — a particular interleaving, a fault or error at a particular point, a multi-step sequence of operations, an unusual input shape/width/alignment/boundary value, or two cooperating sites that each look fine alone — and must NOT be exposed at once by ordinary use or by the sample files. Make the {n} changes different in kind and in location from each other (different functions/files, different manifestation requirement).

DELIVERABLES in {out} (for N = 1..{n}):
  - changeN.diff  : `git diff` of the change against HEAD (must apply with `git apply` to a clean checkout of HEAD),
  - demoN_test.go : a self-contained Go test file whose test functions are named TestSeed... ; say which package directory it must be copied into (as zz_seed_demo_test.go) and make its `package` clause match. It must FAIL with the change and PASS without it when run as `go test -vet=off -count=1 -run TestSeed ./<pkgdir>/`. It may use fq's packages (e.g. run fq in-process via pkg/interp with a minimal interp.OS, or call pkg/decode, pkg/bitio, ... directly). It must be deterministic.
  - noteN.md      : what was changed (file/function), what it breaks (which clause of the property), exactly what is needed for it to manifest, where the demo goes and how to run it, and the commands you ran with their outcomes (suite with change: pass; demo with change: fail; demo without change: pass).
Verify all three conditions yourself for each change before reporting. If the suite fails with a change, pick a different change. Leave the worktree clean (`git checkout -- . ` and remove any zz_seed_demo_test.go) when done. Your final message: a short list of the {n} changes (one paragraph each: file, idea, what is needed to manifest, demo package dir) and confirmation of the three conditions.""")
