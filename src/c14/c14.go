// Package c14 decides property C14 (conversion functions round-trip and agree
// with reference implementations) by bounded exhaustive enumeration: every input
// of a finite grid is pushed through the real fq functions (in-process
// interpreter, data-driven jq drivers) and each observation is compared with a
// reference computed by the harness from harness bytes (own codecs written from
// the RFC / definition, cross-checked against the Go standard library).
package c14

import (
	"bytes"
	"encoding/hex"
	"encoding/json"
	"fmt"
	"math"
	"math/big"
	"os"
	"sort"
	"strconv"
	"strings"
	"time"
	"unicode/utf8"

	"github.com/wader/fq/internal/verif/core"
	"github.com/wader/fq/internal/verif/fqrun"
	"github.com/wader/gojq"
)

var Check = core.Check{
	ID:     "C14",
	Level:  "exploration",
	Shards: 16,
	Run:    run,
	Replay: replay,
}

// A section enumerates one input family (sharded by chunk) and owns the oracle
// for it. check is also the replay entry point: it judges the given items only.
type section struct {
	name  string
	enum  func(e *env)
	check func(e *env, fn string, items []any)
}

var sections []section

func init() {
	sections = []section{
		{"bytes", enumBytes, checkBytes},
		{"text", enumText, checkText},
		{"urlquery", enumURLQuery, checkURLQuery},
		{"url", enumURL, checkURL},
		{"radix", enumRadix, checkRadix},
		{"xml", enumXML, checkXML},
		{"xmlns", enumXMLNS, checkXMLNS},
		{"csv", enumCSV, checkCSV},
		{"held", enumHeld, checkHeld},
		{"unchanged", enumUnchanged, checkUnchanged},
		{"malformed", enumMalformed, checkMalformed},
		// the serialiser section is by far the most expensive one (every from_* decode costs
		// ~1.5 ms in fq); it runs last so that a deadline can only cut this section
		{"json", enumJSON, checkJSON},
	}
}

func run(r *core.Run) {
	r.Rule("one evaluation = one application of an fq conversion function (encoder, decoder or hash) inside a data-driven driver; a case (function, input) is non-trivial when the function returned a value that was compared with a harness-computed reference or with the original (inverse law), or, for malformed inputs, when both fq and the reference decoder classified the mutated text")
	r.Assume("non-byte-aligned binaries: `tobits[:n]` is read as its bits followed by zero bits up to the next byte (usage.md: binaries act as byte padded strings, bits_format=md5 'zero bit padded'); `tobytes` of it pads the most significant bits (usage.md Binary)")
	r.Assume("text decoders report malformed code unit sequences in-band as U+FFFD (the Unicode replacement convention); this is judged as a signalled error, and the decoded string must equal the reference decoder's replacement output")
	r.Assume("dialects of the malformed-input references: base64 per RFC 4648 with CR/LF ignored and non-zero trailing bits ignored; CSV = Go encoding/csv with LazyQuotes+TrimLeadingSpace and comment '#'; XML = Go encoding/xml non-strict; YAML = yaml.v3; TOML = BurntSushi/toml; URL = net/url")
	r.Assume("empty documents are outside the serialiser domains: `[]|to_jsonl` and `{}|to_toml` produce the empty text which fq's probing decoders reject by design (error, not a wrong value)")

	only := os.Getenv("VERIF_ONLY")
	e := newEnv(r)
	defer e.close()
	for _, s := range sections {
		if only != "" && !strings.Contains(","+only+",", ","+s.name+",") {
			continue
		}
		t0 := time.Now()
		e.sec = s.name
		s.enum(e)
		if e.stopped {
			r.NotExhaustive("deadline: section " + s.name + " not finished")
			break
		}
		r.Section(s.name)
		r.Logf("section %-9s done in %v (chunks so far %d)", s.name, time.Since(t0).Round(time.Millisecond), e.chunk)
	}
}

func replay(r *core.Run, raw json.RawMessage) bool {
	var c struct {
		Sec  string `json:"sec"`
		Fn   string `json:"fn"`
		Item string `json:"item"`
	}
	if err := json.Unmarshal(raw, &c); err != nil {
		fmt.Println("bad case:", err)
		return false
	}
	item, err := parseExact(c.Item)
	if err != nil {
		fmt.Println("bad item:", err)
		return false
	}
	sub := core.NewScratchRun(r)
	e := newEnv(sub)
	defer e.close()
	e.verbose = true
	e.sec = c.Sec
	for _, s := range sections {
		if s.name == c.Sec {
			s.check(e, c.Fn, []any{item})
		}
	}
	for _, v := range sub.Violations() {
		fmt.Printf("  %s: %s\n", v.Signature, v.What)
	}
	return len(sub.Violations()) > 0
}

// ---------------------------------------------------------------------------

type env struct {
	r       *core.Run
	s       *fqrun.Session
	sec     string
	chunk   int64
	verbose bool
	stopped bool
	sampled map[string]bool
}

func newEnv(r *core.Run) *env { return &env{r: r} }

func (e *env) close() {
	if e.s != nil {
		e.s.Close()
		e.s = nil
	}
}

func (e *env) session() *fqrun.Session {
	if e.s == nil {
		s, err := fqrun.NewSession(nil)
		if err != nil {
			panic("fqrun.NewSession: " + err.Error())
		}
		e.s = s
	}
	return e.s
}

// each cuts items into chunks of n; chunks are numbered globally and the ones
// owned by this shard are handed to fn.
func (e *env) each(items []any, n int, fn func(items []any)) {
	for lo := 0; lo < len(items); lo += n {
		hi := lo + n
		if hi > len(items) {
			hi = len(items)
		}
		e.chunk++
		if e.stopped || !e.r.Mine(e.chunk) {
			continue
		}
		if e.r.Expired() {
			e.stopped = true
			continue
		}
		e.r.Case(e.chunk, fmt.Sprintf("%s chunk %d..%d", e.sec, lo, hi))
		fn(items[lo:hi])
	}
}

// stream is each for generated sequences: next is called for every item in all
// shards (cheap), items of owned chunks are collected and handed to fn.
type streamer struct {
	e    *env
	n    int
	fn   func(items []any)
	buf  []any
	mine bool
	cnt  int
}

func (e *env) stream(n int, fn func(items []any)) *streamer {
	return &streamer{e: e, n: n, fn: fn}
}

// want reports whether the item about to be produced must be materialised.
func (s *streamer) want() bool {
	if s.cnt == 0 {
		s.e.chunk++
		s.mine = !s.e.stopped && s.e.r.Mine(s.e.chunk)
		if s.mine && s.e.r.Expired() {
			s.e.stopped = true
			s.mine = false
		}
	}
	return s.mine
}

// put adds the next item (nil when !want()).
func (s *streamer) put(v any) {
	if s.mine {
		s.buf = append(s.buf, v)
	}
	s.cnt++
	if s.cnt == s.n {
		s.flush()
	}
}

func (s *streamer) flush() {
	if len(s.buf) > 0 {
		s.e.r.Case(s.e.chunk, fmt.Sprintf("%s stream chunk %d", s.e.sec, s.e.chunk))
		s.fn(s.buf)
	}
	s.buf = nil
	s.cnt = 0
}

const jqDefs = `def T(f): try [f] catch {e: (tostring)}; def B: [(tobits|length), (tobytes|explode)]; `

// batch runs `jqDefs .[] | body` over inputs and returns one output per input.
// A jq error or a Go panic that escapes the driver is narrowed down to single
// inputs; those are reported and yield nil.
func (e *env) batch(fn, body string, inputs []any) []any {
	prog := jqDefs + ".[] | " + body
	t0 := time.Now()
	outs, err := e.session().Eval(deepCopy(inputs), prog)
	e.r.Count("driver_ms:"+fn, time.Since(t0).Milliseconds())
	e.r.Count("driver_items:"+fn, int64(len(inputs)))
	if err == nil && len(outs) == len(inputs) {
		if e.r.ShardIdx == 0 && !e.sampled[fn] && len(inputs) > 0 {
			// evidence sample: a real evaluated case of this driver (input and raw observation)
			if e.sampled == nil {
				e.sampled = map[string]bool{}
			}
			e.sampled[fn] = true
			k := len(inputs) / 2
			e.r.Sample(map[string]any{"section": e.sec, "driver": fn, "input": trunc(canon(inputs[k]), 300), "observed": trunc(canon(outs[k]), 400)})
		}
		return outs
	}
	if _, ok := fqrun.IsPanic(err); ok {
		e.close()
	}
	if len(inputs) == 1 {
		sig, what := "escape:"+fn, fmt.Sprintf("driver for %s on input %s: %d outputs, error %v", fn, trunc(canon(inputs[0]), 300), len(outs), err)
		if pe, ok := fqrun.IsPanic(err); ok {
			sig = "panic:" + fn + ":" + core.PanicSite(pe.Stack)
		}
		e.violate(sig, what, fn, inputs[0])
		return []any{nil}
	}
	mid := len(inputs) / 2
	return append(e.batch(fn, body, inputs[:mid]), e.batch(fn, body, inputs[mid:])...)
}

func (e *env) violate(sig, what, fn string, item any) {
	if e.verbose {
		fmt.Printf("  VIOLATES %s\n    %s\n", sig, what)
	}
	if f := os.Getenv("VERIF_C14_DUMP"); f != "" { // development aid: unfolded list of every violation
		if fh, err := os.OpenFile(f, os.O_APPEND|os.O_CREATE|os.O_WRONLY, 0o644); err == nil {
			fmt.Fprintf(fh, "%s\t%s\n", sig, what)
			fh.Close()
		}
	}
	e.r.Violate(sig, what, map[string]any{"sec": e.sec, "fn": fn, "item": canon(item)})
}

func (e *env) show(f string, a ...any) {
	if e.verbose {
		fmt.Printf("  "+f+"\n", a...)
	}
}

// ---------------------------------------------------------------------------
// observation helpers

// res is one `T(f)` observation: either values or an error text.
type res struct {
	ok   bool
	vals []any
	err  string
	bad  bool // malformed driver output
}

func getRes(v any) res {
	switch x := unwrap(v).(type) {
	case []any:
		return res{ok: true, vals: x}
	case map[string]any:
		if s, ok := x["e"].(string); ok {
			return res{err: s}
		}
	}
	return res{bad: true, err: "malformed driver output " + trunc(canon(v), 100)}
}

// one returns the single value of a successful observation.
func (r res) one() (any, bool) {
	if r.ok && len(r.vals) == 1 {
		return r.vals[0], true
	}
	return nil, false
}

func (r res) String() string {
	if r.ok {
		if len(r.vals) == 1 {
			return trunc(canon(r.vals[0]), 400)
		}
		return "outputs" + trunc(canon(r.vals), 400)
	}
	return "error(" + trunc(r.err, 200) + ")"
}

func unwrap(v any) any {
	for i := 0; i < 8; i++ {
		if j, ok := v.(gojq.JQValue); ok {
			v = j.JQValueToGoJQ()
			continue
		}
		break
	}
	return v
}

func asList(v any) []any {
	l, _ := unwrap(v).([]any)
	return l
}

func trunc(s string, n int) string {
	if len(s) > n {
		return s[:n] + fmt.Sprintf("...(%d bytes)", len(s))
	}
	return s
}

// canon renders a jq value exactly and deterministically as JSON text: object keys
// sorted, integers (int, big.Int, integral floats below 2^53) as decimal digits,
// other floats in shortest round-trip form with an exponent or fraction. It is
// the equality used by every oracle and the serialisation of replay cases.
func canon(v any) string {
	var b strings.Builder
	canonTo(&b, v)
	return b.String()
}

func canonTo(b *strings.Builder, v any) {
	switch x := v.(type) {
	case nil:
		b.WriteString("null")
	case bool:
		if x {
			b.WriteString("true")
		} else {
			b.WriteString("false")
		}
	case int:
		b.WriteString(strconv.Itoa(x))
	case int64:
		b.WriteString(strconv.FormatInt(x, 10))
	case *big.Int:
		b.WriteString(x.String())
	case float64:
		switch {
		case math.IsNaN(x):
			b.WriteString(`{"!float":"nan"}`)
		case math.IsInf(x, 0):
			b.WriteString(fmt.Sprintf(`{"!float":"inf%+d"}`, int(math.Copysign(1, x))))
		case x == math.Trunc(x) && math.Abs(x) < 1<<53:
			b.WriteString(strconv.FormatInt(int64(x), 10))
		default:
			s := strconv.FormatFloat(x, 'g', -1, 64)
			if !strings.ContainsAny(s, ".e") {
				s += ".0"
			}
			b.WriteString(s)
		}
	case string:
		if !utf8.ValidString(x) {
			b.WriteString(`{"!bytes":"` + hex.EncodeToString([]byte(x)) + `"}`)
			return
		}
		var bb bytes.Buffer
		enc := json.NewEncoder(&bb)
		enc.SetEscapeHTML(false)
		_ = enc.Encode(x)
		b.WriteString(strings.TrimRight(bb.String(), "\n"))
	case []any:
		b.WriteByte('[')
		for i, e := range x {
			if i > 0 {
				b.WriteByte(',')
			}
			canonTo(b, e)
		}
		b.WriteByte(']')
	case map[string]any:
		keys := make([]string, 0, len(x))
		for k := range x {
			keys = append(keys, k)
		}
		sort.Strings(keys)
		b.WriteByte('{')
		for i, k := range keys {
			if i > 0 {
				b.WriteByte(',')
			}
			canonTo(b, k)
			b.WriteByte(':')
			canonTo(b, x[k])
		}
		b.WriteByte('}')
	case gojq.JQValue:
		canonTo(b, x.JQValueToGoJQ())
	case json.Number:
		canonTo(b, numberFromText(string(x)))
	default:
		b.WriteString(fmt.Sprintf(`{"!gotype":%q}`, fmt.Sprintf("%T", v)))
	}
}

func numberFromText(s string) any {
	if !strings.ContainsAny(s, ".eE") {
		if i, err := strconv.Atoi(s); err == nil {
			return i
		}
		if bi, ok := new(big.Int).SetString(s, 10); ok {
			return bi
		}
	}
	f, _ := strconv.ParseFloat(s, 64)
	return f
}

// parseExact is the inverse of canon for harness inputs.
func parseExact(s string) (any, error) {
	d := json.NewDecoder(strings.NewReader(s))
	d.UseNumber()
	var v any
	if err := d.Decode(&v); err != nil {
		return nil, err
	}
	return fixNumbers(v), nil
}

func fixNumbers(v any) any {
	switch x := v.(type) {
	case json.Number:
		return numberFromText(string(x))
	case []any:
		for i := range x {
			x[i] = fixNumbers(x[i])
		}
	case map[string]any:
		for k := range x {
			x[k] = fixNumbers(x[k])
		}
	}
	return v
}

func deepCopy(v any) any {
	switch x := v.(type) {
	case []any:
		o := make([]any, len(x))
		for i := range x {
			o[i] = deepCopy(x[i])
		}
		return o
	case map[string]any:
		o := make(map[string]any, len(x))
		for k, e := range x {
			o[k] = deepCopy(e)
		}
		return o
	case *big.Int:
		return new(big.Int).Set(x)
	}
	return v
}

func bytesToList(b []byte) []any {
	o := make([]any, len(b))
	for i, c := range b {
		o[i] = int(c)
	}
	return o
}

// listToBytes converts a jq array of byte values; ok is false for anything else.
func listToBytes(v any) ([]byte, bool) {
	l, ok := unwrap(v).([]any)
	if !ok {
		return nil, false
	}
	o := make([]byte, len(l))
	for i, x := range l {
		var n int
		switch y := x.(type) {
		case int:
			n = y
		case *big.Int:
			if !y.IsInt64() {
				return nil, false
			}
			n = int(y.Int64())
		default:
			return nil, false
		}
		if n < 0 || n > 255 {
			return nil, false
		}
		o[i] = byte(n)
	}
	return o, true
}

func itemMap(v any) map[string]any { m, _ := v.(map[string]any); return m }
func itemStr(v any) string         { s, _ := v.(string); return s }
func itemInt(v any) int            { i, _ := v.(int); return i }
