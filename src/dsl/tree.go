package dsl

import (
	"fmt"
	"sort"
	"strings"

	"github.com/wader/fq/internal/bitiox"
	"github.com/wader/fq/pkg/bitio"
	"github.com/wader/fq/pkg/decode"
	"github.com/wader/fq/pkg/scalar"
)

// Issue is one failed structural invariant.
type Issue struct {
	Class string
	Msg   string
	// Site names where the issue sits without input specific indexes: the format
	// of the nearest format root and the name of the compound concerned.
	Site string
}

func readerBits(br bitio.ReaderAtSeeker) ([]bool, error) {
	c, err := bitio.CloneReaderAtSeeker(br)
	if err != nil {
		c = br
	}
	l, err := bitiox.Len(c)
	if err != nil {
		return nil, err
	}
	buf := make([]byte, bitio.BitsByteCount(l))
	if l > 0 {
		if _, err := bitio.ReadAtFull(c, buf, l, 0); err != nil {
			return nil, err
		}
	}
	out := make([]bool, l)
	for i := int64(0); i < l; i++ {
		out[i] = buf[i/8]>>(7-uint(i%8))&1 == 1
	}
	return out, nil
}

func isSynthetic(v *decode.Value) bool {
	if s, ok := v.V.(scalar.Scalarable); ok {
		return s.ScalarFlags().IsSynthetic()
	}
	return false
}

func IsGap(v *decode.Value) bool {
	if s, ok := v.V.(scalar.Scalarable); ok {
		return s.ScalarFlags().IsGap()
	}
	return false
}

func PathOf(v *decode.Value) string {
	var parts []string
	for x := v; x != nil && x.Parent != nil; x = x.Parent {
		if pc, ok := x.Parent.V.(*decode.Compound); ok && pc.IsArray {
			idx := -1
			for i, c := range pc.Children {
				if c == x {
					idx = i
				}
			}
			parts = append(parts, fmt.Sprintf("[%d]", idx))
		} else {
			parts = append(parts, "."+x.Name)
		}
	}
	for i, j := 0, len(parts)-1; i < j; i, j = i+1, j-1 {
		parts[i], parts[j] = parts[j], parts[i]
	}
	if len(parts) == 0 {
		return "."
	}
	return strings.Join(parts, "")
}

// bufLenOf returns the bit length of the buffer v's Range refers to.
func bufLenOf(v *decode.Value, topLen int64) (int64, error) {
	// the buffer of a value is the one of the nearest root strictly above it (or the
	// top buffer); a root's own reader is its nested buffer
	for p := v.Parent; p != nil; p = p.Parent {
		if p.IsRoot {
			if p.Parent == nil {
				return topLen, nil
			}
			return bitiox.Len(p.RootReader)
		}
	}
	return topLen, nil
}

// CheckTree verifies the structural part of property C03 on a real tree.
// topLen is the bit length of the input buffer.
func CheckTree(root *decode.Value, topLen int64) []Issue {
	var issues []Issue
	var cur *decode.Value
	add := func(class, f string, a ...any) {
		if len(issues) < 20 {
			site := "?"
			if cur != nil {
				fr := cur.FormatRoot()
				if fr != nil && fr.Format != nil {
					site = fr.Format.Name
				}
				site += ":" + cur.Name
			}
			issues = append(issues, Issue{Class: class, Msg: fmt.Sprintf(f, a...), Site: site})
		}
	}
	var walk func(v *decode.Value)
	walk = func(v *decode.Value) {
		cur = v
		p := PathOf(v)
		if v.Range.Len < 0 || v.Range.Start < 0 {
			add("negative-range", "%s has range %v", p, v.Range)
		}
		if v.Parent != nil {
			bl, err := bufLenOf(v, topLen)
			if err == nil {
				if v.IsRoot {
					// inner range inside own buffer (the position of a nested buffer inside
					// its parent is not observable and not judged)
					_ = bl
					if il, err := bitiox.Len(v.RootReader); err == nil && v.Range.Len > il {
						add("root-range-outside-own-buffer", "%s inner range 0:%d exceeds its buffer of %d bits", p, v.Range.Len, il)
					}
				} else if v.Range.Stop() > bl {
					add("range-outside-buffer", "%s range %v exceeds its buffer of %d bits", p, v.Range, bl)
				}
			}
		} else if v.Range.Stop() > topLen {
			add("range-outside-buffer", "root range %v exceeds the input of %d bits", v.Range, topLen)
		}
		c, ok := v.V.(*decode.Compound)
		if !ok {
			return
		}
		names := map[string]bool{}
		first := true
		var lo, hi int64
		prevStart := int64(-1 << 62)
		for i, ch := range c.Children {
			if ch.Parent != v {
				add("parent-link", "%s child %d (%s) has a different parent", p, i, ch.Name)
			}
			if c.IsArray {
				if ch.Index != i {
					add("array-index", "%s element %d has index %d", p, i, ch.Index)
				}
			} else {
				if ch.Index != -1 {
					add("struct-child-index", "%s field %s has index %d", p, ch.Name, ch.Index)
				}
				if names[ch.Name] {
					add("duplicate-name", "%s has two fields named %q", p, ch.Name)
				}
				names[ch.Name] = true
				if c.ByName[ch.Name] != ch {
					add("byname-mismatch", "%s ByName[%q] is not the child of that name", p, ch.Name)
				}
				if ch.Range.Start < prevStart {
					add("struct-order", "%s field %s (start %d) comes after a field starting at %d", p, ch.Name, ch.Range.Start, prevStart)
				}
				prevStart = ch.Range.Start
			}
			if ch.IsRoot || isSynthetic(ch) {
				continue
			}
			if first {
				lo, hi, first = ch.Range.Start, ch.Range.Stop(), false
			} else {
				lo, hi = min(lo, ch.Range.Start), max(hi, ch.Range.Stop())
			}
		}
		if !c.IsArray && len(c.ByName) != len(c.Children) && len(c.Children) > 0 {
			add("byname-mismatch", "%s has %d children but %d names", p, len(c.Children), len(c.ByName))
		}
		if !first {
			if v.IsRoot {
				if hi > v.Range.Len {
					add("root-range-does-not-span-children", "%s (buffer root) has inner range 0:%d but a child ends at %d", p, v.Range.Len, hi)
				}
			} else if v.Range.Start != lo || v.Range.Stop() != hi {
				add("compound-range-not-span-of-children", "%s has range %v but its children span %d:%d", p, v.Range, lo, hi-lo)
			}
		}
		for _, ch := range c.Children {
			walk(ch)
		}
		cur = v
	}
	walk(root)
	return issues
}

// Flat is a comparable description of a node.
type Flat struct {
	HasSpan bool // reference only: compound whose range is defined by children
	Kind    string
	Start   int64
	Len     int64
	IsRoot  bool
	Val     string
}

func bitsStr(b []bool) string {
	s := make([]byte, len(b))
	for i, v := range b {
		s[i] = '0'
		if v {
			s[i] = '1'
		}
	}
	return string(s)
}

// FlattenReal lists every node of the real tree by path.
func FlattenReal(root *decode.Value) map[string]Flat {
	out := map[string]Flat{}
	_ = root.WalkPreOrder(func(v *decode.Value, _ *decode.Value, _ int, _ int) error {
		f := Flat{Start: v.Range.Start, Len: v.Range.Len, IsRoot: v.IsRoot}
		switch vv := v.V.(type) {
		case *decode.Compound:
			f.Kind = "struct"
			if vv.IsArray {
				f.Kind = "array"
			}
		case *scalar.Uint:
			f.Kind = "u"
			f.Val = fmt.Sprint(vv.Actual)
			if vv.Flags.IsSynthetic() {
				f.Kind = "val"
			}
		case *scalar.Sint:
			f.Kind, f.Val = "s", fmt.Sprint(vv.Actual)
		case *scalar.Bool:
			f.Kind, f.Val = "bool", fmt.Sprint(vv.Actual)
		case *scalar.Str:
			f.Kind, f.Val = "str", vv.Actual
		case *scalar.BitBuf:
			f.Kind = "raw"
			if vv.Flags.IsGap() {
				f.Kind = "gap"
			}
			if v.IsRoot {
				f.Kind = "rootraw"
			}
			if b, err := readerBits(vv.Actual); err == nil {
				f.Val = bitsStr(b)
			} else {
				f.Val = "ERR:" + err.Error()
			}
		default:
			f.Kind = fmt.Sprintf("%T", v.V)
		}
		out[PathOf(v)] = f
		return nil
	})
	return out
}

// FlattenRef lists every node of the predicted tree by path.
func FlattenRef(root *RNode) map[string]Flat {
	out := map[string]Flat{}
	var walk func(n *RNode, path string)
	walk = func(n *RNode, path string) {
		f := Flat{Kind: n.Kind, Start: n.Start, Len: n.Len, IsRoot: n.IsRoot, HasSpan: hardSpan(n)}
		if n.IsRoot {
			f.Len = n.InnerLen
		}
		switch v := n.Val.(type) {
		case []bool:
			f.Val = bitsStr(v)
		case nil:
		default:
			f.Val = fmt.Sprint(v)
		}
		if path == "" {
			out["."] = f
		} else {
			out[path] = f
		}
		for i, c := range n.Children {
			if n.Kind == "array" {
				walk(c, fmt.Sprintf("%s[%d]", path, i))
			} else {
				walk(c, path+"."+c.Name)
			}
		}
	}
	walk(root, "")
	return out
}

func SortedKeys(m map[string]Flat) []string {
	ks := make([]string, 0, len(m))
	for k := range m {
		ks = append(ks, k)
	}
	sort.Strings(ks)
	return ks
}

// BufferRoots returns every value that owns a buffer decoded with gap filling is not
// knowable from the tree alone; callers pass which roots were gap filled. This helper
// returns all root values (top first).
func BufferRoots(root *decode.Value) []*decode.Value {
	var out []*decode.Value
	_ = root.WalkPreOrder(func(v *decode.Value, _ *decode.Value, _ int, _ int) error {
		if v.IsRoot {
			out = append(out, v)
		}
		return nil
	})
	return out
}

// Coverage computes, for the buffer owned by root value rv (length l), the bitmap of
// bits covered by non-gap leaves and by gap leaves of that buffer (not descending into
// nested roots). Leaf ranges are returned for classification.
func Coverage(rv *decode.Value, l int64) (field []int, gap []int, leafRanges [][2]int64, gapRanges [][2]int64, issues []Issue) {
	field = make([]int, l)
	gap = make([]int, l)
	_ = rv.WalkRootPreOrder(func(v *decode.Value, _ *decode.Value, _ int, _ int) error {
		if _, ok := v.V.(*decode.Compound); ok {
			return nil
		}
		if v == rv {
			return nil
		}
		r := v.Range
		if r.Start < 0 || r.Stop() > l || r.Len < 0 {
			issues = append(issues, Issue{Class: "leaf-outside-buffer", Msg: fmt.Sprintf("%s range %v outside buffer of %d bits", PathOf(v), r, l)})
			return nil
		}
		if IsGap(v) {
			gapRanges = append(gapRanges, [2]int64{r.Start, r.Len})
			for b := r.Start; b < r.Stop(); b++ {
				gap[b]++
			}
		} else {
			leafRanges = append(leafRanges, [2]int64{r.Start, r.Len})
			for b := r.Start; b < r.Stop(); b++ {
				field[b]++
			}
		}
		return nil
	})
	return
}

// hardSpan: the range of n is fully determined by what the property demands: a leaf,
// or a compound with at least one range-defining child all of whose compound
// descendants (inside the same buffer) are themselves determined. A compound
// without such children (empty, or only synthetic/nested-root children) may carry
// any range inside the buffer, and so may the compounds spanning it.
func hardSpan(n *RNode) bool {
	if !n.IsCompound() {
		return true
	}
	if !n.HasSpan {
		return false
	}
	for _, c := range n.Children {
		if c.IsRoot || c.Synthetic {
			continue
		}
		if !hardSpan(c) {
			return false
		}
	}
	return true
}

// NodeByPath finds the real node with the path PathOf would print.
func NodeByPath(root *decode.Value, path string) *decode.Value {
	var found *decode.Value
	_ = root.WalkPreOrder(func(v *decode.Value, _ *decode.Value, _ int, _ int) error {
		if found == nil && PathOf(v) == path {
			found = v
		}
		return nil
	})
	return found
}

// RefGapRegions lists (path, lo, hi, buffer id) of every gap filled region the
// reference predicts.
type GapRegion struct {
	Path   string
	Lo, Hi int64
	Buf    int
}

func RefGapRegions(root *RNode) []GapRegion {
	var out []GapRegion
	var walk func(n *RNode, path string)
	walk = func(n *RNode, path string) {
		if n.GapFilled {
			p := path
			if p == "" {
				p = "."
			}
			out = append(out, GapRegion{p, n.GapLo, n.GapHi, n.GapBuf})
		}
		for i, c := range n.Children {
			if n.Kind == "array" {
				walk(c, fmt.Sprintf("%s[%d]", path, i))
			} else {
				walk(c, path+"."+c.Name)
			}
		}
	}
	walk(root, "")
	return out
}

// RegionCoverage describes the gap filled region [lo,hi) decoded below node: the gap
// fields this region's own fill added (gap flagged direct children of node) and all
// other leaves below node in the same buffer (decoded leaves, and gap fields of
// deeper gap filled regions, which were ordinary leaves to this region's fill).
// Positions are relative to lo.
func RegionCoverage(node *decode.Value, lo, hi int64) (other []int, own []int, leaves [][2]int64, gaps [][2]int64, gapVals []*decode.Value, issues []Issue) {
	l := hi - lo
	other = make([]int, l)
	own = make([]int, l)
	_ = node.WalkRootPreOrder(func(v *decode.Value, _ *decode.Value, _ int, _ int) error {
		if _, ok := v.V.(*decode.Compound); ok {
			return nil
		}
		if v == node {
			return nil
		}
		r := v.Range
		if IsGap(v) && v.Parent == node {
			if r.Start < lo || r.Stop() > hi {
				issues = append(issues, Issue{Class: "gap-outside-region", Msg: fmt.Sprintf("%s range %v outside gap filled region %d:%d", PathOf(v), r, lo, hi-lo)})
				return nil
			}
			gaps = append(gaps, [2]int64{r.Start - lo, r.Len})
			gapVals = append(gapVals, v)
			for b := r.Start; b < r.Stop(); b++ {
				own[b-lo]++
			}
			return nil
		}
		if isSynthetic(v) {
			// covers nothing, but its (empty) range is among the ranges the gap fill merges
			if r.Len == 0 {
				leaves = append(leaves, [2]int64{r.Start - lo, 0})
			}
			return nil
		}
		leaves = append(leaves, [2]int64{r.Start - lo, r.Len})
		for b := max(r.Start, lo); b < min(r.Stop(), hi); b++ {
			other[b-lo]++
		}
		return nil
	})
	return
}

// ReaderBits exposes readerBits.
func ReaderBits(br bitio.ReaderAtSeeker) ([]bool, error) { return readerBits(br) }
