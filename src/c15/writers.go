package c15

import (
	"archive/zip"
	"bytes"
	"compress/gzip"
	"fmt"
	"image/png"
	"io"

	"github.com/wader/fq/internal/verif/core"
)

// selfTest cross-checks the hand-written writers against the standard library
// readers (which verify header CRC16, CRC-32, ISIZE, chunk CRCs, Adler-32 and the
// zip64 records). A failure is a harness error, never a verdict.
func selfTest(r *core.Run) {
	fail := func(f string, a ...any) {
		panic("c15 self test of a hand-written writer failed: " + fmt.Sprintf(f, a...))
	}
	// gzip: every flag subset, two members
	for flags := 0; flags < 32; flags += 2 {
		f := gzBuild(&gzSpec{Writer: "hand", Level: 9, Flags: flags, Count: 2, Name: 2, Pay: 2})
		exp := f.Exp.(*gzExp)
		zr, err := gzip.NewReader(bytes.NewReader(f.Data))
		if err != nil {
			fail("gzip flags %#x: %v", flags, err)
		}
		m := exp.Members[0]
		// compress/gzip decodes the name as Latin-1: compare the raw bytes
		if flags&fNAME != 0 && !bytes.Equal(latin1Encode(zr.Name), []byte(m.Name)) {
			fail("gzip flags %#x: name %q", flags, zr.Name)
		}
		if flags&fCOMMENT != 0 && zr.Comment != m.Comment {
			fail("gzip flags %#x: comment %q", flags, zr.Comment)
		}
		if flags&fEXTRA != 0 && !bytes.Equal(zr.Extra, m.Extra) {
			fail("gzip flags %#x: extra %x", flags, zr.Extra)
		}
		all, err := io.ReadAll(zr)
		if err != nil || !bytes.Equal(all, append(append([]byte{}, m.Payload...), exp.Members[1].Payload...)) {
			fail("gzip flags %#x: payload %v", flags, err)
		}
	}
	// png: every colour type / depth of the hand writer, with all text chunks
	for _, col := range []string{"gray", "gray_alpha", "rgb", "rgba", "palette"} {
		depths := []int{8, 16}
		if col == "palette" {
			depths = []int{1, 2, 4, 8}
		}
		for _, d := range depths {
			for size := range pngSizes {
				f := pngBuild(&pngSpec{Writer: "hand", Size: size, Color: col, Depth: d, Text: 4})
				im, err := png.Decode(bytes.NewReader(f.Data))
				if err != nil {
					fail("png %s/%d: %v", col, d, err)
				}
				if im.Bounds().Dx() != pngSizes[size][0] || im.Bounds().Dy() != pngSizes[size][1] {
					fail("png %s/%d: bounds %v", col, d, im.Bounds())
				}
			}
		}
	}
	// zip64
	for _, method := range []int{0, 8} {
		f := zipBuild(&zipSpec{Writer: "zip64", Method: method, Comment: true, Count: 3, Name: 1, Pay: 2})
		exp := f.Exp.(*zipExp)
		zr, err := zip.NewReader(bytes.NewReader(f.Data), int64(len(f.Data)))
		if err != nil || len(zr.File) != 3 || zr.Comment != exp.Comment {
			fail("zip64: %v", err)
		}
		for i, zf := range zr.File {
			rc, err := zf.Open()
			if err != nil {
				fail("zip64 open: %v", err)
			}
			b, err := io.ReadAll(rc)
			if err != nil || !bytes.Equal(b, exp.Members[i].Payload) || zf.Name != exp.Members[i].Name {
				fail("zip64 entry %d: %v", i, err)
			}
		}
	}
}

func latin1Encode(s string) []byte {
	var b []byte
	for _, r := range s {
		b = append(b, byte(r))
	}
	return b
}
