// Package c11 decides property C11 (the internal query rewrite preserves the
// meaning of the user's program) by grammar-directed exhaustive enumeration of
// jq programs up to a construct bound, with a syntactic oracle (print/parse
// round trip directly, through the JSON image used by pkg/interp/query.go, and
// through fq's own _query_fromstring/_query_tostring/_eval_query_rewrite) and a
// semantic oracle (fq command line run vs. direct evaluation of the bare program).
package c11

import (
	"encoding/json"
	"fmt"
	"hash/fnv"
	"os"
	"strconv"
	"strings"
	"time"
	"unicode/utf8"

	"github.com/wader/fq/internal/verif/core"
	"github.com/wader/gojq"
)

var Check = core.Check{
	ID:     "C11",
	Level:  "exploration",
	Shards: 16,
	Run:    run,
	Replay: replay,
	Parent: parent,
}

// A level is reported as completed only when every shard finished its part:
// shards count "section_done:<name>", the parent compares with the number of shards.
var sectionNames []string

func sectionDone(r *core.Run, name string) {
	r.Count("section_done:"+name, 1)
}

func parent(r *core.Run) {
	n := r.Counter("shards_run")
	if n == 0 {
		return
	}
	for _, name := range plannedSections(r) {
		if r.Counter("section_done:"+name) == n {
			r.Section(name)
		}
	}
}

type Case struct {
	Kind    string `json:"kind"` // syn | fqpath | sem
	Program string `json:"program"`
	// ProgramGo: Go quoted program text, set when the text is not valid UTF-8 (JSON cannot carry it)
	ProgramGo string `json:"program_go,omitempty"`
	Skel      string `json:"skel,omitempty"`
	Mode      string `json:"mode,omitempty"`
}

func hashText(s string) uint64 {
	h := fnv.New64a()
	h.Write([]byte(s))
	return h.Sum64()
}

// level is one completely enumerated set of programs.
type level struct {
	name   string
	n      int    // exact number of constructs
	pol    policy // atoms per hole
	set    genSet // which constructs
	pair   bool   // size 1: all pairs of holes over the full alphabet
	single bool   // size 1: one hole at a time over the full alphabet
	json   bool   // syntactic: also mirror the AST->JSON->AST path in Go
	// rootShard: partition by outermost construct instead of by text hash (no
	// shard enumerates the others' subtrees; duplicates are not removed)
	rootShard bool
}

var gens = map[genSet]*gen{}

func genFor(set genSet) *gen {
	g, ok := gens[set]
	if !ok {
		g = newGenSet(set)
		gens[set] = g
	}
	return g
}

func (l level) each(r *core.Run, yield func(item) bool) bool {
	g := genFor(l.set)
	g.shardN, g.shardIdx = 0, 0
	if l.rootShard && r != nil && r.ShardN > 1 {
		g.shardN, g.shardIdx = r.ShardN, r.ShardIdx
	}
	defer func() { g.shardN = 0 }()
	if l.pair {
		return g.level1Pairs(yield)
	}
	if l.single {
		return g.level1Singles(yield)
	}
	return g.programs(l.n, l.pol, yield)
}

func (l level) mine(r *core.Run, h uint64) bool {
	if l.rootShard && r.ShardN > 1 {
		return true
	}
	return r.Mine(int64(h >> 2))
}

func only(sec string) bool {
	o := os.Getenv("VERIF_ONLY")
	if o == "slurplast" {
		return sec == "sem" // runSemantic then skips every other mode
	}
	return o == "" || o == sec
}

func run(r *core.Run) {
	r.Rule("a program is non-trivial when gojq.Parse accepts it and it has at least one construct (operator, keyword form, bracket, suffix, directive) or belongs to the capture set; counted by distinct program text")
	r.Assume("size of a program = number of grammar constructs applied (operators, keyword forms, brackets, suffixes, directives); leaves are atoms (literal snippets) of size 0. Atoms per leaf: size 0 and 1 the full alphabet (size 1: every pair of holes ranges over the full alphabet while the other holes hold one atom); size 2: two (thorough also four) atoms per hole; size >= 3: one atom per hole (the innermost bound name if any, else literals numbered in text order). The level names in sections_completed say which set was enumerated completely")
	r.Assume("semantic oracle: programs are built from deterministic, side effect free constructs (no calls of input/inputs/env/now/halt/display); reference = direct evaluation of the unmodified program text by an fq interpreter session (same builtins, no rewrite) on the same input values; values are compared as canonical JSON")
	r.Assume("a command line run that does not finish within 60 s (normal cost 50 ms) is inconclusive (counted, never an alarm)")
	t0 := time.Now()
	g := genFor(setFull)
	r.Extra("constructs", len(g.prods))
	r.Extra("atoms", len(g.atoms))
	r.Extra("pattern_atoms", len(patternAtoms))
	r.Extra("binary_operators", len(binOps))

	r.Count("shards_run", 1)
	var st *semState
	phases := plan(r, &st)
	for _, ph := range phases {
		if !only(ph.sec) {
			continue
		}
		if !ph.fn() {
			break
		}
		r.Logf("phase %s done at %v", ph.sec, time.Since(t0).Round(time.Second))
	}
	if st != nil {
		st.close()
	}
}

type phase struct {
	sec string
	fn  func() bool
}

func plannedSections(r *core.Run) []string {
	var st *semState
	plan(r, &st)
	return sectionNames
}

// plan lists the phases of a tier in execution order (most specific oracles
// first, the bulk syntactic level last) and records the section names.
func plan(r *core.Run, stp **semState) []phase {
	var phases []phase
	var names []string
	syn := func(ls ...level) phase {
		for _, l := range ls {
			names = append(names, "syntactic:"+l.name)
		}
		return phase{"syn", func() bool { return runSyntactic(r, ls) }}
	}
	fqp := func(ls ...level) phase {
		for _, l := range ls {
			names = append(names, "fqpath:"+l.name)
		}
		return phase{"fqpath", func() bool { return runFqPath(r, ls) }}
	}
	sem := func(ls ...semLevel) phase {
		for _, l := range ls {
			names = append(names, "semantic:"+l.name+":"+strings.Join(l.modes, "+"))
		}
		return phase{"sem", func() bool {
			if *stp == nil {
				*stp = newSemState()
				(*stp).r = r
			}
			return runSemantic(r, *stp, ls)
		}}
	}
	hist := func() phase {
		names = append(names, "histories:confusable")
		return phase{"hist", func() bool { return runHistories(r) }}
	}
	all := semModes
	null := []string{"null"}
	l0 := level{name: "size0-full", n: 0, pol: polFull, json: true}
	l1p := level{name: "size1-full-pairs", n: 1, pol: polFull, pair: true, json: true}
	l1s := level{name: "size1-full-single", n: 1, pol: polFull, single: true}
	l2k1 := level{name: "size2-k1", n: 2, pol: polK1}
	l2k2 := level{name: "size2-k2", n: 2, pol: polK2, json: true}
	l2k4 := level{name: "size2-k4", n: 2, pol: polK4, json: true}
	l3 := level{name: "size3-k1", n: 3, pol: polK1}
	s0 := level{name: "size0-full", n: 0, pol: polFull, set: setSem}
	s1k1 := level{name: "size1-k1", n: 1, pol: polK1, set: setSem}
	s1k4 := level{name: "size1-k4", n: 1, pol: polK4, set: setSem}
	s1s := level{name: "size1-full-single", n: 1, pol: polFull, single: true, set: setSem}
	s2k1 := level{name: "size2-k1", n: 2, pol: polK1, set: setSem}
	s3mini := level{name: "size3-k1-mini-constructs", n: 3, pol: polK1, set: setMini}
	l3j := l3
	l3j.json = true
	l4core := level{name: "size4-k1-core-constructs", n: 4, pol: polK1, set: setCore, rootShard: true}

	if r.Quick() {
		phases = []phase{
			syn(l0, l1p, l2k2),
			fqp(l0, l1s, l2k1),
			hist(),
			sem(semLevel{level{name: "slurp-stages"}, []string{"slurplast"}}, semLevel{s0, []string{"slurplast"}}, semLevel{s1k1, []string{"slurplast"}}, semLevel{s1k4, []string{"slurplast"}}),
			sem(semLevel{level{name: "capture-set"}, all}, semLevel{s0, all}, semLevel{s1k1, all}, semLevel{s1k4, []string{"null", "normal"}}, semLevel{s2k1, null}),
			syn(l3),
		}
	} else {
		phases = []phase{
			syn(l0, l1p, l2k2),
			fqp(l0, l1s, l2k1),
			hist(),
			sem(semLevel{level{name: "capture-set"}, all}, semLevel{s0, all}, semLevel{s1k1, all}, semLevel{s1k4, all}, semLevel{s2k1, null}),
			sem(semLevel{level{name: "slurp-stages"}, []string{"slurplast"}}, semLevel{s0, []string{"slurplast"}}, semLevel{s1k1, []string{"slurplast"}}, semLevel{s1k4, []string{"slurplast"}}, semLevel{s2k1, []string{"slurplast"}}),
			syn(l3j),
			fqp(l1p, l2k2),
			sem(semLevel{s1s, null}, semLevel{s2k1, []string{"normal", "slurp"}}),
			syn(l2k4),
			fqp(l3),
			sem(semLevel{s3mini, null}),
			syn(l4core),
		}
	}
	sectionNames = names
	return phases
}

// rootCause gives all symptoms of two marginal, separately recorded defects one
// class each, keyed on the only construct that triggers them (so that they do
// not fan out into one signature per oracle): invalid UTF-8 in the program text
// and an import directive with an empty path.
func rootCause(prog string) string {
	if !utf8.ValidString(prog) {
		return sigInvalidUTF8
	}
	if strings.Contains(prog, "import \"\" as") {
		if q, err := gojq.Parse(prog); err == nil {
			for _, im := range q.Imports {
				if im.ImportPath == "" && im.ImportAlias != "" {
					return sigEmptyImport
				}
			}
		}
	}
	return ""
}

func report(r *core.Run, kind string, it item, mode string, vs []viol) {
	for _, v := range vs {
		prog := it.text
		if v.prog != "" {
			prog = v.prog
		}
		if rc := rootCause(prog); rc != "" {
			v.sig = rc
		}
		c := Case{Kind: kind, Program: prog, Skel: it.skel, Mode: mode}
		if !utf8.ValidString(prog) {
			c.ProgramGo = strconv.Quote(prog)
		}
		r.Violate(v.sig, v.what, c)
	}
}

func runSyntactic(r *core.Run, levels []level) bool {
	for _, l := range levels {
		var cand, mine, acc, rej, strictDiff int64
		seen := map[uint64]struct{}{}
		dedupe := !l.rootShard
		done := l.each(r, func(it item) bool {
			cand++
			h := hashText(it.text)
			if !l.mine(r, h) {
				return true
			}
			if dedupe {
				if _, ok := seen[h]; ok {
					return true
				}
				seen[h] = struct{}{}
			}
			if mine&0x3ff == 0 && r.Expired() {
				return false
			}
			mine++
			ok, t1, strict, vs := synCheck(it.text, it.skel, l.json)
			if !ok {
				rej++
				return true
			}
			acc++
			if !strict {
				strictDiff++
			}
			r.Eval(1)
			if l.n > 0 {
				r.NontrivialHash(h)
			}
			if len(vs) > 0 {
				report(r, "syn", it, "", vs)
			}
			if acc%50021 == 1 {
				r.Sample(map[string]any{"oracle": "syntactic", "level": l.name, "program": it.text, "printed": t1})
			}
			return true
		})
		if r.ShardIdx == 0 && !l.rootShard {
			r.Extra("candidates_"+l.name, cand)
		}
		r.Count("syn_accepted_"+l.name, acc)
		r.Count("syn_rejected_by_parser_"+l.name, rej)
		r.Count("syn_reprint_not_identical_tree_"+l.name, strictDiff)
		if !done {
			r.NotExhaustive("deadline: syntactic level " + l.name + " not finished")
			return false
		}
		sectionDone(r, "syntactic:"+l.name)
		r.Logf("syntactic %s: candidates=%d mine=%d accepted=%d rejected=%d", l.name, cand, mine, acc, rej)
	}
	return true
}

func replay(r *core.Run, raw json.RawMessage) bool {
	var c Case
	if err := json.Unmarshal(raw, &c); err != nil {
		fmt.Println("bad case:", err)
		return false
	}
	if c.ProgramGo != "" {
		if u, err := strconv.Unquote(c.ProgramGo); err == nil {
			c.Program = u
		}
	}
	it := item{c.Program, c.Skel}
	var vs []viol
	switch c.Kind {
	case "syn":
		ok, t1, _, v := synCheck(c.Program, c.Skel, true)
		fmt.Printf("  program: %q\n  accepted: %v\n  printed:  %q\n", c.Program, ok, t1)
		vs = v
	case "fqpath":
		vs = fqPathBatch(nil, []item{it})
	case "hist":
		return histCheckSeq(nil, strings.Split(c.Skel, "\x01"), map[string]string{}, map[string]string{}, true)
	case "sem":
		st := newSemState()
		defer st.close()
		vs = st.check(it, c.Mode, true, strings.Contains(c.Skel, ":"))
	}
	for _, v := range vs {
		if rc := rootCause(c.Program); rc != "" {
			v.sig = rc
		}
		fmt.Printf("  %s: %s\n", v.sig, v.what)
	}
	return len(vs) > 0
}
